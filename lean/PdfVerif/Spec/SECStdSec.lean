import PdfVerif.Basic
/-!
# The standard security handler as ISO 32000-2:2020 §7.6 describes it

An independent transcription of the standard's algorithms (1, 1.A, 2, 2.A, 2.B, 3–13), the
padding string, the `/P` encoding and the Encrypt-dictionary layout (Tables 20, 21, 25, 27).
It shares nothing with `Model/` (only `Basic.lean`'s byte conventions).  Each definition quotes
the step of the standard it transcribes.  The primitives are a parameter (`Crypto`); CBC mode
(NIST SP 800-38A) and the RFC 8018 padding are written out here.

`Props/C10sec.lean` proves that the model of `crypto.go` computes the same values; the C10
harness runs this file (through the driver) against real Writer output and feeds files
encrypted by it to the real Reader.
-/
namespace PdfVerif.SpecSec
open PdfVerif

structure Crypto where
  md5 : Bytes → Bytes
  sha256 : Bytes → Bytes
  sha384 : Bytes → Bytes
  sha512 : Bytes → Bytes
  /-- RC4 encryption (= decryption) of a whole message under a key -/
  rc4 : Bytes → Bytes → Bytes
  /-- the AES block function and its inverse (key, 128-bit block) -/
  aesBlockEnc : Bytes → Bytes → Bytes
  aesBlockDec : Bytes → Bytes → Bytes

/-! ## generalities -/

/-- §7.6.4.3.2 (a): the 32-byte padding string -/
def padString : Bytes :=
  [0x28, 0xBF, 0x4E, 0x5E, 0x4E, 0x75, 0x8A, 0x41, 0x64, 0x00, 0x4E, 0x56, 0xFF, 0xFA, 0x01, 0x08,
   0x2E, 0x2E, 0x00, 0xB6, 0xD0, 0x68, 0x3E, 0x80, 0x2F, 0x0C, 0xA9, 0xFE, 0x64, 0x53, 0x69, 0x7A]

def xor (a b : Bytes) : Bytes :=
  match a, b with
  | x :: xs, y :: ys => Nat.xor x y :: xor xs ys
  | _, _ => []

/-- split into 16-byte blocks (a trailing partial block is dropped; callers pass whole blocks) -/
def blocks : Nat → Bytes → List Bytes
  | 0, _ => []
  | n+1, d => d.take 16 :: blocks n (d.drop 16)

/-- CBC encryption, SP 800-38A §6.2: `C₁ = E(P₁ ⊕ IV)`, `Cⱼ = E(Pⱼ ⊕ Cⱼ₋₁)` -/
def cbcEncList (C : Crypto) (k : Bytes) : Bytes → List Bytes → List Bytes
  | _, [] => []
  | prev, p :: ps => let c := C.aesBlockEnc k (xor p prev); c :: cbcEncList C k c ps

/-- CBC decryption: `P₁ = D(C₁) ⊕ IV`, `Pⱼ = D(Cⱼ) ⊕ Cⱼ₋₁` -/
def cbcDecList (C : Crypto) (k : Bytes) : Bytes → List Bytes → List Bytes
  | _, [] => []
  | prev, c :: cs => xor (C.aesBlockDec k c) prev :: cbcDecList C k c cs

def cbcEnc (C : Crypto) (k iv d : Bytes) : Bytes := (cbcEncList C k iv (blocks (d.length / 16) d)).flatten
def cbcDec (C : Crypto) (k iv d : Bytes) : Bytes := (cbcDecList C k iv (blocks (d.length / 16) d)).flatten

/-- §7.6.3.1: "pad the data … strings/streams of length M: 16 − (M mod 16) bytes whose value
shall also be 16 − (M mod 16)" (RFC 8018 padding) -/
def pad16 (x : Bytes) : Bytes :=
  let k := 16 - x.length % 16
  x ++ List.replicate k k

/-- removal of that padding; `none` if the data do not end in a valid padding -/
def unpad16 (x : Bytes) : Option Bytes :=
  match x.reverse with
  | [] => none
  | k :: _ =>
    if x.length % 16 = 0 ∧ 1 ≤ k ∧ k ≤ 16 ∧ k ≤ x.length ∧ x.drop (x.length - k) = List.replicate k k
    then some (x.take (x.length - k)) else none

/-- an unsigned integer as `n` bytes, low-order byte first -/
def leBytes : Nat → Nat → Bytes
  | 0, _ => []
  | n+1, v => v % 256 :: leBytes n (v / 256)

/-- the value of a byte string read as an unsigned big-endian integer -/
def beValue (bs : Bytes) : Nat := bs.foldl (fun acc b => acc * 256 + b) 0

def iterate {α} (f : α → α) : Nat → α → α
  | 0, x => x
  | n+1, x => iterate f n (f x)

/-! ## Algorithm 1 / 1.A — encryption of data -/

inductive Method where
  | v2      -- RC4 in a /V 1 or 2 file (no crypt filters: every string and stream is encrypted)
  | v2cf    -- RC4 as the /CFM /V2 method of the standard crypt filter in a /V 4 file (PDF 1.5)
  | aesv2   -- AES-128 CBC
  | aesv3   -- AES-256 CBC
  deriving DecidableEq, Repr

/-- Algorithm 1 (a)–(d).  (b) "extend the n-byte file encryption key with the low-order 3 bytes
of the object number and the low-order 2 bytes of the generation number, low-order byte first;
if using the AES algorithm, extend by the 4 bytes 0x73 0x41 0x6C 0x54 ("sAlT")"; (c) MD5;
(d) "use the first (n + 5) bytes, up to a maximum of 16". -/
def objectKey (C : Crypto) (m : Method) (fileKey : Bytes) (num gen : Nat) : Bytes :=
  match m with
  | .aesv3 => fileKey                                   -- Algorithm 1.A: the file key itself
  | _ =>
    let ext := fileKey ++ leBytes 3 num ++ leBytes 2 gen ++
      (if m = .aesv2 then [0x73, 0x41, 0x6C, 0x54] else [])
    (C.md5 ext).take (Nat.min (fileKey.length + 5) 16)

/-- encrypt a string or stream of object `(num, gen)`; for AES the 16-byte `iv` is stored first -/
def encryptData (C : Crypto) (m : Method) (fileKey : Bytes) (num gen : Nat) (iv data : Bytes) : Bytes :=
  let k := objectKey C m fileKey num gen
  match m with
  | .v2 => C.rc4 k data
  | .v2cf => C.rc4 k data
  | _ => iv ++ cbcEnc C k iv (pad16 data)

def decryptData (C : Crypto) (m : Method) (fileKey : Bytes) (num gen : Nat) (data : Bytes) : Option Bytes :=
  let k := objectKey C m fileKey num gen
  match m with
  | .v2 => some (C.rc4 k data)
  | .v2cf => some (C.rc4 k data)
  | _ =>
    if data.length < 32 ∨ data.length % 16 ≠ 0 then none
    else unpad16 (cbcDec C k (data.take 16) (data.drop 16))

/-! ## Revisions 2–4 -/

/-- what the algorithms need from the Encrypt dictionary and the trailer -/
structure Params where
  R : Nat
  /-- file key length in bytes: 5 for R 2, `/Length ÷ 8` otherwise -/
  n : Nat
  O : Bytes
  U : Bytes
  /-- `/P` as an unsigned 32-bit quantity -/
  P : Nat
  id0 : Bytes
  encryptMetadata : Bool
  OE : Bytes := []
  UE : Bytes := []
  Perms : Bytes := []

/-- Algorithm 2 (a) / 3 (a),(e): "pad or truncate the password string to exactly 32 bytes …
using the padding string" -/
def padPassword (pw : Bytes) : Bytes := (pw ++ padString).take 32

/-- Algorithm 2: the file encryption key from a (user) password.
(b) MD5 of the padded password, (c) `/O`, (d) `/P` low-order byte first, (e) the first ID
element, (f) R ≥ 4 and metadata not encrypted: 0xFFFFFFFF, (g) finish, (h) R ≥ 3: 50 times MD5
of the first n bytes, (i) the first n bytes. -/
def alg2 (C : Crypto) (p : Params) (pw : Bytes) : Bytes :=
  let input := padPassword pw ++ p.O ++ leBytes 4 p.P ++ p.id0 ++
    (if p.R ≥ 4 ∧ ¬ p.encryptMetadata then [0xFF, 0xFF, 0xFF, 0xFF] else [])
  let h := C.md5 input
  let h := if p.R ≥ 3 then iterate (fun d => C.md5 (d.take p.n)) 50 h else h
  h.take p.n

/-- Algorithm 3 (a)–(d): the RC4 key made from the owner password.  (c) "R ≥ 3: do the
following 50 times: take the output from the previous MD5 hash and pass it as input into a new
MD5 hash" — the *whole* 16-byte output, unlike Algorithm 2 (h); (d) the first n bytes. -/
def ownerKey (C : Crypto) (p : Params) (ownerPw : Bytes) : Bytes :=
  let h := C.md5 (padPassword ownerPw)
  let h := if p.R ≥ 3 then iterate C.md5 50 h else h
  h.take p.n

def xorKey (k : Bytes) (i : Nat) : Bytes := k.map (Nat.xor · i)

/-- Algorithm 3: `/O`.  (f) RC4 of the padded user password, (g) R ≥ 3: 19 more passes with the
key XORed with the counter 1 … 19. -/
def alg3 (C : Crypto) (p : Params) (ownerPw userPw : Bytes) : Bytes :=
  let k := ownerKey C p ownerPw
  let x := C.rc4 k (padPassword userPw)
  if p.R ≥ 3 then (List.range 19).foldl (fun acc i => C.rc4 (xorKey k (i + 1)) acc) x else x

/-- Algorithm 4 (R 2): `/U` = RC4 of the padding string under the file key -/
def alg4 (C : Crypto) (fileKey : Bytes) : Bytes := C.rc4 fileKey padString

/-- Algorithm 5 (R 3, 4): the first 16 bytes of `/U`: MD5(padding string ‖ ID), RC4 with the
file key, then 19 passes with key ⊕ counter; the remaining 16 bytes are arbitrary -/
def alg5 (C : Crypto) (p : Params) (fileKey : Bytes) : Bytes :=
  let h := C.md5 (padString ++ p.id0)
  let x := C.rc4 fileKey h
  (List.range 19).foldl (fun acc i => C.rc4 (xorKey fileKey (i + 1)) acc) x

/-- Algorithm 6: the user password is right iff the recomputed `/U` matches (R ≥ 3: the first
16 bytes).  Returns the file key. -/
def alg6 (C : Crypto) (p : Params) (pw : Bytes) : Option Bytes :=
  let k := alg2 C p pw
  if p.R = 2 then (if alg4 C k = p.U then some k else none)
  else (if (alg5 C p k).take 16 = p.U.take 16 then some k else none)

/-- Algorithm 7: decrypt `/O` with the owner key (R ≥ 3: 20 passes, counter 19 … 0); the result
is the purported padded user password, tested with Algorithm 6 -/
def alg7 (C : Crypto) (p : Params) (ownerPw : Bytes) : Option Bytes :=
  let k := ownerKey C p ownerPw
  let u :=
    if p.R = 2 then C.rc4 k p.O
    else (List.range 20).reverse.foldl (fun acc i => C.rc4 (xorKey k i) acc) p.O
  alg6 C p u

/-! ## Revision 6 -/

/-- one round (a)–(d) of Algorithm 2.B: new K and E -/
def hashRound (C : Crypto) (pw ukey K : Bytes) : Bytes × Bytes :=
  let k1 := (List.replicate 64 (pw ++ K ++ ukey)).flatten           -- (a)
  let e := cbcEnc C (K.take 16) ((K.drop 16).take 16) k1             -- (b) AES-128, CBC, no padding
  let K' := match beValue (e.take 16) % 3 with                       -- (c)
    | 0 => C.sha256 e
    | 1 => C.sha384 e
    | _ => C.sha512 e                                                -- (d)
  (K', e)

def lastByte (e : Bytes) : Nat := match e.reverse with | [] => 0 | b :: _ => b

/-- (e), (f): from round number 64 on, repeat while the last byte of E exceeds round − 32.
A byte is at most 255, so this happens for round numbers up to 286 at most: 223 extra rounds
(`fuel`, given as 224 by the caller, is never exhausted). -/
def extraRounds (C : Crypto) (pw ukey : Bytes) : Nat → Nat → Bytes × Bytes → Bytes
  | 0, _, ke => ke.1
  | fuel+1, round, ke =>
    if lastByte ke.2 > round - 32 then extraRounds C pw ukey fuel (round + 1) (hashRound C pw ukey ke.1)
    else ke.1

/-- Algorithm 2.B: `input` is password ‖ salt (‖ 48-byte U for owner operations) -/
def alg2B (C : Crypto) (pw salt ukey : Bytes) : Bytes :=
  let K := C.sha256 (pw ++ salt ++ ukey)
  let ke := iterate (fun ke => hashRound C pw ukey ke.1) 64 (K, [])
  (extraRounds C pw ukey 224 64 ke).take 32

/-- §7.6.4.3.3: the UTF-8 password is truncated to 127 bytes (after SASLprep, which is an input here) -/
def truncate127 (pw : Bytes) : Bytes := pw.take 127

def zeroIV : Bytes := List.replicate 16 0

/-- Algorithm 8: `/U` = hash(pw ‖ validation salt) ‖ validation salt ‖ key salt;
`/UE` = AES-256-CBC (no padding, zero IV) of the file key under hash(pw ‖ key salt) -/
def alg8 (C : Crypto) (fileKey pw valSalt keySalt : Bytes) : Bytes × Bytes :=
  (alg2B C pw valSalt [] ++ valSalt ++ keySalt, cbcEnc C (alg2B C pw keySalt []) zeroIV fileKey)

/-- Algorithm 9: the same with the 48-byte `/U` appended to the hash input -/
def alg9 (C : Crypto) (fileKey pw u valSalt keySalt : Bytes) : Bytes × Bytes :=
  (alg2B C pw valSalt u ++ valSalt ++ keySalt, cbcEnc C (alg2B C pw keySalt u) zeroIV fileKey)

/-- Algorithm 10: `/Perms`.  (a) `/P` extended to 64 bits with the upper 32 bits set, (b) low
byte first in bytes 0–7, (c) 'T'/'F' for EncryptMetadata, (d) "adb", (e) 4 arbitrary bytes,
(f) AES-256 ECB with the file key -/
def permsPlain (P : Nat) (encryptMetadata : Bool) (rnd : Bytes) : Bytes :=
  leBytes 8 (P + 0xFFFFFFFF * 2 ^ 32) ++ [if encryptMetadata then 0x54 else 0x46] ++ [0x61, 0x64, 0x62] ++ rnd.take 4

def alg10 (C : Crypto) (fileKey : Bytes) (P : Nat) (encryptMetadata : Bool) (rnd : Bytes) : Bytes :=
  C.aesBlockEnc fileKey (permsPlain P encryptMetadata rnd)

/-- Algorithm 13: decrypt `/Perms`; bytes 9–11 must be "adb", bytes 0–3 must equal `/P`, byte 8
must agree with EncryptMetadata -/
def alg13 (C : Crypto) (p : Params) (fileKey : Bytes) : Bool :=
  let d := C.aesBlockDec fileKey p.Perms
  decide ((d.drop 9).take 3 = [0x61, 0x64, 0x62] ∧ d.take 4 = leBytes 4 p.P ∧
          (d.drop 8).take 1 = [if p.encryptMetadata then 0x54 else 0x46])

/-- Algorithm 11 + 2.A (d): the user password -/
def alg11 (C : Crypto) (p : Params) (pw : Bytes) : Option Bytes :=
  let valSalt := (p.U.drop 32).take 8
  let keySalt := (p.U.drop 40).take 8
  if alg2B C pw valSalt [] = p.U.take 32 then some (cbcDec C (alg2B C pw keySalt []) zeroIV p.UE) else none

/-- Algorithm 12 + 2.A (b),(c): the owner password -/
def alg12 (C : Crypto) (p : Params) (pw : Bytes) : Option Bytes :=
  let valSalt := (p.O.drop 32).take 8
  let keySalt := (p.O.drop 40).take 8
  if alg2B C pw valSalt p.U = p.O.take 32 then some (cbcDec C (alg2B C pw keySalt p.U) zeroIV p.OE) else none

inductive Access where
  | owner | user
  deriving DecidableEq, Repr

/-- Algorithm 2.A: owner test first, then user; the key counts only if `/Perms` validates -/
def alg2A (C : Crypto) (p : Params) (pw : Bytes) : Option (Access × Bytes) :=
  let pw := truncate127 pw
  match alg12 C p pw with
  | some k => if alg13 C p k then some (.owner, k) else none
  | none =>
    match alg11 C p pw with
    | some k => if alg13 C p k then some (.user, k) else none
    | none => none

/-! ## `/P` and the Encrypt dictionary (Tables 20, 21, 25, 27) -/

/-- Table 21: `/P` is "an unsigned 32-bit quantity" written as a *signed* 32-bit integer -/
def pAsInteger (P : Nat) : Int := if P < 2 ^ 31 then P else (P : Int) - 2 ^ 32

def pOfInteger (i : Int) : Nat := (i % 2 ^ 32).toNat

/-- one entry of the dictionary: key and a small value language -/
inductive Val where
  | int (i : Int) | name (s : String) | str (b : Bytes) | bool (b : Bool) | dict (kv : List (String × Val))

/-- what a piece of data is, as far as the choice of the crypt filter goes (Table 20) -/
inductive DataKind where
  | string | stream | embeddedFile
  deriving DecidableEq, Repr

/-- Table 20, `/StmF`, `/StrF`, `/EFF` (V 4, 5): to which kinds of data the standard crypt filter
`/StdCF` applies; the others get `/Identity` (stored as they are).  "EFF: the name of the crypt
filter that shall be used when encrypting embedded file streams that do not have their own
crypt filter specifier; … if this entry is not present … the embedded file stream shall be
encrypted using the default stream crypt filter specified by StmF." -/
structure Selection where
  streams : Bool := true
  strings : Bool := true
  embeddedFiles : Bool := true
  deriving DecidableEq, Repr

def Selection.applies (s : Selection) : DataKind → Bool
  | .string => s.strings
  | .stream => s.streams
  | .embeddedFile => s.embeddedFiles

/-- crypt filters, and with them `/Crypt` stream filters and the selection above, exist only
in files whose encryption dictionary has /V 4 or 5; in a /V 1 or 2 file every string and every
stream is encrypted (7.6.2) -/
def Method.hasCryptFilters : Method → Bool
  | .v2 => false
  | _ => true

def cfName (b : Bool) : Val := .name (if b then "StdCF" else "Identity")

/-- the /StmF /StrF (/EFF) entries; /EFF only where it differs from /StmF -/
def selectionEntries (sel : Selection) : List (String × Val) :=
  [("StmF", cfName sel.streams), ("StrF", cfName sel.strings)] ++
  (if sel.embeddedFiles = sel.streams then [] else [("EFF", cfName sel.embeddedFiles)])

/-- the Encrypt dictionary of a file protected with method `m` -/
def encryptDict (m : Method) (keyBits : Nat) (p : Params) (sel : Selection := {}) : List (String × Val) :=
  [("Filter", .name "Standard")] ++
  (match m with
   | .v2 => if keyBits = 40 then [("V", .int 1)] else [("V", .int 2), ("Length", .int keyBits)]
   | .v2cf => [("V", .int 4)] ++ selectionEntries sel ++
                [("CF", .dict [("StdCF", .dict [("CFM", .name "V2"), ("Length", .int 128)])])]
   | .aesv2 => [("V", .int 4)] ++ selectionEntries sel ++
                [("CF", .dict [("StdCF", .dict [("CFM", .name "AESV2"), ("Length", .int 128)])])]
   | .aesv3 => [("V", .int 5), ("Length", .int 256)] ++ selectionEntries sel ++
                [("CF", .dict [("StdCF", .dict [("CFM", .name "AESV3"), ("Length", .int 256)])])]) ++
  [("R", .int p.R), ("O", .str p.O), ("U", .str p.U), ("P", .int (pAsInteger p.P))] ++
  (if p.encryptMetadata then [] else [("EncryptMetadata", .bool false)]) ++
  (if p.R = 6 then [("OE", .str p.OE), ("UE", .str p.UE), ("Perms", .str p.Perms)] else [])

/-- what is stored for a piece of data of object `(num, gen)`: encrypted if the crypt filter
selected for its kind is the standard one, unchanged under `/Identity` -/
def storeData (C : Crypto) (m : Method) (sel : Selection) (kind : DataKind) (fileKey : Bytes)
    (num gen : Nat) (iv data : Bytes) : Bytes :=
  if sel.applies kind then encryptData C m fileKey num gen iv data else data

def loadData (C : Crypto) (m : Method) (sel : Selection) (kind : DataKind) (fileKey : Bytes)
    (num gen : Nat) (data : Bytes) : Option Bytes :=
  if sel.applies kind then decryptData C m fileKey num gen data else some data

/-- Table 21, `/R`: "2 if the document is encrypted with a V value less than 2 and does not have
any of the access permissions set to 0 that are designated 'Security handlers of revision 3 or
greater'; 3 if V is 2 or 3 or has any revision 3 or greater permissions set; 4 if V is 4;
6 if V is 5" -/
def revisionFor (V : Nat) (usesRev3Bits : Bool) : Option Nat :=
  if V < 2 ∧ ¬ usesRev3Bits then some 2
  else if V ≤ 3 then some 3
  else if V = 4 then some 4
  else if V = 5 then some 6
  else none

end PdfVerif.SpecSec

/-!
PNG specification (ISO/IEC 15948:2004, 9.4 "Filter type 4: Paeth"), written from the standard:

    p = a + b - c;  pa = |p - a|;  pb = |p - b|;  pc = |p - c|
    if pa <= pb and pa <= pc then Pr = a  else if pb <= pc then Pr = b  else Pr = c

"The calculations within the PaethPredictor function shall be performed exactly, without
overflow."  Core Lean only; shares nothing with `Model/` or `Generated/`.
-/
namespace PdfVerif.Spec.Png

/-- which of the three neighbours (0 = a = left, 1 = b = above, 2 = c = upper left) the Paeth
predictor selects; exact integer arithmetic -/
def paethSel (a b c : Int) : Fin 3 :=
  let p := a + b - c
  let pa := (p - a).natAbs
  let pb := (p - b).natAbs
  let pc := (p - c).natAbs
  if pa ≤ pb ∧ pa ≤ pc then 0 else if pb ≤ pc then 1 else 2

end PdfVerif.Spec.Png

import PdfVerif.Basic
/-!
Reference codecs for the PNG filters (PNG specification, "Filter Algorithms": None, Sub, Up,
Average, Paeth; `bpp` = bytes per complete pixel, at least 1; the scanline before the first one
and the bytes to the left of the first pixel are zero) and for TIFF predictor 2 (TIFF 6.0,
section 14 "Differencing Predictor": each sample minus the sample of the same component in the
previous pixel, in `BitsPerSample` bits, rows byte aligned) as ISO 32000 §7.4.4.4 applies them to
LZW/Flate data: every PNG row carries a leading tag byte.

Written from the specification texts with index functions over arrays and bit lists; nothing is
shared with `Model/FBPredict.lean`.
-/
namespace PdfVerif.Spec.FB
open PdfVerif

def paethPredictor (a b c : Int) : Int :=
  let p := a + b - c
  let pa := Int.natAbs (p - a)
  let pb := Int.natAbs (p - b)
  let pc := Int.natAbs (p - c)
  if pa ≤ pb && pa ≤ pc then a else if pb ≤ pc then b else c

def at0 (xs : Array Nat) (i : Int) : Int := if i < 0 then 0 else (xs.getD i.toNat 0 : Nat)

def predictor (ft : Nat) (a b c : Int) : Int :=
  if ft = 1 then a else if ft = 2 then b else if ft = 3 then (a + b) / 2 else if ft = 4 then paethPredictor a b c else 0

/-- Filt(x) = Orig(x) − predictor(Orig(a), Orig(b), Orig(c)) mod 256 -/
def filterScanline (ft bpp : Nat) (prior orig : Array Nat) : Array Nat :=
  (Array.range orig.size).map fun (x : Nat) =>
    let a := at0 orig ((x : Int) - bpp)
    let b := at0 prior x
    let c := at0 prior ((x : Int) - bpp)
    (((orig.getD x 0 : Nat) : Int) - predictor ft a b c).emod 256 |>.toNat

/-- Recon(x) = Filt(x) + predictor(Recon(a), Recon(b), Recon(c)) mod 256 -/
def reconScanline (ft bpp : Nat) (prior filt : Array Nat) : Array Nat := Id.run do
  let mut recon : Array Nat := #[]
  for x in [0:filt.size] do
    let a := at0 recon ((x : Int) - bpp)
    let b := at0 prior x
    let c := at0 prior ((x : Int) - bpp)
    recon := recon.push ((((filt.getD x 0 : Nat) : Int) + predictor ft a b c).emod 256).toNat
  return recon

def bitsOfByte (b : Nat) : List Bool := (List.range 8).map fun i => (b / 2 ^ (7 - i)) % 2 == 1
def natOfBits (bs : List Bool) : Nat := bs.foldl (fun n b => 2 * n + (if b then 1 else 0)) 0
def bitsOfNat (w n : Nat) : List Bool := (List.range w).map fun i => (n / 2 ^ (w - 1 - i)) % 2 == 1

def chunks {α} (n : Nat) (xs : List α) : List (List α) :=
  if n = 0 then [] else
  (List.range ((xs.length + n - 1) / n)).map fun i => (xs.drop (i * n)).take n

/-- horizontal differencing of one byte-aligned row (`dec = true`: undo it) -/
def tiffRow (dec : Bool) (colors bpc columns : Nat) (row : List Nat) : List Nat :=
  let bits := row.flatMap bitsOfByte
  let nS := colors * columns
  let samples := ((chunks bpc (bits.take (nS * bpc))).map natOfBits).toArray
  let m := 2 ^ bpc
  let out : Array Nat :=
    if dec then Id.run do
      let mut acc : Array Nat := #[]
      for i in [0:samples.size] do
        let s := samples.getD i 0
        acc := acc.push (if i < colors then s else (s + acc.getD (i - colors) 0) % m)
      return acc
    else (Array.range samples.size).map fun (i : Nat) =>
      let s := samples.getD i 0
      if i < colors then s else (s + m - samples.getD (i - colors) 0) % m
  let bits' := out.toList.flatMap (bitsOfNat bpc) ++ bits.drop (nS * bpc)
  (chunks 8 bits').map natOfBits

def rowBytes (colors bpc columns : Nat) : Nat := (colors * bpc * columns + 7) / 8
def bytesPerPixel (colors bpc : Nat) : Nat := max 1 ((colors * bpc + 7) / 8)

/-- encoder of whole data (a final short row is zero padded, as a writer must to emit whole
rows); `tags` gives the filter type per row for predictor 15 -/
def predEncode (colors bpc columns pred : Nat) (tags data : List Nat) : List Nat := Id.run do
  if pred ≤ 1 then return data
  let rb := rowBytes colors bpc columns
  let bpp := bytesPerPixel colors bpc
  let rows := chunks rb data
  let mut prior : Array Nat := Array.replicate rb 0
  let mut out : List Nat := []
  let mut i := 0
  for row in rows do
    let row := row ++ List.replicate (rb - row.length) 0
    if pred = 2 then
      out := out ++ tiffRow false colors bpc columns row
    else
      let ft := if pred = 15 then tags.getD i 0 else pred - 10
      out := out ++ ft :: (filterScanline ft bpp prior row.toArray).toList
      prior := row.toArray
    i := i + 1
  return out

/-- decoder of whole rows (a trailing partial row is ignored) -/
def predDecode (colors bpc columns pred : Nat) (data : List Nat) : List Nat := Id.run do
  if pred ≤ 1 then return data
  let rb := rowBytes colors bpc columns
  let bpp := bytesPerPixel colors bpc
  let need := if pred = 2 then rb else rb + 1
  let mut prior : Array Nat := Array.replicate rb 0
  let mut out : List Nat := []
  for row in chunks need data do
    if row.length = need then
      if pred = 2 then
        out := out ++ tiffRow true colors bpc columns row
      else
        let rec_ := reconScanline (row.headD 0) bpp prior row.tail.toArray
        out := out ++ rec_.toList
        prior := rec_
  return out

end PdfVerif.Spec.FB

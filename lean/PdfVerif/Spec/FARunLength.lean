/-!
# RunLengthDecode — reference codec written from ISO 32000-1 §7.4.5 (PackBits-like)

"The encoded data shall be a sequence of runs, where each run shall consist of a length byte
followed by 1 to 128 bytes of data.  If the length byte is in the range 0 to 127, the
following length + 1 (1 to 128) bytes shall be copied literally during decompression.  If
length is in the range 129 to 255, the following single byte shall be copied 257 − length
(2 to 128) times during decompression.  A length value of 128 shall denote EOD."

The decoder is the sentence above.  The encoder is one of many valid ones and deliberately
not the library's strategy: every maximal run of two or more equal bytes (cut at 128) becomes
a repeat packet, everything else is collected into literal packets of at most 128 bytes.
-/
namespace PdfVerif.Spec.RunLength

/-- `fuel` bounds the number of packets (each consumes at least one byte) -/
def decodeAux : Nat → List Nat → Option (List Nat)
  | 0, _ => none
  | _ + 1, [] => none                       -- no EOD
  | fuel + 1, l :: rest =>
    if l == 128 then some []
    else if l < 128 then
      if rest.length < l + 1 then none
      else (decodeAux fuel (rest.drop (l + 1))).map (rest.take (l + 1) ++ ·)
    else match rest with
      | [] => none
      | v :: rest' => (decodeAux fuel rest').map (List.replicate (257 - l) v ++ ·)

def decode (s : List Nat) : Option (List Nat) := decodeAux (s.length + 1) s

/-- length of the run of bytes equal to `v` at the head of the list, capped at `cap` -/
def runLen (v : Nat) : Nat → List Nat → Nat
  | 0, _ => 0
  | _, [] => 0
  | cap + 1, c :: cs => if c == v then 1 + runLen v cap cs else 0

def flushLit (lit : List Nat) : List Nat := if lit.isEmpty then [] else (lit.length - 1) :: lit

/-- `lit` = pending literal bytes (at most 127 on entry) -/
def encodeAux : Nat → List Nat → List Nat → List Nat
  | 0, lit, _ => flushLit lit ++ [128]
  | _ + 1, lit, [] => flushLit lit ++ [128]
  | fuel + 1, lit, b :: bs =>
    let n := 1 + runLen b 127 bs
    if n ≥ 2 then flushLit lit ++ [257 - n, b] ++ encodeAux fuel [] (bs.drop (n - 1))
    else if lit.length + 1 == 128 then flushLit (lit ++ [b]) ++ encodeAux fuel [] bs
    else encodeAux fuel (lit ++ [b]) bs

def encode (x : List Nat) : List Nat := encodeAux (x.length + 1) [] x

end PdfVerif.Spec.RunLength

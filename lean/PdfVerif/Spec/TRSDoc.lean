/-!
Specification of what a tree of nested page ranges means (written from the documentation of
`pagetree.Writer`, sharing nothing with `Model/`):

* a document under construction is a sequence of items; an item is a page or a range, and a
  range is again such a sequence;
* `AppendPage` on a range puts the page at the end of that range;
* `NewRange` on a range puts a new, empty range at the end of that range — pages later added to
  the outer range come after it, pages added to the new range go where it was opened;
* `Close` of a range freezes it: nothing inside it can be addressed any more, so the range
  becomes the plain sequence of the pages it holds;
* the document is the left-to-right flattening.

Ranges are addressed by a path: at each level the index of the range among the ranges of that
level (pages do not count).
-/
namespace PdfVerif.Spec.TRSDoc

inductive Item (α : Type) where
  | page (p : α)
  | range (items : List (Item α))

variable {α : Type}

mutual
/-- the pages of the document in order -/
def flattenItem : Item α → List α
  | .page p => [p]
  | .range items => flatten items
def flatten : List (Item α) → List α
  | [] => []
  | x :: xs => flattenItem x ++ flatten xs
end

/-- apply `g` to the contents of the `i`-th range of a sequence -/
def updateRange (g : List (Item α) → Option (List (Item α))) : Nat → List (Item α) → Option (List (Item α))
  | _, [] => none
  | i, .page p :: xs => (updateRange g i xs).map (.page p :: ·)
  | 0, .range d :: xs => (g d).map (.range · :: xs)
  | i + 1, .range d :: xs => (updateRange g i xs).map (.range d :: ·)

/-- apply `f` to the range at `path` (the empty path is the whole document) -/
def updateAt (f : List (Item α) → Option (List (Item α))) : List Nat → List (Item α) → Option (List (Item α))
  | [], d => f d
  | i :: rest, d => updateRange (updateAt f rest) i d

/-- `AppendPage` -/
def appendPage (p : α) (path : List Nat) (d : List (Item α)) : Option (List (Item α)) :=
  updateAt (fun r => some (r ++ [.page p])) path d

/-- `NewRange` -/
def newRange (path : List Nat) (d : List (Item α)) : Option (List (Item α)) :=
  updateAt (fun r => some (r ++ [.range []])) path d

/-- `Close` -/
def close (path : List Nat) (d : List (Item α)) : Option (List (Item α)) :=
  updateAt (fun r => some ((flatten r).map .page)) path d

end PdfVerif.Spec.TRSDoc

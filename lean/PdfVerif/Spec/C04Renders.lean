import PdfVerif.Spec.HISGrammar
import PdfVerif.Model.Obj
/-!
# Every conforming way of writing a PDF object (ISO 32000-2 §7.2–7.3)

`Renders L o bs`: the byte string `bs` is a specification-conforming serialisation of the value
`o`.  Written from the standard, on top of the lexical relations of `Spec/HISGrammar.lean`; it
shares nothing with the formatter model (`Model/Format.lean`) or the scanner model — only the value
type `Obj`.

* §7.2.3 tokens: white space and comments (`WsR`) may appear between any two tokens; they are
  *required* only between two tokens that both consist of regular characters.  A token that starts
  with a delimiter (`/name`, `(string)`, `<hex>`, `[`, `<<`) needs no white space before it; a token
  that ends with its own closing delimiter (`)`, `>`, `]`, `>>`) needs none after it.  A name does
  **not** end with a delimiter (the solidus only starts it), so `/A` and a following `1` need white
  space, also when the name is empty.
* §7.3.2 `true`, `false`; §7.3.9 `null`; §7.3.3 numbers (`IntR`, `RealTok`: optional sign, leading
  zeros, period anywhere); §7.3.4 both string forms (`StrR`, `HexR`); §7.3.5 names (`NameR`);
* §7.3.6 arrays `[` … `]`; §7.3.7 dictionaries `<<` key value … `>>` (the entries in the order
  they are written; that the keys are distinct is a hypothesis about the value, not about its
  spelling); §7.3.10 indirect references `n g R` with white space between the three tokens.
* `L` is the implementation limit on the length of a number token (Annex C allows limits);
  go-pdf's is `maxNameBytes`.

A real is the value of its token (`.real t`, as everywhere in these models: `strconv` is trusted
with the digits).  Nil arrays and content-stream operators have no object syntax.
-/
namespace PdfVerif.Spec.Renders
open PdfVerif PdfVerif.Spec.Grammar

/-- the first character of the object's spelling is a delimiter -/
def startsDelim : Obj → Bool
  | .name _ => true
  | .str _ => true
  | .arr _ => true
  | .dict _ => true
  | _ => false

/-- the object's spelling ends with its own closing delimiter -/
def selfDelimited : Obj → Bool
  | .str _ => true
  | .arr _ => true
  | .dict _ => true
  | _ => false

def kwNull : Bytes := [110, 117, 108, 108]
def kwTrue : Bytes := [116, 114, 117, 101]
def kwFalse : Bytes := [102, 97, 108, 115, 101]

mutual
/-- `Renders L o bs`: `bs` is a conforming serialisation of `o` -/
inductive Renders (L : Nat) : Obj → Bytes → Prop where
  | null : Renders L .null kwNull
  | tru : Renders L (.bool true) kwTrue
  | fls : Renders L (.bool false) kwFalse
  | int (i : Int) (s : Bytes) : IntR i s → s.length ≤ L → Renders L (.int i) s
  | real (t : Bytes) : RealTok t → t.length ≤ L → Renders L (.real t) t
  | name (v s : Bytes) : NameR v s → Renders L (.name v) (47 :: s)
  | strLit (v s : Bytes) : StrR 1 v s → Renders L (.str v) (40 :: (s ++ [41]))
  | strHex (v s : Bytes) : HexR none v s → Renders L (.str v) (60 :: (s ++ [62]))
  /-- object number, generation number and the keyword `R`, separated by white space -/
  | ref (n g : Nat) (s1 w1 s2 w2 : Bytes) : IntR (n : Int) s1 → s1.length ≤ L → WsR w1 → w1 ≠ [] →
      IntR (g : Int) s2 → s2.length ≤ L → WsR w2 → w2 ≠ [] →
      Renders L (.ref n g) (s1 ++ w1 ++ s2 ++ w2 ++ [82])
  | arr (xs : List Obj) (body : Bytes) : RendersSeq L true xs body → Renders L (.arr xs) (91 :: (body ++ [93]))
  | dict (kv : List (Bytes × Obj)) (body : Bytes) : RendersKV L kv body →
      Renders L (.dict kv) (60 :: 60 :: (body ++ [62, 62]))
/-- the elements of an array and the white space before the closing bracket; the flag says whether
    the token before the sequence ends in a delimiter (`[` does) -/
inductive RendersSeq (L : Nat) : Bool → List Obj → Bytes → Prop where
  | nil (p : Bool) (w : Bytes) : WsR w → RendersSeq L p [] w
  | cons (p : Bool) (w a b : Bytes) (x : Obj) (xs : List Obj) : WsR w → Renders L x a →
      (w = [] → p = true ∨ startsDelim x = true) →
      RendersSeq L (selfDelimited x) xs b → RendersSeq L p (x :: xs) (w ++ a ++ b)
/-- the entries of a dictionary and the white space before `>>` -/
inductive RendersKV (L : Nat) : List (Bytes × Obj) → Bytes → Prop where
  | nil (w : Bytes) : WsR w → RendersKV L [] w
  | cons (w ks w1 a b : Bytes) (k : Bytes) (v : Obj) (kv : List (Bytes × Obj)) :
      WsR w → NameR k ks → WsR w1 → Renders L v a → (w1 = [] → startsDelim v = true) →
      RendersKV L kv b → RendersKV L ((k, v) :: kv) (w ++ 47 :: ks ++ w1 ++ a ++ b)
end

end PdfVerif.Spec.Renders

/-!
# LZWDecode — reference codec written from ISO 32000-1 §7.4.4 (and Welch 1984 / TIFF 6.0 §13)

* Codes 0–255 are single bytes, 256 is clear-table, 257 is EOD, 258… are table entries,
  each the string of an earlier code extended by one byte.  The table never holds more than
  4096 codes (entry 4095 is the last).
* Codes are packed into bytes high-order bit first.  The code length starts at 9 bits and is
  "increased whenever the current length is no longer sufficient to represent the number of
  entries in the table"; with `EarlyChange = 1` (the PDF default) the first 10-bit code is the
  one following the creation of table entry 511 (and likewise 1023, 2047), with
  `EarlyChange = 0` the increase is postponed by one code.
* The encoder begins with a clear-table code and ends with EOD.

The table is a plain list of byte strings (entry `i` is code `258 + i`); no hashing, no
prefix/suffix arrays, no state shared with `Model/`.  In both directions the number of table
entries known to the *encoder* after `m` codes since the last clear is `m` (top entry
`257 + m`), which determines the code length on both sides.
-/
namespace PdfVerif.Spec.LZW

/-! ### bit strings, high-order bit first -/

def bitsOf (width n : Nat) : List Bool := (List.range width).reverse.map (fun i => n.testBit i)

def natOf (bits : List Bool) : Nat := bits.foldl (fun a b => a * 2 + b.toNat) 0

def unpackBytes (bs : List Nat) : List Bool := bs.flatMap (bitsOf 8)

/-- eight bits per byte; the last byte is filled with zero bits -/
def packBytes (fuel : Nat) (bits : List Bool) : List Nat :=
  match fuel, bits with
  | 0, _ => []
  | _, [] => []
  | fuel + 1, bits => natOf ((bits.take 8) ++ List.replicate (8 - (bits.take 8).length) false) :: packBytes fuel (bits.drop 8)

/-- code length when the encoder's top table entry is `top`: the smallest length in 9…12 with
    `top + early < 2^length` -/
def codeLen (early top : Nat) : Nat :=
  if top + early < 512 then 9 else if top + early < 1024 then 10 else if top + early < 2048 then 11 else 12

/-! ### decoder -/

/-- the string of a code: `table[i]` is entry `258 + i` -/
def stringOf (table : List (List Nat)) (code : Nat) : Option (List Nat) :=
  if code < 256 then some [code] else if code < 258 then none else table[code - 258]?

/-- `m` = codes read since the last clear-table; `prev` = string of the previous code -/
def decodeAux : Nat → List (List Nat) → Nat → Option (List Nat) → Nat → List Bool → Option (List Nat)
  | 0, _, _, _, _, _ => none
  | fuel + 1, table, m, prev, early, bits =>
    let len := codeLen early (257 + m)
    if (bits.take len).length < len then none          -- data ends without EOD
    else
      let code := natOf (bits.take len)
      let rest := bits.drop len
      if code == 257 then some []
      else if code == 256 then decodeAux fuel [] 0 none early rest
      else
        let str : Option (List Nat) :=
          match stringOf table code, prev with
          | some s, _ => some s
          | none, some (p :: ps) =>
            -- the code just being defined: previous string + its own first byte
            if code == 258 + table.length then some (p :: ps ++ [p]) else none
          | none, _ => none
        match str with
        | none => none
        | some [] => none
        | some (c :: cs) =>
          let table' := match prev with
            | some p => if 258 + table.length ≤ 4095 then table ++ [p ++ [c]] else table
            | none => table
          (decodeAux fuel table' (m + 1) (some (c :: cs)) early rest).map (c :: cs ++ ·)

def decode (early : Bool) (data : List Nat) : Option (List Nat) :=
  decodeAux (data.length * 8 + 1) [] 0 none (if early then 1 else 0) (unpackBytes data)

/-! ### encoder -/

def indexOf (s : List Nat) : List (List Nat) → Nat → Option Nat
  | [], _ => none
  | t :: ts, i => if t == s then some i else indexOf s ts (i + 1)

/-- code of a non-empty string that is a single byte or in the table -/
def codeOf (table : List (List Nat)) (s : List Nat) : Option Nat :=
  match s with
  | [b] => some b
  | _ => (indexOf s table 0).map (· + 258)

/-- `w` = current match (a byte string that has a code), `m` = codes written since the last
    clear-table.  The table is cleared right after creating the last entry that keeps the
    code length at 12 bits (4095, or 4094 with early change). -/
def encodeAux (early : Nat) : List (List Nat) → Nat → List Nat → List Nat → List Bool
  | table, m, w, [] =>
    match w with
    | [] => bitsOf (codeLen early (257 + m)) 257
    | _ =>
      match codeOf table w with
      | some c => bitsOf (codeLen early (257 + m)) c ++ bitsOf (codeLen early (257 + m + 1)) 257
      | none => []   -- unreachable: `w` always has a code
  | table, m, w, b :: bs =>
    match w with
    | [] => encodeAux early table m [b] bs
    | _ =>
      match codeOf table (w ++ [b]) with
      | some _ => encodeAux early table m (w ++ [b]) bs
      | none =>
        match codeOf table w with
        | none => []   -- unreachable
        | some c =>
          let out := bitsOf (codeLen early (257 + m)) c
          -- entry 257 + m + 1 = w ++ [b] is created now
          if 257 + m + 1 + early ≥ 4095 then
            out ++ bitsOf (codeLen early (257 + m + 1)) 256 ++ encodeAux early [] 0 [b] bs
          else out ++ encodeAux early (table ++ [w ++ [b]]) (m + 1) [b] bs

def encode (early : Bool) (data : List Nat) : List Nat :=
  let bits := bitsOf 9 256 ++ encodeAux (if early then 1 else 0) [] 0 [] data
  packBytes (bits.length) bits

end PdfVerif.Spec.LZW

import PdfVerif.Model.CPYCopier
/-!
C11 — what "the copy is isomorphic to the source" means.

* `ordered o`: the object `o` with every dictionary listed in `Dict.SortedKeys` order (a Go
  dictionary is a map; the order is representation only).
* `mapObj tr o`: `o` with every reference replaced by its image under the translation `tr`
  (`none` if some reference has no image).
* `specVal G v`: the source value as the copy is supposed to show it: dictionaries ordered,
  /Filter and /DecodeParms of a stream replaced by their inlined (direct) values, the stream's
  bytes unchanged.
* `Image tr G src v`: `v` is the image under `tr` of what the source reference `src` resolves to
  (reference chains shortened; undefined, malformed and cyclic chains are null).
* `Reach G r b`: `b` is reachable from `r` in the source graph.
-/
namespace PdfVerif.CPY

mutual
def ordered : Obj → Obj
  | .arr xs => .arr (orderedList xs)
  | .dict kv => .dict (sortedEntries (orderedKV kv))
  | o => o
def orderedList : List Obj → List Obj
  | [] => []
  | x :: xs => ordered x :: orderedList xs
def orderedKV : KV → KV
  | [] => []
  | (k, v) :: rest => (k, ordered v) :: orderedKV rest
end

mutual
def mapObj (tr : List (Ref × Ref)) : Obj → Option Obj
  | .ref n g =>
    match assoc (n, g) tr with
    | some t => some (.ref t.1 t.2)
    | none => none
  | .arr xs =>
    match mapList tr xs with
    | some ys => some (.arr ys)
    | none => none
  | .dict kv =>
    match mapKV tr kv with
    | some kv' => some (.dict kv')
    | none => none
  | o => some o
def mapList (tr : List (Ref × Ref)) : List Obj → Option (List Obj)
  | [] => some []
  | x :: xs =>
    match mapObj tr x, mapList tr xs with
    | some y, some ys => some (y :: ys)
    | _, _ => none
def mapKV (tr : List (Ref × Ref)) : KV → Option KV
  | [] => some []
  | (k, v) :: rest =>
    match mapObj tr v, mapKV tr rest with
    | some v', some rest' => some ((k, v') :: rest')
    | _, _ => none
end

/-- `R` with the entry `key` replaced by the inlined form of `src[key]` (if present) -/
def specSet (G : Graph) (src : KV) (key : Bytes) (R : KV) : Option KV :=
  match kvLookup key src with
  | none => some R
  | some val =>
    match inlineFilterRefs G val with
    | .ok (.obj inl) => some (kvSet key (ordered inl) R)
    | _ => none

/-- the dictionary a copied stream is supposed to carry -/
def specDict (G : Graph) (src : KV) : Option KV :=
  match specSet G src keyFilter (orderedKV (sortedEntries src)) with
  | none => none
  | some R => specSet G src keyDecodeParms R

def specVal (G : Graph) : Val → Option Val
  | .obj o => some (.obj (ordered o))
  | .stream dict data _ =>
    match specDict G dict with
    | some d => some (.stream d data false)
    | none => none

def mapVal (tr : List (Ref × Ref)) : Val → Option Val
  | .obj o =>
    match mapObj tr o with
    | some o' => some (.obj o')
    | none => none
  | .stream dict data enc =>
    match mapKV tr dict with
    | some d => some (.stream d data enc)
    | none => none

def Image (tr : List (Ref × Ref)) (G : Graph) (src : Ref) (v : Val) : Prop :=
  ∃ sv sp, resolveOrNull G src = .ok sv ∧ specVal G sv = some sp ∧ mapVal tr sp = some v

/-- the references a (specified) value mentions -/
def specRefs (G : Graph) (src : Ref) : List Ref :=
  match resolveOrNull G src with
  | .ok sv =>
    match specVal G sv with
    | some sp => valRefs sp
    | none => []
  | .error _ => []

inductive Reach (G : Graph) (r : Ref) : Ref → Prop where
  | root : Reach G r r
  | step {a b : Ref} : Reach G r a → b ∈ specRefs G a → Reach G r b

end PdfVerif.CPY

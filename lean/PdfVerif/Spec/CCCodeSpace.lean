/-!
# Code space ranges — reference semantics (ISO 32000-2:2020, 9.7.6.3)

Written from the text of the standard; shares nothing with `Model/`.

A *codespace range* of `n`-byte codes is given by `n` byte intervals; a byte string *is a code*
of the range when it has `n` bytes and its `i`-th byte lies in the `i`-th interval.  When a
string is shown, bytes are extracted one code at a time:

* if the next bytes are a code of some range, that code is *valid* and its bytes are consumed;
* otherwise the code is *invalid*.  "If the first byte extracted does not match the first byte
  of any codespace range, the range having the shortest codes is chosen.  If a partial match
  was found, the range having the shortest codes among those with the longest partial match is
  chosen"; the number of bytes consumed is the code length of the chosen range — but never more
  than the string still holds, and at least one (an empty set of ranges consumes one byte).
-/
namespace PdfVerif.Spec.CodeSpace

/-- a codespace range `<lo> <hi>` -/
structure CodeRange where
  lo : List Nat
  hi : List Nat
  deriving Repr

/-- code length of the range -/
def CodeRange.len (r : CodeRange) : Nat := r.lo.length

/-- the first `k` bytes of `s` lie in the first `k` byte intervals `[lo_i, hi_i]` -/
def withinFirst : (lo hi s : List Nat) → (k : Nat) → Bool
  | _, _, _, 0 => true
  | l :: lo, h :: hi, b :: s, k + 1 => decide (l ≤ b) && decide (b ≤ h) && withinFirst lo hi s k
  | _, _, _, _ + 1 => false

/-- the first `k` bytes of `s` match the first `k` byte intervals of `r` (a partial match of
length `k`; `k` = `r.len` is a full match) -/
def CodeRange.matchesUpTo (r : CodeRange) (s : List Nat) (k : Nat) : Bool := withinFirst r.lo r.hi s k

/-- `s` starts with a code of `r` -/
def CodeRange.startsCode (r : CodeRange) (s : List Nat) : Bool := r.matchesUpTo s r.len

/-- `bs` is exactly a code of `r` -/
def CodeRange.isCode (r : CodeRange) (bs : List Nat) : Bool :=
  decide (bs.length = r.len) && r.startsCode bs

/-- smallest element (1 for the empty list: at least one byte is always consumed) -/
def shortest : List Nat → Nat
  | [] => 1
  | l :: ls => ls.foldl Nat.min l

/-- length of the longest partial match of `s` against any range -/
def longestPartial (csr : List CodeRange) (s : List Nat) : Nat :=
  ((List.range (s.length + 1)).filter fun k => csr.any fun r => r.matchesUpTo s k).foldl Nat.max 0

/-- the number of bytes consumed from `s` and whether they form a valid code -/
def decode (csr : List CodeRange) (s : List Nat) : Nat × Bool :=
  if s.isEmpty then (0, false)
  else
    match csr.find? fun r => r.startsCode s with
    | some r => (r.len, true)
    | none =>
      let k := longestPartial csr s
      let chosen := csr.filter fun r => r.matchesUpTo s k
      (Nat.min (shortest (chosen.map CodeRange.len)) s.length, false)

/-- the numeric value of a code: first byte least significant -/
def codeValue : List Nat → Nat
  | [] => 0
  | b :: bs => b + 256 * codeValue bs

/-- no code of one range is a proper prefix of a code of another -/
def PrefixFree (csr : List CodeRange) : Prop :=
  ∀ r₁ ∈ csr, ∀ r₂ ∈ csr, ∀ c₁ c₂ : List Nat, r₁.isCode c₁ = true → r₂.isCode c₂ = true →
    c₁ <+: c₂ → c₁.length = c₂.length

/-- well-formed range: 1 to 4 bytes, `lo ≤ hi` bytewise, all bounds are bytes -/
def CodeRange.WF (r : CodeRange) : Prop :=
  r.lo.length = r.hi.length ∧ 0 < r.lo.length ∧ r.lo.length ≤ 4 ∧
  (∀ x ∈ r.lo.zip r.hi, x.1 ≤ x.2) ∧ (∀ b ∈ r.hi, b < 256)

/-- two sets of ranges describe the same codes -/
def SameCodes (a b : List CodeRange) : Prop :=
  ∀ bs : List Nat, (a.any fun r => r.isCode bs) = (b.any fun r => r.isCode bs)

end PdfVerif.Spec.CodeSpace

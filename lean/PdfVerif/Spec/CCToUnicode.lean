/-!
# ToUnicode CMaps — `bfrange` with a single destination string (ISO 32000-2:2020, 9.10.3)

Written from the text of the standard; shares nothing with `Model/`.

"`n beginbfrange srcCode1 srcCode2 dstString endbfrange` … maps the codes `srcCode1 … srcCode2` to
`dstString`, `dstString` with its **last byte** incremented by 1, by 2, … .  The value of the
last byte in the string shall be less than or equal to `255 − (srcCode2 − srcCode1)`; otherwise
the result of mapping is undefined."  Destination strings are UTF-16BE.
-/
namespace PdfVerif.Spec.ToUnicode

/-- UTF-16BE bytes of one Unicode scalar value -/
def encodeScalar (r : Nat) : List Nat :=
  if r < 0x10000 then [r / 256, r % 256]
  else
    let x := r - 0x10000
    let hi := 0xD800 + x / 0x400
    let lo := 0xDC00 + x % 0x400
    [hi / 256, hi % 256, lo / 256, lo % 256]

/-- UTF-16BE bytes of a text -/
def encode (t : List Nat) : List Nat := t.flatMap encodeScalar

/-- a Unicode scalar value: not a surrogate, at most U+10FFFF -/
def IsScalar (r : Nat) : Prop := r ≤ 0x10FFFF ∧ ¬ (0xD800 ≤ r ∧ r ≤ 0xDFFF)

/-- the destination of the `j`-th code of a range of `n` codes with the single destination string
`dst` (bytes): the last byte incremented by `j`; undefined (`none`) when the last byte exceeds
`255 − (n − 1)`, or when there is no last byte -/
def compactDst (dst : List Nat) (n j : Nat) : Option (List Nat) :=
  match dst.reverse with
  | [] => none
  | last :: initRev => if last + (n - 1) ≤ 255 then some (initRev.reverse ++ [last + j]) else none

end PdfVerif.Spec.ToUnicode

import PdfVerif.Basic
/-!
`checkFile`: an independent, strict structural checker for PDF files, written from
ISO 32000-2 §7.2–7.3 (lexical conventions, objects) and §7.5 (file structure) only.
It shares no definition with `Model/` (it imports only the byte/hex conventions of `Basic`).

What it demands (each failure is reported with a reason):
* §7.5.2 header `%PDF-M.N` at offset 0, followed by an end-of-line marker;
* §7.5.5 the file ends with `startxref` EOL offset EOL `%%EOF` (optionally one EOL after it);
  the offset is the offset of the (single) cross-reference section;
* §7.5.4 table form: `xref`, subsections `first count`, entries of exactly 20 bytes
  `nnnnnnnnnn ggggg n|f` + 2-byte EOL; object 0 free with generation 65535; `trailer` dictionary;
* §7.5.8 stream form: `/Type /XRef`, `/Size`, `/W` (three non-negative integers), optional `/Index`
  (pairs inside `[0, Size)`), `/FlateDecode` with PNG predictor parameters; the decoded data has
  exactly `entries × ΣW` bytes; field defaults; types 0, 1, 2;
* every object number below `/Size` has exactly one entry and no entry lies at or above `/Size`;
* every in-use entry points exactly at `N G obj` with the same number and generation; the object
  parses and is closed by `endobj`; for streams: `stream` + CRLF or LF, `/Length` (direct or an
  indirect integer not stored in an object stream) bytes of data, an EOL, `endstream`;
* §7.5.7 object streams: `/Type /ObjStm`, `/N`, `/First`, `N` pairs in the header which ends at or
  before `First`, offsets strictly increasing and inside the data; a type-2 entry `(s, i)` for
  number `n` requires that stream `s` is an in-use generation-0 stream, `i < N` and pair `i` names
  `n`; members are not streams and not bare references;
* the body is exactly the in-use objects in the order of their offsets, separated only by white
  space and comments (no object without an entry, none numbered at or above `/Size`), followed by
  the cross-reference section and, after white space only, `startxref`; an xref stream's own
  number is below `/Size` and its `/Length` is direct;
* `/Root` is an indirect reference to an in-use dictionary with `/Type /Catalog`.

Inflate is a parameter: `inflate : Bytes → Option Bytes` (the driver passes a table produced by
Go's `compress/zlib`, for encrypted files after decryption).
-/
namespace PdfVerif.Spec.FileWF
open PdfVerif

inductive SObj where
  | null
  | bool (b : Bool)
  | int (i : Int)
  | real (tok : Bytes)
  | name (n : Bytes)
  | str (s : Bytes)
  | ref (num gen : Nat)
  | arr (xs : List SObj)
  | dict (kv : List (Bytes × SObj))
  deriving Repr, Inhabited

abbrev R := Except String

/-! ### §7.2 lexical conventions -/

def isWS (c : Nat) : Bool := c == 0 || c == 9 || c == 10 || c == 12 || c == 13 || c == 32
def isDelim (c : Nat) : Bool :=
  c == 40 || c == 41 || c == 60 || c == 62 || c == 91 || c == 93 || c == 123 || c == 125 || c == 47 || c == 37
def isReg (c : Nat) : Bool := !isWS c && !isDelim c
def isDig (c : Nat) : Bool := 48 ≤ c && c ≤ 57

mutual
def skipWs : Bytes → Bytes
  | [] => []
  | c :: cs => if c == 37 then skipCmt cs else if isWS c then skipWs cs else c :: cs
def skipCmt : Bytes → Bytes
  | [] => []
  | c :: cs => if c == 10 || c == 13 then skipWs cs else skipCmt cs
end

def hasPrefix : Bytes → Bytes → Bool
  | [], _ => true
  | _ :: _, [] => false
  | p :: ps, c :: cs => p == c && hasPrefix ps cs

/-- regular characters at the start of the input -/
def takeReg : Bytes → Bytes × Bytes
  | [] => ([], [])
  | c :: cs => if isReg c then let (a, b) := takeReg cs; (c :: a, b) else ([], c :: cs)

theorem takeReg_len (inp : Bytes) : (takeReg inp).2.length ≤ inp.length := by
  induction inp with
  | nil => simp [takeReg]
  | cons c cs ih => unfold takeReg; split <;> simp <;> omega

def decVal : Bytes → Nat → Nat
  | [], acc => acc
  | c :: cs, acc => decVal cs (acc * 10 + (c - 48))

/-- unsigned decimal integer token -/
def natTok (t : Bytes) : Option Nat := if !t.isEmpty && t.all isDig then some (decVal t 0) else none

inductive Num where
  | int (i : Int)
  | real (tok : Bytes)

/-- §7.3.3 numeric objects: optional sign, digits with at most one period -/
def numTok (t : Bytes) : Option Num :=
  let (neg, body) := match t with
    | 43 :: r => (false, r)
    | 45 :: r => (true, r)
    | r => (false, r)
  if body.isEmpty then none
  else if body.all isDig then some (.int (if neg then - (decVal body 0 : Int) else (decVal body 0 : Int)))
  else if body.all (fun c => isDig c || c == 46) && (body.filter (· == 46)).length == 1 && body.any isDig then
    some (.real t)
  else none

def hexV (c : Nat) : Option Nat :=
  if 48 ≤ c && c ≤ 57 then some (c - 48)
  else if 65 ≤ c && c ≤ 70 then some (c - 55)
  else if 97 ≤ c && c ≤ 102 then some (c - 87)
  else none

/-- §7.3.5 name after the solidus: regular characters, `#xx` escapes -/
def nameChars : Bytes → Option Bytes
  | [] => some []
  | 35 :: a :: b :: rest =>
    match hexV a, hexV b, nameChars rest with
    | some x, some y, some r => some ((x * 16 + y) :: r)
    | _, _, _ => none
  | 35 :: _ => none
  | c :: rest => (nameChars rest).map (c :: ·)

def isOct (c : Nat) : Bool := 48 ≤ c && c ≤ 55

/-- §7.3.4.2 literal string body after `(`; `depth` = open parentheses -/
def litString : Nat → Nat → Bytes → R (Bytes × Bytes)
  | 0, _, _ => .error "string: out of fuel"
  | _+1, _, [] => .error "string: unterminated"
  | fuel+1, depth, c :: cs =>
    let cons (x : Nat) (r : R (Bytes × Bytes)) : R (Bytes × Bytes) := r.map fun (s, rest) => (x :: s, rest)
    if c == 41 then
      if depth == 0 then .ok ([], cs) else cons 41 (litString fuel (depth - 1) cs)
    else if c == 40 then cons 40 (litString fuel (depth + 1) cs)
    else if c == 13 then
      match cs with
      | 10 :: cs' => cons 10 (litString fuel depth cs')
      | _ => cons 10 (litString fuel depth cs)
    else if c == 92 then
      match cs with
      | [] => .error "string: unterminated escape"
      | e :: cs' =>
        if e == 110 then cons 10 (litString fuel depth cs')
        else if e == 114 then cons 13 (litString fuel depth cs')
        else if e == 116 then cons 9 (litString fuel depth cs')
        else if e == 98 then cons 8 (litString fuel depth cs')
        else if e == 102 then cons 12 (litString fuel depth cs')
        else if e == 10 then litString fuel depth cs'
        else if e == 13 then
          match cs' with
          | 10 :: cs'' => litString fuel depth cs''
          | _ => litString fuel depth cs'
        else if isOct e then
          match cs' with
          | d2 :: d3 :: r3 =>
            if isOct d2 && isOct d3 then cons (((e - 48) * 64 + (d2 - 48) * 8 + (d3 - 48)) % 256) (litString fuel depth r3)
            else if isOct d2 then cons ((e - 48) * 8 + (d2 - 48)) (litString fuel depth (d3 :: r3))
            else cons (e - 48) (litString fuel depth cs')
          | [d2] => if isOct d2 then cons ((e - 48) * 8 + (d2 - 48)) (litString fuel depth []) else cons (e - 48) (litString fuel depth cs')
          | [] => cons (e - 48) (litString fuel depth [])
        else cons e (litString fuel depth cs')     -- `\(`, `\)`, `\\`; unknown: solidus ignored
    else cons c (litString fuel depth cs)

/-- §7.3.4.3 hexadecimal string body after `<` -/
def hexString : Option Nat → Bytes → R (Bytes × Bytes)
  | _, [] => .error "hex string: unterminated"
  | pend, c :: cs =>
    if c == 62 then
      match pend with
      | some h => .ok ([h * 16], cs)
      | none => .ok ([], cs)
    else if isWS c then hexString pend cs
    else match hexV c with
      | none => .error "hex string: bad character"
      | some d =>
        match pend with
        | none => hexString (some d) cs
        | some h => (hexString none cs).map fun (s, r) => ((h * 16 + d) :: s, r)

/-- is the input, after white space, `G R` with a generation number? -/
def refTail (inp : Bytes) : Option (Nat × Bytes) :=
  let r1 := skipWs inp
  let (t, r2) := takeReg r1
  match natTok t with
  | none => none
  | some g =>
    let r3 := skipWs r2
    match r3 with
    | 82 :: r4 =>
      (match r4 with
       | [] => some (g, r4)
       | c :: _ => if isReg c then none else some (g, r4))
    | _ => none

mutual
/-- §7.3 one object (an integer followed by `G R` is an indirect reference) -/
def parseObj : Nat → Bytes → R (SObj × Bytes)
  | 0, _ => .error "object: nesting too deep"
  | fuel+1, inp =>
    match inp with
    | [] => .error "object: end of data"
    | c :: rest =>
      if c == 47 then
        let (t, r) := takeReg rest
        match nameChars t with
        | some n => .ok (.name n, r)
        | none => .error "name: bad escape"
      else if c == 40 then (litString (rest.length + 1) 0 rest).map fun (s, r) => (.str s, r)
      else if c == 60 then
        match rest with
        | 60 :: r => (parseDict fuel (skipWs r)).map fun (d, r') => (.dict d, r')
        | _ => (hexString none rest).map fun (s, r) => (.str s, r)
      else if c == 91 then (parseArr fuel (skipWs rest)).map fun (a, r) => (.arr a, r)
      else if isReg c then
        let (t, r) := takeReg inp
        if t == [110, 117, 108, 108] then .ok (.null, r)
        else if t == [116, 114, 117, 101] then .ok (.bool true, r)
        else if t == [102, 97, 108, 115, 101] then .ok (.bool false, r)
        else match numTok t with
          | some (.int i) =>
            if i ≥ 0 && t.all isDig then
              match refTail r with
              | some (g, r') => .ok (.ref i.toNat g, r')
              | none => .ok (.int i, r)
            else .ok (.int i, r)
          | some (.real tok) => .ok (.real tok, r)
          | none => .error "object: unknown token"
      else .error "object: unexpected delimiter"
def parseArr : Nat → Bytes → R (List SObj × Bytes)
  | 0, _ => .error "array: nesting too deep"
  | fuel+1, inp =>
    match inp with
    | [] => .error "array: unterminated"
    | 93 :: r => .ok ([], r)
    | _ =>
      match parseObj fuel inp with
      | .error e => .error e
      | .ok (o, r) => (parseArr fuel (skipWs r)).map fun (xs, r') => (o :: xs, r')
def parseDict : Nat → Bytes → R (List (Bytes × SObj) × Bytes)
  | 0, _ => .error "dict: nesting too deep"
  | fuel+1, inp =>
    match inp with
    | 62 :: 62 :: r => .ok ([], r)
    | 47 :: rest =>
      let (t, r) := takeReg rest
      match nameChars t with
      | none => .error "dict: bad key"
      | some k =>
        match parseObj fuel (skipWs r) with
        | .error e => .error e
        | .ok (v, r') => (parseDict fuel (skipWs r')).map fun (kv, r'') => ((k, v) :: kv, r'')
    | _ => .error "dict: key expected"
end

def objFuel (inp : Bytes) : Nat := inp.length + 4

/-! ### canonical printing (same wire format as the harness: sorted keys, null entries absent) -/

def bLt : Bytes → Bytes → Bool
  | [], [] => false
  | [], _ :: _ => true
  | _ :: _, [] => false
  | a :: as, b :: bs => if a < b then true else if b < a then false else bLt as bs

def insKV (x : Bytes × String) : List (Bytes × String) → List (Bytes × String)
  | [] => [x]
  | y :: ys => if bLt x.1 y.1 then x :: y :: ys else if x.1 == y.1 then x :: ys else y :: insKV x ys

mutual
def wire : SObj → String
  | .null => "z"
  | .bool true => "t"
  | .bool false => "f"
  | .int i => "i" ++ toString i ++ ";"
  | .real t => "r" ++ hexOfBytes t ++ ";"
  | .name n => "n" ++ hexOfBytes n ++ ";"
  | .str s => "s" ++ hexOfBytes s ++ ";"
  | .ref n g => "R" ++ toString n ++ "," ++ toString g ++ ";"
  | .arr xs => "a" ++ wireL xs ++ "]"
  | .dict kv => "d" ++ String.join ((wireKV kv).map fun (k, v) => hexOfBytes k ++ ";" ++ v) ++ ">"
def wireL : List SObj → String
  | [] => ""
  | x :: xs => wire x ++ wireL xs
/-- sorted entries (a later duplicate key replaces an earlier one), null values dropped -/
def wireKV : List (Bytes × SObj) → List (Bytes × String)
  | [] => []
  | (k, v) :: rest =>
    let tail := wireKV rest
    if tail.any (fun e => e.1 == k) then tail
    else match v with
      | .null => tail
      | v => insKV (k, wire v) tail
end

/-! ### §7.5 file structure -/

def dget (kv : List (Bytes × SObj)) (k : String) : Option SObj :=
  let kb := bytesOfString k
  -- the last binding of a key is the one in force
  (kv.reverse.find? fun e => e.1 == kb).map (·.2)

structure Entry where
  kind : Nat      -- 0 free, 1 in use, 2 compressed
  a : Nat         -- offset | object stream number
  b : Nat         -- generation | index
  deriving Repr, Inhabited, DecidableEq

abbrev Table := List (Nat × Entry)

def tget (t : Table) (n : Nat) : Option Entry := (t.find? fun e => e.1 == n).map (·.2)

/-- end-of-line marker at the start of the input: its length (CR LF, LF or CR) -/
def eolLen : Bytes → Nat
  | 13 :: 10 :: _ => 2
  | 10 :: _ => 1
  | 13 :: _ => 1
  | _ => 0

/-- index of the first occurrence of `pat` in the input, counted from `i` -/
def firstIndex (pat : Bytes) : Bytes → Nat → Option Nat
  | [], _ => none
  | c :: cs, i => if hasPrefix pat (c :: cs) then some i else firstIndex pat cs (i + 1)

/-- index of the last occurrence of `pat` in `data` (searched from the end) -/
def lastIndex (pat : Bytes) (data : Bytes) : Option Nat :=
  (firstIndex pat.reverse data.reverse 0).map fun j => data.length - j - pat.length

/-- §7.5.2 -/
def checkHeader (file : Bytes) : R Bytes :=
  if !hasPrefix (bytesOfString "%PDF-") file then .error "header: file does not start with %PDF-" else
  let v := (file.drop 5).take 3
  let okv := match v with
    | [49, 46, d] => 48 ≤ d && d ≤ 55
    | [50, 46, 48] => true
    | _ => false
  if !okv then .error "header: unknown version"
  else if eolLen (file.drop 8) == 0 then .error "header: no end-of-line after the version"
  else .ok v

/-- §7.5.5: the last lines of the file; returns the offset after `startxref` -/
def checkTail (file : Bytes) : R Nat :=
  match lastIndex (bytesOfString "startxref") file with
  | none => .error "tail: no startxref"
  | some i =>
    let r0 := file.drop (i + 9)
    let e0 := eolLen r0
    if e0 == 0 then .error "tail: no EOL after startxref" else
    let r1 := r0.drop e0
    let (t, r2) := takeReg r1
    match natTok t with
    | none => .error "tail: startxref is not followed by an offset"
    | some off =>
      let e1 := eolLen r2
      if e1 == 0 then .error "tail: no EOL after the offset" else
      let r3 := r2.drop e1
      if !hasPrefix (bytesOfString "%%EOF") r3 then .error "tail: %%EOF missing" else
      let r4 := r3.drop 5
      if r4 == [] || (eolLen r4 == r4.length) then
        (if i > 0 && eolLen (file.drop (i - 1)) == 0 then .error "tail: startxref does not start a line" else .ok off)
      else .error "tail: data after %%EOF"

/-- one 20-byte entry of §7.5.4 -/
def tableEntry (line : Bytes) : R Entry :=
  if line.length != 20 then .error "xref table: entry is not 20 bytes long" else
  let off := line.take 10
  let gen := (line.drop 11).take 5
  let sp1 := line.getD 10 0
  let sp2 := line.getD 16 0
  let kind := line.getD 17 0
  let e1 := line.getD 18 0
  let e2 := line.getD 19 0
  match natTok off, natTok gen with
  | some o, some g =>
    if sp1 != 32 || sp2 != 32 then .error "xref table: missing space in entry"
    else if !((e1 == 32 && (e2 == 13 || e2 == 10)) || (e1 == 13 && e2 == 10)) then .error "xref table: bad end-of-line in entry"
    else if kind == 110 then .ok { kind := 1, a := o, b := g }
    else if kind == 102 then .ok { kind := 0, a := o, b := g }
    else .error "xref table: entry is neither n nor f"
  | _, _ => .error "xref table: entry fields are not decimal"

/-- `count` entries for the numbers `num`, `num+1`, …; the table is accumulated in reverse -/
def tableEntries : Nat → Nat → Bytes → Table → R (Table × Bytes)
  | 0, _, inp, acc => .ok (acc, inp)
  | k+1, num, inp, acc =>
    match tableEntry (inp.take 20) with
    | .error e => .error e
    | .ok ent => tableEntries k (num + 1) (inp.drop 20) ((num, ent) :: acc)

/-- subsections until the `trailer` keyword -/
def tableSections : Nat → Bytes → Table → R (Table × Bytes)
  | 0, _, _ => .error "xref table: out of fuel"
  | fuel+1, inp, acc =>
    if hasPrefix (bytesOfString "trailer") inp then .ok (acc, inp.drop 7) else
    let (t1, r1) := takeReg inp
    match natTok t1, r1 with
    | some first, 32 :: r2 =>
      let (t2, r3) := takeReg r2
      (match natTok t2 with
       | some count =>
         let e := eolLen r3
         if e == 0 then .error "xref table: no EOL after subsection header"
         else match tableEntries count first (r3.drop e) acc with
           | .error er => .error er
           | .ok (acc', r4) => tableSections fuel r4 acc'
       | none => .error "xref table: bad subsection header")
    | _, _ => .error "xref table: bad subsection header"

/-- §7.5.4 + §7.5.5 table and trailer dictionary -/
def readTable (inp : Bytes) : R (Table × List (Bytes × SObj) × Bytes) :=
  if !hasPrefix (bytesOfString "xref") inp then .error "xref table: keyword missing" else
  let r0 := inp.drop 4
  let e := eolLen r0
  if e == 0 then .error "xref table: no EOL after xref" else
  match tableSections (inp.length + 1) (r0.drop e) [] with
  | .error er => .error er
  | .ok (t, r1) =>
    match skipWs r1 with
    | 60 :: 60 :: r2 =>
      (match parseDict (objFuel r2) (skipWs r2) with
       | .ok (d, r3) => .ok (t.reverse, d, r3)
       | .error er => .error ("trailer: " ++ er))
    | _ => .error "trailer: dictionary missing"

/-! ### indirect objects -/

structure IObj where
  num : Nat
  gen : Nat
  val : SObj
  stream : Option (Nat × Nat)   -- offset and length of the stream data in the file
  next : Nat := 0               -- offset of the first byte after `endobj`
  deriving Repr, Inhabited

/-- `N G obj` exactly at the start of `inp`: number, generation, rest after the keyword -/
def objHeader (inp : Bytes) : R (Nat × Nat × Bytes) :=
  let (t1, r1) := takeReg inp
  match natTok t1 with
  | none => .error "object header: no object number at the offset"
  | some n =>
    match r1 with
    | c :: _ =>
      if !isWS c then .error "object header: no white space after the number" else
      let (t2, r3) := takeReg (skipWs r1)
      (match natTok t2 with
       | none => .error "object header: no generation number"
       | some g =>
         let r4 := skipWs r3
         if r4.length == r3.length then .error "object header: no white space before obj"
         else if !hasPrefix (bytesOfString "obj") r4 then .error "object header: obj keyword missing"
         else
           let r5 := r4.drop 3
           match r5 with
           | c :: _ => if isReg c then .error "object header: obj keyword runs on" else .ok (n, g, r5)
           | [] => .error "object header: end of file")
    | [] => .error "object header: end of file"

/-- the indirect object at the start of `inp` (which begins at absolute offset `base`): header,
    value, stream framing with the given `/Length` resolver -/
def readIndirectAt (inp : Bytes) (base : Nat) (lenOf : SObj → R Nat) : R (IObj × Bytes) :=
  let total := inp.length
  match objHeader inp with
  | .error e => .error e
  | .ok (n, g, r0) =>
    let r1 := skipWs r0
    match parseObj (objFuel r1) r1 with
    | .error e => .error e
    | .ok (v, r2) =>
      let r3 := skipWs r2
      if hasPrefix (bytesOfString "endobj") r3 then
        let r4 := r3.drop 6
        .ok ({ num := n, gen := g, val := v, stream := none, next := base + (total - r4.length) }, r4)
      else if hasPrefix (bytesOfString "stream") r3 then
        match v with
        | .dict d =>
          let r4 := r3.drop 6
          let e := match r4 with
            | 13 :: 10 :: _ => 2
            | 10 :: _ => 1
            | _ => 0
          if e == 0 then .error "stream: keyword not followed by CRLF or LF" else
          let dataOff := base + (total - (r4.length - e))
          (match dget d "Length" with
           | none => .error "stream: /Length missing"
           | some l =>
             match lenOf l with
             | .error er => .error er
             | .ok len =>
               let r5 := (r4.drop e).drop len
               if (r4.drop e).length < len then .error "stream: /Length runs past the end of the file" else
               let e2 := eolLen r5
               if e2 == 0 then .error "stream: no EOL between the data and endstream (or /Length is wrong)"
               else if !hasPrefix (bytesOfString "endstream") (r5.drop e2) then .error "stream: /Length does not end at EOL endstream"
               else
                 let r6 := skipWs ((r5.drop e2).drop 9)
                 if hasPrefix (bytesOfString "endobj") r6 then
                   let r7 := r6.drop 6
                   .ok ({ num := n, gen := g, val := v, stream := some (dataOff, len), next := base + (total - r7.length) }, r7)
                 else .error "stream: endobj missing")
        | _ => .error "stream keyword after a non-dictionary"
      else .error "object: endobj missing"

/-- the object at offset `off` of the file -/
def readIndirect (file : Bytes) (off : Nat) (lenOf : SObj → R Nat) : R IObj :=
  if off ≥ file.length then .error "object offset beyond the end of the file"
  else if off > 0 && isReg (file.getD (off - 1) 0) then .error "object offset points into the middle of a token" else
  (readIndirectAt (file.drop off) off lenOf).map (·.1)

/-! ### cross-reference streams (§7.5.8) -/

def beNat : Bytes → Nat → Nat
  | [], acc => acc
  | b :: bs, acc => beNat bs (acc * 256 + b)

def natList : List SObj → Option (List Nat)
  | [] => some []
  | .int i :: rest => if i < 0 then none else (natList rest).map (i.toNat :: ·)
  | _ => none

def pairsOf : List Nat → List (Nat × Nat)
  | a :: b :: rest => (a, b) :: pairsOf rest
  | _ => []

/-- PNG filters (ISO/IEC 15948 §9) for one byte per pixel; only None and Up are legal here
    together with Sub, Average, Paeth for completeness -/
def paethP (a b c : Nat) : Nat :=
  let p : Int := (a : Int) + b - c
  let pa := (p - a).natAbs
  let pb := (p - b).natAbs
  let pc := (p - c).natAbs
  if pa ≤ pb && pa ≤ pc then a else if pb ≤ pc then b else c

def unfilterRow (ft : Nat) : (left ul : Nat) → (row prior : Bytes) → Bytes
  | _, _, [], _ => []
  | left, ul, x :: xs, prior =>
    let up := prior.headD 0
    let pred := if ft == 1 then left else if ft == 2 then up else if ft == 3 then (left + up) / 2
                else if ft == 4 then paethP left up ul else 0
    let v := (x + pred) % 256
    v :: unfilterRow ft v up xs prior.tail

def unpredict (cols : Nat) : Nat → (prior data : Bytes) → R Bytes
  | 0, _, _ => .error "predictor: out of fuel"
  | fuel+1, prior, data =>
    match data with
    | [] => .ok []
    | ft :: rest =>
      if ft > 4 then .error "predictor: unknown PNG filter type"
      else if (rest.take cols).length < cols then .error "predictor: incomplete row"
      else
        let row := unfilterRow ft 0 0 (rest.take cols) prior
        (unpredict cols fuel row (rest.drop cols)).map (row ++ ·)

/-- decode a stream's data: no filter or /FlateDecode with optional PNG predictor -/
def decodeData (inflate : Bytes → Option Bytes) (d : List (Bytes × SObj)) (raw : Bytes) : R Bytes :=
  match dget d "Filter" with
  | none => .ok raw
  | some (.name f) =>
    if f != bytesOfString "FlateDecode" then .error "filter: only FlateDecode is expected here" else
    (match inflate raw with
     | none => .error "filter: data does not inflate"
     | some plain =>
       match dget d "DecodeParms" with
       | none => .ok plain
       | some (.dict p) =>
         let pred := match dget p "Predictor" with | some (.int i) => i.toNat | _ => 1
         let cols := match dget p "Columns" with | some (.int i) => i.toNat | _ => 1
         if pred == 1 then .ok plain
         else if pred ≥ 10 && pred ≤ 15 then unpredict cols (plain.length + 1) (List.replicate cols 0) plain
         else .error "filter: unsupported predictor"
       | some _ => .error "filter: /DecodeParms is not a dictionary")
  | some _ => .error "filter: /Filter is not a single name"

def xrefRows (w0 w1 w2 : Nat) : Nat → Nat → Bytes → Table → R (Table × Bytes)
  | 0, _, data, acc => .ok (acc, data)
  | k+1, num, data, acc =>
    let wt := w0 + w1 + w2
    if (data.take wt).length < wt then .error "xref stream: data too short for /Index and /W" else
    let f0 := if w0 == 0 then 1 else beNat (data.take w0) 0
    let f1 := beNat ((data.drop w0).take w1) 0
    let f2 := beNat ((data.drop (w0 + w1)).take w2) 0
    let ent : Entry :=
      if f0 == 0 then { kind := 0, a := f1, b := f2 }
      else if f0 == 1 then { kind := 1, a := f1, b := f2 }
      else if f0 == 2 then { kind := 2, a := f1, b := f2 }
      else { kind := 0, a := 0, b := 0 }      -- unknown types are references to null
    if f0 > 2 then .error "xref stream: unknown entry type" else
    xrefRows w0 w1 w2 k (num + 1) (data.drop wt) ((num, ent) :: acc)

def xrefSubs (w0 w1 w2 : Nat) : List (Nat × Nat) → Bytes → Table → R (Table × Bytes)
  | [], data, acc => .ok (acc, data)
  | (first, count) :: rest, data, acc =>
    match xrefRows w0 w1 w2 count first data acc with
    | .error e => .error e
    | .ok (acc', data') => xrefSubs w0 w1 w2 rest data' acc'

def readXRefStream (inflate : Bytes → Option Bytes) (file : Bytes) (off : Nat) : R (Table × List (Bytes × SObj) × Nat × Nat) :=
  let direct : SObj → R Nat := fun l => match l with
    | .int i => if i < 0 then .error "stream: negative /Length" else .ok i.toNat
    | _ => .error "xref stream: /Length must be direct"
  match readIndirect file off direct with
  | .error e => .error ("xref stream: " ++ e)
  | .ok io =>
    match io.val, io.stream with
    | .dict d, some (so, sl) =>
      (match dget d "Type", dget d "Size", dget d "W" with
       | some (.name tp), some (.int size), some (.arr w) =>
         if tp != bytesOfString "XRef" then .error "xref stream: /Type is not /XRef"
         else if size < 0 then .error "xref stream: negative /Size" else
         match natList w with
         | some [w0, w1, w2] =>
           let idx : R (List (Nat × Nat)) :=
             match dget d "Index" with
             | none => .ok [(0, size.toNat)]
             | some (.arr a) =>
               (match natList a with
                | some ns => if ns.length % 2 == 0 then .ok (pairsOf ns) else .error "xref stream: odd /Index"
                | none => .error "xref stream: bad /Index")
             | some _ => .error "xref stream: bad /Index"
           (match idx with
            | .error e => .error e
            | .ok subs =>
              if subs.any (fun p => p.1 + p.2 > size.toNat) then .error "xref stream: /Index beyond /Size" else
              match decodeData inflate d ((file.drop so).take sl) with
              | .error e => .error ("xref stream: " ++ e)
              | .ok data =>
                match xrefSubs w0 w1 w2 subs data [] with
                | .error e => .error e
                | .ok (t, rest) =>
                  if rest != [] then .error "xref stream: data longer than /Index and /W say"
                  else .ok (t.reverse, d, io.next, io.num))
         | _ => .error "xref stream: /W is not three non-negative integers"
       | _, _, _ => .error "xref stream: /Type, /Size or /W missing")
    | _, _ => .error "xref stream: not a stream"

/-! ### object streams (§7.5.7) -/

def readPairs : Nat → Bytes → R (List (Nat × Nat) × Bytes)
  | 0, inp => .ok ([], inp)
  | k+1, inp =>
    let (t1, r1) := takeReg (skipWs inp)
    let (t2, r2) := takeReg (skipWs r1)
    match natTok t1, natTok t2 with
    | some n, some o => (readPairs k r2).map fun (ps, r) => ((n, o) :: ps, r)
    | _, _ => .error "object stream: header is not pairs of integers"

def increasing : List Nat → Bool
  | a :: b :: rest => a < b && increasing (b :: rest)
  | _ => true

structure ObjStm where
  pairs : List (Nat × Nat)
  first : Nat
  data : Bytes

def readObjStm (inflate : Bytes → Option Bytes) (file : Bytes) (io : IObj) : R ObjStm :=
  match io.val, io.stream with
  | .dict d, some (so, sl) =>
    (match dget d "Type", dget d "N", dget d "First" with
     | some (.name tp), some (.int n), some (.int first) =>
       if tp != bytesOfString "ObjStm" then .error "object stream: /Type is not /ObjStm"
       else if n < 0 || first < 0 then .error "object stream: negative /N or /First" else
       match decodeData inflate d ((file.drop so).take sl) with
       | .error e => .error ("object stream: " ++ e)
       | .ok data =>
         match readPairs n.toNat data with
         | .error e => .error e
         | .ok (ps, rest) =>
           let headLen := data.length - rest.length
           if headLen > first.toNat then .error "object stream: header runs past /First"
           else if !increasing (ps.map (·.2)) then .error "object stream: offsets not increasing"
           else if ps.any (fun p => first.toNat + p.2 > data.length) then .error "object stream: offset outside the data"
           else if !((data.drop headLen).take (first.toNat - headLen)).all isWS then .error "object stream: garbage between header and /First"
           else .ok { pairs := ps, first := first.toNat, data := data }
     | _, _, _ => .error "object stream: /Type, /N or /First missing")
  | _, _ => .error "object stream: not a stream"

/-- member `i` of an object stream: must be object `num`, not a stream, not a bare reference -/
def objStmMember (os : ObjStm) (i num : Nat) : R SObj :=
  match os.pairs[i]? with
  | none => .error "object stream: index not below /N"
  | some (n, off) =>
    if n != num then .error "object stream: index names another object number" else
    let inp := skipWs (os.data.drop (os.first + off))
    let lim := match os.pairs[i+1]? with
      | some (_, off2) => off2 - off
      | none => os.data.length - (os.first + off)
    match parseObj (objFuel inp) ((os.data.drop (os.first + off)).take lim |> skipWs) with
    | .error e => .error ("object stream member: " ++ e)
    | .ok (v, rest) =>
      let _ := inp
      if (skipWs rest) != [] then .error "object stream member: extra data (stream or second object)"
      else match v with
        | .ref _ _ => .error "object stream member is a bare reference"
        | v => .ok v

/-! ### the checker -/

structure Fact where
  num : Nat
  gen : Nat
  kind : Nat                -- 1 in use, 2 compressed
  val : SObj
  stream : Option (Nat × Nat)
  deriving Repr, Inhabited

structure FileFacts where
  version : Bytes
  size : Nat
  table : Table
  trailer : List (Bytes × SObj)
  objs : List Fact

/-- the numbers `i, i+1, …` in this order -/
def consecutiveFrom : Nat → List Nat → Bool
  | _, [] => true
  | i, n :: ns => n == i && consecutiveFrom (i + 1) ns

/-- every number below `size` is listed exactly once and no other number is listed
    (subsections may come in any order: the numbers are sorted first unless they already ascend) -/
def covered (t : Table) (size : Nat) : Bool :=
  let nums := t.map (·.1)
  nums.length == size &&
    (consecutiveFrom 0 nums || consecutiveFrom 0 (nums.mergeSort (fun a b => decide (a ≤ b))))

/-- `/Length`: a direct integer, or a reference to an in-use integer object (not compressed) -/
def lengthResolver (file : Bytes) (t : Table) : SObj → R Nat
  | .int i => if i < 0 then .error "stream: negative /Length" else .ok i.toNat
  | .ref n g =>
    match tget t n with
    | some { kind := 1, a := off, b := g' } =>
      if g != g' then .error "stream: /Length refers to a wrong generation" else
      (match readIndirect file off (fun _ => .error "stream: /Length object is a stream") with
       | .ok { num := n', gen := _, val := .int i, stream := none, next := _ } =>
         if n' != n then .error "stream: /Length object has another number"
         else if i < 0 then .error "stream: negative /Length" else .ok i.toNat
       | .ok _ => .error "stream: /Length object is not an integer"
       | .error e => .error e)
    | some { kind := 2, .. } => .error "stream: /Length object is stored in an object stream"
    | _ => .error "stream: /Length refers to a free object"
  | _ => .error "stream: /Length is neither an integer nor a reference"

def insByOff (x : Nat × Entry) : List (Nat × Entry) → List (Nat × Entry)
  | [] => [x]
  | y :: ys => if x.2.a ≤ y.2.a then x :: y :: ys else y :: insByOff x ys

/-- the in-use entries in the order of their offsets -/
def inUseByOffset (t : Table) : List (Nat × Entry) :=
  (t.filter fun e => e.2.kind == 1).foldl (fun acc x => insByOff x acc) []

/-- The body of the file from offset `pos` (`rest = file.drop pos`) up to `endOff`: the in-use
    objects follow one another in the order of their offsets, each filling the bytes up to the
    next one except for white space and comments.  Hence every entry points exactly at its
    object, and the body contains no object without an entry (in particular none whose number is
    at or above `/Size`). -/
def walkObjects (file : Bytes) (t : Table) (endOff : Nat) : List (Nat × Entry) → Nat → Bytes → R (List Fact)
  | [], pos, rest =>
    if endOff < pos then .error "body: the last object runs into the cross-reference section"
    else if skipWs (rest.take (endOff - pos)) != [] then
      .error s!"body: data without a cross-reference entry between offset {pos} and the cross-reference section"
    else .ok []
  | (num, e) :: es, pos, rest =>
    if e.a < pos then .error s!"object {num}: offset {e.a} lies inside the preceding object"
    else if skipWs (rest.take (e.a - pos)) != [] then
      .error s!"object {num}: data without a cross-reference entry between offset {pos} and {e.a}"
    else
      let r1 := rest.drop (e.a - pos)
      let limit := match es with
        | (_, e2) :: _ => e2.a
        | [] => endOff
      if limit < e.a then .error s!"object {num}: offset beyond the cross-reference section" else
      match readIndirectAt (r1.take (limit - e.a)) e.a (lengthResolver file t) with
      | .error er => .error s!"object {num}: {er}"
      | .ok (io, r2) =>
        if io.num != num then .error s!"object {num}: entry points at object {io.num}"
        else if io.gen != e.b then .error s!"object {num}: generation {io.gen} in the file, {e.b} in the entry"
        else if skipWs r2 != [] then .error s!"object {num}: data without a cross-reference entry after endobj"
        else
          match walkObjects file t endOff es limit (r1.drop (limit - e.a)) with
          | .error er => .error er
          | .ok fs => .ok ({ num := num, gen := io.gen, kind := 1, val := io.val, stream := io.stream } :: fs)

/-- the compressed objects: field 2 of a type-2 entry must name an in-use generation-0 object
    that is an object stream, field 3 the index of the member -/
def checkCompressed (inflate : Bytes → Option Bytes) (file : Bytes) (t : Table) : List (Nat × Entry) → List Fact → R (List Fact)
  | [], acc => .ok acc.reverse
  | (num, e) :: rest, acc =>
    if e.kind != 2 then checkCompressed inflate file t rest acc else
    match tget t e.a with
    | some { kind := 1, a := off, b := 0 } =>
      (match readIndirect file off (lengthResolver file t) with
       | .error er => .error s!"object {num}: container {e.a}: {er}"
       | .ok io =>
         if io.num != e.a then .error s!"object {num}: container entry points at object {io.num}" else
         match readObjStm inflate file io with
         | .error er => .error s!"object {num}: container {e.a}: {er}"
         | .ok os =>
           match objStmMember os e.b num with
           | .error er => .error s!"object {num}: {er}"
           | .ok v => checkCompressed inflate file t rest ({ num := num, gen := 0, kind := 2, val := v, stream := none } :: acc))
    | _ => .error s!"object {num}: container {e.a} is not an in-use generation-0 object"

/-- offset of the `startxref` keyword -/
def startxrefIndex (file : Bytes) : Option Nat := lastIndex (bytesOfString "startxref") file

def checkFile (inflate : Bytes → Option Bytes) (file : Bytes) : R FileFacts :=
  match checkHeader file with
  | .error e => .error e
  | .ok ver =>
    match checkTail file with
    | .error e => .error e
    | .ok off =>
      if off ≥ file.length then .error "startxref: offset beyond the end of the file"
      else if off > 0 && isReg (file.getD (off - 1) 0) then .error "startxref: offset points into the middle of a token" else
      let sec := file.drop off
      let isTable := hasPrefix (bytesOfString "xref") sec
      -- table, trailer, offset of the end of the section, number of the xref stream (if any)
      let r : R (Table × List (Bytes × SObj) × Nat × Option Nat) :=
        if isTable then (readTable sec).map fun (t, d, rest) => (t, d, file.length - rest.length, none)
        else (readXRefStream inflate file off).map fun (t, d, nx, n) => (t, d, nx, some n)
      match r with
      | .error e => .error e
      | .ok (t, tr, secEnd, xnum) =>
        match dget tr "Size" with
        | some (.int size) =>
          if size < 0 then .error "trailer: negative /Size"
          else if !covered t size.toNat then .error "cross-reference: not exactly one entry for every number below /Size"
          else if (dget tr "Prev").isSome then .error "trailer: /Prev in a freshly written file"
          else if (match xnum with | some n => decide (n ≥ size.toNat) | none => false) then
            .error "xref stream: its own object number is not below /Size"
          else
            match tget t 0 with
            | some e0 =>
              if e0.kind != 0 then .error "cross-reference: object 0 is not free"
              else if e0.b != 65535 then
                -- 7.5.4 for tables; for cross-reference streams the third field of a type 0 entry is
                -- the generation number (7.5.8.3), which for object 0 is 65535 as well
                .error (if isTable then "xref table: object 0 does not have generation 65535"
                        else "xref stream: object 0 does not have generation 65535")
              else
                -- the body: header, then the in-use objects in offset order, then the section
                let body := (inUseByOffset t).filter fun e => e.2.a != off
                let selfOk := (t.filter fun e => e.2.kind == 1 && e.2.a == off).all fun e =>
                  !isTable && xnum == some e.1 && e.2.b == 0
                if !selfOk then .error "cross-reference: an entry points at the cross-reference section itself" else
                match walkObjects file t off body 8 (file.drop 8) with
                | .error e => .error e
                | .ok facts1 =>
                  if false then .error ""
                  else if (match startxrefIndex file with
                      | some i => file.length - (skipWs (file.drop secEnd)).length != i
                      | none => true) then
                    .error "tail: something stands between the cross-reference section and startxref"
                  else
                  match checkCompressed inflate file t t [] with
                  | .error e => .error e
                  | .ok facts2 =>
                  let facts := facts1 ++ facts2
                  match dget tr "Root" with
                  | some (.ref rn rg) =>
                    (match facts.find? (fun f => f.num == rn && f.gen == rg) with
                     | some { val := .dict cd, .. } =>
                       (match dget cd "Type" with
                        | some (.name tp) =>
                          if tp == bytesOfString "Catalog" then
                            .ok { version := ver, size := size.toNat, table := t, trailer := tr, objs := facts }
                          else .error "catalog: /Type is not /Catalog"
                        | _ => .error "catalog: /Type missing")
                     | _ => .error "trailer: /Root does not refer to an in-use dictionary")
                  | _ => .error "trailer: /Root is not an indirect reference"
            | none => .error "cross-reference: no entry for object 0"
        | _ => .error "trailer: /Size missing"

end PdfVerif.Spec.FileWF

/-!
# ASCII85Decode — reference codec written from ISO 32000-1 §7.4.3 (Adobe ASCII base-85)

Groups of 4 bytes `b1 b2 b3 b4` correspond to 5 digits `c1 … c5` with
`b1·256³ + b2·256² + b3·256 + b4 = c1·85⁴ + c2·85³ + c3·85² + c4·85 + c5`, digit `d` written as
the character `d + 33` (`!` … `u`).  An all-zero group is written `z`.  A final group of
`n < 4` bytes is padded with zero bytes, encoded, and only its first `n+1` characters are
written (no `z` here); on decoding a final group of `n+1` characters yields `n` bytes.  EOD is
`~>`.  White space is ignored.  Errors: a value above `2³² − 1`, a `z` inside a group, a final
group of one character, any other character.
-/
namespace PdfVerif.Spec.Ascii85

def isWhite (c : Nat) : Bool := c == 0 || c == 9 || c == 10 || c == 12 || c == 13 || c == 32

def value (digits : List Nat) : Nat := digits.foldl (fun a d => a * 85 + d) 0

def bytesOf (v : Nat) : List Nat := [v / 16777216 % 256, v / 65536 % 256, v / 256 % 256, v % 256]

def charsOf (v : Nat) : List Nat :=
  [v / 52200625 % 85 + 33, v / 614125 % 85 + 33, v / 7225 % 85 + 33, v / 85 % 85 + 33, v % 85 + 33]

/-! ### encoder -/

def word (b1 b2 b3 b4 : Nat) : Nat := b1 * 16777216 + b2 * 65536 + b3 * 256 + b4

def encode : List Nat → List Nat
  | b1 :: b2 :: b3 :: b4 :: rest =>
    (if word b1 b2 b3 b4 == 0 then [122] else charsOf (word b1 b2 b3 b4)) ++ encode rest
  | [b1, b2, b3] => (charsOf (word b1 b2 b3 0)).take 4 ++ [126, 62]
  | [b1, b2] => (charsOf (word b1 b2 0 0)).take 3 ++ [126, 62]
  | [b1] => (charsOf (word b1 0 0 0)).take 2 ++ [126, 62]
  | [] => [126, 62]

/-! ### decoder -/

/-- the characters before `~>`; `none` if the EOD marker is missing or `~` is not followed
    by `>` -/
def upToEOD : List Nat → Option (List Nat)
  | [] => none
  | c :: cs =>
    if c == 126 then (match cs with | 62 :: _ => some [] | _ => none)
    else (upToEOD cs).map (c :: ·)

def isDigit (c : Nat) : Bool := 33 ≤ c && c ≤ 117

/-- decode white-space-free data: `cur` holds the digits of the current group (in order) -/
def groups (cur : List Nat) : List Nat → Option (List Nat)
  | [] =>
    match cur.length with
    | 0 => some []
    | 1 => none
    | n + 1 =>
      let v := value (cur ++ List.replicate (4 - n) 84)
      if v < 4294967296 then some ((bytesOf v).take n) else none
  | c :: cs =>
    if isDigit c then
      let cur' := cur ++ [c - 33]
      if cur'.length == 5 then
        if value cur' < 4294967296 then (groups [] cs).map (bytesOf (value cur') ++ ·) else none
      else groups cur' cs
    else if c == 122 ∧ cur = [] then (groups [] cs).map ([0, 0, 0, 0] ++ ·)
    else none

def decode (s : List Nat) : Option (List Nat) :=
  match upToEOD (s.filter (fun c => !isWhite c)) with
  | none => none
  | some body => groups [] body

end PdfVerif.Spec.Ascii85

/-
Basic conventions shared by all models (core Lean only).

* A byte is a `Nat` with the side condition `< 256`; a byte string is `List Nat`.
  Theorems carry the side condition explicitly (`AllBytes`).
* The line protocol between the Go harness and the driver uses lower-case hex.
-/
namespace PdfVerif

abbrev Byte := Nat
abbrev Bytes := List Nat

/-- every element is a byte -/
def AllBytes (bs : Bytes) : Prop := ∀ b ∈ bs, b < 256

instance (bs : Bytes) : Decidable (AllBytes bs) := by unfold AllBytes; infer_instance

@[simp] theorem allBytes_nil : AllBytes [] := by simp [AllBytes]
@[simp] theorem allBytes_cons (b : Nat) (bs : Bytes) : AllBytes (b :: bs) ↔ b < 256 ∧ AllBytes bs := by
  simp [AllBytes]
theorem allBytes_append (a b : Bytes) : AllBytes (a ++ b) ↔ AllBytes a ∧ AllBytes b := by
  simp [AllBytes, or_imp, forall_and]

/-- error classes the models distinguish (canonical enum of the correspondence) -/
inductive Err where
  | eof          -- bare io.EOF
  | malformed    -- *MalformedFileError (IsMalformed)
  | io           -- an error of the byte source or sink
  | auth         -- AuthenticationError
  | other
  deriving DecidableEq, Repr, Inhabited

def Err.toString : Err → String
  | .eof => "eof" | .malformed => "malformed" | .io => "io" | .auth => "auth" | .other => "other"
instance : ToString Err := ⟨Err.toString⟩

/-! ### hex wire encoding -/

def hexDigitChar (n : Nat) : Char :=
  if n < 10 then Char.ofNat (48 + n) else Char.ofNat (87 + n)

def hexOfBytes (bs : Bytes) : String :=
  String.ofList (bs.flatMap fun b => [hexDigitChar (b / 16 % 16), hexDigitChar (b % 16)])

def hexCharVal (c : Char) : Option Nat :=
  let n := c.toNat
  if 48 ≤ n ∧ n ≤ 57 then some (n - 48)
  else if 97 ≤ n ∧ n ≤ 102 then some (n - 87)
  else if 65 ≤ n ∧ n ≤ 70 then some (n - 55)
  else none

def bytesOfHexChars : List Char → Option Bytes
  | [] => some []
  | [_] => none
  | a :: b :: rest => do
    let x ← hexCharVal a
    let y ← hexCharVal b
    let r ← bytesOfHexChars rest
    pure ((x * 16 + y) :: r)

/-- `"-"` stands for the empty byte string on the wire (so that fields are never empty) -/
def bytesOfHex (s : String) : Option Bytes :=
  if s == "-" then some [] else bytesOfHexChars s.toList

def hexWire (bs : Bytes) : String := if bs.isEmpty then "-" else hexOfBytes bs

def bytesOfString (s : String) : Bytes := s.toUTF8.toList.map (·.toNat)

/-- ASCII bytes to String (only used for printing diagnostics) -/
def stringOfBytes (bs : Bytes) : String := String.ofList (bs.map fun b => Char.ofNat b)

def natToDec (n : Nat) : Bytes := bytesOfString (toString n)
def intToDec (i : Int) : Bytes := bytesOfString (toString i)

/-- lexicographic order on byte strings (Go's string `<`) -/
def bytesLt : Bytes → Bytes → Bool
  | [], [] => false
  | [], _ :: _ => true
  | _ :: _, [] => false
  | a :: as, b :: bs => if a < b then true else if b < a then false else bytesLt as bs

def isPrefixOf : Bytes → Bytes → Bool
  | [], _ => true
  | _ :: _, [] => false
  | a :: as, b :: bs => a == b && isPrefixOf as bs

end PdfVerif

import PdfVerif.Props.C04hisc
import PdfVerif.Spec.C04Renders
import PdfVerif.Lemmas.C01Caps
import PdfVerif.Lemmas.C01Dict
/-!
C04 helper lemmas for `parse_any_rendering`: what ends a token, the first byte of every
conforming spelling, and each scalar token read by `ReadObject` (on top of the lexical theorems of
`Props/C04hisc.lean`).
-/
namespace PdfVerif.C04L
open PdfVerif PdfVerif.C01L
open PdfVerif.Spec.Grammar (isWhite isDelim isRegularCh isEolCh isDigitCh WsR NameR StrR HexR IntR RealTok decVal)
open PdfVerif.Spec.Renders
open PdfVerif.C04hisc (StopsWs NameEnd NumEnd ws_any_spelling class_agree)

/-- what must follow a token made of regular characters: the end of the input, or a byte that is
    not regular (white space or a delimiter) -/
def EndsToken : Bytes → Prop
  | [] => True
  | d :: _ => d < 256 ∧ isRegularCh d = false

theorem endsToken_nameEnd {k : Bytes} (h : EndsToken k) : NameEnd k := by
  cases k <;> exact h

theorem nonreg_table' : ∀ d, d < 256 → isRegularCh d = false → isDigitCh d = false ∧ d ≠ 46 := by decide +kernel

theorem endsToken_numEnd {k : Bytes} (h : EndsToken k) : NumEnd k := by
  cases k with
  | nil => trivial
  | cons d t => exact nonreg_table' d h.1 h.2

theorem delim_table : ∀ d, d < 256 → (isWhite d = true ∨ isDelim d = true) → isRegularCh d = false := by
  decide +kernel

/-- white space (non-empty) ends a token -/
theorem ws_endsToken {w : Bytes} (hw : WsR w) (hne : w ≠ []) (x : Bytes) : EndsToken (w ++ x) := by
  cases hw with
  | nil => exact absurd rfl hne
  | white c w' hc _ =>
    have hlt := C04hisc.white_lt c hc
    exact ⟨hlt, delim_table c hlt (.inl hc)⟩
  | comment body eol w' _ _ _ => exact ⟨by decide, by decide⟩

/-! ### first bytes -/

/-- first byte of an object's spelling: not white space, not `%`, not `]`, `>`, `R`, `s` -/
def ObjHead (c : Nat) : Prop :=
  c < 256 ∧ isWhite c = false ∧ c ≠ 37 ∧ c ≠ 93 ∧ c ≠ 62 ∧ c ≠ 82 ∧ c ≠ 115

theorem digit_table : ∀ c, c < 256 → (isDigitCh c = true ∨ c = 43 ∨ c = 45 ∨ c = 46) →
    ObjHead c ∧ isRegularCh c = true := by
  unfold ObjHead; decide +kernel

theorem digit_lt {c : Nat} (h : isDigitCh c = true) : c < 256 := by simp [isDigitCh] at h; omega

theorem intR_head {i : Int} {s : Bytes} (h : IntR i s) :
    ∃ c t, s = c :: t ∧ (isDigitCh c = true ∨ c = 43 ∨ c = 45) := by
  cases h with
  | unsigned _ hne hd =>
    cases s with
    | nil => exact absurd rfl hne
    | cons c t => exact ⟨c, t, rfl, .inl (hd c (by simp))⟩
  | plus ds _ _ => exact ⟨43, ds, rfl, .inr (.inl rfl)⟩
  | minus ds _ _ => exact ⟨45, ds, rfl, .inr (.inr rfl)⟩

theorem realTok_head {t : Bytes} (h : RealTok t) :
    ∃ c r, t = c :: r ∧ (isDigitCh c = true ∨ c = 43 ∨ c = 45 ∨ c = 46) := by
  cases h with
  | mk sign ip fp hs hi _ _ =>
    rcases hs with rfl | rfl | rfl
    · cases ip with
      | nil => exact ⟨46, fp, rfl, .inr (.inr (.inr rfl))⟩
      | cons c r => exact ⟨c, r ++ 46 :: fp, by simp, .inl (hi c (by simp))⟩
    · exact ⟨43, ip ++ 46 :: fp, by simp, .inr (.inl rfl)⟩
    · exact ⟨45, ip ++ 46 :: fp, by simp, .inr (.inr (.inl rfl))⟩

theorem numHead_objHead {c : Nat} (h : isDigitCh c = true ∨ c = 43 ∨ c = 45 ∨ c = 46) : ObjHead c := by
  have hlt : c < 256 := by
    rcases h with h | h | h | h
    · exact digit_lt h
    all_goals omega
  exact (digit_table c hlt h).1

/-- every conforming spelling starts with a byte that is neither white space nor `%`, `]`, `>`,
    `R`; if the object "starts with a delimiter" that byte is not regular -/
theorem renders_head {L : Nat} {o : Obj} {bs : Bytes} (h : Renders L o bs) :
    ∃ c t, bs = c :: t ∧ ObjHead c ∧ (startsDelim o = true → isRegularCh c = false) := by
  cases h with
  | null => exact ⟨110, _, rfl, by unfold ObjHead; decide, by simp [startsDelim]⟩
  | tru => exact ⟨116, _, rfl, by unfold ObjHead; decide, by simp [startsDelim]⟩
  | fls => exact ⟨102, _, rfl, by unfold ObjHead; decide, by simp [startsDelim]⟩
  | int i s hi _ =>
    obtain ⟨c, t, rfl, hc⟩ := intR_head hi
    exact ⟨c, t, rfl, numHead_objHead (by rcases hc with h | h | h <;> simp [h]), by simp [startsDelim]⟩
  | real t ht _ =>
    obtain ⟨c, r, rfl, hc⟩ := realTok_head ht
    exact ⟨c, r, rfl, numHead_objHead hc, by simp [startsDelim]⟩
  | name v s _ => exact ⟨47, s, rfl, by unfold ObjHead; decide, fun _ => by decide⟩
  | strLit v s _ => exact ⟨40, _, rfl, by unfold ObjHead; decide, fun _ => by decide⟩
  | strHex v s _ => exact ⟨60, _, rfl, by unfold ObjHead; decide, fun _ => by decide⟩
  | ref n g s1 w1 s2 w2 h1 _ _ _ _ _ _ _ =>
    obtain ⟨c, t, rfl, hc⟩ := intR_head h1
    exact ⟨c, t ++ (w1 ++ (s2 ++ (w2 ++ [82]))), by simp, numHead_objHead (by rcases hc with h | h | h <;> simp [h]), by simp [startsDelim]⟩
  | arr xs body _ => exact ⟨91, _, rfl, by unfold ObjHead; decide, fun _ => by decide⟩
  | dict kv body _ => exact ⟨60, _, rfl, by unfold ObjHead; decide, fun _ => by decide⟩

theorem objHead_stops {c : Nat} (h : ObjHead c) (t : Bytes) : StopsWs (c :: t) := ⟨h.1, h.2.1, h.2.2.1⟩

/-- white space, then something that stops it: `SkipWhiteSpace` lands exactly there -/
theorem skip_to {w : Bytes} (hw : WsR w) (c : Nat) (t : Bytes) (hs : StopsWs (c :: t)) :
    skipWS (w ++ c :: t) = (c :: t, false) := by
  simpa using ws_any_spelling w hw (c :: t) hs

theorem skip_self (c : Nat) (t : Bytes) (hs : StopsWs (c :: t)) : skipWS (c :: t) = (c :: t, false) := by
  simpa using ws_any_spelling [] .nil (c :: t) hs

/-! ### scalar tokens through `ReadObject` -/

theorem readObject_num' (f d c : Nat) (t : Bytes) (h : isDigitCh c = true ∨ c = 43 ∨ c = 45 ∨ c = 46) :
    readObject (f + 1) d (c :: t) = readNumber (c :: t) := by
  rcases h with h | h | h | h
  · exact readObject_num f d c t (.inl h)
  · subst h; simp [readObject, startsWith, isPrefixOf, kw_null, kw_true, kw_false, isDigit]
  · exact readObject_num f d c t (.inr (.inl h))
  · exact readObject_num f d c t (.inr (.inr h))

theorem readObject_lit (f d : Nat) (t : Bytes) :
    readObject (f + 1) d (40 :: t) = (readString t).map fun (s, r) => (.str s, r) := by
  simp [readObject, startsWith, isPrefixOf, kw_null, kw_true, kw_false, isDigit]

theorem readObject_hex (f d : Nat) (t : Bytes) (h : t.head? ≠ some 60) :
    readObject (f + 1) d (60 :: t) = (readHexString t).map fun (s, r) => (.str s, r) := by
  cases t with
  | nil => simp [readObject, startsWith, isPrefixOf, kw_null, kw_true, kw_false, isDigit]
  | cons x xs =>
    simp at h
    simp [readObject, startsWith, isPrefixOf, kw_null, kw_true, kw_false, isDigit, h]

theorem hexR_head {p : Option Nat} {v s : Bytes} (h : HexR p v s) (x : Bytes) : (s ++ 62 :: x).head? ≠ some 60 := by
  cases h with
  | doneEven => simp
  | doneOdd _ => simp
  | white _ c _ _ hc _ => simp [isWhite] at hc ⊢; omega
  | hi c d _ _ hc _ => have := C04hisc.hexdigit_not_gt c d hc; simp; intro h0; subst h0; simp [Spec.Grammar.hexDigit?] at hc
  | lo c d _ _ _ hc _ => simp; intro h0; subst h0; simp [Spec.Grammar.hexDigit?] at hc

end PdfVerif.C04L

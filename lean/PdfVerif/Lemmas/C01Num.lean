import PdfVerif.Model.Scan
/-!
Helper lemmas for C01: the decimal printer `natDec`/`intDec` of `Model/Format.lean` and the
number scanner `scanNumTok`/`parseInt64` of `Model/Scan.lean`.
-/
namespace PdfVerif.C01L
open PdfVerif

theorem natDecAux_fuel : ∀ (f1 f2 n : Nat), n ≤ f1 → n ≤ f2 → natDecAux f1 n = natDecAux f2 n := by
  intro f1
  induction f1 with
  | zero =>
    intro f2 n h1 h2
    have : n = 0 := by omega
    subst this
    cases f2 <;> simp [natDecAux]
  | succ f1 ih =>
    intro f2 n h1 h2
    cases f2 with
    | zero =>
      have : n = 0 := by omega
      subst this
      simp [natDecAux]
    | succ f2 =>
      simp only [natDecAux]
      split
      · rfl
      · rw [ih f2 (n / 10) (by omega) (by omega)]

/-- the defining equation of the decimal printer (recursion on `n / 10`) -/
theorem natDec_unfold (n : Nat) :
    natDec n = if n < 10 then [48 + n] else natDec (n / 10) ++ [48 + n % 10] := by
  unfold natDec
  cases n with
  | zero => simp [natDecAux]
  | succ m =>
    simp only [natDecAux]
    split
    · rfl
    · rw [natDecAux_fuel m ((m + 1) / 10) ((m + 1) / 10) (by omega) (by omega)]

theorem natDec_small {n : Nat} (h : n < 10) : natDec n = [48 + n] := by
  rw [natDec_unfold]; simp [h]

theorem natDec_big {n : Nat} (h : ¬ n < 10) : natDec n = natDec (n / 10) ++ [48 + n % 10] := by
  rw [natDec_unfold]; simp [h]

theorem natDec_digits (n : Nat) : ∀ c ∈ natDec n, isDigit c = true := by
  induction n using Nat.strongRecOn with
  | _ n ih =>
    by_cases h : n < 10
    · rw [natDec_small h]; intro c hc; simp at hc; subst hc; simp [isDigit]; omega
    · rw [natDec_big h]; intro c hc
      simp only [List.mem_append, List.mem_singleton] at hc
      rcases hc with hc | hc
      · exact ih (n / 10) (by omega) c hc
      · subst hc; simp [isDigit]; omega

theorem natDec_ne_nil (n : Nat) : natDec n ≠ [] := by
  rw [natDec_unfold]; split <;> simp

theorem natDec_length_pos (n : Nat) : 0 < (natDec n).length :=
  List.length_pos_iff.mpr (natDec_ne_nil n)

/-- `natDec n` has at most `k` digits when `n < 10^k` -/
theorem natDec_length_le : ∀ (k n : Nat), 0 < k → n < 10 ^ k → (natDec n).length ≤ k := by
  intro k
  induction k with
  | zero => intro n h; omega
  | succ k ih =>
    intro n _ hn
    by_cases h : n < 10
    · rw [natDec_small h]; simp
    · rw [natDec_big h]
      have hk : 0 < k := by
        cases k with
        | zero => simp at hn; omega
        | succ k => omega
      have : n / 10 < 10 ^ k := by
        rw [Nat.pow_succ] at hn
        exact Nat.div_lt_of_lt_mul (by rw [Nat.mul_comm]; exact hn)
      have := ih (n / 10) hk this
      simp; omega

theorem digitsVal_append (a b : Bytes) (acc : Nat) :
    digitsVal (a ++ b) acc = digitsVal b (digitsVal a acc) := by
  induction a generalizing acc with
  | nil => rfl
  | cons c cs ih => simp [digitsVal, ih]

/-- reading the printed digits gives the number back -/
theorem digitsVal_natDec (n : Nat) : digitsVal (natDec n) 0 = n := by
  induction n using Nat.strongRecOn with
  | _ n ih =>
    by_cases h : n < 10
    · rw [natDec_small h]; simp [digitsVal]
    · rw [natDec_big h, digitsVal_append, ih (n / 10) (by omega)]
      simp [digitsVal]; omega

theorem natDec_head (n : Nat) : ∃ d t, natDec n = d :: t ∧ isDigit d = true := by
  cases h : natDec n with
  | nil => exact absurd h (natDec_ne_nil n)
  | cons d t => exact ⟨d, t, rfl, natDec_digits n d (by rw [h]; simp)⟩

theorem isDigit_iff (c : Nat) : isDigit c = true ↔ 48 ≤ c ∧ c ≤ 57 := by
  simp [isDigit]

theorem all_digits_natDec (n : Nat) : (natDec n).all isDigit = true := by
  simp only [List.all_eq_true]; exact natDec_digits n

/-! ### the number scanner -/

/-- what may follow a number token: nothing, or a byte that the accept function of
    `ReadNumber` rejects after the first byte (`dotOk` = a dot would still be accepted) -/
def NumStop (dotOk : Bool) : Bytes → Prop
  | [] => True
  | c :: _ => isDigit c = false ∧ (dotOk = true → c ≠ 46)

/-- a run of digits is accepted up to a stopping byte -/
theorem scan_digits (allowDot hasDot : Bool) (ds rest : Bytes) (hds : ∀ c ∈ ds, isDigit c = true)
    (hrest : NumStop (allowDot && !hasDot) rest) :
    scanNumTok allowDot hasDot false (ds ++ rest) = (ds, rest) := by
  induction ds with
  | nil =>
    cases rest with
    | nil => simp [scanNumTok]
    | cons c cs =>
      obtain ⟨h1, h2⟩ := hrest
      simp only [List.nil_append, scanNumTok]
      by_cases h46 : c = 46
      · subst h46
        have : (allowDot && !hasDot) = false := by
          cases h : (allowDot && !hasDot) with
          | false => rfl
          | true => exact absurd rfl (h2 h)
        simp at this
        cases allowDot <;> cases hasDot <;> simp_all [isDigit]
      · simp [h46, h1]
  | cons d ds ih =>
    have hd : isDigit d = true := hds d (by simp)
    have hd' := (isDigit_iff d).mp hd
    have h46 : ¬ d = 46 := by omega
    have := ih (fun c hc => hds c (by simp [hc]))
    simp [scanNumTok, h46, hd, this]

/-- a run of digits in front of anything is passed through -/
theorem scan_digits_pre (allowDot hasDot : Bool) (ds k : Bytes) (hds : ∀ c ∈ ds, isDigit c = true) :
    scanNumTok allowDot hasDot false (ds ++ k) =
      (ds ++ (scanNumTok allowDot hasDot false k).1, (scanNumTok allowDot hasDot false k).2) := by
  induction ds with
  | nil => simp
  | cons d ds ih =>
    have hd : isDigit d = true := hds d (by simp)
    have hd' := (isDigit_iff d).mp hd
    have h46 : ¬ d = 46 := by omega
    have := ih (fun c hc => hds c (by simp [hc]))
    simp [scanNumTok, h46, hd, this]

/-! ### `parseInt64` on the two token shapes the formatter produces -/

theorem parseInt64_neg (ds : Bytes) (hne : ds ≠ []) (hall : ds.all isDigit = true) :
    parseInt64 (45 :: ds) =
      if (digitsVal ds 0 : Int) ≤ 9223372036854775808 then some (-(digitsVal ds 0 : Int)) else none := by
  have h1 : ds.isEmpty = false := by cases ds <;> simp_all
  simp only [parseInt64, h1, hall]
  simp
  split <;> split <;> first | rfl | omega

theorem parseInt64_pos (d : Nat) (t : Bytes) (hd : isDigit d = true) (hall : (d :: t).all isDigit = true) :
    parseInt64 (d :: t) =
      if (digitsVal (d :: t) 0 : Int) ≤ 9223372036854775807 then some (digitsVal (d :: t) 0 : Int) else none := by
  have hd' := (isDigit_iff d).mp hd
  unfold parseInt64
  split
  · rename_i neg ds heq
    split at heq
    · rename_i ds' h; simp at h; omega
    · rename_i ds' h; simp at h; omega
    · simp at heq
      obtain ⟨h1, h2⟩ := heq
      subst h1; subst h2
      simp only [hall]
      simp
      split <;> split <;> first | rfl | omega

theorem natDec_no_byte (n b : Nat) (hb : isDigit b = false) : (natDec n).contains b = false := by
  cases hc : (natDec n).contains b with
  | false => rfl
  | true =>
    simp at hc
    have := natDec_digits n b hc
    simp [hb] at this

/-! ### decimal tokens for reals -/

/-- longest prefix of digits, and the rest -/
def digitSpan : Bytes → Bytes × Bytes
  | [] => ([], [])
  | c :: cs => if isDigit c then ((c :: (digitSpan cs).1), (digitSpan cs).2) else ([], c :: cs)

theorem digitSpan_append (l : Bytes) : (digitSpan l).1 ++ (digitSpan l).2 = l := by
  induction l with
  | nil => rfl
  | cons c cs ih => simp only [digitSpan]; split <;> simp [ih]

theorem digitSpan_digits (l : Bytes) : ∀ c ∈ (digitSpan l).1, isDigit c = true := by
  induction l with
  | nil => simp [digitSpan]
  | cons c cs ih =>
    simp only [digitSpan]; split
    · rename_i h; intro x hx; simp at hx; rcases hx with hx | hx
      · exact hx ▸ h
      · exact ih x hx
    · simp

/-- unsigned part of a decimal token: digits, optional dot, digits, at least one digit -/
def wfUnsigned (u : Bytes) : Bool :=
  match (digitSpan u).2 with
  | [] => !(digitSpan u).1.isEmpty
  | 46 :: fp => fp.all isDigit && (!(digitSpan u).1.isEmpty || !fp.isEmpty)
  | _ => false

/-- well-formed decimal token (what `strconv.FormatFloat(x,'f',-1,64)` produces for finite `x`,
    and a little more): optional `-`, digits, optional `.`, digits, at least one digit -/
def wfRealTok (t : Bytes) : Bool :=
  match t with
  | 45 :: u => wfUnsigned u
  | u => wfUnsigned u

theorem unsigned_shape (sgn u : Bytes) (hs : sgn = [] ∨ sgn = [45]) (hu : wfUnsigned u = true) :
    ∃ ip fp, realToken (sgn ++ u) = sgn ++ ip ++ 46 :: fp ∧
      (∀ c ∈ ip, isDigit c = true) ∧ (∀ c ∈ fp, isDigit c = true) ∧ (ip ≠ [] ∨ fp ≠ []) := by
  have hsplit := digitSpan_append u
  have hip := digitSpan_digits u
  have hsgn : sgn.contains 46 = false := by rcases hs with h | h <;> subst h <;> simp
  have hipdot : (digitSpan u).1.contains 46 = false := by
    cases hc : (digitSpan u).1.contains 46 with
    | false => rfl
    | true => simp at hc; have := hip 46 hc; simp [isDigit] at this
  unfold wfUnsigned at hu
  split at hu
  · rename_i hd
    refine ⟨(digitSpan u).1, [], ?_, hip, by simp, ?_⟩
    · have hu' : (digitSpan u).1 = u := by rw [hd] at hsplit; simpa using hsplit
      have : (sgn ++ u).contains 46 = false := by
        rw [← hu']; simp at hsgn hipdot ⊢; exact ⟨hsgn, hipdot⟩
      unfold realToken
      rw [this, hu']; simp
    · left; simpa using hu
  · rename_i fp hd
    simp at hu
    refine ⟨(digitSpan u).1, fp, ?_, hip, hu.1, ?_⟩
    · have hu' : (digitSpan u).1 ++ 46 :: fp = u := by rw [hd] at hsplit; exact hsplit
      have : (sgn ++ u).contains 46 = true := by
        rw [← hu']; simp
      unfold realToken
      rw [this]; simp; exact hu'.symm
    · rcases hu.2 with h | h
      · left; simpa using h
      · right; simpa using h
  · simp at hu

theorem scan_real_tail (ip fp rest : Bytes) (hip : ∀ c ∈ ip, isDigit c = true)
    (hfp : ∀ c ∈ fp, isDigit c = true) (hrest : NumStop false rest) :
    scanNumTok true false false (ip ++ 46 :: fp ++ rest) = (ip ++ 46 :: fp, rest) := by
  have h2 := scan_digits true true fp rest hfp (by simpa using hrest)
  have : ip ++ 46 :: fp ++ rest = ip ++ (46 :: (fp ++ rest)) := by simp
  rw [this, scan_digits_pre true false ip _ hip]
  simp [scanNumTok, h2]

theorem scan_first_irrel (a h : Bool) (l : Bytes) (hl : ∀ c, l.head? = some c → c ≠ 43 ∧ c ≠ 45) :
    scanNumTok a h true l = scanNumTok a h false l := by
  cases l with
  | nil => simp [scanNumTok]
  | cons c cs =>
    obtain ⟨h1, h2⟩ := hl c rfl
    simp [scanNumTok, h1, h2]


end PdfVerif.C01L

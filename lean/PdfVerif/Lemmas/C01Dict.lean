import PdfVerif.Lemmas.C01Arr
/-!
C01 helper lemmas: the loop of `ReadDict` on formatter output — one entry at a time (including
the `key a b R` look-ahead), then whole dictionaries, plain and pretty.
-/
namespace PdfVerif.C01L
open PdfVerif PdfVerif.C01b

/-! ### one iteration of `readDictLoop` -/

theorem readName_gt (t : Bytes) : ∃ e, readName (62 :: t) = .error e := ⟨_, rfl⟩

theorem dloop_end (f d : Nat) (acc : List (Bytes × Obj)) (rest : Bytes) :
    readDictLoop (f + 1) d acc (62 :: 62 :: rest) = .ok (acc, rest) := by
  rw [readDictLoop]
  simp [readName]

theorem dictInsert_new (k : Bytes) (v : Obj) (acc : List (Bytes × Obj)) (h : k ∉ keysOf acc) :
    dictInsert k v acc = acc ++ [(k, v)] := by
  induction acc with
  | nil => rfl
  | cons e es ih =>
    obtain ⟨k', v'⟩ := e
    simp [keysOf] at h
    have hne : (k' == k) = false := by simp; exact fun h' => h.1 h'.symm
    simp [dictInsert, hne]
    exact ih (by simpa [keysOf] using h.2)

theorem any_key_false (k : Bytes) (acc : List (Bytes × Obj)) (h : k ∉ keysOf acc) :
    (acc.any fun e => e.1 == k) = false := by
  simp [keysOf] at h
  simp
  intro a b hab heq
  exact h b (heq ▸ hab)

/-- one dictionary entry whose value is not followed by a reference look-ahead -/
theorem dloop_entry (f d : Nat) (acc : List (Bytes × Obj)) (inp : Bytes) (key r1 r2 r3 r4 : Bytes)
    (val : Obj) (c : Nat)
    (h1 : readName inp = .ok (key, r1)) (h2 : skipWS r1 = (r2, false))
    (h3 : readObject f d r2 = .ok (val, r3)) (h4 : skipWS r3 = (c :: r4, false))
    (hc : c = 47 ∨ c = 62) (hk : key ∉ keysOf acc) (hlen : acc.length < Gen.scanner_maxDictLen) :
    readDictLoop (f + 1) d acc inp = readDictLoop f d (acc ++ [(key, val)]) (c :: r4) := by
  rw [readDictLoop]
  simp only [h1, h2, h3, h4]
  have hany := any_key_false key acc hk
  have hl : ¬ (acc.length ≥ Gen.scanner_maxDictLen) := by omega
  have hcc : (c != 47 && c != 62) = false := by rcases hc with h | h <;> subst h <;> decide
  · cases val <;> simp only [hcc, hany, hl, dictInsert_new key _ acc hk] <;> simp
  · intro rest h; subst h; simp [readName] at h1

/-- one dictionary entry `key a b R` -/
theorem dloop_ref (f d : Nat) (acc : List (Bytes × Obj)) (inp : Bytes) (key r1 r2 r3 r4 r5 r6 r7 : Bytes)
    (a b : Int) (c : Nat)
    (h1 : readName inp = .ok (key, r1)) (h2 : skipWS r1 = (r2, false))
    (h3 : readObject f d r2 = .ok (.int a, r3)) (h4 : skipWS r3 = (c :: r4, false))
    (hc : c ≠ 47 ∧ c ≠ 62) (h5 : readInteger (c :: r4) = .ok (b, r5))
    (h6 : skipWS r5 = (82 :: r6, false)) (h7 : skipWS r6 = (r7, false))
    (hk : key ∉ keysOf acc) (hlen : acc.length < Gen.scanner_maxDictLen) :
    readDictLoop (f + 1) d acc inp =
      readDictLoop f d (acc ++ [(key, if validRef a b then Obj.ref a.toNat b.toNat else Obj.null)]) r7 := by
  rw [readDictLoop]
  · simp only [h1, h2, h3, h4]
    have hany := any_key_false key acc hk
    have hl : ¬ (acc.length ≥ Gen.scanner_maxDictLen) := by omega
    have hcc : (c != 47 && c != 62) = true := by simp [hc.1, hc.2]
    simp only [hcc, h5, h6, h7, hany, hl, dictInsert_new key _ acc hk]
    simp
  · intro rest h; subst h; simp [readName] at h1

theorem readInteger_natDec (g : Nat) (hg : (g : Int) ≤ 9223372036854775807) (rest : Bytes)
    (hrest : NumStop false rest) : readInteger (natDec g ++ rest) = .ok ((g : Int), rest) := by
  obtain ⟨c, t, hct, hc⟩ := natDec_head g
  have hdig := natDec_digits g
  have hc' := (isDigit_iff c).mp hc
  have hsk : skipWS (natDec g ++ rest) = (natDec g ++ rest, false) := by
    rw [hct]; exact skipWS_tok c _ (objStart_tokStart (objStart_digit hc))
  have hscan : scanNumTok false false true (natDec g ++ rest) = (natDec g, rest) := by
    rw [hct] at hdig ⊢
    have h43 : ¬ c = 43 := by omega
    have h45 : ¬ c = 45 := by omega
    have := scan_digits false false t rest (fun x hx => hdig x (by simp [hx])) (by simpa using hrest)
    simp [scanNumTok, h43, h45, hc, this]
  have hp := parseInt64_intDec (g : Int)
  have hi : intDec (g : Int) = natDec g := rfl
  rw [hi] at hp
  have hl := natDec_length_le 19 g (by omega) (by omega)
  have hcap := int_fits_cap
  have : ¬ ((natDec g).length > Gen.scanner_maxNameBytes) := by omega
  unfold readInteger
  simp only [hsk, hscan, this, hp]
  have h0 : (-9223372036854775808 : Int) ≤ (g : Int) := by omega
  simp [h0, hg]

/-! ### whole dictionary bodies -/

theorem dictBody_head (opt : FmtOpt) (kv : List (Bytes × Obj)) (rest : Bytes) :
    ∀ body, (fmtDictPlain opt kv = some body ∨ fmtDictPretty opt kv = some body) →
      ∃ c t, body ++ 62 :: 62 :: rest = c :: t ∧ (c = 47 ∨ c = 62) := by
  induction kv with
  | nil =>
    intro body h
    have : body = [] := by rcases h with h | h <;> simpa [fmtDictPlain, fmtDictPretty] using h.symm
    subst this
    exact ⟨62, 62 :: rest, rfl, .inr rfl⟩
  | cons e es ih =>
    obtain ⟨k, v⟩ := e
    intro body h
    rcases h with h | h
    · obtain ⟨b, hb, hcase⟩ := (fmtDictPlain_cons_inv opt k v es body).mp h
      rcases hcase with ⟨_, rfl⟩ | ⟨_, a, ns1, _, rfl⟩
      · exact ih body (.inl hb)
      · exact ⟨47, _, rfl, .inl rfl⟩
    · obtain ⟨b, hb, hcase⟩ := (fmtDictPretty_cons_inv opt k v es body).mp h
      rcases hcase with ⟨_, rfl⟩ | ⟨_, a, ns1, _, rfl⟩
      · exact ih body (.inr hb)
      · exact ⟨47, _, rfl, .inl rfl⟩

theorem close_tokStart {c : Nat} (hc : c = 47 ∨ c = 62) : tokStart c = true ∧ isRegular c = false := by
  rcases hc with h | h <;> subst h <;> exact ⟨by decide, by decide +kernel⟩

theorem rdKV_cons_nonnull (k : Bytes) (v : Obj) (rest : List (Bytes × Obj)) (h : v ≠ .null) :
    rdKV ((k, v) :: rest) = (k, rd v) :: rdKV rest := by
  cases v <;> simp_all [rdKV]

/-- One dictionary entry: after the key has been read and white space skipped, the text of the
value `v` followed by `K'` (which leads, through white space, to the next key or `>>` at `K`)
takes the loop of `ReadDict` from `acc` to `acc ++ [(k, rd v)]` at `K`.  For a reference this
is the look-ahead `ReadInteger`, `R`. -/
theorem dict_entry (opt : FmtOpt) (k : Bytes) (v : Obj) (hgv : good v = true) (hA : ReadsBack opt v)
    (d : Nat) (hd : d + depthOf v ≤ Gen.scanner_maxScannerNestDepth)
    (tok : Bytes) (ns1 : Bool) (hf : fmtObj opt false v = some (tok, ns1))
    (K' K : Bytes) (hK' : Cont ns1 K') (c : Nat) (t : Bytes) (hKc : K = c :: t) (hc : c = 47 ∨ c = 62)
    (hsk : skipWS K' = (K, false)) (hKlen : K.length ≤ K'.length)
    (inp r1 : Bytes) (hname : readName inp = .ok (k, r1)) (hr1 : skipWS r1 = (tok ++ K', false))
    (acc : List (Bytes × Obj)) (hk : k ∉ keysOf acc) (hlen : acc.length < Gen.scanner_maxDictLen)
    (R : Except Err (List (Bytes × Obj) × Bytes))
    (hR : ∀ fuel', fuel' ≥ 3 * K.length + 1 → readDictLoop fuel' d (acc ++ [(k, rd v)]) K = R)
    (fuel : Nat) (hfuel : fuel ≥ 3 * (tok ++ K').length + 4) :
    readDictLoop fuel d acc inp = R := by
  obtain ⟨f, rfl⟩ : ∃ f, fuel = f + 1 := ⟨fuel - 1, by omega⟩
  subst hKc
  cases hx : isRefObj v with
  | false =>
    obtain ⟨k', h3, hs', _⟩ := hA hgv hx d hd tok ns1 hf K' hK' f (by omega)
    have hs : skipWS k' = skipWS K' := by
      rcases hs' with h | h <;> subst h
      · rfl
      · exact cont_skip_idem hK'
    rw [dloop_entry f d acc inp k r1 (tok ++ K') k' t (rd v) c hname hr1 h3 (by rw [hs, hsk]) hc hk hlen]
    exact hR f (by simp at hfuel hKlen ⊢; omega)
  | true =>
    cases v with
    | ref n g =>
      simp [fmtObj, sep] at hf
      obtain ⟨rfl, rfl⟩ := hf
      simp [good] at hgv
      obtain ⟨hn, hgen⟩ := hgv
      have hfit := xref_fits
      have hni : Int64Range (n : Int) := ⟨by omega, by omega⟩
      obtain ⟨c2, t2, hc2, hd2⟩ := natDec_head g
      have s2 := objStart_digit hd2
      have hd2' := (isDigit_iff c2).mp hd2
      have len1 := natDec_length_pos n
      simp only [List.length_append, List.length_cons, List.length_nil] at hfuel
      obtain ⟨f2, rfl⟩ : ∃ f2, f = f2 + 1 := ⟨f - 1, by omega⟩
      have e : natDec n ++ 32 :: (natDec g ++ [32, 82]) ++ K'
          = intDec (n : Int) ++ 32 :: (natDec g ++ 32 :: 82 :: K') := by
        simp [intDec]
      rw [e] at hr1
      have h3 := readObject_int (n : Int) hni (32 :: (natDec g ++ 32 :: 82 :: K')) (numstop_sp _ _) f2 d
      have h4 : skipWS (32 :: (natDec g ++ 32 :: 82 :: K')) = (c2 :: (t2 ++ 32 :: 82 :: K'), false) := by
        rw [skipWS_sp, hc2]; exact skipWS_tok c2 _ (objStart_tokStart s2)
      have h5 : readInteger (c2 :: (t2 ++ 32 :: 82 :: K')) = .ok ((g : Int), 32 :: 82 :: K') := by
        have := readInteger_natDec g (by omega) (32 :: 82 :: K') (numstop_sp _ _)
        rw [hc2] at this; exact this
      have h6 : skipWS (32 :: 82 :: K') = (82 :: K', false) := by rw [skipWS_sp]; exact skipWS_R K'
      have hv : validRef (n : Int) (g : Int) = true := by simp [validRef]; omega
      rw [dloop_ref (f2 + 1) d acc inp k r1 _ _ _ _ _ (c :: t) (n : Int) (g : Int) c2 hname hr1 h3 h4
        (by omega) h5 h6 hsk hk hlen]
      rw [hv]
      simp
      have := hR (f2 + 1) (by simp at hKlen ⊢; omega)
      simpa [rd] using this
    | _ => simp [isRefObj] at hx

/-- `DictReads opt kv`: the body written by `formatDict` for the entries `kv` (in the given
order; nil entries are skipped) followed by `>>` takes the loop of `ReadDict` from `acc` to
`acc ++ rdKV kv` and stops after `>>`. -/
def DictReads (opt : FmtOpt) (kv : List (Bytes × Obj)) : Prop :=
  goodKV kv = true →
  ∀ d, d + depthKV kv ≤ Gen.scanner_maxScannerNestDepth →
  ∀ (acc : List (Bytes × Obj)) (rest : Bytes),
    (∀ e ∈ kv, e.1 ∉ keysOf acc) → (keysOf kv).Nodup → acc.length + kv.length ≤ Gen.scanner_maxDictLen →
  ∀ body, (fmtDictPlain opt kv = some body ∨ fmtDictPretty opt kv = some body) →
  ∀ fuel, fuel ≥ 3 * (body ++ 62 :: 62 :: rest).length + 1 →
  readDictLoop fuel d acc (body ++ 62 :: 62 :: rest) = .ok (acc ++ rdKV kv, rest)

theorem dictReads_nil (opt : FmtOpt) : DictReads opt [] := by
  intro _ d _ acc rest _ _ _ body hbody fuel hfuel
  have : body = [] := by rcases hbody with h | h <;> simpa [fmtDictPlain, fmtDictPretty] using h.symm
  subst this
  obtain ⟨f, rfl⟩ : ∃ f, fuel = f + 1 := ⟨fuel - 1, by omega⟩
  simp [dloop_end, rdKV]

theorem dictReads_cons (opt : FmtOpt) (k : Bytes) (v : Obj) (es : List (Bytes × Obj))
    (hA : ReadsBack opt v) (hC : DictReads opt es) : DictReads opt ((k, v) :: es) := by
  intro hg d hd acc rest hdisj hnodup hlen body hbody fuel hfuel
  simp [goodKV] at hg
  obtain ⟨⟨hgk, hgv⟩, hges⟩ := hg
  simp [depthKV] at hd
  have hnd := List.nodup_cons.mp (show (k :: keysOf es).Nodup from hnodup)
  simp at hlen
  have hkacc : k ∉ keysOf acc := hdisj (k, v) (by simp)
  -- the entries after this one, with any accumulator extended by this key
  have hnext : ∀ (acc' : List (Bytes × Obj)), keysOf acc' = keysOf acc ∨ keysOf acc' = keysOf acc ++ [k] →
      ∀ e ∈ es, e.1 ∉ keysOf acc' := by
    intro acc' hacc' e he
    have h1 := hdisj e (by simp [he])
    rcases hacc' with h | h <;> rw [h]
    · exact h1
    · simp
      refine ⟨h1, ?_⟩
      intro hek
      exact hnd.1 (hek ▸ List.mem_map.mpr ⟨e, he, rfl⟩)
  -- value null: nothing is written
  have hnull : v = .null → ∀ b, body = b →
      (fmtDictPlain opt es = some b ∨ fmtDictPretty opt es = some b) →
      readDictLoop fuel d acc (body ++ 62 :: 62 :: rest) = .ok (acc ++ rdKV ((k, v) :: es), rest) := by
    intro hv b hb hbb
    subst hv; subst hb
    have := hC hges d (by omega) acc rest (hnext acc (.inl rfl)) hnd.2 (by omega)
      body hbb fuel hfuel
    simpa [rdKV] using this
  -- value written
  have hval : v ≠ .null → ∀ (b tok : Bytes) (ns1 : Bool) (pre K' : Bytes),
      (fmtDictPlain opt es = some b ∨ fmtDictPretty opt es = some b) →
      fmtObj opt false v = some (tok, ns1) →
      body = fmtName k ++ pre ++ tok ++ K' →
      skipWS (pre ++ tok ++ K' ++ 62 :: 62 :: rest) = (tok ++ (K' ++ 62 :: 62 :: rest), false) →
      C01.NameEnd (pre ++ tok ++ K' ++ 62 :: 62 :: rest) →
      (K' = b ∨ K' = 10 :: b) →
      Cont ns1 (K' ++ 62 :: 62 :: rest) →
      readDictLoop fuel d acc (body ++ 62 :: 62 :: rest) = .ok (acc ++ rdKV ((k, v) :: es), rest) := by
    intro hv b tok ns1 pre K' hbb hf hbody' hskip hne hK' hcont
    obtain ⟨c, t, hct, hc⟩ := dictBody_head opt es rest b hbb
    have hskK : skipWS (K' ++ 62 :: 62 :: rest) = (b ++ 62 :: 62 :: rest, false) := by
      rcases hK' with h | h <;> subst h
      · rw [hct]; exact skipWS_tok c t (close_tokStart hc).1
      · rw [List.cons_append, skipWS_lf, hct]; exact skipWS_tok c t (close_tokStart hc).1
    have hname : readName (body ++ 62 :: 62 :: rest) = .ok (k, pre ++ tok ++ K' ++ 62 :: 62 :: rest) := by
      have := C01.name_rt k (allBytes_of_all (by simp [goodName] at hgk; simpa using hgk.1))
        (by simp [goodName] at hgk; exact hgk.2) _ hne
      rw [hbody']
      simpa using this
    refine dict_entry opt k v hgv hA d (by omega) tok ns1 hf (K' ++ 62 :: 62 :: rest) (b ++ 62 :: 62 :: rest)
      hcont c t hct hc hskK (by rcases hK' with h | h <;> subst h <;> simp) _ _ hname hskip acc hkacc (by omega)
      _ ?_ fuel ?_
    · intro fuel' hf'
      have := hC hges d (by omega) (acc ++ [(k, rd v)]) rest (hnext _ (.inr (by simp [keysOf])))
        hnd.2 (by simp; omega) b hbb fuel' hf'
      rw [this, rdKV_cons_nonnull k v es hv]
      simp
    · rw [hbody'] at hfuel
      simp [fmtName] at hfuel ⊢
      omega
  rcases hbody with h | h
  · obtain ⟨b, hb, hcase⟩ := (fmtDictPlain_cons_inv opt k v es body).mp h
    rcases hcase with ⟨hv, rfl⟩ | ⟨hv, a, ns1, hfa, rfl⟩
    · exact hnull hv _ rfl (.inl hb)
    · obtain ⟨tok, c, t, hf, rfl, hcs, hshape⟩ := fmtObj_shape opt true v a ns1 hgv hfa
      have hcont : Cont ns1 (b ++ 62 :: 62 :: rest) := by
        obtain ⟨c', t', hct', hc'⟩ := dictBody_head opt es rest b (.inl hb)
        rw [hct']; exact .inl ⟨(close_tokStart hc').1, fun _ => (close_tokStart hc').2⟩
      rcases hshape with ⟨rfl, hnr⟩ | ⟨_, rfl⟩
      · refine hval hv b _ ns1 [] b (.inl hb) hf (by simp) ?_ ?_ (.inl rfl) hcont
        · simp; exact skipWS_tok c _ (objStart_tokStart hcs)
        · have := nonreg_facts c (hnr rfl)
          exact ⟨hnr rfl, by simpa using this.2.2.1⟩
      · refine hval hv b _ ns1 [32] b (.inl hb) hf (by simp) ?_ ?_ (.inl rfl) hcont
        · simp [skipWS_sp]; exact skipWS_tok c _ (objStart_tokStart hcs)
        · exact ⟨space_facts.2.2.1, by decide⟩
  · obtain ⟨b, hb, hcase⟩ := (fmtDictPretty_cons_inv opt k v es body).mp h
    rcases hcase with ⟨hv, rfl⟩ | ⟨hv, a, ns1, hfa, rfl⟩
    · exact hnull hv _ rfl (.inr hb)
    · obtain ⟨tok, c, t, hf, rfl, hcs, hshape⟩ := fmtObj_shape opt false v a ns1 hgv hfa
      have hcont : Cont ns1 (10 :: b ++ 62 :: 62 :: rest) := by
        obtain ⟨c', t', hct', hc'⟩ := dictBody_head opt es rest b (.inr hb)
        rw [List.cons_append, hct']; exact .inr ⟨.inr rfl, c', t', rfl, (close_tokStart hc').1⟩
      rcases hshape with ⟨rfl, _⟩ | ⟨h0, _⟩
      · refine hval hv b _ ns1 [32] (10 :: b) (.inr hb) hf (by simp) ?_ ?_ (.inr rfl) hcont
        · simp [skipWS_sp]; exact skipWS_tok c _ (objStart_tokStart hcs)
        · exact ⟨space_facts.2.2.1, by decide⟩
      · simp at h0

/-! ### whole dictionaries -/

theorem goodKV_mem (kv : List (Bytes × Obj)) (h : goodKV kv = true) : ∀ e ∈ kv, good e.2 = true := by
  induction kv with
  | nil => simp
  | cons e es ih =>
    obtain ⟨k, v⟩ := e
    simp [goodKV] at h
    intro e' he'
    simp at he'
    rcases he' with rfl | he'
    · exact h.1.2
    · exact ih h.2 e' he'

/-- without operators the "space before `>>`" of `formatDict` is never written -/
theorem lastIsGtOp_good (kv : List (Bytes × Obj)) (h : goodKV kv = true) : lastIsGtOp kv = false := by
  unfold lastIsGtOp
  split
  · rename_i k heq
    have hmem := List.mem_of_getLast? heq
    have := goodKV_mem kv h _ (List.mem_filter.mp hmem).1
    simp [good] at this
  · rfl

/-- a dictionary reads back if its entry sequence does; `ReadObject` then skips white space to
look for `stream` -/
theorem dict_read (opt : FmtOpt) (kv : List (Bytes × Obj)) (hC : DictReads opt kv)
    (hg : good (.dict kv) = true)
    (d : Nat) (hd : d + depthOf (.dict kv) ≤ Gen.scanner_maxScannerNestDepth)
    (body : Bytes) (h1 : (if opt.pretty then fmtDictPretty opt kv else fmtDictPlain opt kv) = some body)
    (k : Bytes) (hns : startsWith (skipWS k).1 kw_stream = false)
    (fuel : Nat) (hfuel : fuel ≥ 3 * (body ++ k).length + 15) :
    readObject fuel d ([60, 60] ++ (if opt.pretty then [10] else []) ++ body ++
        (if !opt.pretty && lastIsGtOp kv then [32] else []) ++ [62, 62] ++ k)
      = .ok (.dict (rdKV kv), (skipWS k).1) := by
  simp [good] at hg
  obtain ⟨⟨hgkv, hnd⟩, hlen⟩ := hg
  simp [depthOf] at hd
  rw [lastIsGtOp_good kv hgkv]
  simp only [List.length_append] at hfuel
  obtain ⟨f, rfl⟩ : ∃ f, fuel = f + 1 := ⟨fuel - 1, by omega⟩
  obtain ⟨f', rfl⟩ : ∃ f', f = f' + 1 := ⟨f - 1, by omega⟩
  have hdd : ¬ (d ≥ Gen.scanner_maxScannerNestDepth) := by omega
  have hbody : fmtDictPlain opt kv = some body ∨ fmtDictPretty opt kv = some body := by
    cases hp : opt.pretty
    · simp [hp] at h1; exact .inl h1
    · simp [hp] at h1; exact .inr h1
  obtain ⟨c, t, hct, hc⟩ := dictBody_head opt kv k body hbody
  have hloop := hC hgkv (d + 1) (by omega) [] k (by simp [keysOf]) hnd (by simpa using hlen) body hbody
    f' (by simp; omega)
  have hsk : skipWS (body ++ 62 :: 62 :: k) = (body ++ 62 :: 62 :: k, false) := by
    rw [hct]; exact skipWS_tok c t (close_tokStart hc).1
  have common : readObject (f' + 1 + 1) d (60 :: 60 :: (body ++ 62 :: 62 :: k))
      = .ok (.dict (rdKV kv), (skipWS k).1) ∧
      readObject (f' + 1 + 1) d (60 :: 60 :: 10 :: (body ++ 62 :: 62 :: k))
      = .ok (.dict (rdKV kv), (skipWS k).1) := by
    constructor
    · rw [readObject_dict, readDict]
      simp only [hdd, if_false, hsk, hloop]
      simp [Except.mapError, hns]
    · rw [readObject_dict, readDict]
      simp only [hdd, if_false, skipWS_lf, hsk, hloop]
      simp [Except.mapError, hns]
  cases hp : opt.pretty
  · simpa [hp] using common.1
  · simpa [hp] using common.2

theorem readsBack_dict (opt : FmtOpt) (kv : List (Bytes × Obj)) (hC : DictReads opt kv) :
    ReadsBack opt (.dict kv) := by
  intro hg _ d hd tok ns' hfmt k hk fuel hfuel
  obtain ⟨body, h1, rfl, rfl⟩ := (fmtObj_dict_inv opt false kv tok ns').mp hfmt
  refine ⟨(skipWS k).1, ?_, .inr rfl, by simp⟩
  have := dict_read opt kv hC hg d hd body h1 k (cont_nostream hk) fuel
    (by simp only [List.length_append, List.length_cons, List.length_nil] at hfuel ⊢
        split at hfuel <;> split at hfuel <;> simp at hfuel <;> omega)
  simpa [rd] using this

end PdfVerif.C01L

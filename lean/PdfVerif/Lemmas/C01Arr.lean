import PdfVerif.Lemmas.C01Seq
/-!
C01 helper lemmas: the loop of `ReadArray` on formatter output — one element at a time
(including the three-step `a b R` reference detection), then whole sequences, plain and pretty.
-/
namespace PdfVerif.C01L
open PdfVerif PdfVerif.C01b

/-! ### one iteration of `readArrayLoop` -/

theorem loop_end (f d : Nat) (acc : List Obj) (ints : Nat) (inp t : Bytes)
    (h : skipWS inp = (93 :: t, false)) (hlen : acc.length ≤ Gen.scanner_maxArrayLen) :
    readArrayLoop (f + 1) d acc ints inp = .ok (acc.reverse, t) := by
  rw [readArrayLoop]
  have : ¬ (acc.length > Gen.scanner_maxArrayLen) := by omega
  simp [h, this]

/-- `integersSeen` after appending `o` -/
def nextInts (o : Obj) (ints : Nat) : Nat := match o with | .int _ => ints + 1 | _ => 0

theorem loop_obj (f d : Nat) (acc : List Obj) (ints : Nat) (inp : Bytes) (c : Nat) (t : Bytes)
    (o : Obj) (r : Bytes) (h : skipWS inp = (c :: t, false)) (h93 : c ≠ 93) (h82 : c ≠ 82)
    (hr : readObject f d (c :: t) = .ok (o, r)) (hlen : acc.length ≤ Gen.scanner_maxArrayLen) :
    readArrayLoop (f + 1) d acc ints inp =
      readArrayLoop f d (o :: acc) (nextInts o ints) r := by
  rw [readArrayLoop]
  have : ¬ (acc.length > Gen.scanner_maxArrayLen) := by omega
  have h82' : (c == 82) = false := by simp [h82]
  simp only [h]
  simp only [beq_iff_eq, h93, h82', if_false, Bool.and_false, Bool.false_eq_true]
  simp only [hr]
  simp only [this, if_false]
  rfl

theorem loop_R (f d : Nat) (acc' : List Obj) (a b : Int) (ints : Nat) (inp t : Bytes)
    (h : skipWS inp = (82 :: t, false)) (hi : ints ≥ 2) :
    readArrayLoop (f + 1) d (.int b :: .int a :: acc') ints inp =
      readArrayLoop f d ((if validRef a b then Obj.ref a.toNat b.toNat else Obj.null) :: acc') 0 t := by
  rw [readArrayLoop]
  simp [h, hi]

theorem loop_congr (f d : Nat) (acc : List Obj) (ints : Nat) (a b : Bytes) (h : skipWS a = skipWS b) :
    readArrayLoop f d acc ints a = readArrayLoop f d acc ints b := by
  cases f with
  | zero => rw [readArrayLoop, readArrayLoop]
  | succ f => rw [readArrayLoop, readArrayLoop, h]

/-! ### continuations inside arrays -/

theorem cont_close (ns : Bool) (rest : Bytes) : Cont ns (93 :: rest) :=
  .inl ⟨by decide, fun _ => space_facts.2.2.2.2.2.2.1⟩

theorem cont_seq (opt : FmtOpt) (ns : Bool) (xs : List Obj) (body rest : Bytes)
    (hg : goodList xs = true) (h : fmtSeq opt ns xs = some body) : Cont ns (body ++ 93 :: rest) := by
  cases xs with
  | nil =>
    simp [fmtSeq] at h; subst h
    exact cont_close ns rest
  | cons x xs =>
    obtain ⟨a, ns1, b, h1, _, rfl⟩ := (fmtSeq_cons_inv opt ns x xs body).mp h
    simp [goodList] at hg
    obtain ⟨tok, c, t, _, rfl, h3, h4⟩ := fmtObj_shape opt ns x a ns1 hg.1 h1
    rcases h4 with ⟨rfl, h5⟩ | ⟨_, rfl⟩
    · exact .inl ⟨objStart_tokStart h3, h5⟩
    · exact .inr ⟨.inl rfl, c, t ++ (b ++ 93 :: rest), by simp, objStart_tokStart h3⟩

theorem cont_seqPretty (opt : FmtOpt) (ns : Bool) (xs : List Obj) (body rest : Bytes)
    (hg : goodList xs = true) (h : fmtSeqPretty opt false xs = some body) : Cont ns (body ++ 93 :: rest) := by
  cases xs with
  | nil =>
    simp [fmtSeqPretty] at h; subst h
    exact cont_close ns rest
  | cons x xs =>
    obtain ⟨a, ns1, b, h1, _, rfl⟩ := (fmtSeqPretty_cons_inv opt false x xs body).mp h
    simp [goodList] at hg
    obtain ⟨tok, c, t, _, rfl, h3, h4⟩ := fmtObj_shape opt false x a ns1 hg.1 h1
    rcases h4 with ⟨rfl, _⟩ | ⟨h5, _⟩
    · exact .inr ⟨.inl rfl, c, t ++ (b ++ 93 :: rest), by simp, objStart_tokStart h3⟩
    · simp at h5

/-! ### one element -/

theorem xref_fits : (Gen.xref_maxXRefSize : Int) ≤ 9223372036854775807 ∧
    (Gen.xref_maxGeneration : Int) ≤ 9223372036854775807 := by decide

theorem skipWS_R (k : Bytes) : skipWS (82 :: k) = (82 :: k, false) := by
  have : isSpace 82 = false := by decide +kernel
  simp [skipWS, this]

theorem numstop_sp (b : Bool) (x : Bytes) : NumStop b (32 :: x) := ⟨by decide, fun _ => by decide⟩

/-- One element of an array: the text of `x` followed by a continuation `k` takes the loop of
`ReadArray` from accumulator `acc` to `rd x :: acc` at `k`.  For a reference this is three
iterations: two integers, then the `R` that replaces them (`integersSeen ≥ 2`). -/
theorem arr_elem (opt : FmtOpt) (x : Obj) (hg : good x = true) (hrb : ReadsBack opt x)
    (d : Nat) (hd : d + depthOf x ≤ Gen.scanner_maxScannerNestDepth)
    (tok : Bytes) (ns' : Bool) (hf : fmtObj opt false x = some (tok, ns'))
    (k : Bytes) (hk : Cont ns' k) (acc : List Obj) (ints : Nat)
    (hacc : acc.length + 1 ≤ Gen.scanner_maxArrayLen)
    (R : Except Err (List Obj × Bytes))
    (hR : ∀ fuel' ints', fuel' ≥ 3 * k.length + 4 → readArrayLoop fuel' d (rd x :: acc) ints' k = R)
    (fuel : Nat) (hfuel : fuel ≥ 3 * (tok ++ k).length + 4) :
    readArrayLoop fuel d acc ints (tok ++ k) = R := by
  obtain ⟨f, rfl⟩ : ∃ f, fuel = f + 1 := ⟨fuel - 1, by omega⟩
  cases hx : isRefObj x with
  | false =>
    obtain ⟨tok', c, t, h1, h2, h3, _⟩ := fmtObj_shape opt false x tok ns' hg hf
    rw [hf] at h1
    simp at h1; subst h1; subst h2
    obtain ⟨k', hr, hs', _⟩ := hrb hg hx d hd _ ns' hf k hk f (by omega)
    have hs : skipWS k' = skipWS k := by
      rcases hs' with h | h <;> subst h
      · rfl
      · exact cont_skip_idem hk
    obtain ⟨n93, _, n82⟩ := objStart_ne h3
    refine (loop_obj f d acc ints (c :: t ++ k) c (t ++ k) (rd x) k'
      (skipWS_tok c _ (objStart_tokStart h3)) n93 n82 hr (by omega)).trans ?_
    rw [loop_congr f d _ _ k' k hs]
    exact hR f _ (by simp at hfuel ⊢; omega)
  | true =>
    cases x with
    | ref n g =>
      simp [fmtObj, sep] at hf
      obtain ⟨rfl, rfl⟩ := hf
      simp [good] at hg
      obtain ⟨hn, hgen⟩ := hg
      have hfit := xref_fits
      have hni : Int64Range (n : Int) := ⟨by omega, by omega⟩
      have hgi : Int64Range (g : Int) := ⟨by omega, by omega⟩
      obtain ⟨c1, t1, hc1, hd1⟩ := natDec_head n
      obtain ⟨c2, t2, hc2, hd2⟩ := natDec_head g
      have s1 := objStart_digit hd1
      have s2 := objStart_digit hd2
      have len1 := natDec_length_pos n
      have len2 := natDec_length_pos g
      simp only [List.length_append, List.length_cons, List.length_nil] at hfuel
      obtain ⟨f2, rfl⟩ : ∃ f2, f = f2 + 1 := ⟨f - 1, by omega⟩
      obtain ⟨f3, rfl⟩ : ∃ f3, f2 = f3 + 1 := ⟨f2 - 1, by omega⟩
      -- the input, re-associated
      have e : natDec n ++ 32 :: (natDec g ++ [32, 82]) ++ k
          = c1 :: (t1 ++ 32 :: (c2 :: (t2 ++ 32 :: 82 :: k))) := by
        simp [hc1, hc2]
      rw [e]
      -- first integer
      have r1 := readObject_int (n : Int) hni (32 :: (c2 :: (t2 ++ 32 :: 82 :: k))) (numstop_sp _ _) (f3 + 1) d
      have hh1 : intDec (n : Int) = c1 :: t1 := by simpa [intDec] using hc1
      rw [hh1] at r1
      obtain ⟨a93, _, a82⟩ := objStart_ne s1
      refine (loop_obj (f3 + 1 + 1) d acc ints _ c1 _ (.int n) _
        (skipWS_tok c1 _ (objStart_tokStart s1)) a93 a82 r1 (by omega)).trans ?_
      -- second integer
      have r2 := readObject_int (g : Int) hgi (32 :: 82 :: k) (numstop_sp _ _) f3 d
      have hh2 : intDec (g : Int) = c2 :: t2 := by simpa [intDec] using hc2
      rw [hh2] at r2
      obtain ⟨b93, _, b82⟩ := objStart_ne s2
      refine (loop_obj (f3 + 1) d _ _ _ c2 _ (.int g) _
        (by rw [skipWS_sp]; exact skipWS_tok c2 _ (objStart_tokStart s2)) b93 b82 r2 (by simp; omega)).trans ?_
      -- the R
      have hv : validRef (n : Int) (g : Int) = true := by
        simp [validRef]; omega
      refine (loop_R f3 d acc (n : Int) (g : Int) _ (32 :: 82 :: k) k (by rw [skipWS_sp]; exact skipWS_R k) (by simp [nextInts])).trans ?_
      rw [hv]
      simp
      exact hR f3 0 (by omega)
    | _ => simp [isRefObj] at hx

/-! ### whole sequences -/

/-- `ArrReads opt xs`: the body written by `Format` for the objects `xs` (threaded `needSep`, or
single spaces under `OptPretty`) followed by `]` takes the loop of `ReadArray` from `acc` to
`acc ++ rd xs` and stops after the bracket. -/
def ArrReads (opt : FmtOpt) (xs : List Obj) : Prop :=
  goodList xs = true →
  ∀ d, d + depthList xs ≤ Gen.scanner_maxScannerNestDepth →
  ∀ (acc : List Obj) (ints : Nat) (rest : Bytes), acc.length + xs.length ≤ Gen.scanner_maxArrayLen →
  ∀ body, ((∃ ns, fmtSeq opt ns xs = some body) ∨ (∃ first, fmtSeqPretty opt first xs = some body)) →
  ∀ fuel, fuel ≥ 3 * (body ++ 93 :: rest).length + 4 →
  ∀ inp, skipWS inp = skipWS (body ++ 93 :: rest) →
  readArrayLoop fuel d acc ints inp = .ok (acc.reverse ++ rdList xs, rest)

theorem arrReads_nil (opt : FmtOpt) : ArrReads opt [] := by
  intro _ d _ acc ints rest hacc body hbody fuel hfuel inp hinp
  have hb : body = [] := by
    rcases hbody with ⟨ns, h⟩ | ⟨first, h⟩
    · simpa [fmtSeq] using h.symm
    · simpa [fmtSeqPretty] using h.symm
  subst hb
  obtain ⟨f, rfl⟩ : ∃ f, fuel = f + 1 := ⟨fuel - 1, by omega⟩
  rw [loop_end f d acc ints inp rest (by rw [hinp]; exact skipWS_tok 93 rest (by decide)) (by simpa using hacc)]
  simp [rdList]

theorem arrReads_cons (opt : FmtOpt) (x : Obj) (xs : List Obj) (hA : ReadsBack opt x)
    (hB : ArrReads opt xs) : ArrReads opt (x :: xs) := by
  intro hg d hd acc ints rest hacc body hbody fuel hfuel inp hinp
  simp [goodList] at hg
  simp [depthList] at hd
  simp only [List.length_cons] at hacc
  -- common part once the element's token and the continuation are known
  have main : ∀ (ns1 : Bool) (b : Bytes) (tok : Bytes),
      fmtObj opt false x = some (tok, ns1) → Cont ns1 (b ++ 93 :: rest) →
      ((∃ ns, fmtSeq opt ns xs = some b) ∨ (∃ first, fmtSeqPretty opt first xs = some b)) →
      skipWS inp = skipWS (tok ++ (b ++ 93 :: rest)) →
      fuel ≥ 3 * (tok ++ (b ++ 93 :: rest)).length + 4 →
      readArrayLoop fuel d acc ints inp = .ok (acc.reverse ++ rdList (x :: xs), rest) := by
    intro ns1 b tok hf hk hb hsk hfu
    rw [loop_congr fuel d acc ints inp _ hsk]
    refine arr_elem opt x hg.1 hA d (by omega) tok ns1 hf _ hk acc ints (by omega) _ ?_ fuel hfu
    intro fuel' ints' hf'
    have := hB hg.2 d (by omega) (rd x :: acc) ints' rest (by simp; omega) b hb fuel' hf' _ rfl
    rw [this]; simp [rdList]
  rcases hbody with ⟨ns, h⟩ | ⟨first, h⟩
  · obtain ⟨a, ns1, b, h1, h2, rfl⟩ := (fmtSeq_cons_inv opt ns x xs body).mp h
    obtain ⟨tok, c, t, h3, rfl, h5, h6⟩ := fmtObj_shape opt ns x a ns1 hg.1 h1
    have hk := cont_seq opt ns1 xs b rest hg.2 h2
    rcases h6 with ⟨rfl, _⟩ | ⟨_, rfl⟩
    · exact main ns1 b _ h3 hk (.inl ⟨ns1, h2⟩) (by rw [hinp]; simp) (by simp at hfuel ⊢; omega)
    · exact main ns1 b _ h3 hk (.inl ⟨ns1, h2⟩) (by rw [hinp]; simp [skipWS_sp]) (by simp at hfuel ⊢; omega)
  · obtain ⟨a, ns1, b, h1, h2, rfl⟩ := (fmtSeqPretty_cons_inv opt first x xs body).mp h
    have hk := cont_seqPretty opt ns1 xs b rest hg.2 h2
    cases first
    · exact main ns1 b a h1 hk (.inr ⟨false, h2⟩) (by rw [hinp]; simp [skipWS_sp]) (by simp at hfuel ⊢; omega)
    · exact main ns1 b a h1 hk (.inr ⟨false, h2⟩) (by rw [hinp]; simp) (by simp at hfuel ⊢; omega)

/-- an array reads back if its element sequence does; what follows `]` is not looked at -/
theorem arr_read (opt : FmtOpt) (xs : List Obj) (hB : ArrReads opt xs) (hg : good (.arr xs) = true)
    (d : Nat) (hd : d + depthOf (.arr xs) ≤ Gen.scanner_maxScannerNestDepth)
    (body : Bytes) (h1 : (if opt.pretty then fmtSeqPretty opt true xs else fmtSeq opt false xs) = some body)
    (k : Bytes) (fuel : Nat) (hfuel : fuel ≥ 3 * (91 :: (body ++ 93 :: k)).length + 3) :
    readObject fuel d (91 :: (body ++ 93 :: k)) = .ok (.arr (rdList xs), k) := by
  simp [good] at hg
  simp [depthOf] at hd
  have hbody : (∃ ns, fmtSeq opt ns xs = some body) ∨ (∃ first, fmtSeqPretty opt first xs = some body) := by
    cases hp : opt.pretty
    · simp [hp] at h1; exact .inl ⟨false, h1⟩
    · simp [hp] at h1; exact .inr ⟨true, h1⟩
  simp only [List.length_append, List.length_cons] at hfuel
  obtain ⟨f, rfl⟩ : ∃ f, fuel = f + 1 := ⟨fuel - 1, by omega⟩
  obtain ⟨f', rfl⟩ : ∃ f', f = f' + 1 := ⟨f - 1, by omega⟩
  rw [readObject_arr, readArray]
  have hdd : ¬ (d ≥ Gen.scanner_maxScannerNestDepth) := by omega
  have := hB hg.1 (d + 1) (by omega) [] 0 k (by simp; omega) body hbody f' (by simp; omega) _ rfl
  simp only [hdd, if_false, this]
  simp [Except.map, Except.mapError]

theorem readsBack_arr (opt : FmtOpt) (xs : List Obj) (hB : ArrReads opt xs) : ReadsBack opt (.arr xs) := by
  intro hg _ d hd tok ns' hfmt k hk fuel hfuel
  obtain ⟨body, h1, rfl, rfl⟩ := (fmtObj_arr_inv opt false xs tok ns').mp hfmt
  have e : 91 :: (body ++ [93]) ++ k = 91 :: (body ++ 93 :: k) := by simp
  rw [e] at hfuel ⊢
  exact ⟨k, by simpa [rd] using arr_read opt xs hB hg d hd body h1 k fuel hfuel, .inl rfl, fun _ => rfl⟩

end PdfVerif.C01L

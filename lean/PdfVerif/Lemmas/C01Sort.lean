import PdfVerif.Lemmas.C01Defs
/-!
C01 helper lemmas: Go's string order on byte strings (`bytesLt`) is a strict total order; the
insertion sort `sortKV` and `Dict.SortedKeys` (`sortedEntries`) are permutations of their input
and, on key-unique lists, depend only on the *set* of entries.
-/
namespace PdfVerif.C01L
open PdfVerif

/-! ### `bytesLt` is a strict total order -/

theorem bytesLt_irrefl (a : Bytes) : bytesLt a a = false := by
  induction a with
  | nil => rfl
  | cons x xs ih => simp [bytesLt, ih]

theorem bytesLt_asymm : ∀ (a b : Bytes), bytesLt a b = true → bytesLt b a = false := by
  intro a
  induction a with
  | nil => intro b _; cases b <;> simp [bytesLt]
  | cons x xs ih =>
    intro b h
    cases b with
    | nil => simp [bytesLt] at h
    | cons y ys =>
      simp only [bytesLt] at h ⊢
      by_cases h1 : x < y
      · have : ¬ y < x := by omega
        simp [this, h1]
      · by_cases h2 : y < x
        · simp [h1, h2] at h
        · simp [h1, h2] at h ⊢
          exact ih ys h

theorem bytesLt_trans : ∀ (a b c : Bytes), bytesLt a b = true → bytesLt b c = true → bytesLt a c = true := by
  intro a
  induction a with
  | nil =>
    intro b c h1 h2
    cases c with
    | nil => cases b <;> simp [bytesLt] at h1 h2
    | cons z zs => simp [bytesLt]
  | cons x xs ih =>
    intro b c h1 h2
    cases b with
    | nil => simp [bytesLt] at h1
    | cons y ys =>
      cases c with
      | nil => simp [bytesLt] at h2
      | cons z zs =>
        simp only [bytesLt] at h1 h2 ⊢
        by_cases hxy : x < y
        · by_cases hyz : y < z
          · have : x < z := by omega
            simp [this]
          · by_cases hzy : z < y
            · simp [hyz, hzy] at h2
            · have : x < z := by omega
              simp [this]
        · by_cases hyx : y < x
          · simp [hxy, hyx] at h1
          · simp [hxy, hyx] at h1
            have hxy' : x = y := by omega
            subst hxy'
            by_cases hxz : x < z
            · simp [hxz]
            · by_cases hzx : z < x
              · simp [hxz, hzx] at h2
              · simp [hxz, hzx] at h2 ⊢
                exact ih ys zs h1 h2

theorem bytesLt_total : ∀ (a b : Bytes), a ≠ b → bytesLt a b = true ∨ bytesLt b a = true := by
  intro a
  induction a with
  | nil => intro b h; cases b with
    | nil => exact absurd rfl h
    | cons y ys => left; simp [bytesLt]
  | cons x xs ih =>
    intro b h
    cases b with
    | nil => right; simp [bytesLt]
    | cons y ys =>
      simp only [bytesLt]
      by_cases hxy : x < y
      · left; simp [hxy]
      · by_cases hyx : y < x
        · right; simp [hyx]
        · have : x = y := by omega
          subst this
          have hne : xs ≠ ys := fun h' => h (by rw [h'])
          simp [hxy]
          exact ih ys hne

/-! ### insertion sort -/

theorem insertKey_perm (k : Bytes × Obj) (l : List (Bytes × Obj)) : (insertKey k l).Perm (k :: l) := by
  induction l with
  | nil => exact List.Perm.refl _
  | cons x xs ih =>
    simp only [insertKey]
    split
    · exact List.Perm.refl _
    · exact (List.Perm.cons x ih).trans (List.Perm.swap k x xs)

theorem sortKV_perm (l : List (Bytes × Obj)) : (sortKV l).Perm l := by
  induction l with
  | nil => exact List.Perm.refl _
  | cons x xs ih => exact (insertKey_perm x (sortKV xs)).trans (List.Perm.cons x ih)

/-- strictly increasing keys -/
def KeyLt (a b : Bytes × Obj) : Prop := bytesLt a.1 b.1 = true

theorem insertKey_sorted (k : Bytes × Obj) (l : List (Bytes × Obj)) (hs : l.Pairwise KeyLt)
    (hk : k.1 ∉ keysOf l) : (insertKey k l).Pairwise KeyLt := by
  induction l with
  | nil => simp [insertKey]
  | cons x xs ih =>
    have hx := List.pairwise_cons.mp hs
    have hkx : k.1 ≠ x.1 := by intro h; exact hk (by simp [keysOf, h])
    have hkxs : k.1 ∉ keysOf xs := by intro h; exact hk (by simp [keysOf] at h ⊢; exact .inr h)
    simp only [insertKey]
    split
    · rename_i hlt
      refine List.pairwise_cons.mpr ⟨?_, hs⟩
      intro y hy
      simp at hy
      rcases hy with rfl | hy
      · exact hlt
      · exact bytesLt_trans _ _ _ hlt (hx.1 y hy)
    · rename_i hlt
      have hxk : bytesLt x.1 k.1 = true := by
        rcases bytesLt_total k.1 x.1 hkx with h | h
        · exact absurd h hlt
        · exact h
      refine List.pairwise_cons.mpr ⟨?_, ih hx.2 hkxs⟩
      intro y hy
      have := (insertKey_perm k xs).mem_iff.mp hy
      simp at this
      rcases this with rfl | hy
      · exact hxk
      · exact hx.1 y hy

theorem keysOf_perm {l1 l2 : List (Bytes × Obj)} (h : l1.Perm l2) : (keysOf l1).Perm (keysOf l2) :=
  h.map _

theorem sortKV_sorted (l : List (Bytes × Obj)) (hn : (keysOf l).Nodup) : (sortKV l).Pairwise KeyLt := by
  induction l with
  | nil => simp [sortKV]
  | cons x xs ih =>
    have hc := List.nodup_cons.mp (show (x.1 :: keysOf xs).Nodup from hn)
    refine insertKey_sorted x (sortKV xs) (ih hc.2) ?_
    intro h
    exact hc.1 ((keysOf_perm (sortKV_perm xs)).mem_iff.mp h)

/-- on key-unique lists the insertion sort depends only on the set of entries -/
theorem sortKV_perm_eq {l1 l2 : List (Bytes × Obj)} (h : l1.Perm l2) (hn : (keysOf l1).Nodup) :
    sortKV l1 = sortKV l2 := by
  have hn2 : (keysOf l2).Nodup := (keysOf_perm h).nodup hn
  refine List.Perm.eq_of_pairwise (le := KeyLt) ?_ (sortKV_sorted l1 hn) (sortKV_sorted l2 hn2)
    ((sortKV_perm l1).trans (h.trans (sortKV_perm l2).symm))
  intro a b _ _ hab hba
  have := bytesLt_asymm _ _ hab
  simp [KeyLt] at hba
  simp [hba] at this

/-! ### `Dict.SortedKeys` -/

theorem filter_sub_nodup (p : Bytes × Obj → Bool) (l : List (Bytes × Obj)) (hn : (keysOf l).Nodup) :
    (keysOf (l.filter p)).Nodup :=
  List.Nodup.sublist ((List.filter_sublist).map _) hn

/-- a key-unique list all of whose keys are equal has at most one entry -/
theorem same_key_short (k : Bytes) (l : List (Bytes × Obj)) (hn : (keysOf l).Nodup)
    (hk : ∀ e ∈ l, e.1 = k) : l = [] ∨ ∃ e, l = [e] := by
  cases l with
  | nil => left; rfl
  | cons a t =>
    cases t with
    | nil => right; exact ⟨a, rfl⟩
    | cons b t' =>
      have h1 := hk a (by simp)
      have h2 := hk b (by simp)
      simp [keysOf, h1, h2] at hn

theorem filter_key_perm_eq (k : Bytes) {l1 l2 : List (Bytes × Obj)} (h : l1.Perm l2)
    (hn : (keysOf l1).Nodup) :
    l1.filter (fun e => e.1 == k) = l2.filter (fun e => e.1 == k) := by
  have hp := h.filter (fun e => e.1 == k)
  have hk : ∀ e ∈ l1.filter (fun e => e.1 == k), e.1 = k := by
    intro e he; simpa using (List.mem_filter.mp he).2
  rcases same_key_short k _ (filter_sub_nodup _ l1 hn) hk with h0 | ⟨e, h1⟩
  · rw [h0] at hp ⊢; exact (hp.symm.eq_nil).symm
  · rw [h1] at hp ⊢; exact (List.perm_singleton.mp hp.symm).symm

/-- **`SortedKeys` is independent of the order of the entries** of a key-unique list -/
theorem sortedEntries_perm_eq {l1 l2 : List (Bytes × Obj)} (h : l1.Perm l2) (hn : (keysOf l1).Nodup) :
    sortedEntries l1 = sortedEntries l2 := by
  unfold sortedEntries
  rw [filter_key_perm_eq keyType h hn, filter_key_perm_eq keySubtype h hn,
    sortKV_perm_eq (h.filter _) (filter_sub_nodup _ l1 hn)]

theorem keyType_ne : (keyType == keySubtype) = false := by decide

/-- `SortedKeys` lists every entry exactly once -/
theorem sortedEntries_perm (l : List (Bytes × Obj)) : (sortedEntries l).Perm l := by
  unfold sortedEntries
  have h1 := List.filter_append_perm (fun e : Bytes × Obj => e.1 == keyType) l
  have h2 := List.filter_append_perm (fun e : Bytes × Obj => e.1 == keySubtype)
    (l.filter (fun e => !(e.1 == keyType)))
  have e1 : (l.filter (fun e => !(e.1 == keyType))).filter (fun e => e.1 == keySubtype)
      = l.filter (fun e => e.1 == keySubtype) := by
    rw [List.filter_filter]
    congr 1
    funext e
    by_cases hs : e.1 = keySubtype
    · have : ¬ keySubtype = keyType := by decide
      simp [hs, this]
    · simp [hs]
  have e2 : (l.filter (fun e => !(e.1 == keyType))).filter (fun e => !(e.1 == keySubtype))
      = l.filter (fun e => e.1 != keyType && e.1 != keySubtype) := by
    rw [List.filter_filter]
    congr 1
    funext e
    simp [bne, Bool.and_comm]
  rw [e1, e2] at h2
  have h3 := sortKV_perm (l.filter fun e => e.1 != keyType && e.1 != keySubtype)
  refine List.Perm.trans ?_ h1
  rw [List.append_assoc]
  refine List.Perm.append (List.Perm.refl _) ?_
  exact (List.Perm.append (List.Perm.refl _) h3).trans h2

end PdfVerif.C01L

import PdfVerif.Lemmas.CONCExclStep
/-!
Invariant behind "the function of an exclusive decode runs once" (C18): the decode function
entered on behalf of pending `p` is entered at most once.
-/
namespace PdfVerif.CONC

def isRunOf (p : Pid) : Event → Bool
  | .run _ _ _ _ (some q) => q == p
  | _ => false

/-- how often a decode function has been entered on behalf of pending `p` -/
def runsOf (hist : List Event) (p : Pid) : Nat := (hist.filter (isRunOf p)).length

/-- the pendings whose owner is registered but has not entered its decode function yet -/
def preRun : List Frame → List Pid
  | .exStart _ p _ :: rest => p :: preRun rest
  | .decGet _ _ _ _ :: .exRun _ p :: rest => p :: preRun rest
  | _ :: rest => preRun rest
  | [] => []

theorem preRun_sub_owned : ∀ (stk : List Frame) (p : Pid), p ∈ preRun stk → p ∈ owned stk
  | [], p, h => by simp [preRun] at h
  | f :: rest, p, h => by
    cases f with
    | exStart k q path =>
      simp only [preRun] at h
      rw [owned_cons_some _ rfl]
      rcases List.mem_cons.mp h with e | e
      · subst e; simp
      · exact List.mem_cons_of_mem _ (preRun_sub_owned rest p e)
    | decGet tp refs path r =>
      rw [owned_cons_none _ rfl]
      cases rest with
      | nil => simp [preRun] at h
      | cons g rest' =>
        cases g with
        | exRun k q =>
          simp only [preRun] at h
          rw [owned_cons_some _ rfl]
          rcases List.mem_cons.mp h with e | e
          · subst e; simp
          · exact List.mem_cons_of_mem _ (preRun_sub_owned rest' p e)
        | decGet _ _ _ _ => simp only [preRun] at h; exact preRun_sub_owned _ p h
        | decFn _ _ _ => simp only [preRun] at h; exact preRun_sub_owned _ p h
        | exFn _ _ => simp only [preRun] at h; exact preRun_sub_owned _ p h
        | exStart _ _ _ => simp only [preRun] at h; exact preRun_sub_owned _ p h
        | exPub _ _ _ => simp only [preRun] at h; exact preRun_sub_owned _ p h
        | exClose _ _ _ => simp only [preRun] at h; exact preRun_sub_owned _ p h
        | exDone _ _ _ => simp only [preRun] at h; exact preRun_sub_owned _ p h
        | exWait _ _ => simp only [preRun] at h; exact preRun_sub_owned _ p h
        | dead => simp only [preRun] at h; exact preRun_sub_owned _ p h
    | decFn _ _ _ =>
      simp only [preRun] at h; rw [owned_cons_none _ rfl]; exact preRun_sub_owned rest p h
    | exFn _ _ =>
      simp only [preRun] at h; rw [owned_cons_none _ rfl]; exact preRun_sub_owned rest p h
    | exRun k q =>
      simp only [preRun] at h; rw [owned_cons_some _ rfl]
      exact List.mem_cons_of_mem _ (preRun_sub_owned rest p h)
    | exPub k q res =>
      simp only [preRun] at h; rw [owned_cons_some _ rfl]
      exact List.mem_cons_of_mem _ (preRun_sub_owned rest p h)
    | exClose k q res =>
      simp only [preRun] at h; rw [owned_cons_some _ rfl]
      exact List.mem_cons_of_mem _ (preRun_sub_owned rest p h)
    | exDone _ _ _ =>
      simp only [preRun] at h; rw [owned_cons_none _ rfl]; exact preRun_sub_owned rest p h
    | exWait _ _ =>
      simp only [preRun] at h; rw [owned_cons_none _ rfl]; exact preRun_sub_owned rest p h
    | dead =>
      simp only [preRun] at h; rw [owned_cons_none _ rfl]; exact preRun_sub_owned rest p h

/-- dropping the top frame never adds a pre-run pending -/
theorem preRun_tail (f : Frame) (rest : List Frame) (p : Pid) (h : p ∈ preRun rest) :
    p ∈ preRun (f :: rest) := by
  cases f with
  | exStart k q path => simp only [preRun]; exact List.mem_cons_of_mem _ h
  | decGet tp refs path r =>
    cases rest with
    | nil => simp [preRun] at h
    | cons g rest' =>
      cases g <;> simp only [preRun] at h ⊢ <;> first | exact h | exact List.mem_cons_of_mem _ h
  | decFn _ _ _ => simpa only [preRun] using h
  | exFn _ _ => simpa only [preRun] using h
  | exRun _ _ => simpa only [preRun] using h
  | exPub _ _ _ => simpa only [preRun] using h
  | exClose _ _ _ => simpa only [preRun] using h
  | exDone _ _ _ => simpa only [preRun] using h
  | exWait _ _ => simpa only [preRun] using h
  | dead => simpa only [preRun] using h

theorem preRun_deliverStack (rest : List Frame) (res : Res) (p : Pid)
    (h : p ∈ preRun (deliverStack rest res)) : p ∈ preRun rest := by
  unfold deliverStack at h
  split at h
  · next k q rest' => simp only [preRun] at h ⊢; exact h
  · exact h

/-- pushing a frame which is neither `exStart` nor a `decGet` onto a stack -/
theorem preRun_push_other {f : Frame} (rest : List Frame)
    (h1 : ∀ k p path, f ≠ .exStart k p path) (h2 : ∀ tp refs path r, f ≠ .decGet tp refs path r) :
    preRun (f :: rest) = preRun rest := by
  cases f with
  | exStart k p path => exact absurd rfl (h1 k p path)
  | decGet tp refs path r => exact absurd rfl (h2 tp refs path r)
  | decFn _ _ _ => simp only [preRun]
  | exFn _ _ => simp only [preRun]
  | exRun _ _ => simp only [preRun]
  | exPub _ _ _ => simp only [preRun]
  | exClose _ _ _ => simp only [preRun]
  | exDone _ _ _ => simp only [preRun]
  | exWait _ _ => simp only [preRun]
  | dead => simp only [preRun]

/-- a `decGet` on a stack which is not headed by an `exRun` -/
theorem preRun_decGet_other (tp refs path r) {rest : List Frame}
    (h : ∀ k p rest', rest ≠ .exRun k p :: rest') :
    preRun (.decGet tp refs path r :: rest) = preRun rest := by
  cases rest with
  | nil => simp [preRun]
  | cons g rest' =>
    cases g with
    | exRun k p => exact absurd rfl (h k p rest')
    | _ => simp only [preRun]

/-- replacing one `decGet` by another leaves the pre-run pendings alone -/
theorem preRun_decGet_congr (tp refs path r tp' refs' path' r') (rest : List Frame) :
    preRun (.decGet tp refs path r :: rest) = preRun (.decGet tp' refs' path' r' :: rest) := by
  cases rest with
  | nil => simp [preRun]
  | cons g rest' => cases g <;> simp only [preRun]

theorem runsOf_cons (e : Event) (hist : List Event) (p : Pid) :
    runsOf (e :: hist) p = runsOf hist p + (if isRunOf p e then 1 else 0) := by
  simp only [runsOf, List.filter_cons]
  split <;> simp

structure RInv (s : State) : Prop where
  once : ∀ p, runsOf s.hist p ≤ 1
  pre : ∀ t p, p ∈ preRun (s.thr t) → runsOf s.hist p = 0
  fresh : ∀ p, s.npend ≤ p → runsOf s.hist p = 0

/-- a transition which records no decode-function entry on behalf of a pending and adds no
pre-run pending -/
theorem RInv.local {s s' : State} (hr : RInv s) (t : Tid) (stk' : List Frame)
    (hthr : s'.thr = upd s.thr t stk') (hruns : ∀ p, runsOf s'.hist p = runsOf s.hist p)
    (hn : s'.npend = s.npend) (hpre : ∀ p, p ∈ preRun stk' → p ∈ preRun (s.thr t)) : RInv s' := by
  refine ⟨fun p => by rw [hruns]; exact hr.once p, ?_, fun p hp => by rw [hruns]; rw [hn] at hp; exact hr.fresh p hp⟩
  intro t' p hp
  rw [hruns]
  rw [hthr] at hp
  simp only [upd_apply] at hp
  split at hp
  · exact hr.pre t p (hpre p hp)
  · exact hr.pre t' p hp

theorem runsOf_nonrun {e : Event} (hist : List Event) (h : ∀ p, isRunOf p e = false) (p : Pid) :
    runsOf (e :: hist) p = runsOf hist p := by
  rw [runsOf_cons, h]; simp

theorem runs_retDec (s t rest o tp res) (p : Pid) :
    runsOf (retDec s t rest o tp res).hist p = runsOf s.hist p := by
  rw [retDec_hist]; exact runsOf_nonrun _ (fun _ => rfl) p

theorem runs_retExc (s t rest o tp res q) (p : Pid) :
    runsOf (retExc s t rest o tp res q).hist p = runsOf s.hist p := by
  rw [retExc_hist]; exact runsOf_nonrun _ (fun _ => rfl) p

/-- `decLoop` on a reference, or above anything but an exclusive owner, records no owned run -/
theorem runs_decLoop (s t rest tp refs path o) (h : o = .direct → ownerOf rest = none) (p : Pid) :
    runsOf (decLoop s t rest tp refs path o).hist p = runsOf s.hist p := by
  cases o with
  | direct =>
    simp only [decLoop]
    rw [h rfl]
    exact runsOf_nonrun _ (fun _ => rfl) p
  | ref r =>
    simp only [decLoop]
    cases s.cache (r, tp) with
    | some v => exact runs_retDec _ _ _ _ _ _ p
    | none =>
      simp only
      split
      · exact runs_retDec _ _ _ _ _ _ p
      · split
        · exact runs_retDec _ _ _ _ _ _ p
        · rfl

theorem preRun_decLoopStack_ref (s : State) (rest : List Frame) (tp refs path r) (p : Pid)
    (h : p ∈ preRun (decLoopStack s rest tp refs path (.ref r))) :
    p ∈ preRun (.decGet tp refs path r :: rest) := by
  simp only [decLoopStack] at h
  split at h
  · exact preRun_tail _ _ _ (preRun_deliverStack _ _ _ h)
  · split at h
    · exact preRun_tail _ _ _ (preRun_deliverStack _ _ _ h)
    · split at h
      · exact preRun_tail _ _ _ (preRun_deliverStack _ _ _ h)
      · rw [preRun_decGet_congr tp refs path r]; exact h

theorem ownerOf_none_of_not_exRun {rest : List Frame} (h : ∀ k p rest', rest ≠ .exRun k p :: rest') :
    ownerOf rest = none := by
  unfold ownerOf
  split
  · next k p rest' => exact absurd rfl (h k p rest')
  · rfl

theorem RInv.step {cfg : Cfg} {s s' : State} {t : Tid} {a : Act} (hx : XInv s) (hr : RInv s)
    (h : step cfg s t a = some s') : RInv s' := by
  have hdead : ∀ p, p ∈ preRun [Frame.dead] → p ∈ preRun (s.thr t) := by
    intro p hp; simp [preRun] at hp
  unfold CONC.step at h
  cases a with
  | callDecode o tp path =>
    simp only at h
    split at h
    · next hcc =>
      cases h
      have hne : ∀ k p rest', s.thr t ≠ .exRun k p :: rest' := by
        intro k p rest' e; rw [e] at hcc; simp [canCall] at hcc
      refine hr.local t _ (decLoop_thr ..) (runs_decLoop _ _ _ _ _ _ _ (fun _ => ownerOf_none_of_not_exRun hne))
        (decLoop_npend ..) ?_
      intro p hp
      cases o with
      | direct =>
        simp only [decLoopStack] at hp
        rw [preRun_push_other _ (by intros; simp) (by intros; simp)] at hp
        exact hp
      | ref r =>
        have := preRun_decLoopStack_ref s (s.thr t) tp [] path r p hp
        rw [preRun_decGet_other _ _ _ _ hne] at this
        exact this
    · cases h
  | callPair r A B a b =>
    simp only at h
    split at h
    · cases h
      obtain ⟨res, hh, _, _⟩ := pairCall_thr_hist cfg s t r A B a b
      have hruns : ∀ p, runsOf (pairCall cfg s t r A B a b).hist p = runsOf s.hist p := by
        intro p; rw [hh]; exact runsOf_nonrun _ (fun _ => rfl) p
      exact hr.local t (s.thr t) (by rw [pairCall_thr, upd_self]) hruns (pairCall_npend ..) (fun p hp => hp)
    · cases h
  | callExcl o tp path =>
    simp only at h
    split at h
    · next hcc =>
      cases h
      unfold exclCall
      cases o with
      | direct =>
        exact hr.local t (.exFn tp path :: s.thr t) rfl
          (fun p => runsOf_nonrun _ (fun _ => rfl) p) rfl
          (by intro p hp; rw [preRun_push_other _ (by intros; simp) (by intros; simp)] at hp; exact hp)
      | ref r =>
        simp only
        cases s.cache (r, tp) with
        | some v =>
          simp only
          exact hr.local t _ (retExc_thr ..) (fun p => runs_retExc _ _ _ _ _ _ _ p) (retExc_npend ..)
            (fun p hp => preRun_deliverStack _ _ _ hp)
        | none =>
          simp only
          cases s.wip (r, tp) with
          | some p =>
            exact hr.local t (.exWait (r, tp) p :: s.thr t) rfl (fun _ => rfl) rfl
              (by intro q hq; rw [preRun_push_other _ (by intros; simp) (by intros; simp)] at hq; exact hq)
          | none =>
            simp only
            refine ⟨hr.once, ?_, fun p hp => hr.fresh p (Nat.le_of_succ_le hp)⟩
            intro t' p hp
            simp only [upd_apply] at hp
            split at hp
            · simp only [preRun] at hp
              rcases List.mem_cons.mp hp with e | e
              · subst e; exact hr.fresh _ (Nat.le_refl _)
              · exact hr.pre t p e
            · exact hr.pre t' p hp
    · cases h
  | fnRet res =>
    simp only at h
    split at h
    · next tp refs path rest e =>
      cases h
      have hsub : ∀ res' p, p ∈ preRun (deliverStack rest res') → p ∈ preRun (s.thr t) := by
        intro res' p hp; rw [e]; exact preRun_tail _ _ _ (preRun_deliverStack _ _ _ hp)
      cases res with
      | panic =>
        show RInv (CONC.crash s t (.fnPanic t))
        exact hr.local t [.dead] (crash_thr ..) (fun p => by rw [crash_hist]; exact runsOf_nonrun _ (fun _ => rfl) p)
          (crash_npend ..) hdead
      | err er => exact hr.local t _ (retDec_thr ..) (fun p => runs_retDec _ _ _ _ _ _ p) (retDec_npend ..) (hsub _)
      | ok v =>
        cases refs with
        | nil => exact hr.local t _ (retDec_thr ..) (fun p => runs_retDec _ _ _ _ _ _ p) (retDec_npend ..) (hsub _)
        | cons r0 rs => exact hr.local t _ (retDec_thr ..) (fun p => runs_retDec _ _ _ _ _ _ p) (retDec_npend ..) (hsub _)
    · next tp path rest e =>
      have hsub : ∀ res' p, p ∈ preRun (deliverStack rest res') → p ∈ preRun (s.thr t) := by
        intro res' p hp; rw [e]; exact preRun_tail _ _ _ (preRun_deliverStack _ _ _ hp)
      cases res with
      | panic =>
        cases h
        exact hr.local t [.dead] (crash_thr ..) (fun p => by rw [crash_hist]; exact runsOf_nonrun _ (fun _ => rfl) p)
          (crash_npend ..) hdead
      | err er => cases h; exact hr.local t _ (retExc_thr ..) (fun p => runs_retExc _ _ _ _ _ _ _ p) (retExc_npend ..) (hsub _)
      | ok v => cases h; exact hr.local t _ (retExc_thr ..) (fun p => runs_retExc _ _ _ _ _ _ _ p) (retExc_npend ..) (hsub _)
    · cases h
  | goFail =>
    simp only at h
    split at h
    · next tp refs path r rest e =>
      cases h
      exact hr.local t _ (retDec_thr ..) (fun p => runs_retDec _ _ _ _ _ _ p) (retDec_npend ..)
        (by intro p hp; rw [e]; exact preRun_tail _ _ _ (preRun_deliverStack _ _ _ hp))
    · cases h
  | go =>
    simp only at h
    split at h
    · next tp refs path r rest e =>
      split at h
      · cases h
        exact hr.local t _ (retDec_thr ..) (fun p => runs_retDec _ _ _ _ _ _ p) (retDec_npend ..)
          (by intro p hp; rw [e]; exact preRun_tail _ _ _ (preRun_deliverStack _ _ _ hp))
      · next r' _ =>
        cases h
        exact hr.local t _ (decLoop_thr ..) (runs_decLoop _ _ _ _ _ _ _ (by intro h; cases h))
          (decLoop_npend ..)
          (by intro p hp
              rw [e, preRun_decGet_congr tp refs path r tp refs path r']
              exact preRun_decLoopStack_ref s rest tp refs path r' p hp)
      · -- the decode function is entered
        cases h
        cases hown : ownerOf rest with
        | none =>
          refine hr.local t _ (decLoop_thr ..) (runs_decLoop _ _ _ _ _ _ _ (fun _ => hown))
            (decLoop_npend ..) ?_
          intro p hp
          simp only [decLoopStack] at hp
          rw [preRun_push_other _ (by intros; simp) (by intros; simp)] at hp
          rw [e]; exact preRun_tail _ _ _ hp
        | some q =>
          -- … on behalf of pending q: rest = exRun k q :: rest'
          obtain ⟨k, rest', erest⟩ : ∃ k rest', rest = .exRun k q :: rest' := by
            unfold ownerOf at hown
            split at hown
            · next k p rest' => cases hown; exact ⟨k, rest', rfl⟩
            · cases hown
          subst erest
          have hq0 : runsOf s.hist q = 0 := hr.pre t q (by rw [e]; simp [preRun])
          have hqT : q ∈ owned (s.thr t) := by
            rw [e, owned_cons_none _ rfl, owned_cons_some _ rfl]; simp
          have hqRest : q ∉ owned rest' := by
            have := hx.nodup t
            rw [e, owned_cons_none _ rfl, owned_cons_some _ rfl] at this
            exact (List.nodup_cons.mp this).1
          have hruns : ∀ p, runsOf (decLoop s t (.exRun k q :: rest') tp refs path .direct).hist p
              = runsOf s.hist p + (if p = q then 1 else 0) := by
            intro p
            simp only [decLoop, ownerOf]
            rw [runsOf_cons]
            simp only [isRunOf]
            by_cases epq : p = q
            · subst epq; simp
            · have : (q == p) = false := by simp; exact fun h => epq h.symm
              simp [this, epq]
          refine ⟨?_, ?_, ?_⟩
          · intro p
            rw [hruns]
            split
            · next epq => subst epq; rw [hq0]; exact Nat.le_refl _
            · exact hr.once p
          · intro t' p hp
            rw [hruns]
            rw [decLoop_thr] at hp
            simp only [upd_apply, decLoopStack] at hp
            have hpne : p ≠ q := by
              intro epq
              subst epq
              split at hp
              · next et =>
                rw [preRun_push_other _ (by intros; simp) (by intros; simp)] at hp
                simp only [preRun] at hp
                exact hqRest (preRun_sub_owned _ _ hp)
              · next et =>
                exact et (hx.disj t' t p (preRun_sub_owned _ _ hp) hqT)
            simp only [hpne, if_false, Nat.add_zero]
            split at hp
            · rw [preRun_push_other _ (by intros; simp) (by intros; simp)] at hp
              simp only [preRun] at hp
              exact hr.pre t p (by rw [e]; simp only [preRun]; exact List.mem_cons_of_mem _ hp)
            · exact hr.pre t' p hp
          · intro p hp
            rw [hruns, decLoop_npend] at *
            have hqn := hx.bound t q hqT
            have : p ≠ q := by intro epq; subst epq; exact Nat.lt_irrefl _ (Nat.lt_of_lt_of_le hqn hp)
            simp only [this, if_false, Nat.add_zero]
            exact hr.fresh p hp
    · next k p path rest e =>
      cases h
      refine hr.local t (decLoopStack s (.exRun k p :: rest) k.2 [] path (.ref k.1)) ?_
        (runs_decLoop _ _ _ _ _ _ _ (by intro h; cases h)) (decLoop_npend ..) ?_
      · rw [decLoop_thr]
        show upd (upd s.thr t _) t _ = _
        rw [upd_upd]; rfl
      · intro q hq
        have := preRun_decLoopStack_ref s (.exRun k p :: rest) k.2 [] path k.1 q hq
        rw [e]
        simp only [preRun] at this ⊢
        exact this
    · next k p res rest e =>
      cases h
      exact hr.local t (.exClose k p res :: rest) rfl (fun _ => rfl) rfl
        (by intro q hq; rw [e]; simp only [preRun] at hq ⊢; exact hq)
    · next k p res rest e =>
      cases h
      exact hr.local t (.exDone k p res :: rest) rfl (fun _ => rfl) rfl
        (by intro q hq; rw [e]; simp only [preRun] at hq ⊢; exact hq)
    · next k p res rest e =>
      cases h
      exact hr.local t _ (retExc_thr ..) (fun p => runs_retExc _ _ _ _ _ _ _ p) (retExc_npend ..)
        (by intro q hq; rw [e]; exact preRun_tail _ _ _ (preRun_deliverStack _ _ _ hq))
    · next k p rest e =>
      have hsub : ∀ res' q, q ∈ preRun (deliverStack rest res') → q ∈ preRun (s.thr t) := by
        intro res' q hq; rw [e]; exact preRun_tail _ _ _ (preRun_deliverStack _ _ _ hq)
      split at h
      · split at h
        · cases h; exact hr.local t _ (retExc_thr ..) (fun p => runs_retExc _ _ _ _ _ _ _ p) (retExc_npend ..) (hsub _)
        · cases h; exact hr.local t _ (retExc_thr ..) (fun p => runs_retExc _ _ _ _ _ _ _ p) (retExc_npend ..) (hsub _)
        · cases h
        · cases h; exact hr.local t _ (retExc_thr ..) (fun p => runs_retExc _ _ _ _ _ _ _ p) (retExc_npend ..) (hsub _)
      · cases h
    · cases h

theorem RInv.init : RInv State.init :=
  ⟨fun p => by simp [State.init, runsOf], fun t p h => by simp [State.init, preRun] at h,
   fun p _ => by simp [State.init, runsOf]⟩

end PdfVerif.CONC

import PdfVerif.Lemmas.CONCBasic
/-!
Invariant behind `exclusive_once` (C18): every pending has at most one owner frame in the whole
system, the owner's frame says where the hand-over stands (`wip` entry present and no outcome
written / outcome written), and every `DecodeExclusive` that returned through a pending returned
that pending's outcome.
-/
namespace PdfVerif.CONC

/-- the pending a frame owns -/
def owns : Frame → Option Pid
  | .exStart _ p _ => some p
  | .exRun _ p => some p
  | .exPub _ p _ => some p
  | .exClose _ p _ => some p
  | _ => none

/-- the pendings owned by the frames of a stack -/
def owned (stk : List Frame) : List Pid := stk.filterMap owns

def XFrame (s : State) : Frame → Prop
  | .exStart k p _ => s.wip k = some p ∧ (s.pend p).out = none
  | .exRun k p => s.wip k = some p ∧ (s.pend p).out = none
  | .exPub k p _ => s.wip k = some p ∧ (s.pend p).out = none
  | .exClose _ p res => (s.pend p).out = some res
  | .exDone _ p res => (s.pend p).out = some res ∧ p < s.npend
  | .exWait _ p => p < s.npend
  | _ => True

def XEv (s : State) : Event → Prop
  | .exc _ _ _ res (some p) => p < s.npend ∧ (res ≠ .panic → (s.pend p).out = some res)
  | _ => True

structure XInv (s : State) : Prop where
  nodup : ∀ t, (owned (s.thr t)).Nodup
  disj : ∀ t1 t2 p, p ∈ owned (s.thr t1) → p ∈ owned (s.thr t2) → t1 = t2
  bound : ∀ t p, p ∈ owned (s.thr t) → p < s.npend
  wipb : ∀ k p, s.wip k = some p → p < s.npend
  frames : ∀ t f, f ∈ s.thr t → XFrame s f
  hist : ∀ e ∈ s.hist, XEv s e
  doneOut : ∀ p, (s.pend p).done = true → (s.pend p).out ≠ none

theorem XFrame.congr {s s' : State} (hw : s'.wip = s.wip)
    (hp : ∀ p, (s'.pend p).out = (s.pend p).out) (hn : s.npend ≤ s'.npend)
    {f : Frame} (h : XFrame s f) : XFrame s' f := by
  cases f <;> simp only [XFrame] at h ⊢ <;> (try trivial)
  all_goals (first
    | (rw [hw, hp]; exact h)
    | (rw [hp]; exact ⟨h.1, Nat.lt_of_lt_of_le h.2 hn⟩)
    | (rw [hp]; exact h)
    | exact Nat.lt_of_lt_of_le h hn)

theorem XEv.congr {s s' : State} (hn : s.npend ≤ s'.npend)
    (hp : ∀ p, p < s.npend → (s'.pend p).out = (s.pend p).out) {e : Event}
    (h : XEv s e) : XEv s' e := by
  cases e with
  | exc t o tp res p =>
    cases p with
    | none => trivial
    | some p =>
      simp only [XEv] at h ⊢
      exact ⟨Nat.lt_of_lt_of_le h.1 hn, by rw [hp p h.1]; exact h.2⟩
  | dec _ _ _ _ => trivial
  | pair _ _ _ _ _ _ _ => trivial
  | run _ _ _ _ _ => trivial
  | fnPanic _ => trivial

theorem mem_owned {stk : List Frame} {f : Frame} {p : Pid} (hf : f ∈ stk) (ho : owns f = some p) :
    p ∈ owned stk := List.mem_filterMap.mpr ⟨f, hf, ho⟩

theorem owned_cons (f : Frame) (stk : List Frame) :
    owned (f :: stk) = (match owns f with | some p => p :: owned stk | none => owned stk) := by
  simp only [owned, List.filterMap_cons]; cases owns f <;> rfl

@[simp] theorem owned_deliverStack (rest : List Frame) (res : Res) :
    owned (deliverStack rest res) = owned rest := by
  unfold deliverStack
  split
  · simp [owned, owns]
  · rfl

theorem xframe_deliverStack {s : State} {rest : List Frame} (h : ∀ f ∈ rest, XFrame s f) (res : Res) :
    ∀ f ∈ deliverStack rest res, XFrame s f := by
  unfold deliverStack
  split
  · next k p rest' =>
    intro f hf
    rcases List.mem_cons.mp hf with e | e
    · subst e; exact h (.exRun k p) (by simp)
    · exact h f (List.mem_cons_of_mem _ e)
  · exact h

theorem owned_decLoopStack (s : State) (rest : List Frame) (tp refs path o) :
    owned (decLoopStack s rest tp refs path o) = owned rest := by
  unfold decLoopStack
  split
  · rw [owned_cons]; rfl
  · split
    · simp
    · split
      · simp
      · split
        · simp
        · rw [owned_cons]; rfl

theorem xframe_decLoopStack {s s0 : State} {rest : List Frame} (h : ∀ f ∈ rest, XFrame s f)
    (tp refs path o) : ∀ f ∈ decLoopStack s0 rest tp refs path o, XFrame s f := by
  unfold decLoopStack
  split
  · intro f hf
    rcases List.mem_cons.mp hf with e | e
    · subst e; trivial
    · exact h f e
  · split
    · exact xframe_deliverStack h _
    · split
      · exact xframe_deliverStack h _
      · split
        · exact xframe_deliverStack h _
        · intro f hf
          rcases List.mem_cons.mp hf with e | e
          · subst e; trivial
          · exact h f e

/-- a transition which changes only the stack of `t` (owning no more than before) and the
history, and leaves `wip`, the outcomes and `npend` alone -/
theorem XInv.local {s s' : State} (hs : XInv s) (t : Tid) (stk' : List Frame) (evs : List Event)
    (hthr : s'.thr = upd s.thr t stk') (hsub : (owned stk').Sublist (owned (s.thr t)))
    (hw : s'.wip = s.wip)
    (hp : ∀ p, (s'.pend p).out = (s.pend p).out)
    (hn : s'.npend = s.npend)
    (hfr : ∀ f ∈ stk', XFrame s f) (hh : s'.hist = evs ++ s.hist) (hev : ∀ e ∈ evs, XEv s' e)
    (hd : ∀ p, (s'.pend p).done = true → (s'.pend p).out ≠ none) :
    XInv s' := by
  have hthr' : ∀ t', owned (s'.thr t') = if t' = t then owned stk' else owned (s.thr t') := by
    intro t'; rw [hthr]; simp only [upd_apply]; split <;> rfl
  have hmem : ∀ t' p, p ∈ owned (s'.thr t') → p ∈ owned (s.thr t') := by
    intro t' p h
    rw [hthr'] at h
    split at h
    · next e => subst e; exact hsub.subset h
    · exact h
  refine ⟨?_, ?_, ?_, ?_, ?_, ?_, hd⟩
  · intro t'
    rw [hthr']
    split
    · exact (hs.nodup t).sublist hsub
    · exact hs.nodup t'
  · intro t1 t2 p h1 h2
    exact hs.disj t1 t2 p (hmem _ _ h1) (hmem _ _ h2)
  · intro t' p h; rw [hn]; exact hs.bound t' p (hmem _ _ h)
  · intro k p h; rw [hw] at h; rw [hn]; exact hs.wipb k p h
  · intro t' f hf
    rw [hthr] at hf
    simp only [upd_apply] at hf
    split at hf
    · exact (hfr f hf).congr hw hp (by rw [hn]; exact Nat.le_refl _)
    · exact (hs.frames t' f hf).congr hw hp (by rw [hn]; exact Nat.le_refl _)
  · intro e he
    rw [hh] at he
    rcases List.mem_append.mp he with h | h
    · exact hev e h
    · exact (hs.hist e h).congr (by rw [hn]; exact Nat.le_refl _) (fun p _ => hp p)

/-- the same when `pend` is untouched -/
theorem XInv.local' {s s' : State} (hs : XInv s) (t : Tid) (stk' : List Frame) (evs : List Event)
    (hthr : s'.thr = upd s.thr t stk') (hsub : (owned stk').Sublist (owned (s.thr t)))
    (hw : s'.wip = s.wip) (hp : s'.pend = s.pend) (hn : s'.npend = s.npend)
    (hfr : ∀ f ∈ stk', XFrame s f) (hh : s'.hist = evs ++ s.hist) (hev : ∀ e ∈ evs, XEv s' e) :
    XInv s' :=
  hs.local t stk' evs hthr hsub hw (fun p => by rw [hp]) hn hfr hh hev
    (by rw [hp]; exact hs.doneOut)

theorem XInv.init : XInv State.init := by
  refine ⟨?_, ?_, ?_, ?_, ?_, ?_, ?_⟩
  · intro t; simp [State.init, owned]
  · intro t1 t2 p h; simp [State.init, owned] at h
  · intro t p h; simp [State.init, owned] at h
  · intro k p h; simp [State.init] at h
  · intro t f h; simp [State.init] at h
  · intro e h; simp [State.init] at h
  · intro p h; simp [State.init] at h

end PdfVerif.CONC

import PdfVerif.Lemmas.CONCBasic
/-!
Invariant behind `exclusive_once` (C18): every pending has at most one owner frame in the whole
system, the owner's frame says where the hand-over stands (`wip` entry present and no outcome
written / outcome written), and every `DecodeExclusive` that returned through a pending returned
that pending's outcome.
-/
namespace PdfVerif.CONC

/-- the pending a frame owns -/
def owns : Frame → Option Pid
  | .exStart _ p _ => some p
  | .exRun _ p => some p
  | .exPub _ p _ => some p
  | .exClose _ p _ => some p
  | _ => none

/-- the pendings owned by the frames of a stack -/
def owned (stk : List Frame) : List Pid := stk.filterMap owns

def XFrame (s : State) : Frame → Prop
  | .exStart k p _ => s.wip k = some p ∧ (s.pend p).out = none
  | .exRun k p => s.wip k = some p ∧ (s.pend p).out = none
  | .exPub k p _ => s.wip k = some p ∧ (s.pend p).out = none
  | .exClose _ p res => (s.pend p).out = some res
  | .exDone _ p res => (s.pend p).out = some res ∧ p < s.npend
  | .exWait _ p => p < s.npend
  | _ => True

def XEv (s : State) : Event → Prop
  | .exc _ _ _ res (some p) => p < s.npend ∧ (res ≠ .panic → (s.pend p).out = some res)
  | _ => True

structure XInv (s : State) : Prop where
  nodup : ∀ t, (owned (s.thr t)).Nodup
  disj : ∀ t1 t2 p, p ∈ owned (s.thr t1) → p ∈ owned (s.thr t2) → t1 = t2
  bound : ∀ t p, p ∈ owned (s.thr t) → p < s.npend
  wipb : ∀ k p, s.wip k = some p → p < s.npend
  frames : ∀ t f, f ∈ s.thr t → XFrame s f
  hist : ∀ e ∈ s.hist, XEv s e
  doneOut : ∀ p, (s.pend p).done = true → (s.pend p).out ≠ none

theorem XFrame.congr {s s' : State} (hw : s'.wip = s.wip)
    (hp : ∀ p, (s'.pend p).out = (s.pend p).out) (hn : s.npend ≤ s'.npend)
    {f : Frame} (h : XFrame s f) : XFrame s' f := by
  cases f <;> simp only [XFrame] at h ⊢ <;> (try trivial)
  all_goals (first
    | (rw [hw, hp]; exact h)
    | (rw [hp]; exact ⟨h.1, Nat.lt_of_lt_of_le h.2 hn⟩)
    | (rw [hp]; exact h)
    | exact Nat.lt_of_lt_of_le h hn)

theorem XEv.congr {s s' : State} (hn : s.npend ≤ s'.npend)
    (hp : ∀ p, p < s.npend → (s'.pend p).out = (s.pend p).out) {e : Event}
    (h : XEv s e) : XEv s' e := by
  cases e with
  | exc t o tp res p =>
    cases p with
    | none => trivial
    | some p =>
      simp only [XEv] at h ⊢
      exact ⟨Nat.lt_of_lt_of_le h.1 hn, by rw [hp p h.1]; exact h.2⟩
  | dec _ _ _ _ => trivial
  | pair _ _ _ _ _ _ _ => trivial
  | run _ _ _ _ _ => trivial
  | fnPanic _ => trivial

theorem mem_owned {stk : List Frame} {f : Frame} {p : Pid} (hf : f ∈ stk) (ho : owns f = some p) :
    p ∈ owned stk := List.mem_filterMap.mpr ⟨f, hf, ho⟩

theorem owned_cons (f : Frame) (stk : List Frame) :
    owned (f :: stk) = (match owns f with | some p => p :: owned stk | none => owned stk) := by
  simp only [owned, List.filterMap_cons]; cases owns f <;> rfl

@[simp] theorem owned_deliverStack (rest : List Frame) (res : Res) :
    owned (deliverStack rest res) = owned rest := by
  unfold deliverStack
  split
  · simp [owned, owns]
  · rfl

theorem xframe_deliverStack {s : State} {rest : List Frame} (h : ∀ f ∈ rest, XFrame s f) (res : Res) :
    ∀ f ∈ deliverStack rest res, XFrame s f := by
  unfold deliverStack
  split
  · next k p rest' =>
    intro f hf
    rcases List.mem_cons.mp hf with e | e
    · subst e; exact h (.exRun k p) (by simp)
    · exact h f (List.mem_cons_of_mem _ e)
  · exact h

theorem owned_decLoopStack (s : State) (rest : List Frame) (tp refs path o) :
    owned (decLoopStack s rest tp refs path o) = owned rest := by
  unfold decLoopStack
  split
  · rw [owned_cons]; rfl
  · split
    · simp
    · split
      · simp
      · split
        · simp
        · rw [owned_cons]; rfl

theorem xframe_decLoopStack {s s0 : State} {rest : List Frame} (h : ∀ f ∈ rest, XFrame s f)
    (tp refs path o) : ∀ f ∈ decLoopStack s0 rest tp refs path o, XFrame s f := by
  unfold decLoopStack
  split
  · intro f hf
    rcases List.mem_cons.mp hf with e | e
    · subst e; trivial
    · exact h f e
  · split
    · exact xframe_deliverStack h _
    · split
      · exact xframe_deliverStack h _
      · split
        · exact xframe_deliverStack h _
        · intro f hf
          rcases List.mem_cons.mp hf with e | e
          · subst e; trivial
          · exact h f e

/-- a transition which changes only the stack of `t` (owning no more than before) and the
history, and leaves `wip`, the outcomes and `npend` alone -/
theorem XInv.local {s s' : State} (hs : XInv s) (t : Tid) (stk' : List Frame) (evs : List Event)
    (hthr : s'.thr = upd s.thr t stk') (hsub : (owned stk').Sublist (owned (s.thr t)))
    (hw : s'.wip = s.wip)
    (hp : ∀ p, (s'.pend p).out = (s.pend p).out)
    (hn : s'.npend = s.npend)
    (hfr : ∀ f ∈ stk', XFrame s f) (hh : s'.hist = evs ++ s.hist) (hev : ∀ e ∈ evs, XEv s' e)
    (hd : ∀ p, (s'.pend p).done = true → (s'.pend p).out ≠ none) :
    XInv s' := by
  have hthr' : ∀ t', owned (s'.thr t') = if t' = t then owned stk' else owned (s.thr t') := by
    intro t'; rw [hthr]; simp only [upd_apply]; split <;> rfl
  have hmem : ∀ t' p, p ∈ owned (s'.thr t') → p ∈ owned (s.thr t') := by
    intro t' p h
    rw [hthr'] at h
    split at h
    · next e => subst e; exact hsub.subset h
    · exact h
  refine ⟨?_, ?_, ?_, ?_, ?_, ?_, hd⟩
  · intro t'
    rw [hthr']
    split
    · exact (hs.nodup t).sublist hsub
    · exact hs.nodup t'
  · intro t1 t2 p h1 h2
    exact hs.disj t1 t2 p (hmem _ _ h1) (hmem _ _ h2)
  · intro t' p h; rw [hn]; exact hs.bound t' p (hmem _ _ h)
  · intro k p h; rw [hw] at h; rw [hn]; exact hs.wipb k p h
  · intro t' f hf
    rw [hthr] at hf
    simp only [upd_apply] at hf
    split at hf
    · exact (hfr f hf).congr hw hp (by rw [hn]; exact Nat.le_refl _)
    · exact (hs.frames t' f hf).congr hw hp (by rw [hn]; exact Nat.le_refl _)
  · intro e he
    rw [hh] at he
    rcases List.mem_append.mp he with h | h
    · exact hev e h
    · exact (hs.hist e h).congr (by rw [hn]; exact Nat.le_refl _) (fun p _ => hp p)

/-- the same when `pend` is untouched -/
theorem XInv.local' {s s' : State} (hs : XInv s) (t : Tid) (stk' : List Frame) (evs : List Event)
    (hthr : s'.thr = upd s.thr t stk') (hsub : (owned stk').Sublist (owned (s.thr t)))
    (hw : s'.wip = s.wip) (hp : s'.pend = s.pend) (hn : s'.npend = s.npend)
    (hfr : ∀ f ∈ stk', XFrame s f) (hh : s'.hist = evs ++ s.hist) (hev : ∀ e ∈ evs, XEv s' e) :
    XInv s' :=
  hs.local t stk' evs hthr hsub hw (fun p => by rw [hp]) hn hfr hh hev
    (by rw [hp]; exact hs.doneOut)

theorem owned_cons_none {f : Frame} (stk : List Frame) (h : owns f = none) :
    owned (f :: stk) = owned stk := by rw [owned_cons, h]

theorem owned_cons_some {f : Frame} {p : Pid} (stk : List Frame) (h : owns f = some p) :
    owned (f :: stk) = p :: owned stk := by rw [owned_cons, h]

/-! ### the deferred release of markers when a stack is unwound -/

/-- the key under which a frame still holds a `wip` entry -/
def wkey : Frame → Option Key
  | .exStart k _ _ => some k
  | .exRun k _ => some k
  | .exPub k _ _ => some k
  | _ => none

theorem releaseOwned_pend_other (s : State) : ∀ (stk : List Frame) (q : Pid), q ∉ owned stk →
    (releaseOwned s stk).pend q = s.pend q
  | [], _, _ => rfl
  | f :: rest, q, h => by
    have ih := releaseOwned_pend_other s rest q
    cases f <;> simp only [releaseOwned]
    case exStart k p path =>
      rw [owned_cons_some _ rfl] at h; simp at h
      rw [upd_other _ _ _ _ h.1]; exact ih h.2
    case exRun k p =>
      rw [owned_cons_some _ rfl] at h; simp at h
      rw [upd_other _ _ _ _ h.1]; exact ih h.2
    case exPub k p res =>
      rw [owned_cons_some _ rfl] at h; simp at h
      rw [upd_other _ _ _ _ h.1]; exact ih h.2
    case exClose k p res =>
      rw [owned_cons_some _ rfl] at h; simp at h
      rw [upd_other _ _ _ _ h.1]; exact ih h.2
    all_goals (rw [owned_cons_none _ rfl] at h; exact ih h)

theorem releaseOwned_out_keep (s : State) : ∀ (stk : List Frame) (q : Pid),
    (∀ f ∈ stk, XFrame s f) → (s.pend q).out ≠ none →
    ((releaseOwned s stk).pend q).out = (s.pend q).out
  | [], _, _, _ => rfl
  | f :: rest, q, hx, hq => by
    have ih := releaseOwned_out_keep s rest q (fun g hg => hx g (List.mem_cons_of_mem _ hg)) hq
    have hf := hx f (by simp)
    cases f <;> simp only [releaseOwned] <;> (try exact ih)
    case exStart k p path =>
      have : q ≠ p := by intro e; subst e; exact hq hf.2
      rw [upd_other _ _ _ _ this]; exact ih
    case exRun k p =>
      have : q ≠ p := by intro e; subst e; exact hq hf.2
      rw [upd_other _ _ _ _ this]; exact ih
    case exPub k p res =>
      have : q ≠ p := by intro e; subst e; exact hq hf.2
      rw [upd_other _ _ _ _ this]; exact ih
    case exClose k p res =>
      simp only [upd_apply]
      split
      · next e => subst e; exact ih
      · exact ih

theorem releaseOwned_owned_closed (s : State) : ∀ (stk : List Frame) (q : Pid), q ∈ owned stk →
    (∀ f ∈ stk, XFrame s f) →
    ((releaseOwned s stk).pend q).done = true ∧ ((releaseOwned s stk).pend q).out ≠ none
  | [], q, h, _ => by simp [owned] at h
  | f :: rest, q, h, hx => by
    have hxr : ∀ g ∈ rest, XFrame s g := fun g hg => hx g (List.mem_cons_of_mem _ hg)
    have ih := fun hq => releaseOwned_owned_closed s rest q hq hxr
    have hf := hx f (by simp)
    cases f <;> simp only [releaseOwned]
    case exStart k p path =>
      rw [owned_cons_some _ rfl] at h
      by_cases e : q = p
      · subst e; simp
      · rw [upd_other _ _ _ _ e]; exact ih (by simpa [e] using h)
    case exRun k p =>
      rw [owned_cons_some _ rfl] at h
      by_cases e : q = p
      · subst e; simp
      · rw [upd_other _ _ _ _ e]; exact ih (by simpa [e] using h)
    case exPub k p res =>
      rw [owned_cons_some _ rfl] at h
      by_cases e : q = p
      · subst e; simp
      · rw [upd_other _ _ _ _ e]; exact ih (by simpa [e] using h)
    case exClose k p res =>
      rw [owned_cons_some _ rfl] at h
      by_cases e : q = p
      · subst e
        simp only [upd_same]
        have hout : (s.pend q).out = some res := hf
        refine ⟨trivial, ?_⟩
        rw [releaseOwned_out_keep s rest q hxr (by rw [hout]; simp), hout]; simp
      · rw [upd_other _ _ _ _ e]; exact ih (by simpa [e] using h)
    all_goals (rw [owned_cons_none _ rfl] at h; exact ih h)

theorem releaseOwned_wip_cleared (s : State) : ∀ (stk : List Frame) (f : Frame) (k : Key),
    f ∈ stk → wkey f = some k → (releaseOwned s stk).wip k = none
  | [], _, _, h, _ => by simp at h
  | g :: rest, f, k, h, hk => by
    have ih : f ∈ rest → (releaseOwned s rest).wip k = none :=
      fun hf => releaseOwned_wip_cleared s rest f k hf hk
    rcases List.mem_cons.mp h with e | e
    · subst e
      cases f <;> simp [wkey] at hk <;> subst hk <;> simp [releaseOwned]
    · cases g <;> simp only [releaseOwned] <;> (try exact ih e)
      all_goals
        simp only [upd_apply]
        split
        · rfl
        · exact ih e

theorem releaseOwned_wip_other (s : State) : ∀ (stk : List Frame) (k : Key),
    (∀ f ∈ stk, wkey f ≠ some k) → (releaseOwned s stk).wip k = s.wip k
  | [], _, _ => rfl
  | g :: rest, k, h => by
    have ih := releaseOwned_wip_other s rest k (fun f hf => h f (List.mem_cons_of_mem _ hf))
    have hg := h g (by simp)
    cases g <;> simp only [releaseOwned] <;> (try exact ih)
    all_goals
      simp only [wkey] at hg
      rw [upd_other _ _ _ _ (fun e => hg (by rw [e]))]; exact ih

/-- a panic unwinds the stack of `t`: every pending owned on it is closed with an outcome, its
`wip` entry is gone, nothing else changes -/
theorem XInv.crash {s : State} (hs : XInv s) (t : Tid) (ev : Event) (hev : ∀ s', XEv s' ev) :
    XInv (CONC.crash s t ev) := by
  have hxt : ∀ f ∈ s.thr t, XFrame s f := hs.frames t
  have hown : ∀ t', owned ((CONC.crash s t ev).thr t') = if t' = t then [] else owned (s.thr t') := by
    intro t'; simp only [crash_thr, upd_apply]; split
    · simp [owned, owns]
    · rfl
  -- what survives for a pending which is not owned by the unwound stack
  have hother : ∀ q, q ∉ owned (s.thr t) → (CONC.crash s t ev).pend q = s.pend q := by
    intro q hq; simp only [crash_pend]; exact releaseOwned_pend_other s _ q hq
  have hwip : ∀ t' f k p, t' ≠ t → f ∈ s.thr t' → wkey f = some k → owns f = some p → s.wip k = some p →
      (CONC.crash s t ev).wip k = some p := by
    intro t' f k p hne hf hk ho hw
    simp only [crash_wip]
    rw [releaseOwned_wip_other, hw]
    intro g hg hgk
    -- g would hold the same wip entry, i.e. the same pending, in another thread
    have hxg := hxt g hg
    have hpg : owns g = some p := by
      cases g <;> simp [wkey] at hgk <;> subst hgk
      · have := hxg.1; rw [hw] at this; cases this; rfl
      · have := hxg.1; rw [hw] at this; cases this; rfl
      · have := hxg.1; rw [hw] at this; cases this; rfl
    exact hne (hs.disj t' t p (mem_owned hf ho) (mem_owned hg hpg))
  refine ⟨?_, ?_, ?_, ?_, ?_, ?_, ?_⟩
  · intro t'; rw [hown]; split
    · exact List.nodup_nil
    · exact hs.nodup t'
  · intro t1 t2 p h1 h2
    rw [hown] at h1 h2
    split at h1
    · simp at h1
    · split at h2
      · simp at h2
      · exact hs.disj t1 t2 p h1 h2
  · intro t' p h
    rw [hown] at h
    split at h
    · simp at h
    · simp only [crash_npend]; exact hs.bound t' p h
  · intro k p h
    simp only [crash_wip] at h
    simp only [crash_npend]
    exact hs.wipb k p (releaseOwned_wip_sub _ _ _ _ h)
  · intro t' f hf
    simp only [crash_thr, upd_apply] at hf
    split at hf
    · simp at hf; subst hf; trivial
    · next hne =>
      have hx := hs.frames t' f hf
      have hnot : ∀ p, owns f = some p → p ∉ owned (s.thr t) :=
        fun p ho hm => hne (hs.disj t' t p (mem_owned hf ho) hm)
      cases f with
      | exStart k p path =>
        exact ⟨hwip t' _ k p hne hf rfl rfl hx.1, by rw [hother p (hnot p rfl)]; exact hx.2⟩
      | exRun k p =>
        exact ⟨hwip t' _ k p hne hf rfl rfl hx.1, by rw [hother p (hnot p rfl)]; exact hx.2⟩
      | exPub k p res =>
        exact ⟨hwip t' _ k p hne hf rfl rfl hx.1, by rw [hother p (hnot p rfl)]; exact hx.2⟩
      | exClose k p res =>
        show ((CONC.crash s t ev).pend p).out = some res
        rw [hother p (hnot p rfl)]; exact hx
      | exDone k p res =>
        refine ⟨?_, by simp only [crash_npend]; exact hx.2⟩
        simp only [crash_pend]
        rw [releaseOwned_out_keep s _ p hxt (by rw [hx.1]; simp)]; exact hx.1
      | exWait k p => simp only [XFrame, crash_npend]; exact hx
      | decGet _ _ _ _ => trivial
      | decFn _ _ _ => trivial
      | exFn _ _ => trivial
      | dead => trivial
  · intro e he
    simp only [crash_hist] at he
    rcases List.mem_cons.mp he with h | h
    · subst h; exact hev _
    · have hx := hs.hist e h
      cases e with
      | exc t0 o tp res q =>
        cases q with
        | none => trivial
        | some q =>
          refine ⟨by simp only [crash_npend]; exact hx.1, fun hn => ?_⟩
          have := hx.2 hn
          simp only [crash_pend]
          rw [releaseOwned_out_keep s _ q hxt (by rw [this]; simp)]; exact this
      | dec _ _ _ _ => trivial
      | pair _ _ _ _ _ _ _ => trivial
      | run _ _ _ _ _ => trivial
      | fnPanic _ => trivial
  · intro q hq
    simp only [crash_pend] at hq ⊢
    by_cases hm : q ∈ owned (s.thr t)
    · exact (releaseOwned_owned_closed s _ q hm hxt).2
    · rw [releaseOwned_pend_other s _ q hm] at hq ⊢
      exact hs.doneOut q hq

theorem XInv.init : XInv State.init := by
  refine ⟨?_, ?_, ?_, ?_, ?_, ?_, ?_⟩
  · intro t; simp [State.init, owned]
  · intro t1 t2 p h; simp [State.init, owned] at h
  · intro t p h; simp [State.init, owned] at h
  · intro k p h; simp [State.init] at h
  · intro t f h; simp [State.init] at h
  · intro e h; simp [State.init] at h
  · intro p h; simp [State.init] at h

end PdfVerif.CONC

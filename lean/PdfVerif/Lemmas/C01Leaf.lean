import PdfVerif.Model.Scan
/-!
C01/C05 helper lemmas about the leaf readers of the scanner model, for ALL inputs:
how much input they consume, the size of what they return, and that they never report the
model's out-of-fuel error.
-/
namespace PdfVerif.C01L
open PdfVerif

/-! ### consumption -/

theorem skip_len (inp : Bytes) :
    (skipWS inp).1.length ≤ inp.length ∧ (skipComment inp).1.length ≤ inp.length := by
  induction inp with
  | nil => simp [skipWS, skipComment]
  | cons c cs ih =>
    constructor
    · simp only [skipWS]
      split
      · have := ih.2; simp; omega
      · split
        · have := ih.1; simp; omega
        · simp
    · simp only [skipComment]
      split
      · have := ih.1; simp; omega
      · have := ih.2; simp; omega

theorem skipWS_len (inp : Bytes) : (skipWS inp).1.length ≤ inp.length := (skip_len inp).1

theorem skipWS_len' {inp r : Bytes} {b : Bool} (h : skipWS inp = (r, b)) : r.length ≤ inp.length := by
  have := skipWS_len inp; rw [h] at this; exact this

theorem consRes_ok_inv {x : Nat} {res : Except Err (Bytes × Bytes)} {s r : Bytes}
    (h : consRes x res = .ok (s, r)) : ∃ s', res = .ok (s', r) ∧ s = x :: s' := by
  cases res with
  | error e => simp at h
  | ok p => obtain ⟨s', r'⟩ := p; simp at h; exact ⟨s', by rw [h.2], h.1.symm⟩

theorem readNameBody_spec : ∀ (f len : Nat) (inp n r : Bytes), readNameBody f len inp = .ok (n, r) →
    r.length ≤ inp.length ∧ (len ≤ Gen.scanner_maxNameBytes → len + n.length ≤ Gen.scanner_maxNameBytes) := by
  intro f
  induction f with
  | zero => intro len inp n r h; simp [readNameBody] at h; obtain ⟨rfl, rfl⟩ := h; simp
  | succ f ih =>
    intro len inp n r h
    cases inp with
    | nil => simp [readNameBody] at h; obtain ⟨rfl, rfl⟩ := h; simp
    | cons c rest =>
      rw [readNameBody.eq_def] at h
      simp only at h
      split at h
      · simp at h; obtain ⟨rfl, rfl⟩ := h; simp
      · split at h
        · simp at h
        · rename_i hlen
          have step : ∀ (x : Nat) (rest' : Bytes), rest'.length ≤ rest.length →
              consRes x (readNameBody f (len + 1) rest') = .ok (n, r) →
              r.length ≤ (c :: rest).length ∧
                (len ≤ Gen.scanner_maxNameBytes → len + n.length ≤ Gen.scanner_maxNameBytes) := by
            intro x rest' hr hc
            obtain ⟨s', h1, rfl⟩ := consRes_ok_inv hc
            have := ih (len + 1) rest' s' r h1
            refine ⟨by simp; omega, fun _ => ?_⟩
            have := this.2 (by omega)
            simp; omega
          split at h
          · split at h
            · rename_i hh l rest'
              split at h
              · exact step _ rest' (by simp; omega) h
              · exact step _ _ (Nat.le_refl _) h
            · exact step _ _ (Nat.le_refl _) h
          · exact step _ _ (Nat.le_refl _) h

theorem readName_spec (inp n r : Bytes) (h : readName inp = .ok (n, r)) :
    r.length < inp.length ∧ n.length ≤ Gen.scanner_maxNameBytes := by
  unfold readName at h
  split at h
  · rename_i rest
    have := readNameBody_spec _ 0 rest n r h
    exact ⟨by simp; omega, by have := this.2 (by omega); omega⟩
  · simp at h

theorem readName_err (inp : Bytes) (e : Err) (h : readName inp = .error e) : e = .malformed := by
  have key : ∀ (f len : Nat) (inp : Bytes) (e : Err), readNameBody f len inp = .error e → e = .malformed := by
    intro f
    induction f with
    | zero => intro len inp e h; simp [readNameBody] at h
    | succ f ih =>
      intro len inp e h
      cases inp with
      | nil => simp [readNameBody] at h
      | cons c rest =>
        rw [readNameBody.eq_def] at h
        simp only at h
        have step : ∀ (x len' : Nat) (rest' : Bytes),
            consRes x (readNameBody f len' rest') = .error e → e = .malformed := by
          intro x len' rest' hc
          cases hr : readNameBody f len' rest' with
          | error e' => rw [hr] at hc; simp at hc; exact hc ▸ ih _ _ _ hr
          | ok p => rw [hr] at hc; obtain ⟨a, b⟩ := p; simp at hc
        split at h
        · simp at h
        · split at h
          · simp at h; exact h.symm
          · split at h
            · split at h
              · split at h
                · exact step _ _ _ h
                · exact step _ _ _ h
              · exact step _ _ _ h
            · exact step _ _ _ h
  unfold readName at h
  split at h
  · exact key _ _ _ _ h
  · simp at h; exact h.symm

theorem scanNumTok_append (a : Bool) : ∀ (inp : Bytes) (h f : Bool),
    (scanNumTok a h f inp).1 ++ (scanNumTok a h f inp).2 = inp := by
  intro inp
  induction inp with
  | nil => intro h f; simp [scanNumTok]
  | cons c cs ih =>
    intro h f
    simp only [scanNumTok]
    split
    · simp [ih]
    · split
      · simp [ih]
      · split
        · simp [ih]
        · simp

theorem scanNumTok_len (a h f : Bool) (inp : Bytes) :
    (scanNumTok a h f inp).1.length + (scanNumTok a h f inp).2.length = inp.length := by
  have := congrArg List.length (scanNumTok_append a inp h f)
  simpa using this

theorem parseInt64_some (tok : Bytes) (i : Int) (h : parseInt64 tok = some i) :
    tok ≠ [] ∧ -9223372036854775808 ≤ i ∧ i ≤ 9223372036854775807 := by
  unfold parseInt64 at h
  split at h
  rename_i neg ds heq
  simp at h
  obtain ⟨⟨h0, _⟩, h1, h2⟩ := h
  refine ⟨?_, by omega, by omega⟩
  intro ht; subst ht
  simp at heq
  exact h0 heq.2

theorem readNumber_spec (inp : Bytes) (o : Obj) (r : Bytes) (h : readNumber inp = .ok (o, r)) :
    r.length < inp.length ∧
    ((∃ i, o = .int i ∧ -9223372036854775808 ≤ i ∧ i ≤ 9223372036854775807) ∨
     (∃ t, o = .real t ∧ t.length ≤ Gen.scanner_maxNameBytes)) := by
  unfold readNumber at h
  have hl := scanNumTok_len true false true inp
  generalize scanNumTok true false true inp = p at h hl
  obtain ⟨tok, rest⟩ := p
  simp only at h hl
  split at h
  · simp at h
  · rename_i hcap
    cases hi : (if tok.contains 46 then none else parseInt64 tok) with
    | some i =>
      rw [hi] at h
      simp at h
      obtain ⟨rfl, rfl⟩ := h
      have hp : parseInt64 tok = some i := by
        split at hi
        · simp at hi
        · exact hi
      obtain ⟨hne, h1, h2⟩ := parseInt64_some tok i hp
      have : 0 < tok.length := List.length_pos_iff.mpr hne
      exact ⟨by omega, .inl ⟨i, rfl, h1, h2⟩⟩
    | none =>
      rw [hi] at h
      simp only at h
      split at h
      · rename_i hd
        simp at h
        obtain ⟨rfl, rfl⟩ := h
        have hne : tok ≠ [] := by intro h0; subst h0; simp at hd
        have : 0 < tok.length := List.length_pos_iff.mpr hne
        exact ⟨by omega, .inr ⟨tok, rfl, by omega⟩⟩
      · simp at h

theorem readNumber_err (inp : Bytes) (e : Err) (h : readNumber inp = .error e) : e = .malformed := by
  unfold readNumber at h
  generalize scanNumTok true false true inp = p at h
  obtain ⟨tok, rest⟩ := p
  simp only at h
  split at h
  · simp at h; exact h.symm
  · split at h
    · simp at h
    · split at h
      · simp at h
      · simp at h; exact h.symm

theorem readInteger_spec (inp : Bytes) (b : Int) (r : Bytes) (h : readInteger inp = .ok (b, r)) :
    r.length ≤ inp.length := by
  unfold readInteger at h
  have h1 := skipWS_len inp
  generalize skipWS inp = q at h h1
  obtain ⟨inp', fl⟩ := q
  simp only at h h1
  have hl := scanNumTok_len false false true inp'
  generalize scanNumTok false false true inp' = p at h hl
  obtain ⟨tok, rest⟩ := p
  simp only at h hl
  split at h
  · simp at h
  · split at h
    · simp at h; obtain ⟨_, rfl⟩ := h; omega
    · simp at h

theorem readInteger_err (inp : Bytes) (e : Err) (h : readInteger inp = .error e) : e = .malformed := by
  unfold readInteger at h
  generalize skipWS inp = q at h
  obtain ⟨inp', fl⟩ := q
  simp only at h
  generalize scanNumTok false false true inp' = p at h
  obtain ⟨tok, rest⟩ := p
  simp only at h
  split at h
  · simp at h; exact h.symm
  · split at h
    · simp at h
    · simp at h; exact h.symm

/-! ### strings -/

theorem readOctTail_len : ∀ (k o : Nat) (inp : Bytes), (readOctTail o k inp).2.length ≤ inp.length := by
  intro k
  induction k with
  | zero => intro o inp; simp [readOctTail]
  | succ k ih =>
    intro o inp
    cases inp with
    | nil => simp [readOctTail]
    | cons c cs =>
      simp only [readOctTail]
      split
      · have := ih ((o * 8 + (c - 48)) % 256) cs; simp; omega
      · simp

theorem consRes_err_inv {x : Nat} {res : Except Err (Bytes × Bytes)} {e : Err}
    (h : consRes x res = .error e) : res = .error e := by
  cases res with
  | error e' => simpa using h
  | ok p => obtain ⟨a, b⟩ := p; simp at h

/-- `ReadString`: consumption and the size of the result -/
theorem readStringBody_spec : ∀ (f lvl : Nat) (ig : Bool) (len : Nat) (inp s r : Bytes),
    readStringBody f lvl ig len inp = .ok (s, r) →
    r.length < inp.length ∧ len + s.length ≤ Gen.scanner_maxStringBytes := by
  intro f
  induction f with
  | zero => intro lvl ig len inp s r h; simp [readStringBody] at h
  | succ f ih =>
    intro lvl ig len inp s r h
    unfold readStringBody at h
    by_cases hlen : len > Gen.scanner_maxStringBytes
    · rw [if_pos hlen] at h; simp at h
    · rw [if_neg hlen] at h
      have hlen' : len ≤ Gen.scanner_maxStringBytes := by omega
      -- a step that appends one byte and continues on a shorter input
      have app : ∀ (x lvl' : Nat) (ig' : Bool) (inp' : Bytes), inp'.length < inp.length →
          consRes x (readStringBody f lvl' ig' (len + 1) inp') = .ok (s, r) →
          r.length < inp.length ∧ len + s.length ≤ Gen.scanner_maxStringBytes := by
        intro x lvl' ig' inp' hl hc
        obtain ⟨s', h1, rfl⟩ := consRes_ok_inv hc
        have := ih lvl' ig' (len + 1) inp' s' r h1
        exact ⟨by omega, by simp; omega⟩
      -- a step that appends nothing
      have skip : ∀ (lvl' : Nat) (ig' : Bool) (inp' : Bytes), inp'.length < inp.length →
          readStringBody f lvl' ig' len inp' = .ok (s, r) →
          r.length < inp.length ∧ len + s.length ≤ Gen.scanner_maxStringBytes := by
        intro lvl' ig' inp' hl hc
        have := ih lvl' ig' len inp' s r hc
        exact ⟨by omega, this.2⟩
      cases inp with
      | nil => simp at h
      | cons b rest =>
        dsimp only at h
        by_cases c1 : (ig && b == 10) = true
        · rw [if_pos c1] at h; exact skip _ _ rest (by simp) h
        rw [if_neg c1] at h
        by_cases c2 : (b == 40) = true
        · rw [if_pos c2] at h; exact app _ _ _ rest (by simp) h
        rw [if_neg c2] at h
        by_cases c3 : (b == 41) = true
        · rw [if_pos c3] at h
          by_cases c4 : (lvl == 1) = true
          · rw [if_pos c4] at h; simp at h; obtain ⟨rfl, rfl⟩ := h; exact ⟨by simp, by simpa using hlen'⟩
          · rw [if_neg c4] at h; exact app _ _ _ rest (by simp) h
        rw [if_neg c3] at h
        by_cases c5 : (b == 92) = true
        · rw [if_pos c5] at h
          cases rest with
          | nil => simp at h
          | cons esc rest' =>
            dsimp only at h
            by_cases e1 : (esc == 110) = true
            · rw [if_pos e1] at h; exact app _ _ _ rest' (by simp; omega) h
            rw [if_neg e1] at h
            by_cases e2 : (esc == 114) = true
            · rw [if_pos e2] at h; exact app _ _ _ rest' (by simp; omega) h
            rw [if_neg e2] at h
            by_cases e3 : (esc == 116) = true
            · rw [if_pos e3] at h; exact app _ _ _ rest' (by simp; omega) h
            rw [if_neg e3] at h
            by_cases e4 : (esc == 98) = true
            · rw [if_pos e4] at h; exact app _ _ _ rest' (by simp; omega) h
            rw [if_neg e4] at h
            by_cases e5 : (esc == 102) = true
            · rw [if_pos e5] at h; exact app _ _ _ rest' (by simp; omega) h
            rw [if_neg e5] at h
            by_cases e6 : (esc == 10) = true
            · rw [if_pos e6] at h; exact skip _ _ rest' (by simp; omega) h
            rw [if_neg e6] at h
            by_cases e7 : (esc == 13) = true
            · rw [if_pos e7] at h; exact skip _ _ rest' (by simp; omega) h
            rw [if_neg e7] at h
            by_cases e8 : isOct esc = true
            · rw [if_pos e8] at h
              have := readOctTail_len 2 (esc - 48) rest'
              exact app _ _ _ _ (by simp; omega) h
            · rw [if_neg e8] at h; exact app _ _ _ rest' (by simp; omega) h
        rw [if_neg c5] at h
        by_cases c6 : (b == 13) = true
        · rw [if_pos c6] at h; exact app _ _ _ rest (by simp) h
        · rw [if_neg c6] at h; exact app _ _ _ rest (by simp) h
/-- `ReadString` with fuel above the input length never reports the out-of-fuel error -/
theorem readStringBody_noOther : ∀ (f lvl : Nat) (ig : Bool) (len : Nat) (inp : Bytes) (e : Err),
    readStringBody f lvl ig len inp = .error e → inp.length < f → e ≠ .other := by
  intro f
  induction f with
  | zero => intro lvl ig len inp e h hf; omega
  | succ f ih =>
    intro lvl ig len inp e h hf
    unfold readStringBody at h
    by_cases hlen : len > Gen.scanner_maxStringBytes
    · rw [if_pos hlen] at h; simp at h; subst h; simp
    · rw [if_neg hlen] at h
      have app : ∀ (x lvl' : Nat) (ig' : Bool) (len' : Nat) (inp' : Bytes), inp'.length < inp.length →
          consRes x (readStringBody f lvl' ig' len' inp') = .error e → e ≠ .other := by
        intro x lvl' ig' len' inp' hl hc
        exact ih lvl' ig' len' inp' e (consRes_err_inv hc) (by omega)
      have skip : ∀ (lvl' : Nat) (ig' : Bool) (inp' : Bytes), inp'.length < inp.length →
          readStringBody f lvl' ig' len inp' = .error e → e ≠ .other := by
        intro lvl' ig' inp' hl hc
        exact ih lvl' ig' len inp' e hc (by omega)
      cases inp with
      | nil => simp at h; subst h; simp
      | cons b rest =>
        dsimp only at h
        by_cases c1 : (ig && b == 10) = true
        · rw [if_pos c1] at h; exact skip _ _ rest (by simp) h
        rw [if_neg c1] at h
        by_cases c2 : (b == 40) = true
        · rw [if_pos c2] at h; exact app _ _ _ _ rest (by simp) h
        rw [if_neg c2] at h
        by_cases c3 : (b == 41) = true
        · rw [if_pos c3] at h
          by_cases c4 : (lvl == 1) = true
          · rw [if_pos c4] at h; simp at h
          · rw [if_neg c4] at h; exact app _ _ _ _ rest (by simp) h
        rw [if_neg c3] at h
        by_cases c5 : (b == 92) = true
        · rw [if_pos c5] at h
          cases rest with
          | nil => simp at h; subst h; simp
          | cons esc rest' =>
            dsimp only at h
            by_cases e1 : (esc == 110) = true
            · rw [if_pos e1] at h; exact app _ _ _ _ rest' (by simp; omega) h
            rw [if_neg e1] at h
            by_cases e2 : (esc == 114) = true
            · rw [if_pos e2] at h; exact app _ _ _ _ rest' (by simp; omega) h
            rw [if_neg e2] at h
            by_cases e3 : (esc == 116) = true
            · rw [if_pos e3] at h; exact app _ _ _ _ rest' (by simp; omega) h
            rw [if_neg e3] at h
            by_cases e4 : (esc == 98) = true
            · rw [if_pos e4] at h; exact app _ _ _ _ rest' (by simp; omega) h
            rw [if_neg e4] at h
            by_cases e5 : (esc == 102) = true
            · rw [if_pos e5] at h; exact app _ _ _ _ rest' (by simp; omega) h
            rw [if_neg e5] at h
            by_cases e6 : (esc == 10) = true
            · rw [if_pos e6] at h; exact skip _ _ rest' (by simp; omega) h
            rw [if_neg e6] at h
            by_cases e7 : (esc == 13) = true
            · rw [if_pos e7] at h; exact skip _ _ rest' (by simp; omega) h
            rw [if_neg e7] at h
            by_cases e8 : isOct esc = true
            · rw [if_pos e8] at h
              have := readOctTail_len 2 (esc - 48) rest'
              exact app _ _ _ _ _ (by simp; omega) h
            · rw [if_neg e8] at h; exact app _ _ _ _ rest' (by simp; omega) h
        rw [if_neg c5] at h
        by_cases c6 : (b == 13) = true
        · rw [if_pos c6] at h; exact app _ _ _ _ rest (by simp) h
        · rw [if_neg c6] at h; exact app _ _ _ _ rest (by simp) h

/-- `ReadHexString`: consumption, size of the result (the cap applies to the final unpaired digit
    as well), and its error classes -/
theorem readHexBody_spec : ∀ (inp : Bytes) (p : Option Nat) (len : Nat) (s r : Bytes),
    readHexBody p len inp = .ok (s, r) →
    r.length < inp.length ∧ (len ≤ Gen.scanner_maxStringBytes → len + s.length ≤ Gen.scanner_maxStringBytes) := by
  intro inp
  induction inp with
  | nil => intro p len s r h; simp [readHexBody] at h
  | cons c cs ih =>
    intro p len s r h
    unfold readHexBody at h
    by_cases c1 : (c == 62) = true
    · rw [if_pos c1] at h
      cases p with
      | none => simp at h; obtain ⟨rfl, rfl⟩ := h; exact ⟨by simp, fun _ => by simp; omega⟩
      | some hh =>
        dsimp only at h
        split at h
        · simp at h
        · simp at h; obtain ⟨rfl, rfl⟩ := h; exact ⟨by simp, fun _ => by simp; omega⟩
    · rw [if_neg c1] at h
      cases hv : hexVal c with
      | none =>
        rw [hv] at h; dsimp only at h
        have := ih p len s r h
        exact ⟨by simp; omega, this.2⟩
      | some d =>
        rw [hv] at h; dsimp only at h
        cases p with
        | none =>
          dsimp only at h
          have := ih (some d) len s r h
          exact ⟨by simp; omega, this.2⟩
        | some hh =>
          dsimp only at h
          by_cases c2 : len ≥ Gen.scanner_maxStringBytes
          · rw [if_pos c2] at h; simp at h
          · rw [if_neg c2] at h
            obtain ⟨s', h1, rfl⟩ := consRes_ok_inv h
            have := ih none (len + 1) s' r h1
            refine ⟨by simp; omega, fun _ => ?_⟩
            have := this.2 (by omega)
            simp; omega

theorem readHexBody_err : ∀ (inp : Bytes) (p : Option Nat) (len : Nat) (e : Err),
    readHexBody p len inp = .error e → e ≠ .other := by
  intro inp
  induction inp with
  | nil => intro p len e h; simp [readHexBody] at h; subst h; simp
  | cons c cs ih =>
    intro p len e h
    unfold readHexBody at h
    by_cases c1 : (c == 62) = true
    · rw [if_pos c1] at h
      cases p with
      | none => simp at h
      | some hh =>
        dsimp only at h
        split at h
        · simp at h; subst h; simp
        · simp at h
    · rw [if_neg c1] at h
      cases hv : hexVal c with
      | none => rw [hv] at h; dsimp only at h; exact ih p len e h
      | some d =>
        rw [hv] at h; dsimp only at h
        cases p with
        | none => dsimp only at h; exact ih (some d) len e h
        | some hh =>
          dsimp only at h
          by_cases c2 : len ≥ Gen.scanner_maxStringBytes
          · rw [if_pos c2] at h; simp at h; subst h; simp
          · rw [if_neg c2] at h; exact ih none (len + 1) e (consRes_err_inv h)

theorem readString_spec (inp s r : Bytes) (h : readString inp = .ok (s, r)) :
    r.length < inp.length ∧ s.length ≤ Gen.scanner_maxStringBytes := by
  have := readStringBody_spec _ _ _ _ _ _ _ h
  exact ⟨this.1, by omega⟩

theorem readString_err (inp : Bytes) (e : Err) (h : readString inp = .error e) : e ≠ .other :=
  readStringBody_noOther _ _ _ _ _ _ h (by omega)

theorem readHexString_spec (inp s r : Bytes) (h : readHexString inp = .ok (s, r)) :
    r.length < inp.length ∧ s.length ≤ Gen.scanner_maxStringBytes := by
  have := readHexBody_spec _ _ _ _ _ h
  exact ⟨this.1, by have := this.2 (by omega); omega⟩

theorem readHexString_err (inp : Bytes) (e : Err) (h : readHexString inp = .error e) : e ≠ .other :=
  readHexBody_err _ _ _ _ h


end PdfVerif.C01L

import PdfVerif.Lemmas.CONCBasic
/-!
Invariant behind `agreement` (C18): the chain invariant of the cache, well-formed stacks, and
"every result ever returned is justified by a cache entry further down the reference chain".
-/
namespace PdfVerif.CONC

/-- `b` is reached from `a` by following references in the file -/
inductive Reach (cfg : Cfg) : Ref → Ref → Prop where
  | refl (r : Ref) : Reach cfg r r
  | step {a b c : Ref} : cfg.get a = .ref b → Reach cfg b c → Reach cfg a c

theorem Reach.trans {cfg : Cfg} {a b c : Ref} (h1 : Reach cfg a b) (h2 : Reach cfg b c) :
    Reach cfg a c := by
  induction h1 with
  | refl => exact h2
  | step h _ ih => exact .step h (ih h2)

theorem Reach.single {cfg : Cfg} {a b : Ref} (h : cfg.get a = .ref b) : Reach cfg a b :=
  .step h (.refl b)

/-- the file is a function: two references reached from one are comparable -/
theorem Reach.linear {cfg : Cfg} {a b c : Ref} (h1 : Reach cfg a b) (h2 : Reach cfg a c) :
    Reach cfg b c ∨ Reach cfg c b := by
  induction h1 with
  | refl => exact .inl h2
  | step h _ ih =>
    cases h2 with
    | refl => exact .inr (.step h ‹_›)
    | step h' r2 =>
      rw [h] at h'
      cases h'
      exact ih r2

/-- consecutive references of the list are linked in the file -/
def IsChain (cfg : Cfg) : List Ref → Prop
  | [] => True
  | [_] => True
  | a :: b :: rest => cfg.get a = .ref b ∧ IsChain cfg (b :: rest)

/-- cached(r) ⇒ cached(target of r), same value -/
def ChainInv (cfg : Cfg) (c : Key → Option Val) : Prop :=
  ∀ r r' tp v, c (r, tp) = some v → cfg.get r = .ref r' → c (r', tp) = some v

theorem ChainInv.reach {cfg : Cfg} {c : Key → Option Val} (hc : ChainInv cfg c) {a b : Ref}
    (h : Reach cfg a b) (tp : Ty) (v : Val) (ha : c (a, tp) = some v) : c (b, tp) = some v := by
  induction h with
  | refl => exact ha
  | step hg _ ih => exact ih (hc _ _ _ _ ha hg)

/-- a successful result for a reference is the value cached somewhere down its chain -/
def Justified (cfg : Cfg) (c : Key → Option Val) (o : Obj) (tp : Ty) (res : Res) : Prop :=
  match o, res with
  | .ref r, .ok v => ∃ r', Reach cfg r r' ∧ c (r', tp) = some v
  | _, _ => True

theorem Justified.mono {cfg : Cfg} {c c' : Key → Option Val} (h : CacheLe c c') {o tp res}
    (hj : Justified cfg c o tp res) : Justified cfg c' o tp res := by
  unfold Justified at *
  split
  · next r v =>
    simp only at hj
    obtain ⟨r', h1, h2⟩ := hj
    exact ⟨r', h1, h _ _ h2⟩
  · trivial

def FrameOK (cfg : Cfg) (s : State) : Frame → Prop
  | .decGet _ refs _ r => IsChain cfg refs ∧ refs.getLast? = some r
  | .decFn _ refs _ => IsChain cfg refs ∧ ∀ l, refs.getLast? = some l → cfg.get l = .direct
  | .exStart k p _ => p < s.npend ∧ (s.pend p).key = k
  | .exRun k p => p < s.npend ∧ (s.pend p).key = k
  | .exWait k p => p < s.npend ∧ (s.pend p).key = k
  | .exPub k p res => p < s.npend ∧ (s.pend p).key = k ∧ Justified cfg s.cache (.ref k.1) k.2 res
  | .exClose k p res => p < s.npend ∧ (s.pend p).key = k ∧ Justified cfg s.cache (.ref k.1) k.2 res
  | .exDone k p res => p < s.npend ∧ (s.pend p).key = k ∧ Justified cfg s.cache (.ref k.1) k.2 res
  | .exFn _ _ => True
  | .dead => True

/-- the frame directly above the owner of an exclusive decode is the `Decode` it called -/
def Above (f : Frame) (rest : List Frame) : Prop :=
  match rest with
  | .exRun k _ :: _ =>
    match f with
    | .decGet tp refs _ _ => tp = k.2 ∧ refs.head? = some k.1
    | .decFn tp refs _ => tp = k.2 ∧ refs.head? = some k.1
    | _ => False
  | _ => True

def StackOK (cfg : Cfg) (s : State) : List Frame → Prop
  | [] => True
  | f :: rest => FrameOK cfg s f ∧ Above f rest ∧ StackOK cfg s rest

def EvOK (cfg : Cfg) (c : Key → Option Val) : Event → Prop
  | .dec _ o tp res => Justified cfg c o tp res
  | .exc _ o tp res _ => Justified cfg c o tp res
  | .pair _ r A B _ _ (some (a', b')) => c (r, A) = some a' ∧ c (r, B) = some b'
  | _ => True

def WipOK (s : State) : Prop := ∀ k p, s.wip k = some p → p < s.npend ∧ (s.pend p).key = k

def PendOK (cfg : Cfg) (s : State) : Prop :=
  ∀ p res, (s.pend p).out = some res →
    Justified cfg s.cache (.ref (s.pend p).key.1) (s.pend p).key.2 res

structure Inv (cfg : Cfg) (s : State) : Prop where
  chain : ChainInv cfg s.cache
  stacks : ∀ t, StackOK cfg s (s.thr t)
  wip : WipOK s
  hist : ∀ e ∈ s.hist, EvOK cfg s.cache e
  pend : PendOK cfg s

/-- `s'` extends `s`: more cache entries, more pendings, keys of the old ones unchanged -/
structure Ext (s s' : State) : Prop where
  cache : CacheLe s.cache s'.cache
  npend : s.npend ≤ s'.npend
  keys : ∀ p, p < s.npend → (s'.pend p).key = (s.pend p).key

theorem Ext.refl (s : State) : Ext s s := ⟨CacheLe.refl _, Nat.le_refl _, fun _ _ => rfl⟩

/-- only the thread-local parts (stacks, history) differ -/
theorem Ext.of_eq {s s' : State} (h1 : s'.cache = s.cache) (h2 : s'.npend = s.npend)
    (h3 : s'.pend = s.pend) : Ext s s' :=
  ⟨by rw [h1]; exact CacheLe.refl _, by rw [h2]; exact Nat.le_refl _, fun _ _ => by rw [h3]⟩

theorem FrameOK.ext {cfg : Cfg} {s s' : State} (h : Ext s s') {f : Frame} (hf : FrameOK cfg s f) :
    FrameOK cfg s' f := by
  cases f with
  | decGet tp refs path r => exact hf
  | decFn tp refs path => exact hf
  | exFn tp path => trivial
  | dead => trivial
  | exStart k p path =>
    obtain ⟨h1, h2⟩ := hf
    exact ⟨Nat.lt_of_lt_of_le h1 h.npend, by rw [h.keys p h1]; exact h2⟩
  | exRun k p =>
    obtain ⟨h1, h2⟩ := hf
    exact ⟨Nat.lt_of_lt_of_le h1 h.npend, by rw [h.keys p h1]; exact h2⟩
  | exWait k p =>
    obtain ⟨h1, h2⟩ := hf
    exact ⟨Nat.lt_of_lt_of_le h1 h.npend, by rw [h.keys p h1]; exact h2⟩
  | exPub k p res =>
    obtain ⟨h1, h2, h3⟩ := hf
    exact ⟨Nat.lt_of_lt_of_le h1 h.npend, by rw [h.keys p h1]; exact h2, h3.mono h.cache⟩
  | exClose k p res =>
    obtain ⟨h1, h2, h3⟩ := hf
    exact ⟨Nat.lt_of_lt_of_le h1 h.npend, by rw [h.keys p h1]; exact h2, h3.mono h.cache⟩
  | exDone k p res =>
    obtain ⟨h1, h2, h3⟩ := hf
    exact ⟨Nat.lt_of_lt_of_le h1 h.npend, by rw [h.keys p h1]; exact h2, h3.mono h.cache⟩

theorem StackOK.ext {cfg : Cfg} {s s' : State} (h : Ext s s') :
    ∀ {stk : List Frame}, StackOK cfg s stk → StackOK cfg s' stk
  | [], _ => trivial
  | _ :: _, ⟨h1, h2, h3⟩ => ⟨h1.ext h, h2, StackOK.ext h h3⟩

theorem EvOK.mono {cfg : Cfg} {c c' : Key → Option Val} (h : CacheLe c c') {e : Event}
    (he : EvOK cfg c e) : EvOK cfg c' e := by
  cases e with
  | dec t o tp res => exact Justified.mono h he
  | exc t o tp res p => exact Justified.mono h he
  | pair t r A B a b res =>
    cases res with
    | none => trivial
    | some ab => obtain ⟨a', b'⟩ := ab; exact ⟨h _ _ he.1, h _ _ he.2⟩
  | run t tp refs path p => trivial
  | fnPanic t => trivial

/-- assemble the invariant of the successor state from its parts -/
theorem Inv.build {cfg : Cfg} {s s' : State} (hi : Inv cfg s) (hext : Ext s s') (t : Tid)
    (stk : List Frame) (evs : List Event)
    (hthr : s'.thr = upd s.thr t stk) (hhist : s'.hist = evs ++ s.hist)
    (hchain : ChainInv cfg s'.cache) (hstk : StackOK cfg s' stk) (hwip : WipOK s')
    (hevs : ∀ e ∈ evs, EvOK cfg s'.cache e) (hpend : PendOK cfg s') : Inv cfg s' := by
  refine ⟨hchain, ?_, hwip, ?_, hpend⟩
  · intro t'
    rw [hthr]
    by_cases e : t' = t
    · subst e; simpa using hstk
    · rw [upd_other _ _ _ _ e]; exact (hi.stacks t').ext hext
  · intro e he
    rw [hhist] at he
    rcases List.mem_append.mp he with h | h
    · exact hevs e h
    · exact (hi.hist e h).mono hext.cache

/-! ### stacks -/

/-- below a frame which is not a `Decode` activation there is no exclusive owner in `exRun` -/
theorem Above.not_exRun {f : Frame} {rest : List Frame} (h : Above f rest)
    (hf : ∀ tp refs path r, f ≠ .decGet tp refs path r) (hf' : ∀ tp refs path, f ≠ .decFn tp refs path) :
    ∀ k p rest', rest ≠ .exRun k p :: rest' := by
  intro k p rest' e
  subst e
  cases f with
  | decGet tp refs path r => exact hf _ _ _ _ rfl
  | decFn tp refs path => exact hf' _ _ _ rfl
  | exFn _ _ => simp [Above] at h
  | exStart _ _ _ => simp [Above] at h
  | exRun _ _ => simp [Above] at h
  | exPub _ _ _ => simp [Above] at h
  | exClose _ _ _ => simp [Above] at h
  | exDone _ _ _ => simp [Above] at h
  | exWait _ _ => simp [Above] at h
  | dead => simp [Above] at h

theorem Above.of_not_exRun {rest : List Frame} (h : ∀ k p rest', rest ≠ .exRun k p :: rest')
    (g : Frame) : Above g rest := by
  unfold Above
  split
  · next k p rest' => exact absurd rfl (h k p rest')
  · trivial

theorem Above.of_nonDec {f : Frame} {rest : List Frame} (h : Above f rest)
    (hf : ∀ tp refs path r, f ≠ .decGet tp refs path r) (hf' : ∀ tp refs path, f ≠ .decFn tp refs path)
    (g : Frame) : Above g rest :=
  Above.of_not_exRun (h.not_exRun hf hf') g

/-- a stack on which a call may start is not headed by an exclusive owner -/
theorem canCall_above {stk : List Frame} (h : canCall stk = true) (g : Frame) : Above g stk := by
  unfold Above
  split
  · simp [canCall] at h
  · trivial

theorem deliverStack_of_above {f : Frame} {rest : List Frame} (h : Above f rest)
    (hf : ∀ tp refs path r, f ≠ .decGet tp refs path r) (hf' : ∀ tp refs path, f ≠ .decFn tp refs path)
    (res : Res) : deliverStack rest res = rest := by
  unfold deliverStack
  split
  · next k p rest' => exact absurd rfl (h.not_exRun hf hf' k p rest')
  · rfl

theorem deliverStack_of_canCall {stk : List Frame} (h : canCall stk = true) (res : Res) :
    deliverStack stk res = stk := by
  unfold deliverStack
  split
  · simp [canCall] at h
  · rfl

/-- the condition under which a `Decode` activation may sit on `rest` -/
def DecOn (rest : List Frame) (tp : Ty) (o : Obj) : Prop :=
  ∀ k p rest', rest = .exRun k p :: rest' → tp = k.2 ∧ o = .ref k.1

/-- returning a justified result keeps the caller's stack well formed -/
theorem StackOK.deliver {cfg : Cfg} {s : State} {rest : List Frame} (h : StackOK cfg s rest)
    {tp : Ty} {o : Obj} (hd : DecOn rest tp o) {res : Res} (hj : Justified cfg s.cache o tp res) :
    StackOK cfg s (deliverStack rest res) := by
  unfold deliverStack
  split
  · next k p rest' =>
    obtain ⟨h1, h2, h3⟩ := h
    obtain ⟨e1, e2⟩ := hd k p rest' rfl
    subst e1 e2
    refine ⟨⟨h1.1, h1.2, hj⟩, ?_, h3⟩
    exact Above.of_nonDec h2 (by intros; simp) (by intros; simp) _
  · exact h

theorem firstObj_append (refs : List Ref) (r : Ref) (o : Obj) :
    firstObj (refs ++ [r]) o = firstObj refs (.ref r) := by
  cases refs <;> simp [firstObj]

theorem isChain_append {cfg : Cfg} : ∀ {refs : List Ref} {r : Ref}, IsChain cfg refs →
    (∀ l, refs.getLast? = some l → cfg.get l = .ref r) → IsChain cfg (refs ++ [r])
  | [], _, _, _ => trivial
  | [a], r, _, h => ⟨h a rfl, trivial⟩
  | a :: b :: rest, r, ⟨h1, h2⟩, h =>
    ⟨h1, isChain_append (refs := b :: rest) h2 (fun l hl => h l (by simpa [List.getLast?_cons_cons] using hl))⟩

/-- from the first reference of a chain one reaches its last -/
theorem isChain_reach {cfg : Cfg} : ∀ {refs : List Ref} {a l : Ref}, IsChain cfg (a :: refs) →
    (a :: refs).getLast? = some l → Reach cfg a l
  | [], a, l, _, h => by simp at h; subst h; exact .refl _
  | b :: rest, a, l, ⟨h1, h2⟩, h =>
    .step h1 (isChain_reach (refs := rest) h2 (by simpa [List.getLast?_cons_cons] using h))

/-- the result of one loop iteration of `Decode`, as far as the invariant is concerned -/
theorem Inv.decLoop {cfg : Cfg} {s : State} (hi : Inv cfg s) (t : Tid) (rest : List Frame)
    (tp : Ty) (refs path : List Ref) (o : Obj)
    (hrest : StackOK cfg s rest) (hd : DecOn rest tp (firstObj refs o))
    (hc : IsChain cfg refs)
    (hl : ∀ l, refs.getLast? = some l →
      cfg.get l = (match o with | .ref r => .ref r | .direct => .direct))
    (_hthr : s.thr t = s.thr t) :
    Inv cfg (CONC.decLoop s t rest tp refs path o) := by
  cases o with
  | direct =>
    have hx : Ext s (CONC.decLoop s t rest tp refs path .direct) := Ext.of_eq rfl rfl rfl
    refine hi.build hx t (.decFn tp refs path :: rest) [.run t tp refs path (ownerOf rest)]
      rfl rfl hi.chain ⟨⟨hc, hl⟩, ?_, hrest.ext hx⟩ hi.wip (by intro e he; simp at he; subst he; trivial) hi.pend
    unfold Above
    split
    · next k p rest' =>
      obtain ⟨e1, e2⟩ := hd k p rest' rfl
      refine ⟨e1, ?_⟩
      cases refs with
      | nil => simp [firstObj] at e2
      | cons a as => simp [firstObj] at e2; simp [e2]
    · trivial
  | ref r =>
    -- where does the chain followed so far start?
    have hreach : ∀ r0, firstObj refs (.ref r) = .ref r0 → Reach cfg r0 r := by
      intro r0 h0
      cases refs with
      | nil => simp [firstObj] at h0; subst h0; exact .refl _
      | cons a as =>
        simp [firstObj] at h0; subst h0
        cases hgl : (a :: as).getLast? with
        | none => simp at hgl
        | some l => exact (isChain_reach hc hgl).trans (Reach.single (hl l hgl))
    have hret : ∀ res, Justified cfg s.cache (firstObj refs (.ref r)) tp res →
        Inv cfg (retDec s t rest (firstObj refs (.ref r)) tp res) := by
      intro res hj
      have hx : Ext s (retDec s t rest (firstObj refs (.ref r)) tp res) := Ext.of_eq rfl rfl rfl
      exact hi.build hx t (deliverStack rest res) [.dec t (firstObj refs (.ref r)) tp res]
        (retDec_thr ..) (by simp) hi.chain ((hrest.deliver hd hj).ext hx) hi.wip
        (by intro e he; simp at he; subst he; exact hj) hi.pend
    simp only [CONC.decLoop]
    cases hcache : s.cache (r, tp) with
    | some v =>
      refine hret _ ?_
      unfold Justified
      split
      · next r0 v' h1 h2 =>
        cases h2
        exact ⟨r, hreach r0 h1, hcache⟩
      · trivial
    | none =>
      simp only
      split
      · exact hret _ (by unfold Justified; split <;> simp_all)
      · split
        · exact hret _ (by unfold Justified; split <;> simp_all)
        · have hx : Ext s { s with thr := upd s.thr t (.decGet tp (refs ++ [r]) (r :: path) r :: rest) } :=
            Ext.of_eq rfl rfl rfl
          refine hi.build hx t (.decGet tp (refs ++ [r]) (r :: path) r :: rest) []
            rfl rfl hi.chain ⟨⟨isChain_append hc hl, by simp⟩, ?_, hrest.ext hx⟩ hi.wip (by simp) hi.pend
          unfold Above
          split
          · next k p rest' =>
            obtain ⟨e1, e2⟩ := hd k p rest' rfl
            refine ⟨e1, ?_⟩
            cases refs with
            | nil => simp [firstObj] at e2; simp [e2]
            | cons a as => simp [firstObj] at e2; simp [e2]
          · trivial

/-! ### cacheStoreOrLoad keeps the chain invariant -/

theorem storeMissing_apply (tp : Ty) (w : Val) : ∀ (refs : List Ref) (c : Key → Option Val) (k : Key),
    storeMissing c tp w refs k =
      if k.2 = tp ∧ k.1 ∈ refs ∧ c k = none then some w else c k := by
  intro refs
  induction refs with
  | nil => intro c k; simp [storeMissing]
  | cons r rs ih =>
    intro c k
    have hne : k ≠ (r, tp) → ¬ (k.2 = tp ∧ k.1 = r) := by
      intro hk ⟨h1, h2⟩; apply hk; cases k; simp_all
    cases hx : c (r, tp) with
    | some x =>
      simp only [storeMissing, hx]
      rw [ih c k]
      by_cases hk : k = (r, tp)
      · subst hk; simp [hx]
      · by_cases h2 : k.2 = tp
        · have h1 : k.1 ≠ r := fun h => hne hk ⟨h2, h⟩
          simp [h2, h1]
        · simp [h2]
    | none =>
      simp only [storeMissing, hx]
      rw [ih _ k]
      by_cases hk : k = (r, tp)
      · subst hk; simp [hx]
      · rw [upd_other _ _ _ _ hk]
        by_cases h2 : k.2 = tp
        · have h1 : k.1 ≠ r := fun h => hne hk ⟨h2, h⟩
          simp [h2, h1]
        · simp [h2]


theorem firstCached_none {c : Key → Option Val} {tp : Ty} : ∀ {refs : List Ref},
    firstCached c tp refs = none → ∀ r ∈ refs, c (r, tp) = none
  | [], _, r, hr => by simp at hr
  | a :: rest, h, r, hr => by
    unfold firstCached at h
    cases ha : c (a, tp) with
    | some x => simp [ha] at h
    | none =>
      simp [ha] at h
      rcases List.mem_cons.mp hr with e | e
      · subst e; exact ha
      · exact firstCached_none h r e

theorem chain_tail_cached {cfg : Cfg} {c : Key → Option Val} (hc : ChainInv cfg c) {tp : Ty} {w : Val} :
    ∀ {rest : List Ref} {a : Ref}, IsChain cfg (a :: rest) → c (a, tp) = some w →
      ∀ r ∈ rest, c (r, tp) = some w
  | [], _, _, _, r, hr => by simp at hr
  | b :: rest, a, ⟨h1, h2⟩, ha, r, hr => by
    have hb : c (b, tp) = some w := hc _ _ _ _ ha h1
    rcases List.mem_cons.mp hr with e | e
    · subst e; exact hb
    · exact chain_tail_cached hc h2 hb r e

theorem firstCached_some {cfg : Cfg} {c : Key → Option Val} (hc : ChainInv cfg c) {tp : Ty} {w : Val} :
    ∀ {refs : List Ref}, IsChain cfg refs → firstCached c tp refs = some w →
      ∀ r ∈ refs, c (r, tp) = some w ∨ c (r, tp) = none
  | [], _, _, r, hr => by simp at hr
  | a :: rest, hch, h, r, hr => by
    unfold firstCached at h
    cases ha : c (a, tp) with
    | some x =>
      simp [ha] at h
      subst h
      rcases List.mem_cons.mp hr with e | e
      · subst e; exact .inl ha
      · exact .inl (chain_tail_cached hc hch ha r e)
    | none =>
      simp [ha] at h
      rcases List.mem_cons.mp hr with e | e
      · subst e; exact .inr ha
      · have hch' : IsChain cfg rest := by
          cases rest with
          | nil => trivial
          | cons b rest' => exact hch.2
        exact firstCached_some hc hch' h r e

/-- inside a chain which ends in a direct object, the target of every member is a member -/
theorem chain_succ_mem {cfg : Cfg} : ∀ {refs : List Ref}, IsChain cfg refs →
    (∀ l, refs.getLast? = some l → cfg.get l = .direct) →
    ∀ r r', r ∈ refs → cfg.get r = .ref r' → r' ∈ refs
  | [], _, _, r, _, hr, _ => by simp at hr
  | [a], _, hl, r, r', hr, hg => by
    simp at hr; subst hr
    have := hl r rfl
    rw [this] at hg; cases hg
  | a :: b :: rest, ⟨h1, h2⟩, hl, r, r', hr, hg => by
    rcases List.mem_cons.mp hr with e | e
    · subst e; rw [h1] at hg; cases hg; simp
    · have := chain_succ_mem (refs := b :: rest) h2
        (fun l hl' => hl l (by simpa [List.getLast?_cons_cons] using hl')) r r' e hg
      exact List.mem_cons_of_mem _ this

theorem storeMissing_chain {cfg : Cfg} {c : Key → Option Val} (hc : ChainInv cfg c) {tp : Ty}
    {w : Val} {refs : List Ref} (hch : IsChain cfg refs)
    (hl : ∀ l, refs.getLast? = some l → cfg.get l = .direct)
    (hq : ∀ r ∈ refs, c (r, tp) = some w ∨ c (r, tp) = none) :
    ChainInv cfg (storeMissing c tp w refs) ∧ ∀ r ∈ refs, storeMissing c tp w refs (r, tp) = some w := by
  have h2 : ∀ r ∈ refs, storeMissing c tp w refs (r, tp) = some w := by
    intro r hr
    rw [storeMissing_apply]
    rcases hq r hr with h | h
    · simp [h]
    · simp [h, hr]
  refine ⟨?_, h2⟩
  intro r r' tp' v' hv hg
  rw [storeMissing_apply] at hv
  split at hv
  · next hcond =>
    obtain ⟨e1, e2, _⟩ := hcond
    simp only at e1 e2
    cases hv
    subst e1
    exact h2 r' (chain_succ_mem hch hl r r' e2 hg)
  · exact storeMissing_le tp w refs c _ _ (hc _ _ _ _ hv hg)

/-- `cacheStoreOrLoad` (after the fix) on a followed chain: the chain invariant is kept and
the whole chain ends up with the returned value -/
theorem storeOrLoad_chain {cfg : Cfg} {c : Key → Option Val} (hc : ChainInv cfg c) (tp : Ty)
    (v : Val) {refs : List Ref} (hch : IsChain cfg refs)
    (hl : ∀ l, refs.getLast? = some l → cfg.get l = .direct) :
    ChainInv cfg (storeOrLoad true c tp refs v).1 ∧
      ∀ r ∈ refs, (storeOrLoad true c tp refs v).1 (r, tp) = some (storeOrLoad true c tp refs v).2 := by
  unfold storeOrLoad
  simp only [if_true]
  cases hf : firstCached c tp refs with
  | some w => exact storeMissing_chain hc hch hl (firstCached_some hc hch hf)
  | none => exact storeMissing_chain hc hch hl (fun r hr => .inr (firstCached_none hf r hr))

end PdfVerif.CONC

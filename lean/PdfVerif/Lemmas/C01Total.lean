import PdfVerif.Lemmas.C01Step
/-!
C01/C05 helper lemmas, for ALL inputs: every successful read consumes input (`cons_all`), and with
fuel `3·|input| + c` none of the five readers reports the model's out-of-fuel error (`tot_all`).
-/
namespace PdfVerif.C01L
open PdfVerif

theorem map_ok_inv {α β : Type} {x : Except Err (α × Bytes)} {g : α × Bytes → β × Bytes} {b : β} {r : Bytes}
    (h : x.map g = .ok (b, r)) : ∃ p, x = .ok p ∧ g p = (b, r) := by
  cases x with
  | error e => simp [Except.map] at h
  | ok p => exact ⟨p, rfl, by simpa [Except.map] using h⟩

theorem map_err_inv {α β : Type} {x : Except Err α} {g : α → β} {e : Err}
    (h : x.map g = .error e) : x = .error e := by
  cases x with
  | error e' => simpa [Except.map] using h
  | ok p => simp [Except.map] at h

theorem mapError_ok_inv {α : Type} {x : Except Err α} {g : Err → Err} {a : α}
    (h : x.mapError g = .ok a) : x = .ok a := by
  cases x with
  | error e => simp [Except.mapError] at h
  | ok p => simpa [Except.mapError] using h

theorem mapError_other_inv {α : Type} {x : Except Err α}
    (h : x.mapError Err.inComposite = .error .other) : x = .error .other := by
  cases x with
  | error e => cases e <;> simp [Except.mapError, Err.inComposite] at h ⊢
  | ok p => simp [Except.mapError] at h

theorem dictResult_ok_inv {x : Except Err (List (Bytes × Obj) × Bytes)} {o : Obj} {r : Bytes}
    (h : dictResult x = .ok (o, r)) : ∃ dd r0, x = .ok (dd, r0) ∧ o = .dict dd ∧ r = (skipWS r0).1 := by
  unfold dictResult at h
  split at h
  · simp at h
  · rename_i dd r0
    split at h
    · simp at h
    · simp at h; exact ⟨dd, r0, rfl, h.1.symm, h.2.symm⟩

theorem dictResult_other_inv {x : Except Err (List (Bytes × Obj) × Bytes)}
    (h : dictResult x = .error .other) : x = .error .other := by
  unfold dictResult at h
  split at h
  · simpa using h
  · split at h <;> simp at h

/-! ### consumption -/

def ConsAt (f : Nat) : Prop :=
  (∀ d inp o r, readObject f d inp = .ok (o, r) → r.length < inp.length) ∧
  (∀ d inp xs r, readArray f d inp = .ok (xs, r) → r.length < inp.length) ∧
  (∀ d acc ints inp xs r, readArrayLoop f d acc ints inp = .ok (xs, r) → r.length < inp.length) ∧
  (∀ d inp kv r, readDict f d inp = .ok (kv, r) → r.length < inp.length) ∧
  (∀ d acc inp kv r, readDictLoop f d acc inp = .ok (kv, r) → r.length < inp.length)

theorem cons_zero : ConsAt 0 := by
  refine ⟨?_, ?_, ?_, ?_, ?_⟩ <;> intros <;> rename_i h <;>
    simp [readObject, readArray, readArrayLoop, readDict, readDictLoop] at h

theorem cons_succ (f : Nat) (ih : ConsAt f) : ConsAt (f + 1) := by
  obtain ⟨ihO, ihA, ihL, ihD, ihDL⟩ := ih
  refine ⟨?_, ?_, ?_, ?_, ?_⟩
  · intro d inp o r h
    rcases readObject_cases f d inp with e | ⟨k, o', hk, hkl, _, e⟩ | e | e | e | ⟨c, rest, rfl, e⟩ |
        ⟨c, rest, rfl, e⟩ | ⟨c, rest, rfl, e⟩
    · rw [e] at h; simp at h
    · rw [e] at h; simp at h; rw [← h.2]; simp; omega
    · rw [e] at h
      obtain ⟨⟨n, r'⟩, h1, h2⟩ := map_ok_inv h
      simp at h2; rw [← h2.2]; exact (readName_spec _ _ _ h1).1
    · rw [e] at h; exact (readNumber_spec _ _ _ h).1
    · rw [e] at h
      obtain ⟨dd, r0, h1, _, rfl⟩ := dictResult_ok_inv h
      have := ihD _ _ _ _ h1
      have := skipWS_len r0
      omega
    · rw [e] at h
      obtain ⟨⟨s, r'⟩, h1, h2⟩ := map_ok_inv h
      simp at h2; rw [← h2.2]
      have := (readString_spec _ _ _ h1).1
      simp; omega
    · rw [e] at h
      obtain ⟨⟨s, r'⟩, h1, h2⟩ := map_ok_inv h
      simp at h2; rw [← h2.2]
      have := (readHexString_spec _ _ _ h1).1
      simp; omega
    · rw [e] at h
      obtain ⟨⟨xs, r'⟩, h1, h2⟩ := map_ok_inv h
      simp at h2; rw [← h2.2]
      have := ihA _ _ _ _ h1
      simp; omega
  · intro d inp xs r h
    rw [readArray_eq] at h
    split at h
    · simp at h
    · exact ihL _ _ _ _ _ _ (mapError_ok_inv h)
  · intro d acc ints inp xs r h
    rcases readArrayLoop_cases f d acc ints inp with e | ⟨rest, hs, e⟩ | ⟨rest, hs, _, hR⟩ | ⟨c, rest, hs, e⟩
    · rw [e] at h; simp at h
    · rw [e] at h
      have := skipWS_len' hs
      split at h
      · simp at h
      · simp at h; rw [← h.2]; simp at this; omega
    · have := skipWS_len' hs
      rcases hR with ⟨b, a, acc', _, e⟩ | ⟨_, e⟩
      · rw [e] at h
        have := ihL _ _ _ _ _ _ h
        simp at *; omega
      · rw [e] at h; simp at h
    · rw [e] at h
      have := skipWS_len' hs
      cases hro : readObject f d (c :: rest) with
      | error e' => rw [hro] at h; simp at h
      | ok p =>
        obtain ⟨o, r1⟩ := p
        rw [hro] at h
        dsimp only at h
        have h1 := ihO _ _ _ _ hro
        split at h
        · simp at h
        · have := ihL _ _ _ _ _ _ h
          omega
  · intro d inp kv r h
    rcases readDict_cases f d inp with e | ⟨rest, r0, rfl, _, hs, e⟩
    · rw [e] at h; simp at h
    · rw [e] at h
      have := ihDL _ _ _ _ _ (mapError_ok_inv h)
      have := skipWS_len' hs
      simp; omega
  · intro d acc inp kv r h
    rcases readDictLoop_cases f d acc inp with ⟨e, _, he⟩ | ⟨rest, rfl, he⟩ |
        ⟨key, r1, r2, hn, hs, ⟨e, _, he⟩ | ⟨e, _, he⟩ | ⟨val, r3, v, r', hro, hl, _, _, he⟩⟩
    · rw [he] at h; simp at h
    · rw [he] at h; simp at h; rw [← h.2]; simp; omega
    · rw [he] at h; simp at h
    · rw [he] at h; simp at h
    · rw [he] at h
      have := ihDL _ _ _ _ _ h
      have := ihO _ _ _ _ hro
      have := skipWS_len' hs
      have := (readName_spec _ _ _ hn).1
      omega

theorem cons_all : ∀ f, ConsAt f := by
  intro f
  induction f with
  | zero => exact cons_zero
  | succ f ih => exact cons_succ f ih

/-! ### no out-of-fuel error -/

/-- number of integers at the head of the (reversed) accumulator of `ReadArray` -/
def leadInts : List Obj → Nat
  | .int _ :: t => leadInts t + 1
  | _ => 0

theorem leadInts_two {acc : List Obj} (h : 2 ≤ leadInts acc) : ∃ b a acc', acc = .int b :: .int a :: acc' := by
  cases acc with
  | nil => simp [leadInts] at h
  | cons x t =>
    cases x <;> simp [leadInts] at h
    rename_i b
    cases t with
    | nil => simp [leadInts] at h
    | cons y t' =>
      cases y <;> simp [leadInts] at h
      rename_i a
      exact ⟨b, a, t', rfl⟩

theorem nextIntsM_le (o : Obj) (ints : Nat) (acc : List Obj) (h : ints ≤ leadInts acc) :
    nextIntsM o ints ≤ leadInts (o :: acc) := by
  cases o <;> simp [nextIntsM, leadInts] <;> omega

def TotAt (f : Nat) : Prop :=
  (∀ d inp, 3 * inp.length + 3 ≤ f → readObject f d inp ≠ .error .other) ∧
  (∀ d inp, 3 * inp.length + 5 ≤ f → readArray f d inp ≠ .error .other) ∧
  (∀ d acc ints inp, ints ≤ leadInts acc → 3 * inp.length + 4 ≤ f →
      readArrayLoop f d acc ints inp ≠ .error .other) ∧
  (∀ d inp, 3 * inp.length + 2 ≤ f → readDict f d inp ≠ .error .other) ∧
  (∀ d acc inp, 3 * inp.length + 1 ≤ f → readDictLoop f d acc inp ≠ .error .other)

theorem tot_zero : TotAt 0 := by
  refine ⟨?_, ?_, ?_, ?_, ?_⟩ <;> intros <;> omega

theorem tot_succ (f : Nat) (ih : TotAt f) : TotAt (f + 1) := by
  obtain ⟨ihO, ihA, ihL, ihD, ihDL⟩ := ih
  obtain ⟨cO, _, _, _, _⟩ := cons_all f
  refine ⟨?_, ?_, ?_, ?_, ?_⟩
  · intro d inp hf h
    rcases readObject_cases f d inp with e | ⟨k, o', _, _, _, e⟩ | e | e | e | ⟨c, rest, rfl, e⟩ |
        ⟨c, rest, rfl, e⟩ | ⟨c, rest, rfl, e⟩
    · rw [e] at h; simp at h
    · rw [e] at h; simp at h
    · rw [e] at h; have := readName_err _ _ (map_err_inv h); simp at this
    · rw [e] at h; have := readNumber_err _ _ h; simp at this
    · rw [e] at h; exact ihD d inp (by omega) (dictResult_other_inv h)
    · rw [e] at h; exact readString_err _ _ (map_err_inv h) rfl
    · rw [e] at h; exact readHexString_err _ _ (map_err_inv h) rfl
    · rw [e] at h; exact ihA d rest (by simp at hf; omega) (map_err_inv h)
  · intro d inp hf h
    rw [readArray_eq] at h
    split at h
    · simp at h
    · exact ihL _ [] 0 inp (by simp [leadInts]) (by omega) (mapError_other_inv h)
  · intro d acc ints inp hi hf h
    rcases readArrayLoop_cases f d acc ints inp with e | ⟨rest, hs, e⟩ | ⟨rest, hs, hi2, hR⟩ | ⟨c, rest, hs, e⟩
    · rw [e] at h; simp at h
    · rw [e] at h; split at h <;> simp at h
    · have := skipWS_len' hs
      rcases hR with ⟨b, a, acc', _, e⟩ | ⟨hne, _⟩
      · rw [e] at h
        exact ihL _ _ 0 rest (by omega) (by simp at this; omega) h
      · obtain ⟨b, a, acc', hacc⟩ := leadInts_two (by omega : 2 ≤ leadInts acc)
        exact hne b a acc' hacc
    · rw [e] at h
      have := skipWS_len' hs
      cases hro : readObject f d (c :: rest) with
      | error e' =>
        rw [hro] at h; simp at h; subst h
        exact ihO d (c :: rest) (by omega) hro
      | ok p =>
        obtain ⟨o, r1⟩ := p
        rw [hro] at h
        dsimp only at h
        have := cO _ _ _ _ hro
        split at h
        · simp at h
        · exact ihL _ _ _ r1 (nextIntsM_le o ints acc hi) (by omega) h
  · intro d inp hf h
    rcases readDict_cases f d inp with e | ⟨rest, r0, rfl, _, hs, e⟩
    · rw [e] at h; simp at h
    · rw [e] at h
      have := skipWS_len' hs
      exact ihDL _ [] r0 (by simp at hf; omega) (mapError_other_inv h)
  · intro d acc inp hf h
    rcases readDictLoop_cases f d acc inp with ⟨e, hne, he⟩ | ⟨rest, rfl, he⟩ |
        ⟨key, r1, r2, hn, hs, ⟨e, hne, he⟩ | ⟨e, hro, he⟩ | ⟨val, r3, v, r', hro, hl, _, _, he⟩⟩
    · rw [he] at h; simp at h; exact hne h
    · rw [he] at h; simp at h
    · rw [he] at h; simp at h; exact hne h
    · rw [he] at h; simp at h; subst h
      have := skipWS_len' hs
      have := (readName_spec _ _ _ hn).1
      exact ihO d r2 (by omega) hro
    · rw [he] at h
      have := cO _ _ _ _ hro
      have := skipWS_len' hs
      have := (readName_spec _ _ _ hn).1
      exact ihDL _ _ r' (by omega) h

theorem tot_all : ∀ f, TotAt f := by
  intro f
  induction f with
  | zero => exact tot_zero
  | succ f ih => exact tot_succ f ih

end PdfVerif.C01L

import PdfVerif.Lemmas.C04ParLex
/-!
C04 helper lemmas for `parse_any_rendering`, part A: `SkipWhiteSpace` is idempotent, `ReadInteger`
on every conforming integer spelling, unique keys, and what follows an element of a conforming
array or dictionary body.
-/
namespace PdfVerif.C04L
open PdfVerif PdfVerif.C01L
open PdfVerif.Spec.Grammar (isWhite isDelim isRegularCh isEolCh isDigitCh WsR NameR StrR HexR IntR RealTok decVal)
open PdfVerif.Spec.Renders
open PdfVerif.C04hisc (StopsWs NameEnd NumEnd ws_any_spelling class_agree)

/-! ### `SkipWhiteSpace` -/

theorem skip_fix (inp : Bytes) :
    (skipWS (skipWS inp).1 = skipWS inp) ∧ (skipWS (skipComment inp).1 = skipComment inp) := by
  induction inp with
  | nil => simp [skipWS, skipComment]
  | cons c cs ih =>
    constructor
    · simp only [skipWS]
      split
      · exact ih.2
      · split
        · exact ih.1
        · rename_i h1 h2
          simp [skipWS, h1, h2]
    · simp only [skipComment]
      split
      · exact ih.1
      · exact ih.2

/-- skipping white space twice is skipping it once -/
theorem skipWS_idem (inp : Bytes) : skipWS (skipWS inp).1 = skipWS inp := (skip_fix inp).1

/-! ### integers -/

theorem parseInt64_intR (i : Int) (s : Bytes) (h : IntR i s)
    (hrange : -9223372036854775808 ≤ i ∧ i ≤ 9223372036854775807) : parseInt64 s = some i := by
  cases h with
  | unsigned _ hne hd =>
    cases s with
    | nil => exact absurd rfl hne
    | cons d ds' =>
      have hd' := hd d (by simp); simp [isDigitCh] at hd'
      have hall := C04hisc.digits_all (d :: ds') hd
      have n45 : ¬ d = 45 := by omega
      have n43 : ¬ d = 43 := by omega
      have h1 : ¬ ((decVal (d :: ds') 0 : Int) < -9223372036854775808) := by omega
      have h2 : ¬ ((decVal (d :: ds') 0 : Int) > 9223372036854775807) := by omega
      unfold parseInt64
      split
      rename_i neg ds heq
      have : neg = false ∧ ds = d :: ds' := by
        split at heq <;> simp_all
      obtain ⟨rfl, rfl⟩ := this
      simp only [List.isEmpty_cons, Bool.false_or, hall, Bool.not_true, Bool.false_eq_true, if_false,
        C04hisc.digitsVal_eq]
      simp [h1, h2]
  | plus ds hne hd =>
    have hall := C04hisc.digits_all ds hd
    have hne' : ds.isEmpty = false := by cases ds; exact absurd rfl hne; rfl
    unfold parseInt64
    simp only [hne', hall, Bool.false_or, Bool.not_true, Bool.false_eq_true, if_false, C04hisc.digitsVal_eq]
    have h1 : ¬ ((decVal ds 0 : Int) < -9223372036854775808) := by omega
    have h2 : ¬ ((decVal ds 0 : Int) > 9223372036854775807) := by omega
    simp [h1, h2]
  | minus ds hne hd =>
    have hall := C04hisc.digits_all ds hd
    have hne' : ds.isEmpty = false := by cases ds; exact absurd rfl hne; rfl
    unfold parseInt64
    simp only [hne', hall, Bool.false_or, Bool.not_true, Bool.false_eq_true, if_false, C04hisc.digitsVal_eq, if_true]
    have h1 : ¬ (-(decVal ds 0 : Int) < -9223372036854775808) := by omega
    have h2 : ¬ (-(decVal ds 0 : Int) > 9223372036854775807) := by omega
    simp [h1, h2]

theorem scanInt_intR (i : Int) (s : Bytes) (h : IntR i s) (rest : Bytes) (hr : NumEnd rest) :
    scanNumTok false false true (s ++ rest) = (s, rest) := by
  have nodot : ∀ ds, (∀ d ∈ ds, isDigitCh d = true) →
      scanNumTok false false false (ds ++ rest) = (ds, rest) :=
    fun ds hd => C04hisc.scanDigits false false ds hd rest hr (fun h => by cases h)
  cases h with
  | unsigned _ hne hd =>
    cases s with
    | nil => exact absurd rfl hne
    | cons d ds' =>
      have hdd : isDigit d = true := by rw [C04hisc.isDigit_eq]; exact hd d (by simp)
      have hd' := hd d (by simp); simp [isDigitCh] at hd'
      have h43 : (d == 43) = false := by simp; omega
      have h45 : (d == 45) = false := by simp; omega
      simp only [List.cons_append, scanNumTok, Bool.false_and, Bool.false_eq_true, if_false, h43, h45,
        Bool.or_false, Bool.and_false, hdd, if_true]
      rw [nodot ds' (fun x hx => hd x (by simp [hx]))]
  | plus ds _ hd => simp [scanNumTok, nodot ds hd]
  | minus ds _ hd => simp [scanNumTok, nodot ds hd]

/-- **`ReadInteger`** on every conforming spelling of an int64 -/
theorem readInteger_any (i : Int) (s : Bytes) (h : IntR i s)
    (hrange : -9223372036854775808 ≤ i ∧ i ≤ 9223372036854775807)
    (hlen : s.length ≤ Gen.scanner_maxNameBytes) (rest : Bytes) (hr : NumEnd rest) :
    readInteger (s ++ rest) = .ok (i, rest) := by
  obtain ⟨c, t, rfl, hc⟩ := intR_head h
  have hh : ObjHead c := numHead_objHead (by rcases hc with h | h | h <;> simp [h])
  have hsk : skipWS (c :: t ++ rest) = (c :: t ++ rest, false) := skip_self c _ (objHead_stops hh _)
  have hlen' : ¬ ((c :: t).length > Gen.scanner_maxNameBytes) := by omega
  unfold readInteger
  simp only [hsk, scanInt_intR i _ h rest hr, hlen', if_false, parseInt64_intR i _ h hrange]

/-! ### unique keys -/

mutual
/-- every dictionary inside the value has distinct keys (it is a Go map) -/
def uniqueKeys : Obj → Bool
  | .arr xs => uniqueKeysList xs
  | .dict kv => decide ((keysOf kv).Nodup) && uniqueKeysKV kv
  | _ => true
def uniqueKeysList : List Obj → Bool
  | [] => true
  | x :: xs => uniqueKeys x && uniqueKeysList xs
def uniqueKeysKV : List (Bytes × Obj) → Bool
  | [] => true
  | (_, v) :: rest => uniqueKeys v && uniqueKeysKV rest
end

def isDictObj : Obj → Bool
  | .dict _ => true
  | _ => false

/-- `ReadObject` looks for the keyword `stream` behind a dictionary (after white space) -/
def NoStream (k : Bytes) : Prop := startsWith (skipWS k).1 kw_stream = false

theorem noStream_of_skip {k : Bytes} {c : Nat} {t : Bytes} {b : Bool} (h : skipWS k = (c :: t, b)) (hc : c ≠ 115) :
    NoStream k := by
  unfold NoStream
  rw [h]
  simp [startsWith, isPrefixOf, kw_stream]
  intro h'; exact absurd h'.symm hc

/-! ### what follows an element -/

theorem close_stops (c : Nat) (hc : c = 47 ∨ c = 62 ∨ c = 93) (t : Bytes) :
    StopsWs (c :: t) ∧ EndsToken (c :: t) ∧ c ≠ 115 := by
  rcases hc with rfl | rfl | rfl <;> exact ⟨⟨by decide, by decide, by decide⟩, ⟨by decide, by decide⟩, by decide⟩

/-- after the elements of an array body: through white space we reach an object or `]`; and the
    body (with the bracket) ends a preceding regular token unless that token needed no white space -/
theorem seq_cont {L : Nat} {p : Bool} {xs : List Obj} {body : Bytes} (h : RendersSeq L p xs body) (rest : Bytes) :
    (∃ c t, skipWS (body ++ 93 :: rest) = (c :: t, false) ∧ c ≠ 115) ∧
    (p = false → EndsToken (body ++ 93 :: rest)) := by
  cases h with
  | nil _ _ hw =>
    obtain ⟨h1, h2, h3⟩ := close_stops 93 (.inr (.inr rfl)) rest
    refine ⟨⟨93, rest, skip_to hw 93 rest h1, h3⟩, fun _ => ?_⟩
    by_cases hne : body = []
    · subst hne; exact h2
    · exact ws_endsToken hw hne _
  | cons _ w a b x xs' hw hx hsep _ =>
    obtain ⟨c, t, rfl, hc, hdel⟩ := renders_head hx
    refine ⟨⟨c, t ++ (b ++ 93 :: rest), ?_, hc.2.2.2.2.2.2⟩, fun hp => ?_⟩
    · have := skip_to hw c (t ++ (b ++ 93 :: rest)) (objHead_stops hc _)
      simpa using this
    · by_cases hne : w = []
      · subst hne
        rcases hsep rfl with h | h
        · rw [hp] at h; cases h
        · exact ⟨hc.1, hdel h⟩
      · have := ws_endsToken hw hne (c :: t ++ b ++ 93 :: rest)
        simpa using this

/-- after the entries of a dictionary body: through white space we reach `/` or `>`; the body
    (with `>>`) always ends a preceding token -/
theorem kv_cont {L : Nat} {kv : List (Bytes × Obj)} {body : Bytes} (h : RendersKV L kv body) (rest : Bytes) :
    (∃ c t, skipWS (body ++ 62 :: 62 :: rest) = (c :: t, false) ∧ (c = 47 ∨ c = 62)) ∧
    EndsToken (body ++ 62 :: 62 :: rest) := by
  cases h with
  | nil _ hw =>
    obtain ⟨h1, h2, _⟩ := close_stops 62 (.inr (.inl rfl)) (62 :: rest)
    refine ⟨⟨62, 62 :: rest, skip_to hw 62 _ h1, .inr rfl⟩, ?_⟩
    by_cases hne : body = []
    · subst hne; exact h2
    · exact ws_endsToken hw hne _
  | cons w ks w1 a b k v kv' hw _ _ _ _ _ =>
    obtain ⟨h1, h2, _⟩ := close_stops 47 (.inl rfl) (ks ++ w1 ++ a ++ b ++ 62 :: 62 :: rest)
    refine ⟨⟨47, ks ++ w1 ++ a ++ b ++ 62 :: 62 :: rest, ?_, .inl rfl⟩, ?_⟩
    · have := skip_to hw 47 _ h1
      simpa using this
    · by_cases hne : w = []
      · subst hne; simpa using h2
      · have := ws_endsToken hw hne (47 :: ks ++ w1 ++ a ++ b ++ 62 :: 62 :: rest)
        simpa using this

end PdfVerif.C04L

import PdfVerif.Lemmas.C01Defs
/-!
C01 helper lemmas: the branches of `readObject`, and "reads back" for every scalar token.
-/
namespace PdfVerif.C01L
open PdfVerif PdfVerif.C01b

/-! ### branches of `readObject` -/

theorem readObject_num (f d c : Nat) (t : Bytes) (h : isDigit c = true ∨ c = 45 ∨ c = 46) :
    readObject (f + 1) d (c :: t) = readNumber (c :: t) := by
  have h1 : c ≠ 110 ∧ c ≠ 116 ∧ c ≠ 102 ∧ c ≠ 47 := by
    rcases h with h | h | h
    · have := (isDigit_iff c).mp h; omega
    · omega
    · omega
  obtain ⟨a1, a2, a3, a4⟩ := h1
  rcases h with h | h | h
  · simp [readObject, startsWith, isPrefixOf, kw_null, kw_true, kw_false, a4, Ne.symm a1, Ne.symm a2, Ne.symm a3, h]
  · subst h; simp [readObject, startsWith, isPrefixOf, kw_null, kw_true, kw_false]
  · subst h; simp [readObject, startsWith, isPrefixOf, kw_null, kw_true, kw_false]

theorem readObject_name (f d : Nat) (t : Bytes) :
    readObject (f + 1) d (47 :: t) = (readName (47 :: t)).map fun (n, r) => (.name n, r) := by
  simp [readObject, startsWith, isPrefixOf, kw_null, kw_true, kw_false]

theorem readObject_arr (f d : Nat) (t : Bytes) :
    readObject (f + 1) d (91 :: t) = (readArray f d t).map fun (xs, r) => (.arr xs, r) := by
  simp [readObject, startsWith, isPrefixOf, kw_null, kw_true, kw_false, isDigit]

theorem readObject_dict (f d : Nat) (t : Bytes) :
    readObject (f + 1) d (60 :: 60 :: t) =
      match readDict f d (60 :: 60 :: t) with
      | .error e => .error e
      | .ok (dd, r) =>
        if startsWith (skipWS r).1 kw_stream then .error .malformed else .ok (.dict dd, (skipWS r).1) := by
  simp [readObject, startsWith, isPrefixOf, kw_null, kw_true, kw_false, isDigit]
  rfl

/-! ### the statement proved for every object: its text, followed by a continuation, reads back -/

/-- `ReadsBack opt o`: at every nesting depth that leaves room for `o`, the text written for
`o` (without leading separator) followed by any admissible continuation `k` is read by
`ReadObject` as `rd o`, and the scanner stops at `k` (after a dictionary: at `k` with its
leading white space skipped, which is what `ReadObject` does to look for `stream`). -/
def ReadsBack (opt : FmtOpt) (o : Obj) : Prop :=
  good o = true → isRefObj o = false →
  ∀ (d : Nat), d + depthOf o ≤ Gen.scanner_maxScannerNestDepth →
  ∀ tok ns', fmtObj opt false o = some (tok, ns') →
  ∀ k, Cont ns' k → ∀ fuel, fuel ≥ 3 * (tok ++ k).length + 3 →
  ∃ k', readObject fuel d (tok ++ k) = .ok (rd o, k') ∧ (k' = k ∨ k' = (skipWS k).1) ∧ (ns' = true → k' = k)

theorem intDec_head (i : Int) : ∃ c t, intDec i = c :: t ∧ (isDigit c = true ∨ c = 45) := by
  cases i with
  | ofNat n =>
    obtain ⟨d, t, h1, h2⟩ := natDec_head n
    exact ⟨d, t, by simpa [intDec] using h1, .inl h2⟩
  | negSucc n => exact ⟨45, natDec (n + 1), rfl, .inr rfl⟩

theorem realToken_shape (t : Bytes) (ht : wfRealTok t = true) :
    ∃ sgn ip fp, realToken t = sgn ++ ip ++ 46 :: fp ∧ (sgn = [] ∨ sgn = [45]) ∧
      (∀ c ∈ ip, isDigit c = true) ∧ (∀ c ∈ fp, isDigit c = true) ∧ (ip ≠ [] ∨ fp ≠ []) := by
  unfold wfRealTok at ht
  split at ht
  · rename_i u
    obtain ⟨ip, fp, h1, h2, h3, h4⟩ := unsigned_shape [45] u (.inr rfl) ht
    exact ⟨[45], ip, fp, h1, .inr rfl, h2, h3, h4⟩
  · obtain ⟨ip, fp, h1, h2, h3, h4⟩ := unsigned_shape [] t (.inl rfl) ht
    exact ⟨[], ip, fp, by simpa using h1, .inl rfl, h2, h3, h4⟩

theorem realToken_head (t : Bytes) (ht : wfRealTok t = true) :
    ∃ c r, realToken t = c :: r ∧ (isDigit c = true ∨ c = 45 ∨ c = 46) := by
  obtain ⟨sgn, ip, fp, h, hs, hip, _, _⟩ := realToken_shape t ht
  rw [h]
  rcases hs with hs | hs <;> subst hs
  · cases ip with
    | nil => exact ⟨46, fp, rfl, .inr (.inr rfl)⟩
    | cons d ds => exact ⟨d, ds ++ 46 :: fp, by simp, .inl (hip d (by simp))⟩
  · exact ⟨45, ip ++ 46 :: fp, by simp, .inr (.inl rfl)⟩

theorem allBytes_of_all {n : Bytes} (h : n.all (· < 256) = true) : AllBytes n := by
  intro b hb
  simp at h
  exact h b hb

/-- an integer token is read by `ReadObject` whatever non-number byte follows -/
theorem readObject_int (i : Int) (hi : Int64Range i) (rest : Bytes) (hrest : NumStop true rest) (f d : Nat) :
    readObject (f + 1) d (intDec i ++ rest) = .ok (.int i, rest) := by
  obtain ⟨c, t, hct, hc⟩ := intDec_head i
  have := int_rt i hi rest hrest
  rw [hct] at this ⊢
  rw [List.cons_append, readObject_num f d c _ (by rcases hc with h | h; exact .inl h; exact .inr (.inl h))]
  exact this

def isScalar : Obj → Bool
  | .arr _ => false
  | .dict _ => false
  | .ref _ _ => false
  | .op _ => false
  | _ => true

/-- every scalar token reads back (null, nil array, booleans, integers, real tokens, names,
    strings in either form) -/
theorem readsBack_scalar (opt : FmtOpt) (o : Obj) (hs : isScalar o = true) :
    ReadsBack opt o := by
  intro hg _ d _ tok ns' hfmt k hk fuel hfuel
  obtain ⟨f, rfl⟩ : ∃ f, fuel = f + 1 := ⟨fuel - 1, by omega⟩
  cases o with
  | arr xs => simp [isScalar] at hs
  | dict kv => simp [isScalar] at hs
  | ref n g => simp [isScalar] at hs
  | op o => simp [isScalar] at hs
  | null =>
    simp [fmtObj, sep] at hfmt
    obtain ⟨rfl, rfl⟩ := hfmt
    exact ⟨k, (bool_null_rt k f d).1, .inl rfl, fun _ => rfl⟩
  | nilArr =>
    simp [fmtObj, sep] at hfmt
    obtain ⟨rfl, rfl⟩ := hfmt
    exact ⟨k, (bool_null_rt k f d).1, .inl rfl, fun _ => rfl⟩
  | bool b =>
    cases b <;> simp [fmtObj, sep] at hfmt <;> obtain ⟨rfl, rfl⟩ := hfmt
    · exact ⟨k, (bool_null_rt k f d).2.2, .inl rfl, fun _ => rfl⟩
    · exact ⟨k, (bool_null_rt k f d).2.1, .inl rfl, fun _ => rfl⟩
  | int i =>
    simp [fmtObj, sep] at hfmt
    obtain ⟨rfl, rfl⟩ := hfmt
    simp [good] at hg
    obtain ⟨c, t, hct, hc⟩ := intDec_head i
    refine ⟨k, ?_, .inl rfl, fun _ => rfl⟩
    have := int_rt i hg k (cont_numstop hk true)
    rw [hct] at this ⊢
    rw [List.cons_append, readObject_num f d c _ (by rcases hc with h | h; exact .inl h; exact .inr (.inl h))]
    exact this
  | real t =>
    simp [fmtObj, sep] at hfmt
    obtain ⟨rfl, rfl⟩ := hfmt
    simp [good] at hg
    obtain ⟨c, r, hcr, hc⟩ := realToken_head t hg.1
    refine ⟨k, ?_, .inl rfl, fun _ => rfl⟩
    have := real_token_rt t hg.1 hg.2 k (cont_numstop hk false)
    rw [hcr] at this ⊢
    rw [List.cons_append, readObject_num f d c _ hc]
    simpa [rd, hcr] using this
  | name n =>
    simp [fmtObj] at hfmt
    obtain ⟨rfl, rfl⟩ := hfmt
    simp [good, goodName] at hg
    refine ⟨k, ?_, .inl rfl, fun _ => rfl⟩
    have := C01.name_rt n (allBytes_of_all (by simpa using hg.1)) hg.2 k (cont_nameEnd hk)
    simp only [fmtName, List.cons_append] at this ⊢
    rw [readObject_name, this]; rfl
  | str s =>
    simp [fmtObj] at hfmt
    obtain ⟨rfl, rfl⟩ := hfmt
    simp [good] at hg
    exact ⟨k, string_rt opt.pretty s (allBytes_of_all (by simpa using hg.1)) hg.2 k f d, .inl rfl, fun _ => rfl⟩

end PdfVerif.C01L

import PdfVerif.Lemmas.CONCExclStep
/-!
Invariant behind `exclusive_progress` (C18): when `DecodeExclusive` is used only for "sinks"
(a decode function running under `DecodeExclusive` never calls `DecodeExclusive` again — the
restriction documented at `DecodeExclusive`) and no decode function panics, the system cannot deadlock.
-/
namespace PdfVerif.CONC

/-- frames of `DecodeExclusive` on a reference -/
def isExcl : Frame → Bool
  | .exStart .. => true
  | .exRun .. => true
  | .exPub .. => true
  | .exClose .. => true
  | .exDone .. => true
  | .exWait .. => true
  | _ => false

def exclCount (stk : List Frame) : Nat := (stk.filter isExcl).length

/-- the result a frame carries is a value or an error -/
def resOK : Frame → Prop
  | .exPub _ _ res => res ≠ .panic
  | .exClose _ _ res => res ≠ .panic
  | .exDone _ _ res => res ≠ .panic
  | _ => True

/-- the guard of a transition: exclusive decodes are not nested, decode functions do not panic -/
def SinkGuard (s : State) : Label → Prop
  | (t, .callExcl _ _ _) => exclCount (s.thr t) = 0
  | (_, .fnRet .panic) => False
  | _ => True

/-- every label of the trace satisfies its guard in the state in which it is taken -/
def GuardedRun (cfg : Cfg) (G : State → Label → Prop) : State → List Label → Prop
  | _, [] => True
  | s, (t, a) :: ls =>
    G s (t, a) ∧
      match step cfg s t a with
      | some s' => GuardedRun cfg G s' ls
      | none => True

theorem run_invG (cfg : Cfg) (G : State → Label → Prop) (P : State → Prop)
    (hstep : ∀ s t a s', G s (t, a) → P s → step cfg s t a = some s' → P s') :
    ∀ (ls : List Label) (s s' : State), GuardedRun cfg G s ls → P s → run cfg s ls = some s' → P s' := by
  intro ls
  induction ls with
  | nil => intro s s' _ hp h; simp [run] at h; subst h; exact hp
  | cons l ls ih =>
    intro s s' hg hp h
    obtain ⟨t, a⟩ := l
    simp only [run] at h
    simp only [GuardedRun] at hg
    cases hs : step cfg s t a with
    | none => rw [hs] at h; cases h
    | some s1 =>
      rw [hs] at h hg
      exact ih s1 s' hg.2 (hstep s t a s1 hg.1 hp hs) h

/-- what a well-behaved stack looks like -/
structure StkOK (stk : List Frame) : Prop where
  nodead : ∀ f ∈ stk, f ≠ .dead
  top : ∀ k p rest, stk ≠ .exRun k p :: rest
  res : ∀ f ∈ stk, resOK f

structure LInv (s : State) : Prop where
  stk : ∀ t, StkOK (s.thr t)
  one : ∀ t, exclCount (s.thr t) ≤ 1
  live : ∀ p, p < s.npend → (s.pend p).done = false → ∃ t, p ∈ owned (s.thr t)
  out : ∀ p, (s.pend p).out ≠ some .panic

theorem exclCount_cons (f : Frame) (stk : List Frame) :
    exclCount (f :: stk) = exclCount stk + (if isExcl f then 1 else 0) := by
  simp only [exclCount, List.filter_cons]; split <;> simp

@[simp] theorem exclCount_deliverStack (rest : List Frame) (res : Res) :
    exclCount (deliverStack rest res) = exclCount rest := by
  unfold deliverStack
  split
  · simp [exclCount_cons, isExcl]
  · rfl

theorem StkOK.tail {f : Frame} {rest : List Frame} (h : StkOK (f :: rest))
    (hne : ∀ k p rest', rest ≠ .exRun k p :: rest') : StkOK rest :=
  ⟨fun g hg => h.nodead g (List.mem_cons_of_mem _ hg), hne, fun g hg => h.res g (List.mem_cons_of_mem _ hg)⟩

/-- facts about the frames below the top which do not depend on the top -/
structure BelowOK (rest : List Frame) : Prop where
  nodead : ∀ f ∈ rest, f ≠ .dead
  res : ∀ f ∈ rest, resOK f

theorem StkOK.below {f : Frame} {rest : List Frame} (h : StkOK (f :: rest)) : BelowOK rest :=
  ⟨fun g hg => h.nodead g (List.mem_cons_of_mem _ hg), fun g hg => h.res g (List.mem_cons_of_mem _ hg)⟩

theorem StkOK.toBelow {stk : List Frame} (h : StkOK stk) : BelowOK stk := ⟨h.nodead, h.res⟩

theorem BelowOK.push {rest : List Frame} (h : BelowOK rest) (f : Frame) (h1 : f ≠ .dead)
    (h2 : ∀ k p, f ≠ .exRun k p) (h3 : resOK f) : StkOK (f :: rest) := by
  refine ⟨?_, ?_, ?_⟩
  · intro g hg
    rcases List.mem_cons.mp hg with e | e
    · subst e; exact h1
    · exact h.nodead g e
  · intro k p rest' e
    cases e
    exact h2 k p rfl
  · intro g hg
    rcases List.mem_cons.mp hg with e | e
    · subst e; exact h3
    · exact h.res g e

theorem BelowOK.deliver {rest : List Frame} (h : BelowOK rest) {res : Res} (hr : res ≠ .panic) :
    StkOK (deliverStack rest res) := by
  unfold deliverStack
  split
  · next k p rest' =>
    have hb : BelowOK rest' :=
      ⟨fun g hg => h.nodead g (List.mem_cons_of_mem _ hg), fun g hg => h.res g (List.mem_cons_of_mem _ hg)⟩
    exact hb.push _ (by simp) (by intros; simp) hr
  · next hne =>
    exact ⟨h.nodead, fun k p rest' e => hne k p rest' e, h.res⟩

theorem BelowOK.decLoop {rest : List Frame} (h : BelowOK rest) (s : State) (tp refs path o) :
    StkOK (decLoopStack s rest tp refs path o) := by
  unfold decLoopStack
  split
  · exact h.push _ (by simp) (by intros; simp) trivial
  · split
    · exact h.deliver (by simp)
    · split
      · exact h.deliver (by simp)
      · split
        · exact h.deliver (by simp)
        · exact h.push _ (by simp) (by intros; simp) trivial

theorem exclCount_decLoopStack (s : State) (rest : List Frame) (tp refs path o) :
    exclCount (decLoopStack s rest tp refs path o) = exclCount rest := by
  unfold decLoopStack
  split
  · simp [exclCount_cons, isExcl]
  · split
    · simp
    · split
      · simp
      · split
        · simp
        · simp [exclCount_cons, isExcl]

/-- a transition which replaces the stack of `t` by a well-formed one owning the same pendings
with no more exclusive frames, and touches neither `pend` nor `npend` -/
theorem LInv.local {s s' : State} (hl : LInv s) (t : Tid) (stk' : List Frame)
    (hthr : s'.thr = upd s.thr t stk') (hp : s'.pend = s.pend) (hn : s'.npend = s.npend)
    (hstk : StkOK stk') (hcnt : exclCount stk' ≤ exclCount (s.thr t))
    (hown : owned stk' = owned (s.thr t)) : LInv s' := by
  refine ⟨?_, ?_, ?_, by rw [hp]; exact hl.out⟩
  · intro t'; rw [hthr]; simp only [upd_apply]; split
    · exact hstk
    · exact hl.stk t'
  · intro t'; rw [hthr]; simp only [upd_apply]; split
    · exact Nat.le_trans hcnt (hl.one t)
    · exact hl.one t'
  · intro p hpn hd
    rw [hn] at hpn; rw [hp] at hd
    obtain ⟨t0, h0⟩ := hl.live p hpn hd
    refine ⟨t0, ?_⟩
    rw [hthr]; simp only [upd_apply]; split
    · next e => subst e; rw [hown]; exact h0
    · exact h0

theorem LInv.step {cfg : Cfg} {s s' : State} {t : Tid} {a : Act}
    (hx : XInv s) (hg : SinkGuard s (t, a)) (hl : LInv s) (h : step cfg s t a = some s') : LInv s' := by
  have hT := hl.stk t
  unfold CONC.step at h
  cases a with
  | callDecode o tp path =>
    simp only at h
    split at h
    · cases h
      exact hl.local t _ (decLoop_thr ..) (decLoop_pend ..) (decLoop_npend ..)
        (hT.toBelow.decLoop s ..) (Nat.le_of_eq (exclCount_decLoopStack ..)) (owned_decLoopStack ..)
    · cases h
  | callPair r A B a b =>
    simp only at h
    split at h
    · cases h
      exact hl.local t (s.thr t) (by rw [pairCall_thr, upd_self]) (pairCall_pend ..)
        (pairCall_npend ..) hT (Nat.le_refl _) rfl
    · cases h
  | callExcl o tp path =>
    simp only at h
    split at h
    · cases h
      have hzero : exclCount (s.thr t) = 0 := hg
      unfold exclCall
      cases o with
      | direct =>
        exact hl.local t (.exFn tp path :: s.thr t) rfl rfl rfl
          (hT.toBelow.push _ (by simp) (by intros; simp) trivial)
          (by simp [exclCount_cons, isExcl]) (owned_cons_none _ rfl)
      | ref r =>
        simp only
        cases s.cache (r, tp) with
        | some v =>
          simp only
          exact hl.local t _ (retExc_thr ..) (retExc_pend ..) (retExc_npend ..)
            (hT.toBelow.deliver (by simp)) (by simp) (owned_deliverStack ..)
        | none =>
          simp only
          cases hw : s.wip (r, tp) with
          | some p =>
            simp only
            refine ⟨?_, ?_, ?_, hl.out⟩
            · intro t'; simp only [upd_apply]; split
              · exact hT.toBelow.push _ (by simp) (by intros; simp) trivial
              · exact hl.stk t'
            · intro t'; simp only [upd_apply]; split
              · rw [exclCount_cons, hzero]; simp [isExcl]
              · exact hl.one t'
            · intro q hq hd
              obtain ⟨t0, h0⟩ := hl.live q hq hd
              refine ⟨t0, ?_⟩
              simp only [upd_apply]; split
              · next e => subst e; rw [owned_cons_none _ rfl]; exact h0
              · exact h0
          | none =>
            simp only
            refine ⟨?_, ?_, ?_, ?_⟩
            · intro t'; simp only [upd_apply]; split
              · exact hT.toBelow.push _ (by simp) (by intros; simp) trivial
              · exact hl.stk t'
            · intro t'; simp only [upd_apply]; split
              · rw [exclCount_cons, hzero]; simp [isExcl]
              · exact hl.one t'
            · intro q hq hd
              simp only at hq hd
              by_cases e : q = s.npend
              · subst e
                exact ⟨t, by simp only [upd_apply, if_true]; rw [owned_cons_some _ rfl]; simp⟩
              · have hq' : q < s.npend := by omega
                rw [upd_other _ _ _ _ e] at hd
                obtain ⟨t0, h0⟩ := hl.live q hq' hd
                refine ⟨t0, ?_⟩
                simp only [upd_apply]; split
                · next e' => subst e'; rw [owned_cons_some _ rfl]; exact List.mem_cons_of_mem _ h0
                · exact h0
            · intro q
              simp only [upd_apply]
              split
              · simp
              · exact hl.out q
    · cases h
  | fnRet res =>
    simp only at h
    split at h
    · next tp refs path rest e =>
      cases h
      rw [e] at hT
      have hb := hT.below
      have hloc : ∀ (s1 : State) (res' : Res), res' ≠ .panic → s1.thr = upd s.thr t (deliverStack rest res') →
          s1.pend = s.pend → s1.npend = s.npend → LInv s1 := by
        intro s1 res' hr h1 h2 h3
        exact hl.local t _ h1 h2 h3 (hb.deliver hr)
          (by rw [e, exclCount_deliverStack, exclCount_cons]; exact Nat.le_add_right _ _)
          (by rw [e, owned_deliverStack, owned_cons_none _ rfl])
      cases res with
      | panic => exact absurd hg (by simp [SinkGuard])
      | err er => exact hloc _ _ (by simp) (retDec_thr ..) (retDec_pend ..) (retDec_npend ..)
      | ok v =>
        cases refs with
        | nil => exact hloc _ _ (by simp) (retDec_thr ..) (retDec_pend ..) (retDec_npend ..)
        | cons r0 rs => exact hloc _ _ (by simp) (retDec_thr ..) (retDec_pend ..) (retDec_npend ..)
    · next tp path rest e =>
      rw [e] at hT
      have hb := hT.below
      cases res with
      | panic => exact absurd hg (by simp [SinkGuard])
      | err er =>
        cases h
        exact hl.local t _ (retExc_thr ..) (retExc_pend ..) (retExc_npend ..) (hb.deliver (by simp))
          (by rw [e, exclCount_deliverStack, exclCount_cons]; exact Nat.le_add_right _ _)
          (by rw [e, owned_deliverStack, owned_cons_none _ rfl])
      | ok v =>
        cases h
        exact hl.local t _ (retExc_thr ..) (retExc_pend ..) (retExc_npend ..) (hb.deliver (by simp))
          (by rw [e, exclCount_deliverStack, exclCount_cons]; exact Nat.le_add_right _ _)
          (by rw [e, owned_deliverStack, owned_cons_none _ rfl])
    · cases h
  | goFail =>
    simp only at h
    split at h
    · next tp refs path r rest e =>
      cases h
      rw [e] at hT
      exact hl.local t _ (retDec_thr ..) (retDec_pend ..) (retDec_npend ..) (hT.below.deliver (by simp))
        (by rw [e, exclCount_deliverStack, exclCount_cons]; exact Nat.le_add_right _ _)
        (by rw [e, owned_deliverStack, owned_cons_none _ rfl])
    · cases h
  | go =>
    simp only at h
    split at h
    · next tp refs path r rest e =>
      rw [e] at hT
      have hb := hT.below
      split at h
      · cases h
        exact hl.local t _ (retDec_thr ..) (retDec_pend ..) (retDec_npend ..) (hb.deliver (by simp))
          (by rw [e, exclCount_deliverStack, exclCount_cons]; exact Nat.le_add_right _ _)
          (by rw [e, owned_deliverStack, owned_cons_none _ rfl])
      · cases h
        exact hl.local t _ (decLoop_thr ..) (decLoop_pend ..) (decLoop_npend ..) (hb.decLoop s ..)
          (by rw [e, exclCount_decLoopStack, exclCount_cons]; exact Nat.le_add_right _ _)
          (by rw [e, owned_decLoopStack, owned_cons_none _ rfl])
      · cases h
        exact hl.local t _ (decLoop_thr ..) (decLoop_pend ..) (decLoop_npend ..) (hb.decLoop s ..)
          (by rw [e, exclCount_decLoopStack, exclCount_cons]; exact Nat.le_add_right _ _)
          (by rw [e, owned_decLoopStack, owned_cons_none _ rfl])
    · next k p path rest e =>
      cases h
      rw [e] at hT
      have hb : BelowOK (.exRun k p :: rest) :=
        ⟨by intro f hf
            rcases List.mem_cons.mp hf with e' | e'
            · subst e'; simp
            · exact hT.below.nodead f e',
         by intro f hf
            rcases List.mem_cons.mp hf with e' | e'
            · subst e'; trivial
            · exact hT.below.res f e'⟩
      refine hl.local t (decLoopStack s (.exRun k p :: rest) k.2 [] path (.ref k.1)) ?_
        (decLoop_pend ..) (decLoop_npend ..) (hb.decLoop s ..) ?_ ?_
      · rw [decLoop_thr]
        show upd (upd s.thr t _) t _ = _
        rw [upd_upd]; rfl
      · rw [e, exclCount_decLoopStack, exclCount_cons, exclCount_cons]; simp [isExcl]
      · rw [e, owned_decLoopStack, owned_cons_some _ rfl, owned_cons_some _ rfl]
    · next k p res rest e =>
      cases h
      rw [e] at hT
      have hres : res ≠ .panic := hT.res (.exPub k p res) (by simp)
      refine ⟨?_, ?_, ?_, ?_⟩
      · intro t'; simp only [upd_apply]; split
        · exact hT.below.push _ (by simp) (by intros; simp) hres
        · exact hl.stk t'
      · intro t'; simp only [upd_apply]; split
        · next e' => have := hl.one t; rw [e] at this; subst e'; simpa [exclCount_cons, isExcl] using this
        · exact hl.one t'
      · intro q hq hd
        have hd' : (s.pend q).done = false := by
          simp only [upd_apply] at hd
          split at hd
          · next e' => subst e'; exact hd
          · exact hd
        obtain ⟨t0, h0⟩ := hl.live q hq hd'
        refine ⟨t0, ?_⟩
        simp only [upd_apply]; split
        · next e' => subst e'; rw [e, owned_cons_some _ rfl] at h0; rw [owned_cons_some _ rfl]; exact h0
        · exact h0
      · intro q
        simp only [upd_apply]
        split
        · simp only; intro hh; cases hh; exact hres rfl
        · exact hl.out q
    · next k p res rest e =>
      cases h
      rw [e] at hT
      have hres : res ≠ .panic := hT.res (.exClose k p res) (by simp)
      have hpT : p ∈ owned (s.thr t) := by rw [e, owned_cons_some _ rfl]; simp
      refine ⟨?_, ?_, ?_, ?_⟩
      · intro t'; simp only [upd_apply]; split
        · exact hT.below.push _ (by simp) (by intros; simp) hres
        · exact hl.stk t'
      · intro t'; simp only [upd_apply]; split
        · next e' => have := hl.one t; rw [e] at this; subst e'; simpa [exclCount_cons, isExcl] using this
        · exact hl.one t'
      · intro q hq hd
        by_cases eq : q = p
        · subst eq; simp at hd
        · simp only at hd
          rw [upd_other _ _ _ _ eq] at hd
          obtain ⟨t0, h0⟩ := hl.live q hq hd
          refine ⟨t0, ?_⟩
          simp only [upd_apply]; split
          · next e' =>
            subst e'
            rw [e, owned_cons_some _ rfl] at h0
            rw [owned_cons_none _ rfl]
            rcases List.mem_cons.mp h0 with e2 | e2
            · exact absurd e2 eq
            · exact e2
          · exact h0
      · intro q
        simp only [upd_apply]
        split
        · next e' => subst e'; exact hl.out q
        · exact hl.out q
    · next k p res rest e =>
      cases h
      rw [e] at hT
      have hres : res ≠ .panic := hT.res (.exDone k p res) (by simp)
      exact hl.local t _ (retExc_thr ..) (retExc_pend ..) (retExc_npend ..) (hT.below.deliver hres)
        (by rw [e, exclCount_deliverStack, exclCount_cons]; exact Nat.le_add_right _ _)
        (by rw [e, owned_deliverStack, owned_cons_none _ rfl])
    · next k p rest e =>
      rw [e] at hT
      have hb := hT.below
      split at h
      · next hdone =>
        cases hout : (s.pend p).out with
        | none => exact absurd hout (hx.doneOut p hdone)
        | some res =>
          rw [hout] at h
          cases res with
          | panic => exact absurd hout (hl.out p)
          | err er =>
            simp only at h
            cases h
            exact hl.local t _ (retExc_thr ..) (retExc_pend ..) (retExc_npend ..) (hb.deliver (by simp))
              (by rw [e, exclCount_deliverStack, exclCount_cons]; exact Nat.le_add_right _ _)
              (by rw [e, owned_deliverStack, owned_cons_none _ rfl])
          | ok v =>
            simp only at h
            cases h
            exact hl.local t _ (retExc_thr ..) (retExc_pend ..) (retExc_npend ..) (hb.deliver (by simp))
              (by rw [e, exclCount_deliverStack, exclCount_cons]; exact Nat.le_add_right _ _)
              (by rw [e, owned_deliverStack, owned_cons_none _ rfl])
      · cases h
    · cases h

theorem LInv.init : LInv State.init := by
  refine ⟨?_, ?_, ?_, ?_⟩
  · intro t
    exact ⟨by intro f hf; simp [State.init] at hf, by intro k p rest e; simp [State.init] at e,
      by intro f hf; simp [State.init] at hf⟩
  · intro t; simp [State.init, exclCount]
  · intro p hp; simp [State.init] at hp
  · intro p; simp [State.init]

/-- the thread whose stack is headed by `f` can continue -/
theorem enabled_of_top {cfg : Cfg} {s : State} {t : Tid} {f : Frame} {rest : List Frame}
    (e : s.thr t = f :: rest) (h1 : f ≠ .dead) (h2 : ∀ k p, f ≠ .exRun k p) (h3 : ∀ k p, f ≠ .exWait k p) :
    (step cfg s t .go).isSome = true ∨ (step cfg s t (.fnRet (.err (.fn 0)))).isSome = true := by
  cases f with
  | decGet tp refs path r => left; simp only [step, e]; cases cfg.get r <;> simp
  | decFn tp refs path => right; simp [step, e]
  | exFn tp path => right; simp [step, e]
  | exStart k p path => left; simp [step, e]
  | exRun k p => exact absurd rfl (h2 k p)
  | exPub k p res => left; simp [step, e]
  | exClose k p res => left; simp [step, e]
  | exDone k p res => left; simp [step, e]
  | exWait k p => exact absurd rfl (h3 k p)
  | dead => exact absurd rfl h1

end PdfVerif.CONC

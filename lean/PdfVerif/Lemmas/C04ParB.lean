import PdfVerif.Lemmas.C04ParA
/-!
C04 helper lemmas for `parse_any_rendering`, part B: the statement proved for every derivation of
`Renders` / `RendersSeq` / `RendersKV`, and its step lemmas (scalars; one array element incl. the
`a b R` detection; one dictionary entry incl. the reference look-ahead; whole arrays and
dictionaries).
-/
namespace PdfVerif.C04L
open PdfVerif PdfVerif.C01L
open PdfVerif.Spec.Grammar (isWhite isDelim isRegularCh isEolCh isDigitCh WsR NameR StrR HexR IntR RealTok decVal)
open PdfVerif.Spec.Renders
open PdfVerif.C04hisc (StopsWs NameEnd NumEnd ws_any_spelling class_agree)

/-- where `ReadObject` stops: behind the object — behind a dictionary also behind the white space
    and comments that follow it (the scanner looks for the keyword `stream` there) -/
def restAfter (o : Obj) (k : Bytes) : Bytes := if isDictObj o then (skipWS k).1 else k

theorem skip_restAfter (o : Obj) (k : Bytes) : skipWS (restAfter o k) = skipWS k := by
  unfold restAfter
  split
  · exact skipWS_idem k
  · rfl

/-- the statement for one object: its spelling `bs`, followed by a continuation `k` that ends
    the token (if the object does not end with its own delimiter) and does not show `stream`
    behind a dictionary, is read as `o` at every nesting depth that leaves room for it -/
def RB (o : Obj) (bs : Bytes) : Prop :=
  capsOK o = true → uniqueKeys o = true → isRefObj o = false →
  ∀ d, d + depthOf o ≤ Gen.scanner_maxScannerNestDepth →
  ∀ k, (selfDelimited o = false → EndsToken k) → (isDictObj o = true → NoStream k) →
  ∀ fuel, fuel ≥ 3 * (bs ++ k).length + 3 →
  readObject fuel d (bs ++ k) = .ok (o, restAfter o k)

/-- the statement for the elements of an array (entered anywhere in the white space before them) -/
def SeqRB (xs : List Obj) (body : Bytes) : Prop :=
  capsList xs = true → uniqueKeysList xs = true →
  ∀ d, d + depthList xs ≤ Gen.scanner_maxScannerNestDepth →
  ∀ (acc : List Obj) (ints : Nat) (rest : Bytes), acc.length + xs.length ≤ Gen.scanner_maxArrayLen →
  ∀ fuel, fuel ≥ 3 * (body ++ 93 :: rest).length + 4 →
  ∀ inp, skipWS inp = skipWS (body ++ 93 :: rest) →
  readArrayLoop fuel d acc ints inp = .ok (acc.reverse ++ xs, rest)

/-- the statement for the entries of a dictionary (entered at the first key or at `>>`) -/
def KVRB (kv : List (Bytes × Obj)) (body : Bytes) : Prop :=
  capsKV kv = true → uniqueKeysKV kv = true →
  ∀ d, d + depthKV kv ≤ Gen.scanner_maxScannerNestDepth →
  ∀ (acc : List (Bytes × Obj)) (rest : Bytes), (∀ e ∈ kv, e.1 ∉ keysOf acc) → (keysOf kv).Nodup →
    acc.length + kv.length ≤ Gen.scanner_maxDictLen →
  ∀ fuel, fuel ≥ 3 * (body ++ 62 :: 62 :: rest).length + 1 →
  ∀ inp, skipWS (body ++ 62 :: 62 :: rest) = (inp, false) →
  readDictLoop fuel d acc inp = .ok (acc ++ kv, rest)

/-! ### scalars -/

theorem rb_null : RB .null kwNull := by
  intro _ _ _ d _ k _ _ fuel hf
  obtain ⟨f, rfl⟩ : ∃ f, fuel = f + 1 := ⟨fuel - 1, by omega⟩
  exact (C01b.bool_null_rt k f d).1

theorem rb_true : RB (.bool true) kwTrue := by
  intro _ _ _ d _ k _ _ fuel hf
  obtain ⟨f, rfl⟩ : ∃ f, fuel = f + 1 := ⟨fuel - 1, by omega⟩
  exact (C01b.bool_null_rt k f d).2.1

theorem rb_false : RB (.bool false) kwFalse := by
  intro _ _ _ d _ k _ _ fuel hf
  obtain ⟨f, rfl⟩ : ∃ f, fuel = f + 1 := ⟨fuel - 1, by omega⟩
  exact (C01b.bool_null_rt k f d).2.2

theorem rb_int (i : Int) (s : Bytes) (h : IntR i s) (hl : s.length ≤ Gen.scanner_maxNameBytes) : RB (.int i) s := by
  intro hc _ _ d _ k hk _ fuel hf
  obtain ⟨f, rfl⟩ : ∃ f, fuel = f + 1 := ⟨fuel - 1, by omega⟩
  simp [capsOK] at hc
  have := C04hisc.int_any_spelling i s h hc hl k (endsToken_numEnd (hk rfl))
  obtain ⟨c, t, rfl, hh⟩ := intR_head h
  rw [List.cons_append, readObject_num' f d c _ (by rcases hh with h | h | h <;> simp [h])]
  simpa [restAfter, isDictObj] using this

theorem rb_real (t : Bytes) (h : RealTok t) (hl : t.length ≤ Gen.scanner_maxNameBytes) : RB (.real t) t := by
  intro _ _ _ d _ k hk _ fuel hf
  obtain ⟨f, rfl⟩ : ∃ f, fuel = f + 1 := ⟨fuel - 1, by omega⟩
  have := C04hisc.real_token t h hl k (endsToken_numEnd (hk rfl))
  obtain ⟨c, r, rfl, hh⟩ := realTok_head h
  rw [List.cons_append, readObject_num' f d c _ hh]
  simpa [restAfter, isDictObj] using this

theorem rb_name (v s : Bytes) (h : NameR v s) : RB (.name v) (47 :: s) := by
  intro hc _ _ d _ k hk _ fuel hf
  obtain ⟨f, rfl⟩ : ∃ f, fuel = f + 1 := ⟨fuel - 1, by omega⟩
  simp [capsOK] at hc
  have := C04hisc.name_any_spelling v s h hc k (endsToken_nameEnd (hk rfl))
  rw [List.cons_append, readObject_name]
  simp only [List.cons_append] at this
  rw [this]; rfl

theorem rb_lit (v s : Bytes) (h : StrR 1 v s) : RB (.str v) (40 :: (s ++ [41])) := by
  intro hc _ _ d _ k _ _ fuel hf
  obtain ⟨f, rfl⟩ : ∃ f, fuel = f + 1 := ⟨fuel - 1, by omega⟩
  simp [capsOK] at hc
  have := C04hisc.string_any_spelling v s h hc k
  have e : 40 :: (s ++ [41]) ++ k = 40 :: (s ++ 41 :: k) := by simp
  rw [e, readObject_lit, this]; rfl

theorem rb_hex (v s : Bytes) (h : HexR none v s) : RB (.str v) (60 :: (s ++ [62])) := by
  intro hc _ _ d _ k _ _ fuel hf
  obtain ⟨f, rfl⟩ : ∃ f, fuel = f + 1 := ⟨fuel - 1, by omega⟩
  simp [capsOK] at hc
  have := C04hisc.hex_any_spelling v s h hc k
  have e : 60 :: (s ++ [62]) ++ k = 60 :: (s ++ 62 :: k) := by simp
  rw [e, readObject_hex f d _ (hexR_head h k), this]; rfl

theorem rb_ref (n g : Nat) (bs : Bytes) : RB (.ref n g) bs := by
  intro _ _ h; simp [isRefObj] at h

end PdfVerif.C04L

namespace PdfVerif.C04L
open PdfVerif PdfVerif.C01L
open PdfVerif.Spec.Grammar (isWhite isDelim isRegularCh isEolCh isDigitCh WsR NameR StrR HexR IntR RealTok decVal)
open PdfVerif.Spec.Renders
open PdfVerif.C04hisc (StopsWs NameEnd NumEnd ws_any_spelling class_agree)

/-! ### references: the pieces -/

theorem stops_R (k : Bytes) : StopsWs (82 :: k) := ⟨by decide, by decide, by decide⟩

theorem caps_int_of_ref {n : Nat} (hn : n < Gen.xref_maxXRefSize) :
    capsOK (.int (n : Int)) = true := by
  have := xref_fits
  simp [capsOK]; omega

theorem caps_int_of_gen {g : Nat} (hg : g ≤ Gen.xref_maxGeneration) :
    capsOK (.int (g : Int)) = true := by
  have := xref_fits
  simp [capsOK]; omega

theorem validRef_of_caps {n g : Nat} (hn : n < Gen.xref_maxXRefSize) (hg : g ≤ Gen.xref_maxGeneration) :
    validRef (n : Int) (g : Int) = true := by
  simp [validRef]; omega

/-- an integer token inside a reference, followed by non-empty white space -/
theorem read_int_ws (i : Int) (s : Bytes) (h : IntR i s) (hl : s.length ≤ Gen.scanner_maxNameBytes)
    (hc : capsOK (.int i) = true) (w : Bytes) (hw : WsR w) (hne : w ≠ []) (x : Bytes) (f d : Nat)
    (hd : d ≤ Gen.scanner_maxScannerNestDepth) (hf : f ≥ 3 * (s ++ (w ++ x)).length + 3) :
    readObject f d (s ++ (w ++ x)) = .ok (.int i, w ++ x) := by
  have := rb_int i s h hl hc rfl rfl d (by simpa [depthOf] using hd) (w ++ x) (fun _ => ws_endsToken hw hne x)
    (fun h => by simp [isDictObj] at h) f hf
  simpa [restAfter, isDictObj] using this

/-! ### one element of an array -/

theorem arr_elemG {x : Obj} {a : Bytes} (hr : Renders Gen.scanner_maxNameBytes x a) (hrb : RB x a)
    (hc : capsOK x = true) (hu : uniqueKeys x = true)
    (d : Nat) (hd : d + depthOf x ≤ Gen.scanner_maxScannerNestDepth)
    (k : Bytes) (hk : selfDelimited x = false → EndsToken k) (hns : NoStream k)
    (acc : List Obj) (ints : Nat) (hacc : acc.length + 1 ≤ Gen.scanner_maxArrayLen)
    (R : Except Err (List Obj × Bytes))
    (hR : ∀ fuel' ints' inp', fuel' ≥ 3 * k.length + 4 → skipWS inp' = skipWS k →
        readArrayLoop fuel' d (x :: acc) ints' inp' = R)
    (fuel : Nat) (hfuel : fuel ≥ 3 * (a ++ k).length + 4) :
    readArrayLoop fuel d acc ints (a ++ k) = R := by
  obtain ⟨f, rfl⟩ : ∃ f, fuel = f + 1 := ⟨fuel - 1, by omega⟩
  cases hx : isRefObj x with
  | false =>
    obtain ⟨c, t, rfl, hh, _⟩ := renders_head hr
    have hro := hrb hc hu hx d hd k hk (fun _ => hns) f (by omega)
    have n93 : c ≠ 93 := hh.2.2.2.1
    have n82 : c ≠ 82 := hh.2.2.2.2.2.1
    refine (loop_obj f d acc ints (c :: t ++ k) c (t ++ k) x (restAfter x k)
      (skip_self c _ (objHead_stops hh _)) n93 n82 hro (by omega)).trans ?_
    exact hR f _ _ (by simp at hfuel ⊢; omega) (skip_restAfter x k)
  | true =>
    cases hr with
    | ref n g s1 w1 s2 w2 h1 l1 hw1 ne1 h2 l2 hw2 ne2 =>
      simp [capsOK] at hc
      obtain ⟨hn, hg⟩ := hc
      obtain ⟨c1, t1, rfl, hh1⟩ := intR_head h1
      obtain ⟨c2, t2, rfl, hh2⟩ := intR_head h2
      have oh1 : ObjHead c1 := numHead_objHead (by rcases hh1 with h | h | h <;> simp [h])
      have oh2 : ObjHead c2 := numHead_objHead (by rcases hh2 with h | h | h <;> simp [h])
      have e : c1 :: t1 ++ w1 ++ (c2 :: t2) ++ w2 ++ [82] ++ k
          = c1 :: (t1 ++ (w1 ++ (c2 :: (t2 ++ (w2 ++ 82 :: k))))) := by simp
      rw [e] at hfuel ⊢
      simp only [List.length_cons, List.length_append] at hfuel
      obtain ⟨f2, rfl⟩ : ∃ f2, f = f2 + 1 := ⟨f - 1, by omega⟩
      obtain ⟨f3, rfl⟩ : ∃ f3, f2 = f3 + 1 := ⟨f2 - 1, by omega⟩
      -- first integer
      have r1 := read_int_ws (n : Int) (c1 :: t1) h1 l1 (caps_int_of_ref hn) w1 hw1 ne1
        (c2 :: (t2 ++ (w2 ++ 82 :: k))) (f3 + 1 + 1) d (by omega) (by simp; omega)
      refine (loop_obj (f3 + 1 + 1) d acc ints _ c1 _ (.int n) _
        (skip_self c1 _ (objHead_stops oh1 _)) oh1.2.2.2.1 oh1.2.2.2.2.2.1 r1 (by omega)).trans ?_
      -- second integer
      have r2 := read_int_ws (g : Int) (c2 :: t2) h2 l2 (caps_int_of_gen hg) w2 hw2 ne2 (82 :: k) (f3 + 1) d
        (by omega) (by simp; omega)
      refine (loop_obj (f3 + 1) d _ _ _ c2 _ (.int g) _
        (skip_to hw1 c2 _ (objHead_stops oh2 _)) oh2.2.2.2.1 oh2.2.2.2.2.2.1 r2 (by simp; omega)).trans ?_
      -- the keyword R
      refine (loop_R f3 d acc (n : Int) (g : Int) _ _ k (skip_to hw2 82 k (stops_R k)) (by simp [nextInts])).trans ?_
      rw [validRef_of_caps hn hg]
      simp
      exact hR f3 0 k (by omega) rfl
    | _ => simp [isRefObj] at hx

end PdfVerif.C04L

namespace PdfVerif.C04L
open PdfVerif PdfVerif.C01L
open PdfVerif.Spec.Grammar (isWhite isDelim isRegularCh isEolCh isDigitCh WsR NameR StrR HexR IntR RealTok decVal)
open PdfVerif.Spec.Renders
open PdfVerif.C04hisc (StopsWs NameEnd NumEnd ws_any_spelling class_agree)

/-! ### arrays -/

theorem seqRB_nil (w : Bytes) (hw : WsR w) : SeqRB [] w := by
  intro _ _ d _ acc ints rest hacc fuel hf inp hinp
  obtain ⟨f, rfl⟩ : ∃ f, fuel = f + 1 := ⟨fuel - 1, by omega⟩
  obtain ⟨h1, _, _⟩ := close_stops 93 (.inr (.inr rfl)) rest
  rw [loop_end f d acc ints inp rest (by rw [hinp]; exact skip_to hw 93 rest h1) (by simpa using hacc)]
  simp

theorem seqRB_cons {w a b : Bytes} {x : Obj} {xs : List Obj} (hw : WsR w)
    (hx : Renders Gen.scanner_maxNameBytes x a) (hrb : RB x a)
    (htail : RendersSeq Gen.scanner_maxNameBytes (selfDelimited x) xs b) (hB : SeqRB xs b) :
    SeqRB (x :: xs) (w ++ a ++ b) := by
  intro hc hu d hd acc ints rest hacc fuel hf inp hinp
  simp only [capsList, Bool.and_eq_true] at hc
  simp only [uniqueKeysList, Bool.and_eq_true] at hu
  simp only [depthList] at hd
  simp only [List.length_cons] at hacc
  obtain ⟨c, t, rfl, hh, _⟩ := renders_head hx
  obtain ⟨⟨c', t', hsk, hne⟩, hend⟩ := seq_cont htail rest
  have hskip : skipWS inp = skipWS (c :: t ++ (b ++ 93 :: rest)) := by
    rw [hinp]
    have e : w ++ (c :: t) ++ b ++ 93 :: rest = w ++ c :: (t ++ (b ++ 93 :: rest)) := by simp
    rw [e, skip_to hw c _ (objHead_stops hh _)]
    exact (skip_self c _ (objHead_stops hh _)).symm
  rw [loop_congr fuel d acc ints inp _ hskip]
  refine arr_elemG hx hrb hc.1 hu.1 d (by omega) (b ++ 93 :: rest) hend (noStream_of_skip hsk hne)
    acc ints (by omega) _ ?_ fuel (by simp at hf ⊢; omega)
  intro fuel' ints' inp' hf' hs'
  have := hB hc.2 hu.2 d (by omega) (x :: acc) ints' rest (by simp; omega) fuel' hf' inp' hs'
  rw [this]; simp

/-- an array reads back if its element sequence does; what follows `]` is not looked at -/
theorem rb_arr {xs : List Obj} {body : Bytes} (hB : SeqRB xs body) : RB (.arr xs) (91 :: (body ++ [93])) := by
  intro hc hu _ d hd k _ _ fuel hf
  simp only [capsOK, Bool.and_eq_true, decide_eq_true_eq] at hc
  simp only [uniqueKeys] at hu
  simp only [depthOf] at hd
  have e : 91 :: (body ++ [93]) ++ k = 91 :: (body ++ 93 :: k) := by simp
  rw [e] at hf ⊢
  simp only [List.length_cons, List.length_append] at hf
  obtain ⟨f, rfl⟩ : ∃ f, fuel = f + 1 + 1 := ⟨fuel - 2, by omega⟩
  rw [readObject_arr, readArray]
  have hdd : ¬ (d ≥ Gen.scanner_maxScannerNestDepth) := by omega
  have := hB hc.2 hu (d + 1) (by omega) [] 0 k (by simpa using hc.1) f (by simp; omega) _ rfl
  simp only [hdd, if_false, this]
  simp [Except.map, Except.mapError, restAfter, isDictObj]

/-! ### dictionaries -/

/-- One dictionary entry: the key, white space, the value, then `K` which leads through white space
to the next key or to `>>`. -/
theorem dict_entryG {k ks w1 a : Bytes} {v : Obj} (hk : NameR k ks) (hw1 : WsR w1)
    (hv : Renders Gen.scanner_maxNameBytes v a) (hrb : RB v a) (hsep : w1 = [] → startsDelim v = true)
    (hkl : k.length ≤ Gen.scanner_maxNameBytes) (hc : capsOK v = true) (hu : uniqueKeys v = true)
    (d : Nat) (hd : d + depthOf v ≤ Gen.scanner_maxScannerNestDepth)
    (K : Bytes) (c : Nat) (t : Bytes) (hK : skipWS K = (c :: t, false)) (hcc : c = 47 ∨ c = 62)
    (hKend : EndsToken K)
    (acc : List (Bytes × Obj)) (hkacc : k ∉ keysOf acc) (hlen : acc.length < Gen.scanner_maxDictLen)
    (R : Except Err (List (Bytes × Obj) × Bytes))
    (hR : ∀ fuel', fuel' ≥ 3 * K.length + 1 → readDictLoop fuel' d (acc ++ [(k, v)]) (c :: t) = R)
    (fuel : Nat) (hfuel : fuel ≥ 3 * (47 :: ks ++ w1 ++ a ++ K).length + 1) :
    readDictLoop fuel d acc (47 :: ks ++ w1 ++ a ++ K) = R := by
  obtain ⟨f, rfl⟩ : ∃ f, fuel = f + 1 := ⟨fuel - 1, by omega⟩
  obtain ⟨c0, t0, ha, hh, hdel⟩ := renders_head hv
  have hKl := skipWS_len' hK
  -- the key
  have hne : NameEnd (w1 ++ a ++ K) := by
    rw [ha]
    by_cases h0 : w1 = []
    · subst h0; exact ⟨hh.1, hdel (hsep rfl)⟩
    · have := ws_endsToken hw1 h0 (c0 :: t0 ++ K)
      exact endsToken_nameEnd (by simpa using this)
  have hname : readName (47 :: ks ++ w1 ++ a ++ K) = .ok (k, w1 ++ a ++ K) := by
    have := C04hisc.name_any_spelling k ks hk hkl _ hne
    simpa using this
  have hs1 : skipWS (w1 ++ a ++ K) = (a ++ K, false) := by
    have := skip_to hw1 c0 (t0 ++ K) (objHead_stops hh _)
    rw [ha]; simpa using this
  have hcs : c ≠ 115 := by rcases hcc with rfl | rfl <;> decide
  cases hx : isRefObj v with
  | false =>
    have hro := hrb hc hu hx d hd K (fun _ => hKend) (fun _ => noStream_of_skip hK hcs) f
      (by simp at hfuel ⊢; omega)
    rw [dloop_entry f d acc _ k _ (a ++ K) (restAfter v K) t v c hname hs1 hro
      (by rw [skip_restAfter, hK]) hcc hkacc hlen]
    exact hR f (by simp at hfuel hKl ⊢; omega)
  | true =>
    cases hv with
    | ref n g s1 w1' s2 w2' h1 l1 hw1' ne1 h2 l2 hw2' ne2 =>
      simp [capsOK] at hc
      obtain ⟨hn, hg⟩ := hc
      obtain ⟨c2, t2, rfl, hh2⟩ := intR_head h2
      have oh2 : ObjHead c2 := numHead_objHead (by rcases hh2 with h | h | h <;> simp [h])
      have hfit := xref_fits
      obtain ⟨f2, rfl⟩ : ∃ f2, f = f2 + 1 := ⟨f - 1, by simp at hfuel; omega⟩
      have e : s1 ++ w1' ++ (c2 :: t2) ++ w2' ++ [82] ++ K = s1 ++ (w1' ++ (c2 :: (t2 ++ (w2' ++ 82 :: K)))) := by
        simp
      rw [e] at hs1
      have h3 := read_int_ws (n : Int) s1 h1 l1 (caps_int_of_ref hn) w1' hw1' ne1
        (c2 :: (t2 ++ (w2' ++ 82 :: K))) (f2 + 1) d (by omega)
        (by rw [← hs1] at *; have := congrArg List.length e; simp at hfuel this ⊢; omega)
      have h4 : skipWS (w1' ++ (c2 :: (t2 ++ (w2' ++ 82 :: K)))) = (c2 :: (t2 ++ (w2' ++ 82 :: K)), false) :=
        skip_to hw1' c2 _ (objHead_stops oh2 _)
      have h5 : readInteger (c2 :: (t2 ++ (w2' ++ 82 :: K))) = .ok ((g : Int), w2' ++ 82 :: K) := by
        have := readInteger_any (g : Int) (c2 :: t2) h2 (by omega) l2 (w2' ++ 82 :: K)
          (endsToken_numEnd (ws_endsToken hw2' ne2 _))
        simpa using this
      have h6 : skipWS (w2' ++ 82 :: K) = (82 :: K, false) := skip_to hw2' 82 K (stops_R K)
      have hc2 : c2 ≠ 47 ∧ c2 ≠ 62 := by
        rcases hh2 with h | h | h
        · simp [isDigitCh] at h; omega
        · omega
        · omega
      rw [dloop_ref (f2 + 1) d acc _ k _ _ _ _ _ K (c :: t) (n : Int) (g : Int) c2 hname hs1 h3 h4 hc2 h5 h6 hK
        hkacc hlen]
      rw [validRef_of_caps hn hg]
      simp
      exact hR (f2 + 1) (by simp at hKl hfuel ⊢; omega)
    | _ => simp [isRefObj] at hx

theorem kvRB_nil (w : Bytes) (hw : WsR w) : KVRB [] w := by
  intro _ _ d _ acc rest _ _ _ fuel hf inp hinp
  obtain ⟨h1, _, _⟩ := close_stops 62 (.inr (.inl rfl)) (62 :: rest)
  rw [skip_to hw 62 _ h1] at hinp
  obtain ⟨f, rfl⟩ : ∃ f, fuel = f + 1 := ⟨fuel - 1, by omega⟩
  simp at hinp
  subst hinp
  simp [dloop_end]

theorem kvRB_cons {w ks w1 a b k : Bytes} {v : Obj} {kv : List (Bytes × Obj)} (hw : WsR w) (hk : NameR k ks)
    (hw1 : WsR w1) (hv : Renders Gen.scanner_maxNameBytes v a) (hrb : RB v a) (hsep : w1 = [] → startsDelim v = true)
    (htail : RendersKV Gen.scanner_maxNameBytes kv b) (hC : KVRB kv b) :
    KVRB ((k, v) :: kv) (w ++ 47 :: ks ++ w1 ++ a ++ b) := by
  intro hc hu d hd acc rest hdisj hnodup hlen fuel hf inp hinp
  simp only [capsKV, Bool.and_eq_true, decide_eq_true_eq] at hc
  simp only [uniqueKeysKV, Bool.and_eq_true] at hu
  simp only [depthKV] at hd
  simp only [List.length_cons] at hlen
  have hnd := List.nodup_cons.mp (show (k :: keysOf kv).Nodup from hnodup)
  have hkacc : k ∉ keysOf acc := hdisj (k, v) (by simp)
  obtain ⟨⟨c, t, hK, hcc⟩, hKend⟩ := kv_cont htail rest
  obtain ⟨h1, _, _⟩ := close_stops 47 (.inl rfl) (ks ++ w1 ++ a ++ b ++ 62 :: 62 :: rest)
  have e : w ++ 47 :: ks ++ w1 ++ a ++ b ++ 62 :: 62 :: rest
      = w ++ 47 :: (ks ++ w1 ++ a ++ b ++ 62 :: 62 :: rest) := by simp
  rw [e, skip_to hw 47 _ h1] at hinp
  simp at hinp
  subst hinp
  have e2 : 47 :: (ks ++ (w1 ++ (a ++ (b ++ 62 :: 62 :: rest)))) = 47 :: ks ++ w1 ++ a ++ (b ++ 62 :: 62 :: rest) := by
    simp
  rw [e2]
  refine dict_entryG hk hw1 hv hrb hsep hc.1.1 hc.1.2 hu.1 d (by omega) (b ++ 62 :: 62 :: rest) c t hK hcc hKend
    acc hkacc (by omega) _ ?_ fuel (by simp at hf ⊢; omega)
  intro fuel' hf'
  have hdisj' : ∀ e ∈ kv, e.1 ∉ keysOf (acc ++ [(k, v)]) := by
    intro e he
    have h1 := hdisj e (by simp [he])
    simp [keysOf] at h1 ⊢
    refine ⟨fun x hx => h1 x hx, fun hek => hnd.1 (hek ▸ List.mem_map.mpr ⟨e, he, rfl⟩)⟩
  have := hC hc.2 hu.2 d (by omega) (acc ++ [(k, v)]) rest hdisj' hnd.2 (by simp; omega) fuel' hf' (c :: t) hK
  rw [this]; simp

/-- a dictionary reads back if its entry sequence does; `ReadObject` then skips white space to
    look for `stream` -/
theorem rb_dict {kv : List (Bytes × Obj)} {body : Bytes} (hr : RendersKV Gen.scanner_maxNameBytes kv body)
    (hC : KVRB kv body) : RB (.dict kv) (60 :: 60 :: (body ++ [62, 62])) := by
  intro hc hu _ d hd k _ hns fuel hf
  simp only [capsOK, Bool.and_eq_true, decide_eq_true_eq] at hc
  simp only [uniqueKeys, Bool.and_eq_true, decide_eq_true_eq] at hu
  simp only [depthOf] at hd
  have e : 60 :: 60 :: (body ++ [62, 62]) ++ k = 60 :: 60 :: (body ++ 62 :: 62 :: k) := by simp
  rw [e] at hf ⊢
  simp only [List.length_cons, List.length_append] at hf
  obtain ⟨f, rfl⟩ : ∃ f, fuel = f + 1 + 1 := ⟨fuel - 2, by omega⟩
  obtain ⟨⟨c, t, hK, _⟩, _⟩ := kv_cont hr k
  have hloop := hC hc.2 hu.2 (d + 1) (by omega) [] k (by simp [keysOf]) hu.1 (by simpa using hc.1)
    f (by simp; omega) (c :: t) hK
  have hdd : ¬ (d ≥ Gen.scanner_maxScannerNestDepth) := by omega
  have hns' := hns rfl
  unfold NoStream at hns'
  rw [readObject_dict, readDict]
  simp only [hdd, if_false, hK, hloop]
  simp [Except.mapError, hns', restAfter, isDictObj]

end PdfVerif.C04L

import PdfVerif.Model.Scan
/-!
C01 helper lemmas: fuel monotonicity of the scanner model.  The five mutually recursive readers
(`readObject`, `readArray`, `readArrayLoop`, `readDict`, `readDictLoop`) take a fuel argument;
a successful result is never changed by more fuel.  (The round-trip theorems do not need this:
they are stated for every fuel above an explicit bound.  It is what makes `parseObject`'s choice
of `scanFuel` irrelevant for successful parses.)
-/
set_option linter.unusedSimpArgs false
namespace PdfVerif.C01L
open PdfVerif

/-- "more fuel keeps every successful result" for one fuel value -/
def MonoAt (f : Nat) : Prop :=
  (∀ d inp r, readObject f d inp = .ok r → readObject (f + 1) d inp = .ok r) ∧
  (∀ d inp r, readArray f d inp = .ok r → readArray (f + 1) d inp = .ok r) ∧
  (∀ d acc ints inp r, readArrayLoop f d acc ints inp = .ok r → readArrayLoop (f + 1) d acc ints inp = .ok r) ∧
  (∀ d inp r, readDict f d inp = .ok r → readDict (f + 1) d inp = .ok r) ∧
  (∀ d acc inp r, readDictLoop f d acc inp = .ok r → readDictLoop (f + 1) d acc inp = .ok r)

theorem mono_zero : MonoAt 0 := by
  refine ⟨?_, ?_, ?_, ?_, ?_⟩ <;> intros <;> rename_i h <;> simp [readObject, readArray, readArrayLoop, readDict, readDictLoop] at h

theorem mono_arrayLoop (f : Nat) (ih : MonoAt f) :
    ∀ d acc ints inp r, readArrayLoop (f + 1) d acc ints inp = .ok r →
      readArrayLoop (f + 1 + 1) d acc ints inp = .ok r := by
  obtain ⟨ihO, _, ihL, _, _⟩ := ih
  intro d acc ints inp r h
  rw [readArrayLoop] at h ⊢
  cases hsk : skipWS inp with
  | mk a b =>
    rw [hsk] at h
    cases b with
    | true => simp at h
    | false =>
      cases a with
      | nil => simp at h
      | cons c rest =>
        simp only at h ⊢
        by_cases h93 : (c == 93) = true
        · simp only [h93, if_true] at h ⊢; exact h
        · simp only [h93, if_false, Bool.false_eq_true] at h ⊢
          by_cases hR : (decide (ints ≥ 2) && c == 82) = true
          · simp only [hR, if_true] at h ⊢
            split at h
            · exact ihL _ _ _ _ _ h
            · simp at h
          · simp only [hR, if_false, Bool.false_eq_true] at h ⊢
            cases hro : readObject f d (c :: rest) with
            | error e => simp [hro] at h
            | ok p =>
              obtain ⟨o, r'⟩ := p
              rw [ihO _ _ _ hro]
              simp only [hro] at h
              simp only
              split at h
              · simp at h
              · rename_i hl; simp only [hl, if_false]; exact ihL _ _ _ _ _ h

theorem mono_array (f : Nat) (ih : MonoAt f) :
    ∀ d inp r, readArray (f + 1) d inp = .ok r → readArray (f + 1 + 1) d inp = .ok r := by
  obtain ⟨_, _, ihL, _, _⟩ := ih
  intro d inp r h
  rw [readArray] at h ⊢
  split at h
  · simp at h
  · rename_i hd
    simp only [hd, if_false]
    cases hl : readArrayLoop f (d + 1) [] 0 inp with
    | error e => simp [hl, Except.mapError] at h
    | ok p => rw [ihL _ _ _ _ _ hl]; simpa [hl] using h

theorem mono_dict (f : Nat) (ih : MonoAt f) :
    ∀ d inp r, readDict (f + 1) d inp = .ok r → readDict (f + 1 + 1) d inp = .ok r := by
  obtain ⟨_, _, _, _, ihDL⟩ := ih
  intro d inp r h
  by_cases hshape : ∃ rest, inp = 60 :: 60 :: rest
  · obtain ⟨rest, rfl⟩ := hshape
    rw [readDict] at h ⊢
    split at h
    · simp at h
    · rename_i hd
      simp only [hd, if_false]
      cases hsk : skipWS rest with
      | mk a b =>
        rw [hsk] at h
        cases b with
        | true => simp at h
        | false =>
          simp only at h ⊢
          cases hl : readDictLoop f (d + 1) [] a with
          | error e => simp [hl, Except.mapError] at h
          | ok p => rw [ihDL _ _ _ _ hl]; simpa [hl] using h
  · rw [readDict] at h
    · split at h <;> simp at h
    · intro rest hr; exact hshape ⟨rest, hr⟩

theorem mono_object (f : Nat) (ih : MonoAt f) :
    ∀ d inp r, readObject (f + 1) d inp = .ok r → readObject (f + 1 + 1) d inp = .ok r := by
  obtain ⟨_, ihA, _, ihD, _⟩ := ih
  intro d inp r h
  cases inp with
  | nil => rw [readObject] at h; simp at h
  | cons c rest =>
    rw [readObject] at h ⊢
    simp only at h ⊢
    split at h
    · rename_i h1; simp only [h1, if_true]; exact h
    · rename_i h1; simp only [h1, if_false]
      split at h
      · rename_i h2; simp only [h2, if_true]; exact h
      · rename_i h2; simp only [h2, if_false]
        split at h
        · rename_i h3; simp only [h3, if_true]; exact h
        · rename_i h3; simp only [h3, if_false]
          split at h
          · rename_i h4; simp only [h4, if_true]; exact h
          · rename_i h4; simp only [h4, if_false]
            split at h
            · rename_i h5; simp only [h5, if_true]; exact h
            · rename_i h5; simp only [h5, if_false]
              split at h
              · rename_i h6; simp only [h6, if_true]
                cases hd : readDict f d (c :: rest) with
                | error e => simp [hd] at h
                | ok p => rw [ihD _ _ _ hd]; simpa [hd] using h
              · rename_i h6; simp only [h6, if_false]
                split at h
                · rename_i h7; simp only [h7, if_true]; exact h
                · rename_i h7; simp only [h7, if_false]
                  split at h
                  · rename_i h8; simp only [h8, if_true]; exact h
                  · rename_i h8; simp only [h8, if_false]
                    split at h
                    · rename_i h9; simp only [h9, if_true]
                      cases ha : readArray f d rest with
                      | error e => simp [ha, Except.map] at h
                      | ok p => rw [ihA _ _ _ ha]; simpa [ha] using h
                    · simp at h
theorem mono_dictLoop_core (f : Nat)
    (ihO : ∀ d inp r, readObject f d inp = .ok r → readObject (f + 1) d inp = .ok r)
    (ihDL : ∀ d acc inp r, readDictLoop f d acc inp = .ok r → readDictLoop (f + 1) d acc inp = .ok r) :
    ∀ d acc inp r, readDictLoop (f + 1) d acc inp = .ok r → readDictLoop (f + 1 + 1) d acc inp = .ok r := by
  intro d acc inp r h
  by_cases hshape : ∃ rest, inp = 62 :: 62 :: rest
  · obtain ⟨rest, rfl⟩ := hshape
    rw [readDictLoop] at h ⊢
    simpa [readName] using h
  · have hside : ∀ rest, inp = 62 :: 62 :: rest → False := fun rest hr => hshape ⟨rest, hr⟩
    rw [readDictLoop] at h
    case x_5 => exact hside
    rw [readDictLoop]
    case x_5 => exact hside
    cases hn : readName inp with
    | error e => simp [hn] at h
    | ok p =>
      obtain ⟨key, r1⟩ := p
      simp only [hn] at h ⊢
      cases hs1 : skipWS r1 with
      | mk a b =>
        rw [hs1] at h
        cases b with
        | true => simp at h
        | false =>
          simp only at h ⊢
          cases hro : readObject f d a with
          | error e => simp [hro] at h
          | ok p2 =>
            obtain ⟨val, r2⟩ := p2
            rw [ihO _ _ _ hro]
            simp only [hro] at h
            simp only
            cases hs2 : skipWS r2 with
            | mk a2 b2 =>
              rw [hs2] at h
              cases b2 with
              | true => simp at h
              | false =>
                simp only at h ⊢
                -- the common tail: `cont`
                have hcont : ∀ (v : Obj) (rr : Bytes),
                    (if ((!acc.any fun e => e.fst == key) && decide (acc.length ≥ Gen.scanner_maxDictLen)) = true then
                        (Except.error Err.malformed : Except Err (List (Bytes × Obj) × Bytes))
                      else readDictLoop f d (dictInsert key v acc) rr) = .ok r →
                    (if ((!acc.any fun e => e.fst == key) && decide (acc.length ≥ Gen.scanner_maxDictLen)) = true then
                        (Except.error Err.malformed : Except Err (List (Bytes × Obj) × Bytes))
                      else readDictLoop (f + 1) d (dictInsert key v acc) rr) = .ok r := by
                  intro v rr hh
                  split at hh
                  · simp at hh
                  · rename_i hc; simp only [hc, if_false]; exact ihDL _ _ _ _ hh
                split at h
                · rename_i a c tail
                  split at h
                  · rename_i hc
                    simp only [hc, if_true]
                    cases hri : readInteger (c :: tail) with
                    | error e => simp [hri] at h
                    | ok p3 =>
                      obtain ⟨b, r3⟩ := p3
                      simp only [hri] at h ⊢
                      cases hs3 : skipWS r3 with
                      | mk a3 b3 =>
                        rw [hs3] at h
                        cases b3 with
                        | true => simp at h
                        | false =>
                          cases a3 with
                          | nil => simp at h
                          | cons x t3 =>
                            by_cases hx : x = 82
                            · subst hx
                              simp only at h ⊢
                              cases hs4 : skipWS t3 with
                              | mk a4 b4 =>
                                rw [hs4] at h
                                cases b4 with
                                | true => simp at h
                                | false => simp only at h ⊢; exact hcont _ _ h
                            · exfalso
                              split at h
                              · simp at h
                              · rename_i heq; simp at heq; exact hx heq.1
                              · simp at h
                  · rename_i hc
                    simp only [hc, if_false]
                    exact hcont _ _ h
                · rename_i hneg
                  exact hcont _ _ h

theorem mono_all : ∀ f, MonoAt f := by
  intro f
  induction f with
  | zero => exact mono_zero
  | succ f ih =>
    exact ⟨mono_object f ih, mono_array f ih, mono_arrayLoop f ih, mono_dict f ih,
      mono_dictLoop_core f ih.1 ih.2.2.2.2⟩

end PdfVerif.C01L

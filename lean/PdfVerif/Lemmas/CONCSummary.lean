import PdfVerif.Lemmas.CONCExclStep
/-!
A summary of what one transition does to the exclusive-decode bookkeeping (`wip`, `pend`,
`npend`, the pendings owned by the stacks), proved once by case analysis and reused by the
invariants about markers.
-/
namespace PdfVerif.CONC

theorem exClose_mem_deliverStack {rest : List Frame} {res : Res} {k : Key} {p : Pid} {r : Res}
    (h : Frame.exClose k p r ∈ deliverStack rest res) : Frame.exClose k p r ∈ rest := by
  unfold deliverStack at h
  split at h
  · rcases List.mem_cons.mp h with e | e
    · cases e
    · exact List.mem_cons_of_mem _ e
  · exact h

theorem exClose_mem_decLoopStack {s : State} {rest : List Frame} {tp refs path o} {k : Key} {p : Pid}
    {r : Res} (h : Frame.exClose k p r ∈ decLoopStack s rest tp refs path o) :
    Frame.exClose k p r ∈ rest := by
  unfold decLoopStack at h
  split at h
  · rcases List.mem_cons.mp h with e | e
    · cases e
    · exact e
  · split at h
    · exact exClose_mem_deliverStack h
    · split at h
      · exact exClose_mem_deliverStack h
      · split at h
        · exact exClose_mem_deliverStack h
        · rcases List.mem_cons.mp h with e | e
          · cases e
          · exact e

/-- a transition which leaves the bookkeeping alone -/
structure Quiet (s s' : State) (t : Tid) : Prop where
  wip : s'.wip = s.wip
  pend : s'.pend = s.pend
  npend : s'.npend = s.npend
  owned : owned (s'.thr t) = owned (s.thr t)
  others : ∀ t', t' ≠ t → s'.thr t' = s.thr t'
  closing : ∀ k p r, Frame.exClose k p r ∈ s'.thr t → Frame.exClose k p r ∈ s.thr t

/-- the five kinds of transitions, as far as markers are concerned -/
inductive StepKind (cfg : Cfg) (s s' : State) (t : Tid) : Prop where
  | quiet : Quiet s s' t → StepKind cfg s s' t
  | register (k : Key) (path : List Ref) : s.wip k = none →
      s' = { s with pend := upd s.pend s.npend ⟨false, none, k⟩, npend := s.npend + 1,
                    wip := upd s.wip k (some s.npend),
                    thr := upd s.thr t (.exStart k s.npend path :: s.thr t) } → StepKind cfg s s' t
  | publish (k : Key) (p : Pid) (res : Res) (rest : List Frame) : s.thr t = .exPub k p res :: rest →
      s' = { s with pend := upd s.pend p ⟨(s.pend p).done, some res, (s.pend p).key⟩,
                    wip := upd s.wip k none,
                    thr := upd s.thr t (.exClose k p res :: rest) } → StepKind cfg s s' t
  | close (k : Key) (p : Pid) (res : Res) (rest : List Frame) : s.thr t = .exClose k p res :: rest →
      s' = { s with pend := upd s.pend p ⟨true, (s.pend p).out, (s.pend p).key⟩,
                    thr := upd s.thr t (.exDone k p res :: rest) } → StepKind cfg s s' t
  | crash (ev : Event) : s' = CONC.crash s t ev → StepKind cfg s s' t

theorem quiet_of_thr {s s' : State} {t : Tid} {stk : List Frame} (hthr : s'.thr = upd s.thr t stk)
    (hw : s'.wip = s.wip) (hp : s'.pend = s.pend) (hn : s'.npend = s.npend)
    (ho : owned stk = owned (s.thr t))
    (hc : ∀ k p r, Frame.exClose k p r ∈ stk → Frame.exClose k p r ∈ s.thr t) : Quiet s s' t := by
  refine ⟨hw, hp, hn, ?_, ?_, ?_⟩
  · rw [hthr]; simp [ho]
  · intro t' h; rw [hthr, upd_other _ _ _ _ h]
  · intro k p r h; rw [hthr] at h; simp at h; exact hc k p r h

theorem step_kind {cfg : Cfg} {s s' : State} {t : Tid} {a : Act} (h : step cfg s t a = some s') :
    StepKind cfg s s' t := by
  unfold CONC.step at h
  cases a with
  | callDecode o tp path =>
    simp only at h
    split at h
    · cases h
      exact .quiet (quiet_of_thr (decLoop_thr ..) (decLoop_wip ..) (decLoop_pend ..) (decLoop_npend ..)
        (owned_decLoopStack ..) (fun k p r h => exClose_mem_decLoopStack h))
    · cases h
  | callPair r A B a b =>
    simp only at h
    split at h
    · cases h
      exact .quiet (quiet_of_thr (stk := s.thr t) (by rw [pairCall_thr, upd_self]) (pairCall_wip ..)
        (pairCall_pend ..) (pairCall_npend ..) rfl (fun k p r h => h))
    · cases h
  | callExcl o tp path =>
    simp only at h
    split at h
    · cases h
      unfold exclCall
      cases o with
      | direct =>
        exact .quiet (quiet_of_thr (stk := .exFn tp path :: s.thr t) rfl rfl rfl rfl (owned_cons_none _ rfl)
          (by intro k p r h; rcases List.mem_cons.mp h with e | e
              · cases e
              · exact e))
      | ref r =>
        simp only
        cases hc : s.cache (r, tp) with
        | some v =>
          simp only
          exact .quiet (quiet_of_thr (retExc_thr ..) (retExc_wip ..) (retExc_pend ..) (retExc_npend ..)
            (owned_deliverStack ..) (fun k p r h => exClose_mem_deliverStack h))
        | none =>
          simp only
          cases hw : s.wip (r, tp) with
          | some p =>
            simp only
            exact .quiet (quiet_of_thr (stk := .exWait (r, tp) p :: s.thr t) rfl rfl rfl rfl
              (owned_cons_none _ rfl)
              (by intro k p' r' h; rcases List.mem_cons.mp h with e | e
                  · cases e
                  · exact e))
          | none =>
            simp only
            exact .register (r, tp) path hw rfl
    · cases h
  | fnRet res =>
    simp only at h
    split at h
    · next tp refs path rest e =>
      cases h
      have hq : ∀ (s1 : State) (res' : Res), s1.thr = upd s.thr t (deliverStack rest res') →
          s1.wip = s.wip → s1.pend = s.pend → s1.npend = s.npend → Quiet s s1 t := by
        intro s1 res' h1 h2 h3 h4
        exact quiet_of_thr h1 h2 h3 h4 (by rw [e, owned_deliverStack, owned_cons_none _ rfl])
          (by intro k p r h; rw [e]; exact List.mem_cons_of_mem _ (exClose_mem_deliverStack h))
      cases res with
      | panic => exact .crash _ rfl
      | err er => exact .quiet (hq _ _ (retDec_thr ..) (retDec_wip ..) (retDec_pend ..) (retDec_npend ..))
      | ok v =>
        cases refs with
        | nil => exact .quiet (hq _ _ (retDec_thr ..) (retDec_wip ..) (retDec_pend ..) (retDec_npend ..))
        | cons r0 rs => exact .quiet (hq _ _ (retDec_thr ..) (retDec_wip ..) (retDec_pend ..) (retDec_npend ..))
    · next tp path rest e =>
      have hq : ∀ (res' : Res) o tp', Quiet s (retExc s t rest o tp' res' none) t := by
        intro res' o tp'
        exact quiet_of_thr (retExc_thr ..) (retExc_wip ..) (retExc_pend ..) (retExc_npend ..)
          (by rw [e, owned_deliverStack, owned_cons_none _ rfl])
          (by intro k p r h; rw [e]; exact List.mem_cons_of_mem _ (exClose_mem_deliverStack h))
      cases res with
      | panic => cases h; exact .crash _ rfl
      | err er => cases h; exact .quiet (hq _ _ _)
      | ok v => cases h; exact .quiet (hq _ _ _)
    · cases h
  | goFail =>
    simp only at h
    split at h
    · next tp refs path r rest e =>
      cases h
      exact .quiet (quiet_of_thr (retDec_thr ..) (retDec_wip ..) (retDec_pend ..) (retDec_npend ..)
        (by rw [e, owned_deliverStack, owned_cons_none _ rfl])
        (by intro k p r h; rw [e]; exact List.mem_cons_of_mem _ (exClose_mem_deliverStack h)))
    · cases h
  | go =>
    simp only at h
    split at h
    · next tp refs path r rest e =>
      split at h
      · cases h
        exact .quiet (quiet_of_thr (retDec_thr ..) (retDec_wip ..) (retDec_pend ..) (retDec_npend ..)
          (by rw [e, owned_deliverStack, owned_cons_none _ rfl])
          (by intro k p r h; rw [e]; exact List.mem_cons_of_mem _ (exClose_mem_deliverStack h)))
      · cases h
        exact .quiet (quiet_of_thr (decLoop_thr ..) (decLoop_wip ..) (decLoop_pend ..) (decLoop_npend ..)
          (by rw [e, owned_decLoopStack, owned_cons_none _ rfl])
          (by intro k p r h; rw [e]; exact List.mem_cons_of_mem _ (exClose_mem_decLoopStack h)))
      · cases h
        exact .quiet (quiet_of_thr (decLoop_thr ..) (decLoop_wip ..) (decLoop_pend ..) (decLoop_npend ..)
          (by rw [e, owned_decLoopStack, owned_cons_none _ rfl])
          (by intro k p r h; rw [e]; exact List.mem_cons_of_mem _ (exClose_mem_decLoopStack h)))
    · next k p path rest e =>
      cases h
      refine .quiet (quiet_of_thr (stk := decLoopStack s (.exRun k p :: rest) k.2 [] path (.ref k.1)) ?_
        (decLoop_wip ..) (decLoop_pend ..) (decLoop_npend ..) ?_ ?_)
      · rw [decLoop_thr]
        show upd (upd s.thr t _) t _ = _
        rw [upd_upd]; rfl
      · rw [e, owned_decLoopStack, owned_cons_some _ rfl, owned_cons_some _ rfl]
      · intro k' p' r h
        have := exClose_mem_decLoopStack h
        rw [e]
        rcases List.mem_cons.mp this with e' | e'
        · cases e'
        · exact List.mem_cons_of_mem _ e'
    · next k p res rest e => cases h; exact .publish k p res rest e rfl
    · next k p res rest e => cases h; exact .close k p res rest e rfl
    · next k p res rest e =>
      cases h
      exact .quiet (quiet_of_thr (retExc_thr ..) (retExc_wip ..) (retExc_pend ..) (retExc_npend ..)
        (by rw [e, owned_deliverStack, owned_cons_none _ rfl])
        (by intro k' p' r h; rw [e]; exact List.mem_cons_of_mem _ (exClose_mem_deliverStack h)))
    · next k p rest e =>
      have hq : ∀ (res' : Res) o tp' pp, Quiet s (retExc s t rest o tp' res' pp) t := by
        intro res' o tp' pp
        exact quiet_of_thr (retExc_thr ..) (retExc_wip ..) (retExc_pend ..) (retExc_npend ..)
          (by rw [e, owned_deliverStack, owned_cons_none _ rfl])
          (by intro k' p' r h; rw [e]; exact List.mem_cons_of_mem _ (exClose_mem_deliverStack h))
      split at h
      · split at h
        · cases h; exact .quiet (hq _ _ _ _)
        · cases h; exact .quiet (hq _ _ _ _)
        · cases h
        · cases h; exact .quiet (hq _ _ _ _)
      · cases h
    · cases h

end PdfVerif.CONC

import PdfVerif.Model.FNTMap
/-! Lemmas about the association-list model of Go maps (`Model/FNTMap.lean`). -/
set_option linter.unusedSimpArgs false
set_option linter.unusedSectionVars false
namespace PdfVerif.FNT.Map
variable {α β : Type} [DecidableEq α]

@[simp] theorem get_nil (k : α) : get ([] : Map α β) k = none := rfl

theorem get_cons (k' : α) (v : β) (r : Map α β) (k : α) :
    get ((k', v) :: r) k = if k' = k then some v else get r k := rfl

theorem get_erase_self (m : Map α β) (k : α) : get (erase m k) k = none := by
  induction m with
  | nil => simp [erase]
  | cons p r ih =>
    obtain ⟨k', v⟩ := p
    by_cases h : k' = k
    · simp [erase, List.filter_cons, h] at ih ⊢; exact ih
    · simp [erase, List.filter_cons, h, get_cons] at ih ⊢; exact ih

theorem get_erase_ne (m : Map α β) {k k' : α} (h : k ≠ k') : get (erase m k) k' = get m k' := by
  induction m with
  | nil => simp [erase]
  | cons p r ih =>
    obtain ⟨k0, v⟩ := p
    by_cases h0 : k0 = k
    · subst h0
      simp [erase, List.filter_cons, get_cons, h] at ih ⊢; exact ih
    · simp [erase, List.filter_cons, h0, get_cons] at ih ⊢
      rw [ih]

@[simp] theorem get_insert_self (m : Map α β) (k : α) (v : β) : get (insert m k v) k = some v := by
  simp [insert, get_cons]

theorem get_insert_ne (m : Map α β) {k k' : α} (v : β) (h : k ≠ k') :
    get (insert m k v) k' = get m k' := by
  simp [insert, get_cons, h, get_erase_ne m h]

theorem get_insert (m : Map α β) (k k' : α) (v : β) :
    get (insert m k v) k' = if k = k' then some v else get m k' := by
  by_cases h : k = k'
  · subst h; simp
  · simp [h, get_insert_ne m v h]

theorem erase_of_get_none (m : Map α β) (k : α) (h : get m k = none) : erase m k = m := by
  induction m with
  | nil => simp [erase]
  | cons p r ih =>
    obtain ⟨k0, v⟩ := p
    by_cases h0 : k0 = k
    · simp [get_cons, h0] at h
    · simp [get_cons, h0] at h
      have := ih h
      simp [erase, List.filter_cons, h0] at this ⊢
      exact this

theorem size_insert_of_none (m : Map α β) (k : α) (v : β) (h : get m k = none) :
    size (insert m k v) = size m + 1 := by
  simp [insert, size, erase_of_get_none m k h]

theorem size_erase_le (m : Map α β) (k : α) : size (erase m k) ≤ size m := by
  simp [size, erase]; exact List.length_filter_le _ _

theorem mem_keys_of_get {m : Map α β} {k : α} {v : β} (h : get m k = some v) : k ∈ keys m := by
  induction m with
  | nil => simp at h
  | cons p r ih =>
    obtain ⟨k0, v0⟩ := p
    by_cases h0 : k0 = k
    · simp [keys, h0]
    · simp [get_cons, h0] at h
      have := ih h
      simp [keys] at this ⊢
      exact Or.inr this

theorem get_of_mem_keys {m : Map α β} {k : α} (h : k ∈ keys m) : ∃ v, get m k = some v := by
  induction m with
  | nil => simp [keys] at h
  | cons p r ih =>
    obtain ⟨k0, v0⟩ := p
    by_cases h0 : k0 = k
    · exact ⟨v0, by simp [get_cons, h0]⟩
    · simp [keys] at h
      rcases h with h | h
      · exact absurd h.symm h0
      · obtain ⟨v, hv⟩ := ih (by simpa [keys] using h)
        exact ⟨v, by simp [get_cons, h0, hv]⟩

theorem get_none_iff_not_mem_keys {m : Map α β} {k : α} : get m k = none ↔ k ∉ keys m := by
  constructor
  · intro h hm
    obtain ⟨v, hv⟩ := get_of_mem_keys hm
    simp [h] at hv
  · intro h
    cases hg : get m k with
    | none => rfl
    | some v => exact absurd (mem_keys_of_get hg) h

/-- keys occur once: the invariant every map built by `insert` has -/
def NodupKeys (m : Map α β) : Prop := (keys m).Nodup

theorem nodupKeys_nil : NodupKeys ([] : Map α β) := by simp [NodupKeys, keys]

theorem keys_erase (m : Map α β) (k : α) : keys (erase m k) = (keys m).filter (fun x => !decide (x = k)) := by
  induction m with
  | nil => simp [erase, keys]
  | cons p r ih =>
    obtain ⟨k0, v⟩ := p
    simp only [keys, erase] at ih ⊢
    by_cases h0 : k0 = k <;> simp [List.filter_cons, h0, ih]

theorem nodupKeys_erase {m : Map α β} (h : NodupKeys m) (k : α) : NodupKeys (erase m k) := by
  unfold NodupKeys at *
  rw [keys_erase]
  exact List.Nodup.sublist List.filter_sublist h

theorem nodupKeys_insert {m : Map α β} (h : NodupKeys m) (k : α) (v : β) : NodupKeys (insert m k v) := by
  have h1 := nodupKeys_erase h k
  unfold NodupKeys at *
  simp only [insert, keys, List.map_cons, List.nodup_cons]
  refine ⟨?_, h1⟩
  have : get (erase m k) k = none := get_erase_self m k
  exact get_none_iff_not_mem_keys.mp this

theorem mem_keys_insert {m : Map α β} {k k' : α} {v : β} (h : k' ∈ keys (insert m k v)) :
    k' = k ∨ k' ∈ keys m := by
  obtain ⟨w, hw⟩ := get_of_mem_keys h
  by_cases hk : k = k'
  · exact Or.inl hk.symm
  · rw [get_insert_ne m v hk] at hw
    exact Or.inr (mem_keys_of_get hw)

/-- pigeonhole: a map with fewer than `n` keys, all below `n`, has a free key below `n` -/
theorem exists_free {β : Type} (m : Map Nat β) (n : Nat) (hsz : size m < n) :
    ∃ c, c < n ∧ get m c = none := by
  apply Classical.byContradiction
  intro hno
  have hall : ∀ c, c < n → c ∈ keys m := by
    intro c hc
    apply Classical.byContradiction
    intro hnm
    exact hno ⟨c, hc, get_none_iff_not_mem_keys.mpr hnm⟩
  have hsub : List.range n ⊆ keys m := by
    intro c hc
    exact hall c (List.mem_range.mp hc)
  have := List.Nodup.length_le_of_subset List.nodup_range hsub
  simp [keys, size] at this hsz
  omega

end PdfVerif.FNT.Map

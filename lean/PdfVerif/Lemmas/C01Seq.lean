import PdfVerif.Lemmas.C01Tok
/-!
C01 helper lemmas: inversion of the formatter's sequence functions, the shape of the bytes
written for one object, and the continuation (`Cont`) facts for sequences and dictionaries.
-/
namespace PdfVerif.C01L
open PdfVerif PdfVerif.C01b

/-! ### inversion lemmas for the formatter -/

theorem fmtSeq_cons_inv (opt : FmtOpt) (ns : Bool) (x : Obj) (xs : List Obj) (body : Bytes) :
    fmtSeq opt ns (x :: xs) = some body ↔
      ∃ a ns1 b, fmtObj opt ns x = some (a, ns1) ∧ fmtSeq opt ns1 xs = some b ∧ body = a ++ b := by
  simp only [fmtSeq]
  constructor
  · intro h
    cases h1 : fmtObj opt ns x with
    | none => simp [h1] at h
    | some p =>
      obtain ⟨a, ns1⟩ := p
      simp [h1] at h
      cases h2 : fmtSeq opt ns1 xs with
      | none => simp [h2] at h
      | some b => simp [h2] at h; exact ⟨a, ns1, b, rfl, h2, h.symm⟩
  · rintro ⟨a, ns1, b, h1, h2, h3⟩
    simp [h1, h2, h3]

theorem fmtSeqPretty_cons_inv (opt : FmtOpt) (first : Bool) (x : Obj) (xs : List Obj) (body : Bytes) :
    fmtSeqPretty opt first (x :: xs) = some body ↔
      ∃ a ns1 b, fmtObj opt false x = some (a, ns1) ∧ fmtSeqPretty opt false xs = some b ∧
        body = (if first then [] else [32]) ++ a ++ b := by
  simp only [fmtSeqPretty]
  constructor
  · intro h
    cases h1 : fmtObj opt false x with
    | none => simp [h1] at h
    | some p =>
      obtain ⟨a, ns1⟩ := p
      simp [h1] at h
      cases h2 : fmtSeqPretty opt false xs with
      | none => simp [h2] at h
      | some b => simp [h2] at h; exact ⟨a, ns1, b, rfl, rfl, by simp [← h]⟩
  · rintro ⟨a, ns1, b, h1, h2, h3⟩
    simp [h1, h2, h3]

theorem fmtObj_arr_inv (opt : FmtOpt) (ns : Bool) (xs : List Obj) (bs : Bytes) (ns' : Bool) :
    fmtObj opt ns (.arr xs) = some (bs, ns') ↔
      ∃ body, (if opt.pretty then fmtSeqPretty opt true xs else fmtSeq opt false xs) = some body ∧
        bs = 91 :: (body ++ [93]) ∧ ns' = false := by
  simp only [fmtObj]
  cases hp : opt.pretty
  · simp only [Bool.false_eq_true, if_false]
    cases h : fmtSeq opt false xs with
    | none => simp
    | some body => simp; intro _; exact eq_comm
  · simp only [if_true]
    cases h : fmtSeqPretty opt true xs with
    | none => simp
    | some body => simp; intro _; exact eq_comm


theorem fmtObj_dict_inv (opt : FmtOpt) (ns : Bool) (kv : List (Bytes × Obj)) (bs : Bytes) (ns' : Bool) :
    fmtObj opt ns (.dict kv) = some (bs, ns') ↔
      ∃ body, (if opt.pretty then fmtDictPretty opt kv else fmtDictPlain opt kv) = some body ∧
        bs = [60, 60] ++ (if opt.pretty then [10] else []) ++ body ++
            (if !opt.pretty && lastIsGtOp kv then [32] else []) ++ [62, 62] ∧ ns' = false := by
  simp only [fmtObj]
  cases hp : opt.pretty
  · simp only [Bool.false_eq_true, if_false]
    cases h : fmtDictPlain opt kv with
    | none => simp
    | some body => simp; intro _; exact eq_comm
  · simp only [if_true]
    cases h : fmtDictPretty opt kv with
    | none => simp
    | some body => simp; intro _; exact eq_comm


theorem fmtDictPlain_cons_eq (opt : FmtOpt) (k : Bytes) (v : Obj) (rest : List (Bytes × Obj)) :
    fmtDictPlain opt ((k, v) :: rest) =
      (fmtDictPlain opt rest).bind fun b =>
        match v with
        | .null => some b
        | v => (fmtObj opt true v).bind fun p => some (fmtName k ++ p.1 ++ b) := by
  rw [fmtDictPlain]
  rfl

theorem fmtDictPretty_cons_eq (opt : FmtOpt) (k : Bytes) (v : Obj) (rest : List (Bytes × Obj)) :
    fmtDictPretty opt ((k, v) :: rest) =
      (fmtDictPretty opt rest).bind fun b =>
        match v with
        | .null => some b
        | v => (fmtObj opt false v).bind fun p => some (fmtName k ++ [32] ++ p.1 ++ [10] ++ b) := by
  rw [fmtDictPretty]
  rfl

theorem fmtDictPlain_cons_inv (opt : FmtOpt) (k : Bytes) (v : Obj) (rest : List (Bytes × Obj)) (body : Bytes) :
    fmtDictPlain opt ((k, v) :: rest) = some body ↔
      ∃ b, fmtDictPlain opt rest = some b ∧
        ((v = .null ∧ body = b) ∨
         (v ≠ .null ∧ ∃ a ns1, fmtObj opt true v = some (a, ns1) ∧ body = fmtName k ++ a ++ b)) := by
  rw [fmtDictPlain_cons_eq]
  cases h1 : fmtDictPlain opt rest with
  | none => simp
  | some b =>
    cases h2 : fmtObj opt true v with
    | none => cases v <;> simp_all <;> exact eq_comm
    | some p =>
      obtain ⟨a, ns1⟩ := p
      cases v <;> simp_all <;> exact eq_comm

theorem fmtDictPretty_cons_inv (opt : FmtOpt) (k : Bytes) (v : Obj) (rest : List (Bytes × Obj)) (body : Bytes) :
    fmtDictPretty opt ((k, v) :: rest) = some body ↔
      ∃ b, fmtDictPretty opt rest = some b ∧
        ((v = .null ∧ body = b) ∨
         (v ≠ .null ∧ ∃ a ns1, fmtObj opt false v = some (a, ns1) ∧
            body = fmtName k ++ 32 :: (a ++ 10 :: b))) := by
  rw [fmtDictPretty_cons_eq]
  cases h1 : fmtDictPretty opt rest with
  | none => simp
  | some b =>
    cases h2 : fmtObj opt false v with
    | none => cases v <;> simp_all <;> exact eq_comm
    | some p =>
      obtain ⟨a, ns1⟩ := p
      cases v <;> simp_all <;> exact eq_comm

/-! ### shape of the bytes of one object -/

theorem fmtString_head (pretty : Bool) (s : Bytes) : ∃ c t, fmtString pretty s = c :: t ∧ (c = 40 ∨ c = 60) := by
  unfold fmtString
  simp only []
  split
  · exact ⟨60, _, rfl, .inr rfl⟩
  · exact ⟨40, _, rfl, .inl rfl⟩

theorem objStart_digit {c : Nat} (h : isDigit c = true) : objStart c = true := by simp [objStart, h]

/-- The bytes written for a good object under `needSep = ns` are the bytes written under
`needSep = false`, possibly preceded by one space (only if `ns`); they start with a token
start, and with a delimiter whenever `ns` is set and no space was written. -/
theorem fmtObj_shape (opt : FmtOpt) (ns : Bool) (o : Obj) (bs : Bytes) (ns' : Bool)
    (hg : good o = true) (h : fmtObj opt ns o = some (bs, ns')) :
    ∃ tok c t, fmtObj opt false o = some (tok, ns') ∧ tok = c :: t ∧ objStart c = true ∧
      ((bs = tok ∧ (ns = true → isRegular c = false)) ∨ (ns = true ∧ bs = 32 :: tok)) := by
  have sepcase : ∀ (tok : Bytes) (c : Nat) (t : Bytes), tok = c :: t → objStart c = true →
      fmtObj opt false o = some (tok, ns') → bs = sep ns ++ tok →
      ∃ tok c t, fmtObj opt false o = some (tok, ns') ∧ tok = c :: t ∧ objStart c = true ∧
        ((bs = tok ∧ (ns = true → isRegular c = false)) ∨ (ns = true ∧ bs = 32 :: tok)) := by
    intro tok c t h1 h2 h3 h4
    refine ⟨tok, c, t, h3, h1, h2, ?_⟩
    cases ns
    · left; simp [sep] at h4; exact ⟨h4, by simp⟩
    · right; simp [sep] at h4; exact ⟨rfl, h4⟩
  cases o with
  | op o => simp [good] at hg
  | null =>
    simp [fmtObj] at h; obtain ⟨rfl, rfl⟩ := h
    exact sepcase kw_null 110 _ rfl (by decide) (by simp [fmtObj, sep, kw_null]) (by simp [kw_null])
  | nilArr =>
    simp [fmtObj] at h; obtain ⟨rfl, rfl⟩ := h
    exact sepcase kw_null 110 _ rfl (by decide) (by simp [fmtObj, sep, kw_null]) (by simp [kw_null])
  | bool b =>
    cases b <;> simp [fmtObj] at h <;> obtain ⟨rfl, rfl⟩ := h
    · exact sepcase kw_false 102 _ rfl (by decide) (by simp [fmtObj, sep, kw_false]) (by simp [kw_false])
    · exact sepcase kw_true 116 _ rfl (by decide) (by simp [fmtObj, sep, kw_true]) (by simp [kw_true])
  | int i =>
    simp [fmtObj] at h; obtain ⟨rfl, rfl⟩ := h
    obtain ⟨c, t, hct, hc⟩ := intDec_head i
    refine sepcase (intDec i) c t hct ?_ (by simp [fmtObj, sep]) rfl
    rcases hc with hc | hc
    · exact objStart_digit hc
    · subst hc; decide
  | real r =>
    simp [fmtObj] at h; obtain ⟨rfl, rfl⟩ := h
    simp [good] at hg
    obtain ⟨c, t, hct, hc⟩ := realToken_head r hg.1
    refine sepcase (realToken r) c t hct ?_ (by simp [fmtObj, sep]) rfl
    rcases hc with hc | hc | hc
    · exact objStart_digit hc
    · subst hc; decide
    · subst hc; decide
  | ref n g =>
    simp [fmtObj] at h; obtain ⟨rfl, rfl⟩ := h
    obtain ⟨c, t, hct, hc⟩ := natDec_head n
    refine sepcase (natDec n ++ 32 :: (natDec g ++ [32, 82])) c (t ++ 32 :: (natDec g ++ [32, 82]))
      (by simp [hct]) (objStart_digit hc) (by simp [fmtObj, sep]) (by simp)
  | name n =>
    simp [fmtObj] at h; obtain ⟨rfl, rfl⟩ := h
    exact ⟨fmtName n, 47, fmtNameBody n, by simp [fmtObj], rfl, by decide, .inl ⟨rfl, fun _ => space_facts.2.2.2.2.1⟩⟩
  | str s =>
    simp [fmtObj] at h; obtain ⟨rfl, rfl⟩ := h
    obtain ⟨c, t, hct, hc⟩ := fmtString_head opt.pretty s
    refine ⟨_, c, t, by simp [fmtObj], hct, ?_, .inl ⟨rfl, fun _ => ?_⟩⟩
    · rcases hc with hc | hc <;> subst hc <;> decide
    · rcases hc with hc | hc <;> subst hc <;> decide +kernel
  | arr xs =>
    rw [fmtObj_arr_inv] at h
    obtain ⟨body, h1, rfl, rfl⟩ := h
    exact ⟨_, 91, body ++ [93], (fmtObj_arr_inv opt false xs _ false).mpr ⟨body, h1, rfl, rfl⟩, rfl, by decide,
      .inl ⟨rfl, fun _ => by decide +kernel⟩⟩
  | dict kv =>
    rw [fmtObj_dict_inv] at h
    obtain ⟨body, h1, rfl, rfl⟩ := h
    exact ⟨_, 60, _, (fmtObj_dict_inv opt false kv _ false).mpr ⟨body, h1, rfl, rfl⟩, rfl, by decide,
      .inl ⟨rfl, fun _ => by decide +kernel⟩⟩

end PdfVerif.C01L

/-!
Lemmas about depth sequences of the page tree writer's and the name tree writer's `tail`
(used by Props/C16trs*.lean and Props/C17trs*.lean): weakly decreasing lists of naturals in
which no `k` consecutive elements are equal.
-/
namespace PdfVerif.TRSDepth

/-- weakly decreasing -/
def Desc (l : List Nat) : Prop := ∀ (i j x y : Nat), i ≤ j → l[i]? = some x → l[j]? = some y → y ≤ x

/-- every window of `k` consecutive elements that ends before the last position contains two
    different depths (its first element is greater than its last) -/
def WinIn (k : Nat) (l : List Nat) : Prop :=
  ∀ (i x y : Nat), i + k < l.length → l[i]? = some x → l[i + k - 1]? = some y → y < x

/-- the same for all windows, including the one at the end: fewer than `k` equal elements in a
    row anywhere -/
def WinAll (k : Nat) (l : List Nat) : Prop :=
  ∀ (i x y : Nat), i + k ≤ l.length → l[i]? = some x → l[i + k - 1]? = some y → y < x

theorem WinAll.winIn {k : Nat} {l : List Nat} (h : WinAll k l) : WinIn k l :=
  fun i x y hi hx hy => h i x y (by omega) hx hy

theorem desc_nil : Desc [] := by intro i j x y _ hx; simp at hx

theorem desc_singleton (a : Nat) : Desc [a] := by
  intro i j x y hij hx hy
  have hi : i = 0 := by
    cases i with
    | zero => rfl
    | succ n => simp at hx
  have hj : j = 0 := by
    cases j with
    | zero => rfl
    | succ n => simp at hy
  subst hi hj
  simp at hx hy
  omega

/-- prefix of a decreasing list -/
theorem Desc.take {l : List Nat} (h : Desc l) (n : Nat) : Desc (l.take n) := by
  intro i j x y hij hx hy
  rw [List.getElem?_take] at hx hy
  split at hx
  · split at hy
    · exact h i j x y hij hx hy
    · cases hy
  · cases hx

theorem getElem?_snoc_lt {l : List Nat} {a : Nat} {i : Nat} (h : i < l.length) : (l ++ [a])[i]? = l[i]? := by
  rw [List.getElem?_append_left h]

theorem getElem?_snoc_eq {l : List Nat} {a : Nat} : (l ++ [a])[l.length]? = some a := by
  simp

/-- appending an element that is at most the last one -/
theorem Desc.snoc {l : List Nat} (h : Desc l) (a : Nat) (ha : ∀ x, l[l.length - 1]? = some x → a ≤ x) :
    Desc (l ++ [a]) := by
  intro i j x y hij hx hy
  have hjlen : j < (l ++ [a]).length := by
    rcases Nat.lt_or_ge j (l ++ [a]).length with h1 | h1
    · exact h1
    · rw [List.getElem?_eq_none h1] at hy; cases hy
  simp at hjlen
  by_cases hj : j < l.length
  · rw [getElem?_snoc_lt hj] at hy
    rw [getElem?_snoc_lt (by omega)] at hx
    exact h i j x y hij hx hy
  · have hj' : j = l.length := by omega
    subst hj'
    rw [getElem?_snoc_eq] at hy
    cases hy
    by_cases hi : i < l.length
    · rw [getElem?_snoc_lt hi] at hx
      -- y ≤ last ≤ x
      have hlast : l.length - 1 < l.length := by omega
      have := ha l[l.length - 1] (by rw [List.getElem?_eq_getElem hlast])
      have h2 := h i (l.length - 1) x l[l.length - 1] (by omega) hx (by rw [List.getElem?_eq_getElem hlast])
      omega
    · have : i = l.length := by omega
      subst this
      rw [getElem?_snoc_eq] at hx
      cases hx
      exact Nat.le_refl _

/-- all windows of `k` consecutive elements are strict, except possibly the one that ends at
    position `p` -/
def WinExcept (k p : Nat) (l : List Nat) : Prop :=
  ∀ (i x y : Nat), i + k ≤ l.length → l[i]? = some x → l[i + k - 1]? = some y → i + k - 1 ≠ p → y < x

theorem WinAll.winExcept {k : Nat} {l : List Nat} (h : WinAll k l) (p : Nat) : WinExcept k p l :=
  fun i x y hi hx hy _ => h i x y hi hx hy

/-- replace the `n` elements from position `s` on by the single element `v + 1` -/
def mergeAt (l : List Nat) (s n v : Nat) : List Nat := l.take s ++ (v + 1) :: l.drop (s + n)

theorem length_mergeAt {l : List Nat} {s n v : Nat} (hs : s + n ≤ l.length) :
    (mergeAt l s n v).length + n = l.length + 1 := by
  simp [mergeAt]; omega

theorem getElem?_mergeAt_lt {l : List Nat} {s n v i : Nat} (hs : s ≤ l.length) (hi : i < s) :
    (mergeAt l s n v)[i]? = l[i]? := by
  unfold mergeAt
  rw [List.getElem?_append_left (by simp; omega), List.getElem?_take]
  simp [hi]

theorem getElem?_mergeAt_eq {l : List Nat} {s n v : Nat} (hs : s ≤ l.length) :
    (mergeAt l s n v)[s]? = some (v + 1) := by
  unfold mergeAt
  rw [List.getElem?_append_right (by simp; omega)]
  simp [Nat.min_eq_left hs]

theorem getElem?_mergeAt_gt {l : List Nat} {s n v i : Nat} (hs : s ≤ l.length) (hi : s < i) :
    (mergeAt l s n v)[i]? = l[i + n - 1]? := by
  unfold mergeAt
  rw [List.getElem?_append_right (by simp; omega)]
  simp only [List.length_take, Nat.min_eq_left hs]
  rw [show i - s = (i - s - 1) + 1 by omega, List.getElem?_cons_succ, List.getElem?_drop]
  congr 1; omega

theorem desc_mergeAt {l : List Nat} (hd : Desc l) {s n v : Nat} (hn : 1 ≤ n) (hs : s + n ≤ l.length)
    (hv : l[s]? = some v) (hprev : ∀ y, 1 ≤ s → l[s - 1]? = some y → v + 1 ≤ y) :
    Desc (mergeAt l s n v) := by
  have hs' : s ≤ l.length := by omega
  intro i j x y hij hx hy
  rcases Nat.lt_trichotomy i s with hi | hi | hi
  · rw [getElem?_mergeAt_lt hs' hi] at hx
    rcases Nat.lt_trichotomy j s with hj | hj | hj
    · rw [getElem?_mergeAt_lt hs' hj] at hy
      exact hd i j x y hij hx hy
    · subst hj
      rw [getElem?_mergeAt_eq hs'] at hy
      cases hy
      have h1 : j - 1 < l.length := by omega
      have := hprev l[j - 1] (by omega) (List.getElem?_eq_getElem h1)
      have h2 := hd i (j - 1) x l[j - 1] (by omega) hx (List.getElem?_eq_getElem h1)
      omega
    · rw [getElem?_mergeAt_gt hs' hj] at hy
      exact hd i (j + n - 1) x y (by omega) hx hy
  · subst hi
    rw [getElem?_mergeAt_eq hs'] at hx
    cases hx
    rcases Nat.lt_or_ge i j with hj | hj
    · rw [getElem?_mergeAt_gt hs' hj] at hy
      have := hd i (j + n - 1) v y (by omega) hv hy
      omega
    · have : j = i := by omega
      subst this
      rw [getElem?_mergeAt_eq hs'] at hy
      cases hy; exact Nat.le_refl _
  · rw [getElem?_mergeAt_gt hs' hi] at hx
    rw [getElem?_mergeAt_gt hs' (by omega)] at hy
    exact hd (i + n - 1) (j + n - 1) x y (by omega) hx hy

/-- after a merge at `s`, the only window that may still be constant is the one ending at the
    new element -/
theorem winExcept_mergeAt {D : Nat} (hD : 2 ≤ D) {l : List Nat} (hd : Desc l) {s n v : Nat} (hn : 1 ≤ n)
    (hs : s + n ≤ l.length) (hv : l[s]? = some v)
    (hprev : ∀ y, 1 ≤ s → l[s - 1]? = some y → v + 1 ≤ y)
    (hpre : ∀ (i x y : Nat), i + D ≤ s → l[i]? = some x → l[i + D - 1]? = some y → y < x)
    (hpost : ∀ (i x y : Nat), s + n ≤ i → i + D ≤ l.length → l[i]? = some x → l[i + D - 1]? = some y → y < x) :
    WinExcept D s (mergeAt l s n v) := by
  have hs' : s ≤ l.length := by omega
  have hlen := length_mergeAt (l := l) (v := v) hs
  intro i x y hi hx hy hne
  rcases Nat.lt_or_ge (i + D - 1) s with he | he
  · -- the window lies before the new element
    rw [getElem?_mergeAt_lt hs' (by omega)] at hx
    rw [getElem?_mergeAt_lt hs' he] at hy
    exact hpre i x y (by omega) hx hy
  · have he' : s < i + D - 1 := by omega
    rw [getElem?_mergeAt_gt hs' he'] at hy
    rcases Nat.lt_trichotomy i s with hi' | hi' | hi'
    · -- the window contains the new element and something after it
      rw [getElem?_mergeAt_lt hs' hi'] at hx
      have h1 : s - 1 < l.length := by omega
      have h2 := hprev l[s - 1] (by omega) (List.getElem?_eq_getElem h1)
      have h3 := hd i (s - 1) x l[s - 1] (by omega) hx (List.getElem?_eq_getElem h1)
      have h4 := hd s (i + D - 1 + n - 1) v y (by omega) hv hy
      omega
    · subst hi'
      rw [getElem?_mergeAt_eq hs'] at hx
      cases hx
      have h4 := hd i (i + D - 1 + n - 1) v y (by omega) hv hy
      omega
    · rw [getElem?_mergeAt_gt hs' hi'] at hx
      exact hpost (i + n - 1) x y (by omega) (by omega) hx
        (by rw [show i + n - 1 + D - 1 = i + D - 1 + n - 1 by omega]; exact hy)

theorem winIn_take_snoc {k : Nat} (hk : 1 ≤ k) {l : List Nat} (hw : WinIn k l) (e x : Nat)
    (he : e < l.length) : WinIn k (l.take e ++ [x]) := by
  intro i u v hi hu hv
  simp only [List.length_append, List.length_take, List.length_cons, List.length_nil] at hi
  have hi' : i + k ≤ e := by omega
  rw [List.getElem?_append_left (by simp; omega)] at hu
  rw [List.getElem?_append_left (by simp; omega)] at hv
  rw [List.getElem?_take] at hu hv
  simp only [show i < e by omega, show i + k - 1 < e by omega, if_true] at hu hv
  exact hw i u v (by omega) hu hv

theorem desc_take_snoc {l : List Nat} (hd : Desc l) (e x : Nat) (he : e ≤ l.length)
    (hx : ∀ y, 1 ≤ e → l[e - 1]? = some y → x ≤ y) : Desc (l.take e ++ [x]) := by
  apply Desc.snoc (hd.take e)
  intro y hy
  simp only [List.length_take, Nat.min_eq_left he] at hy
  rw [List.getElem?_take] at hy
  by_cases h0 : e = 0
  · subst h0; simp at hy
  · simp only [show e - 1 < e by omega, if_true] at hy
    exact hx y (by omega) hy

end PdfVerif.TRSDepth

import PdfVerif.Model.TRGo
/-!
Lemmas about the Go semantics prelude `Model/TRGo.lean` used by the `Props/*tr.lean` files.

Proof recipe for theorems about generated functions with unsigned parameters that are converted
to `int` inside (`int(a)` ↦ `(a.toNat : Int)`): `unfold f`, `generalize (a.toNat : Int) = A`
(after recording `0 ≤ A < 2^N`), then `as_aux_lemma => …`.  Without the auxiliary lemma the
kernel's definitional-equality check meets `Go.i64` applied to `Int.ofNat …` terms and unfolds
`Nat` arithmetic with the literal 2⁶³ (deep recursion).
-/
namespace PdfVerif.Go

theorem i64_id {x : Int} (h : IsI64 x) : i64 x = x := by
  unfold i64 IsI64 at *; omega

theorem i64_isI64 (x : Int) : IsI64 (i64 x) := by
  unfold i64 IsI64; omega

/-- `i64` is the identity on every value that fits -/
theorem i64_of_bounds {x : Int} (lo : -9223372036854775808 ≤ x) (hi : x < 9223372036854775808) : i64 x = x :=
  i64_id ⟨lo, hi⟩

theorem u8_cast_bounds (a : UInt8) : (0 : Int) ≤ (a.toNat : Int) ∧ (a.toNat : Int) < 256 := by
  have := a.toNat_lt; omega

theorem quoK_pos {a k : Int} (ha : 0 ≤ a) (hk : 0 < k) (hb : a < 9223372036854775808) : quoK a k = a / k := by
  unfold quoK
  rw [Int.tdiv_eq_ediv_of_nonneg ha]
  apply i64_of_bounds
  · have := Int.ediv_nonneg ha (Int.le_of_lt hk); omega
  · have : a / k ≤ a := Int.ediv_le_self k ha
    omega

theorem len_nonneg {α} (xs : List α) : 0 ≤ len xs := by unfold len; omega

theorem idx_eq_some {α} {xs : List α} {i : Int} {v : α} :
    idx xs i = some v ↔ 0 ≤ i ∧ xs[i.toNat]? = some v := by
  unfold idx; split <;> simp_all <;> omega

theorem idx_isSome {α} (xs : List α) (i : Int) : (idx xs i).isSome ↔ 0 ≤ i ∧ i < len xs := by
  unfold idx len
  split
  · simp; omega
  · simp; omega

theorem idx_natCast {α} (xs : List α) (n : Nat) : idx xs (n : Int) = xs[n]? := by
  unfold idx
  have : ¬ ((n : Int) < 0) := by omega
  simp [this]

/-- a `for` loop in the `Option` monad whose body always continues is a fold -/
theorem forIn_option_yield {α σ : Type} (l : List α) (P : α → Prop) (body : α → σ → Option (ForInStep σ))
    (g : α → σ → σ) (h : ∀ k s, P k → body k s = some (ForInStep.yield (g k s))) (hl : ∀ k ∈ l, P k) (init : σ) :
    forIn l init body = some (l.foldl (fun s k => g k s) init) := by
  induction l generalizing init with
  | nil => rfl
  | cons a as ih =>
    simp only [List.forIn_cons, List.foldl_cons]
    rw [h a init (hl a (by simp))]
    exact ih (fun k hk => hl k (by simp [hk])) _

/-- a search loop in the `Option` monad: the body either leaves the loop with the fixed state `d`
(when `c k`) or continues with the unchanged state -/
theorem forIn_option_search {α σ : Type} (l : List α) (P : α → Prop) (body : α → σ → Option (ForInStep σ))
    (c : α → Bool) (s0 d : σ)
    (h : ∀ k, P k → body k s0 = if c k then some (ForInStep.done d) else some (ForInStep.yield s0))
    (hl : ∀ k ∈ l, P k) :
    forIn l s0 body = some (if l.any c then d else s0) := by
  induction l with
  | nil => rfl
  | cons a as ih =>
    simp only [List.forIn_cons, List.any_cons]
    rw [h a (hl a (by simp))]
    by_cases hc : c a = true
    · simp [hc]
    · have hc' : c a = false := by simpa using hc
      simp only [hc', Bool.false_eq_true, if_false, Bool.false_or]
      exact ih (fun k hk => hl k (by simp [hk]))

theorem slice_zero {α} (xs : List α) (hi : Int) (h0 : 0 ≤ hi) (h1 : hi ≤ xs.length) :
    slice xs 0 hi = some (xs.take hi.toNat) := by
  unfold slice
  have : (0 : Int) ≤ 0 ∧ 0 ≤ hi ∧ hi ≤ (xs.length : Int) := ⟨by omega, h0, h1⟩
  simp [this]

/-- `Option.bind_some` with a proof that is not `rfl`: `simp only [obind]` then rewrites
propositionally instead of by `dsimp` (whose definitional steps the kernel would have to re-check
on terms containing `i64 (↑x.toNat …)`, see the header) -/
theorem obind {α β} (a : α) (f : α → Option β) : (some a).bind f = f a := by
  cases h : f a <;> simp [h]

theorem getD_idx (xs : List UInt8) (k : Nat) (h : k < xs.length) : idx xs (k : Int) = some (xs.getD k 0) := by
  rw [idx_natCast, List.getD_eq_getElem?_getD, List.getElem?_eq_getElem h]; rfl

theorem slice_general {α} (xs : List α) (lo hi : Int) (h0 : 0 ≤ lo) (h1 : lo ≤ hi) (h2 : hi ≤ xs.length) :
    slice xs lo hi = some ((xs.take hi.toNat).drop lo.toNat) := by
  unfold slice
  have : (0 : Int) ≤ lo ∧ lo ≤ hi ∧ hi ≤ (xs.length : Int) := ⟨h0, h1, h2⟩
  simp [this]

/-- a "find first" loop in the `Option` monad: the body leaves the loop with `d` when `g a = some d`
and continues with the unchanged state otherwise -/
theorem forIn_option_findSome {α σ : Type} (l : List α) (P : α → Prop) (body : α → σ → Option (ForInStep σ))
    (g : α → Option σ) (s0 : σ)
    (h : ∀ a, P a → body a s0 = match g a with
      | some d => some (ForInStep.done d)
      | none => some (ForInStep.yield s0))
    (hl : ∀ a ∈ l, P a) :
    forIn l s0 body = some ((l.findSome? g).getD s0) := by
  induction l with
  | nil => rfl
  | cons a as ih =>
    simp only [List.forIn_cons, List.findSome?_cons]
    rw [h a (hl a (by simp))]
    cases hg : g a with
    | some d => simp [bind]
    | none =>
      simp only [bind, Option.bind_some]
      exact ih (fun k hk => hl k (by simp [hk]))

end PdfVerif.Go

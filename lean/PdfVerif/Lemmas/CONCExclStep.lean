import PdfVerif.Lemmas.CONCExcl
import PdfVerif.Lemmas.CONCAgreeStep
/-! Every transition preserves the exclusive-decode invariant `XInv` (C18). -/
namespace PdfVerif.CONC

theorem decLoop_hist (s t rest tp refs path o) :
    ∃ evs, (decLoop s t rest tp refs path o).hist = evs ++ s.hist ∧ ∀ e ∈ evs, ∀ s', XEv s' e := by
  cases o with
  | direct =>
    exact ⟨[.run t tp refs path (ownerOf rest)], rfl, by intro e he s'; simp at he; subst he; trivial⟩
  | ref r =>
    simp only [decLoop]
    cases s.cache (r, tp) with
    | some v =>
      exact ⟨[.dec t (firstObj refs (.ref r)) tp (.ok v)], by simp,
        by intro e he s'; simp at he; subst he; trivial⟩
    | none =>
      simp only
      split
      · exact ⟨[.dec t (firstObj refs (.ref r)) tp (.err .cycle)], by simp,
          by intro e he s'; simp at he; subst he; trivial⟩
      · split
        · exact ⟨[.dec t (firstObj refs (.ref r)) tp (.err .depth)], by simp,
            by intro e he s'; simp at he; subst he; trivial⟩
        · exact ⟨[], rfl, by intro e he; simp at he⟩

theorem sublist_of_eq {α : Type} {a b : List α} (h : a = b) : a.Sublist b := by
  rw [h]; exact List.Sublist.refl _

/-- frames below the top frame of thread `t` -/
theorem XInv.restFrames {s : State} (hs : XInv s) {t : Tid} {f : Frame} {rest : List Frame}
    (e : s.thr t = f :: rest) : ∀ g ∈ rest, XFrame s g := by
  intro g hg; exact hs.frames t g (by rw [e]; exact List.mem_cons_of_mem _ hg)

theorem XInv.step {cfg : Cfg} {s s' : State} {t : Tid} {a : Act} (hs : XInv s)
    (h : step cfg s t a = some s') : XInv s' := by
  unfold CONC.step at h
  cases a with
  | callDecode o tp path =>
    simp only at h
    split at h
    · cases h
      obtain ⟨evs, hh, hev⟩ := decLoop_hist s t (s.thr t) tp [] path o
      exact hs.local' t _ evs (decLoop_thr ..) (sublist_of_eq (owned_decLoopStack ..)) (decLoop_wip ..)
        (decLoop_pend ..) (decLoop_npend ..) (xframe_decLoopStack (hs.frames t) _ _ _ _) hh
        (fun e he => hev e he _)
    · cases h
  | callPair r A B a b =>
    simp only at h
    split at h
    · cases h
      obtain ⟨res, hh, hthr, _⟩ := pairCall_thr_hist cfg s t r A B a b
      rcases hthr with ht | ht
      · exact hs.local' t (s.thr t) [_] (by rw [ht, upd_self]) (List.Sublist.refl _) (pairCall_wip ..)
          (pairCall_pend ..) (pairCall_npend ..) (hs.frames t) hh
          (by intro e he; simp at he; subst he; trivial)
      · exact hs.local' t [.dead] [_] ht (List.nil_sublist _) (pairCall_wip ..)
          (pairCall_pend ..) (pairCall_npend ..) (by intro f hf; simp at hf; subst hf; trivial) hh
          (by intro e he; simp at he; subst he; trivial)
    · cases h
  | callExcl o tp path =>
    simp only at h
    split at h
    · cases h
      unfold exclCall
      cases o with
      | direct =>
        exact hs.local' t (.exFn tp path :: s.thr t) [.run t tp [] path none] rfl
          (sublist_of_eq (owned_cons_none _ rfl)) rfl rfl rfl
          (by intro f hf
              rcases List.mem_cons.mp hf with e | e
              · subst e; trivial
              · exact hs.frames t f e) rfl
          (by intro e he; simp at he; subst he; trivial)
      | ref r =>
        simp only
        cases hc : s.cache (r, tp) with
        | some v =>
          simp only
          exact hs.local' t _ [_] (retExc_thr ..) (sublist_of_eq (owned_deliverStack ..))
              (retExc_wip ..) (retExc_pend ..) (retExc_npend ..)
              (xframe_deliverStack (hs.frames t) _) (retExc_hist ..)
              (by intro e he; simp at he; subst he; trivial)
        | none =>
          simp only
          cases hw : s.wip (r, tp) with
          | some p =>
            simp only
            exact hs.local' t (.exWait (r, tp) p :: s.thr t) [] rfl
              (sublist_of_eq (owned_cons_none _ rfl)) rfl rfl rfl
              (by intro f hf
                  rcases List.mem_cons.mp hf with e | e
                  · subst e; exact hs.wipb _ _ hw
                  · exact hs.frames t f e) rfl (by simp)
          | none =>
            simp only
            -- a new pending `s.npend` is registered
            have hownedT : ∀ t', owned (upd s.thr t (.exStart (r, tp) s.npend path :: s.thr t) t')
                = if t' = t then s.npend :: owned (s.thr t) else owned (s.thr t') := by
              intro t'; simp only [upd_apply]; split
              · exact owned_cons_some _ rfl
              · rfl
            have hfresh : ∀ t', s.npend ∉ owned (s.thr t') :=
              fun t' hm => Nat.lt_irrefl _ (hs.bound t' _ hm)
            have hpendOther : ∀ p, p < s.npend →
                upd s.pend s.npend ⟨false, none, (r, tp)⟩ p = s.pend p :=
              fun p hp => upd_other _ _ _ _ (Nat.ne_of_lt hp)
            have hold : ∀ t' f, f ∈ s.thr t' →
                XFrame { s with pend := upd s.pend s.npend ⟨false, none, (r, tp)⟩,
                                npend := s.npend + 1,
                                wip := upd s.wip (r, tp) (some s.npend),
                                thr := upd s.thr t (.exStart (r, tp) s.npend path :: s.thr t) } f := by
              intro t' f hf
              have hx := hs.frames t' f hf
              have hwk : ∀ k p, s.wip k = some p → upd s.wip (r, tp) (some s.npend) k = some p := by
                intro k p hk
                rw [upd_other]; exact hk
                intro e; subst e; rw [hw] at hk; cases hk
              cases f with
              | exStart k p path' =>
                have hp := hs.bound t' p (mem_owned hf rfl)
                exact ⟨hwk _ _ hx.1, by simp only; rw [hpendOther p hp]; exact hx.2⟩
              | exRun k p =>
                have hp := hs.bound t' p (mem_owned hf rfl)
                exact ⟨hwk _ _ hx.1, by simp only; rw [hpendOther p hp]; exact hx.2⟩
              | exPub k p res =>
                have hp := hs.bound t' p (mem_owned hf rfl)
                exact ⟨hwk _ _ hx.1, by simp only; rw [hpendOther p hp]; exact hx.2⟩
              | exClose k p res =>
                have hp := hs.bound t' p (mem_owned hf rfl)
                show (upd s.pend s.npend _ p).out = some res
                rw [hpendOther p hp]; exact hx
              | exDone k p res =>
                refine ⟨?_, Nat.lt_succ_of_lt hx.2⟩
                show (upd s.pend s.npend _ p).out = some res
                rw [hpendOther p hx.2]; exact hx.1
              | exWait k p => exact Nat.lt_succ_of_lt hx
              | decGet _ _ _ _ => trivial
              | decFn _ _ _ => trivial
              | exFn _ _ => trivial
              | dead => trivial
            refine ⟨?_, ?_, ?_, ?_, ?_, ?_, ?_⟩
            · intro t'
              simp only [hownedT]
              split
              · exact List.nodup_cons.mpr ⟨hfresh t, hs.nodup t⟩
              · exact hs.nodup t'
            · intro t1 t2 p h1 h2
              simp only [hownedT] at h1 h2
              split at h1 <;> split at h2
              · next e1 e2 => rw [e1, e2]
              · next e1 e2 =>
                rcases List.mem_cons.mp h1 with e | e
                · subst e; exact absurd h2 (hfresh t2)
                · rw [e1]; exact hs.disj t t2 p e h2
              · next e1 e2 =>
                rcases List.mem_cons.mp h2 with e | e
                · subst e; exact absurd h1 (hfresh t1)
                · rw [e2]; exact hs.disj t1 t p h1 e
              · exact hs.disj t1 t2 p h1 h2
            · intro t' p hp
              simp only [hownedT] at hp
              split at hp
              · rcases List.mem_cons.mp hp with e | e
                · subst e; exact Nat.lt_succ_self _
                · exact Nat.lt_succ_of_lt (hs.bound t p e)
              · exact Nat.lt_succ_of_lt (hs.bound t' p hp)
            · intro k p hk
              simp only [upd_apply] at hk
              split at hk
              · cases hk; exact Nat.lt_succ_self _
              · exact Nat.lt_succ_of_lt (hs.wipb k p hk)
            · intro t' f hf
              simp only [upd_apply] at hf
              split at hf
              · rcases List.mem_cons.mp hf with e | e
                · subst e
                  exact ⟨by simp, by simp⟩
                · exact hold t f e
              · exact hold t' f hf
            · intro e he
              refine (hs.hist e he).congr (Nat.le_succ _) (fun p hp => ?_)
              show (upd s.pend s.npend _ p).out = _
              rw [hpendOther p hp]
            · intro p hp
              simp only [upd_apply] at hp ⊢
              split
              · next e => simp [e] at hp
              · next e => simp only [e, if_false] at hp; exact hs.doneOut p hp
    · cases h
  | fnRet res =>
    simp only at h
    split at h
    · next tp refs path rest e =>
      cases h
      have hrest := hs.restFrames e
      have hsub : ∀ res', (owned (deliverStack rest res')).Sublist (owned (s.thr t)) := by
        intro res'; rw [e, owned_deliverStack, owned_cons_none _ rfl]; exact List.Sublist.refl _
      unfold fnReturn
      cases res with
      | panic =>
        exact hs.crash t _ (fun _ => trivial)
      | err er =>
        exact hs.local' t _ [_] (retDec_thr ..) (hsub _) (retDec_wip ..) (retDec_pend ..)
          (retDec_npend ..) (xframe_deliverStack hrest _) (retDec_hist ..)
          (by intro e he; simp at he; subst he; trivial)
      | ok v =>
        cases refs with
        | nil =>
          exact hs.local' t _ [_] (retDec_thr ..) (hsub _) (retDec_wip ..) (retDec_pend ..)
            (retDec_npend ..) (xframe_deliverStack hrest _) (retDec_hist ..)
            (by intro e he; simp at he; subst he; trivial)
        | cons r0 rs =>
          simp only
          exact hs.local' t _ [_] (retDec_thr ..) (hsub _) (retDec_wip ..) (retDec_pend ..)
            (retDec_npend ..) (xframe_deliverStack hrest _) (retDec_hist ..)
            (by intro e he; simp at he; subst he; trivial)
    · next tp path rest e =>
      have hrest := hs.restFrames e
      have hsub : ∀ res', (owned (deliverStack rest res')).Sublist (owned (s.thr t)) := by
        intro res'; rw [e, owned_deliverStack, owned_cons_none _ rfl]; exact List.Sublist.refl _
      cases res with
      | panic =>
        cases h
        exact hs.crash t _ (fun _ => trivial)
      | err er =>
        cases h
        exact hs.local' t _ [_] (retExc_thr ..) (hsub _) (retExc_wip ..) (retExc_pend ..)
          (retExc_npend ..) (xframe_deliverStack hrest _) (retExc_hist ..)
          (by intro e he; simp at he; subst he; trivial)
      | ok v =>
        cases h
        exact hs.local' t _ [_] (retExc_thr ..) (hsub _) (retExc_wip ..) (retExc_pend ..)
          (retExc_npend ..) (xframe_deliverStack hrest _) (retExc_hist ..)
          (by intro e he; simp at he; subst he; trivial)
    · cases h
  | goFail =>
    simp only at h
    split at h
    · next tp refs path r rest e =>
      cases h
      exact hs.local' t _ [_] (retDec_thr ..)
        (by rw [e, owned_deliverStack, owned_cons_none _ rfl]; exact List.Sublist.refl _)
        (retDec_wip ..) (retDec_pend ..) (retDec_npend ..)
        (xframe_deliverStack (hs.restFrames e) _) (retDec_hist ..)
        (by intro e he; simp at he; subst he; trivial)
    · cases h
  | go =>
    simp only at h
    split at h
    · next tp refs path r rest e =>
      have hrest := hs.restFrames e
      split at h
      · cases h
        exact hs.local' t _ [_] (retDec_thr ..)
          (by rw [e, owned_deliverStack, owned_cons_none _ rfl]; exact List.Sublist.refl _)
          (retDec_wip ..) (retDec_pend ..) (retDec_npend ..)
          (xframe_deliverStack hrest _) (retDec_hist ..)
          (by intro e he; simp at he; subst he; trivial)
      · next r' _ =>
        cases h
        obtain ⟨evs, hh, hev⟩ := decLoop_hist s t rest tp refs path (.ref r')
        exact hs.local' t _ evs (decLoop_thr ..)
          (by rw [e, owned_decLoopStack, owned_cons_none _ rfl]; exact List.Sublist.refl _)
          (decLoop_wip ..) (decLoop_pend ..) (decLoop_npend ..) (xframe_decLoopStack hrest _ _ _ _) hh
          (fun e he => hev e he _)
      · cases h
        obtain ⟨evs, hh, hev⟩ := decLoop_hist s t rest tp refs path .direct
        exact hs.local' t _ evs (decLoop_thr ..)
          (by rw [e, owned_decLoopStack, owned_cons_none _ rfl]; exact List.Sublist.refl _)
          (decLoop_wip ..) (decLoop_pend ..) (decLoop_npend ..) (xframe_decLoopStack hrest _ _ _ _) hh
          (fun e he => hev e he _)
    · next k p path rest e =>
      cases h
      have htop : XFrame s (.exStart k p path) := hs.frames t _ (by rw [e]; simp)
      have hrest := hs.restFrames e
      obtain ⟨evs, hh, hev⟩ := decLoop_hist { s with thr := upd s.thr t (.exRun k p :: rest) } t
        (.exRun k p :: rest) k.2 [] path (.ref k.1)
      refine hs.local' t (decLoopStack s (.exRun k p :: rest) k.2 [] path (.ref k.1)) evs ?_ ?_
        (decLoop_wip ..) (decLoop_pend ..) (decLoop_npend ..) ?_ hh (fun e he => hev e he _)
      · rw [decLoop_thr]
        show upd (upd s.thr t _) t _ = _
        rw [upd_upd]
        rfl
      · rw [e, owned_decLoopStack, owned_cons_some _ rfl, owned_cons_some _ rfl]
        exact List.Sublist.refl _
      · apply xframe_decLoopStack
        intro f hf
        rcases List.mem_cons.mp hf with e' | e'
        · subst e'; exact htop
        · exact hrest f e'
    · next k p res rest e =>
      cases h
      -- second critical section: the outcome is written, the wip entry removed
      have htop : XFrame s (.exPub k p res) := hs.frames t _ (by rw [e]; simp)
      have hownedT : ∀ t', owned (upd s.thr t (.exClose k p res :: rest) t') = owned (s.thr t') := by
        intro t'
        simp only [upd_apply]
        split
        · next e' => rw [e', e, owned_cons_some _ rfl, owned_cons_some _ rfl]
        · rfl
      have hpT : p ∈ owned (s.thr t) := by rw [e, owned_cons_some _ rfl]; simp
      have hpRest : p ∉ owned rest := by
        have := hs.nodup t
        rw [e, owned_cons_some _ rfl] at this
        exact (List.nodup_cons.mp this).1
      -- no other frame owns `p`
      have hother : ∀ t' f, f ∈ s.thr t' → (t' = t → f ∈ rest) → ∀ q, owns f = some q → q ≠ p := by
        intro t' f hf hin q hq eq
        subst eq
        by_cases et : t' = t
        · exact hpRest (mem_owned (hin et) hq)
        · exact et (hs.disj t' t q (mem_owned hf hq) hpT)
      have hpend : ∀ q, q ≠ p →
          upd s.pend p ⟨(s.pend p).done, some res, (s.pend p).key⟩ q = s.pend q :=
        fun q hq => upd_other _ _ _ _ hq
      have hold : ∀ t' f, f ∈ s.thr t' → (t' = t → f ∈ rest) →
          XFrame { s with pend := upd s.pend p ⟨(s.pend p).done, some res, (s.pend p).key⟩,
                          wip := upd s.wip k none,
                          thr := upd s.thr t (.exClose k p res :: rest) } f := by
        intro t' f hf hin
        have hx := hs.frames t' f hf
        have hwk : ∀ k' q, q ≠ p → s.wip k' = some q → upd s.wip k none k' = some q := by
          intro k' q hq hk
          rw [upd_other]; exact hk
          intro e'; subst e'; rw [htop.1] at hk; cases hk; exact hq rfl
        cases f with
        | exStart k' q path' =>
          have hq := hother t' _ hf hin q rfl
          exact ⟨hwk _ _ hq hx.1, by simp only; rw [hpend q hq]; exact hx.2⟩
        | exRun k' q =>
          have hq := hother t' _ hf hin q rfl
          exact ⟨hwk _ _ hq hx.1, by simp only; rw [hpend q hq]; exact hx.2⟩
        | exPub k' q res' =>
          have hq := hother t' _ hf hin q rfl
          exact ⟨hwk _ _ hq hx.1, by simp only; rw [hpend q hq]; exact hx.2⟩
        | exClose k' q res' =>
          have hq := hother t' _ hf hin q rfl
          show (upd s.pend p _ q).out = some res'
          rw [hpend q hq]; exact hx
        | exDone k' q res' =>
          refine ⟨?_, hx.2⟩
          show (upd s.pend p _ q).out = some res'
          by_cases eq : q = p
          · subst eq; have h1 := hx.1; rw [htop.2] at h1; cases h1
          · rw [hpend q eq]; exact hx.1
        | exWait k' q => exact hx
        | decGet _ _ _ _ => trivial
        | decFn _ _ _ => trivial
        | exFn _ _ => trivial
        | dead => trivial
      refine ⟨?_, ?_, ?_, ?_, ?_, ?_, ?_⟩
      · intro t'; simp only [hownedT]; exact hs.nodup t'
      · intro t1 t2 q h1 h2; simp only [hownedT] at h1 h2; exact hs.disj t1 t2 q h1 h2
      · intro t' q hq; simp only [hownedT] at hq; exact hs.bound t' q hq
      · intro k' q hk
        simp only [upd_apply] at hk
        split at hk
        · cases hk
        · exact hs.wipb k' q hk
      · intro t' f hf
        simp only [upd_apply] at hf
        split at hf
        · next et =>
          rcases List.mem_cons.mp hf with e' | e'
          · subst e'; show (upd s.pend p _ p).out = some res; simp
          · exact hold t f (by rw [e]; exact List.mem_cons_of_mem _ e') (fun _ => e')
        · next et => exact hold t' f hf (fun h => absurd h et)
      · intro ev hev
        have hx := hs.hist ev hev
        cases ev with
        | exc t0 o tp res' q =>
          cases q with
          | none => trivial
          | some q =>
            refine ⟨hx.1, fun hne => ?_⟩
            by_cases eq : q = p
            · subst eq
              have := hx.2 hne
              rw [htop.2] at this; cases this
            · show (upd s.pend p _ q).out = some res'
              rw [hpend q eq]; exact hx.2 hne
        | dec _ _ _ _ => trivial
        | pair _ _ _ _ _ _ _ => trivial
        | run _ _ _ _ _ => trivial
        | fnPanic _ => trivial
      · intro q hq
        simp only [upd_apply] at hq ⊢
        split
        · simp
        · next eq => simp only [eq, if_false] at hq; exact hs.doneOut q hq
    · next k p res rest e =>
      cases h
      have htop : XFrame s (.exClose k p res) := hs.frames t _ (by rw [e]; simp)
      have hpT : p ∈ owned (s.thr t) := by rw [e, owned_cons_some _ rfl]; simp
      have hout : ∀ q, (upd s.pend p ⟨true, (s.pend p).out, (s.pend p).key⟩ q).out = (s.pend q).out := by
        intro q
        simp only [upd_apply]
        split
        · next eq => rw [eq]
        · rfl
      refine hs.local t (.exDone k p res :: rest) [] rfl ?_ rfl hout rfl ?_ rfl (by simp) ?_
      · rw [e, owned_cons_none _ rfl, owned_cons_some _ rfl]; exact List.sublist_cons_self _ _
      · intro f hf
        rcases List.mem_cons.mp hf with e' | e'
        · subst e'; exact ⟨htop, hs.bound t p hpT⟩
        · exact hs.restFrames e f e'
      · intro q hq
        show (upd s.pend p _ q).out ≠ none
        rw [hout]
        simp only [upd_apply] at hq
        split at hq
        · next eq => rw [eq, htop]; simp
        · exact hs.doneOut q hq
    · next k p res rest e =>
      cases h
      have htop : XFrame s (.exDone k p res) := hs.frames t _ (by rw [e]; simp)
      exact hs.local' t _ [_] (retExc_thr ..)
        (by rw [e, owned_deliverStack, owned_cons_none _ rfl]; exact List.Sublist.refl _)
        (retExc_wip ..) (retExc_pend ..) (retExc_npend ..)
        (xframe_deliverStack (hs.restFrames e) _) (retExc_hist ..)
        (by intro e he; simp at he; subst he
            exact ⟨by rw [retExc_npend]; exact htop.2, fun _ => by rw [retExc_pend]; exact htop.1⟩)
    · next k p rest e =>
      have htop : XFrame s (.exWait k p) := hs.frames t _ (by rw [e]; simp)
      have hrest := hs.restFrames e
      have hsub : ∀ res', (owned (deliverStack rest res')).Sublist (owned (s.thr t)) := by
        intro res'; rw [e, owned_deliverStack, owned_cons_none _ rfl]; exact List.Sublist.refl _
      split at h
      · next hdone =>
        split at h
        · next v hout =>
          cases h
          exact hs.local' t _ [_] (retExc_thr ..) (hsub _) (retExc_wip ..) (retExc_pend ..)
            (retExc_npend ..) (xframe_deliverStack hrest _) (retExc_hist ..)
            (by intro e he; simp at he; subst he
                exact ⟨by rw [retExc_npend]; exact htop, fun _ => by rw [retExc_pend]; exact hout⟩)
        · next er hout =>
          cases h
          exact hs.local' t _ [_] (retExc_thr ..) (hsub _) (retExc_wip ..) (retExc_pend ..)
            (retExc_npend ..) (xframe_deliverStack hrest _) (retExc_hist ..)
            (by intro e he; simp at he; subst he
                exact ⟨by rw [retExc_npend]; exact htop, fun _ => by rw [retExc_pend]; exact hout⟩)
        · cases h
        · next hout => exact absurd hout (hs.doneOut p hdone)
      · cases h
    · cases h

end PdfVerif.CONC

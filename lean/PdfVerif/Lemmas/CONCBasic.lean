import PdfVerif.Model.CONCCache
/-! Frame lemmas for the cache-protocol model: which component each helper changes. -/
namespace PdfVerif.CONC

@[simp] theorem upd_same {α β : Type} [DecidableEq α] (f : α → β) (a : α) (b : β) :
    upd f a b a = b := by simp [upd]

theorem upd_other {α β : Type} [DecidableEq α] (f : α → β) (a x : α) (b : β) (h : x ≠ a) :
    upd f a b x = f x := by simp [upd, h]

theorem upd_apply {α β : Type} [DecidableEq α] (f : α → β) (a x : α) (b : β) :
    upd f a b x = if x = a then b else f x := rfl

/-- `c'` extends `c`: every published entry is still there, unchanged -/
def CacheLe (c c' : Key → Option Val) : Prop := ∀ k v, c k = some v → c' k = some v

theorem CacheLe.refl (c : Key → Option Val) : CacheLe c c := fun _ _ h => h

theorem CacheLe.trans {a b c : Key → Option Val} (h1 : CacheLe a b) (h2 : CacheLe b c) :
    CacheLe a c := fun k v h => h2 k v (h1 k v h)

theorem CacheLe.upd_none {c : Key → Option Val} {k : Key} (h : c k = none) (v : Val) :
    CacheLe c (upd c k (some v)) := by
  intro k' v' h'
  by_cases e : k' = k
  · subst e; rw [h] at h'; cases h'
  · rw [upd_other _ _ _ _ e]; exact h'

/-! ### deliver / ret / crash leave the shared state alone -/

@[simp] theorem deliver_cache (s t rest res) : (deliver s t rest res).cache = s.cache := rfl
@[simp] theorem deliver_wip (s t rest res) : (deliver s t rest res).wip = s.wip := rfl
@[simp] theorem deliver_pend (s t rest res) : (deliver s t rest res).pend = s.pend := rfl
@[simp] theorem deliver_npend (s t rest res) : (deliver s t rest res).npend = s.npend := rfl
@[simp] theorem deliver_hist (s t rest res) : (deliver s t rest res).hist = s.hist := rfl

@[simp] theorem retDec_cache (s t rest o tp res) : (retDec s t rest o tp res).cache = s.cache := by
  simp [retDec]
@[simp] theorem retDec_wip (s t rest o tp res) : (retDec s t rest o tp res).wip = s.wip := by
  simp [retDec]
@[simp] theorem retDec_pend (s t rest o tp res) : (retDec s t rest o tp res).pend = s.pend := by
  simp [retDec]
@[simp] theorem retDec_npend (s t rest o tp res) : (retDec s t rest o tp res).npend = s.npend := by
  simp [retDec]
@[simp] theorem retDec_hist (s t rest o tp res) :
    (retDec s t rest o tp res).hist = .dec t o tp res :: s.hist := by
  simp [retDec]

@[simp] theorem retExc_cache (s t rest o tp res p) : (retExc s t rest o tp res p).cache = s.cache := by
  simp [retExc]
@[simp] theorem retExc_wip (s t rest o tp res p) : (retExc s t rest o tp res p).wip = s.wip := by
  simp [retExc]
@[simp] theorem retExc_pend (s t rest o tp res p) : (retExc s t rest o tp res p).pend = s.pend := by
  simp [retExc]
@[simp] theorem retExc_npend (s t rest o tp res p) : (retExc s t rest o tp res p).npend = s.npend := by
  simp [retExc]
@[simp] theorem retExc_hist (s t rest o tp res p) :
    (retExc s t rest o tp res p).hist = .exc t o tp res p :: s.hist := by
  simp [retExc]

@[simp] theorem releaseOwned_cache (s : State) (stk : List Frame) : (releaseOwned s stk).cache = s.cache := by
  induction stk with
  | nil => rfl
  | cons f rest ih => cases f <;> simp [releaseOwned, ih]
@[simp] theorem releaseOwned_npend (s : State) (stk : List Frame) : (releaseOwned s stk).npend = s.npend := by
  induction stk with
  | nil => rfl
  | cons f rest ih => cases f <;> simp [releaseOwned, ih]
@[simp] theorem releaseOwned_thr (s : State) (stk : List Frame) : (releaseOwned s stk).thr = s.thr := by
  induction stk with
  | nil => rfl
  | cons f rest ih => cases f <;> simp [releaseOwned, ih]
@[simp] theorem releaseOwned_hist (s : State) (stk : List Frame) : (releaseOwned s stk).hist = s.hist := by
  induction stk with
  | nil => rfl
  | cons f rest ih => cases f <;> simp [releaseOwned, ih]

/-- releasing never changes the (ghost) key of a pending -/
theorem releaseOwned_key (s : State) (stk : List Frame) (q : Pid) :
    ((releaseOwned s stk).pend q).key = (s.pend q).key := by
  induction stk with
  | nil => rfl
  | cons f rest ih =>
    cases f <;> simp only [releaseOwned] <;> (try exact ih)
    all_goals
      simp only [upd_apply]
      split
      · next e => subst e; exact ih
      · exact ih

/-- releasing only removes `wip` entries -/
theorem releaseOwned_wip_sub (s : State) (stk : List Frame) (k : Key) (p : Pid)
    (h : (releaseOwned s stk).wip k = some p) : s.wip k = some p := by
  induction stk with
  | nil => exact h
  | cons f rest ih =>
    cases f <;> simp only [releaseOwned] at h <;> (try exact ih h)
    all_goals
      simp only [upd_apply] at h
      split at h
      · cases h
      · exact ih h

/-- an outcome present after releasing was there before, or is the abort error -/
theorem releaseOwned_out (s : State) (stk : List Frame) (q : Pid) (res : Res)
    (h : ((releaseOwned s stk).pend q).out = some res) :
    (s.pend q).out = some res ∨ res = .err .aborted := by
  induction stk with
  | nil => exact .inl h
  | cons f rest ih =>
    cases f <;> simp only [releaseOwned] at h <;> (try exact ih h)
    all_goals
      simp only [upd_apply] at h
      split at h
      · next e =>
        first
          | (simp only at h; cases h; exact .inr rfl)
          | (subst e; exact ih h)
      · exact ih h

/-- releasing only ever closes pendings -/
theorem releaseOwned_done (s : State) (stk : List Frame) (q : Pid)
    (h : (s.pend q).done = true) : ((releaseOwned s stk).pend q).done = true := by
  induction stk with
  | nil => exact h
  | cons f rest ih =>
    cases f <;> simp only [releaseOwned] <;> (try exact ih)
    all_goals
      simp only [upd_apply]
      split
      · rfl
      · exact ih

@[simp] theorem crash_cache (s t ev) : (crash s t ev).cache = s.cache := by simp [crash]
@[simp] theorem crash_wip (s t ev) : (crash s t ev).wip = (releaseOwned s (s.thr t)).wip := rfl
@[simp] theorem crash_pend (s t ev) : (crash s t ev).pend = (releaseOwned s (s.thr t)).pend := rfl
@[simp] theorem crash_npend (s t ev) : (crash s t ev).npend = s.npend := by simp [crash]
@[simp] theorem crash_hist (s t ev) : (crash s t ev).hist = ev :: s.hist := by simp [crash]
@[simp] theorem crash_thr (s t ev) : (crash s t ev).thr = upd s.thr t [.dead] := by simp [crash]

@[simp] theorem decLoop_cache (s t rest tp refs path o) :
    (decLoop s t rest tp refs path o).cache = s.cache := by
  unfold decLoop
  split
  · rfl
  · split
    · simp
    · split
      · simp
      · split <;> simp
@[simp] theorem decLoop_wip (s t rest tp refs path o) :
    (decLoop s t rest tp refs path o).wip = s.wip := by
  unfold decLoop
  split
  · rfl
  · split
    · simp
    · split
      · simp
      · split <;> simp
@[simp] theorem decLoop_pend (s t rest tp refs path o) :
    (decLoop s t rest tp refs path o).pend = s.pend := by
  unfold decLoop
  split
  · rfl
  · split
    · simp
    · split
      · simp
      · split <;> simp
@[simp] theorem decLoop_npend (s t rest tp refs path o) :
    (decLoop s t rest tp refs path o).npend = s.npend := by
  unfold decLoop
  split
  · rfl
  · split
    · simp
    · split
      · simp
      · split <;> simp

@[simp] theorem exclCall_cache (cfg s t stk o tp path) :
    (exclCall cfg s t stk o tp path).cache = s.cache := by
  unfold exclCall
  split
  · rfl
  · split
    · simp
    · split <;> rfl

/-! ### cacheStoreOrLoad -/

theorem storeMissing_le (tp : Ty) (v : Val) (refs : List Ref) :
    ∀ c : Key → Option Val, CacheLe c (storeMissing c tp v refs) := by
  induction refs with
  | nil => intro c; exact CacheLe.refl c
  | cons r rs ih =>
    intro c
    unfold storeMissing
    split
    · exact ih c
    · next h => exact CacheLe.trans (CacheLe.upd_none h v) (ih _)

theorem storeOrLoad_fixed_le (c : Key → Option Val) (tp : Ty) (refs : List Ref) (v : Val) :
    CacheLe c (storeOrLoad true c tp refs v).1 := by
  unfold storeOrLoad
  simp only [if_true]
  split <;> exact storeMissing_le _ _ _ _

theorem pairCall_le (cfg s t r A B a b) : CacheLe s.cache (pairCall cfg s t r A B a b).cache := by
  unfold pairCall
  split
  · split
    · exact CacheLe.refl _
    · next h => exact CacheLe.upd_none h b
  · next hA =>
    simp only
    split
    · exact CacheLe.upd_none hA a
    · next h => exact CacheLe.trans (CacheLe.upd_none hA a) (CacheLe.upd_none h b)

theorem fnReturn_le (cfg : Cfg) (hf : cfg.fixed = true) (s t rest tp refs res) :
    CacheLe s.cache (fnReturn cfg s t rest tp refs res).cache := by
  unfold fnReturn
  split
  · simp; exact CacheLe.refl _
  · simp; exact CacheLe.refl _
  · split
    · simp; exact CacheLe.refl _
    · simp [hf]; exact storeOrLoad_fixed_le _ _ _ _

/-- every transition of the fixed protocol only extends the cache -/
theorem step_le (cfg : Cfg) (hf : cfg.fixed = true) (s s' : State) (t : Tid) (a : Act)
    (h : step cfg s t a = some s') : CacheLe s.cache s'.cache := by
  unfold step at h
  split at h
  · split at h
    · cases h; simp; exact CacheLe.refl _
    · cases h
  · split at h
    · cases h; simp; exact CacheLe.refl _
    · cases h
  · split at h
    · cases h; exact pairCall_le _ _ _ _ _ _ _ _
    · cases h
  · split at h
    · cases h; exact fnReturn_le cfg hf _ _ _ _ _ _
    · split at h <;> cases h <;> simp <;> exact CacheLe.refl _
    · cases h
  · split at h
    · cases h; simp; exact CacheLe.refl _
    · cases h
  · split at h
    · split at h <;> cases h <;> simp <;> exact CacheLe.refl _
    · cases h; simp; exact CacheLe.refl _
    · cases h; exact CacheLe.refl _
    · cases h; exact CacheLe.refl _
    · cases h; simp; exact CacheLe.refl _
    · split at h
      · split at h
        · cases h; simp; exact CacheLe.refl _
        · cases h; simp; exact CacheLe.refl _
        · cases h
        · cases h; simp; exact CacheLe.refl _
      · cases h
    · cases h

theorem run_le (cfg : Cfg) (hf : cfg.fixed = true) (ls : List Label) :
    ∀ s s', run cfg s ls = some s' → CacheLe s.cache s'.cache := by
  induction ls with
  | nil => intro s s' h; simp [run] at h; subst h; exact CacheLe.refl _
  | cons l ls ih =>
    intro s s' h
    obtain ⟨t, a⟩ := l
    simp only [run] at h
    split at h
    · next s1 h1 => exact CacheLe.trans (step_le cfg hf s s1 t a h1) (ih s1 s' h)
    · cases h

end PdfVerif.CONC

namespace PdfVerif.CONC

/-! ### induction over traces -/

/-- invariants: `P` holds along every trace whose labels satisfy `G` -/
theorem run_inv (cfg : Cfg) (G : Label → Prop) (P : State → Prop)
    (hstep : ∀ s t a s', G (t, a) → P s → step cfg s t a = some s' → P s') :
    ∀ (ls : List Label) (s s' : State), (∀ l ∈ ls, G l) → P s → run cfg s ls = some s' → P s' := by
  intro ls
  induction ls with
  | nil => intro s s' _ hp h; simp [run] at h; subst h; exact hp
  | cons l ls ih =>
    intro s s' hg hp h
    obtain ⟨t, a⟩ := l
    simp only [run] at h
    split at h
    · next s1 h1 =>
      exact ih s1 s' (fun l hl => hg l (List.mem_cons_of_mem _ hl))
        (hstep s t a s1 (hg (t, a) List.mem_cons_self) hp h1) h
    · cases h

/-! ### the thread component after each helper: always `upd s.thr t <new stack>` -/

theorem deliver_thr (s t rest res) : (deliver s t rest res).thr = upd s.thr t (deliverStack rest res) := rfl

theorem retDec_thr (s t rest o tp res) :
    (retDec s t rest o tp res).thr = upd s.thr t (deliverStack rest res) := by
  simp [retDec, deliver_thr]

theorem retExc_thr (s t rest o tp res p) :
    (retExc s t rest o tp res p).thr = upd s.thr t (deliverStack rest res) := by
  simp [retExc, deliver_thr]

/-- the stack `decLoop` leaves for its thread -/
def decLoopStack (s : State) (rest : List Frame) (tp : Ty) (refs path : List Ref) (o : Obj) :
    List Frame :=
  match o with
  | .direct => .decFn tp refs path :: rest
  | .ref r =>
    match s.cache (r, tp) with
    | some v => deliverStack rest (.ok v)
    | none =>
      if r ∈ path then deliverStack rest (.err .cycle)
      else if path.length + 1 > maxDepth then deliverStack rest (.err .depth)
      else .decGet tp (refs ++ [r]) (r :: path) r :: rest

theorem decLoop_thr (s t rest tp refs path o) :
    (decLoop s t rest tp refs path o).thr = upd s.thr t (decLoopStack s rest tp refs path o) := by
  cases o with
  | direct => rfl
  | ref r =>
    simp only [decLoop, decLoopStack]
    cases h : s.cache (r, tp) with
    | some v => simp [retDec_thr]
    | none =>
      by_cases h1 : r ∈ path
      · simp [h1, retDec_thr]
      · by_cases h2 : path.length + 1 > maxDepth
        · simp [h1, h2, retDec_thr]
        · simp [h1, h2]

theorem upd_upd {α β : Type} [DecidableEq α] (f : α → β) (a : α) (b c : β) :
    upd (upd f a b) a c = upd f a c := by
  funext x; simp [upd]; split <;> rfl

end PdfVerif.CONC

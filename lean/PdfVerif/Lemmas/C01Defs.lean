import PdfVerif.Props.C01
import PdfVerif.Props.C01b
/-!
Definitions used by the statements of the C01 object round-trip theorems (Props/C01c, C01d):

* `rd o` — the value the scanner returns for the text written for `o` (entries in written order)
* `good o` — the size hypotheses the scanner's caps force (decidable, `Bool`)
* `depthOf o` — nesting depth
* `tokStart`, `Cont` — what may follow a token in formatter output

and the byte-class facts about them (all by `decide +kernel` over the generated class table).
-/
namespace PdfVerif.C01L
open PdfVerif PdfVerif.C01b

/-! ### what is read back -/

mutual
/-- value read back from the text of `o`: a typed nil array or dictionary (`.nilArr`) is written as `null`, a Real is read as
    the written token (dot forced), a dictionary loses its nil entries -/
def rd : Obj → Obj
  | .nilArr => .null
  | .real t => .real (realToken t)
  | .arr xs => .arr (rdList xs)
  | .dict kv => .dict (rdKV kv)
  | .null => .null
  | .bool b => .bool b
  | .int i => .int i
  | .name n => .name n
  | .str s => .str s
  | .op o => .op o
  | .ref n g => .ref n g
def rdList : List Obj → List Obj
  | [] => []
  | x :: xs => rd x :: rdList xs
def rdKV : List (Bytes × Obj) → List (Bytes × Obj)
  | [] => []
  | (k, v) :: rest =>
    match v with
    | .null => rdKV rest
    | v => (k, rd v) :: rdKV rest
end

/-! ### size hypotheses -/

def isRefObj : Obj → Bool
  | .ref _ _ => true
  | _ => false

def goodName (n : Bytes) : Bool := n.all (· < 256) && decide (n.length ≤ Gen.scanner_maxNameBytes)

def keysOf (kv : List (Bytes × Obj)) : List Bytes := kv.map (·.1)

mutual
/-- the documented size limits: int64 integers, well-formed real tokens within the number cap,
    names and strings of bytes of at most `maxNameBytes` / `maxStringBytes` bytes, references below `maxXRefSize` /
    `maxGeneration`, arrays and dictionaries below their length caps, dictionary keys unique
    (a Go map), no content-stream operators -/
def good : Obj → Bool
  | .null => true
  | .nilArr => true
  | .bool _ => true
  | .int i => decide (-9223372036854775808 ≤ i ∧ i ≤ 9223372036854775807)
  | .real t => wfRealTok t && decide ((realToken t).length ≤ Gen.scanner_maxNameBytes)
  | .name n => goodName n
  | .str s => s.all (· < 256) && decide (s.length ≤ Gen.scanner_maxStringBytes)
  | .op _ => false
  | .ref n g => decide (n < Gen.xref_maxXRefSize) && decide (g ≤ Gen.xref_maxGeneration)
  | .arr xs => goodList xs && decide (xs.length ≤ Gen.scanner_maxArrayLen)
  | .dict kv => goodKV kv && decide ((keysOf kv).Nodup) && decide (kv.length ≤ Gen.scanner_maxDictLen)
def goodList : List Obj → Bool
  | [] => true
  | x :: xs => good x && goodList xs
def goodKV : List (Bytes × Obj) → Bool
  | [] => true
  | (k, v) :: rest => goodName k && good v && goodKV rest
end

mutual
def depthOf : Obj → Nat
  | .arr xs => depthList xs + 1
  | .dict kv => depthKV kv + 1
  | _ => 0
def depthList : List Obj → Nat
  | [] => 0
  | x :: xs => max (depthOf x) (depthList xs)
def depthKV : List (Bytes × Obj) → Nat
  | [] => 0
  | (_, v) :: rest => max (depthOf v) (depthKV rest)
end

/-! ### token starts and continuations -/

/-- first bytes of the object tokens the formatter writes -/
def objStart (c : Nat) : Bool :=
  isDigit c || c == 45 || c == 46 || c == 110 || c == 116 || c == 102 ||
  c == 47 || c == 40 || c == 60 || c == 91

/-- first bytes of the tokens the formatter writes, including the closing brackets, and `e`:
    the keywords `endobj` / `endstream` that follow an object in a file (C02 `indirect_obj_rt`) -/
def tokStart (c : Nat) : Bool := objStart c || c == 93 || c == 62 || c == 101

theorem objStart_tokStart {c : Nat} (h : objStart c = true) : tokStart c = true := by simp [tokStart, h]

theorem objStart_ne {c : Nat} (h : objStart c = true) : c ≠ 93 ∧ c ≠ 62 ∧ c ≠ 82 := by
  simp [objStart, isDigit] at h; omega

/-- what follows a token in formatter output: end of input, another token (a delimiter if the
    previous token asked for a separator), or one space / line feed and then a token -/
def Cont (ns : Bool) : Bytes → Prop
  | [] => True
  | c :: t => (tokStart c = true ∧ (ns = true → isRegular c = false)) ∨
              ((c = 32 ∨ c = 10) ∧ ∃ c' t', t = c' :: t' ∧ tokStart c' = true)

theorem tokStart_lt (c : Nat) (h : tokStart c = true) : c < 256 := by
  simp [tokStart, objStart, isDigit] at h; omega

theorem tokStart_table : ∀ c, c < 256 → tokStart c = true →
    isSpace c = false ∧ c ≠ 37 ∧ c ≠ 82 ∧ c ≠ 115 ∧ c ≠ 32 ∧ c ≠ 10 ∧ c ≠ 35 := by decide +kernel

theorem tokStart_facts (c : Nat) (h : tokStart c = true) :
    isSpace c = false ∧ c ≠ 37 ∧ c ≠ 82 ∧ c ≠ 115 ∧ c ≠ 32 ∧ c ≠ 10 ∧ c ≠ 35 :=
  tokStart_table c (tokStart_lt c h) h

theorem class_size : Gen.scanner_class.size = 256 := by decide +kernel

theorem nonreg_lt (c : Nat) (h : isRegular c = false) : c < 256 := by
  by_cases hc : c < 256
  · exact hc
  · have : Gen.scanner_class.getD c 0 = 0 := by
      simp [Array.getD, class_size, hc]
    simp [isRegular, classOf, this, Gen.scanner_regular] at h

theorem nonreg_table : ∀ c, c < 256 → isRegular c = false →
    isDigit c = false ∧ c ≠ 46 ∧ c ≠ 35 ∧ c ≠ 43 ∧ c ≠ 45 := by decide +kernel

theorem nonreg_facts (c : Nat) (h : isRegular c = false) :
    isDigit c = false ∧ c ≠ 46 ∧ c ≠ 35 ∧ c ≠ 43 ∧ c ≠ 45 :=
  nonreg_table c (nonreg_lt c h) h

theorem space_facts : isSpace 32 = true ∧ isSpace 10 = true ∧ isRegular 32 = false ∧ isRegular 10 = false ∧
    isRegular 47 = false ∧ isRegular 62 = false ∧ isRegular 93 = false ∧ isRegular 40 = false ∧
    isRegular 60 = false ∧ isRegular 91 = false := by decide +kernel

/-! ### `skipWS` on formatter output -/

theorem skipWS_tok (c : Nat) (t : Bytes) (h : tokStart c = true) : skipWS (c :: t) = (c :: t, false) := by
  obtain ⟨h1, h2, _⟩ := tokStart_facts c h
  simp [skipWS, h1, h2]

theorem skipWS_sp (x : Bytes) : skipWS (32 :: x) = skipWS x := by
  have := space_facts.1
  simp [skipWS, this]

theorem skipWS_lf (x : Bytes) : skipWS (10 :: x) = skipWS x := by
  have := space_facts.2.1
  simp [skipWS, this]

/-- the three shapes of a continuation, as seen through `SkipWhiteSpace` -/
theorem cont_cases {ns : Bool} {k : Bytes} (h : Cont ns k) :
    (k = [] ∧ skipWS k = ([], true)) ∨
    (∃ c t, tokStart c = true ∧ skipWS k = (c :: t, false) ∧
      ((k = c :: t ∧ (ns = true → isRegular c = false)) ∨ (k = 32 :: c :: t) ∨ (k = 10 :: c :: t))) := by
  cases k with
  | nil => left; simp [skipWS]
  | cons c t =>
    right
    rcases h with ⟨h1, h2⟩ | ⟨h1, c', t', h2, h3⟩
    · exact ⟨c, t, h1, skipWS_tok c t h1, .inl ⟨rfl, h2⟩⟩
    · subst h2
      rcases h1 with h1 | h1 <;> subst h1
      · exact ⟨c', t', h3, by rw [skipWS_sp, skipWS_tok c' t' h3], .inr (.inl rfl)⟩
      · exact ⟨c', t', h3, by rw [skipWS_lf, skipWS_tok c' t' h3], .inr (.inr rfl)⟩

theorem cont_skip_idem {ns : Bool} {k : Bytes} (h : Cont ns k) : skipWS (skipWS k).1 = skipWS k := by
  rcases cont_cases h with ⟨h1, h2⟩ | ⟨c, t, h1, h2, _⟩
  · rw [h2]; simp [skipWS]
  · rw [h2]; exact skipWS_tok c t h1

theorem cont_nostream {ns : Bool} {k : Bytes} (h : Cont ns k) : startsWith (skipWS k).1 kw_stream = false := by
  rcases cont_cases h with ⟨h1, h2⟩ | ⟨c, t, h1, h2, _⟩
  · rw [h2]; simp [startsWith, isPrefixOf, kw_stream]
  · rw [h2]
    have := (tokStart_facts c h1).2.2.2.1
    simp [startsWith, isPrefixOf, kw_stream]
    intro h; exact absurd h.symm this

theorem cont_head_nonreg {k : Bytes} (h : Cont true k) : ∀ c t, k = c :: t → isRegular c = false := by
  intro c t hk
  subst hk
  rcases h with ⟨_, h2⟩ | ⟨h1, _⟩
  · exact h2 rfl
  · rcases h1 with h1 | h1 <;> subst h1
    · exact space_facts.2.2.1
    · exact space_facts.2.2.2.1

theorem cont_numstop {k : Bytes} (h : Cont true k) (b : Bool) : NumStop b k := by
  cases k with
  | nil => trivial
  | cons c t =>
    have := nonreg_facts c (cont_head_nonreg h c t rfl)
    exact ⟨this.1, fun _ => this.2.1⟩

theorem cont_nameEnd {k : Bytes} (h : Cont true k) : C01.NameEnd k := by
  cases k with
  | nil => trivial
  | cons c t =>
    have hr := cont_head_nonreg h c t rfl
    have := nonreg_facts c hr
    exact ⟨hr, by simpa using this.2.2.1⟩

theorem cont_weaken {ns : Bool} {k : Bytes} (h : Cont ns k) : Cont false k := by
  cases k with
  | nil => trivial
  | cons c t =>
    rcases h with ⟨h1, _⟩ | h
    · exact .inl ⟨h1, by simp⟩
    · exact .inr h

end PdfVerif.C01L

import PdfVerif.Lemmas.C01Leaf
/-!
C01/C05 helper lemmas: one step of each of the five mutually recursive readers of the scanner
model, as a case distinction proved once (`readObject_cases`, `readArray_eq`, `readArrayLoop_cases`,
`readDict_cases`, `readDictLoop_cases`).  The inductions over the fuel in `C01Total.lean` and
`C01Caps.lean` use only these.
-/
namespace PdfVerif.C01L
open PdfVerif

theorem isPrefixOf_len : ∀ (pat inp : Bytes), isPrefixOf pat inp = true → pat.length ≤ inp.length := by
  intro pat
  induction pat with
  | nil => intro inp _; simp
  | cons a as ih =>
    intro inp h
    cases inp with
    | nil => simp [isPrefixOf] at h
    | cons b bs => simp [isPrefixOf] at h; have := ih bs h.2; simp; omega

/-- `integersSeen` after appending `o` -/
def nextIntsM (o : Obj) (ints : Nat) : Nat := match o with | .int _ => ints + 1 | _ => 0

/-- the result of the dictionary branch of `readObject` -/
def dictResult (r : Except Err (List (Bytes × Obj) × Bytes)) : Except Err (Obj × Bytes) :=
  match r with
  | .error e => .error e
  | .ok (dd, r) =>
    if startsWith (skipWS r).1 kw_stream then .error .malformed else .ok (.dict dd, (skipWS r).1)

/-- the branches of `readObject`, once and for all -/
theorem readObject_cases (f d : Nat) (inp : Bytes) :
    (readObject (f + 1) d inp = .error .malformed) ∨
    (∃ k o, 0 < k ∧ k ≤ inp.length ∧ (o = .null ∨ o = .bool true ∨ o = .bool false) ∧
        readObject (f + 1) d inp = .ok (o, inp.drop k)) ∨
    (readObject (f + 1) d inp = (readName inp).map fun (n, r) => (.name n, r)) ∨
    (readObject (f + 1) d inp = readNumber inp) ∨
    (readObject (f + 1) d inp = dictResult (readDict f d inp)) ∨
    (∃ c rest, inp = c :: rest ∧ readObject (f + 1) d inp = (readString rest).map fun (s, r) => (.str s, r)) ∨
    (∃ c rest, inp = c :: rest ∧ readObject (f + 1) d inp = (readHexString rest).map fun (s, r) => (.str s, r)) ∨
    (∃ c rest, inp = c :: rest ∧ readObject (f + 1) d inp = (readArray f d rest).map fun (xs, r) => (.arr xs, r)) := by
  cases inp with
  | nil => left; rw [readObject]
  | cons c rest =>
    rw [readObject]
    dsimp only
    by_cases c1 : startsWith (c :: rest) kw_null = true
    · rw [if_pos c1]; right; left
      exact ⟨4, .null, by omega, isPrefixOf_len _ _ c1, .inl rfl, rfl⟩
    rw [if_neg c1]
    by_cases c2 : startsWith (c :: rest) kw_true = true
    · rw [if_pos c2]; right; left
      exact ⟨4, .bool true, by omega, isPrefixOf_len _ _ c2, .inr (.inl rfl), rfl⟩
    rw [if_neg c2]
    by_cases c3 : startsWith (c :: rest) kw_false = true
    · rw [if_pos c3]; right; left
      exact ⟨5, .bool false, by omega, isPrefixOf_len _ _ c3, .inr (.inr rfl), rfl⟩
    rw [if_neg c3]
    by_cases c4 : (c == 47) = true
    · rw [if_pos c4]; right; right; left; rfl
    rw [if_neg c4]
    by_cases c5 : (isDigit c || c == 43 || c == 45 || c == 46) = true
    · rw [if_pos c5]; right; right; right; left; rfl
    rw [if_neg c5]
    by_cases c6 : (c == 60 && rest.head? == some 60) = true
    · rw [if_pos c6]; right; right; right; right; left
      unfold dictResult
      cases readDict f d (c :: rest) with
      | error e => rfl
      | ok p => rfl
    rw [if_neg c6]
    by_cases c7 : (c == 40) = true
    · rw [if_pos c7]; right; right; right; right; right; left; exact ⟨c, rest, rfl, rfl⟩
    rw [if_neg c7]
    by_cases c8 : (c == 60) = true
    · rw [if_pos c8]; right; right; right; right; right; right; left; exact ⟨c, rest, rfl, rfl⟩
    rw [if_neg c8]
    by_cases c9 : (c == 91) = true
    · rw [if_pos c9]; right; right; right; right; right; right; right; exact ⟨c, rest, rfl, rfl⟩
    rw [if_neg c9]; left; rfl

theorem readArray_eq (f d : Nat) (inp : Bytes) :
    readArray (f + 1) d inp =
      if d ≥ Gen.scanner_maxScannerNestDepth then .error .malformed
      else (readArrayLoop f (d + 1) [] 0 inp).mapError Err.inComposite := by
  rw [readArray]

theorem readDict_cases (f d : Nat) (inp : Bytes) :
    (readDict (f + 1) d inp = .error .malformed) ∨
    (∃ rest r, inp = 60 :: 60 :: rest ∧ d < Gen.scanner_maxScannerNestDepth ∧ skipWS rest = (r, false) ∧
        readDict (f + 1) d inp = (readDictLoop f (d + 1) [] r).mapError Err.inComposite) := by
  by_cases hshape : ∃ rest, inp = 60 :: 60 :: rest
  · obtain ⟨rest, rfl⟩ := hshape
    rw [readDict]
    by_cases hd : d ≥ Gen.scanner_maxScannerNestDepth
    · rw [if_pos hd]; left; rfl
    · rw [if_neg hd]
      cases hs : skipWS rest with
      | mk r b =>
        cases b with
        | true => left; rfl
        | false => right; exact ⟨rest, r, rfl, by omega, hs, rfl⟩
  · left
    rw [readDict]
    · split <;> rfl
    · intro rest hr; exact hshape ⟨rest, hr⟩

/-- one iteration of the loop of `ReadArray` -/
theorem readArrayLoop_cases (f d : Nat) (acc : List Obj) (ints : Nat) (inp : Bytes) :
    (readArrayLoop (f + 1) d acc ints inp = .error .eof) ∨
    (∃ rest, skipWS inp = (93 :: rest, false) ∧
        readArrayLoop (f + 1) d acc ints inp =
          if acc.length > Gen.scanner_maxArrayLen then .error .malformed else .ok (acc.reverse, rest)) ∨
    (∃ rest, skipWS inp = (82 :: rest, false) ∧ ints ≥ 2 ∧
        ((∃ b a acc', acc = .int b :: .int a :: acc' ∧
            readArrayLoop (f + 1) d acc ints inp =
              readArrayLoop f d ((if validRef a b then Obj.ref a.toNat b.toNat else Obj.null) :: acc') 0 rest) ∨
         ((∀ b a acc', acc ≠ .int b :: .int a :: acc') ∧
            readArrayLoop (f + 1) d acc ints inp = .error .other))) ∨
    (∃ c rest, skipWS inp = (c :: rest, false) ∧
        readArrayLoop (f + 1) d acc ints inp =
          match readObject f d (c :: rest) with
          | .error e => .error e
          | .ok (o, r) =>
            if acc.length > Gen.scanner_maxArrayLen then .error .malformed
            else readArrayLoop f d (o :: acc) (nextIntsM o ints) r) := by
  rw [readArrayLoop]
  cases hs : skipWS inp with
  | mk a b =>
    cases b with
    | true => left; rfl
    | false =>
      cases a with
      | nil => left; rfl
      | cons c rest =>
        dsimp only
        by_cases c1 : (c == 93) = true
        · rw [if_pos c1]; right; left
          have : c = 93 := by simpa using c1
          subst this
          exact ⟨rest, rfl, rfl⟩
        rw [if_neg c1]
        by_cases c2 : (decide (ints ≥ 2) && c == 82) = true
        · rw [if_pos c2]; right; right; left
          simp at c2
          obtain ⟨hi, rfl⟩ := c2
          refine ⟨rest, rfl, hi, ?_⟩
          split
          · rename_i b a acc'; left; exact ⟨b, a, acc', rfl, rfl⟩
          · rename_i hne; right; exact ⟨fun b a acc' h => hne b a acc' h, rfl⟩
        rw [if_neg c2]; right; right; right
        refine ⟨c, rest, rfl, ?_⟩
        cases readObject f d (c :: rest) with
        | error e => rfl
        | ok p => rfl

/-- the value a dictionary entry ends up with: the value read, or the reference made of it and
    the following integer -/
def EntryVal (val v : Obj) : Prop :=
  v = val ∨ ∃ a b, val = .int a ∧ v = (if validRef a b then Obj.ref a.toNat b.toNat else Obj.null)

/-- one iteration of the loop of `ReadDict` -/
theorem readDictLoop_cases (f d : Nat) (acc : List (Bytes × Obj)) (inp : Bytes) :
    (∃ e, e ≠ .other ∧ readDictLoop (f + 1) d acc inp = .error e) ∨
    (∃ rest, inp = 62 :: 62 :: rest ∧ readDictLoop (f + 1) d acc inp = .ok (acc, rest)) ∨
    (∃ key r1 r2, readName inp = .ok (key, r1) ∧ skipWS r1 = (r2, false) ∧
      ((∃ e, e ≠ .other ∧ readDictLoop (f + 1) d acc inp = .error e) ∨
       (∃ e, readObject f d r2 = .error e ∧ readDictLoop (f + 1) d acc inp = .error e) ∨
       (∃ val r3 v r', readObject f d r2 = .ok (val, r3) ∧ r'.length ≤ r3.length ∧ EntryVal val v ∧
          ((acc.any fun e => e.1 == key) = true ∨ acc.length < Gen.scanner_maxDictLen) ∧
          readDictLoop (f + 1) d acc inp = readDictLoop f d (dictInsert key v acc) r'))) := by
  generalize hres : readDictLoop (f + 1) d acc inp = res
  by_cases hshape : ∃ rest, inp = 62 :: 62 :: rest
  · obtain ⟨rest, rfl⟩ := hshape
    rw [readDictLoop] at hres
    right; left
    exact ⟨rest, rfl, by rw [← hres]; simp [readName]⟩
  · have hside : ∀ rest, inp = 62 :: 62 :: rest → False := fun rest hr => hshape ⟨rest, hr⟩
    rw [readDictLoop] at hres
    case x_5 => exact hside
    cases hn : readName inp with
    | error e => rw [hn] at hres; left; exact ⟨.malformed, by simp, hres.symm⟩
    | ok p =>
      obtain ⟨key, r1⟩ := p
      rw [hn] at hres
      dsimp only at hres
      cases hs1 : skipWS r1 with
      | mk r2 b =>
        rw [hs1] at hres
        cases b with
        | true => left; exact ⟨.eof, by simp, hres.symm⟩
        | false =>
          dsimp only at hres
          right; right
          refine ⟨key, r1, r2, rfl, hs1, ?_⟩
          cases hro : readObject f d r2 with
          | error e => rw [hro] at hres; right; left; exact ⟨e, rfl, hres.symm⟩
          | ok p2 =>
            obtain ⟨val, r3⟩ := p2
            rw [hro] at hres
            dsimp only at hres
            cases hs2 : skipWS r3 with
            | mk a2 b2 =>
              rw [hs2] at hres
              have hl2 := skipWS_len' hs2
              cases b2 with
              | true => left; exact ⟨.eof, by simp, hres.symm⟩
              | false =>
                dsimp only at hres
                -- the common tail
                have hcont : ∀ (v : Obj) (rr : Bytes), rr.length ≤ r3.length → EntryVal val v →
                    (if ((!acc.any fun e => e.fst == key) && decide (acc.length ≥ Gen.scanner_maxDictLen)) = true then
                        (Except.error Err.malformed : Except Err (List (Bytes × Obj) × Bytes))
                      else readDictLoop f d (dictInsert key v acc) rr) = res →
                    ((∃ e, e ≠ .other ∧ res = .error e) ∨
                     (∃ e, Except.ok (val, r3) = (.error e : Except Err (Obj × Bytes)) ∧ res = .error e) ∨
                     (∃ val' r3' v r', Except.ok (val, r3) = (.ok (val', r3') : Except Err (Obj × Bytes)) ∧
                        r'.length ≤ r3'.length ∧ EntryVal val' v ∧
                        ((acc.any fun e => e.1 == key) = true ∨ acc.length < Gen.scanner_maxDictLen) ∧
                        res = readDictLoop f d (dictInsert key v acc) r')) := by
                  intro v rr hlen hev hh
                  split at hh
                  · left; exact ⟨.malformed, by simp, hh.symm⟩
                  · rename_i hc
                    right; right
                    refine ⟨val, r3, v, rr, rfl, hlen, hev, ?_, hh.symm⟩
                    cases ha : (acc.any fun e => e.1 == key) with
                    | true => left; rfl
                    | false =>
                      right
                      simp only [ha, Bool.not_false, Bool.true_and, decide_eq_true_eq] at hc
                      omega
                split at hres
                · rename_i a c tail
                  split at hres
                  · cases hri : readInteger (c :: tail) with
                    | error e =>
                      rw [hri] at hres
                      left; exact ⟨e, by rw [readInteger_err _ _ hri]; simp, hres.symm⟩
                    | ok p3 =>
                      obtain ⟨b, r4⟩ := p3
                      rw [hri] at hres
                      dsimp only at hres
                      have hl4 := readInteger_spec _ _ _ hri
                      cases hs3 : skipWS r4 with
                      | mk a3 b3 =>
                        rw [hs3] at hres
                        have hl3 := skipWS_len' hs3
                        cases b3 with
                        | true => left; exact ⟨.eof, by simp, hres.symm⟩
                        | false =>
                          cases a3 with
                          | nil => left; exact ⟨.malformed, by simp, hres.symm⟩
                          | cons x t3 =>
                            by_cases hx : x = 82
                            · subst hx
                              split at hres
                              · rename_i heq; simp at heq
                              · rename_i rr heq
                                simp at heq
                                subst heq
                                cases hs4 : skipWS t3 with
                                | mk a4 b4 =>
                                  rw [hs4] at hres
                                  have hl5 := skipWS_len' hs4
                                  cases b4 with
                                  | true => left; exact ⟨.eof, by simp, hres.symm⟩
                                  | false =>
                                    dsimp only at hres
                                    exact hcont _ a4 (by simp at hl3 hl2 hl4; omega) (.inr ⟨a, b, rfl, rfl⟩) hres
                              · rename_i hneg
                                exact absurd rfl (hneg t3)
                            · left
                              refine ⟨.malformed, by simp, ?_⟩
                              rw [← hres]
                              split
                              · rename_i heq; simp at heq
                              · rename_i heq; simp at heq; exact absurd heq.1 hx
                              · rfl
                  · exact hcont _ _ hl2 (.inl rfl) hres
                · exact hcont _ _ hl2 (.inl rfl) hres

end PdfVerif.C01L

import PdfVerif.Lemmas.CONCExclStep
/-! Invariant behind `pair_atomic` (C18). -/
namespace PdfVerif.CONC

/-- the history only grows -/
theorem step_hist_grows {cfg : Cfg} {s s' : State} {t : Tid} {a : Act}
    (h : step cfg s t a = some s') : ∃ evs, s'.hist = evs ++ s.hist := by
  unfold CONC.step at h
  cases a with
  | callDecode o tp path =>
    simp only at h
    split at h
    · cases h
      obtain ⟨evs, hh, _⟩ := decLoop_hist s t (s.thr t) tp [] path o
      exact ⟨evs, hh⟩
    · cases h
  | callPair r A B a b =>
    simp only at h
    split at h
    · cases h
      obtain ⟨res, hh, _, _⟩ := pairCall_thr_hist cfg s t r A B a b
      exact ⟨[_], hh⟩
    · cases h
  | callExcl o tp path =>
    simp only at h
    split at h
    · cases h
      unfold exclCall
      cases o with
      | direct => exact ⟨[_], rfl⟩
      | ref r =>
        simp only
        cases s.cache (r, tp) with
        | some v =>
          simp only
          exact ⟨[_], retExc_hist ..⟩
        | none =>
          simp only
          cases s.wip (r, tp) with
          | some p => exact ⟨[], rfl⟩
          | none => exact ⟨[], rfl⟩
    · cases h
  | fnRet res =>
    simp only at h
    split at h
    · next tp refs path rest e =>
      cases h
      cases res with
      | panic => exact ⟨[_], crash_hist ..⟩
      | err er => exact ⟨[_], rfl⟩
      | ok v =>
        cases refs with
        | nil => exact ⟨[_], rfl⟩
        | cons r0 rs => exact ⟨[_], rfl⟩
    · cases res with
      | panic => cases h; exact ⟨[_], crash_hist ..⟩
      | err er => cases h; exact ⟨[_], retExc_hist ..⟩
      | ok v => cases h; exact ⟨[_], retExc_hist ..⟩
    · cases h
  | goFail =>
    simp only at h
    split at h
    · cases h; exact ⟨[_], retDec_hist ..⟩
    · cases h
  | go =>
    simp only at h
    split at h
    · next tp refs path r rest e =>
      split at h
      · cases h; exact ⟨[_], retDec_hist ..⟩
      · cases h
        obtain ⟨evs, hh, _⟩ := decLoop_hist s t rest tp refs path (.ref _)
        exact ⟨evs, hh⟩
      · cases h
        obtain ⟨evs, hh, _⟩ := decLoop_hist s t rest tp refs path .direct
        exact ⟨evs, hh⟩
    · next k p path rest e =>
      cases h
      obtain ⟨evs, hh, _⟩ := decLoop_hist { s with thr := upd s.thr t (.exRun k p :: rest) } t
        (.exRun k p :: rest) k.2 [] path (.ref k.1)
      exact ⟨evs, hh⟩
    · cases h; exact ⟨[], rfl⟩
    · cases h; exact ⟨[], rfl⟩
    · cases h; exact ⟨[_], retExc_hist ..⟩
    · split at h
      · split at h
        · cases h; exact ⟨[_], retExc_hist ..⟩
        · cases h; exact ⟨[_], retExc_hist ..⟩
        · cases h
        · cases h; exact ⟨[_], retExc_hist ..⟩
      · cases h
    · cases h

/-- the type a frame will publish under -/
def frameTy : Frame → Option Ty
  | .decGet tp _ _ _ => some tp
  | .decFn tp _ _ => some tp
  | .exStart k _ _ => some k.2
  | .exRun k _ => some k.2
  | _ => none

/-- no frame of the stack publishes under type `A` or `B` -/
def TyOK (A B : Ty) (stk : List Frame) : Prop :=
  ∀ f ∈ stk, ∀ tp, frameTy f = some tp → tp ≠ A ∧ tp ≠ B

theorem TyOK.tail {A B : Ty} {f : Frame} {rest : List Frame} (h : TyOK A B (f :: rest)) :
    TyOK A B rest := fun g hg => h g (List.mem_cons_of_mem _ hg)

theorem TyOK.cons {A B : Ty} {f : Frame} {rest : List Frame} (h : TyOK A B rest)
    (hf : ∀ tp, frameTy f = some tp → tp ≠ A ∧ tp ≠ B) : TyOK A B (f :: rest) := by
  intro g hg
  rcases List.mem_cons.mp hg with e | e
  · subst e; exact hf
  · exact h g e

theorem TyOK.deliver {A B : Ty} {rest : List Frame} (h : TyOK A B rest) (res : Res) :
    TyOK A B (deliverStack rest res) := by
  unfold deliverStack
  split
  · exact h.tail.cons (by intro tp htp; simp [frameTy] at htp)
  · exact h

theorem TyOK.decLoop {A B : Ty} {rest : List Frame} (h : TyOK A B rest) (s : State) (tp : Ty)
    (htp : tp ≠ A ∧ tp ≠ B) (refs path o) : TyOK A B (decLoopStack s rest tp refs path o) := by
  unfold decLoopStack
  split
  · exact h.cons (by intro tp' e; simp [frameTy] at e; subst e; exact htp)
  · split
    · exact h.deliver _
    · split
      · exact h.deliver _
      · split
        · exact h.deliver _
        · exact h.cons (by intro tp' e; simp [frameTy] at e; subst e; exact htp)

/-- the discipline under which `A`, `B` are the two views of merged objects: they are published
only by `StoreOrLoadPair[A,B]` -/
def PairTypes (A B : Ty) : Label → Prop
  | (_, .callDecode _ tp _) => tp ≠ A ∧ tp ≠ B
  | (_, .callExcl _ tp _) => tp ≠ A ∧ tp ≠ B
  | (_, .callPair _ A' B' _ _) => (A' = A ∧ B' = B) ∨ (A' ≠ A ∧ A' ≠ B ∧ B' ≠ A ∧ B' ≠ B)
  | _ => True

theorem tyOK_step {cfg : Cfg} {A B : Ty} {s s' : State} {t : Tid} {a : Act}
    (hg : PairTypes A B (t, a)) (hs : ∀ t', TyOK A B (s.thr t'))
    (h : step cfg s t a = some s') : ∀ t', TyOK A B (s'.thr t') := by
  have key : ∀ (thr' : Tid → List Frame) (stk : List Frame), thr' = upd s.thr t stk → TyOK A B stk →
      ∀ t', TyOK A B (thr' t') := by
    intro thr' stk e hstk t'
    subst e
    simp only [upd_apply]
    split
    · exact hstk
    · exact hs t'
  have hdead : TyOK A B [.dead] := by intro f hf; simp at hf; subst hf; intro tp e; simp [frameTy] at e
  unfold CONC.step at h
  cases a with
  | callDecode o tp path =>
    simp only at h
    split at h
    · cases h; exact key _ _ (decLoop_thr ..) ((hs t).decLoop s tp hg _ _ _)
    · cases h
  | callPair r A' B' a b =>
    simp only at h
    split at h
    · cases h
      rw [pairCall_thr]; exact hs
    · cases h
  | callExcl o tp path =>
    simp only at h
    split at h
    · cases h
      unfold exclCall
      cases o with
      | direct => exact key _ _ rfl ((hs t).cons (by intro tp' e; simp [frameTy] at e))
      | ref r =>
        simp only
        cases s.cache (r, tp) with
        | some v =>
          simp only
          exact key _ _ (retExc_thr ..) ((hs t).deliver _)
        | none =>
          simp only
          cases s.wip (r, tp) with
          | some p => exact key _ _ rfl ((hs t).cons (by intro tp' e; simp [frameTy] at e))
          | none =>
            exact key _ _ rfl ((hs t).cons (by intro tp' e; simp [frameTy] at e; subst e; exact hg))
    · cases h
  | fnRet res =>
    simp only at h
    split at h
    · next tp refs path rest e =>
      cases h
      have hr : TyOK A B rest := by have := hs t; rw [e] at this; exact this.tail
      cases res with
      | panic => exact key _ _ (crash_thr ..) hdead
      | err er => exact key _ _ (retDec_thr ..) (hr.deliver _)
      | ok v =>
        cases refs with
        | nil => exact key _ _ (retDec_thr ..) (hr.deliver _)
        | cons r0 rs => exact key _ _ (retDec_thr ..) (hr.deliver _)
    · next tp path rest e =>
      have hr : TyOK A B rest := by have := hs t; rw [e] at this; exact this.tail
      cases res with
      | panic => cases h; exact key _ _ (crash_thr ..) hdead
      | err er => cases h; exact key _ _ (retExc_thr ..) (hr.deliver _)
      | ok v => cases h; exact key _ _ (retExc_thr ..) (hr.deliver _)
    · cases h
  | goFail =>
    simp only at h
    split at h
    · next tp refs path r rest e =>
      cases h
      have hr : TyOK A B rest := by have := hs t; rw [e] at this; exact this.tail
      exact key _ _ (retDec_thr ..) (hr.deliver _)
    · cases h
  | go =>
    simp only at h
    split at h
    · next tp refs path r rest e =>
      have hall := hs t
      rw [e] at hall
      have hr : TyOK A B rest := hall.tail
      have htp : tp ≠ A ∧ tp ≠ B := hall (.decGet tp refs path r) (by simp) tp rfl
      split at h
      · cases h; exact key _ _ (retDec_thr ..) (hr.deliver _)
      · cases h; exact key _ _ (decLoop_thr ..) (hr.decLoop s tp htp _ _ _)
      · cases h; exact key _ _ (decLoop_thr ..) (hr.decLoop s tp htp _ _ _)
    · next k p path rest e =>
      cases h
      have hall := hs t
      rw [e] at hall
      have htp : k.2 ≠ A ∧ k.2 ≠ B := hall (.exStart k p path) (by simp) k.2 rfl
      have h2 : TyOK A B (.exRun k p :: rest) :=
        hall.tail.cons (by intro tp' e'; simp [frameTy] at e'; subst e'; exact htp)
      refine key _ (decLoopStack s (.exRun k p :: rest) k.2 [] path (.ref k.1)) ?_ (h2.decLoop s k.2 htp _ _ _)
      rw [decLoop_thr]
      show upd (upd s.thr t _) t _ = _
      rw [upd_upd]; rfl
    · next k p res rest e =>
      cases h
      have hr : TyOK A B rest := by have := hs t; rw [e] at this; exact this.tail
      exact key _ _ rfl (hr.cons (by intro tp' e'; simp [frameTy] at e'))
    · next k p res rest e =>
      cases h
      have hr : TyOK A B rest := by have := hs t; rw [e] at this; exact this.tail
      exact key _ _ rfl (hr.cons (by intro tp' e'; simp [frameTy] at e'))
    · next k p res rest e =>
      cases h
      have hr : TyOK A B rest := by have := hs t; rw [e] at this; exact this.tail
      exact key _ _ (retExc_thr ..) (hr.deliver _)
    · next k p rest e =>
      have hr : TyOK A B rest := by have := hs t; rw [e] at this; exact this.tail
      split at h
      · split at h
        · cases h; exact key _ _ (retExc_thr ..) (hr.deliver _)
        · cases h; exact key _ _ (retExc_thr ..) (hr.deliver _)
        · cases h
        · cases h; exact key _ _ (retExc_thr ..) (hr.deliver _)
      · cases h
    · cases h

/-- which keys a transition can change: only the type of the returning `Decode` frame, or the
two keys of a `StoreOrLoadPair` -/
theorem step_cache_changes {cfg : Cfg} (hf : cfg.fixed = true) {s s' : State} {t : Tid} {a : Act}
    (h : step cfg s t a = some s') (k : Key) (hk : s'.cache k ≠ s.cache k) :
    (∃ tp refs path rest, s.thr t = .decFn tp refs path :: rest ∧ k.2 = tp) ∨
    (∃ r A' B' a' b', a = .callPair r A' B' a' b' ∧ k.1 = r ∧ (k.2 = A' ∨ k.2 = B')) := by
  unfold CONC.step at h
  cases a with
  | callDecode o tp path =>
    simp only at h
    split at h
    · cases h; simp at hk
    · cases h
  | callPair r A' B' a' b' =>
    simp only at h
    split at h
    · cases h
      right
      refine ⟨r, A', B', a', b', rfl, ?_⟩
      -- the cache differs from the old one only at (r,A'), (r,B')
      have : ∀ k : Key, ¬ (k.1 = r ∧ (k.2 = A' ∨ k.2 = B')) →
          (pairCall cfg s t r A' B' a' b').cache k = s.cache k := by
        intro k hn
        have h1 : k ≠ (r, A') := by intro e; subst e; exact hn ⟨rfl, .inl rfl⟩
        have h2 : k ≠ (r, B') := by intro e; subst e; exact hn ⟨rfl, .inr rfl⟩
        unfold pairCall
        split
        · split
          · rfl
          · simp [upd_apply, h2]
        · simp only
          split
          · simp [upd_apply, h1]
          · simp [upd_apply, h1, h2]
      exact Classical.byContradiction fun hn => hk (this k hn)
    · cases h
  | callExcl o tp path =>
    simp only at h
    split at h
    · cases h; simp at hk
    · cases h
  | fnRet res =>
    simp only at h
    split at h
    · next tp refs path rest e =>
      cases h
      left
      refine ⟨tp, refs, path, rest, e, ?_⟩
      apply Classical.byContradiction
      intro hne
      apply hk
      unfold fnReturn
      cases res with
      | panic => simp
      | err er => simp
      | ok v =>
        cases refs with
        | nil => simp
        | cons r0 rs =>
          simp only [retDec_cache, hf, storeOrLoad, if_true]
          split <;> (dsimp only; rw [storeMissing_apply]; simp [hne])
    · cases res <;> cases h <;> simp at hk
    · cases h
  | goFail =>
    simp only at h
    split at h
    · cases h; simp at hk
    · cases h
  | go =>
    simp only at h
    split at h
    · split at h <;> cases h <;> simp at hk
    · cases h; simp at hk
    · cases h; simp at hk
    · cases h; simp at hk
    · cases h; simp at hk
    · split at h
      · split at h
        · cases h; simp at hk
        · cases h; simp at hk
        · cases h
        · cases h; simp at hk
      · cases h
    · cases h

end PdfVerif.CONC

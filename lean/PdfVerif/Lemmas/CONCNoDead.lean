import PdfVerif.Lemmas.CONCPair
/-! Since commit e69b1c0 no transition of the protocol itself can panic: a thread dies only when a
decode function panics. -/
namespace PdfVerif.CONC

/-- no frame of the stack is the remains of a panicked goroutine -/
def NoDead (stk : List Frame) : Prop := ∀ f ∈ stk, f ≠ .dead

theorem NoDead.tail {f : Frame} {rest : List Frame} (h : NoDead (f :: rest)) : NoDead rest :=
  fun g hg => h g (List.mem_cons_of_mem _ hg)

theorem NoDead.cons {f : Frame} {rest : List Frame} (h : NoDead rest) (hf : f ≠ .dead) :
    NoDead (f :: rest) := by
  intro g hg
  rcases List.mem_cons.mp hg with e | e
  · subst e; exact hf
  · exact h g e

theorem NoDead.deliver {rest : List Frame} (h : NoDead rest) (res : Res) :
    NoDead (deliverStack rest res) := by
  unfold deliverStack
  split
  · exact h.tail.cons (by simp)
  · exact h

theorem NoDead.decLoop {rest : List Frame} (h : NoDead rest) (s : State) (tp : Ty) (refs path o) :
    NoDead (decLoopStack s rest tp refs path o) := by
  unfold decLoopStack
  split
  · exact h.cons (by simp)
  · split
    · exact h.deliver _
    · split
      · exact h.deliver _
      · split
        · exact h.deliver _
        · exact h.cons (by simp)

theorem noDead_step {cfg : Cfg} {s s' : State} {t : Tid} {a : Act}
    (hg : a ≠ .fnRet .panic) (hs : ∀ t', NoDead (s.thr t'))
    (h : step cfg s t a = some s') : ∀ t', NoDead (s'.thr t') := by
  have key : ∀ (thr' : Tid → List Frame) (stk : List Frame), thr' = upd s.thr t stk → NoDead stk →
      ∀ t', NoDead (thr' t') := by
    intro thr' stk e hstk t'
    subst e
    simp only [upd_apply]
    split
    · exact hstk
    · exact hs t'
  unfold CONC.step at h
  cases a with
  | callDecode o tp path =>
    simp only at h
    split at h
    · cases h; exact key _ _ (decLoop_thr ..) ((hs t).decLoop s tp _ _ _)
    · cases h
  | callPair r A' B' a b =>
    simp only at h
    split at h
    · cases h
      rw [pairCall_thr]; exact hs
    · cases h
  | callExcl o tp path =>
    simp only at h
    split at h
    · cases h
      unfold exclCall
      cases o with
      | direct => exact key _ _ rfl ((hs t).cons (by simp))
      | ref r =>
        simp only
        cases s.cache (r, tp) with
        | some v =>
          simp only
          exact key _ _ (retExc_thr ..) ((hs t).deliver _)
        | none =>
          simp only
          cases s.wip (r, tp) with
          | some p => exact key _ _ rfl ((hs t).cons (by simp))
          | none =>
            exact key _ _ rfl ((hs t).cons (by simp))
    · cases h
  | fnRet res =>
    simp only at h
    split at h
    · next tp refs path rest e =>
      cases h
      have hr : NoDead rest := by have := hs t; rw [e] at this; exact this.tail
      cases res with
      | panic => exact absurd rfl hg
      | err er => exact key _ _ (retDec_thr ..) (hr.deliver _)
      | ok v =>
        cases refs with
        | nil => exact key _ _ (retDec_thr ..) (hr.deliver _)
        | cons r0 rs => exact key _ _ (retDec_thr ..) (hr.deliver _)
    · next tp path rest e =>
      have hr : NoDead rest := by have := hs t; rw [e] at this; exact this.tail
      cases res with
      | panic => exact absurd rfl hg
      | err er => cases h; exact key _ _ (retExc_thr ..) (hr.deliver _)
      | ok v => cases h; exact key _ _ (retExc_thr ..) (hr.deliver _)
    · cases h
  | goFail =>
    simp only at h
    split at h
    · next tp refs path r rest e =>
      cases h
      have hr : NoDead rest := by have := hs t; rw [e] at this; exact this.tail
      exact key _ _ (retDec_thr ..) (hr.deliver _)
    · cases h
  | go =>
    simp only at h
    split at h
    · next tp refs path r rest e =>
      have hall := hs t
      rw [e] at hall
      have hr : NoDead rest := hall.tail
      split at h
      · cases h; exact key _ _ (retDec_thr ..) (hr.deliver _)
      · cases h; exact key _ _ (decLoop_thr ..) (hr.decLoop s tp _ _ _)
      · cases h; exact key _ _ (decLoop_thr ..) (hr.decLoop s tp _ _ _)
    · next k p path rest e =>
      cases h
      have hall := hs t
      rw [e] at hall
      have h2 : NoDead (.exRun k p :: rest) :=
        hall.tail.cons (by simp)
      refine key _ (decLoopStack s (.exRun k p :: rest) k.2 [] path (.ref k.1)) ?_ (h2.decLoop s k.2 _ _ _)
      rw [decLoop_thr]
      show upd (upd s.thr t _) t _ = _
      rw [upd_upd]; rfl
    · next k p res rest e =>
      cases h
      have hr : NoDead rest := by have := hs t; rw [e] at this; exact this.tail
      exact key _ _ rfl (hr.cons (by simp))
    · next k p res rest e =>
      cases h
      have hr : NoDead rest := by have := hs t; rw [e] at this; exact this.tail
      exact key _ _ rfl (hr.cons (by simp))
    · next k p res rest e =>
      cases h
      have hr : NoDead rest := by have := hs t; rw [e] at this; exact this.tail
      exact key _ _ (retExc_thr ..) (hr.deliver _)
    · next k p rest e =>
      have hr : NoDead rest := by have := hs t; rw [e] at this; exact this.tail
      split at h
      · split at h
        · cases h; exact key _ _ (retExc_thr ..) (hr.deliver _)
        · cases h; exact key _ _ (retExc_thr ..) (hr.deliver _)
        · cases h
        · cases h; exact key _ _ (retExc_thr ..) (hr.deliver _)
      · cases h
    · cases h


end PdfVerif.CONC

import PdfVerif.Lemmas.C01Sort
import PdfVerif.Lemmas.C01Dict
/-!
C01 helper lemmas: `Obj.canon` (putting every dictionary into `SortedKeys` order, the first step
of `format`) preserves the size hypotheses; the formatter succeeds on good objects; and the
comparison form `nrm` (nil entries absent, nil array ↦ null, reals as written tokens,
dictionaries as key-sorted association lists) of what is read back equals that of the original.
-/
namespace PdfVerif.C01L
open PdfVerif PdfVerif.C01b

/-! ### the comparison form -/

mutual
/-- comparison form of an object: a nil array is null, a real is its written token, a dictionary
    is its key-sorted list of non-nil entries -/
def nrm : Obj → Obj
  | .nilArr => .null
  | .real t => .real (realToken t)
  | .arr xs => .arr (nrmList xs)
  | .dict kv => .dict (sortKV (nrmKV kv))
  | .null => .null
  | .bool b => .bool b
  | .int i => .int i
  | .name n => .name n
  | .str s => .str s
  | .op o => .op o
  | .ref n g => .ref n g
def nrmList : List Obj → List Obj
  | [] => []
  | x :: xs => nrm x :: nrmList xs
def nrmKV : List (Bytes × Obj) → List (Bytes × Obj)
  | [] => []
  | (k, v) :: rest =>
    match nrm v with
    | .null => nrmKV rest
    | v' => (k, v') :: nrmKV rest
end

theorem realToken_idem (t : Bytes) : realToken (realToken t) = realToken t := by
  unfold realToken
  by_cases h : t.contains 46 = true
  · rw [if_pos h, if_pos h]
  · have h' : t.contains 46 = false := by simpa using h
    have : (t ++ [46]).contains 46 = true := by simp
    rw [if_neg h, if_pos this]

/-! ### `canon` and lists -/

theorem canonKV_keys (kv : List (Bytes × Obj)) : keysOf (canonKV kv) = keysOf kv := by
  induction kv with
  | nil => rfl
  | cons e es ih =>
    obtain ⟨k, v⟩ := e
    simp only [canonKV, keysOf, List.map_cons] at ih ⊢
    rw [ih]

theorem canonKV_length (kv : List (Bytes × Obj)) : (canonKV kv).length = kv.length := by
  induction kv with
  | nil => rfl
  | cons e es ih => obtain ⟨k, v⟩ := e; simp [canonKV, ih]

theorem canonList_length (xs : List Obj) : (canonList xs).length = xs.length := by
  induction xs with
  | nil => rfl
  | cons x xs ih => simp [canonList, ih]

theorem goodKV_iff (kv : List (Bytes × Obj)) :
    goodKV kv = true ↔ ∀ e ∈ kv, goodName e.1 = true ∧ good e.2 = true := by
  induction kv with
  | nil => simp [goodKV]
  | cons e es ih =>
    obtain ⟨k, v⟩ := e
    simp only [goodKV, Bool.and_eq_true, ih, List.mem_cons, forall_eq_or_imp]

theorem depthKV_le (kv : List (Bytes × Obj)) (n : Nat) :
    depthKV kv ≤ n ↔ ∀ e ∈ kv, depthOf e.2 ≤ n := by
  induction kv with
  | nil => simp [depthKV]
  | cons e es ih =>
    obtain ⟨k, v⟩ := e
    simp only [depthKV, List.mem_cons, forall_eq_or_imp, ← ih]
    omega

theorem goodKV_perm {l1 l2 : List (Bytes × Obj)} (h : l1.Perm l2) (hg : goodKV l1 = true) : goodKV l2 = true := by
  rw [goodKV_iff] at hg ⊢
  intro e he
  exact hg e (h.mem_iff.mpr he)

theorem depthKV_perm {l1 l2 : List (Bytes × Obj)} (h : l1.Perm l2) : depthKV l2 ≤ depthKV l1 := by
  rw [depthKV_le]
  intro e he
  exact (depthKV_le l1 _).mp (Nat.le_refl _) e (h.mem_iff.mpr he)

mutual
theorem good_canon : (o : Obj) → good o = true → good o.canon = true
  | .arr xs, h => by
    simp only [good, Bool.and_eq_true, decide_eq_true_eq] at h
    simp only [Obj.canon, good, Bool.and_eq_true, decide_eq_true_eq, canonList_length]
    exact ⟨goodList_canon xs h.1, h.2⟩
  | .dict kv, h => by
    simp only [good, Bool.and_eq_true, decide_eq_true_eq] at h
    simp only [Obj.canon, good, Bool.and_eq_true, decide_eq_true_eq]
    have hp := sortedEntries_perm (canonKV kv)
    refine ⟨⟨goodKV_perm hp.symm (goodKV_canon kv h.1.1), ?_⟩, ?_⟩
    · exact (keysOf_perm hp.symm).nodup (by rw [canonKV_keys]; exact h.1.2)
    · rw [hp.length_eq, canonKV_length]; exact h.2
  | .null, h => h
  | .nilArr, h => h
  | .bool _, h => h
  | .int _, h => h
  | .real _, h => h
  | .name _, h => h
  | .str _, h => h
  | .op _, h => h
  | .ref _ _, h => h
theorem goodList_canon : (xs : List Obj) → goodList xs = true → goodList (canonList xs) = true
  | [], _ => rfl
  | x :: xs, h => by
    simp only [goodList, Bool.and_eq_true] at h
    simp only [canonList, goodList, Bool.and_eq_true]
    exact ⟨good_canon x h.1, goodList_canon xs h.2⟩
theorem goodKV_canon : (kv : List (Bytes × Obj)) → goodKV kv = true → goodKV (canonKV kv) = true
  | [], _ => rfl
  | (k, v) :: es, h => by
    simp only [goodKV, Bool.and_eq_true] at h
    simp only [canonKV, goodKV, Bool.and_eq_true]
    exact ⟨⟨h.1.1, good_canon v h.1.2⟩, goodKV_canon es h.2⟩
end

mutual
theorem depth_canon : (o : Obj) → depthOf o.canon ≤ depthOf o
  | .arr xs => by
    simp only [Obj.canon, depthOf]
    have := depthList_canon xs; omega
  | .dict kv => by
    simp only [Obj.canon, depthOf]
    have h1 := depthKV_perm (sortedEntries_perm (canonKV kv)).symm
    have h2 := depthKV_canon kv
    omega
  | .null => Nat.le_refl _
  | .nilArr => Nat.le_refl _
  | .bool _ => Nat.le_refl _
  | .int _ => Nat.le_refl _
  | .real _ => Nat.le_refl _
  | .name _ => Nat.le_refl _
  | .str _ => Nat.le_refl _
  | .op _ => Nat.le_refl _
  | .ref _ _ => Nat.le_refl _
theorem depthList_canon : (xs : List Obj) → depthList (canonList xs) ≤ depthList xs
  | [] => Nat.le_refl _
  | x :: xs => by
    simp only [canonList, depthList]
    have := depth_canon x; have := depthList_canon xs; omega
theorem depthKV_canon : (kv : List (Bytes × Obj)) → depthKV (canonKV kv) ≤ depthKV kv
  | [] => Nat.le_refl _
  | (k, v) :: es => by
    simp only [canonKV, depthKV]
    have := depth_canon v; have := depthKV_canon es; omega
end

theorem isRefObj_canon (o : Obj) : isRefObj o.canon = isRefObj o := by
  cases o <;> simp [Obj.canon, isRefObj]

/-! ### the formatter succeeds on good objects -/

mutual
theorem fmtObj_some (opt : FmtOpt) : (o : Obj) → good o = true → ∀ ns, ∃ p, fmtObj opt ns o = some p
  | .arr xs, h, ns => by
    simp only [good, Bool.and_eq_true] at h
    obtain ⟨hp, hq⟩ := fmtSeq_some opt xs h.1
    cases hpr : opt.pretty
    · obtain ⟨b, hb⟩ := hp false
      exact ⟨_, (fmtObj_arr_inv opt ns xs _ false).mpr ⟨b, by simp [hpr, hb], rfl, rfl⟩⟩
    · obtain ⟨b, hb⟩ := hq true
      exact ⟨_, (fmtObj_arr_inv opt ns xs _ false).mpr ⟨b, by simp [hpr, hb], rfl, rfl⟩⟩
  | .dict kv, h, ns => by
    simp only [good, Bool.and_eq_true] at h
    obtain ⟨hp, hq⟩ := fmtDict_some opt kv h.1.1
    cases hpr : opt.pretty
    · obtain ⟨b, hb⟩ := hp
      exact ⟨_, (fmtObj_dict_inv opt ns kv _ false).mpr ⟨b, by simp [hpr, hb], rfl, rfl⟩⟩
    · obtain ⟨b, hb⟩ := hq
      exact ⟨_, (fmtObj_dict_inv opt ns kv _ false).mpr ⟨b, by simp [hpr, hb], rfl, rfl⟩⟩
  | .null, _, _ => ⟨_, by rw [fmtObj]⟩
  | .nilArr, _, _ => ⟨_, by rw [fmtObj]⟩
  | .bool true, _, _ => ⟨_, by rw [fmtObj]⟩
  | .bool false, _, _ => ⟨_, by rw [fmtObj]⟩
  | .int _, _, _ => ⟨_, by rw [fmtObj]⟩
  | .real _, _, _ => ⟨_, by rw [fmtObj]⟩
  | .name _, _, _ => ⟨_, by rw [fmtObj]⟩
  | .str _, _, _ => ⟨_, by rw [fmtObj]⟩
  | .op _, h, _ => by simp [good] at h
  | .ref _ _, _, _ => ⟨_, by rw [fmtObj]⟩
theorem fmtSeq_some (opt : FmtOpt) : (xs : List Obj) → goodList xs = true →
    (∀ ns, ∃ b, fmtSeq opt ns xs = some b) ∧ (∀ first, ∃ b, fmtSeqPretty opt first xs = some b)
  | [], _ => ⟨fun _ => ⟨[], rfl⟩, fun _ => ⟨[], rfl⟩⟩
  | x :: xs, h => by
    simp only [goodList, Bool.and_eq_true] at h
    obtain ⟨hp, hq⟩ := fmtSeq_some opt xs h.2
    constructor
    · intro ns
      obtain ⟨⟨a, ns1⟩, ha⟩ := fmtObj_some opt x h.1 ns
      obtain ⟨b, hb⟩ := hp ns1
      exact ⟨_, (fmtSeq_cons_inv opt ns x xs _).mpr ⟨a, ns1, b, ha, hb, rfl⟩⟩
    · intro first
      obtain ⟨⟨a, ns1⟩, ha⟩ := fmtObj_some opt x h.1 false
      obtain ⟨b, hb⟩ := hq false
      exact ⟨_, (fmtSeqPretty_cons_inv opt first x xs _).mpr ⟨a, ns1, b, ha, hb, rfl⟩⟩
theorem fmtDict_some (opt : FmtOpt) : (kv : List (Bytes × Obj)) → goodKV kv = true →
    (∃ b, fmtDictPlain opt kv = some b) ∧ (∃ b, fmtDictPretty opt kv = some b)
  | [], _ => ⟨⟨[], rfl⟩, ⟨[], rfl⟩⟩
  | (k, v) :: es, h => by
    simp only [goodKV, Bool.and_eq_true] at h
    obtain ⟨⟨b1, hb1⟩, ⟨b2, hb2⟩⟩ := fmtDict_some opt es h.2
    obtain ⟨⟨a1, n1⟩, ha1⟩ := fmtObj_some opt v h.1.2 true
    obtain ⟨⟨a2, n2⟩, ha2⟩ := fmtObj_some opt v h.1.2 false
    by_cases hv : v = .null
    · exact ⟨⟨_, (fmtDictPlain_cons_inv opt k v es _).mpr ⟨b1, hb1, .inl ⟨hv, rfl⟩⟩⟩,
        ⟨_, (fmtDictPretty_cons_inv opt k v es _).mpr ⟨b2, hb2, .inl ⟨hv, rfl⟩⟩⟩⟩
    · exact ⟨⟨_, (fmtDictPlain_cons_inv opt k v es _).mpr ⟨b1, hb1, .inr ⟨hv, a1, n1, ha1, rfl⟩⟩⟩,
        ⟨_, (fmtDictPretty_cons_inv opt k v es _).mpr ⟨b2, hb2, .inr ⟨hv, a2, n2, ha2, rfl⟩⟩⟩⟩
end

/-! ### comparison form of what is read back -/

/-- one entry of `nrmKV ∘ rdKV` -/
def hEntry (e : Bytes × Obj) : Option (Bytes × Obj) :=
  match e.2 with
  | .null => none
  | v => match nrm (rd v) with
    | .null => none
    | v' => some (e.1, v')

theorem hEntry_nonnull (k : Bytes) (v : Obj) (hv : v ≠ .null) :
    hEntry (k, v) = match nrm (rd v) with | .null => none | v' => some (k, v') := by
  cases v <;> simp_all [hEntry]

theorem nrmKV_cons (k : Bytes) (v : Obj) (es : List (Bytes × Obj)) :
    nrmKV ((k, v) :: es) = match nrm v with | .null => nrmKV es | v' => (k, v') :: nrmKV es := by
  rw [nrmKV]

theorem nrmKV_rdKV (l : List (Bytes × Obj)) : nrmKV (rdKV l) = l.filterMap hEntry := by
  induction l with
  | nil => rfl
  | cons e es ih =>
    obtain ⟨k, v⟩ := e
    by_cases hv : v = .null
    · subst hv
      have : hEntry (k, .null) = none := rfl
      rw [List.filterMap_cons, this]
      simpa [rdKV] using ih
    · rw [rdKV_cons_nonnull k v es hv, nrmKV_cons, List.filterMap_cons, hEntry_nonnull k v hv, ih]
      cases nrm (rd v) <;> rfl

theorem keysOf_filterMap_hEntry (l : List (Bytes × Obj)) :
    (keysOf (l.filterMap hEntry)).Sublist (keysOf l) := by
  induction l with
  | nil => exact List.Sublist.refl _
  | cons e es ih =>
    obtain ⟨k, v⟩ := e
    rw [List.filterMap_cons]
    cases h : hEntry (k, v) with
    | none => exact List.Sublist.cons _ ih
    | some e' =>
      have : e'.1 = k := by
        unfold hEntry at h
        split at h
        · simp at h
        · split at h
          · simp at h
          · simp at h; rw [← h]
      simp only [keysOf, List.map_cons, this] at ih ⊢
      exact List.Sublist.cons_cons _ ih

/-- the comparison form of a dictionary read back does not depend on the order it was written in -/
theorem nrm_sorted_perm (l : List (Bytes × Obj)) (hn : (keysOf l).Nodup) :
    sortKV (nrmKV (rdKV (sortedEntries l))) = sortKV (nrmKV (rdKV l)) := by
  rw [nrmKV_rdKV, nrmKV_rdKV]
  have hp := sortedEntries_perm l
  refine sortKV_perm_eq (hp.filterMap hEntry) ?_
  exact List.Nodup.sublist (keysOf_filterMap_hEntry _) ((keysOf_perm hp.symm).nodup hn)

mutual
/-- what is read back from the canonical form compares equal to the original -/
theorem nrm_rd_canon : (o : Obj) → good o = true → nrm (rd o.canon) = nrm o
  | .arr xs, h => by
    simp only [good, Bool.and_eq_true] at h
    simp only [Obj.canon, rd, nrm]
    rw [nrmList_rd_canon xs h.1]
  | .dict kv, h => by
    simp only [good, Bool.and_eq_true, decide_eq_true_eq] at h
    simp only [Obj.canon, rd, nrm]
    rw [nrm_sorted_perm (canonKV kv) (by rw [canonKV_keys]; exact h.1.2), nrmKV_rd_canon kv h.1.1]
  | .null, _ => rfl
  | .nilArr, _ => rfl
  | .bool _, _ => rfl
  | .int _, _ => rfl
  | .real t, _ => by simp only [Obj.canon, rd, nrm, realToken_idem]
  | .name _, _ => rfl
  | .str _, _ => rfl
  | .op _, _ => rfl
  | .ref _ _, _ => rfl
theorem nrmList_rd_canon : (xs : List Obj) → goodList xs = true → nrmList (rdList (canonList xs)) = nrmList xs
  | [], _ => rfl
  | x :: xs, h => by
    simp only [goodList, Bool.and_eq_true] at h
    simp only [canonList, rdList, nrmList]
    rw [nrm_rd_canon x h.1, nrmList_rd_canon xs h.2]
theorem nrmKV_rd_canon : (kv : List (Bytes × Obj)) → goodKV kv = true → nrmKV (rdKV (canonKV kv)) = nrmKV kv
  | [], _ => rfl
  | (k, v) :: es, h => by
    simp only [goodKV, Bool.and_eq_true] at h
    have ih := nrmKV_rd_canon es h.2
    have hv := nrm_rd_canon v h.1.2
    simp only [canonKV]
    by_cases hc : v.canon = .null
    · have : v = .null := by
        cases v <;> simp_all [Obj.canon]
      subst this
      simp [Obj.canon, rdKV, nrmKV_cons, nrm, ih]
    · rw [rdKV_cons_nonnull k v.canon _ hc, nrmKV_cons, nrmKV_cons, hv, ih]
end

end PdfVerif.C01L

import PdfVerif.Model.SECSecurity
/-!
Helper lemmas for the security work package (C09, C10): XOR on byte lists, RC4 as XOR with a
key stream, CBC chaining.  Hypotheses about the primitives are collected in `PrimsOK`; they are
*hypotheses* of the theorems that use them, never axioms.
-/
namespace PdfVerif.SEC
open PdfVerif

/-- what the theorems assume about the primitives (all of it is sampled against Go's `crypto/*`
by the known-answer lines of the correspondence run) -/
structure PrimsOK (P : Prims) : Prop where
  /-- RC4 delivers as many key-stream bytes as asked for -/
  ks_len : ∀ k n, (P.rc4ks k n).length = n
  /-- AES block decryption inverts encryption on 16-byte blocks -/
  aes_dec_enc : ∀ k b, b.length = 16 → P.aesDec k (P.aesEnc k b) = b
  /-- a cipher block has 16 bytes -/
  aes_enc_len : ∀ k b, (P.aesEnc k b).length = 16
  /-- digest sizes -/
  md5_len : ∀ x, (P.md5 x).length = 16
  sha256_len : ∀ x, (P.sha256 x).length = 32
  sha384_len : ∀ x, (P.sha384 x).length = 48
  sha512_len : ∀ x, (P.sha512 x).length = 64

/-! ### XOR -/

@[simp] theorem xorBytes_length (a b : Bytes) : (xorBytes a b).length = min a.length b.length := by
  simp [xorBytes]

theorem xorBytes_cancel : ∀ (x k : Bytes), x.length ≤ k.length → xorBytes (xorBytes x k) k = x
  | [], _, _ => by simp [xorBytes]
  | _ :: _, [], h => by simp at h
  | a :: x, b :: k, h => by
    have ih := xorBytes_cancel x k (by simpa using h)
    simp only [xorBytes, List.zipWith_cons_cons] at ih ⊢
    rw [ih, Nat.xor_assoc, Nat.xor_self, Nat.xor_zero]

theorem xorBytes_append (a b c d : Bytes) (h : a.length = c.length) :
    xorBytes (a ++ b) (c ++ d) = xorBytes a c ++ xorBytes b d := by
  simp [xorBytes, List.zipWith_append h]

/-! ### RC4 -/

theorem rc4_length {P : Prims} (ok : PrimsOK P) (k x : Bytes) : (rc4 P k x).length = x.length := by
  simp [rc4, ok.ks_len]

/-- **rc4_involutive** (from the key-stream hypothesis, by XOR algebra) -/
theorem rc4_involutive {P : Prims} (ok : PrimsOK P) (k x : Bytes) : rc4 P k (rc4 P k x) = x := by
  unfold rc4
  rw [xorBytes_length, ok.ks_len, Nat.min_self]
  exact xorBytes_cancel x _ (by simp [ok.ks_len])

@[simp] theorem xorKey_zero (k : Bytes) : xorKey k 0 = k := by
  simp [xorKey]

/-- a chain of RC4 passes is undone by the passes in reverse order -/
theorem rc4Chain_reverse {P : Prims} (ok : PrimsOK P) (k : Bytes) :
    ∀ (l : List Nat) (x : Bytes), rc4Chain P k l.reverse (rc4Chain P k l x) = x := by
  intro l
  induction l with
  | nil => intro x; simp [rc4Chain]
  | cons i is ih =>
    intro x
    have happ : ∀ (a b : List Nat) (y : Bytes), rc4Chain P k (a ++ b) y = rc4Chain P k b (rc4Chain P k a y) := by
      intro a
      induction a with
      | nil => intro b y; simp [rc4Chain]
      | cons j js ihj => intro b y; simp [rc4Chain, ihj]
    simp only [List.reverse_cons, happ, rc4Chain]
    rw [ih, rc4_involutive ok]

theorem rc4Chain_length {P : Prims} (ok : PrimsOK P) (k : Bytes) :
    ∀ (l : List Nat) (x : Bytes), (rc4Chain P k l x).length = x.length := by
  intro l
  induction l with
  | nil => intro x; simp [rc4Chain]
  | cons i is ih => intro x; simp [rc4Chain, ih, rc4_length ok]

/-! ### CBC -/

theorem cbcEncBlocks_length {P : Prims} (ok : PrimsOK P) (k : Bytes) :
    ∀ (n : Nat) (iv d : Bytes), (cbcEncBlocks P k n iv d).1.length = 16 * n := by
  intro n
  induction n with
  | zero => intro iv d; simp [cbcEncBlocks]
  | succ n ih => intro iv d; simp [cbcEncBlocks, ih, ok.aes_enc_len]; omega

theorem cbcEncBlocks_iv_length {P : Prims} (ok : PrimsOK P) (k : Bytes) :
    ∀ (n : Nat) (iv d : Bytes), iv.length = 16 → (cbcEncBlocks P k n iv d).2.length = 16 := by
  intro n
  induction n with
  | zero => intro iv d h; simpa [cbcEncBlocks] using h
  | succ n ih => intro iv d _; simp only [cbcEncBlocks]; exact ih _ _ (ok.aes_enc_len _ _)

/-- **cbc_dec_enc**: CBC decryption inverts CBC encryption on whole blocks -/
theorem cbc_dec_enc {P : Prims} (ok : PrimsOK P) (k : Bytes) :
    ∀ (n : Nat) (iv d : Bytes), iv.length = 16 → d.length = 16 * n →
      (cbcDecBlocks P k n iv (cbcEncBlocks P k n iv d).1).1 = d := by
  intro n
  induction n with
  | zero => intro iv d _ hd; simp at hd; simp [cbcDecBlocks, hd]
  | succ n ih =>
    intro iv d hiv hd
    have hc : (P.aesEnc k (xorBytes (d.take 16) iv)).length = 16 := ok.aes_enc_len _ _
    have hx : (xorBytes (d.take 16) iv).length = 16 := by simp [hiv]; omega
    simp only [cbcEncBlocks, cbcDecBlocks]
    rw [List.take_left' hc, List.drop_left' hc, ok.aes_dec_enc _ _ hx,
      xorBytes_cancel _ _ (by simp [hiv]; omega), ih _ _ hc (by simp; omega)]
    exact List.take_append_drop 16 d

/-- two `CryptBlocks` calls are one call on the concatenation -/
theorem cbcEncBlocks_append {P : Prims} (k : Bytes) :
    ∀ (m n : Nat) (iv a b : Bytes), a.length = 16 * m →
      cbcEncBlocks P k (m + n) iv (a ++ b) =
        ((cbcEncBlocks P k m iv a).1 ++ (cbcEncBlocks P k n (cbcEncBlocks P k m iv a).2 b).1,
         (cbcEncBlocks P k n (cbcEncBlocks P k m iv a).2 b).2) := by
  intro m
  induction m with
  | zero => intro n iv a b ha; simp at ha; simp [ha, cbcEncBlocks]
  | succ m ih =>
    intro n iv a b ha
    have h16 : 16 ≤ a.length := by omega
    have e : m + 1 + n = (m + n) + 1 := by omega
    rw [e]
    simp only [cbcEncBlocks]
    rw [List.take_append_of_le_length h16, List.drop_append_of_le_length h16,
      ih n _ (a.drop 16) b (by simp; omega)]
    simp

end PdfVerif.SEC

namespace PdfVerif.SEC

/-! ### a toy instance: the hypotheses `PrimsOK` are satisfiable (used by the non-vacuity examples) -/

/-- a toy hash (not degenerate under iteration, so that the examples tell passwords apart) -/
def toyHash (n : Nat) (x : Bytes) : Bytes :=
  let h := x.foldl (fun a b => (a * 31 + b + 7) % 65521) 1
  (List.range n).map fun i => (h / 7 + h * (i + 1) + i * i) % 256

def toyPrims : Prims where
  md5 := toyHash 16
  sha256 := toyHash 32
  sha384 := toyHash 48
  sha512 := toyHash 64
  rc4ks := fun k n => toyHash n k
  aesEnc := fun _ b => ((b ++ List.replicate 16 0).take 16).reverse
  aesDec := fun _ c => ((c ++ List.replicate 16 0).take 16).reverse

theorem toyOK : PrimsOK toyPrims where
  ks_len := by intro k n; simp [toyPrims, toyHash]
  aes_dec_enc := by
    intro k b h
    simp only [toyPrims]
    have e1 : (b ++ List.replicate 16 0).take 16 = b := by
      rw [List.take_append_of_le_length (by omega), List.take_of_length_le (by omega)]
    have e2 : (b.reverse ++ List.replicate 16 0).take 16 = b.reverse := by
      rw [List.take_append_of_le_length (by simp; omega), List.take_of_length_le (by simp; omega)]
    rw [e1, e2, List.reverse_reverse]
  aes_enc_len := by intro k b; simp [toyPrims]
  md5_len := by intro x; simp [toyPrims, toyHash]
  sha256_len := by intro x; simp [toyPrims, toyHash]
  sha384_len := by intro x; simp [toyPrims, toyHash]
  sha512_len := by intro x; simp [toyPrims, toyHash]

end PdfVerif.SEC

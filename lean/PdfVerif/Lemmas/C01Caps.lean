import PdfVerif.Lemmas.C01Total
import PdfVerif.Lemmas.C01Defs
/-!
C05/C01 helper lemmas, for ALL inputs: whatever the scanner model returns respects the size caps
and the nesting limit (`caps_all`).
-/
namespace PdfVerif.C01L
open PdfVerif

mutual
/-- the size caps of `scanner.go` / `xref.go`, recursively over a returned value.  Nil arrays and
    operators are never returned. -/
def capsOK : Obj → Bool
  | .null => true
  | .bool _ => true
  | .nilArr => false
  | .op _ => false
  | .int i => decide (-9223372036854775808 ≤ i ∧ i ≤ 9223372036854775807)
  | .real t => decide (t.length ≤ Gen.scanner_maxNameBytes)
  | .name n => decide (n.length ≤ Gen.scanner_maxNameBytes)
  | .str s => decide (s.length ≤ Gen.scanner_maxStringBytes)
  | .ref n g => decide (n < Gen.xref_maxXRefSize) && decide (g ≤ Gen.xref_maxGeneration)
  | .arr xs => decide (xs.length ≤ Gen.scanner_maxArrayLen) && capsList xs
  | .dict kv => decide (kv.length ≤ Gen.scanner_maxDictLen) && capsKV kv
def capsList : List Obj → Bool
  | [] => true
  | x :: xs => capsOK x && capsList xs
def capsKV : List (Bytes × Obj) → Bool
  | [] => true
  | (k, v) :: rest => decide (k.length ≤ Gen.scanner_maxNameBytes) && capsOK v && capsKV rest
end

theorem capsList_iff (xs : List Obj) : capsList xs = true ↔ ∀ x ∈ xs, capsOK x = true := by
  induction xs with
  | nil => simp [capsList]
  | cons x xs ih => simp only [capsList, Bool.and_eq_true, ih, List.mem_cons, forall_eq_or_imp]

theorem capsKV_iff (kv : List (Bytes × Obj)) :
    capsKV kv = true ↔ ∀ e ∈ kv, e.1.length ≤ Gen.scanner_maxNameBytes ∧ capsOK e.2 = true := by
  induction kv with
  | nil => simp [capsKV]
  | cons e es ih =>
    obtain ⟨k, v⟩ := e
    simp only [capsKV, Bool.and_eq_true, decide_eq_true_eq, ih, List.mem_cons, forall_eq_or_imp]

theorem depthList_le' (xs : List Obj) (n : Nat) : depthList xs ≤ n ↔ ∀ x ∈ xs, depthOf x ≤ n := by
  induction xs with
  | nil => simp [depthList]
  | cons x xs ih => simp only [depthList, List.mem_cons, forall_eq_or_imp, ← ih]; omega

theorem depthKV_le' (kv : List (Bytes × Obj)) (n : Nat) : depthKV kv ≤ n ↔ ∀ e ∈ kv, depthOf e.2 ≤ n := by
  induction kv with
  | nil => simp [depthKV]
  | cons e es ih =>
    obtain ⟨k, v⟩ := e
    simp only [depthKV, List.mem_cons, forall_eq_or_imp, ← ih]; omega

/-- a value read at nesting depth `d`: within the caps, and its own nesting fits the limit -/
def El (d : Nat) (x : Obj) : Prop := capsOK x = true ∧ d + depthOf x ≤ Gen.scanner_maxScannerNestDepth

/-- a dictionary entry read at nesting depth `d` -/
def KEl (d : Nat) (e : Bytes × Obj) : Prop := e.1.length ≤ Gen.scanner_maxNameBytes ∧ El d e.2

theorem el_arr {d : Nat} {xs : List Obj} (hlen : xs.length ≤ Gen.scanner_maxArrayLen)
    (hd : d + 1 ≤ Gen.scanner_maxScannerNestDepth) (h : ∀ x ∈ xs, El (d + 1) x) : El d (.arr xs) := by
  refine ⟨?_, ?_⟩
  · simp only [capsOK, Bool.and_eq_true, decide_eq_true_eq]
    exact ⟨hlen, (capsList_iff xs).mpr fun x hx => (h x hx).1⟩
  · simp only [depthOf]
    have : depthList xs ≤ Gen.scanner_maxScannerNestDepth - (d + 1) := by
      rw [depthList_le']; intro x hx; have := (h x hx).2; omega
    omega

theorem el_dict {d : Nat} {kv : List (Bytes × Obj)} (hlen : kv.length ≤ Gen.scanner_maxDictLen)
    (hd : d + 1 ≤ Gen.scanner_maxScannerNestDepth) (h : ∀ e ∈ kv, KEl (d + 1) e) : El d (.dict kv) := by
  refine ⟨?_, ?_⟩
  · simp only [capsOK, Bool.and_eq_true, decide_eq_true_eq]
    exact ⟨hlen, (capsKV_iff kv).mpr fun e he => ⟨(h e he).1, (h e he).2.1⟩⟩
  · simp only [depthOf]
    have : depthKV kv ≤ Gen.scanner_maxScannerNestDepth - (d + 1) := by
      rw [depthKV_le']; intro e he; have := (h e he).2.2; omega
    omega

theorem el_refnull (d : Nat) (hd : d ≤ Gen.scanner_maxScannerNestDepth) (a b : Int) :
    El d (if validRef a b then Obj.ref a.toNat b.toNat else Obj.null) := by
  split
  · rename_i hv
    simp [validRef] at hv
    refine ⟨?_, by simp [depthOf]; exact hd⟩
    simp only [capsOK, Bool.and_eq_true, decide_eq_true_eq]
    omega
  · exact ⟨rfl, by simp [depthOf]; exact hd⟩

theorem mem_dictInsert (k : Bytes) (v : Obj) (acc : List (Bytes × Obj)) (e : Bytes × Obj)
    (h : e ∈ dictInsert k v acc) : e = (k, v) ∨ e ∈ acc := by
  induction acc with
  | nil => simp [dictInsert] at h; exact .inl h
  | cons x xs ih =>
    obtain ⟨k', v'⟩ := x
    simp only [dictInsert] at h
    split at h
    · simp at h; rcases h with h | h
      · exact .inl h
      · exact .inr (by simp [h])
    · simp at h; rcases h with h | h
      · exact .inr (by simp [h])
      · rcases ih h with h | h
        · exact .inl h
        · exact .inr (by simp [h])

theorem length_dictInsert (k : Bytes) (v : Obj) (acc : List (Bytes × Obj)) :
    (dictInsert k v acc).length =
      if (acc.any fun e => e.1 == k) then acc.length else acc.length + 1 := by
  induction acc with
  | nil => simp [dictInsert]
  | cons x xs ih =>
    obtain ⟨k', v'⟩ := x
    simp only [dictInsert]
    by_cases hk : (k' == k) = true
    · simp [hk]
    · simp only [hk, Bool.false_eq_true, if_false, List.length_cons, ih, List.any_cons, Bool.false_or]
      split <;> rfl

def CapsAt (f : Nat) : Prop :=
  (∀ d inp o r, readObject f d inp = .ok (o, r) → d ≤ Gen.scanner_maxScannerNestDepth → El d o) ∧
  (∀ d inp xs r, readArray f d inp = .ok (xs, r) →
      xs.length ≤ Gen.scanner_maxArrayLen ∧ d + 1 ≤ Gen.scanner_maxScannerNestDepth ∧ ∀ x ∈ xs, El (d + 1) x) ∧
  (∀ d acc ints inp xs r, readArrayLoop f d acc ints inp = .ok (xs, r) →
      d ≤ Gen.scanner_maxScannerNestDepth → (∀ x ∈ acc, El d x) →
      xs.length ≤ Gen.scanner_maxArrayLen ∧ ∀ x ∈ xs, El d x) ∧
  (∀ d inp kv r, readDict f d inp = .ok (kv, r) →
      kv.length ≤ Gen.scanner_maxDictLen ∧ d + 1 ≤ Gen.scanner_maxScannerNestDepth ∧ ∀ e ∈ kv, KEl (d + 1) e) ∧
  (∀ d acc inp kv r, readDictLoop f d acc inp = .ok (kv, r) →
      d ≤ Gen.scanner_maxScannerNestDepth → acc.length ≤ Gen.scanner_maxDictLen → (∀ e ∈ acc, KEl d e) →
      kv.length ≤ Gen.scanner_maxDictLen ∧ ∀ e ∈ kv, KEl d e)

theorem caps_zero : CapsAt 0 :=
  ⟨fun d inp o r h => by simp [readObject] at h,
   fun d inp xs r h => by simp [readArray] at h,
   fun d acc ints inp xs r h => by simp [readArrayLoop] at h,
   fun d inp kv r h => by simp [readDict] at h,
   fun d acc inp kv r h => by simp [readDictLoop] at h⟩

theorem caps_succ (f : Nat) (ih : CapsAt f) : CapsAt (f + 1) := by
  obtain ⟨ihO, ihA, ihL, ihD, ihDL⟩ := ih
  refine ⟨?_, ?_, ?_, ?_, ?_⟩
  · intro d inp o r h hd
    have scalar : ∀ x : Obj, capsOK x = true → depthOf x = 0 → El d x := fun x h1 h2 => ⟨h1, by omega⟩
    rcases readObject_cases f d inp with e | ⟨k, o', _, _, ho, e⟩ | e | e | e | ⟨c, rest, rfl, e⟩ |
        ⟨c, rest, rfl, e⟩ | ⟨c, rest, rfl, e⟩
    · rw [e] at h; simp at h
    · rw [e] at h; simp at h; rw [← h.1]
      rcases ho with rfl | rfl | rfl <;> exact scalar _ rfl rfl
    · rw [e] at h
      obtain ⟨⟨n, r'⟩, h1, h2⟩ := map_ok_inv h
      simp at h2; rw [← h2.1]
      exact scalar _ (by simpa [capsOK] using (readName_spec _ _ _ h1).2) rfl
    · rw [e] at h
      rcases (readNumber_spec _ _ _ h).2 with ⟨i, rfl, h1, h2⟩ | ⟨t, rfl, h1⟩
      · exact scalar _ (by simp [capsOK, h1, h2]) rfl
      · exact scalar _ (by simpa [capsOK] using h1) rfl
    · rw [e] at h
      obtain ⟨dd, r0, h1, rfl, _⟩ := dictResult_ok_inv h
      obtain ⟨a, b, c⟩ := ihD _ _ _ _ h1
      exact el_dict a b c
    · rw [e] at h
      obtain ⟨⟨s, r'⟩, h1, h2⟩ := map_ok_inv h
      simp at h2; rw [← h2.1]
      have := (readString_spec _ _ _ h1).2
      exact scalar _ (by simpa [capsOK] using this) rfl
    · rw [e] at h
      obtain ⟨⟨s, r'⟩, h1, h2⟩ := map_ok_inv h
      simp at h2; rw [← h2.1]
      have := (readHexString_spec _ _ _ h1).2
      exact scalar _ (by simpa [capsOK] using this) rfl
    · rw [e] at h
      obtain ⟨⟨xs, r'⟩, h1, h2⟩ := map_ok_inv h
      simp at h2; rw [← h2.1]
      obtain ⟨a, b, c⟩ := ihA _ _ _ _ h1
      exact el_arr a b c
  · intro d inp xs r h
    rw [readArray_eq] at h
    split at h
    · simp at h
    · rename_i hd
      have := ihL _ _ _ _ _ _ (mapError_ok_inv h) (by omega) (by simp)
      exact ⟨this.1, by omega, this.2⟩
  · intro d acc ints inp xs r h hd hacc
    rcases readArrayLoop_cases f d acc ints inp with e | ⟨rest, hs, e⟩ | ⟨rest, hs, _, hR⟩ | ⟨c, rest, hs, e⟩
    · rw [e] at h; simp at h
    · rw [e] at h
      split at h
      · simp at h
      · rename_i hl
        simp at h
        rw [← h.1]
        exact ⟨by simp; omega, fun x hx => hacc x (by simpa using hx)⟩
    · rcases hR with ⟨b, a, acc', hsh, e⟩ | ⟨_, e⟩
      · rw [e] at h
        refine ihL _ _ _ _ _ _ h hd ?_
        intro x hx
        simp at hx
        rcases hx with rfl | hx
        · exact el_refnull d hd a b
        · exact hacc x (by rw [hsh]; simp [hx])
      · rw [e] at h; simp at h
    · rw [e] at h
      cases hro : readObject f d (c :: rest) with
      | error e' => rw [hro] at h; simp at h
      | ok p =>
        obtain ⟨o, r1⟩ := p
        rw [hro] at h
        dsimp only at h
        have ho := ihO _ _ _ _ hro hd
        split at h
        · simp at h
        · refine ihL _ _ _ _ _ _ h hd ?_
          intro x hx
          simp at hx
          rcases hx with rfl | hx
          · exact ho
          · exact hacc x hx
  · intro d inp kv r h
    rcases readDict_cases f d inp with e | ⟨rest, r0, rfl, hd, hs, e⟩
    · rw [e] at h; simp at h
    · rw [e] at h
      have := ihDL _ _ _ _ _ (mapError_ok_inv h) (by omega) (by simp) (by simp)
      exact ⟨this.1, by omega, this.2⟩
  · intro d acc inp kv r h hd hlen hacc
    rcases readDictLoop_cases f d acc inp with ⟨e, _, he⟩ | ⟨rest, rfl, he⟩ |
        ⟨key, r1, r2, hn, hs, ⟨e, _, he⟩ | ⟨e, _, he⟩ | ⟨val, r3, v, r', hro, _, hev, hcap, he⟩⟩
    · rw [he] at h; simp at h
    · rw [he] at h; simp at h; rw [← h.1]; exact ⟨hlen, hacc⟩
    · rw [he] at h; simp at h
    · rw [he] at h; simp at h
    · rw [he] at h
      have hval := ihO _ _ _ _ hro hd
      have hv : El d v := by
        rcases hev with rfl | ⟨a, b, _, rfl⟩
        · exact hval
        · exact el_refnull d hd a b
      have hkey := (readName_spec _ _ _ hn).2
      refine ihDL _ _ _ _ _ h hd ?_ ?_
      · rw [length_dictInsert]
        rcases hcap with hc | hc
        · rw [if_pos hc]; exact hlen
        · split <;> omega
      · intro e he'
        rcases mem_dictInsert _ _ _ _ he' with rfl | he'
        · exact ⟨hkey, hv⟩
        · exact hacc e he'

theorem caps_all : ∀ f, CapsAt f := by
  intro f
  induction f with
  | zero => exact caps_zero
  | succ f ih => exact caps_succ f ih

end PdfVerif.C01L

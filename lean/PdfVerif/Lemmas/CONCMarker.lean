import PdfVerif.Lemmas.CONCSummary
/-!
`marker_released` (C18): with the deferred release in `DecodeExclusive`, on every exit path —
normal return, error, panic, `runtime.Goexit` — the in-progress marker is cleared and `done` is
closed.  As an invariant over all traces: a `wip` entry always belongs to a pending which is not
closed, and a pending which is not closed always has a live owner frame.
-/
namespace PdfVerif.CONC

structure MInv (s : State) : Prop where
  live : ∀ p, p < s.npend → (s.pend p).done = false → ∃ t, p ∈ owned (s.thr t)
  undone : ∀ k p, s.wip k = some p → (s.pend p).done = false
  inj : ∀ k k' p, s.wip k = some p → s.wip k' = some p → k = k'
  closing : ∀ t k p r, Frame.exClose k p r ∈ s.thr t → ∀ k', s.wip k' ≠ some p

theorem MInv.init : MInv State.init :=
  ⟨fun p h => by simp [State.init] at h, fun k p h => by simp [State.init] at h,
   fun k k' p h => by simp [State.init] at h, fun t k p r h => by simp [State.init] at h⟩

theorem owner_of_mem_owned {stk : List Frame} {p : Pid} (h : p ∈ owned stk) :
    ∃ f ∈ stk, owns f = some p := by
  obtain ⟨f, hf, ho⟩ := List.mem_filterMap.mp h
  exact ⟨f, hf, ho⟩

theorem MInv.step {cfg : Cfg} {s s' : State} {t : Tid} {a : Act} (hx : XInv s) (hm : MInv s)
    (h : step cfg s t a = some s') : MInv s' := by
  rcases step_kind h with q | ⟨k, path, hwk, rfl⟩ | ⟨k, p, res, rest, e, rfl⟩ | ⟨k, p, res, rest, e, rfl⟩ | ⟨ev, rfl⟩
  · -- nothing happens to the bookkeeping
    refine ⟨?_, ?_, ?_, ?_⟩
    · intro p hp hd
      rw [q.npend] at hp; rw [q.pend] at hd
      obtain ⟨t0, h0⟩ := hm.live p hp hd
      refine ⟨t0, ?_⟩
      by_cases e : t0 = t
      · subst e; rw [q.owned]; exact h0
      · rw [q.others t0 e]; exact h0
    · intro k p hk; rw [q.wip] at hk; rw [q.pend]; exact hm.undone k p hk
    · intro k k' p h1 h2; rw [q.wip] at h1 h2; exact hm.inj k k' p h1 h2
    · intro t' k p r hf k'
      rw [q.wip]
      by_cases e : t' = t
      · subst e; exact hm.closing t' k p r (q.closing k p r hf) k'
      · rw [q.others t' e] at hf; exact hm.closing t' k p r hf k'
  · -- a new owner registers pending `s.npend` for `k`
    have hold : ∀ q, q < s.npend → upd s.pend s.npend ⟨false, none, k⟩ q = s.pend q :=
      fun q hq => upd_other _ _ _ _ (Nat.ne_of_lt hq)
    refine ⟨?_, ?_, ?_, ?_⟩
    · intro p hp hd
      simp only at hp hd
      by_cases ep : p = s.npend
      · subst ep
        exact ⟨t, by simp only [upd_same]; rw [owned_cons_some _ rfl]; simp⟩
      · have hp' : p < s.npend := by omega
        rw [hold p hp'] at hd
        obtain ⟨t0, h0⟩ := hm.live p hp' hd
        refine ⟨t0, ?_⟩
        simp only [upd_apply]
        split
        · next e' => subst e'; rw [owned_cons_some _ rfl]; exact List.mem_cons_of_mem _ h0
        · exact h0
    · intro k' p hk
      simp only [upd_apply] at hk
      split at hk
      · cases hk; simp
      · have hp := hx.wipb k' p hk
        simp only
        rw [hold p hp]; exact hm.undone k' p hk
    · intro k1 k2 p h1 h2
      simp only [upd_apply] at h1 h2
      split at h1 <;> split at h2
      · next e1 e2 => rw [e1, e2]
      · cases h1; exact absurd (hx.wipb k2 _ h2) (Nat.lt_irrefl _)
      · cases h2; exact absurd (hx.wipb k1 _ h1) (Nat.lt_irrefl _)
      · exact hm.inj k1 k2 p h1 h2
    · intro t' k1 p1 r hf k'
      have hf' : Frame.exClose k1 p1 r ∈ s.thr t' := by
        simp only [upd_apply] at hf
        split at hf
        · next e' =>
          subst e'
          rcases List.mem_cons.mp hf with e2 | e2
          · cases e2
          · exact e2
        · exact hf
      simp only [upd_apply]
      split
      · intro hk; cases hk
        exact Nat.lt_irrefl _ (hx.bound t' _ (mem_owned hf' rfl))
      · exact hm.closing t' k1 p1 r hf' k'
  · -- publish: outcome written, wip entry removed, owner moves to ex:pre-close
    have htop : XFrame s (.exPub k p res) := hx.frames t _ (by rw [e]; simp)
    have hdone : ∀ q, (upd s.pend p ⟨(s.pend p).done, some res, (s.pend p).key⟩ q).done = (s.pend q).done := by
      intro q; simp only [upd_apply]; split
      · next e' => rw [e']
      · rfl
    have hown : ∀ t', owned (upd s.thr t (.exClose k p res :: rest) t') = owned (s.thr t') := by
      intro t'; simp only [upd_apply]; split
      · next e' => rw [e', e, owned_cons_some _ rfl, owned_cons_some _ rfl]
      · rfl
    have hwsub : ∀ k' q, upd s.wip k none k' = some q → s.wip k' = some q ∧ k' ≠ k := by
      intro k' q hk
      simp only [upd_apply] at hk
      split at hk
      · cases hk
      · next ne => exact ⟨hk, ne⟩
    refine ⟨?_, ?_, ?_, ?_⟩
    · intro q hq hd
      simp only at hq hd
      rw [hdone] at hd
      obtain ⟨t0, h0⟩ := hm.live q hq hd
      exact ⟨t0, by simp only; rw [hown]; exact h0⟩
    · intro k' q hk
      simp only; rw [hdone]; exact hm.undone k' q (hwsub k' q hk).1
    · intro k1 k2 q h1 h2
      exact hm.inj k1 k2 q (hwsub _ _ h1).1 (hwsub _ _ h2).1
    · intro t' k1 p1 r hf k' hk
      obtain ⟨hk1, hne⟩ := hwsub k' p1 hk
      simp only [upd_apply] at hf
      split at hf
      · next e' =>
        subst e'
        rcases List.mem_cons.mp hf with e2 | e2
        · cases e2
          exact hne (hm.inj k' k p hk1 htop.1)
        · exact hm.closing t' k1 p1 r (by rw [e]; exact List.mem_cons_of_mem _ e2) k' hk1
      · exact hm.closing t' k1 p1 r hf k' hk1
  · -- close(p.done)
    have hcl : Frame.exClose k p res ∈ s.thr t := by rw [e]; simp
    have hother : ∀ q, q ≠ p → upd s.pend p ⟨true, (s.pend p).out, (s.pend p).key⟩ q = s.pend q :=
      fun q hq => upd_other _ _ _ _ hq
    refine ⟨?_, ?_, ?_, ?_⟩
    · intro q hq hd
      simp only at hq hd
      have hqp : q ≠ p := by intro e'; subst e'; simp at hd
      rw [hother q hqp] at hd
      obtain ⟨t0, h0⟩ := hm.live q hq hd
      refine ⟨t0, ?_⟩
      simp only [upd_apply]
      split
      · next e' =>
        subst e'
        rw [e, owned_cons_some _ rfl] at h0
        rw [owned_cons_none _ rfl]
        rcases List.mem_cons.mp h0 with e2 | e2
        · exact absurd e2 hqp
        · exact e2
      · exact h0
    · intro k' q hk
      simp only at hk ⊢
      have hqp : q ≠ p := by intro e'; subst e'; exact hm.closing t k q res hcl k' hk
      rw [hother q hqp]; exact hm.undone k' q hk
    · exact hm.inj
    · intro t' k1 p1 r hf k'
      simp only
      refine hm.closing t' k1 p1 r ?_ k'
      simp only [upd_apply] at hf
      split at hf
      · next e' =>
        subst e'
        rcases List.mem_cons.mp hf with e2 | e2
        · cases e2
        · rw [e]; exact List.mem_cons_of_mem _ e2
      · exact hf
  · -- a panic unwinds the stack of t: its markers are released
    have hxt : ∀ f ∈ s.thr t, XFrame s f := hx.frames t
    refine ⟨?_, ?_, ?_, ?_⟩
    · intro q hq hd
      simp only [crash_npend] at hq
      simp only [crash_pend] at hd
      have hnot : q ∉ owned (s.thr t) := by
        intro hmem
        have := (releaseOwned_owned_closed s _ q hmem hxt).1
        rw [this] at hd; cases hd
      rw [releaseOwned_pend_other s _ q hnot] at hd
      obtain ⟨t0, h0⟩ := hm.live q hq hd
      have hne : t0 ≠ t := by intro e'; subst e'; exact hnot h0
      exact ⟨t0, by simp only [crash_thr]; rw [upd_other _ _ _ _ hne]; exact h0⟩
    · intro k' q hk
      simp only [crash_wip] at hk
      simp only [crash_pend]
      have hk0 := releaseOwned_wip_sub _ _ _ _ hk
      by_cases hmem : q ∈ owned (s.thr t)
      · exfalso
        obtain ⟨f, hf, ho⟩ := owner_of_mem_owned hmem
        have hxf := hxt f hf
        cases f with
        | exStart kf pf path =>
          simp [owns] at ho; subst ho
          have := hm.inj kf k' pf hxf.1 hk0; subst this
          rw [releaseOwned_wip_cleared s _ _ kf hf rfl] at hk; cases hk
        | exRun kf pf =>
          simp [owns] at ho; subst ho
          have := hm.inj kf k' pf hxf.1 hk0; subst this
          rw [releaseOwned_wip_cleared s _ _ kf hf rfl] at hk; cases hk
        | exPub kf pf r =>
          simp [owns] at ho; subst ho
          have := hm.inj kf k' pf hxf.1 hk0; subst this
          rw [releaseOwned_wip_cleared s _ _ kf hf rfl] at hk; cases hk
        | exClose kf pf r =>
          simp [owns] at ho; subst ho
          exact hm.closing t kf pf r hf k' hk0
        | decGet _ _ _ _ => simp [owns] at ho
        | decFn _ _ _ => simp [owns] at ho
        | exFn _ _ => simp [owns] at ho
        | exDone _ _ _ => simp [owns] at ho
        | exWait _ _ => simp [owns] at ho
        | dead => simp [owns] at ho
      · rw [releaseOwned_pend_other s _ q hmem]; exact hm.undone k' q hk0
    · intro k1 k2 q h1 h2
      simp only [crash_wip] at h1 h2
      exact hm.inj k1 k2 q (releaseOwned_wip_sub _ _ _ _ h1) (releaseOwned_wip_sub _ _ _ _ h2)
    · intro t' k1 p1 r hf k' hk
      simp only [crash_wip] at hk
      simp only [crash_thr, upd_apply] at hf
      split at hf
      · simp at hf
      · exact hm.closing t' k1 p1 r hf k' (releaseOwned_wip_sub _ _ _ _ hk)

end PdfVerif.CONC

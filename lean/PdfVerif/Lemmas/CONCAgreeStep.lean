import PdfVerif.Lemmas.CONCAgree
/-! Every transition preserves the agreement invariant `Inv` (C18). -/
namespace PdfVerif.CONC

/-- `StoreOrLoadPair` is applied only to references whose object is not itself a reference
(the library calls it with the last reference of the chain it followed) -/
def PairOnDirect (cfg : Cfg) : Label → Prop
  | (_, .callPair r _ _ _ _) => ∀ r', cfg.get r ≠ .ref r'
  | _ => True

theorem DecOn.of_not_exRun {rest : List Frame} (h : ∀ k p rest', rest ≠ .exRun k p :: rest')
    (tp : Ty) (o : Obj) : DecOn rest tp o := fun k p rest' e => absurd e (h k p rest')

theorem canCall_not_exRun {stk : List Frame} (h : canCall stk = true) :
    ∀ k p rest', stk ≠ .exRun k p :: rest' := by
  intro k p rest' e; subst e; simp [canCall] at h

/-- general return: hand `res` to the frames `rest` and record `ev` -/
theorem Inv.ret {cfg : Cfg} {s : State} (hi : Inv cfg s) (t : Tid) (rest : List Frame) (ev : Event)
    (res : Res) (hrest : StackOK cfg s rest) (tp : Ty) (o : Obj) (hd : DecOn rest tp o)
    (hj : Justified cfg s.cache o tp res) (hev : EvOK cfg s.cache ev) :
    Inv cfg (deliver { s with hist := ev :: s.hist } t rest res) := by
  have hx : Ext s (deliver { s with hist := ev :: s.hist } t rest res) := Ext.of_eq rfl rfl rfl
  exact hi.build hx t (deliverStack rest res) [ev] rfl rfl hi.chain ((hrest.deliver hd hj).ext hx)
    hi.wip (by intro e he; simp at he; subst he; exact hev) hi.pend

theorem justified_err {cfg : Cfg} {c : Key → Option Val} {o : Obj} {tp : Ty} {e : Err} :
    Justified cfg c o tp (.err e) := by
  unfold Justified; split <;> simp_all

/-- the thread panics: the markers of the exclusive owners on its stack are released -/
theorem Inv.crash {cfg : Cfg} {s : State} (hi : Inv cfg s) (t : Tid) (ev : Event)
    (hev : EvOK cfg s.cache ev) : Inv cfg (CONC.crash s t ev) := by
  have hx : Ext s (CONC.crash s t ev) :=
    ⟨by simp; exact CacheLe.refl _, by simp, fun q _ => by simp [releaseOwned_key]⟩
  refine hi.build hx t [.dead] [ev] (crash_thr ..) (by simp) (by simp; exact hi.chain)
    ⟨trivial, trivial, trivial⟩ ?_ (by intro e he; simp at he; subst he; simpa using hev) ?_
  · intro k p h
    simp only [crash_wip] at h
    have := hi.wip k p (releaseOwned_wip_sub _ _ _ _ h)
    exact ⟨by simp; exact this.1, by simp [releaseOwned_key]; exact this.2⟩
  · intro p res h
    simp only [crash_pend] at h
    simp only [crash_pend, crash_cache, releaseOwned_key]
    rcases releaseOwned_out _ _ _ _ h with h1 | h1
    · exact hi.pend p res h1
    · subst h1; exact justified_err

/-- the cache grows, keeping the chain invariant -/
theorem Inv.withCache {cfg : Cfg} {s : State} (hi : Inv cfg s) (c' : Key → Option Val)
    (hle : CacheLe s.cache c') (hc : ChainInv cfg c') : Inv cfg { s with cache := c' } := by
  have hx : Ext s { s with cache := c' } := ⟨hle, Nat.le_refl _, fun _ _ => rfl⟩
  refine ⟨hc, fun t => (hi.stacks t).ext hx, hi.wip, fun e he => (hi.hist e he).mono hle, ?_⟩
  intro p res h
  exact (hi.pend p res h).mono hle

theorem justified_panic {cfg : Cfg} {c : Key → Option Val} {o : Obj} {tp : Ty} :
    Justified cfg c o tp .panic := by
  unfold Justified; split <;> simp_all

theorem justified_direct {cfg : Cfg} {c : Key → Option Val} {tp : Ty} {res : Res} :
    Justified cfg c .direct tp res := by
  unfold Justified; split <;> simp_all

theorem justified_self {cfg : Cfg} {c : Key → Option Val} {r : Ref} {tp : Ty} {v : Val}
    (h : c (r, tp) = some v) : Justified cfg c (.ref r) tp (.ok v) :=
  ⟨r, .refl r, h⟩

theorem EvOK.exc_of {cfg : Cfg} {c : Key → Option Val} {t : Tid} {o : Obj} {tp : Ty} {res : Res}
    {p : Option Pid} (h : Justified cfg c o tp res) : EvOK cfg c (.exc t o tp res p) := h

theorem EvOK.dec_of {cfg : Cfg} {c : Key → Option Val} {t : Tid} {o : Obj} {tp : Ty} {res : Res}
    (h : Justified cfg c o tp res) : EvOK cfg c (.dec t o tp res) := h

/-- the frame above an exclusive owner, read off `Above` -/
theorem decOn_of_above_decFn {tp : Ty} {refs path : List Ref} {rest : List Frame}
    (h : Above (.decFn tp refs path) rest) (o : Obj) : DecOn rest tp (firstObj refs o) := by
  intro k p rest' e
  subst e
  simp only [Above] at h
  refine ⟨h.1, ?_⟩
  cases refs with
  | nil => simp at h
  | cons a as => have := h.2; simp at this; simp [firstObj, this]

theorem decOn_of_above_decGet {tp : Ty} {refs path : List Ref} {r : Ref} {rest : List Frame}
    (h : Above (.decGet tp refs path r) rest) (o : Obj) : DecOn rest tp (firstObj refs o) := by
  intro k p rest' e
  subst e
  simp only [Above] at h
  refine ⟨h.1, ?_⟩
  cases refs with
  | nil => simp at h
  | cons a as => have := h.2; simp at this; simp [firstObj, this]

/-! ### StoreOrLoadPair -/

theorem pairCall_keys (cfg s t r A B a b) (k : Key) (x : Val)
    (h : (pairCall cfg s t r A B a b).cache k = some x) : s.cache k = some x ∨ k.1 = r := by
  unfold pairCall at h
  split at h
  · split at h
    · exact .inl h
    · simp only [upd_apply] at h
      split at h
      · next e => exact .inr (by rw [e])
      · exact .inl h
  · simp only at h
    split at h
    · simp only [upd_apply] at h
      split at h
      · next e => exact .inr (by rw [e])
      · exact .inl h
    · simp only [upd_apply] at h
      split at h
      · next e => exact .inr (by rw [e])
      · split at h
        · next e => exact .inr (by rw [e])
        · exact .inl h

theorem pairCall_chain {cfg : Cfg} {s : State} (hc : ChainInv cfg s.cache) (t r A B a b)
    (hr : ∀ r', cfg.get r ≠ .ref r') : ChainInv cfg (pairCall cfg s t r A B a b).cache := by
  intro r1 r2 tp v hv hg
  rcases pairCall_keys cfg s t r A B a b (r1, tp) v hv with h | h
  · exact pairCall_le cfg s t r A B a b _ _ (hc _ _ _ _ h hg)
  · simp only at h; subst h; exact absurd hg (hr r2)

theorem pairCall_wip (cfg s t r A B a b) : (pairCall cfg s t r A B a b).wip = s.wip := by
  unfold pairCall
  split
  · split <;> rfl
  · simp only; split <;> rfl

theorem pairCall_pend (cfg s t r A B a b) : (pairCall cfg s t r A B a b).pend = s.pend := by
  unfold pairCall
  split
  · split <;> rfl
  · simp only; split <;> rfl

theorem pairCall_npend (cfg s t r A B a b) : (pairCall cfg s t r A B a b).npend = s.npend := by
  unfold pairCall
  split
  · split <;> rfl
  · simp only; split <;> rfl

/-- `StoreOrLoadPair` never touches the stacks (it cannot panic) -/
theorem pairCall_thr (cfg s t r A B a b) : (pairCall cfg s t r A B a b).thr = s.thr := by
  unfold pairCall
  split
  · split <;> rfl
  · simp only; split <;> rfl

/-- exactly one event is recorded, and the returned pair is what the cache holds afterwards -/
theorem pairCall_thr_hist (cfg s t r A B a b) :
    ∃ res, (pairCall cfg s t r A B a b).hist = .pair t r A B a b res :: s.hist ∧
      ((pairCall cfg s t r A B a b).thr = s.thr ∨ (pairCall cfg s t r A B a b).thr = upd s.thr t [.dead]) ∧
      (∀ a' b', res = some (a', b') →
        (pairCall cfg s t r A B a b).thr = s.thr ∧
        (pairCall cfg s t r A B a b).cache (r, A) = some a' ∧
        (pairCall cfg s t r A B a b).cache (r, B) = some b') := by
  unfold pairCall
  split
  · next va hA =>
    split
    · next vb hB =>
      exact ⟨some (va, vb), rfl, .inl rfl, by intro a' b' h; cases h; exact ⟨rfl, hA, hB⟩⟩
    · next hB =>
      refine ⟨some (va, b), rfl, .inl rfl, ?_⟩
      intro a' b' h; cases h
      refine ⟨rfl, ?_, by simp⟩
      simp only [upd_apply]
      split
      · next e => rw [e] at hA; rw [hB] at hA; cases hA
      · exact hA
  · next hA =>
    simp only
    split
    · next vb hB =>
      refine ⟨some (a, vb), rfl, .inl rfl, ?_⟩
      intro a' b' h; cases h
      refine ⟨rfl, ?_, hB⟩
      by_cases e : B = A
      · subst e; simp at hB; subst hB; simp
      · simp
    · next hB =>
      refine ⟨some (a, b), rfl, .inl rfl, ?_⟩
      intro a' b' h; cases h
      refine ⟨rfl, ?_, by simp⟩
      by_cases e : A = B
      · subst e; simp at hB
      · simp only [upd_apply]
        have : (r, A) ≠ (r, B) := by intro h; cases h; exact e rfl
        simp [this]

theorem upd_self {α β : Type} [DecidableEq α] (f : α → β) (a : α) : upd f a (f a) = f := by
  funext x; simp [upd]; intro h; rw [h]

theorem Inv.pairCall {cfg : Cfg} {s : State} (hi : Inv cfg s) (t r A B a b)
    (hr : ∀ r', cfg.get r ≠ .ref r') : Inv cfg (CONC.pairCall cfg s t r A B a b) := by
  obtain ⟨res, hh, hthr, hres⟩ := pairCall_thr_hist cfg s t r A B a b
  have hx : Ext s (CONC.pairCall cfg s t r A B a b) :=
    ⟨pairCall_le _ _ _ _ _ _ _ _, by rw [pairCall_npend]; exact Nat.le_refl _, fun _ _ => by rw [pairCall_pend]⟩
  have hwip : WipOK (CONC.pairCall cfg s t r A B a b) := by
    intro k p h
    rw [pairCall_wip] at h
    rw [pairCall_npend, pairCall_pend]
    exact hi.wip k p h
  have hpend : PendOK cfg (CONC.pairCall cfg s t r A B a b) := by
    intro p res' h
    rw [pairCall_pend] at h ⊢
    exact (hi.pend p res' h).mono hx.cache
  have hev : ∀ e ∈ [Event.pair t r A B a b res], EvOK cfg (CONC.pairCall cfg s t r A B a b).cache e := by
    intro e he
    simp at he; subst he
    cases res with
    | none => trivial
    | some ab => obtain ⟨a', b'⟩ := ab; exact (hres a' b' rfl).2
  rcases hthr with h | h
  · exact hi.build hx t (s.thr t) _ (by rw [h, upd_self]) hh (pairCall_chain hi.chain t r A B a b hr)
      ((hi.stacks t).ext hx) hwip hev hpend
  · exact hi.build hx t [.dead] _ h hh (pairCall_chain hi.chain t r A B a b hr)
      ⟨trivial, trivial, trivial⟩ hwip hev hpend

/-! ### the transition -/

theorem Inv.step {cfg : Cfg} (hf : cfg.fixed = true) {s s' : State} {t : Tid} {a : Act}
    (hg : PairOnDirect cfg (t, a)) (hi : Inv cfg s)
    (hdo : ∀ p, (s.pend p).done = true → (s.pend p).out ≠ none)
    (h : step cfg s t a = some s') : Inv cfg s' := by
  have hstk := hi.stacks t
  unfold CONC.step at h
  cases a with
  | callDecode o tp path =>
    simp only at h
    split at h
    · next hcc =>
      cases h
      exact hi.decLoop t _ tp [] path o hstk (DecOn.of_not_exRun (canCall_not_exRun hcc) _ _) trivial
        (by intro l hl; simp at hl) rfl
    · cases h
  | callPair r A B a b =>
    simp only at h
    split at h
    · cases h; exact hi.pairCall t r A B a b hg
    · cases h
  | callExcl o tp path =>
    simp only at h
    split at h
    · next hcc =>
      cases h
      have hne := canCall_not_exRun hcc
      unfold exclCall
      cases o with
      | direct =>
        have hx : Ext s { s with thr := upd s.thr t (.exFn tp path :: s.thr t),
                                 hist := .run t tp [] path none :: s.hist } := Ext.of_eq rfl rfl rfl
        exact hi.build hx t (.exFn tp path :: s.thr t) [.run t tp [] path none] rfl rfl hi.chain
          ⟨trivial, Above.of_not_exRun hne _, hstk.ext hx⟩ hi.wip
          (by intro e he; simp at he; subst he; trivial) hi.pend
      | ref r =>
        simp only
        cases hc : s.cache (r, tp) with
        | some v =>
          simp only
          exact hi.ret t _ _ _ hstk tp (.ref r) (DecOn.of_not_exRun hne _ _) (justified_self hc)
              (EvOK.exc_of (justified_self hc))
        | none =>
          simp only
          cases hw : s.wip (r, tp) with
          | some p =>
            simp only
            have hx : Ext s { s with thr := upd s.thr t (.exWait (r, tp) p :: s.thr t) } :=
              Ext.of_eq rfl rfl rfl
            exact hi.build hx t (.exWait (r, tp) p :: s.thr t) [] rfl rfl hi.chain
              ⟨hi.wip _ _ hw, Above.of_not_exRun hne _, hstk.ext hx⟩ hi.wip (by simp) hi.pend
          | none =>
            simp only
            have hx : Ext s { s with pend := upd s.pend s.npend ⟨false, none, (r, tp)⟩,
                                     npend := s.npend + 1,
                                     wip := upd s.wip (r, tp) (some s.npend),
                                     thr := upd s.thr t (.exStart (r, tp) s.npend path :: s.thr t) } :=
              ⟨CacheLe.refl _, Nat.le_succ _, fun p hp => by
                simp only; rw [upd_other _ _ _ _ (Nat.ne_of_lt hp)]⟩
            refine hi.build hx t (.exStart (r, tp) s.npend path :: s.thr t) [] rfl rfl hi.chain
              ⟨⟨Nat.lt_succ_self _, by simp⟩, Above.of_not_exRun hne _, hstk.ext hx⟩ ?_ (by simp) ?_
            · intro k p hk
              simp only [upd_apply] at hk
              split at hk
              · next e => cases hk; subst e; exact ⟨Nat.lt_succ_self _, by simp⟩
              · have := hi.wip k p hk
                exact ⟨Nat.lt_succ_of_lt this.1, by
                  simp only; rw [upd_other _ _ _ _ (Nat.ne_of_lt this.1)]; exact this.2⟩
            · intro p res hp
              simp only [upd_apply] at hp ⊢
              split at hp
              · cases hp
              · next e => simp only [e, if_false]; exact hi.pend p res hp
    · cases h
  | fnRet res =>
    simp only at h
    split at h
    · next tp refs path rest e =>
      cases h
      rw [e] at hstk
      obtain ⟨⟨hch, hl⟩, hab, hrest⟩ := hstk
      unfold fnReturn
      cases res with
      | panic => exact hi.crash t _ trivial
      | err er =>
        exact hi.ret t rest _ _ hrest tp (firstObj refs .direct) (decOn_of_above_decFn hab .direct) justified_err (EvOK.dec_of justified_err)
      | ok v =>
        cases refs with
        | nil =>
          exact hi.ret t rest _ _ hrest tp .direct (decOn_of_above_decFn hab .direct) justified_direct (EvOK.dec_of justified_direct)
        | cons r0 rs =>
          simp only [hf]
          obtain ⟨hc', hall⟩ := storeOrLoad_chain hi.chain tp v hch hl
          have hle := storeOrLoad_fixed_le s.cache tp (r0 :: rs) v
          have hi' := hi.withCache _ hle hc'
          have hj : Justified cfg (storeOrLoad true s.cache tp (r0 :: rs) v).1 (.ref r0) tp
              (.ok (storeOrLoad true s.cache tp (r0 :: rs) v).2) :=
            justified_self (hall r0 (by simp))
          have hx : Ext s { s with cache := (storeOrLoad true s.cache tp (r0 :: rs) v).1 } :=
            ⟨hle, Nat.le_refl _, fun _ _ => rfl⟩
          exact hi'.ret t rest _ _ (hrest.ext hx) tp (.ref r0)
            (by have := decOn_of_above_decFn hab .direct; simpa [firstObj] using this) hj (EvOK.dec_of hj)
    · next tp path rest e =>
      rw [e] at hstk
      obtain ⟨_, hab, hrest⟩ := hstk
      have hne := hab.not_exRun (by intros; simp) (by intros; simp)
      cases res with
      | panic => cases h; exact hi.crash t _ trivial
      | err er =>
        cases h
        exact hi.ret t rest _ _ hrest tp .direct (DecOn.of_not_exRun hne _ _) justified_direct (EvOK.exc_of justified_direct)
      | ok v =>
        cases h
        exact hi.ret t rest _ _ hrest tp .direct (DecOn.of_not_exRun hne _ _) justified_direct (EvOK.exc_of justified_direct)
    · cases h
  | goFail =>
    simp only at h
    split at h
    · next tp refs path r rest e =>
      cases h
      rw [e] at hstk
      obtain ⟨_, hab, hrest⟩ := hstk
      exact hi.ret t rest _ _ hrest tp (firstObj refs .direct) (decOn_of_above_decGet hab .direct) justified_err (EvOK.dec_of justified_err)
    · cases h
  | go =>
    simp only at h
    split at h
    · next tp refs path r rest e =>
      rw [e] at hstk
      obtain ⟨⟨hch, hl⟩, hab, hrest⟩ := hstk
      split at h
      · cases h
        exact hi.ret t rest _ _ hrest tp (firstObj refs .direct) (decOn_of_above_decGet hab .direct) justified_err (EvOK.dec_of justified_err)
      · next r' hget =>
        cases h
        exact hi.decLoop t rest tp refs path (.ref r') hrest (decOn_of_above_decGet hab _) hch
          (by intro l hl'; rw [hl] at hl'; cases hl'; exact hget) rfl
      · next hget =>
        cases h
        exact hi.decLoop t rest tp refs path .direct hrest (decOn_of_above_decGet hab _) hch
          (by intro l hl'; rw [hl] at hl'; cases hl'; exact hget) rfl
    · next k p path rest e =>
      cases h
      rw [e] at hstk
      obtain ⟨hfo, hab, hrest⟩ := hstk
      have hne := hab.not_exRun (by intros; simp) (by intros; simp)
      have hx : Ext s { s with thr := upd s.thr t (.exRun k p :: rest) } := Ext.of_eq rfl rfl rfl
      have hi1 : Inv cfg { s with thr := upd s.thr t (.exRun k p :: rest) } :=
        hi.build hx t (.exRun k p :: rest) [] rfl rfl hi.chain
          ⟨hfo, Above.of_not_exRun hne _, hrest.ext hx⟩ hi.wip (by simp) hi.pend
      refine hi1.decLoop t (.exRun k p :: rest) k.2 [] path (.ref k.1) ?_ ?_ trivial
        (by intro l hl; simp at hl) rfl
      · exact ⟨hfo, Above.of_not_exRun hne _, hrest.ext hx⟩
      · intro k' p' rest' e'
        cases e'
        exact ⟨rfl, rfl⟩
    · next k p res rest e =>
      cases h
      rw [e] at hstk
      obtain ⟨⟨hp, hkey, hj⟩, hab, hrest⟩ := hstk
      have hne := hab.not_exRun (by intros; simp) (by intros; simp)
      have hkeys : ∀ p', (upd s.pend p ⟨(s.pend p).done, some res, (s.pend p).key⟩ p').key = (s.pend p').key := by
        intro p'
        simp only [upd_apply]
        split
        · next e => rw [e]
        · rfl
      have hx : Ext s { s with pend := upd s.pend p ⟨(s.pend p).done, some res, (s.pend p).key⟩,
                               wip := upd s.wip k none,
                               thr := upd s.thr t (.exClose k p res :: rest) } :=
        ⟨CacheLe.refl _, Nat.le_refl _, fun p' _ => hkeys p'⟩
      refine hi.build hx t (.exClose k p res :: rest) [] rfl rfl hi.chain
        ⟨⟨hp, by simp only; rw [hkeys]; exact hkey, hj⟩, Above.of_not_exRun hne _, hrest.ext hx⟩ ?_ (by simp) ?_
      · intro k' p' hk
        simp only [upd_apply] at hk
        split at hk
        · cases hk
        · have := hi.wip k' p' hk
          exact ⟨this.1, by simp only; rw [hkeys]; exact this.2⟩
      · intro p' res' hp'
        simp only at hp' ⊢
        rw [hkeys]
        simp only [upd_apply] at hp'
        split at hp'
        · next e =>
          simp only at hp'
          cases hp'
          subst e
          rw [hkey]
          exact hj
        · exact hi.pend p' res' hp'
    · next k p res rest e =>
      cases h
      rw [e] at hstk
      obtain ⟨⟨hp, hkey, hj⟩, hab, hrest⟩ := hstk
      have hne := hab.not_exRun (by intros; simp) (by intros; simp)
      have hkeys : ∀ p', (upd s.pend p ⟨true, (s.pend p).out, (s.pend p).key⟩ p').key = (s.pend p').key := by
        intro p'
        simp only [upd_apply]
        split
        · next e => rw [e]
        · rfl
      have houts : ∀ p', (upd s.pend p ⟨true, (s.pend p).out, (s.pend p).key⟩ p').out = (s.pend p').out := by
        intro p'
        simp only [upd_apply]
        split
        · next e => rw [e]
        · rfl
      have hx : Ext s { s with pend := upd s.pend p ⟨true, (s.pend p).out, (s.pend p).key⟩,
                               thr := upd s.thr t (.exDone k p res :: rest) } :=
        ⟨CacheLe.refl _, Nat.le_refl _, fun p' _ => hkeys p'⟩
      refine hi.build hx t (.exDone k p res :: rest) [] rfl rfl hi.chain
        ⟨⟨hp, by simp only; rw [hkeys]; exact hkey, hj⟩, Above.of_not_exRun hne _, hrest.ext hx⟩ ?_ (by simp) ?_
      · intro k' p' hk
        have := hi.wip k' p' hk
        exact ⟨this.1, by simp only; rw [hkeys]; exact this.2⟩
      · intro p' res' hp'
        simp only at hp' ⊢
        rw [hkeys]
        rw [houts] at hp'
        exact hi.pend p' res' hp'
    · next k p res rest e =>
      cases h
      rw [e] at hstk
      obtain ⟨⟨hp, hkey, hj⟩, hab, hrest⟩ := hstk
      have hne := hab.not_exRun (by intros; simp) (by intros; simp)
      exact hi.ret t rest _ _ hrest k.2 (.ref k.1) (DecOn.of_not_exRun hne _ _) hj (EvOK.exc_of hj)
    · next k p rest e =>
      rw [e] at hstk
      obtain ⟨⟨hp, hkey⟩, hab, hrest⟩ := hstk
      have hne := hab.not_exRun (by intros; simp) (by intros; simp)
      split at h
      · next hdone =>
        split at h
        · next v hout =>
          have hj : Justified cfg s.cache (.ref k.1) k.2 (.ok v) := by
            have := hi.pend p _ hout
            rw [hkey] at this
            exact this
          cases h
          exact hi.ret t rest _ _ hrest k.2 (.ref k.1) (DecOn.of_not_exRun hne _ _) hj (EvOK.exc_of hj)
        · cases h
          exact hi.ret t rest _ _ hrest k.2 (.ref k.1) (DecOn.of_not_exRun hne _ _) justified_err (EvOK.exc_of justified_err)
        · cases h
        · next hout => exact absurd hout (hdo p hdone)
      · cases h
    · cases h

theorem Inv.init (cfg : Cfg) : Inv cfg State.init := by
  refine ⟨?_, ?_, ?_, ?_, ?_⟩
  · intro r r' tp v h; simp [State.init] at h
  · intro t; simp [State.init, StackOK]
  · intro k p h; simp [State.init] at h
  · intro e he; simp [State.init] at he
  · intro p res h; simp [State.init] at h

end PdfVerif.CONC

#!/usr/bin/env python3
"""
tools/confirmseed.py <source dir> <name>

Independently confirms a seeded defect produced by a sub-agent before it is kept under
/verif/seeded/<name>/: in a scratch worktree of /repo's HEAD (outside /repo and /verif)
  1. the demonstration passes WITHOUT the patch,
  2. the patch applies and the library builds,
  3. the demonstration FAILS with the patch,
  4. the existing tests of the root package and of every touched package still pass with the patch.
Only then the directory is copied (patch.diff, demo files, meta.json + "confirmed" record).
"""
import json, os, re, subprocess, sys, shutil, glob

ENV = dict(os.environ, GOFLAGS="-mod=mod", GOPROXY="off")
ENV.pop("GOTOOLCHAIN", None); ENV.pop("GOSUMDB", None)


def run(cmd, cwd, timeout=1500):
    p = subprocess.run(cmd, cwd=cwd, env=ENV, capture_output=True, text=True, errors="replace", timeout=timeout)
    return p.returncode, p.stdout + p.stderr


def main():
    src, name = sys.argv[1], sys.argv[2]
    meta = json.load(open(os.path.join(src, "meta.json")))
    demos = sorted(glob.glob(os.path.join(src, "*_test.go")))
    if not demos:
        print("no demo test file"); sys.exit(2)
    patch = os.path.join(src, "patch.diff")
    touched = sorted(set(re.findall(r"^\+\+\+ b/(\S+)", open(patch).read(), flags=re.M)))
    pkgs = sorted({"./" + os.path.dirname(f) if os.path.dirname(f) else "." for f in touched} | {"."})
    # where does the demo go?  package clause + hints in demo_cmd
    wt = f"/tmp/cs-{os.getpid()}-{name}"
    subprocess.run(["git", "-C", "/repo", "worktree", "add", "-q", "--detach", wt, "HEAD"], check=True)
    rec = {}
    try:
        dests = []
        for d in demos:
            base = os.path.basename(d)
            dest = "."
            text = " ".join(str(meta.get(k, "")) for k in ("demo_cmd",)) + " ".join(
                open(f, errors="replace").read() for f in glob.glob(os.path.join(src, "*.txt")) + glob.glob(os.path.join(src, "*.sh")))
            m = re.search(re.escape(base) + r"\s+(\S+)", text)
            if m:
                cand = m.group(1).rstrip(";")
                cand = re.sub(r"^/tmp/m[234567]?/C\d+/repo/?", "", cand)
                if cand not in ("", ".", "&&") and os.path.isdir(os.path.join(wt, cand)):
                    dest = cand
            pk = re.search(r"^package\s+(\w+)", open(d, errors="replace").read(), flags=re.M).group(1)
            if dest == "." and pk not in ("pdf", "pdf_test"):
                # find a directory whose package name matches
                for root, _, files in os.walk(wt):
                    if any(f.endswith(".go") and re.search(r"^package\s+" + pk.replace("_test", "") + r"\b", open(os.path.join(root, f), errors="replace").read(), flags=re.M)
                           for f in files if f.endswith(".go") and not f.endswith("_test.go")):
                        dest = os.path.relpath(root, wt); break
            shutil.copy(d, os.path.join(wt, dest, base))
            dests.append(dest)
        demo_pkgs = sorted({"./" + d if d != "." else "." for d in dests})
        rc, out = run(["go", "test", "-vet=off", "-count=1", "-run", "SeedDemo"] + demo_pkgs, wt)
        rec["demo_without_patch"] = "pass" if rc == 0 and "no tests to run" not in out else f"rc={rc}: {out[-600:]}"
        rc, out = run(["git", "apply", patch], wt)
        if rc != 0:
            print("patch does not apply:", out); sys.exit(1)
        rc, out = run(["go", "build"] + pkgs, wt)
        rec["build_with_patch"] = "ok" if rc == 0 else out[-600:]
        rc, out = run(["go", "test", "-vet=off", "-count=1", "-run", "SeedDemo"] + demo_pkgs, wt)
        rec["demo_with_patch"] = "fail" if rc != 0 else "pass (NOT a demonstration)"
        rec["demo_output_with_patch"] = out[-800:]
        for d, dest in zip(demos, dests):
            os.remove(os.path.join(wt, dest, os.path.basename(d)))
        rc, out = run(["go", "test", "-vet=off", "-count=1"] + pkgs, wt, timeout=2400)
        rec["existing_tests_with_patch"] = "pass" if rc == 0 else f"FAIL: {out[-800:]}"
        rec["existing_tests_cmd"] = "go test -vet=off -count=1 " + " ".join(pkgs)
        rec["demo_dest"] = dests
    finally:
        subprocess.run(["git", "-C", "/repo", "worktree", "remove", "--force", wt], capture_output=True)
        subprocess.run(["rm", "-rf", wt])
    ok = (rec.get("demo_without_patch") == "pass" and rec.get("build_with_patch") == "ok"
          and rec.get("demo_with_patch") == "fail" and rec.get("existing_tests_with_patch") == "pass")
    print(json.dumps(rec, indent=1)[:1500])
    if not ok:
        print("NOT CONFIRMED:", name); sys.exit(1)
    dst = os.path.join("/verif/seeded", name)
    os.makedirs(dst, exist_ok=True)
    shutil.copy(patch, os.path.join(dst, "patch.diff"))
    for d in demos:
        shutil.copy(d, os.path.join(dst, os.path.basename(d)))
    meta["confirmed"] = rec
    meta["demo_how_to_run"] = f"copy the demo test into {rec['demo_dest']} of a worktree with patch.diff applied and run: go test -vet=off -count=1 -run SeedDemo <that package>"
    json.dump(meta, open(os.path.join(dst, "meta.json"), "w"), indent=1)
    print("CONFIRMED:", name)


if __name__ == "__main__":
    main()

#!/bin/bash
# tools/merge3.sh <pkg> <path>  — 3-way merge of a shared file changed by a work package
pkg=$1; f=$2
git -C /verif show 9d51afed25737aed747836d456fdceba92b1ff61:$f > /tmp/merge-base.$$ 2>/dev/null || : > /tmp/merge-base.$$
cp /verif/$f /tmp/merge-ours.$$
git merge-file -p /tmp/merge-ours.$$ /tmp/merge-base.$$ /tmp/w/$pkg/verif/$f > /tmp/merge-out.$$; rc=$?
if [ $rc -eq 0 ]; then cp /tmp/merge-out.$$ /verif/$f; echo "merged $f"; else echo "CONFLICT in $f (rc=$rc): see /tmp/merge-out.$$"; fi
rm -f /tmp/merge-base.$$ /tmp/merge-ours.$$

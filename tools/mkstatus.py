#!/usr/bin/env python3
"""Rewrites the generated regions of DESIGN.md (between <!-- BEGIN:x --> and <!-- END:x -->):
   status  — per-property table from checks.d, evidence/ and KNOWN_FINDINGS.txt
   seeded  — which checks catch which seeded change (seeded/RESULTS.json + meta.json)"""
import json, os, re, glob
ROOT = os.path.dirname(os.path.dirname(os.path.abspath(__file__)))
props = [json.loads(l) for l in open(os.path.join(ROOT, "properties.jsonl"))]
known = {}
fixed = {}
for line in open(os.path.join(ROOT, "KNOWN_FINDINGS.txt")):
    m = re.match(r"known:\s+property=(\S+)\s+key=(\S+)", line)
    if m:
        known.setdefault(m.group(1), []).append(m.group(2))
    m = re.match(r"fixed:\s+property=(\S+)\s+(\S+)\s+(\S+):", line)
    if m:
        fixed.setdefault(m.group(1), []).append(f"{m.group(3)} ({m.group(2)})")

rows = ["| id | Props modules | theorems (last run) | cases / lines compared (last quick run) | known findings (keys) | fixed defects |",
        "|---|---|---|---|---|---|"]
for p in props:
    pid = p["id"]
    cp = os.path.join(ROOT, "checks.d", pid + ".json")
    if not os.path.exists(cp):
        rows.append(f"| {pid} | – | – | – | – | {', '.join(fixed.get(pid, []))} |")
        continue
    c = json.load(open(cp))
    ev = {}
    ep = os.path.join(ROOT, "evidence", pid + ".json")
    if os.path.exists(ep):
        ev = json.load(open(ep)).get("coverage", {})
    rows.append(f"| {pid} | {', '.join(c.get('props_modules', [pid]))} | {ev.get('discharged', '?')}/{ev.get('obligations', '?')} | "
                f"{ev.get('evaluations', '?')} / {ev.get('traces_validated_against_impl', '?')} | {', '.join(known.get(pid, [])) or '–'} | {', '.join(fixed.get(pid, [])) or '–'} |")
status = "\n".join(rows)
notes = ["", "What is trusted / partial per property (`level_note` of checks.d, also in MANIFEST.json):", ""]
for p in props:
    pid = p["id"]
    cp = os.path.join(ROOT, "checks.d", pid + ".json")
    if os.path.exists(cp):
        c = json.load(open(cp))
        notes.append(f"* **{pid}** — " + c.get("level_note", "").replace("\n", " "))
status += "\n" + "\n".join(notes)

srows = ["| seeded change | property | what it breaks (from meta.json) | needs to manifest | quick check result |", "|---|---|---|---|---|"]
res = {}
rp = os.path.join(ROOT, "seeded", "RESULTS.json")
if os.path.exists(rp):
    res = json.load(open(rp))
for d in sorted(glob.glob(os.path.join(ROOT, "seeded", "*", "meta.json"))):
    name = os.path.basename(os.path.dirname(d))
    m = json.load(open(d))
    r = res.get(name, {})
    how = "; ".join(f"{q} {v.get('tier','')}: {v['how']}" if False else f"{q}: {v['how']}" for q, v in r.get("checks", {}).items()) or r.get("result", "not run")
    if r.get("tier") == "thorough":
        how += " (thorough tier)"
    title = str(m.get("title", ""))[:110].replace("|", "/")
    needs = str(m.get("needs_to_manifest", ""))[:160].replace("|", "/").replace("\n", " ")
    srows.append(f"| {name} | {m.get('property')} | {title} | {needs} | {how} |")
seeded = "\n".join(srows)

# defects: one line per fixed / known entry of KNOWN_FINDINGS.txt
drows = ["| property | state | commit / key | what failed (first 220 characters of the entry) |", "|---|---|---|---|"]
for line in open(os.path.join(ROOT, "KNOWN_FINDINGS.txt")):
    m = re.match(r"fixed:\s+property=(\S+)\s+(\S+)\s+(.*)", line)
    if m:
        drows.append(f"| {m.group(1)} | fixed | `{m.group(2)}` | {m.group(3)[:220].replace('|', '/')} |")
    m = re.match(r"known:\s+property=(\S+)\s+key=(\S+)\s+(.*)", line)
    if m:
        drows.append(f"| {m.group(1)} | known | `{m.group(2)}` | {m.group(3)[:220].replace('|', '/')} |")
nf = sum(1 for r in drows if "| fixed |" in r); nk = sum(1 for r in drows if "| known |" in r)
defects = f"{nf} repaired (one `fix:` commit each), {nk} recorded as known findings.\n\n" + "\n".join(drows)

dp = os.path.join(ROOT, "DESIGN.md")
s = open(dp).read()
for tag, body in (("status", status), ("seeded", seeded), ("defects", defects)):
    s = re.sub(rf"(<!-- BEGIN:{tag} -->\n).*?(<!-- END:{tag} -->)", lambda m: m.group(1) + body + "\n" + m.group(2), s, flags=re.S)
open(dp, "w").write(s)
print("DESIGN.md regions updated")

package main

// Extension of the fact extractor for work package CNT (property C15):
//
//   - "structmaps": map composite literals whose values are struct literals with
//     constant fields (graphics/content/operator.go: operators) -> a Lean list
//     of (key bytes, [field values]) sorted by key;
//   - "strmaps": map[string]string-like literals (operatorTable) -> list of
//     (key bytes, value bytes) sorted by key;
//   - "caselists": the string constants of the first case clause of the first
//     switch statement of a function (isStrokeOp, needsClose, isASCIIFilter);
//   - "funclits": the integer literals of a function body in source order
//     (State.Push: the q/Q depth limit);
//   - "xints": integer constants whose expressions use constants of other
//     packages (initializedStateBits).
//
// Constants of other packages are resolved through "imports": a map from the
// package identifier used in the source to a Go file of that package
// (relative to the repository root).
//
// Standard library only; evaluation is go/constant arithmetic, no guessing:
// anything outside the subset aborts the extraction.

import (
	"encoding/json"
	"fmt"
	"go/ast"
	"go/constant"
	"go/parser"
	"go/token"
	"path/filepath"
	"sort"
	"strings"
)

type cntStructMap struct {
	Var    string   `json:"var"`
	Fields []string `json:"fields"`
}

type cntCfg struct {
	Imports    map[string]string `json:"imports"`
	StructMaps []cntStructMap    `json:"structmaps"`
	StrMaps    []string          `json:"strmaps"`
	CaseLists  []string          `json:"caselists"`
	FuncLits   []string          `json:"funclits"`
	XInts      []string          `json:"xints"`
}

type cntEnv struct {
	repo    string
	local   *env
	raw     map[string]pendingConst // unevaluated local constants
	imports map[string]*env
}

func leanBytes(s string) string {
	parts := make([]string, 0, len(s))
	for _, b := range []byte(s) {
		parts = append(parts, fmt.Sprint(b))
	}
	return "[" + strings.Join(parts, ", ") + "]"
}

func cntFacts(repo string, fc FileCfg) string {
	if len(fc.CNT) == 0 {
		return ""
	}
	var cfg cntCfg
	if err := json.Unmarshal(fc.CNT, &cfg); err != nil {
		fail("%s: cnt config: %v", fc.File, err)
	}
	ce := &cntEnv{repo: repo, local: load(filepath.Join(repo, fc.File)), raw: map[string]pendingConst{}, imports: map[string]*env{}}
	for id, f := range cfg.Imports {
		ce.imports[id] = load(filepath.Join(repo, f))
	}
	// collect the raw constant declarations of the package (all non-test files)
	dir := filepath.Dir(filepath.Join(repo, fc.File))
	fset := token.NewFileSet()
	files, _ := filepath.Glob(filepath.Join(dir, "*.go"))
	sort.Strings(files)
	var parsed []*ast.File
	for _, p := range files {
		if strings.HasSuffix(p, "_test.go") {
			continue
		}
		f, err := parser.ParseFile(fset, p, nil, parser.SkipObjectResolution)
		if err != nil {
			fail("parse %s: %v", p, err)
		}
		parsed = append(parsed, f)
		for _, d := range f.Decls {
			gd, ok := d.(*ast.GenDecl)
			if !ok || gd.Tok != token.CONST {
				continue
			}
			var last []ast.Expr
			for i, sp := range gd.Specs {
				vs := sp.(*ast.ValueSpec)
				vals := vs.Values
				if len(vals) == 0 {
					vals = last
				} else {
					last = vals
				}
				for j, nm := range vs.Names {
					if j < len(vals) {
						ce.raw[nm.Name] = pendingConst{nm.Name, vals[j], int64(i)}
					}
				}
			}
		}
	}

	var sb strings.Builder
	for _, n := range cfg.XInts {
		v, ok := ce.eval(&ast.Ident{Name: n}, 0, 0)
		if !ok {
			fail("%s: cannot evaluate %s", fc.File, n)
		}
		v = constant.ToInt(v)
		if v.Kind() != constant.Int || constant.Sign(v) < 0 {
			fail("%s: %s is not a non-negative integer constant", fc.File, n)
		}
		sb.WriteString(fmt.Sprintf("def %s%s : Nat := %s\n", fc.Prefix, n, v.String()))
	}
	for _, sm := range cfg.StructMaps {
		d, ok := ce.local.decls[sm.Var]
		if !ok {
			fail("%s: variable %s not found", fc.File, sm.Var)
		}
		cl, ok := d.(*ast.CompositeLit)
		if !ok {
			fail("%s: %s is not a composite literal", fc.File, sm.Var)
		}
		type row struct {
			key  string
			vals []string
		}
		var rows []row
		seen := map[string]bool{}
		for _, el := range cl.Elts {
			kv, ok := el.(*ast.KeyValueExpr)
			if !ok {
				fail("%s: %s: element without key", fc.File, sm.Var)
			}
			k, ok := ce.eval(kv.Key, 0, 0)
			if !ok || k.Kind() != constant.String {
				fail("%s: %s: key is not a string constant", fc.File, sm.Var)
			}
			val := kv.Value
			if u, ok := val.(*ast.UnaryExpr); ok && u.Op == token.AND {
				val = u.X
			}
			vl, ok := val.(*ast.CompositeLit)
			if !ok {
				fail("%s: %s[%q]: value is not a struct literal", fc.File, sm.Var, constant.StringVal(k))
			}
			fields := map[string]string{}
			for _, f := range vl.Elts {
				fkv, ok := f.(*ast.KeyValueExpr)
				if !ok {
					fail("%s: %s[%q]: positional struct field", fc.File, sm.Var, constant.StringVal(k))
				}
				id, ok := fkv.Key.(*ast.Ident)
				if !ok {
					fail("%s: %s: field key", fc.File, sm.Var)
				}
				want := false
				for _, w := range sm.Fields {
					want = want || w == id.Name
				}
				if !want {
					continue
				}
				v, ok := ce.eval(fkv.Value, 0, 0)
				if !ok {
					fail("%s: %s[%q].%s: cannot evaluate", fc.File, sm.Var, constant.StringVal(k), id.Name)
				}
				v = constant.ToInt(v)
				if v.Kind() != constant.Int || constant.Sign(v) < 0 {
					fail("%s: %s[%q].%s: not a non-negative integer", fc.File, sm.Var, constant.StringVal(k), id.Name)
				}
				fields[id.Name] = v.String()
			}
			r := row{key: constant.StringVal(k)}
			if seen[r.key] {
				fail("%s: %s: duplicate key %q", fc.File, sm.Var, r.key)
			}
			seen[r.key] = true
			for _, w := range sm.Fields {
				if s, ok := fields[w]; ok {
					r.vals = append(r.vals, s)
				} else {
					r.vals = append(r.vals, "0")
				}
			}
			rows = append(rows, r)
		}
		sort.Slice(rows, func(i, j int) bool { return rows[i].key < rows[j].key })
		sb.WriteString(fmt.Sprintf("-- fields: %s\n", strings.Join(sm.Fields, ", ")))
		sb.WriteString(fmt.Sprintf("def %s%s : List (List Nat × List Nat) := [\n", fc.Prefix, sm.Var))
		for i, r := range rows {
			c := ","
			if i == len(rows)-1 {
				c = ""
			}
			sb.WriteString(fmt.Sprintf("  (%s, [%s])%s -- %q\n", leanBytes(r.key), strings.Join(r.vals, ", "), c, r.key))
		}
		sb.WriteString("]\n")
	}
	for _, n := range cfg.StrMaps {
		d, ok := ce.local.decls[n]
		if !ok {
			fail("%s: variable %s not found", fc.File, n)
		}
		cl, ok := d.(*ast.CompositeLit)
		if !ok {
			fail("%s: %s is not a composite literal", fc.File, n)
		}
		type pair struct{ k, v string }
		var ps []pair
		for _, el := range cl.Elts {
			kv, ok := el.(*ast.KeyValueExpr)
			if !ok {
				fail("%s: %s: element without key", fc.File, n)
			}
			k, ok1 := ce.eval(kv.Key, 0, 0)
			v, ok2 := ce.eval(kv.Value, 0, 0)
			if !ok1 || !ok2 || k.Kind() != constant.String || v.Kind() != constant.String {
				fail("%s: %s: non-constant entry", fc.File, n)
			}
			ps = append(ps, pair{constant.StringVal(k), constant.StringVal(v)})
		}
		sort.Slice(ps, func(i, j int) bool { return ps[i].k < ps[j].k })
		var parts []string
		for _, p := range ps {
			parts = append(parts, fmt.Sprintf("(%s, %s)", leanBytes(p.k), leanBytes(p.v)))
		}
		sb.WriteString(fmt.Sprintf("def %s%s : List (List Nat × List Nat) := [%s]\n", fc.Prefix, n, strings.Join(parts, ", ")))
	}
	findFunc := func(name string) *ast.FuncDecl {
		for _, f := range parsed {
			for _, d := range f.Decls {
				fd, ok := d.(*ast.FuncDecl)
				if !ok {
					continue
				}
				nm := fd.Name.Name
				if fd.Recv != nil && len(fd.Recv.List) == 1 {
					nm = recvName(fd.Recv.List[0].Type) + "." + nm
				}
				if nm == name {
					return fd
				}
			}
		}
		fail("%s: function %s not found", fc.File, name)
		return nil
	}
	for _, n := range cfg.CaseLists {
		// "f" = first case clause of the first switch of f;
		// "f@Ident" = the case clause (anywhere in f) whose first expression is Ident
		fname, first, _ := strings.Cut(n, "@")
		fd := findFunc(fname)
		var cc *ast.CaseClause
		ast.Inspect(fd.Body, func(x ast.Node) bool {
			if c, ok := x.(*ast.CaseClause); ok && cc == nil && len(c.List) > 0 {
				if first == "" {
					cc = c
				} else if id, ok := c.List[0].(*ast.Ident); ok && id.Name == first {
					cc = c
				}
			}
			return cc == nil
		})
		if cc == nil {
			fail("%s: %s: no such case clause", fc.File, n)
		}
		var parts []string
		for _, x := range cc.List {
			v, ok := ce.eval(x, 0, 0)
			if !ok || v.Kind() != constant.String {
				fail("%s: %s: case expression is not a string constant", fc.File, n)
			}
			parts = append(parts, leanBytes(constant.StringVal(v)))
		}
		sb.WriteString(fmt.Sprintf("def %scases_%s : List (List Nat) := [%s]\n", fc.Prefix, strings.NewReplacer(".", "_", "@", "_").Replace(n), strings.Join(parts, ", ")))
	}
	for _, n := range cfg.FuncLits {
		fd := findFunc(n)
		var parts []string
		ast.Inspect(fd.Body, func(x ast.Node) bool {
			if bl, ok := x.(*ast.BasicLit); ok && bl.Kind == token.INT {
				v := constant.MakeFromLiteral(bl.Value, bl.Kind, 0)
				parts = append(parts, v.String())
			}
			return true
		})
		sb.WriteString(fmt.Sprintf("def %slits_%s : List Nat := [%s]\n", fc.Prefix, strings.ReplaceAll(n, ".", "_"), strings.Join(parts, ", ")))
	}
	return sb.String()
}

// eval evaluates constant expressions which may refer to constants of
// imported packages (pkg.Name) and to local constants defined in terms of
// those.
func (ce *cntEnv) eval(x ast.Expr, iota int64, depth int) (constant.Value, bool) {
	if depth > 40 {
		return nil, false
	}
	switch x := x.(type) {
	case *ast.BasicLit:
		v := constant.MakeFromLiteral(x.Value, x.Kind, 0)
		return v, v.Kind() != constant.Unknown
	case *ast.ParenExpr:
		return ce.eval(x.X, iota, depth+1)
	case *ast.Ident:
		if x.Name == "iota" {
			return constant.MakeInt64(iota), true
		}
		if v, ok := ce.local.consts[x.Name]; ok {
			return v, true
		}
		if p, ok := ce.raw[x.Name]; ok {
			return ce.eval(p.expr, p.iota, depth+1)
		}
		return nil, false
	case *ast.SelectorExpr:
		id, ok := x.X.(*ast.Ident)
		if !ok {
			return nil, false
		}
		imp, ok := ce.imports[id.Name]
		if !ok {
			return nil, false
		}
		return imp.eval(&ast.Ident{Name: x.Sel.Name}, 0)
	case *ast.UnaryExpr:
		v, ok := ce.eval(x.X, iota, depth+1)
		if !ok {
			return nil, false
		}
		switch x.Op {
		case token.XOR, token.SUB, token.ADD:
			v = constant.ToInt(v)
			if v.Kind() != constant.Int {
				return nil, false
			}
			return constant.UnaryOp(x.Op, v, 0), true
		}
		return nil, false
	case *ast.BinaryExpr:
		a, ok1 := ce.eval(x.X, iota, depth+1)
		b, ok2 := ce.eval(x.Y, iota, depth+1)
		if !ok1 || !ok2 {
			return nil, false
		}
		switch x.Op {
		case token.SHL, token.SHR:
			s, ok := constant.Uint64Val(constant.ToInt(b))
			if !ok {
				return nil, false
			}
			return constant.Shift(constant.ToInt(a), x.Op, uint(s)), true
		case token.OR, token.AND, token.AND_NOT, token.XOR, token.ADD, token.SUB, token.MUL:
			return constant.BinaryOp(a, x.Op, b), true
		}
		return nil, false
	case *ast.CallExpr:
		if len(x.Args) == 1 {
			if _, ok := x.Fun.(*ast.Ident); ok {
				return ce.eval(x.Args[0], iota, depth+1)
			}
		}
	}
	return nil, false
}

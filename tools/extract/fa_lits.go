package main

import (
	"fmt"
	"go/ast"
	"go/constant"
	"go/token"
	"sort"
	"strings"
)

// emitNamedLits handles the "named_lits" entry of a file config (work package FA): for every listed
// function (key "Recv.Name" or "Name") the integer and character literals of
// its body are collected in source order.  The config gives one name per
// literal ("_" = not needed); the count must match exactly, so that any edit
// of the function that adds, removes or reorders a literal stops the
// extraction (the unit is then reported as no longer checked) and any edit
// that changes a value changes the generated constant and re-runs every
// proof step that depended on it.
func emitNamedLits(e *env, fc FileCfg) string {
	var sb strings.Builder
	var fns []string
	for fn := range fc.NamedLits {
		fns = append(fns, fn)
	}
	sort.Strings(fns)
	for _, fn := range fns {
		names := fc.NamedLits[fn]
		fd, ok := e.funcs[fn]
		if !ok || fd.Body == nil {
			fail("%s: named_lits: function %s not found", fc.File, fn)
		}
		var vals []string
		ast.Inspect(fd.Body, func(n ast.Node) bool {
			if bl, ok := n.(*ast.BasicLit); ok && (bl.Kind == token.INT || bl.Kind == token.CHAR) {
				v := constant.ToInt(constant.MakeFromLiteral(bl.Value, bl.Kind, 0))
				if v.Kind() != constant.Int {
					fail("%s: named_lits: %s: cannot evaluate literal %s", fc.File, fn, bl.Value)
				}
				vals = append(vals, v.String())
			}
			return true
		})
		if len(vals) != len(names) {
			fail("%s: named_lits: function %s has %d integer/char literals %v, the config names %d", fc.File, fn, len(vals), vals, len(names))
		}
		id := strings.ReplaceAll(fn, ".", "_")
		sb.WriteString(fmt.Sprintf("def %s%s_lits : List Nat := [%s]\n", fc.Prefix, id, strings.Join(vals, ", ")))
		for i, nm := range names {
			if nm != "_" && nm != "" {
				sb.WriteString(fmt.Sprintf("def %s%s_%s : Nat := %s\n", fc.Prefix, id, nm, vals[i]))
			}
		}
	}
	return sb.String()
}

#!/usr/bin/env python3
"""
Drafts lean/PdfVerif/Props/C19robswl.lean from the generated swallow inventory
(lean/PdfVerif/Generated/InvROBSwallow.lean): every place of the walked packages where the last
result of a call is discarded ("x, _ := f()"), an error is tested and dropped
("if err != nil { continue }") or only the success case is handled ("if err == nil { … }") gets
a verdict by the rules below; keys no rule covers are refused.  When the inventory changes the
build of Props/C19robswl breaks until the new key has a rule (re-run:
    python3 tools/extract/review/rob_swallow_reasons.py > lean/PdfVerif/Props/C19robswl.lean ).

Verdicts (prefix of the reason):
  fix:       read errors are swallowed here; patch <file> propagates pdf.IsReadError(err)
  waiver:    reviewed and accepted, with the argument
  noterror:  the discarded value is not an error / no I/O can be behind the call
"""
import re, sys, os

ROOT = os.path.dirname(os.path.dirname(os.path.dirname(os.path.dirname(os.path.abspath(__file__)))))
gen = open(os.path.join(ROOT, "lean/PdfVerif/Generated/InvROBSwallow.lean")).read()
keys = [bytes(m.group(1), "utf-8").decode("unicode_escape") for m in re.finditer(r'^  "((?:[^"\\]|\\.)*)",?$', gen, re.M)]

MEM = "noterror: works on bytes already in memory (the stream was read by ReadAll before), no read can fail here"
CRY = "noterror: key-length errors of rc4.NewCipher/aes.NewCipher; the keys are built by the library with a valid length; no I/O"
R = [
 # ---------------- package pdf itself (root directory)
 (r"catalog\.go:DecodeCatalog:discard:(needsRendering|pageLayout|pageMode), _ := c\.", "fix: D-C19b-1.diff — an indirect /PageLayout, /PageMode or /NeedsRendering whose read fails gave the zero value with a nil error (NewReader succeeds in every mode)"),
 (r"catalog\.go:DecodeCatalog:errnil:if err == nil && langStr", "fix: D-C19b-1.diff — the same for an indirect /Lang"),
 (r"catalog\.go:DecodeCatalog:discard:lang, _ = language\.Parse", "noterror: parses a string already in memory; an unparsable tag is tolerated"),
 (r"catalog\.go:DecodeCatalog:errnil:if v, err := ParseVersion", "noterror: parses a string already in memory (dict[\"Version\"] is used as it stands, an indirect /Version is not resolved at all)"),
 (r"catalog\.go:Catalog\.Encode:errnil", "noterror: writer side, Version.ToString of a value in memory"),
 (r"info\.go:ExtractInfo:errnil:if name, err := c\.Name\(trappedObj\)", "fix: D-C19b-2.diff — an indirect /Trapped whose read fails gave 'unknown' with a nil error"),
 (r"info\.go:ExtractInfo:errnil:if ts, err := c\.TextString\(val\)", "fix: D-C19b-2.diff — custom keys of /Info whose read fails vanished with a nil error"),
 (r"metadata_stream\.go:ExtractMetadataStream:errnil:if filters, ferr := c\.Filters", "fix: D-C19b-3.diff — the second resolution of an indirect /Filter or /DecodeParms: a read error flipped Plaintext and left PadToLength in place"),
 (r"metadata_stream\.go:ExtractMetadataStream:errnil:if ferr == nil", "waiver: after D-C19b-3.diff: read errors are returned just above; a malformed filter chain only means 'not plaintext'"),
 (r"complex\.go:String\.AsDate:errnil", "noterror: time.Parse on a string in memory, the next layout is tried"),
 (r"copier\.go:Copier\.Copy:errnil:if closeErr := rc\.Close\(\); err == nil", "waiver: the error of ReadAll wins, else the error of Close is returned; both are tested in the next statement"),
 (r"copier\.go:Copier\.CopyReference:errdrop", "waiver: IsReadError(err) is returned in the branch just above (D95-D98); a malformed source object is copied as null by design"),
 (r"crypto\.go:.*:discard:c, _ :?= (rc4|aes)\.NewCipher", CRY),
 (r"crypto\.go:stdSecHandler\.authenticate:errdrop", "noterror: padPasswd/utf8Passwd work on the password string; a password without an encodable form is a wrong password"),
 (r"crypto\.go:stdSecHandler\.authenticate:errnil", "noterror: authenticateOwner/User compute on the /O /U /OE /UE strings of the encryption dictionary, which was read before; no I/O"),
 (r"error\.go:Wrap:errnil", "noterror: Wrap(nil) is nil"),
 (r"filter\.go:FilterJBIG2\.Decode:discard:n, _ := r\.Read\(probe", "waiver: reached only when the data filled the whole remaining budget; whatever the probe returns, the budget has no headroom left and the decoding that follows fails (budget error, or the source's error through DecodeStream's sourceAwareReader) — an error in every case, never different data"),
 (r"meta\.go:Version\.String:errdrop", "noterror: formatting of a value in memory"),
 (r"reader\.go:NewReader:errnil", "noterror: first test of the shouldExit closure (nil is no reason to stop); the closure is pinned in Props/C05robinv"),
 (r"reader\.go:getObjStm:errdrop:if err != nil \{ decoded\.Close\(\) \}", "waiver: deferred clean-up (D111): on an error path the decoded reader is closed and the error that is already being returned stays; the error of Close is not wanted there"),
 (r"reader\.go:getFromObjStm:errnil", "waiver: deferred Close of the object stream: its error is adopted when there was none (D-C19b-5.diff makes Close report the source's error)"),
 (r"scanner\.go:scanner\.PeekN:errnil", "waiver: ROB-1 fix (D33): a read error that arrived together with data is adopted from s.err; model ROBScanBuf.peekN, lemma C19robtok"),
 (r"scanner\.go:scanner\.ScanBytes:errnil", "waiver: an empty window without an error is reported as io.EOF; model ROBScanBuf.scanBytes"),
 (r"scanner\.go:scanner\.ReadNumber:errnil", "noterror: strconv.ParseInt on bytes in memory; too large integers become Real"),
 (r"scanner\.go:scanner\.ReadStreamData:errnil", "waiver: ROB-2 fix (a2d2dfe): IsReadError(err) is returned in the statement just above; a malformed /Length means 'recover the extent'"),
 (r"sequential\.go:FileInfo\.MakeReader:errnil", "noterror: first test of the shouldExit closure, and the replacement of a nil error by 'no pages in PDF document catalog'"),
 (r"sequential\.go:FileInfo\.getTrailer:errnil", "waiver: ROB-3 fix (24df3f0): IsReadError(err) is returned right before (cross-reference stream) resp. right after (trailer dictionary; TrailerPos == 0 fails without reading) the success test"),
 (r"sequential\.go:FileInfo\.locateObjects:errdrop", "noterror: strconv.ParseUint on the digits of a matched marker in memory; an object number out of range is no object"),
 (r"types\.go:Parse(Name|String):discard", "noterror: the scanner reads from a bytes.Reader over the argument"),
 (r"types\.go:Placeholder\.Set:errnil:if _, err := doFormat", "noterror: formatting into a bytes.Buffer; Set has formatted the same value successfully just above"),
 (r"types\.go:Placeholder\.Set:errnil:if err == nil && n <", "waiver: a short write without error becomes io.ErrShortWrite (ROB-9b, D46); errors are returned in the next statement"),
 (r"types\.go:formatString:errdrop", "waiver: writer side: after the first failed write nothing more is written and finalErr is returned at the end"),
 (r"writer\.go:Writer\.get:errnil", "waiver: deferred Seek back to the write position: its error is adopted when there was none"),
 (r"writer\.go:posWriter\.Write:errnil", "waiver: a short write without error becomes io.ErrShortWrite (ROB-9b, D46)"),
 (r"xref\.go:decodeXRefStream:errdrop", "noterror: decodeInt on the bytes of one entry already read by io.ReadFull (whose error is returned); fields that overflow int64 skip the entry by design"),
 # ---------------- internal/pdftree
 (r"internal/pdftree/memory\.go:extractFromNode:errdrop", "fix: D-C19-pdftree.diff — extractFromNode had no error result; ExtractInMemory returned a partial map with a nil error after a read error"),
 (r"internal/pdftree/streaming\.go:\?\.(Lookup|lookupInNode):errdrop", "fix: D-C19-pdftree.diff — Lookup answered ErrKeyNotFound for a present key after a read error"),
 (r"internal/pdftree/streaming\.go:\?\.(All|yieldFromNode):errdrop", "fix: D-C19-pdftree.diff — the iterator ended early without a trace; the patch adds the field Err (as pagetree.Iterator has) and Size/Embed return it"),
 (r"internal/pdftree/streaming\.go:\?\.Embed:errdrop:if copyErr != nil", "waiver: inside the copying iterator of the cross-file Embed (fix D-TRS-fromfile-embed-crossfile): the iterator stops and Embed returns copyErr after Write"),
 (r"internal/pdftree/streaming\.go:\?\.Embed:errnil", "waiver: after the patch: the error of Write wins, else the read error recorded by All is returned"),
 # ---------------- graphics/extract
 (r"graphics/extract/resources\.go:Resources:errdrop", "fix: D-C19-extract-resources.diff — 'continue // permissive' dropped read errors of every resource kind (fonts: text vanishes or changes with a nil error)"),
 (r"graphics/extract/resources\.go:Resources:errnil:if \w+, err := c\.", "fix: D-C19-extract-resources.diff — a read error of the sub-dictionary made the whole resource category vanish"),
 (r"graphics/extract/resources\.go:Resources:errnil:if err == nil &&", "waiver: after the patch: read errors are returned just above, malformed sub-dictionaries are skipped"),
 (r"graphics/extract/font-(type1|truetype|type3|type0|type2)\.go:extractFont\w+:discard:d\.ToUnicode", "fix: D-C19-extract-fonts.diff — a failed read of the ToUnicode stream gave glyph-name text or no text"),
 (r"graphics/extract/font-(type0|type2)\.go:extractFont\w+:discard:d\.ROS", "fix: D-C19-extract-fonts.diff"),
 (r"graphics/extract/font-(type1|truetype|type3)\.go:extractFont\w+:discard:d\.Name", "fix: D-C19-extract-fonts.diff"),
 (r"graphics/extract/font-type3\.go:extractFontType3:discard:(d\.FontMatrix|d\.Resources|fontBBox|foundRes)", "fix: D-C19-extract-fonts.diff"),
 (r"graphics/extract/font-type3\.go:extractFontType3:errdrop", "fix: D-C19-extract-fonts.diff — CharProcs: read errors propagate, malformed glyph streams are skipped"),
 (r"graphics/extract/font-(type0|type2)\.go:repairCIDType\d:discard:d\.CMap, _ = cmap\.Predefined", "noterror: Identity-H is built into the library (embedded file system), no file I/O of the document"),
 (r"graphics/extract/font-metrics\.go:getSimpleWidths:discard:(firstChar|widths)", "fix: D-C19-extract-fonts.diff — a failed read of /Widths left the default widths in place"),
 (r"graphics/extract/font-metrics\.go:getSimpleWidths:errdrop", "fix: D-C19-extract-fonts.diff"),
 (r"graphics/extract/font-metrics\.go:getSimpleWidths:discard:ok, _ := getSimpleWidthsErr", "waiver: after the patch: the bool-only wrapper kept for the verif hook"),
 (r"graphics/extract/font-metrics\.go:getSimpleWidthsErr:errdrop", "waiver: after the patch: read errors are returned just above, malformed width entries are skipped"),
 (r"graphics/extract/extgstate\.go:ExtGState:discard:name, _ := pdf\.Optional", "fix: D-C19-extract-misc.diff — pdf.Optional returns exactly the read errors, they were discarded"),
 (r"graphics/extract/extgstate\.go:extractBlendMode:errdrop", "fix: D-C19-extract-misc.diff"),
 (r"graphics/extract/extgstate\.go:ExtGState:errnil", "fix: D-C19-extract-misc.diff — BG/BG2/UCR/UCR2 functions: a read error dropped the function silently (after the patch: waiver, read errors are returned just above)"),
 (r"graphics/extract/extgstate\.go:parseTransferFunction:errnil", "fix: D-C19-extract-misc.diff (after the patch: waiver, read errors are returned just above)"),
 (r"graphics/extract/form\.go:Form:(discard|errdrop)", "fix: D-C19-extract-misc.diff — /Subtype, /Name, /Matrix"),
 (r"graphics/extract/pattern\.go:extractType[12]:errdrop", "fix: D-C19-extract-misc.diff — /Matrix fell back to the identity on a read error"),
 (r"graphics/extract/xobject\.go:XObject:discard:isImageMask", "fix: D-C19-extract-misc.diff"),
 # ---------------- font/cmap, font/encoding, font/dict, glyphdata
 (r"font/cmap/file\.go:Extract:discard:(name|ros|wMode)", "fix: D-C19-cmap-malformed.diff — optional entries of the CMap stream dictionary"),
 (r"font/cmap/file\.go:Extract:discard:res\.Parent, _ = Predefined", "noterror: predefined CMaps are built into the library; an unknown name is tolerated (the dictionary form /UseCMap is made to agree by D-C19-cmap-malformed.diff)"),
 (r"font/cmap/gid2cid\.go:NewGIDToCIDFromROS:discard", "noterror: mapping tables built into the library"),
 (r"font/cmap/tounicode\.go:readToUnicode:errdrop", MEM),
 (r"font/dict/\w+\.go:.*:discard:codec, _ := charcode\.NewCodec\(charcode\.Simple\)", "noterror: the simple code space range is a constant of the library and valid"),
 (r"font/dict/type[02]\.go:.*:discard:defaultText, _ := mapping\.GetCIDTextMapping", "noterror: mapping tables built into the library; an unknown collection gives no default text"),
 (r"font/dict/encoding\.go:makeCodec:errnil", "noterror: charcode.NewCodec on ranges taken from an already decoded CMap"),
 (r"font/dict/type0\.go:cidForText:errnil", "noterror: mapping tables built into the library"),
 (r"font/encoding/type1\.go:ExtractSimple:discard", "fix: D-C19-encoding.diff — /BaseEncoding and /Differences: a read error gave the built-in encoding"),
 (r"font/glyphdata/sfntglyphs/truetype\.go:method[A-D]:errdrop", "waiver: work on the font program already in memory (sfnt tables); the fallback chain A-D of the spec is intended"),
 # ---------------- outline, pagelabel, pagetree, reader
 (r"outline/outline\.go:readItem:discard", "fix: D-C19-outline.diff — /Count, /C, /F of an outline item"),
 (r"pagelabel/pagelabel\.go:Extract:errnil", "fix: D-C19-pagelabel.diff — /S, /P, /St of a label dictionary (after the patch: waiver, read errors are returned just above)"),
 (r"pagelabel/pagelabel\.go:Labels\.RangeAt:discard", "noterror: the second result of slices.BinarySearchFunc is a bool"),
 (r"pagetree/subtree\.go:inheritKey:errdrop", "noterror: pdf.Format into a bytes.Buffer (writer side)"),
 (r"pagetree/simple\.go:GetPage:errnil", "waiver: only the text of the 'page not found' error depends on NumPages; an error is returned in both branches"),
 (r"reader/reader\.go:Reader\.processOperator:discard:_ = r\.State\.ApplyStateChanges", "waiver: state bookkeeping on operands already parsed, no I/O; malformed operators are ignored by design"),
 (r"reader/reader\.go:Reader\.processOperator:errnil", "waiver: /ActualText of a marked-content property list is optional; the property list was decoded with the resources (read errors surface there after D-C19-extract-resources.diff)"),
]

out = []
for k in keys:
    base = re.sub(r"#\d+$", "", k)
    for pat, reason in R:
        if re.match(pat, base):
            out.append((k, reason))
            break
    else:
        sys.stderr.write("no rule for key: %s\n" % k)
        sys.exit(1)

def kind(reason):
    if reason.startswith("fix"): return ".fix"
    if reason.startswith("waiver"): return ".waiver"
    return ".noterror"

def lstr(s):
    return '"' + s.replace("\\", "\\\\").replace('"', '\\"') + '"'

kinds = [kind(r) for _, r in out]
counts = (len(out), kinds.count(".fix"), kinds.count(".waiver"), kinds.count(".noterror"))
print('''import PdfVerif.Generated.InvROBSwallow
/-!
# C19 — inventory of discarded and dropped errors in package pdf and the packages a document walk goes through

`Generated/InvROBSwallow.lean` is re-extracted from the Go sources on every check (tools/extract,
`swallow_dirs` of facts.d/12_rob_swallow.json): assignments that discard the last result of a call
(`x, _ := f()`), if statements that test `err != nil` and go on without the error
(`if err != nil { continue }`), and if statements without else that only handle `err == nil`.
`reviewed` gives every key a verdict: `fix` — read errors are swallowed, a patch exists
(/tmp/w/robust/fixes/D-C19-*.diff and D-C19b-*.diff; the all-k walks of harness/rob_c19w.go and rob_c19x.go show the effect);
`waiver` — reviewed and accepted; `noterror` — the discarded value is no error or no I/O is behind
the call.  `swallow_reviewed` says that the two lists are equal: a NEW discarded or dropped error in
these packages breaks the build until it has a verdict here.
-/
namespace PdfVerif.C19robswl

inductive Verdict where
  | fix | waiver | noterror
  deriving DecidableEq, Repr

/-- the reviewed keys with verdict and reason -/
def reviewed : List (String × Verdict × String) := [''')
for i, (k, r) in enumerate(out):
    print("  (%s, %s,\n   %s)%s" % (lstr(k), kind(r), lstr(r), "," if i < len(out) - 1 else ""))
print(''']

/-- the inventory as regenerated from the sources -/
def generated : List String := Gen.rob_swallow_inventory

/-- **every discarded or dropped error of the walked packages has been reviewed** -/
theorem swallow_reviewed : generated = reviewed.map Prod.fst := by rfl

/-- number of items per verdict (a new waiver changes this statement) -/
theorem swallow_counts :
    (reviewed.length, (reviewed.filter (·.2.1 = .fix)).length, (reviewed.filter (·.2.1 = .waiver)).length,
     (reviewed.filter (·.2.1 = .noterror)).length) = (%d, %d, %d, %d) := by decide +kernel

end PdfVerif.C19robswl''' % counts)

#!/usr/bin/env python3
"""
Helper used once to draft lean/PdfVerif/Props/C05robinv.lean from the generated inventory
(lean/PdfVerif/Generated/InvROB.lean): it attaches the reviewer's reason to every key by the
rules below and refuses keys no rule covers.  The Lean file is the reviewed artefact; when the
inventory changes, the build of Props/C05robinv breaks and the new keys have to be reviewed
(by hand in the Lean file, or by extending the rules here and re-running:
    python3 tools/extract/review/rob_inventory_reasons.py > lean/PdfVerif/Props/C05robinv.lean ).
"""
import re, sys, os

ROOT = os.path.dirname(os.path.dirname(os.path.dirname(os.path.dirname(os.path.abspath(__file__)))))
gen = open(os.path.join(ROOT, "lean/PdfVerif/Generated/InvROB.lean")).read()
keys = [bytes(m.group(1), "utf-8").decode("unicode_escape") for m in re.finditer(r'^  "((?:[^"\\]|\\.)*)",?$', gen, re.M)]
defs = re.findall(r"^def (\w+_inventory)", gen, re.M)

# (regex on "file:func:kind:text" , reason).  First match wins.
R = [
 # ---------------- scanner.go
 (r"scanner\.go:endstreamAt:index:buf\[i\]", "guard: the loop condition tests i < n first and n <= len(buf) = 64"),
 (r"scanner\.go:endstreamAt:index:class\[", "table: class has 256 entries and the index is a byte"),
 (r"scanner\.go:endstreamAt:loop:for$", "waiver: every iteration breaks, returns, or advances pos by n = 64; a ReaderAt delivers n < 64 at the end of the data, which returns false (relies on the io.ReaderAt contract; monitored by the C05 hang watchdog)"),
 (r"scanner\.go:endstreamAt:loop:for i < n", "guard: i is incremented in the body and bounded by n <= 64"),
 (r"scanner\.go:endstreamAt:slice:", "full slice of a fixed-size array"),
 (r"scanner\.go:scanner\.Discard:panic:", "callers: ReadStreamData passes declared >= 0 (tested), getFromObjStm tests delta < 0 before the call, decodeXRefSection passes 20"),
 (r"scanner\.go:scanner\.Find:index:m\[", "regexp contract: FindSubmatchIndex returns 2*(groups+1) >= 2 entries; res has len(m)/2 entries and i ranges over res"),
 (r"scanner\.go:scanner\.Find:index:res\[i\]", "guard: i ranges over res"),
 (r"scanner\.go:scanner\.Find:loop:for$", "waiver: an iteration without a match refills; the window moves forward by at least scannerBufSize - regexpOverlap bytes while the buffer is full and the loop ends with io.EOF as soon as a refill adds nothing to a non-full buffer (Find belongs to C20; monitored by the C05 hang watchdog)"),
 (r"scanner\.go:scanner\.Find:slice:s\.buf\[s\.pos\+a", "regexp contract: 0 <= a <= b <= length of the searched slice s.buf[s.pos:s.used]"),
 (r"scanner\.go:scanner\.(Find|SkipAfter|PeekN|refill):slice:s\.buf\[s\.pos:s\.used\]", "lemma C05robbuf.Coh.pos_le: pos <= used <= len(buf) is an invariant of every modelled operation (refill_spec, peekN_spec, scanBytes_spec keep Coh)"),
 (r"scanner\.go:scanner\.PeekN:panic:", "model: ROB.peekN sets `panicked` for n > bufSize (harness line p1025); callers pass 1, 2, 3, 4, 5, 6, 20 and len of the literals given to SkipString (at most 9)"),
 (r"scanner\.go:scanner\.PeekN:slice:s\.buf\[s\.pos : s\.pos\+n\]", "guard: reached only when s.pos+n <= s.used (second test of PeekN); lemma C05robbuf.peekN_spec"),
 (r"scanner\.go:scanner\.ReadArray:assert:", "lemma C01g.parse_total: the model mirrors this as `match acc with | .int b :: .int a :: acc' => … | _ => .error .other`; parse_total shows that no input makes the parser return `.other`, so whenever integersSeen >= 2 the last two elements are Integers"),
 (r"scanner\.go:scanner\.ReadArray:index:array\[", "lemma C01g.parse_total: see the assertions above; integersSeen >= 2 implies len(array) >= 2, so k-2 >= 0"),
 (r"scanner\.go:scanner\.ReadArray:slice:array\[:k-2\]", "lemma C01g.parse_total: see the assertions above; k >= 2"),
 (r"scanner\.go:scanner\.ReadArray:index:buf\[0\]", "guard: SkipWhiteSpace returned nil, so a byte that is not white space is in the window and PeekN(1) returns it (ScanBytes returns nil only after accept refused a byte at s.pos < s.used)"),
 (r"scanner\.go:scanner\.(ReadArray|ReadDict|ReadName|ReadString):loop:for$", "lemma C01g.parse_total, C01g.readObject_consumes: every iteration consumes at least one byte of the input or returns (the model's loops are fuel-recursive and never run out of fuel)"),
 (r"scanner\.go:scanner\.ReadByte:index:buf\[0\]", "guard: len(buf) == 0 returns first"),
 (r"scanner\.go:scanner\.ReadDict:index:buf\[0\]", "guard: first use after the len(buf) == 0 test; second use after ReadInteger and a SkipWhiteSpace that returned nil (a non-space byte is in the window)"),
 (r"scanner\.go:scanner\.ReadDict:index:dict\[key\]", "map access"),
 (r"scanner\.go:scanner\.ReadIndirectObject:index:s\.unencrypted\[ref\]", "map access (nil map reads are allowed)"),
 (r"scanner\.go:scanner\.ReadName:index:buf\[0\]", "guard: len(buf) == 0 breaks first"),
 (r"scanner\.go:scanner\.ReadName:index:class\[b\]", "table: class has 256 entries and the index is a byte"),
 (r"scanner\.go:scanner\.ReadObject:index:buf\[0\]", "guard: `case len(buf) == 0` is the first case of the switch"),
 (r"scanner\.go:scanner\.ReadStreamData:index:buf\[[01]\]", "guard: each use is behind len(buf) >= 1 resp. len(buf) >= 2 in the same condition"),
 (r"scanner\.go:scanner\.readReferenceTail:index:buf\[0\]", "guard: `len(buf) > 0 &&` short-circuits before the index"),
 (r"scanner\.go:scanner\.readReferenceTail:index:class\[", "table: class has 256 entries and the index is a byte"),
 (r"scanner\.go:scanner\.ReadString:index:buf\[0\]", "guard: `len(buf) == 0 ||` short-circuits before the index"),
 (r"scanner\.go:scanner\.ScanBytes:index:s\.buf\[s\.pos\]", "guard: loop condition s.pos < s.used <= len(buf)"),
 (r"scanner\.go:scanner\.ScanBytes:loop:for$", "lemma C05robbuf.scanBytes_terminates: the bytes the reader has not delivered yet decrease with every iteration that does not return (the D8 fix supplies the return after a latched error)"),
 (r"scanner\.go:scanner\.ScanBytes:loop:for s\.pos < s\.used", "guard: s.pos is incremented in the body (model: scanInner is structural on the window)"),
 (r"scanner\.go:scanner\.SkipAfter:loop:for$", "waiver: SkipAfter has no caller in the library (grep); each iteration consumes the window or returns"),
 (r"scanner\.go:scanner\.SkipAfter:panic:", "waiver: SkipAfter has no caller in the library"),
 (r"scanner\.go:scanner\.SkipWhiteSpace:index:class\[b\]", "table: class has 256 entries and the index is a byte"),
 (r"scanner\.go:scanner\.refill:slice:s\.buf\[s\.used:\]", "lemma C05robbuf.Coh.len_le: used <= len(buf) = scannerBufSize"),
 (r"scanner\.go:scanner\.tryHex:index:buf\[[12]\]", "guard: len(buf) != 3 returns first"),
 (r"scanner\.go:streamReader\.Read:slice:", "guard: r.pos < r.end and the slice is taken only when len(buf) > r.end-r.pos"),
 (r"scanner\.go:trimTrailingEOL:index:probe\[n-1\]", "guard: n == 0 returns first, n <= readLen <= 2"),
 (r"scanner\.go:trimTrailingEOL:index:probe\[n-2\]", "guard: behind n >= 2"),
 (r"scanner\.go:trimTrailingEOL:slice:", "guard: readLen is 2 or int(length) with 0 < length < 2"),
 # ---------------- reader.go
 (r"reader\.go:NewReader:closure:shouldExit:", "lemma C19rob.open_fault, C19rob.shouldExit_malformed: this text is what Model/ROBErr.shouldExit transcribes (non-malformed errors exit in every mode)"),
 (r"reader\.go:.*:index:r\.unencrypted\[", "map access"),
 (r"reader\.go:Reader\.Close:assert:", "guard: ownsReader is set only by Open, which passes an *os.File"),
 (r"reader\.go:Reader\.get:index:r\.xref\[", "map access (IsFree accepts the nil entry)"),
 (r"reader\.go:(Reader\.getID|getIDDirect):index:id\[i\]", "guard: id has 2 entries and i ranges over arr with len(arr) == 2 tested"),
 (r"reader\.go:getFromObjStm:index:contents\.idx\[m\]", "guard: m < 0 returns first; m is an index found by ranging over contents.idx"),
 (r"reader\.go:getObjStm:index:idx\[i\]", "guard: i ranges over n = len(idx) resp. over idx"),
 # ---------------- xref.go
 (r"xref\.go:Reader\.lastOccurence:loop:", "guard: the new pos is start+k-1 with start = max(pos-1024, 0), which is smaller than pos (k = 9 < 1025) or below k"),
 (r"xref\.go:Reader\.lastOccurence:slice:buf\[:pos-start\]", "guard: pos-start <= chunkSize = len(buf)"),
 (r"xref\.go:Reader\.lastOccurence:slice:buf\[:n\]", "io.ReaderAt contract: n <= len of the slice passed"),
 (r"xref\.go:Reader\.readXRef:index:", "map access"),
 (r"xref\.go:Reader\.readXRef:loop:for$", "lemma C05rob.prevWalk_terminates: (after D-C05-3-4) the loop ends when the position of the first non-white-space byte at the offset has been seen before; seen grows by a new position in (0, size) in every other iteration (pigeonhole), and the bytes read as tables are bounded by the file size"),
 (r"xref\.go:Reader\.readXRef:loop:for !seen\[start\]", "lemma C05rob.prevWalk_terminates: seen grows by a new offset in (0, size) in every iteration (pigeonhole)"),
 (r"xref\.go:checkXRefStreamDict:index:ind\[", "guard: len(ind) is even and i < len(ind), so i+1 < len(ind)"),
 (r"xref\.go:(checkXRefStreamDict|decodeXRefStream):index:w\[[012]\]", "guard: len(W) == 3 is tested and w gets one entry per element of W"),
 (r"xref\.go:decodeXRefSection:index:buf\[1[79]\]", "guard: len(buf) < 20 returns first (PeekN(20))"),
 (r"xref\.go:decodeXRefSection:slice:buf\[", "guard: len(buf) < 20 returns first"),
 (r"xref\.go:(decodeXRefSection|decodeXRefStream):index:xref\[", "map access"),
 (r"xref\.go:decodeXRefStream:slice:buf\[", "guard: buf has w0+w1+w2 bytes"),
 (r"xref\.go:readXRefTable:index:buf\[0\]", "guard: `len(buf) == 0 ||` short-circuits before the index"),
 (r"xref\.go:readXRefTable:loop:for$", "guard: an iteration continues only after ReadInteger consumed the digit that PeekN saw; otherwise it breaks or returns"),
 # ---------------- sequential.go
 (r"sequential\.go:FileInfo\.MakeReader:closure:shouldExit:", "lemma C19rob.open_fault: same text as in NewReader"),
 (r"sequential\.go:FileInfo\.MakeReader:index:ID\[i\]", "guard: len(ID) >= 2 and i ranges over 2"),
 (r"sequential\.go:.*:index:(r\.unencrypted|fi\.objIndex|index|seen|xref)\[", "map access"),
 (r"sequential\.go:FileInfo\.doRead:panic:", "waiver: the marker regexp and ReadIndirectObject read the same digits at ObjStart (object number < maxXRefSize and generation <= 65535 are tested by locateObjects); reachable only if the bytes change between the two reads; a panic is reported by the C05 harness as C05-panic"),
 (r"sequential\.go:FileInfo\.doRead:index:fi\.objStarts\[i\]", "guard: (after D-C05-5-10) i is the result of sort.Search and is used behind i < len(fi.objStarts) in the same if statement"),
 (r"sequential\.go:FileInfo\.getTrailer:index:fi\.Sections\[j\]", "guard: j counts down from len-1 to 0"),
 (r"sequential\.go:FileInfo\.locateObjects:index:m\[", "regexp contract: startRegexp has 1 group (m has 2 entries), markerRegexp has 3 groups (m has 4 entries)"),
 (r"sequential\.go:FileInfo\.locateObjects:loop:for$", "waiver: every iteration is one scanner.Find, which consumes at least the non-empty match or ends with io.EOF (see scanner.Find)"),
 (r"sequential\.go:FileInfo\.locateObjects:panic:", "regexp: the alternatives of markerRegexp are exactly the cases of the switch"),
 (r"sequential\.go:FileInfo\.makeSafeGetInt:loop:for$", "guard: each iteration adds a new reference to seen and len(seen) > 8 ends it"),
 (r"sequential\.go:countLeadingSpaces:index:class\[", "table: class has 256 entries and the index is a byte"),
 (r"sequential\.go:countLeadingSpaces:index:s\[n\]", "guard: n < len(s) is tested first in the same condition"),
 (r"sequential\.go:countLeadingSpaces:loop:", "guard: n is incremented in the body and bounded by len(s)"),
 # ---------------- resolve.go, container.go
 (r"resolve\.go:resolvePath:loop:for$", "lemma C05rob.resolve_fuel_suffices, C05rob.resolve_depth: path.step bounds the number of iterations by MaxExtractDepth"),
 (r"container\.go:DecodeStream:index:filters\[0\]", "guard: len(filters) > 0 in the same condition"),
 (r"container\.go:DecodeStream:index:lower\[i\]", "guard: i runs from len(lower)-1 down to 0 in the loop header (i >= 0 tested before every use, i < len(lower) initially and only decremented)"),
 (r"container\.go:sourceAwareReader\.Close:index:s\.lower\[i\]", "guard: i runs from len(s.lower)-1 down to 0 in the loop header (i >= 0 tested before every use, i < len(s.lower) initially and only decremented)"),
 (r"container\.go:GetFilters:index:pa\[i\]", "guard: len(pa) > i"),
 (r"container\.go:RawStreamReader:panic:", "the switch covers the four values of cryptRecipe that streamCryptRecipe returns"),
 (r"container\.go:filterChainStartsWithCrypt:index:f\[0\]", "guard: len(f) == 0 returns first"),
 (r"container\.go:streamCryptRecipe:index:filters\[0\]", "waiver: filterChainStartsWithCrypt found the name Crypt at position 0, so GetFilters either fails (returned) or yields at least that filter; the two functions resolve /Filter with different canObjStm flags, a disagreement makes GetFilters return an error first"),
 # ---------------- cursor.go
 (r"cursor\.go:.*:index:(cursorCast|reflect\.TypeFor|as)\[", "not an index: instantiation of a generic function"),
 (r"cursor\.go:Cursor\.FloatArray:index:result\[i\]", "guard: result has len(array) entries and i ranges over array"),
 (r"cursor\.go:Cursor\.Matrix:slice:m\[:\]", "full slice of a fixed-size array"),
 (r"cursor\.go:Cursor\.Rectangle:index:values\[", "guard: len(values) != 4 returns first"),
 (r"cursor\.go:Decode:loop:for$", "lemma C05rob.resolve_depth: every iteration extends the path by path.step, which fails beyond MaxExtractDepth and on a repeated reference"),
 (r"cursor\.go:DecodeExclusive:assert:", "waiver (C18): cache and wip values are stored under the key (ref, TypeFor[T]) by this function and by Decode, so their dynamic type is T; a nil interface value would panic here (Decode uses the comma-ok form), the only instantiation (annotation/decode, T = *acroform.InteractiveForm) is a pointer type"),
 (r"cursor\.go:DecodeExclusive:index:x\.(cache|wip)\[", "map access"),
 # ---------------- writer.go, types.go (sink path of C19)
 (r"writer\.go:Writer\.Close:assert:w\.origW\.\(io\.Closer\)", "guard: closeOrigW is set only by Create, which passes an *os.File"),
 (r"writer\.go:Writer\.WriteCompressed:index:seen\[ref\.Number\(\)\]", "map access"),
 (r"writer\.go:Writer\.WriteCompressed:index:w\.xref\[ref\.Number\(\)\]", "map access"),
 (r"types\.go:Placeholder\.Set:index:fills\[i\]", "guard: fills has len(x.pos) entries and i ranges over x.pos"),
 (r"types\.go:Placeholder\.Set:index:x\.posRef\[i\]", "guard: x.pos and x.posRef are only ever appended to together (doFormat, method 2) and reset together (Set), i ranges over x.pos"),
 (r"sequential\.go:FileInfo\.locateObjects:index:prev\[0\]", "guard: prev is a [1]byte array and the index is the constant 0"),
 (r"sequential\.go:FileInfo\.locateObjects:slice:prev\[:\]", "full slice of a fixed-size array"),
 (r"writer\.go:Writer\.Close:panic:panic\(r\)", "guard: the deferred recover in Close (fix D71) re-raises every panic that is not the object-number-overflow sentinel of Alloc; it introduces no panic of its own"),
 (r"writer\.go:Writer\.Close:index:w\.meta\.ID\[0\](?!#)$", "guard: first occurrence (fix D50): behind `len(w.meta.ID) != 2 ||` in the same condition"),
 (r"writer\.go:Writer\.Close:index:w\.meta\.ID\[[01]\]", "waiver: NewWriter stores nil or a two-element ID; a caller that replaces GetMeta().ID by a shorter slice makes Close panic (API misuse on the writing side, outside 'arbitrary input bytes'; recorded)"),
 (r"writer\.go:Writer\.OpenStream:index:", "map access"),
 (r"writer\.go:Writer\.WriteCompressed:index:objects\[N-1\]", "guard: len(objects) == 0 returns first and the splitting loop leaves at least one object, so N >= 1"),
 (r"writer\.go:Writer\.WriteCompressed:index:(objects|refs)\[i\]", "guard: checkCompressed rejects len(refs) != len(objects); i ranges over objects, refs resp. N = len(objects)"),
 (r"writer\.go:Writer\.WriteCompressed:loop:for len\(objects\) > maxObjStmObjects", "guard: every iteration removes maxObjStmObjects > 0 elements from objects"),
 (r"writer\.go:Writer\.WriteCompressed:slice:", "guard: inside the loop len(objects) = len(refs) > maxObjStmObjects"),
 (r"types\.go:Placeholder\.Set:assert:x\.pdf\.origW\.\(io\.WriteSeeker\)", "guard: x.pos is non-empty only if Placeholder.AsPDF took method 2, which tests origW.(io.WriteSeeker) with comma-ok first; len(x.pos) == 0 returns before the assertion"),
 # ---------------- error.go, pagetree
 (r"error\.go:MalformedFileError\.Error:index:err\.Loc\[i\]", "guard: i counts down from len(err.Loc)-1 to 0"),
 (r"pagetree/read\.go:.*:index:(seen|inherited|node)\[", "map access"),
 (r"pagetree/read\.go:.*:index:kids\[i\]", "guard: i counts down from len(kids)-1 to 0"),
 (r"pagetree/read\.go:.*:index:(todo|stack)\[k\]", "guard: k = len-1 and the loop condition (resp. the preceding test) makes the slice non-empty"),
 (r"pagetree/read\.go:.*:slice:(todo|stack)\[:k\]", "guard: k = len-1 >= 0"),
 (r"pagetree/read\.go:.*:loop:for len\(todo\)", "waiver: every iteration pops one reference; a reference is pushed only when it is not in seen and is then added to seen, so at most one push per distinct reference of the file (finite); Kids cycles are cut by seen (exercised by the C05 harness: /Kids and /Parent rewiring)"),
]

lemma_refs = set()
out = []
for k in keys:
    base = re.sub(r"#\d+$", "", k)
    for pat, reason in R:
        # a pattern that ends in "#n$" or "(?!#)$" addresses one occurrence and is matched against the full key
        if re.match(pat, k if pat.endswith("$") and ("#" in pat) else base):
            out.append((k, reason))
            for m in re.finditer(r"(C05robbuf|C05rob|C19rob|C01g|C01h)\.([A-Za-z_][A-Za-z0-9_.]*)", reason):
                lemma_refs.add(m.group(1) + "." + m.group(2).rstrip("."))
            break
    else:
        sys.stderr.write("no rule for key: %s\n" % k)
        sys.exit(1)

def kind(reason):
    if reason.startswith("lemma"): return ".lemma"
    if reason.startswith("waiver"): return ".waiver"
    if reason.startswith("regexp") or reason.startswith("io.ReaderAt contract"): return ".contract"
    return ".guard"

def lstr(s):
    return '"' + s.replace("\\", "\\\\").replace('"', '\\"') + '"'

kinds=[kind(r) for _,r in out]
counts=(len(out), kinds.count(".lemma"), kinds.count(".guard"), kinds.count(".contract"), kinds.count(".waiver"))
print("""import PdfVerif.Generated.InvROB
import PdfVerif.Props.C05rob
import PdfVerif.Props.C05robbuf
import PdfVerif.Props.C19rob
import PdfVerif.Props.C01g
import PdfVerif.Props.C01h
/-!
# C05/C19 — inventory of panic sites, unchecked assertions, index/slice expressions and
# unbounded loops in the anchored functions (DESIGN.md 2.1 a3)

`Generated/InvROB.lean` is re-extracted from the Go sources on every check (tools/extract
inventory mode).  `reviewed` below lists every key with the reason why it cannot fail / does
terminate: a lemma of the Props files, a guard visible in the function, a contract of the standard
library, or a waiver with its argument.  `inventory_reviewed` says the two lists are equal, so
a NEW panic call, unchecked type assertion, index/slice expression or loop without syntactic
bound in an anchored function — or a change of the `shouldExit` closures — breaks the build
until the entry has been reviewed here.  The lemmas named in the reasons are referenced at the
end of the file, so a reason cannot outlive its lemma.
-/
namespace PdfVerif.C05robinv

/-- how an item is discharged: by a theorem of the Props files, by a guard or bound that is
    evident in the function itself (incl. map accesses, fixed tables indexed by a byte, callers
    passing constants), by a contract of the standard library, or by a reviewed waiver -/
inductive Kind where
  | lemma | guard | contract | waiver
  deriving DecidableEq, Repr

/-- the reviewed keys with kind and reason -/
def reviewed : List (String × Kind × String) := [""")
for i, (k, r) in enumerate(out):
    print("  (%s, %s,\n   %s)%s" % (lstr(k), kind(r), lstr(r), "," if i < len(out) - 1 else ""))
print("""]

/-- the inventory as regenerated from the sources -/
def generated : List String :=
  %s

/-- **every inventory item has been reviewed** (and nothing else is listed) -/
theorem inventory_reviewed : generated = reviewed.map Prod.fst := by rfl

/-- number of items per kind (visible in the evidence; a new waiver changes this statement) -/
theorem inventory_counts :
    (reviewed.length, (reviewed.filter (·.2.1 = .lemma)).length, (reviewed.filter (·.2.1 = .guard)).length,
     (reviewed.filter (·.2.1 = .contract)).length, (reviewed.filter (·.2.1 = .waiver)).length) = (%d, %d, %d, %d, %d) := by decide +kernel

-- the lemmas the reasons refer to exist""" % ((" ++\n  ".join("Gen." + d for d in defs),) + counts))
for l in sorted(lemma_refs):
    print("example := @PdfVerif.%s" % l)
print("\nend PdfVerif.C05robinv")

package main

// Go -> Lean translator, part 2: expressions.

import (
	"fmt"
	"go/ast"
	"go/constant"
	"go/printer"
	"go/token"
	"strings"
)

type lvar struct {
	lean  string
	t     *gtype
	c     *cval // function-local constant
	mut   bool
	fresh bool // local slice created by a conversion ([]rune(s), []byte(s)): elements may be assigned
}

type tr struct {
	p      *pkgInfo
	f      *ast.File
	prefix string
	goName string
	fd     *ast.FuncDecl

	scopes   []map[string]*lvar
	allNames map[string]bool // every Lean name bound so far in this function (no shadowing allowed)
	assigned map[string]bool // Go names assigned after their declaration
	partial  bool            // uses an operation that can panic -> Option monad
	results  []*gtype
	sink     *lvar
	lines    []string
	indent   int
	errPos   token.Pos
	notes    []string
	tmp      int
	loops    int
	swInLoop int
	fragIn   map[string]*lvar // fragment mode: source text of an input expression -> variable
}

// ex is a translated expression.
type ex struct {
	s       string // Lean term (valid when t != nil)
	t       *gtype // nil: untyped constant or nil literal
	c       *cval  // constant value, if the expression is constant
	isNil   bool
	partial bool // contains a (← …) action that may panic
}

func (t *tr) fail(pos ast.Node, format string, a ...any) error {
	if pos != nil && !t.errPos.IsValid() {
		t.errPos = pos.Pos()
	}
	return fmt.Errorf(format, a...)
}

func (t *tr) lookup(name string) *lvar {
	for i := len(t.scopes) - 1; i >= 0; i-- {
		if v, ok := t.scopes[i][name]; ok {
			return v
		}
	}
	return nil
}

func (t *tr) constLocals() func(string) (*cval, bool) {
	return func(name string) (*cval, bool) {
		if v := t.lookup(name); v != nil {
			return v.c, true
		}
		return nil, false
	}
}

func (t *tr) ctx() scopeCtx { return scopeCtx{t.p, t.f} }

func named(g *gtype) string {
	if g == nil {
		return ""
	}
	return g.name
}

// lit prints a constant of type g as a Lean literal with type ascription.
func lit(v constant.Value, g *gtype) (string, error) {
	switch g.k {
	case kBool:
		if v.Kind() != constant.Bool {
			return "", fmt.Errorf("constant %v used as bool", v)
		}
		if constant.BoolVal(v) {
			return "true", nil
		}
		return "false", nil
	case kUint, kInt:
		c, err := convertConst(&cval{v, nil}, g)
		if err != nil {
			return "", err
		}
		return fmt.Sprintf("(%s : %s)", c.v.ExactString(), g.leanType()), nil
	case kRuneASCII:
		c, err := convertConst(&cval{v, nil}, tU8)
		if err != nil || constant.Compare(c.v, token.GEQ, constant.MakeInt64(128)) {
			return "", fmt.Errorf("the element of a range over a string may only be compared with ASCII constants (got %v)", v)
		}
		return fmt.Sprintf("(%s : UInt8)", c.v.ExactString()), nil
	case kStr:
		if v.Kind() != constant.String {
			return "", fmt.Errorf("constant %v used as string", v)
		}
		var parts []string
		for _, b := range []byte(constant.StringVal(v)) {
			parts = append(parts, fmt.Sprint(b))
		}
		return "([" + strings.Join(parts, ", ") + "] : List UInt8)", nil
	}
	return "", fmt.Errorf("constant of type %s", g)
}

func constEx(c *cval) (ex, error) {
	e := ex{c: c, t: c.t}
	if c.t != nil {
		s, err := lit(c.v, c.t)
		if err != nil {
			return ex{}, err
		}
		e.s = s
	}
	return e, nil
}

// as gives e the type want (finalising untyped constants and nil).
func (t *tr) as(n ast.Node, e ex, want *gtype) (ex, error) {
	if e.isNil {
		switch want.k {
		case kErr:
			return ex{s: "(none : Option String)", t: want}, nil
		case kSlice:
			return ex{s: "([] : " + want.leanType() + ")", t: want}, nil
		}
		return ex{}, t.fail(n, "nil used as %s", want)
	}
	if e.t == nil {
		if e.c == nil {
			return ex{}, t.fail(n, "internal: untyped non-constant")
		}
		w := want
		if w.k == kRuneASCII {
			s, err := lit(e.c.v, w)
			if err != nil {
				return ex{}, t.fail(n, "%v", err)
			}
			return ex{s: s, t: w, c: e.c}, nil
		}
		c, err := convertConst(e.c, w)
		if err != nil {
			return ex{}, t.fail(n, "%v", err)
		}
		return constEx(c)
	}
	if !sameType(e.t, want) {
		return ex{}, t.fail(n, "type mismatch: have %s, want %s", e.t, want)
	}
	return e, nil
}

// defaultType finalises an untyped constant to its default type (int / bool / string).
func (t *tr) defaulted(n ast.Node, e ex) (ex, error) {
	if e.isNil {
		return ex{}, t.fail(n, "untyped nil")
	}
	if e.t != nil {
		return e, nil
	}
	switch e.c.v.Kind() {
	case constant.Bool:
		return t.as(n, e, tBool)
	case constant.Int:
		return t.as(n, e, tInt)
	case constant.String:
		return t.as(n, e, tStr)
	}
	return ex{}, t.fail(n, "constant %v outside the subset", e.c.v)
}

func wrapInt(g *gtype, s string) string {
	if g.bits == 32 {
		return "(Go.i32 (" + s + "))"
	}
	return "(Go.i64 (" + s + "))"
}

// toNat converts an integer-typed expression to a Lean Nat count (for unsigned), or emits the
// panicking conversion for signed counts.
func (t *tr) shiftCount(n ast.Node, e ex) (string, bool, error) {
	switch e.t.k {
	case kUint:
		return "(" + e.s + ").toNat", e.partial, nil
	case kInt:
		t.partial = true
		return "(← Go.cnt " + e.s + ")", true, nil
	}
	return "", false, t.fail(n, "shift count of type %s", e.t)
}

func (t *tr) expr(x ast.Expr) (ex, error) {
	if t.fragIn != nil {
		switch x.(type) {
		case *ast.SelectorExpr, *ast.Ident, *ast.IndexExpr:
			if v, ok := t.fragIn[trExprText(x)]; ok {
				return ex{s: v.lean, t: v.t}, nil
			}
		}
	}
	// constant expressions are folded exactly (Go evaluates them with arbitrary precision)
	if c, err := t.ctx().evalConst(x, -1, t.constLocals(), t.prefix); err == nil {
		e, err := constEx(c)
		if err != nil {
			return ex{}, t.fail(x, "%v", err)
		}
		return e, nil
	}
	switch x := x.(type) {
	case *ast.ParenExpr:
		return t.expr(x.X)
	case *ast.Ident:
		if x.Name == "nil" && t.lookup("nil") == nil {
			return ex{isNil: true}, nil
		}
		v := t.lookup(x.Name)
		if v == nil {
			return ex{}, t.fail(x, "identifier %s is not a local variable, parameter or constant", x.Name)
		}
		if v.t.k == kSink {
			return ex{}, t.fail(x, "the io.ByteWriter may only be used as receiver of WriteByte")
		}
		return ex{s: v.lean, t: v.t}, nil
	case *ast.BasicLit:
		return ex{}, t.fail(x, "literal %s outside the subset", x.Value)
	case *ast.SelectorExpr:
		base, err := t.expr(x.X)
		if err != nil {
			return ex{}, err
		}
		if base.t == nil || base.t.k != kStruct {
			return ex{}, t.fail(x, "selector .%s on a value of type %v", x.Sel.Name, base.t)
		}
		for _, f := range base.t.fields {
			if f.name == x.Sel.Name {
				return ex{s: atom(base.s) + "." + leanIdent(f.name), t: f.t, partial: base.partial}, nil
			}
		}
		return ex{}, t.fail(x, "struct %s has no field %s", base.t.name, x.Sel.Name)
	case *ast.IndexExpr:
		base, err := t.expr(x.X)
		if err != nil {
			return ex{}, err
		}
		if base.t == nil || (base.t.k != kSlice && base.t.k != kStr) {
			return ex{}, t.fail(x, "index of a value of type %v", base.t)
		}
		i, err := t.intIndex(x.Index)
		if err != nil {
			return ex{}, err
		}
		et := tU8
		if base.t.k == kSlice {
			et = base.t.elem
		}
		t.partial = true
		return ex{s: "(← Go.idx " + atom(base.s) + " " + atom(i) + ")", t: et, partial: true}, nil
	case *ast.SliceExpr:
		if x.Slice3 {
			return ex{}, t.fail(x, "3-index slice")
		}
		base, err := t.expr(x.X)
		if err != nil {
			return ex{}, err
		}
		if base.t == nil || (base.t.k != kSlice && base.t.k != kStr) {
			return ex{}, t.fail(x, "slice of a value of type %v", base.t)
		}
		lo, hi := "(0 : Int)", "(Go.len "+atom(base.s)+")"
		if x.Low != nil {
			if lo, err = t.intIndex(x.Low); err != nil {
				return ex{}, err
			}
		}
		if x.High != nil {
			if hi, err = t.intIndex(x.High); err != nil {
				return ex{}, err
			}
		}
		t.partial = true
		return ex{s: "(← Go.slice " + atom(base.s) + " " + atom(lo) + " " + atom(hi) + ")", t: base.t, partial: true}, nil
	case *ast.CompositeLit:
		return t.composite(x)
	case *ast.UnaryExpr:
		if cl, isLit := x.X.(*ast.CompositeLit); isLit && x.Op == token.AND {
			return t.composite(cl) // &T{…}: pointers to structs are read-only values here
		}
		a, err := t.expr(x.X)
		if err != nil {
			return ex{}, err
		}
		if a.t == nil {
			return ex{}, t.fail(x, "unary %s on %v", x.Op, x.X)
		}
		switch x.Op {
		case token.ADD:
			if a.t.k == kInt || a.t.k == kUint {
				return a, nil
			}
		case token.SUB:
			switch a.t.k {
			case kInt:
				return ex{s: wrapInt(a.t, "-"+atom(a.s)), t: a.t, partial: a.partial}, nil
			case kUint:
				return ex{s: "(0 - " + atom(a.s) + ")", t: a.t, partial: a.partial}, nil
			}
		case token.XOR:
			switch a.t.k {
			case kInt:
				return ex{s: "(Go.not64 " + atom(a.s) + ")", t: a.t, partial: a.partial}, nil
			case kUint:
				return ex{s: "(~~~" + atom(a.s) + ")", t: a.t, partial: a.partial}, nil
			}
		case token.NOT:
			if a.t.k == kBool {
				return ex{s: "(!" + atom(a.s) + ")", t: tBool, partial: a.partial}, nil
			}
		}
		return ex{}, t.fail(x, "unary %s on %s", x.Op, a.t)
	case *ast.BinaryExpr:
		return t.binary(x)
	case *ast.CallExpr:
		return t.call(x)
	}
	return ex{}, t.fail(x, "expression %T outside the subset", x)
}

// atom parenthesises a term unless it is already atomic.
func atom(s string) string {
	if s == "" {
		return s
	}
	if (s[0] == '(' && matchingParen(s) == len(s)-1) || !strings.ContainsAny(s, " ←") {
		return s
	}
	return "(" + s + ")"
}

func matchingParen(s string) int {
	d := 0
	for i, r := range s {
		switch r {
		case '(':
			d++
		case ')':
			d--
			if d == 0 {
				return i
			}
		}
	}
	return -1
}

// intIndex translates an index / bound expression to a Lean Int.
func (t *tr) intIndex(x ast.Expr) (string, error) {
	e, err := t.expr(x)
	if err != nil {
		return "", err
	}
	if e.t == nil {
		if e, err = t.as(x, e, tInt); err != nil {
			return "", err
		}
	}
	switch e.t.k {
	case kInt:
		return e.s, nil
	case kUint:
		return "((" + e.s + ").toNat : Int)", nil
	}
	return "", t.fail(x, "index of type %s", e.t)
}

func (t *tr) binary(x *ast.BinaryExpr) (ex, error) {
	l, err := t.expr(x.X)
	if err != nil {
		return ex{}, err
	}
	r, err := t.expr(x.Y)
	if err != nil {
		return ex{}, err
	}
	op := x.Op
	// shifts: the operands have independent types
	if op == token.SHL || op == token.SHR {
		if l.t == nil {
			return ex{}, t.fail(x, "shift of an untyped constant by a variable")
		}
		name := "shl"
		if op == token.SHR {
			name = "shr"
		}
		var cnt string
		part := l.partial || r.partial
		if r.c != nil {
			n, ok := constant.Uint64Val(constant.ToInt(r.c.v))
			if !ok {
				return ex{}, t.fail(x, "negative or huge constant shift count")
			}
			cnt = fmt.Sprint(n)
		} else {
			c, p, err := t.shiftCount(x.Y, r)
			if err != nil {
				return ex{}, err
			}
			cnt, part = c, part || p
		}
		switch l.t.k {
		case kUint:
			return ex{s: fmt.Sprintf("(Go.%s%d %s %s)", name, l.t.bits, atom(l.s), atom(cnt)), t: l.t, partial: part}, nil
		case kInt:
			if l.t.bits != 64 {
				return ex{}, t.fail(x, "shift of int32")
			}
			return ex{s: fmt.Sprintf("(Go.%sI64 %s %s)", name, atom(l.s), atom(cnt)), t: l.t, partial: part}, nil
		}
		return ex{}, t.fail(x, "shift of %s", l.t)
	}
	// nil comparisons
	if l.isNil || r.isNil {
		o := l
		if l.isNil {
			o = r
		}
		if o.t == nil || o.t.k != kErr || (op != token.EQL && op != token.NEQ) {
			return ex{}, t.fail(x, "comparison with nil is only supported for error values")
		}
		if op == token.EQL {
			return ex{s: atom(o.s) + ".isNone", t: tBool, partial: o.partial}, nil
		}
		return ex{s: atom(o.s) + ".isSome", t: tBool, partial: o.partial}, nil
	}
	// unify operand types
	switch {
	case l.t == nil && r.t == nil:
		return ex{}, t.fail(x, "internal: constant expression not folded")
	case l.t == nil:
		if l, err = t.as(x.X, l, r.t); err != nil {
			return ex{}, err
		}
	case r.t == nil:
		if r, err = t.as(x.Y, r, l.t); err != nil {
			return ex{}, err
		}
	}
	if !sameType(l.t, r.t) {
		return ex{}, t.fail(x, "operands of %s have types %s and %s", op, l.t, r.t)
	}
	g := l.t
	part := l.partial || r.partial
	a, b := atom(l.s), atom(r.s)
	switch op {
	case token.LAND, token.LOR:
		if g.k != kBool {
			return ex{}, t.fail(x, "%s on %s", op, g)
		}
		if r.partial {
			// Go does not evaluate the right operand (which may panic) when the left one decides
			short := "false"
			if op == token.LOR {
				short = "true"
			}
			cond := a
			if op == token.LOR {
				cond = "(!" + a + ")"
			}
			return ex{s: fmt.Sprintf("(← (do if %s then pure %s else pure %s : Option Bool))", cond, b, short), t: tBool, partial: true}, nil
		}
		o := "&&"
		if op == token.LOR {
			o = "||"
		}
		return ex{s: "(" + a + " " + o + " " + b + ")", t: tBool, partial: part}, nil
	case token.EQL, token.NEQ:
		switch g.k {
		case kBool, kUint, kInt, kStr, kRuneASCII:
		case kSlice:
			return ex{}, t.fail(x, "comparison of slices")
		default:
			return ex{}, t.fail(x, "comparison of %s", g)
		}
		if g.k == kRuneASCII && l.c == nil && r.c == nil {
			return ex{}, t.fail(x, "the element of a range over a string may only be compared with ASCII constants")
		}
		o := "=="
		if op == token.NEQ {
			o = "!="
		}
		return ex{s: "(" + a + " " + o + " " + b + ")", t: tBool, partial: part}, nil
	case token.LSS, token.LEQ, token.GTR, token.GEQ:
		if g.k != kUint && g.k != kInt {
			return ex{}, t.fail(x, "ordering comparison of %s", g)
		}
		o := map[token.Token]string{token.LSS: "<", token.LEQ: "≤", token.GTR: ">", token.GEQ: "≥"}[op]
		return ex{s: "(decide (" + a + " " + o + " " + b + "))", t: tBool, partial: part}, nil
	}
	switch g.k {
	case kUint:
		switch op {
		case token.ADD, token.SUB, token.MUL:
			return ex{s: "(" + a + " " + op.String() + " " + b + ")", t: g, partial: part}, nil
		case token.AND:
			return ex{s: "(" + a + " &&& " + b + ")", t: g, partial: part}, nil
		case token.OR:
			return ex{s: "(" + a + " ||| " + b + ")", t: g, partial: part}, nil
		case token.XOR:
			return ex{s: "(" + a + " ^^^ " + b + ")", t: g, partial: part}, nil
		case token.AND_NOT:
			return ex{s: "(" + a + " &&& ~~~" + b + ")", t: g, partial: part}, nil
		case token.QUO, token.REM:
			if r.c == nil || constant.Sign(r.c.v) == 0 {
				return ex{}, t.fail(x, "unsigned division by a non-constant")
			}
			o := "/"
			if op == token.REM {
				o = "%"
			}
			return ex{s: "(" + a + " " + o + " " + b + ")", t: g, partial: part}, nil
		}
	case kInt:
		switch op {
		case token.ADD, token.SUB, token.MUL:
			return ex{s: wrapInt(g, a+" "+op.String()+" "+b), t: g, partial: part}, nil
		case token.AND:
			return ex{s: "(Go.and64 " + a + " " + b + ")", t: g, partial: part}, nil
		case token.OR:
			return ex{s: "(Go.or64 " + a + " " + b + ")", t: g, partial: part}, nil
		case token.XOR:
			return ex{s: "(Go.xor64 " + a + " " + b + ")", t: g, partial: part}, nil
		case token.AND_NOT:
			return ex{s: "(Go.andNot64 " + a + " " + b + ")", t: g, partial: part}, nil
		case token.QUO, token.REM:
			if g.bits != 64 {
				return ex{}, t.fail(x, "division of int32")
			}
			if r.c != nil && constant.Sign(r.c.v) != 0 {
				f := "Go.quoK"
				if op == token.REM {
					f = "Go.remK"
				}
				return ex{s: "(" + f + " " + a + " " + b + ")", t: g, partial: part}, nil
			}
			f := "Go.quo64"
			if op == token.REM {
				f = "Go.rem64"
			}
			t.partial = true
			return ex{s: "(← " + f + " " + a + " " + b + ")", t: g, partial: true}, nil
		}
	case kStr:
		if op == token.ADD {
			return ex{}, t.fail(x, "string concatenation")
		}
	}
	return ex{}, t.fail(x, "operator %s on %s", op, g)
}

// convert translates the conversion T(e).
func (t *tr) convert(n ast.Node, e ex, to *gtype) (ex, error) {
	if e.t == nil {
		return t.as(n, e, to)
	}
	from := e.t
	res := func(s string) (ex, error) { return ex{s: s, t: to, partial: e.partial}, nil }
	switch {
	case sameType(from, to):
		return ex{s: e.s, t: to, partial: e.partial, c: e.c}, nil
	case from.k == kUint && to.k == kUint:
		return res(atom(e.s) + fmt.Sprintf(".toUInt%d", to.bits))
	case from.k == kUint && to.k == kInt:
		s := "(" + atom(e.s) + ".toNat : Int)"
		if from.bits >= to.bits {
			s = wrapInt(to, s)
		}
		return res(s)
	case from.k == kInt && to.k == kUint:
		return res(fmt.Sprintf("(Go.toU%d %s)", to.bits, atom(e.s)))
	case from.k == kInt && to.k == kInt:
		if to.bits < from.bits {
			return res(wrapInt(to, e.s))
		}
		return res(e.s)
	case from.k == kStr && to.k == kSlice && to.elem.k == kInt && to.elem.bits == 32:
		return res("(Go.runes " + atom(e.s) + ")") // []rune(s): UTF-8 decoding, invalid bytes give U+FFFD
	case from.k == kSlice && from.elem.k == kInt && from.elem.bits == 32 && to.k == kStr:
		return res("(Go.stringOfRunes " + atom(e.s) + ")") // string(rr): UTF-8 encoding, invalid runes give U+FFFD
	case from.k == kStr && to.k == kSlice && to.elem.k == kUint && to.elem.bits == 8,
		from.k == kSlice && from.elem.k == kUint && from.elem.bits == 8 && to.k == kStr:
		return res(e.s) // []byte(s) / string(b): the same bytes (values are immutable here)
	case from.k == kRuneASCII:
		return ex{}, t.fail(n, "the element of a range over a string may only be compared with ASCII constants")
	}
	return ex{}, t.fail(n, "conversion from %s to %s outside the subset", from, to)
}

func (t *tr) call(x *ast.CallExpr) (ex, error) {
	if x.Ellipsis != token.NoPos {
		return ex{}, t.fail(x, "variadic call")
	}
	// conversion?
	if len(x.Args) == 1 {
		if isType, to := t.ctx().typeExpr(x.Fun, t.constLocals(), t.prefix); isType {
			if to == nil {
				return ex{}, t.fail(x, "conversion to a type outside the subset")
			}
			e, err := t.expr(x.Args[0])
			if err != nil {
				return ex{}, err
			}
			return t.convert(x, e, to)
		}
	}
	switch fn := x.Fun.(type) {
	case *ast.Ident:
		if t.lookup(fn.Name) != nil {
			return ex{}, t.fail(x, "call of a local function value")
		}
		if _, ok := t.p.funcs[fn.Name]; ok {
			return t.callTranslated(x, fn.Name, nil, x.Args)
		}
		switch fn.Name {
		case "len":
			if len(x.Args) != 1 {
				break
			}
			a, err := t.expr(x.Args[0])
			if err != nil {
				return ex{}, err
			}
			if a.t == nil && a.c != nil && a.c.v.Kind() == constant.String {
				return constEx(&cval{constant.MakeInt64(int64(len(constant.StringVal(a.c.v)))), nil})
			}
			if a.t == nil || (a.t.k != kSlice && a.t.k != kStr) {
				return ex{}, t.fail(x, "len of %v", a.t)
			}
			return ex{s: "(Go.len " + atom(a.s) + ")", t: tInt, partial: a.partial}, nil
		case "min", "max":
			if len(x.Args) < 2 {
				break
			}
			var es []ex
			var g *gtype
			for _, a := range x.Args {
				e, err := t.expr(a)
				if err != nil {
					return ex{}, err
				}
				if e.t != nil && g == nil {
					g = e.t
				}
				es = append(es, e)
			}
			if g == nil {
				return ex{}, t.fail(x, "internal: constant %s not folded", fn.Name)
			}
			if g.k != kInt && g.k != kUint {
				return ex{}, t.fail(x, "%s of %s", fn.Name, g)
			}
			part := false
			s := ""
			for i, e := range es {
				e, err := t.as(x.Args[i], e, g)
				if err != nil {
					return ex{}, err
				}
				part = part || e.partial
				if i == 0 {
					s = atom(e.s)
				} else {
					s = "(" + fn.Name + " " + s + " " + atom(e.s) + ")"
				}
			}
			return ex{s: s, t: g, partial: part}, nil
		case "panic":
			return ex{}, t.fail(x, "panic used as an expression")
		}
		return ex{}, t.fail(x, "call of %s outside the subset", fn.Name)
	case *ast.SelectorExpr:
		if id, ok := fn.X.(*ast.Ident); ok && t.lookup(id.Name) == nil {
			// package-qualified function
			q, path, err := t.p.importedPkg(t.f, id.Name)
			if err != nil {
				return ex{}, t.fail(x, "%v", err)
			}
			if q != nil {
				sg, ok := q.fns[fn.Sel.Name]
				if !ok {
					return ex{}, t.fail(x, "call of %s.%s, which has not been translated earlier in this run (functions of other packages must be listed in an earlier facts.d entry and their module imported)", id.Name, fn.Sel.Name)
				}
				return t.callSig(x, id.Name+"."+fn.Sel.Name, sg, nil, x.Args)
			}
			return t.stdCall(x, path, fn.Sel.Name)
		}
		// method call on a value
		recv, err := t.expr(fn.X)
		if err != nil {
			return ex{}, err
		}
		if recv.t == nil || recv.t.name == "" {
			return ex{}, t.fail(x, "method call .%s on a value of unnamed type %v", fn.Sel.Name, recv.t)
		}
		if recv.t.k == kStruct && recv.t.pkg != nil && recv.t.pkg != t.p {
			sg, ok := recv.t.pkg.fns[recv.t.name+"."+fn.Sel.Name]
			if !ok {
				return ex{}, t.fail(x, "call of method %s.%s of another package, which has not been translated earlier in this run", recv.t.name, fn.Sel.Name)
			}
			return t.callSig(x, recv.t.name+"."+fn.Sel.Name, sg, &recv, x.Args)
		}
		return t.callTranslated(x, recv.t.name+"."+fn.Sel.Name, &recv, x.Args)
	}
	return ex{}, t.fail(x, "call outside the subset")
}

func (t *tr) stdCall(x *ast.CallExpr, path, name string) (ex, error) {
	type sig struct {
		lean string
		args []*gtype
		res  *gtype
	}
	known := map[string]sig{
		"crypto/subtle.ConstantTimeLessOrEq": {"Go.ctLessOrEq", []*gtype{tInt, tInt}, tInt},
		"crypto/subtle.ConstantTimeByteEq":   {"Go.ctByteEq", []*gtype{tU8, tU8}, tInt},
		"crypto/subtle.ConstantTimeEq":       {"Go.ctEq", []*gtype{tI32, tI32}, tInt},
		"crypto/subtle.ConstantTimeSelect":   {"Go.ctSelect", []*gtype{tInt, tInt, tInt}, tInt},
	}
	sg, ok := known[path+"."+name]
	if !ok {
		return ex{}, t.fail(x, "call of %s.%s outside the subset", path, name)
	}
	if len(x.Args) != len(sg.args) {
		return ex{}, t.fail(x, "wrong number of arguments")
	}
	s := sg.lean
	part := false
	for i, a := range x.Args {
		e, err := t.expr(a)
		if err != nil {
			return ex{}, err
		}
		if e, err = t.as(a, e, sg.args[i]); err != nil {
			return ex{}, err
		}
		part = part || e.partial
		s += " " + atom(e.s)
	}
	return ex{s: "(" + s + ")", t: sg.res, partial: part}, nil
}

func (t *tr) callTranslated(x *ast.CallExpr, goName string, recv *ex, args []ast.Expr) (ex, error) {
	sg, ok := t.p.fns[goName]
	if !ok {
		if _, exists := t.p.funcs[goName]; exists {
			return ex{}, t.fail(x, "call of %s, which has not been translated (list it before %s under \"fns\")", goName, t.goName)
		}
		return ex{}, t.fail(x, "call of unknown function %s", goName)
	}
	return t.callSig(x, goName, sg, recv, args)
}

func (t *tr) callSig(x *ast.CallExpr, goName string, sg *fnSig, recv *ex, args []ast.Expr) (ex, error) {
	var es []ex
	if recv != nil {
		es = append(es, *recv)
	}
	n := len(sg.params)
	if len(es)+len(args) != n {
		return ex{}, t.fail(x, "call of %s: %d arguments for %d parameters (io.ByteWriter parameters cannot be passed on)", goName, len(es)+len(args), n)
	}
	for _, a := range args {
		e, err := t.expr(a)
		if err != nil {
			return ex{}, err
		}
		es = append(es, e)
	}
	s := sg.lean
	part := false
	for i, e := range es {
		var err error
		if e, err = t.as(x, e, sg.params[i]); err != nil {
			return ex{}, err
		}
		part = part || e.partial
		s += " " + atom(e.s)
	}
	var rt *gtype
	switch len(sg.results) {
	case 0:
		return ex{}, t.fail(x, "call of %s, which has no result", goName)
	case 1:
		rt = sg.results[0]
	default:
		rt = &gtype{k: kTuple, tuple: sg.results}
	}
	if sg.partial {
		t.partial = true
		return ex{s: "(← " + s + ")", t: rt, partial: true}, nil
	}
	return ex{s: "(" + s + ")", t: rt, partial: part}, nil
}

// exprText prints an expression in a canonical form (used to match fragment inputs and locators).
func trExprText(x ast.Node) string {
	var sb strings.Builder
	if err := printer.Fprint(&sb, token.NewFileSet(), x); err != nil {
		return ""
	}
	return strings.Join(strings.Fields(sb.String()), " ")
}

// composite translates a keyed struct literal T{F: e, …}; missing fields get their zero value.
func (t *tr) composite(x *ast.CompositeLit) (ex, error) {
	if x.Type == nil {
		return ex{}, t.fail(x, "composite literal without type")
	}
	g, err := t.ctx().resolveType(x.Type, t.prefix)
	if err != nil {
		return ex{}, t.fail(x, "%v", err)
	}
	if g.k != kStruct {
		return ex{}, t.fail(x, "composite literal of type %s (only struct literals are in the subset)", g)
	}
	vals := map[string]string{}
	part := false
	for _, el := range x.Elts {
		kv, ok := el.(*ast.KeyValueExpr)
		if !ok {
			return ex{}, t.fail(el, "positional struct literal")
		}
		key, ok := kv.Key.(*ast.Ident)
		if !ok {
			return ex{}, t.fail(el, "struct literal key")
		}
		var ft *gtype
		for _, f := range g.fields {
			if f.name == key.Name {
				ft = f.t
			}
		}
		if ft == nil {
			return ex{}, t.fail(el, "struct %s has no field %s", g.name, key.Name)
		}
		e, err := t.expr(kv.Value)
		if err != nil {
			return ex{}, err
		}
		if e, err = t.as(kv.Value, e, ft); err != nil {
			return ex{}, err
		}
		part = part || e.partial
		vals[key.Name] = e.s
	}
	var parts []string
	for _, f := range g.fields {
		v, ok := vals[f.name]
		if !ok {
			z, err := zero(f.t)
			if err != nil {
				return ex{}, t.fail(x, "field %s: %v", f.name, err)
			}
			v = z
		}
		parts = append(parts, leanIdent(f.name)+" := "+v)
	}
	return ex{s: "({ " + strings.Join(parts, ", ") + " } : " + g.lean + ")", t: g, partial: part}, nil
}

package main

// Go -> Lean translator for small pure functions (DESIGN.md 2.1 (a2)).
//
// Part 1 (this file): entry point, package loading, Go types of the subset,
// constant evaluation with types.  Part 2: tr_expr.go (expressions),
// part 3: tr_stmt.go (statements, function header).
//
// The translator works on syntax only (go/ast, go/constant) and has its own
// small type inference for the subset.  Anything it does not recognise makes
// it return an error, which main.go turns into a failed extraction: it never
// guesses.  The semantics of the emitted helper calls (Go.i64, Go.idx, …) is
// defined in lean/PdfVerif/Model/TRGo.lean.

import (
	"fmt"
	"go/ast"
	"go/constant"
	"go/parser"
	"go/token"
	"os"
	"path/filepath"
	"sort"
	"strconv"
	"strings"
)

// ---------------------------------------------------------------- Go types of the subset

type kind int

const (
	kBool      kind = iota
	kUint           // bits 8,16,32,64
	kInt            // bits 64 (int, int64) or 32 (int32, rune)
	kStr            // string: read-only bytes
	kSlice          // elem
	kStruct         // name, fields
	kErr            // error
	kSink           // io.ByteWriter: append-only byte sink that never fails
	kRuneASCII      // element of `range string`; only ==/!= against ASCII constants allowed
	kTuple          // multi-value call result
)

type field struct {
	name string
	t    *gtype
}

type gtype struct {
	k      kind
	bits   int
	elem   *gtype
	name   string // Go name of a struct type
	lean   string // Lean name of a struct type
	fields []field
	tuple  []*gtype
	pkg    *pkgInfo // package that declares a struct type (methods are looked up there)
}

var (
	tBool  = &gtype{k: kBool}
	tU8    = &gtype{k: kUint, bits: 8}
	tU16   = &gtype{k: kUint, bits: 16}
	tU32   = &gtype{k: kUint, bits: 32}
	tU64   = &gtype{k: kUint, bits: 64}
	tInt   = &gtype{k: kInt, bits: 64}
	tI32   = &gtype{k: kInt, bits: 32}
	tStr   = &gtype{k: kStr}
	tErr   = &gtype{k: kErr}
	tSink  = &gtype{k: kSink}
	tRuneA = &gtype{k: kRuneASCII}
)

func (t *gtype) String() string {
	switch t.k {
	case kBool:
		return "bool"
	case kUint:
		return fmt.Sprintf("uint%d", t.bits)
	case kInt:
		return fmt.Sprintf("int%d", t.bits)
	case kStr:
		return "string"
	case kSlice:
		return "[]" + t.elem.String()
	case kStruct:
		return "struct " + t.name
	case kErr:
		return "error"
	case kSink:
		return "io.ByteWriter"
	case kRuneASCII:
		return "rune(range string)"
	case kTuple:
		var p []string
		for _, x := range t.tuple {
			p = append(p, x.String())
		}
		return "(" + strings.Join(p, ", ") + ")"
	}
	return "?"
}

func sameType(a, b *gtype) bool {
	if a == nil || b == nil {
		return false
	}
	if a.k != b.k {
		return false
	}
	switch a.k {
	case kUint, kInt:
		return a.bits == b.bits
	case kSlice:
		return sameType(a.elem, b.elem)
	case kStruct:
		return a.lean == b.lean
	}
	return true
}

// leanType is the Lean type that represents t.
func (t *gtype) leanType() string {
	switch t.k {
	case kBool:
		return "Bool"
	case kUint:
		return fmt.Sprintf("UInt%d", t.bits)
	case kInt:
		return "Int"
	case kStr:
		return "List UInt8"
	case kSlice:
		return "List " + parenType(t.elem.leanType())
	case kStruct:
		return t.lean
	case kErr:
		return "Option String"
	case kSink:
		return "List UInt8"
	case kRuneASCII:
		return "UInt8"
	case kTuple:
		var p []string
		for _, x := range t.tuple {
			p = append(p, x.leanType())
		}
		return strings.Join(p, " × ")
	}
	return "?"
}

func parenType(s string) string {
	if strings.ContainsAny(s, " ") {
		return "(" + s + ")"
	}
	return s
}

// ---------------------------------------------------------------- packages

type constDecl struct {
	expr ast.Expr
	typ  ast.Expr // may be nil
	iota int64
	file *ast.File
}

type pkgInfo struct {
	dir     string
	fset    *token.FileSet
	files   []*ast.File
	consts  map[string]*constDecl
	vars    map[string]*ast.ValueSpec
	types   map[string]*ast.TypeSpec
	tfile   map[string]*ast.File
	funcs   map[string]*ast.FuncDecl
	ffile   map[string]*ast.File
	imports map[*ast.File]map[string]string
	root    string // repository root (directory of go.mod)
	module  string // module path
	// translation state
	fns     map[string]*fnSig // translated functions of this package by Go name ("Recv.Name")
	structs map[string]*gtype // struct types already emitted
	cache   map[string]*cval  // evaluated package constants
	busy    map[string]bool
}

type fnSig struct {
	lean    string
	params  []*gtype // without sinks; receiver first
	results []*gtype // with the sink contents appended last if the function has a sink
	partial bool     // generated in the Option monad (none = panic)
}

var pkgs = map[string]*pkgInfo{}

func findRoot(dir string) (string, string, error) {
	d := dir
	for {
		raw, err := os.ReadFile(filepath.Join(d, "go.mod"))
		if err == nil {
			for _, l := range strings.Split(string(raw), "\n") {
				l = strings.TrimSpace(l)
				if strings.HasPrefix(l, "module ") {
					return d, strings.TrimSpace(strings.TrimPrefix(l, "module ")), nil
				}
			}
			return "", "", fmt.Errorf("no module line in %s/go.mod", d)
		}
		nd := filepath.Dir(d)
		if nd == d {
			return "", "", fmt.Errorf("no go.mod above %s", dir)
		}
		d = nd
	}
}

func loadPkg(dir string) (*pkgInfo, error) {
	dir = filepath.Clean(dir)
	if p, ok := pkgs[dir]; ok {
		return p, nil
	}
	root, module, err := findRoot(dir)
	if err != nil {
		return nil, err
	}
	p := &pkgInfo{dir: dir, fset: token.NewFileSet(), consts: map[string]*constDecl{}, vars: map[string]*ast.ValueSpec{},
		types: map[string]*ast.TypeSpec{}, tfile: map[string]*ast.File{}, funcs: map[string]*ast.FuncDecl{}, ffile: map[string]*ast.File{},
		imports: map[*ast.File]map[string]string{}, root: root, module: module,
		fns: map[string]*fnSig{}, structs: map[string]*gtype{}, cache: map[string]*cval{}, busy: map[string]bool{}}
	ents, err := os.ReadDir(dir)
	if err != nil {
		return nil, err
	}
	var names []string
	for _, ent := range ents {
		n := ent.Name()
		if ent.IsDir() || !strings.HasSuffix(n, ".go") || strings.HasSuffix(n, "_test.go") {
			continue
		}
		names = append(names, n)
	}
	sort.Strings(names)
	pkgName := ""
	for _, n := range names {
		f, err := parser.ParseFile(p.fset, filepath.Join(dir, n), nil, parser.SkipObjectResolution|parser.ParseComments)
		if err != nil {
			return nil, err
		}
		// skip files excluded by a build constraint we do not satisfy (verif shims, other OS)
		if hasBuildTag(f) {
			continue
		}
		if pkgName == "" {
			pkgName = f.Name.Name
		} else if f.Name.Name != pkgName {
			continue
		}
		p.files = append(p.files, f)
		imp := map[string]string{}
		for _, is := range f.Imports {
			path, _ := strconv.Unquote(is.Path.Value)
			name := filepath.Base(path)
			if is.Name != nil {
				name = is.Name.Name
			}
			imp[name] = path
		}
		p.imports[f] = imp
		for _, d := range f.Decls {
			switch d := d.(type) {
			case *ast.FuncDecl:
				name := d.Name.Name
				if d.Recv != nil && len(d.Recv.List) == 1 {
					name = recvName(d.Recv.List[0].Type) + "." + name
				}
				p.funcs[name] = d
				p.ffile[name] = f
			case *ast.GenDecl:
				switch d.Tok {
				case token.CONST:
					var lastV []ast.Expr
					var lastT ast.Expr
					for i, sp := range d.Specs {
						vs := sp.(*ast.ValueSpec)
						vals, typ := vs.Values, vs.Type
						if len(vals) == 0 {
							vals, typ = lastV, lastT
						} else {
							lastV, lastT = vals, typ
						}
						for j, nm := range vs.Names {
							if j < len(vals) && nm.Name != "_" {
								p.consts[nm.Name] = &constDecl{vals[j], typ, int64(i), f}
							}
						}
					}
				case token.VAR:
					for _, sp := range d.Specs {
						vs := sp.(*ast.ValueSpec)
						for _, nm := range vs.Names {
							p.vars[nm.Name] = vs
						}
					}
				case token.TYPE:
					for _, sp := range d.Specs {
						ts := sp.(*ast.TypeSpec)
						p.types[ts.Name.Name] = ts
						p.tfile[ts.Name.Name] = f
					}
				}
			}
		}
	}
	pkgs[dir] = p
	return p, nil
}

func hasBuildTag(f *ast.File) bool {
	for _, cg := range f.Comments {
		if cg.Pos() > f.Package {
			break
		}
		for _, c := range cg.List {
			if strings.HasPrefix(c.Text, "//go:build") {
				return true
			}
		}
	}
	return false
}

// importedPkg resolves the package name used in file f of p.
func (p *pkgInfo) importedPkg(f *ast.File, name string) (*pkgInfo, string, error) {
	path, ok := p.imports[f][name]
	if !ok {
		return nil, "", fmt.Errorf("%s is not an imported package", name)
	}
	if path == p.module || strings.HasPrefix(path, p.module+"/") {
		rel := strings.TrimPrefix(strings.TrimPrefix(path, p.module), "/")
		q, err := loadPkg(filepath.Join(p.root, rel))
		return q, path, err
	}
	return nil, path, nil // outside the module (standard library …)
}

// ---------------------------------------------------------------- type resolution

type scopeCtx struct {
	p *pkgInfo
	f *ast.File
}

var basicTypes = map[string]*gtype{
	"bool": tBool, "byte": tU8, "uint8": tU8, "uint16": tU16, "uint32": tU32, "uint64": tU64, "uint": tU64,
	"int": tInt, "int64": tInt, "int32": tI32, "rune": tI32, "string": tStr, "error": tErr,
}

func (c scopeCtx) resolveType(x ast.Expr, prefix string) (*gtype, error) {
	switch x := x.(type) {
	case *ast.Ident:
		if _, shadow := c.p.types[x.Name]; !shadow {
			if t, ok := basicTypes[x.Name]; ok {
				return t, nil
			}
		}
		ts, ok := c.p.types[x.Name]
		if !ok {
			return nil, fmt.Errorf("unknown type %s", x.Name)
		}
		if ts.TypeParams != nil {
			return nil, fmt.Errorf("generic type %s", x.Name)
		}
		cc := scopeCtx{c.p, c.p.tfile[x.Name]}
		if st, ok := ts.Type.(*ast.StructType); ok {
			if t, ok := c.p.structs[x.Name]; ok {
				return t, nil
			}
			t := &gtype{k: kStruct, name: x.Name, lean: prefix + x.Name, pkg: c.p}
			for _, fl := range st.Fields.List {
				if len(fl.Names) == 0 {
					return nil, fmt.Errorf("struct %s: embedded field", x.Name)
				}
				ft, err := cc.resolveType(fl.Type, prefix)
				if err != nil {
					return nil, fmt.Errorf("struct %s: field %s: %v", x.Name, fl.Names[0].Name, err)
				}
				if ft.k == kSink || ft.k == kErr {
					return nil, fmt.Errorf("struct %s: field of type %s", x.Name, ft)
				}
				for _, nm := range fl.Names {
					t.fields = append(t.fields, field{nm.Name, ft})
				}
			}
			c.p.structs[x.Name] = t
			pendingStructs = append(pendingStructs, t)
			return t, nil
		}
		u, err := cc.resolveType(ts.Type, prefix)
		if err != nil {
			return nil, err
		}
		if u.k == kStruct {
			return u, nil
		}
		cp := *u
		cp.name = x.Name // named non-struct type: same representation, the name selects methods
		return &cp, nil
	case *ast.ParenExpr:
		return c.resolveType(x.X, prefix)
	case *ast.StarExpr:
		t, err := c.resolveType(x.X, prefix)
		if err != nil {
			return nil, err
		}
		if t.k != kStruct {
			return nil, fmt.Errorf("pointer to non-struct type")
		}
		return t, nil // read-only use of *T is treated as T (a nil receiver is outside the model)
	case *ast.ArrayType:
		if x.Len != nil {
			return nil, fmt.Errorf("fixed-size array type")
		}
		et, err := c.resolveType(x.Elt, prefix)
		if err != nil {
			return nil, err
		}
		if et.k == kSink || et.k == kErr {
			return nil, fmt.Errorf("slice of %s", et)
		}
		return &gtype{k: kSlice, elem: et}, nil
	case *ast.SelectorExpr:
		id, ok := x.X.(*ast.Ident)
		if !ok {
			return nil, fmt.Errorf("unsupported type expression")
		}
		q, path, err := c.p.importedPkg(c.f, id.Name)
		if err != nil {
			return nil, err
		}
		if q == nil {
			if path == "io" && x.Sel.Name == "ByteWriter" {
				return tSink, nil
			}
			return nil, fmt.Errorf("type %s.%s outside the subset", path, x.Sel.Name)
		}
		ts, ok := q.types[x.Sel.Name]
		if !ok {
			return nil, fmt.Errorf("unknown type %s.%s", id.Name, x.Sel.Name)
		}
		if _, isStruct := ts.Type.(*ast.StructType); isStruct {
			// a struct of another package is usable once that package's functions have been translated
			// (its Lean structure then exists in the module of that package, which must be imported)
			if st, ok := q.structs[x.Sel.Name]; ok {
				return st, nil
			}
			return nil, fmt.Errorf("struct type %s.%s of another package has not been translated yet (translate a function of that package using it in an earlier facts.d entry)", id.Name, x.Sel.Name)
		}
		return scopeCtx{q, q.tfile[x.Sel.Name]}.resolveType(ts.Type, prefix)
	}
	return nil, fmt.Errorf("type expression %T outside the subset", x)
}

// isTypeName reports whether the identifier names a type (for conversions).
func (c scopeCtx) isTypeName(name string) bool {
	if _, ok := c.p.types[name]; ok {
		return true
	}
	_, ok := basicTypes[name]
	return ok
}

var pendingStructs []*gtype

func structDecl(t *gtype) string {
	var sb strings.Builder
	fmt.Fprintf(&sb, "/-- Go struct `%s` (fields in source order) -/\nstructure %s where\n", t.name, t.lean)
	for _, f := range t.fields {
		fmt.Fprintf(&sb, "  %s : %s\n", leanIdent(f.name), f.t.leanType())
	}
	sb.WriteString("deriving DecidableEq, Repr\n\n")
	return sb.String()
}

// ---------------------------------------------------------------- constants

// cval is a Go constant: its exact value and its type (nil = untyped).
type cval struct {
	v constant.Value
	t *gtype
}

var mathConsts = map[string]string{
	"MaxInt8": "127", "MinInt8": "-128", "MaxInt16": "32767", "MinInt16": "-32768",
	"MaxInt32": "2147483647", "MinInt32": "-2147483648",
	"MaxInt64": "9223372036854775807", "MinInt64": "-9223372036854775808",
	"MaxInt": "9223372036854775807", "MinInt": "-9223372036854775808",
	"MaxUint8": "255", "MaxUint16": "65535", "MaxUint32": "4294967295",
	"MaxUint64": "18446744073709551615", "MaxUint": "18446744073709551615",
}

func (p *pkgInfo) pkgConst(name string, prefix string) (*cval, error) {
	if c, ok := p.cache[name]; ok {
		return c, nil
	}
	d, ok := p.consts[name]
	if !ok {
		return nil, fmt.Errorf("%s is not a constant", name)
	}
	if p.busy[name] {
		return nil, fmt.Errorf("constant cycle at %s", name)
	}
	p.busy[name] = true
	defer delete(p.busy, name)
	ctx := scopeCtx{p, d.file}
	c, err := ctx.evalConst(d.expr, d.iota, nil, prefix)
	if err != nil {
		return nil, fmt.Errorf("constant %s: %v", name, err)
	}
	if d.typ != nil {
		t, err := ctx.resolveType(d.typ, prefix)
		if err != nil {
			return nil, err
		}
		c, err = convertConst(c, t)
		if err != nil {
			return nil, fmt.Errorf("constant %s: %v", name, err)
		}
	}
	p.cache[name] = c
	return c, nil
}

func intRange(t *gtype) (lo, hi constant.Value) {
	one := constant.MakeInt64(1)
	switch t.k {
	case kUint:
		return constant.MakeInt64(0), constant.BinaryOp(constant.Shift(one, token.SHL, uint(t.bits)), token.SUB, one)
	case kInt:
		h := constant.Shift(one, token.SHL, uint(t.bits-1))
		return constant.UnaryOp(token.SUB, h, 0), constant.BinaryOp(h, token.SUB, one)
	}
	return nil, nil
}

func convertConst(c *cval, t *gtype) (*cval, error) {
	switch t.k {
	case kBool:
		if c.v.Kind() != constant.Bool {
			return nil, fmt.Errorf("constant %v is not a bool", c.v)
		}
		return &cval{c.v, t}, nil
	case kUint, kInt:
		v := constant.ToInt(c.v)
		if v.Kind() != constant.Int {
			return nil, fmt.Errorf("constant %v is not an integer", c.v)
		}
		lo, hi := intRange(t)
		if constant.Compare(v, token.LSS, lo) || constant.Compare(v, token.GTR, hi) {
			return nil, fmt.Errorf("constant %v overflows %s", v, t)
		}
		return &cval{v, t}, nil
	case kStr:
		if c.v.Kind() != constant.String {
			return nil, fmt.Errorf("constant %v is not a string", c.v)
		}
		return &cval{c.v, t}, nil
	}
	return nil, fmt.Errorf("constant of type %s", t)
}

// evalConst evaluates a constant expression; locals are function-local constants.
// It returns an error if x is not a constant expression of the subset.
func (c scopeCtx) evalConst(x ast.Expr, iota int64, locals func(string) (*cval, bool), prefix string) (*cval, error) {
	switch x := x.(type) {
	case *ast.BasicLit:
		switch x.Kind {
		case token.INT, token.CHAR, token.STRING:
			v := constant.MakeFromLiteral(x.Value, x.Kind, 0)
			if v.Kind() == constant.Unknown {
				return nil, fmt.Errorf("bad literal %s", x.Value)
			}
			return &cval{v, nil}, nil
		}
		return nil, fmt.Errorf("literal %s outside the subset (floats are not supported)", x.Value)
	case *ast.ParenExpr:
		return c.evalConst(x.X, iota, locals, prefix)
	case *ast.Ident:
		if locals != nil {
			if v, ok := locals(x.Name); ok {
				if v == nil {
					return nil, fmt.Errorf("%s is a variable", x.Name)
				}
				return v, nil
			}
		}
		if _, ok := c.p.consts[x.Name]; ok {
			return c.p.pkgConst(x.Name, prefix)
		}
		switch x.Name {
		case "iota":
			if iota < 0 {
				return nil, fmt.Errorf("iota outside a constant declaration")
			}
			return &cval{constant.MakeInt64(iota), nil}, nil
		case "true":
			return &cval{constant.MakeBool(true), nil}, nil
		case "false":
			return &cval{constant.MakeBool(false), nil}, nil
		}
		return nil, fmt.Errorf("%s is not a constant", x.Name)
	case *ast.SelectorExpr:
		id, ok := x.X.(*ast.Ident)
		if !ok {
			return nil, fmt.Errorf("not a constant")
		}
		if locals != nil {
			if _, isLocal := locals(id.Name); isLocal {
				return nil, fmt.Errorf("not a constant")
			}
		}
		q, path, err := c.p.importedPkg(c.f, id.Name)
		if err != nil {
			return nil, fmt.Errorf("not a constant")
		}
		if q == nil {
			if path == "math" {
				if s, ok := mathConsts[x.Sel.Name]; ok {
					return &cval{constant.MakeFromLiteral(s, token.INT, 0), nil}, nil
				}
			}
			return nil, fmt.Errorf("%s.%s: not a known constant", path, x.Sel.Name)
		}
		if _, ok := q.consts[x.Sel.Name]; !ok {
			return nil, fmt.Errorf("%s.%s is not a constant", id.Name, x.Sel.Name)
		}
		return q.pkgConst(x.Sel.Name, prefix)
	case *ast.UnaryExpr:
		a, err := c.evalConst(x.X, iota, locals, prefix)
		if err != nil {
			return nil, err
		}
		switch x.Op {
		case token.ADD:
			return a, nil
		case token.SUB:
			return checkRange(&cval{constant.UnaryOp(token.SUB, a.v, 0), a.t})
		case token.NOT:
			if a.v.Kind() != constant.Bool {
				return nil, fmt.Errorf("! on non-bool constant")
			}
			return &cval{constant.UnaryOp(token.NOT, a.v, 0), a.t}, nil
		case token.XOR:
			if a.v.Kind() != constant.Int {
				return nil, fmt.Errorf("^ on non-integer constant")
			}
			if a.t != nil && a.t.k == kUint {
				return &cval{constant.UnaryOp(token.XOR, a.v, uint(a.t.bits)), a.t}, nil
			}
			return &cval{constant.UnaryOp(token.XOR, a.v, 0), a.t}, nil
		}
		return nil, fmt.Errorf("unary %s in constant", x.Op)
	case *ast.BinaryExpr:
		a, err := c.evalConst(x.X, iota, locals, prefix)
		if err != nil {
			return nil, err
		}
		b, err := c.evalConst(x.Y, iota, locals, prefix)
		if err != nil {
			return nil, err
		}
		return foldBinary(x.Op, a, b)
	case *ast.CallExpr:
		if len(x.Args) == 1 && x.Ellipsis == token.NoPos {
			if isType, t := c.typeExpr(x.Fun, locals, prefix); isType {
				if t == nil {
					return nil, fmt.Errorf("conversion to a type outside the subset")
				}
				a, err := c.evalConst(x.Args[0], iota, locals, prefix)
				if err != nil {
					return nil, err
				}
				return convertConst(a, t)
			}
		}
		return nil, fmt.Errorf("call is not a constant")
	}
	return nil, fmt.Errorf("not a constant")
}

// typeExpr reports whether x denotes a type; t is nil if the type is outside the subset.
func (c scopeCtx) typeExpr(x ast.Expr, locals func(string) (*cval, bool), prefix string) (bool, *gtype) {
	switch x := x.(type) {
	case *ast.Ident:
		if locals != nil {
			if _, isLocal := locals(x.Name); isLocal {
				return false, nil
			}
		}
		if _, isFunc := c.p.funcs[x.Name]; isFunc {
			return false, nil
		}
		if !c.isTypeName(x.Name) {
			if x.Name == "float64" || x.Name == "float32" || x.Name == "uintptr" || x.Name == "int8" || x.Name == "int16" {
				return true, nil
			}
			return false, nil
		}
		t, err := c.resolveType(x, prefix)
		if err != nil {
			return true, nil
		}
		return true, t
	case *ast.ParenExpr:
		return c.typeExpr(x.X, locals, prefix)
	case *ast.ArrayType:
		t, err := c.resolveType(x, prefix)
		if err != nil {
			return true, nil
		}
		return true, t
	case *ast.SelectorExpr:
		id, ok := x.X.(*ast.Ident)
		if !ok {
			return false, nil
		}
		if locals != nil {
			if _, isLocal := locals(id.Name); isLocal {
				return false, nil
			}
		}
		q, _, err := c.p.importedPkg(c.f, id.Name)
		if err != nil || q == nil {
			return false, nil
		}
		if _, ok := q.types[x.Sel.Name]; !ok {
			return false, nil
		}
		t, err := c.resolveType(x, prefix)
		if err != nil {
			return true, nil
		}
		return true, t
	}
	return false, nil
}

func checkRange(c *cval) (*cval, error) {
	if c.t == nil || (c.t.k != kUint && c.t.k != kInt) {
		return c, nil
	}
	return convertConst(c, c.t)
}

// foldBinary applies Go's rules for constant binary expressions.
func foldBinary(op token.Token, a, b *cval) (*cval, error) {
	switch op {
	case token.SHL, token.SHR:
		if a.v.Kind() != constant.Int {
			return nil, fmt.Errorf("shift of non-integer constant")
		}
		s, ok := constant.Uint64Val(constant.ToInt(b.v))
		if !ok || s > 4096 {
			return nil, fmt.Errorf("bad constant shift count %v", b.v)
		}
		return checkRange(&cval{constant.Shift(a.v, op, uint(s)), a.t})
	}
	t := a.t
	if t == nil {
		t = b.t
	} else if b.t != nil && !sameType(a.t, b.t) {
		return nil, fmt.Errorf("mismatched constant types %s and %s", a.t, b.t)
	}
	switch op {
	case token.EQL, token.NEQ, token.LSS, token.LEQ, token.GTR, token.GEQ:
		if a.v.Kind() != b.v.Kind() {
			return nil, fmt.Errorf("comparison of constants of different kinds")
		}
		return &cval{constant.MakeBool(constant.Compare(a.v, op, b.v)), nil}, nil
	case token.LAND, token.LOR:
		if a.v.Kind() != constant.Bool || b.v.Kind() != constant.Bool {
			return nil, fmt.Errorf("logical operator on non-bool constants")
		}
		return &cval{constant.BinaryOp(a.v, op, b.v), t}, nil
	case token.ADD:
		if a.v.Kind() == constant.String && b.v.Kind() == constant.String {
			return &cval{constant.BinaryOp(a.v, op, b.v), t}, nil
		}
	}
	if a.v.Kind() != constant.Int || b.v.Kind() != constant.Int {
		return nil, fmt.Errorf("arithmetic on non-integer constants (floats are outside the subset)")
	}
	switch op {
	case token.ADD, token.SUB, token.MUL, token.AND, token.OR, token.XOR, token.AND_NOT:
		return checkRange(&cval{constant.BinaryOp(a.v, op, b.v), t})
	case token.QUO:
		if constant.Sign(b.v) == 0 {
			return nil, fmt.Errorf("constant division by zero")
		}
		return checkRange(&cval{constant.BinaryOp(a.v, token.QUO_ASSIGN, b.v), t})
	case token.REM:
		if constant.Sign(b.v) == 0 {
			return nil, fmt.Errorf("constant division by zero")
		}
		return checkRange(&cval{constant.BinaryOp(a.v, token.REM, b.v), t})
	}
	return nil, fmt.Errorf("operator %s in constant", op)
}

// ---------------------------------------------------------------- entry point

func translateImpl(e *env, fc FileCfg, fd *ast.FuncDecl) (string, error) {
	path := e.fset.Position(fd.Pos()).Filename
	p, err := loadPkg(filepath.Dir(path))
	if err != nil {
		return "", err
	}
	name := fd.Name.Name
	if fd.Recv != nil && len(fd.Recv.List) == 1 {
		name = recvName(fd.Recv.List[0].Type) + "." + name
	}
	myfd, ok := p.funcs[name]
	if !ok {
		return "", fmt.Errorf("function %s not found in package %s", name, p.dir)
	}
	if filepath.Base(p.fset.Position(myfd.Pos()).Filename) != filepath.Base(path) {
		return "", fmt.Errorf("function %s is declared in another file of the package", name)
	}
	t := &tr{p: p, f: p.ffile[name], prefix: fc.Prefix, goName: name, fd: myfd}
	pendingStructs = nil
	var src string
	if spec, isFrag := fc.Types[name]; isFrag {
		// fragment mode: the k-th time this function is listed, the k-th fragment of the spec
		// (separated by ";;") is translated instead of the whole function
		key := path + "\x00" + name
		specs := strings.Split(spec, ";;")
		k := fragCount[key]
		fragCount[key]++
		if k >= len(specs) {
			return "", fmt.Errorf("function %s is listed %d times but has only %d fragment specifications", name, k+1, len(specs))
		}
		src, err = t.fragment(strings.TrimSpace(specs[k]))
	} else {
		src, err = t.function()
	}
	if err != nil {
		pos := ""
		if t.errPos.IsValid() {
			pos = p.fset.Position(t.errPos).String() + ": "
		}
		return "", fmt.Errorf("%s%v", pos, err)
	}
	var sb strings.Builder
	for _, st := range pendingStructs {
		sb.WriteString(structDecl(st))
	}
	pendingStructs = nil
	sb.WriteString(src)
	return sb.String(), nil
}

var fragCount = map[string]int{}

var leanReserved = map[string]bool{}

func init() {
	for _, w := range strings.Fields(`at from have show end fun open in then else do match with let mut if for return instance def
		theorem structure class where deriving namespace section variable universe local prefix infix infixl infixr notation macro
		syntax import export Type Prop Sort by using this example abbrev inductive mutual private protected partial unsafe
		extends calc suffices obtain nomatch nofun try catch finally unless break continue then min max some none true false
		pure bind not and or id fst snd init` + " ") {
		leanReserved[w] = true
	}
}

// leanIdent makes a Go identifier usable as a Lean identifier.
func leanIdent(s string) string {
	if leanReserved[s] {
		return s + "'"
	}
	return s
}

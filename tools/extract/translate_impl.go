package main

import (
	"errors"
	"go/ast"
)

func translateImpl(e *env, fc FileCfg, fd *ast.FuncDecl) (string, error) {
	return "", errors.New("translator not built yet")
}

package main

// Self-test of the Go->Lean translator (part of the trusted base):
//
//  1. TestCorpusDifferential translates corpus/corpus.go (one function per
//     construct of the subset), evaluates the generated Lean functions on test
//     vectors with `lake env lean` and compares with the Go functions.
//  2. TestRejects checks that constructs outside the subset make the
//     translator fail instead of guessing.
//
// Run: cd tools/extract && go test ./...   (needs the built Lean project in ../../lean)

import (
	"fmt"
	"go/ast"
	"os"
	"os/exec"
	"path/filepath"
	"strings"
	"testing"

	"verif/extract/corpus"
)

type rnd struct{ s uint64 }

func (r *rnd) u64() uint64 {
	r.s += 0x9E3779B97F4A7C15
	z := r.s
	z = (z ^ (z >> 30)) * 0xBF58476D1CE4E5B9
	z = (z ^ (z >> 27)) * 0x94D049BB133111EB
	return z ^ (z >> 31)
}
func (r *rnd) intn(n int) int { return int(r.u64() % uint64(n)) }

// i64 returns boundary-heavy int64 values.
func (r *rnd) i64() int64 {
	switch r.intn(6) {
	case 0:
		b := []int64{0, 1, -1, 2, -2, 3, 7, 8, 63, 64, 65, 255, 256, 1 << 31, 1<<31 - 1, -1 << 31, 1 << 32, 1<<62 + 5, 1<<63 - 1, -1 << 63, -1<<63 + 1}
		return b[r.intn(len(b))]
	case 1:
		return int64(r.intn(40)) - 10
	case 2:
		return -int64(r.u64() >> uint(1+r.intn(63)))
	default:
		return int64(r.u64() >> uint(1+r.intn(63)))
	}
}
func (r *rnd) small() int { return r.intn(30) - 5 }
func (r *rnd) bytes() []byte {
	b := make([]byte, r.intn(7))
	for i := range b {
		switch r.intn(4) {
		case 0:
			b[i] = "xy/#A\x00"[r.intn(6)]
		default:
			b[i] = byte(r.u64())
		}
	}
	return b
}

func leanInt(v int64) string { return fmt.Sprintf("(%d : Int)", v) }
func leanU(v uint64, bits int) string {
	return fmt.Sprintf("(%d : UInt%d)", v, bits)
}
func trLeanBytes(b []byte) string {
	var p []string
	for _, x := range b {
		p = append(p, fmt.Sprint(x))
	}
	return "([" + strings.Join(p, ", ") + "] : List UInt8)"
}
func leanPt(p corpus.Pt) string {
	return fmt.Sprintf("(⟨%d, %d, %d, %v⟩ : cp_Pt)", p.X, p.Y, p.Tag, p.On)
}

func hexOf(b []byte) string {
	if len(b) == 0 {
		return "-"
	}
	return fmt.Sprintf("%x", b)
}

func goErr(err error) string {
	if err != nil {
		return "err"
	}
	return "nil"
}

// guard runs f and maps a panic to "panic".
func guard(f func() string) (s string) {
	defer func() {
		if r := recover(); r != nil {
			s = "panic"
		}
	}()
	return f()
}

type tcase struct {
	lean string // Lean expression (of a type with a Sh instance)
	want string // result of the Go function
}

func corpusCases() []tcase {
	r := &rnd{s: 12345}
	var cs []tcase
	add := func(lean string, f func() string) { cs = append(cs, tcase{lean, guard(f)}) }
	for i := 0; i < 60; i++ {
		a, b := r.i64(), r.i64()
		ua, ub := r.u64()>>uint(r.intn(64)), r.u64()>>uint(r.intn(64))
		if i%7 == 0 {
			b = 0
		}
		add(fmt.Sprintf("cp_Kind_IsB %s", leanInt(a%5)), func() string { return fmt.Sprint(corpus.Kind(a % 5).IsB()) })
		add(fmt.Sprintf("cp_U8Arith %s %s", leanU(ua&255, 8), leanU(ub&255, 8)), func() string { return fmt.Sprint(corpus.U8Arith(uint8(ua), uint8(ub))) })
		add(fmt.Sprintf("cp_U16Arith %s %s", leanU(ua&65535, 16), leanU(ub&65535, 16)), func() string { return fmt.Sprint(corpus.U16Arith(uint16(ua), uint16(ub))) })
		add(fmt.Sprintf("cp_U32Bits %s %s", leanU(ua&0xffffffff, 32), leanU(ub&0xffffffff, 32)), func() string { return fmt.Sprint(corpus.U32Bits(uint32(ua), uint32(ub))) })
		add(fmt.Sprintf("cp_U64Mul %s %s", leanU(ua, 64), leanU(ub, 64)), func() string { return fmt.Sprint(corpus.U64Mul(ua, ub)) })
		add(fmt.Sprintf("cp_IntArith %s %s", leanInt(a), leanInt(b)), func() string { return fmt.Sprint(corpus.IntArith(int(a), int(b))) })
		add(fmt.Sprintf("cp_I32Arith %s %s", leanInt(int64(int32(a))), leanInt(int64(int32(b)))), func() string { return fmt.Sprint(corpus.I32Arith(int32(a), int32(b))) })
		add(fmt.Sprintf("cp_IntBits %s %s", leanInt(a), leanInt(b)), func() string { return fmt.Sprint(corpus.IntBits(int(a), int(b))) })
		add(fmt.Sprintf("cp_IntNot %s", leanInt(a)), func() string { return fmt.Sprint(corpus.IntNot(int(a))) })
		add(fmt.Sprintf("cp_IntDiv %s %s", leanInt(a), leanInt(b)), func() string { return fmt.Sprint(corpus.IntDiv(int(a), int(b))) })
		add(fmt.Sprintf("cp_IntRem %s %s", leanInt(a), leanInt(b)), func() string { return fmt.Sprint(corpus.IntRem(int(a), int(b))) })
		add(fmt.Sprintf("cp_IntDiv %s %s", leanInt(a), leanInt(-1)), func() string { return fmt.Sprint(corpus.IntDiv(int(a), -1)) })
		add(fmt.Sprintf("cp_IntDivK %s", leanInt(a)), func() string { return fmt.Sprint(corpus.IntDivK(int(a))) })
		add(fmt.Sprintf("cp_U32DivK %s", leanU(ua&0xffffffff, 32)), func() string { return fmt.Sprint(corpus.U32DivK(uint32(ua))) })
		n := uint64(r.intn(70))
		add(fmt.Sprintf("cp_ShlVar %s %s", leanU(ua&0xffffffff, 32), leanU(n, 64)), func() string { return fmt.Sprint(corpus.ShlVar(uint32(ua), uint(n))) })
		sn := int64(r.intn(80)) - 8
		add(fmt.Sprintf("cp_ShrVarSigned %s %s", leanU(ua, 64), leanInt(sn)), func() string { return fmt.Sprint(corpus.ShrVarSigned(ua, int(sn))) })
		add(fmt.Sprintf("cp_ShlInt %s %s", leanInt(a), leanU(n, 8)), func() string { return fmt.Sprint(corpus.ShlInt(int(a), uint8(n))) })
		add(fmt.Sprintf("cp_ShrInt %s %s", leanInt(a), leanU(n, 8)), func() string { return fmt.Sprint(corpus.ShrInt(int(a), uint8(n))) })
		add(fmt.Sprintf("cp_ShlConst %s", leanU(ua&255, 8)), func() string { return fmt.Sprint(corpus.ShlConst(uint8(ua))) })
		add(fmt.Sprintf("cp_Conv %s %s %s", leanInt(a), leanU(ub&255, 8), leanU(ua, 64)), func() string { return fmt.Sprint(corpus.Conv(int(a), uint8(ub), ua)) })
		add(fmt.Sprintf("cp_ConvSigned %s %s %s", leanU(ua, 64), leanU(ub&0xffffffff, 32), leanInt(int64(int32(a)))), func() string { return fmt.Sprint(corpus.ConvSigned(ua, uint32(ub), int32(a))) })
		add(fmt.Sprintf("cp_Consts %s %s", leanInt(int64(i%5)), leanInt(a)), func() string { return fmt.Sprint(corpus.Consts(corpus.Kind(i%5), int(a))) })
		sw := int64(r.intn(8)) - 2
		if i%4 == 0 {
			sw = a
		}
		add(fmt.Sprintf("cp_Switch %s", leanInt(sw)), func() string { return fmt.Sprint(corpus.Switch(int(sw))) })
		buf := r.bytes()
		ln := r.small()
		add(fmt.Sprintf("cp_Loops %s %s", leanInt(int64(ln)), trLeanBytes(buf)), func() string { return fmt.Sprint(corpus.Loops(ln, buf)) })
		ii, jj := r.intn(9)-1, r.intn(9)-1
		add(fmt.Sprintf("cp_Index %s %s %s", trLeanBytes(buf), leanInt(int64(ii)), leanInt(int64(jj))), func() string { return fmt.Sprint(corpus.Index(buf, ii, jj)) })
		add(fmt.Sprintf("cp_Short %s %s", trLeanBytes(buf), leanInt(int64(ii))), func() string { return fmt.Sprint(corpus.Short(buf, ii)) })
		add(fmt.Sprintf("cp_Str %s", trLeanBytes(buf)), func() string { return fmt.Sprint(corpus.Str(string(buf))) })
		sa, sb := int64(r.intn(700))-100, int64(r.intn(700))-100
		add(fmt.Sprintf("cp_UseTwo %s %s", leanInt(sa), leanInt(sb)), func() string {
			v, err := corpus.UseTwo(int(sa), int(sb))
			return fmt.Sprint(v) + " " + goErr(err)
		})
		add(fmt.Sprintf("cp_Two %s", leanInt(a)), func() string {
			v, ok := corpus.Two(int(a))
			return fmt.Sprint(v) + " " + fmt.Sprint(ok)
		})
		p := corpus.Pt{X: int(r.i64()), Y: r.small(), Tag: byte(r.u64()), On: r.intn(2) == 0}
		var q []corpus.Pt
		var ql []string
		for k := r.intn(4); k > 0; k-- {
			e := corpus.Pt{X: r.small(), Y: int(r.i64()), Tag: byte(r.u64()), On: r.intn(2) == 0}
			q = append(q, e)
			ql = append(ql, leanPt(e))
		}
		add(fmt.Sprintf("cp_Structs %s ([%s] : List cp_Pt)", leanPt(p), strings.Join(ql, ", ")), func() string { return fmt.Sprint(corpus.Structs(p, q)) })
		add(fmt.Sprintf("cp_Pt_Scaled %s %s", leanPt(p), leanInt(b)), func() string { return fmt.Sprint(p.Scaled(int(b))) })
		add(fmt.Sprintf("cp_Panics %s", leanInt(int64(i%5))), func() string { return fmt.Sprint(corpus.Panics(i % 5)) })
		add(fmt.Sprintf("cp_VarDecl %s", leanU(ua&255, 8)), func() string { return fmt.Sprint(corpus.VarDecl(uint8(ua))) })
		rs := r.bytes()
		if i%3 == 0 {
			rs = []byte("aé€😀\xff\xed\xa0\x80")[:r.intn(14)]
		}
		rinc := int64(r.intn(70000)) - 300
		add(fmt.Sprintf("cp_RuneBump %s %s", trLeanBytes(rs), leanInt(rinc)), func() string { return hexOf([]byte(corpus.RuneBump(string(rs), int(rinc)))) })
		add(fmt.Sprintf("cp_RuneCount %s", trLeanBytes(rs)), func() string { return fmt.Sprint(corpus.RuneCount(string(rs))) })
		add(fmt.Sprintf("cp_UsePt %s %s", leanInt(a), leanInt(b)), func() string { return fmt.Sprint(corpus.UsePt(int(a), int(b))) })
		sw2 := []string{"a", "bc", "", "b", "abc"}[i%5]
		add(fmt.Sprintf("cp_StrSwitch %s", trLeanBytes([]byte(sw2))), func() string { return fmt.Sprint(corpus.StrSwitch(sw2)) })
	}
	return cs
}

const leanPrelude = `
open PdfVerif.Gen
class Sh (α : Type) where sh : α → String
instance : Sh Int := ⟨toString⟩
instance : Sh Bool := ⟨fun b => if b then "true" else "false"⟩
instance : Sh UInt8 := ⟨fun x => toString x.toNat⟩
instance : Sh UInt16 := ⟨fun x => toString x.toNat⟩
instance : Sh UInt32 := ⟨fun x => toString x.toNat⟩
instance : Sh UInt64 := ⟨fun x => toString x.toNat⟩
instance {α β} [Sh α] [Sh β] : Sh (α × β) := ⟨fun p => Sh.sh p.1 ++ " " ++ Sh.sh p.2⟩
instance {α} [Sh α] : Sh (Option α) := ⟨fun o => match o with | none => "panic" | some a => Sh.sh a⟩
instance : Sh (Option String) := ⟨fun o => if o.isSome then "err" else "nil"⟩
def hexD (n : Nat) : Char := if n < 10 then Char.ofNat (48 + n) else Char.ofNat (87 + n)
instance : Sh (List UInt8) := ⟨fun bs => if bs.isEmpty then "-" else String.ofList (bs.flatMap fun b => [hexD (b.toNat / 16), hexD (b.toNat % 16)])⟩
`

func translateCorpus(t *testing.T, fns []string) (string, error) {
	pkgs = map[string]*pkgInfo{} // fresh translation state
	path, _ := filepath.Abs("corpus/corpus.go")
	e := load(path)
	fc := FileCfg{File: "corpus/corpus.go", Prefix: "cp_", Fns: fns}
	var sb strings.Builder
	for _, n := range fns {
		fd, ok := e.funcs[n]
		if !ok {
			return "", fmt.Errorf("function %s not found", n)
		}
		src, err := translateFunc(e, fc, fd)
		if err != nil {
			return "", fmt.Errorf("%s: %v", n, err)
		}
		sb.WriteString(src + "\n")
	}
	return sb.String(), nil
}

var corpusFns = []string{"Kind.IsB", "Pt.Sum", "Pt.Scaled", "U8Arith", "U16Arith", "U32Bits", "U64Mul", "IntArith", "I32Arith", "IntBits", "IntNot",
	"IntDiv", "IntRem", "IntDivK", "U32DivK", "ShlVar", "ShrVarSigned", "ShlInt", "ShrInt", "ShlConst", "Conv", "ConvSigned", "Consts", "Switch",
	"Loops", "Index", "Short", "Str", "Two", "Check", "UseTwo", "Structs", "Panics", "VarDecl", "RuneBump", "RuneCount", "StrSwitch", "MkPt", "UsePt"}

func TestCorpusDifferential(t *testing.T) {
	leanDir, _ := filepath.Abs("../../lean")
	if _, err := os.Stat(filepath.Join(leanDir, ".lake", "build", "lib", "lean", "PdfVerif", "Model", "TRGo.olean")); err != nil {
		t.Skip("Lean project not built (run ./setup.sh)")
	}
	src, err := translateCorpus(t, corpusFns)
	if err != nil {
		t.Fatal(err)
	}
	cases := corpusCases()
	var sb strings.Builder
	sb.WriteString("import PdfVerif.Model.TRGo\nnamespace PdfVerif.Gen\n" + src + "end PdfVerif.Gen\n" + leanPrelude)
	for _, c := range cases {
		fmt.Fprintf(&sb, "#eval IO.println (Sh.sh (%s))\n", c.lean)
	}
	tmp := filepath.Join(t.TempDir(), "Corpus.lean")
	if err := os.WriteFile(tmp, []byte(sb.String()), 0o644); err != nil {
		t.Fatal(err)
	}
	cmd := exec.Command("lake", "env", "lean", tmp)
	cmd.Dir = leanDir
	out, err := cmd.CombinedOutput()
	if err != nil {
		t.Fatalf("lean failed: %v\n%s", err, out)
	}
	var lines []string
	for _, l := range strings.Split(strings.TrimSpace(string(out)), "\n") {
		if strings.Contains(l, "warning") || strings.HasPrefix(l, " ") || l == "" {
			continue
		}
		lines = append(lines, l)
	}
	if len(lines) != len(cases) {
		t.Fatalf("got %d result lines for %d cases:\n%s", len(lines), len(cases), out)
	}
	bad := 0
	for i, c := range cases {
		if lines[i] != c.want {
			bad++
			if bad < 20 {
				t.Errorf("%s: Lean %q, Go %q", c.lean, lines[i], c.want)
			}
		}
	}
	t.Logf("%d cases compared, %d differ", len(cases), bad)
}

// every snippet must be rejected by the translator
var rejects = map[string]string{
	"while loop":             `func F(n int) int { for n > 0 { n-- }; return n }`,
	"infinite loop":          `func F(n int) int { for { return n } }`,
	"float":                  `func F(n int) int { return int(float64(n) * 1.5) }`,
	"map":                    `func F(m map[int]int) int { return m[1] }`,
	"append":                 `func F(b []byte) []byte { return append(b, 1) }`,
	"slice element assign":   `func F(b []byte) int { b[0] = 1; return 0 }`,
	"field assign":           `type T struct{ A int }` + "\n" + `func F(t T) int { t.A = 1; return t.A }`,
	"goroutine":              `func F(n int) int { go func() {}(); return n }`,
	"defer":                  `func F(n int) int { defer func() {}(); return n }`,
	"closure":                `func F(n int) int { f := func() int { return n }; return f() }`,
	"labelled break":         `func F(n int) int { L: for i := range n { if i > 2 { break L } }; return n }`,
	"goto":                   `func F(n int) int { goto L; L: return n }`,
	"fallthrough":            `func F(n int) int { switch n { case 1: fallthrough; case 2: return 2 }; return 0 }`,
	"break in switch":        `func F(n int) int { for i := range n { switch i { case 1: break } }; return n }`,
	"shadowing":              `func F(n int) int { x := 1; if n > 0 { x := 2; return x }; return x }`,
	"loop var assigned":      `func F(n int) int { s := 0; for i := 0; i < n; i++ { i++; s++ }; return s }`,
	"loop bound assigned":    `func F(n int) int { s := 0; for i := 0; i < n; i++ { n--; s++ }; return s }`,
	"loop step 2":            `func F(n int) int { s := 0; for i := 0; i < n; i += 2 { s++ }; return s }`,
	"range string index":     `func F(s string) int { n := 0; for i := range s { n += i }; return n }`,
	"range string rune use":  `func F(s string) int { n := 0; for _, c := range s { n += int(c) }; return n }`,
	"range string non-ascii": `func F(s string) int { n := 0; for _, c := range s { if c == 'é' { n++ } }; return n }`,
	"range string ne":        `func F(s string) int { n := 0; for _, c := range s { if c != 'a' { n++ } }; return n }`,
	"range string count":     `func F(s string) int { n := 0; for _, c := range s { if c == 'a' { n++ }; n += 2 }; return n }`,
	"string concat":          `func F(s string) string { return s + "x" }`,
	"unknown call":           `func F(s string) int { return len(strings.ToUpper(s)) }`,
	"untranslated callee":    `func g(n int) int { return n }` + "\n" + `func F(n int) int { return g(n) }`,
	"type switch":            `func F(x any) int { switch x.(type) { case int: return 1 }; return 0 }`,
	"any param":              `func F(x any) int { return 0 }`,
	"generic":                `func F[T any](x T) int { return 0 }`,
	"variadic":               `func F(x ...int) int { return len(x) }`,
	"bare return":            `func F(n int) (r int) { r = n; return }`,
	"array type":             `func F(x [4]byte) int { return int(x[0]) }`,
	"pointer param":          `func F(x *int) int { return *x }`,
	"unsigned var division":  `func F(a, b uint32) uint32 { return a / b }`,
	"slice compare nil":      `func F(b []byte) bool { return b == nil }`,
	"three-index slice":      `func F(b []byte) []byte { return b[0:1:2] }`,
	"uint loop var":          `func F(n uint) int { s := 0; for i := uint(0); i < n; i++ { s++ }; return s }`,
	"le loop var bound":      `func F(n int) int { s := 0; for i := 0; i <= n; i++ { s++ }; return s }`,
	"parallel assign":        `func F(a, b int) int { a, b = b, a; return a }`,
	"select":                 `func F(c chan int) int { select { case v := <-c: return v } }`,
	"int8":                   `func F(a int8) int8 { return a + 1 }`,
	"complex const":          `func F() int { const c = 1.5; return int(c * 2) }`,
	"method value":           `type T struct{ A int }` + "\n" + `func (t T) M() int { return t.A }` + "\n" + `func F(t T) int { f := t.M; return f() }`,
	"no result":              `func F(n int) { }`,
	"sink misuse":            `func F(w io.ByteWriter) error { var x io.ByteWriter = w; return x.WriteByte(1) }`,
}

func TestRejects(t *testing.T) {
	for name, body := range rejects {
		dir := t.TempDir()
		os.WriteFile(filepath.Join(dir, "go.mod"), []byte("module rej\n\ngo 1.23\n"), 0o644)
		src := "package rej\n\nimport (\n\t\"io\"\n\t\"strings\"\n)\n\nvar _ = strings.ToUpper\nvar _ io.Reader\n\n" + body + "\n"
		path := filepath.Join(dir, "f.go")
		os.WriteFile(path, []byte(src), 0o644)
		pkgs = map[string]*pkgInfo{}
		e := load(path)
		fd, ok := e.funcs["F"]
		if !ok {
			t.Errorf("%s: F not parsed", name)
			continue
		}
		out, err := translateFunc(e, FileCfg{File: "f.go", Prefix: "rej_"}, fd)
		if err == nil {
			t.Errorf("%s: accepted, generated:\n%s", name, out)
		} else {
			t.Logf("%-24s rejected: %v", name, err)
		}
	}
}

var _ ast.Node

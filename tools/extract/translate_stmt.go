package main

// Go -> Lean translator, part 3: statements and the function header.

import (
	"fmt"
	"go/ast"
	"go/constant"
	"go/parser"
	"go/token"
	"os"
	"path/filepath"
	"strings"
)

func (t *tr) emit(format string, a ...any) {
	t.lines = append(t.lines, strings.Repeat("  ", t.indent)+fmt.Sprintf(format, a...))
}

func (t *tr) push() { t.scopes = append(t.scopes, map[string]*lvar{}) }
func (t *tr) pop()  { t.scopes = t.scopes[:len(t.scopes)-1] }

// declare binds a new Go local; shadowing of a visible local is outside the subset.
func (t *tr) declare(n ast.Node, name string, g *gtype) (*lvar, error) {
	if name == "_" {
		t.tmp++
		return &lvar{lean: fmt.Sprintf("_x%d", t.tmp), t: g}, nil
	}
	if t.lookup(name) != nil {
		return nil, t.fail(n, "declaration of %s shadows a visible local", name)
	}
	if name == "Go" || strings.HasPrefix(name, "_x") || strings.HasSuffix(name, "_n") || strings.HasSuffix(name, "_iv") || strings.HasPrefix(name, "sw_") || strings.HasPrefix(name, "r_") {
		return nil, t.fail(n, "local name %s collides with names the translator generates", name)
	}
	v := &lvar{lean: leanIdent(name), t: g, mut: t.assigned[name]}
	t.scopes[len(t.scopes)-1][name] = v
	return v, nil
}

func zero(g *gtype) (string, error) {
	switch g.k {
	case kBool:
		return "false", nil
	case kUint, kInt:
		return "(0 : " + g.leanType() + ")", nil
	case kStr, kSlice:
		return "([] : " + g.leanType() + ")", nil
	case kErr:
		return "(none : Option String)", nil
	}
	return "", fmt.Errorf("zero value of %s", g)
}

func letKw(v *lvar) string {
	if v.mut {
		return "let mut"
	}
	return "let"
}

// collectAssigned records every Go name that is the target of an assignment.
func collectAssigned(n ast.Node, into map[string]bool) {
	ast.Inspect(n, func(n ast.Node) bool {
		switch s := n.(type) {
		case *ast.AssignStmt:
			if s.Tok != token.DEFINE {
				for _, l := range s.Lhs {
					if id, ok := l.(*ast.Ident); ok {
						into[id.Name] = true
					}
					if ix, ok := l.(*ast.IndexExpr); ok {
						if id, ok := ix.X.(*ast.Ident); ok {
							into[id.Name] = true
						}
					}
				}
			} else {
				// a := … may re-assign an existing variable when mixed with new ones; we mark all
				// names of multi-value defines that already exist at translation time (handled there)
			}
		case *ast.IncDecStmt:
			if id, ok := s.X.(*ast.Ident); ok {
				into[id.Name] = true
			}
		}
		return true
	})
}

func identsOf(x ast.Node) map[string]bool {
	m := map[string]bool{}
	ast.Inspect(x, func(n ast.Node) bool {
		if id, ok := n.(*ast.Ident); ok {
			m[id.Name] = true
		}
		return true
	})
	return m
}

// ---------------------------------------------------------------- function

func (t *tr) function() (string, error) {
	fd := t.fd
	if fd.Body == nil {
		return "", t.fail(fd, "function without body")
	}
	if fd.Type.TypeParams != nil {
		return "", t.fail(fd, "generic function")
	}
	t.assigned = map[string]bool{}
	collectAssigned(fd.Body, t.assigned)
	t.push()
	type param struct {
		v *lvar
	}
	var params []*lvar
	sig := &fnSig{lean: t.prefix + strings.ReplaceAll(t.goName, ".", "_")}
	addParam := func(n ast.Node, name string, te ast.Expr) error {
		g, err := t.ctx().resolveType(te, t.prefix)
		if err != nil {
			return t.fail(n, "parameter %s: %v", name, err)
		}
		if g.k == kErr {
			return t.fail(n, "parameter of type error")
		}
		if name == "" || name == "_" {
			t.tmp++
			name = "_"
		}
		if g.k == kSink {
			if t.sink != nil {
				return t.fail(n, "more than one io.ByteWriter")
			}
			if name == "_" {
				return t.fail(n, "unnamed io.ByteWriter")
			}
			v := &lvar{lean: leanIdent(name), t: g, mut: true}
			t.scopes[0][name] = v
			t.sink = v
			return nil
		}
		var v *lvar
		if name == "_" {
			v = &lvar{lean: fmt.Sprintf("_p%d", len(params)+1), t: g}
		} else {
			if v, err = t.declare(n, name, g); err != nil {
				return err
			}
		}
		params = append(params, v)
		sig.params = append(sig.params, g)
		return nil
	}
	if fd.Recv != nil {
		if len(fd.Recv.List) != 1 {
			return "", t.fail(fd, "receiver list")
		}
		r := fd.Recv.List[0]
		name := ""
		if len(r.Names) == 1 {
			name = r.Names[0].Name
		}
		if _, isPtr := r.Type.(*ast.StarExpr); isPtr {
			t.notes = append(t.notes, "pointer receiver treated as a value (read-only; a nil receiver is outside the model)")
		}
		if err := addParam(r, name, r.Type); err != nil {
			return "", err
		}
	}
	for _, fl := range fd.Type.Params.List {
		if _, isEll := fl.Type.(*ast.Ellipsis); isEll {
			return "", t.fail(fl, "variadic parameter")
		}
		if len(fl.Names) == 0 {
			if err := addParam(fl, "", fl.Type); err != nil {
				return "", err
			}
		}
		for _, nm := range fl.Names {
			if err := addParam(fl, nm.Name, fl.Type); err != nil {
				return "", err
			}
		}
	}
	var namedResults []*lvar
	var namedResultGo []string
	if fd.Type.Results != nil {
		for _, fl := range fd.Type.Results.List {
			g, err := t.ctx().resolveType(fl.Type, t.prefix)
			if err != nil {
				return "", t.fail(fl, "result: %v", err)
			}
			if g.k == kSink {
				return "", t.fail(fl, "io.ByteWriter result")
			}
			n := len(fl.Names)
			if n == 0 {
				n = 1
			}
			for i := 0; i < n; i++ {
				t.results = append(t.results, g)
				if len(fl.Names) > 0 && fl.Names[i].Name != "_" {
					t.assigned[fl.Names[i].Name] = true
					v, err := t.declare(fl, fl.Names[i].Name, g)
					if err != nil {
						return "", err
					}
					namedResults = append(namedResults, v)
					namedResultGo = append(namedResultGo, fl.Names[i].Name)
				}
			}
		}
	}
	if len(t.results) == 0 && t.sink == nil {
		return "", t.fail(fd, "function without result")
	}
	sig.results = append(sig.results, t.results...)
	if t.sink != nil {
		sig.results = append(sig.results, &gtype{k: kSlice, elem: tU8})
	}

	// body
	t.indent = 1
	if t.sink != nil {
		t.emit("let mut %s : List UInt8 := []", t.sink.lean)
	}
	for _, v := range params {
		if v.mut {
			t.emit("let mut %s := %s", v.lean, v.lean)
		}
	}
	used := identsOf(fd.Body)
	for i, v := range namedResults {
		if used[namedResultGo[i]] {
			z, err := zero(v.t)
			if err != nil {
				return "", t.fail(fd, "%v", err)
			}
			t.emit("let mut %s : %s := %s", v.lean, v.t.leanType(), z)
		}
	}
	t.push()
	if err := t.stmts(fd.Body.List); err != nil {
		return "", err
	}
	t.pop()
	if len(fd.Body.List) == 0 {
		return "", t.fail(fd, "empty body")
	}
	if !terminates(fd.Body.List[len(fd.Body.List)-1]) {
		if len(t.results) != 0 {
			return "", t.fail(fd, "function body does not end in a terminating statement of the subset")
		}
		t.emit("return %s", t.sink.lean)
	}

	// header
	var rts []string
	for _, g := range sig.results {
		rts = append(rts, parenType(g.leanType()))
	}
	rt := strings.Join(rts, " × ")
	var ps []string
	for _, v := range params {
		ps = append(ps, fmt.Sprintf("(%s : %s)", v.lean, v.t.leanType()))
	}
	sig.partial = t.partial
	var sb strings.Builder
	pos := t.p.fset.Position(fd.Pos())
	rel, _ := filepath.Rel(t.p.root, pos.Filename)
	sb.WriteString("set_option linter.unusedVariables false in\n")
	fmt.Fprintf(&sb, "/-- translated from `%s` (%s:%d).\n", t.goName, rel, pos.Line)
	if t.partial {
		sb.WriteString("Option monad: `none` means that the Go function panics.\n")
	}
	if t.sink != nil {
		fmt.Fprintf(&sb, "The io.ByteWriter `%s` is modelled as an append-only sink whose WriteByte never fails; the bytes written are the last component of the result.\n", t.sink.lean)
	}
	for _, n := range t.notes {
		sb.WriteString(n + "\n")
	}
	sb.WriteString("```go\n")
	sb.WriteString(strings.ReplaceAll(strings.ReplaceAll(t.source(fd), "-/", "- /"), "/-", "/ -")) // keep Lean's comment nesting intact
	sb.WriteString("\n```\n-/\n")
	if t.partial {
		fmt.Fprintf(&sb, "def %s %s : Option %s := do\n", sig.lean, strings.Join(ps, " "), parenType(rt))
	} else {
		fmt.Fprintf(&sb, "def %s %s : %s := Id.run do\n", sig.lean, strings.Join(ps, " "), rt)
	}
	for _, l := range t.lines {
		sb.WriteString(l + "\n")
	}
	t.p.fns[t.goName] = sig
	return sb.String(), nil
}

func (t *tr) source(fd *ast.FuncDecl) string {
	start := t.p.fset.Position(fd.Pos())
	end := t.p.fset.Position(fd.End())
	raw, err := readFileCached(start.Filename)
	if err != nil || end.Offset > len(raw) {
		return "(source unavailable)"
	}
	return string(raw[start.Offset:end.Offset])
}

// terminates: Go's terminating statements within the subset (conservative).
func terminates(s ast.Stmt) bool {
	switch s := s.(type) {
	case *ast.ReturnStmt:
		return true
	case *ast.ExprStmt:
		if c, ok := s.X.(*ast.CallExpr); ok {
			if id, ok := c.Fun.(*ast.Ident); ok && id.Name == "panic" {
				return true
			}
		}
	case *ast.BlockStmt:
		return len(s.List) > 0 && terminates(s.List[len(s.List)-1])
	case *ast.IfStmt:
		if s.Else == nil {
			return false
		}
		return terminates(s.Body) && terminates(s.Else)
	case *ast.SwitchStmt:
		hasDefault := false
		for _, c := range s.Body.List {
			cc := c.(*ast.CaseClause)
			if cc.List == nil {
				hasDefault = true
			}
			if len(cc.Body) == 0 || !terminates(cc.Body[len(cc.Body)-1]) {
				return false
			}
		}
		return hasDefault
	}
	return false
}

// ---------------------------------------------------------------- statements

func (t *tr) stmts(list []ast.Stmt) error {
	n0 := len(t.lines)
	for _, s := range list {
		if err := t.stmt(s); err != nil {
			return err
		}
	}
	if len(t.lines) == n0 {
		t.emit("pure ()")
	}
	return nil
}

func (t *tr) block(list []ast.Stmt) error {
	t.push()
	t.indent++
	err := t.stmts(list)
	t.indent--
	t.pop()
	return err
}

func (t *tr) stmt(s ast.Stmt) error {
	switch s := s.(type) {
	case *ast.EmptyStmt:
		return nil
	case *ast.BlockStmt:
		t.emit("do")
		return t.block(s.List)
	case *ast.DeclStmt:
		return t.declStmt(s)
	case *ast.AssignStmt:
		return t.assign(s)
	case *ast.IncDecStmt:
		op := token.ADD
		if s.Tok == token.DEC {
			op = token.SUB
		}
		return t.assignOp(s, s.X, op, &ast.BasicLit{Kind: token.INT, Value: "1", ValuePos: s.Pos()})
	case *ast.ExprStmt:
		if c, ok := s.X.(*ast.CallExpr); ok {
			if id, ok := c.Fun.(*ast.Ident); ok && id.Name == "panic" && t.lookup("panic") == nil {
				t.partial = true
				t.emit("Go.panic")
				return nil
			}
			if b, ok, err := t.sinkCall(c); ok {
				if err != nil {
					return err
				}
				t.emit("%s := %s ++ [%s]", t.sink.lean, t.sink.lean, b)
				return nil
			}
		}
		return t.fail(s, "expression statement outside the subset")
	case *ast.ReturnStmt:
		return t.ret(s)
	case *ast.IfStmt:
		return t.ifStmt(s)
	case *ast.SwitchStmt:
		return t.switchStmt(s)
	case *ast.ForStmt:
		return t.forStmt(s)
	case *ast.RangeStmt:
		return t.rangeStmt(s)
	case *ast.BranchStmt:
		if s.Label != nil {
			return t.fail(s, "labelled %s", s.Tok)
		}
		switch s.Tok {
		case token.BREAK, token.CONTINUE:
			if t.loops == 0 || (s.Tok == token.BREAK && t.swInLoop > 0) {
				return t.fail(s, "%s outside a loop (break inside switch is outside the subset)", s.Tok)
			}
			t.emit("%s", s.Tok.String())
			return nil
		}
		return t.fail(s, "%s outside the subset", s.Tok)
	}
	return t.fail(s, "statement %T outside the subset", s)
}

// sinkCall recognises sink.WriteByte(e); ok reports whether c has that form.
func (t *tr) sinkCall(c *ast.CallExpr) (string, bool, error) {
	sel, ok := c.Fun.(*ast.SelectorExpr)
	if !ok || t.sink == nil {
		return "", false, nil
	}
	id, ok := sel.X.(*ast.Ident)
	if !ok || t.lookup(id.Name) != t.sink {
		return "", false, nil
	}
	if sel.Sel.Name != "WriteByte" || len(c.Args) != 1 {
		return "", true, t.fail(c, "only WriteByte may be called on the io.ByteWriter")
	}
	e, err := t.expr(c.Args[0])
	if err != nil {
		return "", true, err
	}
	if e, err = t.as(c, e, tU8); err != nil {
		return "", true, err
	}
	return e.s, true, nil
}

func (t *tr) declStmt(s *ast.DeclStmt) error {
	gd := s.Decl.(*ast.GenDecl)
	switch gd.Tok {
	case token.CONST:
		for i, sp := range gd.Specs {
			vs := sp.(*ast.ValueSpec)
			if len(vs.Values) != len(vs.Names) {
				return t.fail(s, "local constant without its own value")
			}
			for j, nm := range vs.Names {
				c, err := t.ctx().evalConst(vs.Values[j], int64(i), t.constLocals(), t.prefix)
				if err != nil {
					return t.fail(vs, "local constant %s: %v", nm.Name, err)
				}
				if vs.Type != nil {
					g, err := t.ctx().resolveType(vs.Type, t.prefix)
					if err != nil {
						return t.fail(vs, "%v", err)
					}
					if c, err = convertConst(c, g); err != nil {
						return t.fail(vs, "%v", err)
					}
				}
				if t.lookup(nm.Name) != nil {
					return t.fail(vs, "declaration of %s shadows a visible local", nm.Name)
				}
				t.scopes[len(t.scopes)-1][nm.Name] = &lvar{lean: "", c: c, t: c.t}
			}
		}
		return nil
	case token.VAR:
		for _, sp := range gd.Specs {
			vs := sp.(*ast.ValueSpec)
			if len(vs.Values) != 0 && len(vs.Values) != len(vs.Names) {
				return t.fail(vs, "var with a multi-value initialiser")
			}
			var g *gtype
			if vs.Type != nil {
				var err error
				if g, err = t.ctx().resolveType(vs.Type, t.prefix); err != nil {
					return t.fail(vs, "%v", err)
				}
			}
			for j, nm := range vs.Names {
				var init string
				gt := g
				if len(vs.Values) > 0 {
					e, err := t.expr(vs.Values[j])
					if err != nil {
						return err
					}
					if gt != nil {
						e, err = t.as(vs, e, gt)
					} else {
						e, err = t.defaulted(vs, e)
					}
					if err != nil {
						return err
					}
					gt, init = e.t, e.s
				} else {
					z, err := zero(gt)
					if err != nil {
						return t.fail(vs, "%v", err)
					}
					init = z
				}
				if gt.k == kTuple || gt.k == kSink || gt.k == kRuneASCII {
					return t.fail(vs, "variable of type %s", gt)
				}
				v, err := t.declare(vs, nm.Name, gt)
				if err != nil {
					return err
				}
				t.emit("%s %s : %s := %s", letKw(v), v.lean, gt.leanType(), init)
			}
		}
		return nil
	}
	return t.fail(s, "declaration outside the subset")
}

func (t *tr) assign(s *ast.AssignStmt) error {
	switch s.Tok {
	case token.DEFINE, token.ASSIGN:
	default:
		opTok, ok := map[token.Token]token.Token{
			token.ADD_ASSIGN: token.ADD, token.SUB_ASSIGN: token.SUB, token.MUL_ASSIGN: token.MUL, token.QUO_ASSIGN: token.QUO,
			token.REM_ASSIGN: token.REM, token.AND_ASSIGN: token.AND, token.OR_ASSIGN: token.OR, token.XOR_ASSIGN: token.XOR,
			token.SHL_ASSIGN: token.SHL, token.SHR_ASSIGN: token.SHR, token.AND_NOT_ASSIGN: token.AND_NOT}[s.Tok]
		if !ok || len(s.Lhs) != 1 || len(s.Rhs) != 1 {
			return t.fail(s, "assignment operator %s", s.Tok)
		}
		return t.assignOp(s, s.Lhs[0], opTok, s.Rhs[0])
	}
	if ix, isIx := s.Lhs[0].(*ast.IndexExpr); isIx && len(s.Lhs) == 1 && len(s.Rhs) == 1 && s.Tok == token.ASSIGN {
		return t.elemAssign(s, ix, token.ILLEGAL, s.Rhs[0])
	}
	// right-hand side(s)
	var rhs []ex
	if len(s.Rhs) == 1 {
		if c, ok := s.Rhs[0].(*ast.CallExpr); ok {
			if b, isSink, err := t.sinkCall(c); isSink {
				if err != nil {
					return err
				}
				if len(s.Lhs) != 1 {
					return t.fail(s, "WriteByte has one result")
				}
				t.emit("%s := %s ++ [%s]", t.sink.lean, t.sink.lean, b)
				rhs = []ex{{s: "(none : Option String)", t: tErr}}
			}
		}
		if rhs == nil {
			e, err := t.expr(s.Rhs[0])
			if err != nil {
				return err
			}
			if e.t != nil && e.t.k == kTuple {
				if len(e.t.tuple) != len(s.Lhs) {
					return t.fail(s, "assignment count mismatch")
				}
				t.tmp++
				tmp := fmt.Sprintf("r_%d", t.tmp)
				t.emit("let %s := %s", tmp, e.s)
				for i, g := range e.t.tuple {
					proj := tmp + strings.Repeat(".2", i)
					if i < len(e.t.tuple)-1 {
						proj += ".1"
					}
					rhs = append(rhs, ex{s: proj, t: g})
				}
			} else {
				rhs = []ex{e}
			}
		}
	} else {
		if len(s.Lhs) != len(s.Rhs) {
			return t.fail(s, "assignment count mismatch")
		}
		if s.Tok == token.ASSIGN {
			return t.fail(s, "parallel assignment")
		}
		for _, r := range s.Rhs {
			e, err := t.expr(r)
			if err != nil {
				return err
			}
			rhs = append(rhs, e)
		}
	}
	if len(rhs) != len(s.Lhs) {
		return t.fail(s, "assignment count mismatch")
	}
	for i, l := range s.Lhs {
		id, ok := l.(*ast.Ident)
		if !ok {
			return t.fail(l, "assignment to %T (only local variables can be assigned; slices and structs are read-only)", l)
		}
		e := rhs[i]
		if s.Tok == token.DEFINE {
			if id.Name != "_" && t.lookup(id.Name) != nil {
				return t.fail(l, "redeclaration/shadowing of %s in :=", id.Name)
			}
			var err error
			if e, err = t.defaulted(l, e); err != nil {
				return err
			}
			if e.t.k == kTuple || e.t.k == kRuneASCII {
				return t.fail(l, "variable of type %s", e.t)
			}
			if id.Name == "_" {
				continue
			}
			v, err := t.declare(l, id.Name, e.t)
			if err != nil {
				return err
			}
			if len(s.Rhs) == len(s.Lhs) {
				if c, isCall := s.Rhs[i].(*ast.CallExpr); isCall {
					if _, isConv := c.Fun.(*ast.ArrayType); isConv && e.t.k == kSlice {
						v.fresh = true
					}
				}
			}
			t.emit("%s %s : %s := %s", letKw(v), v.lean, e.t.leanType(), e.s)
			continue
		}
		if id.Name == "_" {
			continue
		}
		v := t.lookup(id.Name)
		if v == nil || v.c != nil {
			return t.fail(l, "assignment to %s, which is not a local variable", id.Name)
		}
		if v.t.k == kSink {
			return t.fail(l, "assignment to the io.ByteWriter")
		}
		if !v.mut {
			return t.fail(l, "assignment to %s, which cannot be assigned here (loop variable?)", id.Name)
		}
		var err error
		if e, err = t.as(l, e, v.t); err != nil {
			return err
		}
		t.emit("%s := %s", v.lean, e.s)
	}
	return nil
}

// elemAssign translates `v[i] = e` / `v[i] op= e` for a fresh local slice v.
func (t *tr) elemAssign(n ast.Node, ix *ast.IndexExpr, op token.Token, rhs ast.Expr) error {
	id, ok := ix.X.(*ast.Ident)
	if !ok {
		return t.fail(ix, "assignment to an element of a non-local slice")
	}
	v := t.lookup(id.Name)
	if v == nil || v.c != nil || v.t == nil || v.t.k != kSlice || !v.fresh || !v.mut {
		return t.fail(ix, "assignment to an element of %s: only local slices created by a conversion ([]rune(s), []byte(s)) may be modified (others may alias an argument)", id.Name)
	}
	i, err := t.intIndex(ix.Index)
	if err != nil {
		return err
	}
	var val ex
	if op == token.ILLEGAL {
		if val, err = t.expr(rhs); err != nil {
			return err
		}
	} else {
		if val, err = t.binary(&ast.BinaryExpr{X: ix, Op: op, Y: rhs, OpPos: n.Pos()}); err != nil {
			return err
		}
	}
	if val, err = t.as(n, val, v.t.elem); err != nil {
		return err
	}
	t.tmp++
	iv := fmt.Sprintf("r_%d", t.tmp)
	t.partial = true
	t.emit("let %s : Int := %s", iv, i)
	t.emit("%s := (← Go.set %s %s %s)", v.lean, v.lean, iv, atom(val.s))
	return nil
}

func (t *tr) assignOp(n ast.Node, lhs ast.Expr, op token.Token, rhs ast.Expr) error {
	if ix, isIx := lhs.(*ast.IndexExpr); isIx {
		return t.elemAssign(n, ix, op, rhs)
	}
	id, ok := lhs.(*ast.Ident)
	if !ok {
		return t.fail(lhs, "assignment to %T (only local variables can be assigned)", lhs)
	}
	v := t.lookup(id.Name)
	if v == nil || v.c != nil || v.t.k == kSink {
		return t.fail(lhs, "assignment to %s, which is not a local variable", id.Name)
	}
	if !v.mut {
		return t.fail(lhs, "assignment to %s, which cannot be assigned here (loop variable?)", id.Name)
	}
	e, err := t.binary(&ast.BinaryExpr{X: lhs, Op: op, Y: rhs, OpPos: n.Pos()})
	if err != nil {
		return err
	}
	if !sameType(e.t, v.t) {
		return t.fail(n, "type mismatch in %s=", op)
	}
	t.emit("%s := %s", v.lean, e.s)
	return nil
}

// errExpr translates an expression in a position where an error value is expected.
func (t *tr) errExpr(x ast.Expr) (string, error) {
	tag := ""
	switch y := x.(type) {
	case *ast.Ident:
		if y.Name == "nil" && t.lookup("nil") == nil {
			return "(none : Option String)", nil
		}
		if v := t.lookup(y.Name); v != nil {
			if v.t == nil || v.t.k != kErr {
				return "", t.fail(x, "%s is not an error value", y.Name)
			}
			return v.lean, nil
		}
		if _, ok := t.p.vars[y.Name]; ok {
			tag = y.Name
		}
	case *ast.CallExpr:
		if sel, ok := y.Fun.(*ast.SelectorExpr); ok {
			if id, ok := sel.X.(*ast.Ident); ok && t.lookup(id.Name) == nil {
				_, path, err := t.p.importedPkg(t.f, id.Name)
				if err == nil && ((path == "fmt" && sel.Sel.Name == "Errorf") || (path == "errors" && sel.Sel.Name == "New")) {
					tag = path + "." + sel.Sel.Name
					if len(y.Args) > 0 {
						if bl, ok := y.Args[0].(*ast.BasicLit); ok && bl.Kind == token.STRING {
							c := constant.MakeFromLiteral(bl.Value, token.STRING, 0)
							tag = constant.StringVal(c)
						}
					}
				}
			}
		}
		if tag == "" {
			e, err := t.expr(x)
			if err != nil {
				return "", err
			}
			if e.t == nil || e.t.k != kErr {
				return "", t.fail(x, "expression is not an error value")
			}
			return e.s, nil
		}
	case *ast.UnaryExpr:
		if cl, ok := y.X.(*ast.CompositeLit); ok && y.Op == token.AND {
			tag = typeName(cl.Type)
		}
	case *ast.CompositeLit:
		tag = typeName(y.Type)
	}
	if tag == "" {
		return "", t.fail(x, "error expression outside the subset")
	}
	return "(some " + strconvQuote(tag) + ")", nil
}

func typeName(x ast.Expr) string {
	switch x := x.(type) {
	case *ast.Ident:
		return x.Name
	case *ast.SelectorExpr:
		return typeName(x.X) + "." + x.Sel.Name
	}
	return ""
}

func strconvQuote(s string) string {
	var sb strings.Builder
	sb.WriteByte('"')
	for _, r := range s {
		switch {
		case r == '"' || r == '\\':
			sb.WriteByte('\\')
			sb.WriteRune(r)
		case r < 32 || r > 126:
			fmt.Fprintf(&sb, "\\u{%x}", r)
		default:
			sb.WriteRune(r)
		}
	}
	sb.WriteByte('"')
	return sb.String()
}

func (t *tr) ret(s *ast.ReturnStmt) error {
	if len(s.Results) != len(t.results) {
		if len(s.Results) == 1 && len(t.results) > 1 {
			return t.fail(s, "return of a multi-value call")
		}
		return t.fail(s, "bare return / result count mismatch")
	}
	var parts []string
	for i, r := range s.Results {
		g := t.results[i]
		if g.k == kErr {
			e, err := t.errExpr(r)
			if err != nil {
				return err
			}
			parts = append(parts, e)
			continue
		}
		e, err := t.expr(r)
		if err != nil {
			return err
		}
		if e, err = t.as(r, e, g); err != nil {
			return err
		}
		parts = append(parts, e.s)
	}
	if t.sink != nil {
		parts = append(parts, t.sink.lean)
	}
	if len(parts) == 1 {
		t.emit("return %s", parts[0])
	} else {
		t.emit("return (%s)", strings.Join(parts, ", "))
	}
	return nil
}

func (t *tr) cond(x ast.Expr) (string, error) {
	e, err := t.expr(x)
	if err != nil {
		return "", err
	}
	if e, err = t.as(x, e, tBool); err != nil {
		return "", err
	}
	return e.s, nil
}

func (t *tr) ifStmt(s *ast.IfStmt) error {
	t.push()
	defer t.pop()
	if s.Init != nil {
		if err := t.stmt(s.Init); err != nil {
			return err
		}
	}
	c, err := t.cond(s.Cond)
	if err != nil {
		return err
	}
	t.emit("if %s then", c)
	if err := t.block(s.Body.List); err != nil {
		return err
	}
	switch e := s.Else.(type) {
	case nil:
	case *ast.BlockStmt:
		t.emit("else")
		if err := t.block(e.List); err != nil {
			return err
		}
	case *ast.IfStmt:
		// nested (not `else if`) so that a panicking condition is evaluated only when reached
		t.emit("else")
		t.indent++
		err := t.ifStmt(e)
		t.indent--
		if err != nil {
			return err
		}
	default:
		return t.fail(s, "else branch outside the subset")
	}
	return nil
}

func (t *tr) switchStmt(s *ast.SwitchStmt) error {
	if s.Init != nil {
		return t.fail(s, "switch with init statement")
	}
	var tag *ex
	if s.Tag != nil {
		e, err := t.expr(s.Tag)
		if err != nil {
			return err
		}
		if e, err = t.defaulted(s.Tag, e); err != nil {
			return err
		}
		switch e.t.k {
		case kBool, kUint, kInt, kStr:
		default:
			return t.fail(s.Tag, "switch on %s", e.t)
		}
		t.tmp++
		name := fmt.Sprintf("sw_%d", t.tmp)
		t.emit("let %s : %s := %s", name, e.t.leanType(), e.s)
		tag = &ex{s: name, t: e.t}
	}
	var def *ast.CaseClause
	type arm struct {
		cond string
		body []ast.Stmt
	}
	var arms []arm
	for _, c := range s.Body.List {
		cc := c.(*ast.CaseClause)
		for _, b := range cc.Body {
			if br, ok := b.(*ast.BranchStmt); ok && br.Tok == token.FALLTHROUGH {
				return t.fail(br, "fallthrough")
			}
		}
		if cc.List == nil {
			def = cc
			continue
		}
		var alts []string
		for _, x := range cc.List {
			if tag != nil {
				e, err := t.expr(x)
				if err != nil {
					return err
				}
				if e, err = t.as(x, e, tag.t); err != nil {
					return err
				}
				if e.partial {
					return t.fail(x, "case expression that can panic")
				}
				alts = append(alts, "("+tag.s+" == "+atom(e.s)+")")
			} else {
				c, err := t.cond(x)
				if err != nil {
					return err
				}
				if len(cc.List) > 1 && strings.Contains(c, "←") {
					return t.fail(x, "several case conditions that can panic")
				}
				alts = append(alts, atom(c))
			}
		}
		arms = append(arms, arm{strings.Join(alts, " || "), cc.Body})
	}
	// a `break` inside a switch would leave the switch, not a loop: outside the subset
	t.swInLoop++
	defer func() { t.swInLoop-- }()
	depth := 0
	for i, a := range arms {
		if i > 0 {
			t.emit("else")
			t.indent++
			depth++
		}
		t.emit("if %s then", a.cond)
		if err := t.block(a.body); err != nil {
			return err
		}
	}
	if def != nil {
		if len(arms) == 0 {
			t.emit("do")
		} else {
			t.emit("else")
		}
		if err := t.block(def.Body); err != nil {
			return err
		}
	}
	t.indent -= depth
	return nil
}

func (t *tr) loopBody(body *ast.BlockStmt, pre func() error) error {
	t.push()
	t.indent++
	t.loops++
	savedSw := t.swInLoop
	t.swInLoop = 0
	defer func() { t.swInLoop = savedSw }()
	n0 := len(t.lines)
	err := pre()
	if err == nil {
		for _, s := range body.List {
			if err = t.stmt(s); err != nil {
				break
			}
		}
	}
	if err == nil && len(t.lines) == n0 {
		t.emit("pure ()")
	}
	t.loops--
	t.indent--
	t.pop()
	return err
}

func (t *tr) forStmt(s *ast.ForStmt) error {
	if s.Init == nil || s.Cond == nil || s.Post == nil {
		return t.fail(s, "for loop without a syntactic bound (only `for i := a; i < b; i++` and its variants are in the subset)")
	}
	init, ok := s.Init.(*ast.AssignStmt)
	if !ok || init.Tok != token.DEFINE || len(init.Lhs) != 1 || len(init.Rhs) != 1 {
		return t.fail(s.Init, "loop initialiser outside the subset")
	}
	iv, ok := init.Lhs[0].(*ast.Ident)
	if !ok || iv.Name == "_" {
		return t.fail(s.Init, "loop initialiser outside the subset")
	}
	cond, ok := s.Cond.(*ast.BinaryExpr)
	if !ok {
		return t.fail(s.Cond, "loop condition outside the subset")
	}
	if cid, ok := cond.X.(*ast.Ident); !ok || cid.Name != iv.Name {
		return t.fail(s.Cond, "loop condition must compare the loop variable (on the left) with a bound")
	}
	up := false
	switch post := s.Post.(type) {
	case *ast.IncDecStmt:
		if pid, ok := post.X.(*ast.Ident); !ok || pid.Name != iv.Name {
			return t.fail(s.Post, "loop post statement outside the subset")
		}
		up = post.Tok == token.INC
	default:
		return t.fail(s.Post, "loop post statement outside the subset (only i++ / i--)")
	}
	body := map[string]bool{}
	collectAssigned(s.Body, body)
	if body[iv.Name] {
		return t.fail(s, "loop variable %s is assigned in the loop body", iv.Name)
	}
	for name := range identsOf(cond.Y) {
		if body[name] {
			return t.fail(s.Cond, "loop bound depends on %s, which is assigned in the loop body", name)
		}
	}
	if identsOf(cond.Y)[iv.Name] {
		return t.fail(s.Cond, "loop bound depends on the loop variable")
	}
	a, err := t.expr(init.Rhs[0])
	if err != nil {
		return err
	}
	if a, err = t.defaulted(init.Rhs[0], a); err != nil {
		return err
	}
	if a.t.k != kInt || a.t.bits != 64 {
		return t.fail(s.Init, "loop variable of type %s (only int/int64)", a.t)
	}
	b, err := t.expr(cond.Y)
	if err != nil {
		return err
	}
	bConst := b.c
	if b, err = t.as(cond.Y, b, a.t); err != nil {
		return err
	}
	var count string
	switch {
	case up && cond.Op == token.LSS:
		count = fmt.Sprintf("(%s - %s).toNat", atom(b.s), atom(a.s))
	case !up && cond.Op == token.GTR:
		count = fmt.Sprintf("(%s - %s).toNat", atom(a.s), atom(b.s))
	case up && cond.Op == token.LEQ, !up && cond.Op == token.GEQ:
		// exact only if the bound is not the extreme value of the type (the loop variable would wrap)
		lo, hi := intRange(a.t)
		if bConst == nil || constant.Compare(constant.ToInt(bConst.v), token.LEQ, lo) || constant.Compare(constant.ToInt(bConst.v), token.GEQ, hi) {
			return t.fail(s.Cond, "loop with <= / >= needs a constant bound inside the range of the type")
		}
		if up {
			count = fmt.Sprintf("(%s + 1 - %s).toNat", atom(b.s), atom(a.s))
		} else {
			count = fmt.Sprintf("(%s + 1 - %s).toNat", atom(a.s), atom(b.s))
		}
	default:
		return t.fail(s, "loop direction and condition do not match the subset")
	}
	t.tmp++
	startName := fmt.Sprintf("r_%d", t.tmp)
	t.emit("let %s : Int := %s", startName, a.s)
	t.push()
	defer t.pop()
	v, err := t.declare(s.Init, iv.Name, a.t)
	if err != nil {
		return err
	}
	v.mut = false
	k := v.lean + "_n"
	t.emit("for %s in List.range %s do", k, count)
	sign := "+"
	if !up {
		sign = "-"
	}
	return t.loopBody(s.Body, func() error {
		t.emit("let %s : Int := %s %s (%s : Int)", v.lean, startName, sign, k)
		return nil
	})
}

func (t *tr) rangeStmt(s *ast.RangeStmt) error {
	if s.Tok == token.ASSIGN {
		return t.fail(s, "range assigning to existing variables")
	}
	keyName, valName := "_", "_"
	if s.Key != nil {
		id, ok := s.Key.(*ast.Ident)
		if !ok {
			return t.fail(s.Key, "range key outside the subset")
		}
		keyName = id.Name
	}
	if s.Value != nil {
		id, ok := s.Value.(*ast.Ident)
		if !ok {
			return t.fail(s.Value, "range value outside the subset")
		}
		valName = id.Name
	}
	body := map[string]bool{}
	collectAssigned(s.Body, body)
	if (keyName != "_" && body[keyName]) || (valName != "_" && body[valName]) {
		return t.fail(s, "range variable is assigned in the loop body")
	}
	e, err := t.expr(s.X)
	if err != nil {
		return err
	}
	if e, err = t.defaulted(s.X, e); err != nil {
		return err
	}
	t.push()
	defer t.pop()
	switch e.t.k {
	case kInt:
		if s.Value != nil || e.t.bits != 64 {
			return t.fail(s, "range over integer: form outside the subset")
		}
		if keyName == "_" {
			t.tmp++
			t.emit("for _ in List.range %s.toNat do", atom(e.s))
			return t.loopBody(s.Body, func() error { return nil })
		}
		v, err := t.declare(s, keyName, tInt)
		if err != nil {
			return err
		}
		v.mut = false
		k := v.lean + "_n"
		t.emit("for %s in List.range %s.toNat do", k, atom(e.s))
		return t.loopBody(s.Body, func() error {
			t.emit("let %s : Int := (%s : Int)", v.lean, k)
			return nil
		})
	case kStr:
		// range over a string yields runes.  Iterating over the bytes instead is equivalent only if
		// the body can act on ASCII values alone: every statement of the body must be an `if`
		// (without else/init) whose condition is a disjunction of `c == <ASCII constant>`.
		if keyName != "_" || valName == "_" {
			return t.fail(s, "range over a string: only `for _, c := range s` is in the subset")
		}
		for _, st := range s.Body.List {
			is, ok := st.(*ast.IfStmt)
			if !ok || is.Init != nil || is.Else != nil || !t.asciiDisjunction(is.Cond, valName) {
				return t.fail(st, "range over a string: the body may only consist of `if c == K || … { … }` with ASCII constants K (so that bytes and runes are interchangeable)")
			}
		}
		t.notes = append(t.notes, "`range` over a string iterates over runes in Go; the body only acts when the rune equals an ASCII constant, so the translation iterates over the bytes (equivalent by the UTF-8 encoding: bytes < 0x80 occur only as ASCII runes)")
		v, err := t.declare(s, valName, tRuneA)
		if err != nil {
			return err
		}
		v.mut = false
		t.emit("for %s in %s do", v.lean, e.s)
		return t.loopBody(s.Body, func() error { return nil })
	case kSlice:
		var kv, vv *lvar
		if keyName != "_" {
			if kv, err = t.declare(s, keyName, tInt); err != nil {
				return err
			}
			kv.mut = false
		}
		if valName != "_" {
			if vv, err = t.declare(s, valName, e.t.elem); err != nil {
				return err
			}
			vv.mut = false
		}
		switch {
		case kv == nil && vv == nil:
			t.emit("for _ in %s do", e.s)
			return t.loopBody(s.Body, func() error { return nil })
		case kv == nil:
			t.emit("for %s in %s do", vv.lean, e.s)
			return t.loopBody(s.Body, func() error { return nil })
		case vv == nil:
			k := kv.lean + "_n"
			t.emit("for %s in List.range %s.length do", k, atom(e.s))
			return t.loopBody(s.Body, func() error {
				t.emit("let %s : Int := (%s : Int)", kv.lean, k)
				return nil
			})
		default:
			p := kv.lean + "_iv"
			t.emit("for %s in %s.zipIdx do", p, atom(e.s))
			return t.loopBody(s.Body, func() error {
				t.emit("let %s : Int := (%s.2 : Int)", kv.lean, p)
				t.emit("let %s : %s := %s.1", vv.lean, vv.t.leanType(), p)
				return nil
			})
		}
	}
	return t.fail(s, "range over %s", e.t)
}

// asciiDisjunction: x is `c == K` or a ||-tree of such tests with ASCII constants K.
func (t *tr) asciiDisjunction(x ast.Expr, c string) bool {
	switch x := x.(type) {
	case *ast.ParenExpr:
		return t.asciiDisjunction(x.X, c)
	case *ast.BinaryExpr:
		if x.Op == token.LOR {
			return t.asciiDisjunction(x.X, c) && t.asciiDisjunction(x.Y, c)
		}
		if x.Op != token.EQL {
			return false
		}
		l, r := x.X, x.Y
		if id, ok := r.(*ast.Ident); ok && id.Name == c {
			l, r = r, l
		}
		id, ok := l.(*ast.Ident)
		if !ok || id.Name != c {
			return false
		}
		cv, err := t.ctx().evalConst(r, -1, t.constLocals(), t.prefix)
		if err != nil || cv.v.Kind() != constant.Int {
			return false
		}
		return constant.Sign(cv.v) >= 0 && constant.Compare(cv.v, token.LSS, constant.MakeInt64(128))
	}
	return false
}

var fileCache = map[string][]byte{}

func readFileCached(path string) ([]byte, error) {
	if b, ok := fileCache[path]; ok {
		return b, nil
	}
	b, err := os.ReadFile(path)
	if err == nil {
		fileCache[path] = b
	}
	return b, err
}

// ---------------------------------------------------------------- fragments
//
// A fragment is one expression of a function that is not translatable as a whole:
//
//	name(in1:T1, in2:T2, …) cond <condition of an if statement, as printed by gofmt>
//	name(in1:T1, …) expr <variable>      the right-hand side of the first `variable := …` / `variable = …`
//
// The inputs are the free variables of the expression (an input may be a selector such as
// `params.Columns` or an index such as `w[0]`: every occurrence of that text is the input); their types
// are given in Go syntax and resolved in the package of the function.  The result is a Lean `def`
// `<prefix><Func>_<name>`.  If the locator does not match exactly one place, or the expression
// mentions anything that is neither an input nor a constant, the extraction fails.
func (t *tr) fragment(spec string) (string, error) {
	fd := t.fd
	open := strings.Index(spec, "(")
	cl := strings.Index(spec, ")")
	if open <= 0 || cl < open {
		return "", t.fail(fd, "fragment specification %q: expected name(inputs) kind locator", spec)
	}
	fname := strings.TrimSpace(spec[:open])
	rest := strings.TrimSpace(spec[cl+1:])
	var kindW, locator string
	if i := strings.IndexByte(rest, ' '); i > 0 {
		kindW, locator = rest[:i], strings.Join(strings.Fields(rest[i+1:]), " ")
	}
	if kindW != "cond" && kindW != "expr" {
		return "", t.fail(fd, "fragment specification %q: kind must be cond or expr", spec)
	}
	t.assigned = map[string]bool{}
	t.push()
	t.fragIn = map[string]*lvar{}
	var params []*lvar
	for _, in := range strings.Split(spec[open+1:cl], ",") {
		in = strings.TrimSpace(in)
		if in == "" {
			continue
		}
		c := strings.LastIndex(in, ":")
		if c <= 0 {
			return "", t.fail(fd, "fragment input %q: expected text:type", in)
		}
		text, typ := strings.TrimSpace(in[:c]), strings.TrimSpace(in[c+1:])
		te, err := parser.ParseExpr(typ)
		if err != nil {
			return "", t.fail(fd, "fragment input %q: %v", in, err)
		}
		g, err := t.ctx().resolveType(te, t.prefix)
		if err != nil {
			return "", t.fail(fd, "fragment input %q: %v", in, err)
		}
		if g.k == kSink || g.k == kErr {
			return "", t.fail(fd, "fragment input of type %s", g)
		}
		xe, err := parser.ParseExpr(text)
		if err != nil {
			return "", t.fail(fd, "fragment input %q: %v", in, err)
		}
		lean := leanIdent(strings.NewReplacer(".", "_", "[", "_", "]", "").Replace(trExprText(xe)))
		v := &lvar{lean: lean, t: g}
		t.fragIn[trExprText(xe)] = v
		params = append(params, v)
	}
	// locate the expression
	var found []ast.Expr
	ast.Inspect(fd.Body, func(n ast.Node) bool {
		switch s := n.(type) {
		case *ast.IfStmt:
			if kindW == "cond" && trExprText(s.Cond) == locator {
				found = append(found, s.Cond)
			}
		case *ast.AssignStmt:
			if kindW == "expr" && len(s.Lhs) == 1 && len(s.Rhs) == 1 && (s.Tok == token.DEFINE || s.Tok == token.ASSIGN) {
				if id, ok := s.Lhs[0].(*ast.Ident); ok && id.Name == locator && len(found) == 0 {
					found = append(found, s.Rhs[0])
				}
			}
		}
		return true
	})
	if len(found) != 1 {
		return "", t.fail(fd, "fragment %s: the locator %q matches %d places in %s (need exactly 1)", fname, locator, len(found), t.goName)
	}
	x := found[0]
	e, err := t.expr(x)
	if err != nil {
		return "", err
	}
	if kindW == "cond" {
		if e, err = t.as(x, e, tBool); err != nil {
			return "", err
		}
	} else if e, err = t.defaulted(x, e); err != nil {
		return "", err
	}
	if e.t.k == kTuple || e.t.k == kRuneASCII {
		return "", t.fail(x, "fragment of type %s", e.t)
	}
	var ps []string
	for _, v := range params {
		ps = append(ps, fmt.Sprintf("(%s : %s)", v.lean, v.t.leanType()))
	}
	lean := t.prefix + strings.ReplaceAll(t.goName, ".", "_") + "_" + fname
	pos := t.p.fset.Position(x.Pos())
	rel, _ := filepath.Rel(t.p.root, pos.Filename)
	var sb strings.Builder
	sb.WriteString("set_option linter.unusedVariables false in\n")
	fmt.Fprintf(&sb, "/-- fragment `%s` of `%s` (%s:%d): ", fname, t.goName, rel, pos.Line)
	if kindW == "cond" {
		sb.WriteString("the condition of `if` \n")
	} else {
		fmt.Fprintf(&sb, "the value assigned to `%s` \n", locator)
	}
	if t.partial {
		sb.WriteString("Option monad: `none` means that evaluating the expression panics in Go.\n")
	}
	sb.WriteString("```go\n")
	sb.WriteString(strings.ReplaceAll(strings.ReplaceAll(trExprText(x), "-/", "- /"), "/-", "/ -"))
	sb.WriteString("\n```\n-/\n")
	if t.partial {
		fmt.Fprintf(&sb, "def %s %s : Option %s := do\n  return %s\n", lean, strings.Join(ps, " "), parenType(e.t.leanType()), e.s)
	} else {
		fmt.Fprintf(&sb, "def %s %s : %s :=\n  %s\n", lean, strings.Join(ps, " "), e.t.leanType(), e.s)
	}
	return sb.String(), nil
}

package main

import (
	"fmt"
	"go/ast"
	"go/constant"
	"go/token"
	"math/big"
	"strings"
)

// structTable emits, for a slice/array literal of struct literals with keyed
// constant integer fields, the table packed into one natural number (entry i
// occupies bits [w*i, w*i+w), fields in the configured order from the most
// significant end) together with accessors:
//
//	def <p><name>_len : Nat
//	def <p><name>_packed : Nat := 0x…
//	def <p><name>_entry (i : Nat) : Nat
//	def <p><name>_<Field> (i : Nat) : Nat      -- 0 outside the table
//
// One big literal keeps both kernel evaluation (GMP shift) and elaboration cheap;
// `Array` literals of this size make `decide +kernel` take minutes.
func (e *env) structTable(prefix string, sc StructCfg) (string, error) {
	d, ok := e.decls[sc.Name]
	if !ok {
		return "", fmt.Errorf("no such variable")
	}
	cl, ok := d.(*ast.CompositeLit)
	if !ok {
		return "", fmt.Errorf("not a composite literal")
	}
	if len(sc.Fields) != len(sc.Bits) {
		return "", fmt.Errorf("config: fields and bits differ in length")
	}
	total := 0
	for _, b := range sc.Bits {
		total += b
	}
	packed := new(big.Int)
	for i, el := range cl.Elts {
		if _, keyed := el.(*ast.KeyValueExpr); keyed {
			return "", fmt.Errorf("element %d: keyed elements are not supported", i)
		}
		ecl, ok := el.(*ast.CompositeLit)
		if !ok {
			return "", fmt.Errorf("element %d is not a struct literal", i)
		}
		seen := map[string]*big.Int{}
		for _, f := range ecl.Elts {
			kv, ok := f.(*ast.KeyValueExpr)
			if !ok {
				return "", fmt.Errorf("element %d: positional struct fields are not supported", i)
			}
			id, ok := kv.Key.(*ast.Ident)
			if !ok {
				return "", fmt.Errorf("element %d: bad field key", i)
			}
			v, ok := e.eval(kv.Value, 0)
			if !ok {
				return "", fmt.Errorf("element %d: field %s is not constant", i, id.Name)
			}
			v = constant.ToInt(v)
			if v.Kind() != constant.Int || constant.Sign(v) < 0 {
				return "", fmt.Errorf("element %d: field %s is not a natural number", i, id.Name)
			}
			bi, ok := new(big.Int).SetString(v.ExactString(), 10)
			if !ok {
				return "", fmt.Errorf("element %d: field %s: bad value", i, id.Name)
			}
			seen[id.Name] = bi
		}
		entry := new(big.Int)
		used := 0
		for k, f := range sc.Fields {
			v := seen[f]
			if v == nil {
				v = new(big.Int)
			} else {
				used++
			}
			if v.BitLen() > sc.Bits[k] {
				return "", fmt.Errorf("element %d: field %s does not fit %d bits", i, f, sc.Bits[k])
			}
			entry.Lsh(entry, uint(sc.Bits[k]))
			entry.Or(entry, v)
		}
		if used != len(seen) {
			return "", fmt.Errorf("element %d has a field that is not listed in the config", i)
		}
		entry.Lsh(entry, uint(total*i))
		packed.Or(packed, entry)
	}
	n := len(cl.Elts)
	var sb strings.Builder
	name := prefix + sc.Name
	fmt.Fprintf(&sb, "def %s_len : Nat := %d\n", name, n)
	fmt.Fprintf(&sb, "def %s_packed : Nat := 0x%s\n", name, packed.Text(16))
	fmt.Fprintf(&sb, "def %s_entry (i : Nat) : Nat := (%s_packed >>> (%d * i)) %% %s\n", name, name, total,
		new(big.Int).Lsh(big.NewInt(1), uint(total)).String())
	below := total
	for k, f := range sc.Fields {
		below -= sc.Bits[k]
		fmt.Fprintf(&sb, "def %s_%s (i : Nat) : Nat := %s_entry i / %s %% %s\n", name, f, name,
			new(big.Int).Lsh(big.NewInt(1), uint(below)).String(),
			new(big.Int).Lsh(big.NewInt(1), uint(sc.Bits[k])).String())
	}
	return sb.String(), nil
}

// funcConst evaluates a constant declared inside a function body; spec is
// "Func.name" or "Recv.Func.name".
func (e *env) funcConst(prefix, spec string) (string, error) {
	i := strings.LastIndex(spec, ".")
	if i < 0 {
		return "", fmt.Errorf("funcconst %q: want Func.const", spec)
	}
	fn, cname := spec[:i], spec[i+1:]
	fd, ok := e.funcs[fn]
	if !ok || fd.Body == nil {
		return "", fmt.Errorf("funcconst %q: function not found", spec)
	}
	var val constant.Value
	found := false
	ast.Inspect(fd.Body, func(n ast.Node) bool {
		gd, ok := n.(*ast.GenDecl)
		if !ok || gd.Tok != token.CONST {
			return true
		}
		for _, sp := range gd.Specs {
			vs := sp.(*ast.ValueSpec)
			for j, nm := range vs.Names {
				if nm.Name == cname && j < len(vs.Values) && !found {
					if v, ok := e.eval(vs.Values[j], 0); ok {
						val, found = constant.ToInt(v), true
					}
				}
			}
		}
		return true
	})
	if !found || val.Kind() != constant.Int {
		return "", fmt.Errorf("funcconst %q: cannot evaluate", spec)
	}
	ty := "Nat"
	if constant.Sign(val) < 0 {
		ty = "Int"
	}
	return fmt.Sprintf("def %s%s : %s := %s\n", prefix, strings.ReplaceAll(spec, ".", "_"), ty, val.String()), nil
}

// funcLits lists the integer literals of a function body in source order
// (shift expressions of two literals are folded, so `1<<20` is one entry).
// A theorem pins the list the model was written against, so that a changed
// inline bound (e.g. `p.Colors > 60`) breaks the build.
func (e *env) funcLits(prefix, fn string) (string, error) {
	fd, ok := e.funcs[fn]
	if !ok || fd.Body == nil {
		return "", fmt.Errorf("lits %q: function not found", fn)
	}
	var out []string
	var walk func(n ast.Node) bool
	walk = func(n ast.Node) bool {
		switch x := n.(type) {
		case *ast.BinaryExpr:
			if x.Op == token.SHL {
				if _, ok1 := x.X.(*ast.BasicLit); ok1 {
					if _, ok2 := x.Y.(*ast.BasicLit); ok2 {
						if v, ok := e.eval(x, 0); ok {
							out = append(out, constant.ToInt(v).String())
							return false
						}
					}
				}
			}
		case *ast.BasicLit:
			if x.Kind == token.INT || x.Kind == token.CHAR {
				v := constant.ToInt(constant.MakeFromLiteral(x.Value, x.Kind, 0))
				out = append(out, v.String())
			}
		}
		return true
	}
	ast.Inspect(fd.Body, walk)
	return fmt.Sprintf("def %s%s_lits : List Nat := [%s]\n", prefix, strings.ReplaceAll(fn, ".", "_"), strings.Join(out, ", ")), nil
}

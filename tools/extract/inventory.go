package main

// Inventory mode (DESIGN.md 2.1 a3): for the functions named in a file's
// "inv" list ("*" = every function and method of the file) list
//
//	panic:<call>        every call of the builtin panic
//	assert:<expr>       every type assertion x.(T) whose failure panics (not the
//	                    "v, ok := x.(T)" form, not a type switch)
//	index:<expr>        every index expression a[i] (map lookups with a string
//	                    literal key are skipped: they cannot panic)
//	slice:<expr>        every slice expression a[i:j]
//	loop:<header>       every for statement that is not a three-clause counting
//	                    loop (no condition at all, or a condition whose bound is
//	                    not syntactically evident)
//	closure:<name>:<src> the normalised source of the function literals bound to
//	                    the names in "closures" (decision logic pinned verbatim)
//
// Each item gets the key "<file>:<function>:<kind>:<normalised text>"; the
// second and later occurrence of the same key in a function get "#2", "#3", ….
// The sorted key list is written as a Lean `List String`.  Props files
// compare it with a reviewed list, so that a new panic site, unchecked
// assertion, index expression or unbounded loop in an anchored function
// breaks the build until it has been reviewed.

import (
	"bytes"
	"fmt"
	"go/ast"
	"go/parser"
	"go/printer"
	"go/token"
	"os"
	"path/filepath"
	"sort"
	"strings"
)

func nodeText(fset *token.FileSet, n ast.Node) string {
	var buf bytes.Buffer
	cfg := printer.Config{Mode: printer.RawFormat}
	cfg.Fprint(&buf, fset, n)
	return strings.Join(strings.Fields(buf.String()), " ")
}

// inventoryFile returns the sorted keys for the configured functions.
func inventoryFile(e *env, fc FileCfg) []string {
	all := false
	want := map[string]bool{}
	for _, n := range fc.Inv {
		if n == "*" {
			all = true
		}
		want[n] = true
	}
	closures := map[string]bool{}
	for _, n := range fc.Closures {
		closures[n] = true
	}
	var names []string
	for name := range e.funcs {
		if all || want[name] {
			names = append(names, name)
		}
	}
	sort.Strings(names)
	for n := range want {
		if n != "*" {
			if _, ok := e.funcs[n]; !ok {
				fail("%s: inventory: function %s not found", fc.File, n)
			}
		}
	}
	var keys []string
	for _, name := range names {
		fd := e.funcs[name]
		if fd.Body == nil {
			continue
		}
		seen := map[string]int{}
		add := func(kind, text string) {
			k := fmt.Sprintf("%s:%s:%s:%s", fc.File, name, kind, text)
			seen[k]++
			if seen[k] > 1 {
				k = fmt.Sprintf("%s#%d", k, seen[k])
			}
			keys = append(keys, k)
		}
		// type assertions in "comma ok" position or in type switches do not panic
		safeAssert := map[*ast.TypeAssertExpr]bool{}
		ast.Inspect(fd.Body, func(n ast.Node) bool {
			switch x := n.(type) {
			case *ast.AssignStmt:
				if len(x.Lhs) == 2 && len(x.Rhs) == 1 {
					if ta, ok := x.Rhs[0].(*ast.TypeAssertExpr); ok {
						safeAssert[ta] = true
					}
				}
			case *ast.ValueSpec:
				if len(x.Names) == 2 && len(x.Values) == 1 {
					if ta, ok := x.Values[0].(*ast.TypeAssertExpr); ok {
						safeAssert[ta] = true
					}
				}
			}
			return true
		})
		ast.Inspect(fd.Body, func(n ast.Node) bool {
			switch x := n.(type) {
			case *ast.CallExpr:
				if id, ok := x.Fun.(*ast.Ident); ok && id.Name == "panic" {
					add("panic", nodeText(e.fset, x))
				}
			case *ast.TypeAssertExpr:
				if x.Type != nil && !safeAssert[x] {
					add("assert", nodeText(e.fset, x))
				}
			case *ast.IndexExpr:
				if lit, ok := x.Index.(*ast.BasicLit); ok && lit.Kind == token.STRING {
					return true
				}
				add("index", nodeText(e.fset, x))
			case *ast.SliceExpr:
				add("slice", nodeText(e.fset, x))
			case *ast.ForStmt:
				if !countingLoop(x) {
					hdr := "for"
					if x.Init != nil || x.Post != nil {
						hdr += " " + stmtText(e.fset, x.Init) + "; " + exprText(e.fset, x.Cond) + "; " + stmtText(e.fset, x.Post)
					} else if x.Cond != nil {
						hdr += " " + exprText(e.fset, x.Cond)
					}
					add("loop", hdr)
				}
			case *ast.AssignStmt:
				if len(x.Lhs) == 1 && len(x.Rhs) == 1 {
					if id, ok := x.Lhs[0].(*ast.Ident); ok && closures[id.Name] {
						if fl, ok := x.Rhs[0].(*ast.FuncLit); ok {
							add("closure", id.Name+":"+nodeText(e.fset, fl))
						}
					}
				}
			}
			return true
		})
	}
	sort.Strings(keys)
	return keys
}

func stmtText(fset *token.FileSet, s ast.Stmt) string {
	if s == nil {
		return ""
	}
	return nodeText(fset, s)
}

func exprText(fset *token.FileSet, x ast.Expr) string {
	if x == nil {
		return ""
	}
	return nodeText(fset, x)
}

// countingLoop recognises "for i := a; i < b; i++" style loops: init, an
// ordering comparison as condition and an inc/dec/assign post statement on the
// variable compared.
func countingLoop(f *ast.ForStmt) bool {
	if f.Init == nil || f.Cond == nil || f.Post == nil {
		return false
	}
	be, ok := f.Cond.(*ast.BinaryExpr)
	if !ok {
		return false
	}
	switch be.Op {
	case token.LSS, token.LEQ, token.GTR, token.GEQ:
	default:
		return false
	}
	id, ok := be.X.(*ast.Ident)
	if !ok {
		return false
	}
	switch p := f.Post.(type) {
	case *ast.IncDecStmt:
		pid, ok := p.X.(*ast.Ident)
		return ok && pid.Name == id.Name
	case *ast.AssignStmt:
		if len(p.Lhs) == 1 && (p.Tok == token.ADD_ASSIGN || p.Tok == token.SUB_ASSIGN) {
			pid, ok := p.Lhs[0].(*ast.Ident)
			return ok && pid.Name == id.Name
		}
	}
	return false
}

func leanString(s string) string {
	var sb strings.Builder
	sb.WriteByte('"')
	for _, r := range s {
		switch {
		case r == '"':
			sb.WriteString("\\\"")
		case r == '\\':
			sb.WriteString("\\\\")
		case r == '\n':
			sb.WriteString("\\n")
		case r == '\t':
			sb.WriteString("\\t")
		case r < 0x20 || r == 0x7f:
			fmt.Fprintf(&sb, "\\x%02x", r)
		default:
			sb.WriteRune(r)
		}
	}
	sb.WriteByte('"')
	return sb.String()
}

// inventoryLean renders the keys of one file as a Lean definition.
func inventoryLean(prefix string, keys []string) string {
	var sb strings.Builder
	fmt.Fprintf(&sb, "def %sinventory : List String := [\n", prefix)
	for i, k := range keys {
		sep := ","
		if i == len(keys)-1 {
			sep = ""
		}
		fmt.Fprintf(&sb, "  %s%s\n", leanString(k), sep)
	}
	sb.WriteString("]\n")
	return sb.String()
}

// Swallow inventory (C19): the places of a package where the result of a call
// is thrown away or an error is tested and then dropped.  Syntactic (go/ast):
//
//	discard:<stmt>   an assignment whose right-hand side is ONE call and whose last
//	                 left-hand side is the blank identifier ("x, _ := f()", "_ = f()"):
//	                 the last result of a Go function is by convention its error
//	errnil:<header>  an if statement without else whose condition requires "err == nil":
//	                 whatever the error was, the code goes on without the value
//	errdrop:<stmt>   an if statement whose condition tests "err != nil" (possibly
//	                 among other operands) and whose body neither mentions err nor
//	                 panics: continue / break / return of other values / assignments
//
// Key: "<file>:<function>:<kind>:<normalised text>", "#2", … for repetitions.  Files
// whose name starts with "verif_" (hooks for this framework) and tests are left out.
func swallowInventory(repo string, dirs []string) []string {
	var keys []string
	for _, dir := range dirs {
		ents, err := os.ReadDir(filepath.Join(repo, dir))
		if err != nil {
			fail("swallow inventory: %v", err)
		}
		for _, ent := range ents {
			n := ent.Name()
			if ent.IsDir() || !strings.HasSuffix(n, ".go") || strings.HasSuffix(n, "_test.go") || strings.HasPrefix(n, "verif_") {
				continue
			}
			fset := token.NewFileSet()
			f, err := parser.ParseFile(fset, filepath.Join(repo, dir, n), nil, parser.SkipObjectResolution)
			if err != nil {
				fail("swallow inventory: %v", err)
			}
			rel := filepath.ToSlash(filepath.Join(dir, n))
			for _, d := range f.Decls {
				fd, ok := d.(*ast.FuncDecl)
				if !ok || fd.Body == nil {
					continue
				}
				name := fd.Name.Name
				if fd.Recv != nil && len(fd.Recv.List) == 1 {
					name = recvName(fd.Recv.List[0].Type) + "." + name
				}
				seen := map[string]int{}
				add := func(kind, text string) {
					k := fmt.Sprintf("%s:%s:%s:%s", rel, name, kind, text)
					seen[k]++
					if seen[k] > 1 {
						k = fmt.Sprintf("%s#%d", k, seen[k])
					}
					keys = append(keys, k)
				}
				ast.Inspect(fd.Body, func(n ast.Node) bool {
					switch x := n.(type) {
					case *ast.AssignStmt:
						if len(x.Rhs) == 1 && len(x.Lhs) >= 1 {
							if _, isCall := x.Rhs[0].(*ast.CallExpr); isCall {
								if id, ok := x.Lhs[len(x.Lhs)-1].(*ast.Ident); ok && id.Name == "_" {
									add("discard", nodeText(fset, x))
								}
							}
						}
					case *ast.IfStmt:
						if mentionsErrNotNil(x.Cond) && !mentionsIdent(x.Body, "err") && !callsPanic(x.Body) {
							add("errdrop", "if "+nodeText(fset, x.Cond)+" { "+bodyText(fset, x.Body)+" }")
						}
						if x.Else == nil && mentionsErrIsNil(x.Cond) {
							hdr := "if "
							if x.Init != nil {
								hdr += nodeText(fset, x.Init) + "; "
							}
							add("errnil", hdr+nodeText(fset, x.Cond))
						}
					}
					return true
				})
			}
		}
	}
	sort.Strings(keys)
	return keys
}

func bodyText(fset *token.FileSet, b *ast.BlockStmt) string {
	var parts []string
	for _, s := range b.List {
		parts = append(parts, nodeText(fset, s))
	}
	t := strings.Join(parts, "; ")
	if len(t) > 160 {
		t = t[:160] + "…"
	}
	return t
}

func mentionsErrNotNil(e ast.Expr) bool {
	found := false
	ast.Inspect(e, func(n ast.Node) bool {
		if be, ok := n.(*ast.BinaryExpr); ok && be.Op == token.NEQ {
			if id, ok := be.X.(*ast.Ident); ok && (id.Name == "err" || strings.HasSuffix(id.Name, "Err") || strings.HasPrefix(id.Name, "err")) {
				if y, ok := be.Y.(*ast.Ident); ok && y.Name == "nil" {
					found = true
				}
			}
		}
		return true
	})
	return found
}

func mentionsErrIsNil(e ast.Expr) bool {
	found := false
	ast.Inspect(e, func(n ast.Node) bool {
		if be, ok := n.(*ast.BinaryExpr); ok && be.Op == token.EQL {
			if id, ok := be.X.(*ast.Ident); ok && isErrName(id.Name) {
				if y, ok := be.Y.(*ast.Ident); ok && y.Name == "nil" {
					found = true
				}
			}
		}
		return true
	})
	return found
}

// isErrName: err, err2, ferr, cerr, closeErr, ... (the error of a second resolution is often not
// called err: metadata_stream.go `if filters, ferr := c.Filters(...); ferr == nil {`)
func isErrName(name string) bool {
	name = strings.TrimRight(name, "0123456789")
	return name == "err" || strings.HasSuffix(name, "err") || strings.HasSuffix(name, "Err")
}

func mentionsIdent(n ast.Node, name string) bool {
	found := false
	ast.Inspect(n, func(n ast.Node) bool {
		if id, ok := n.(*ast.Ident); ok && (id.Name == name || strings.HasSuffix(id.Name, "Err") || (strings.HasPrefix(id.Name, "err") && id.Name != "errors")) {
			found = true
		}
		return true
	})
	return found
}

func callsPanic(n ast.Node) bool {
	found := false
	ast.Inspect(n, func(n ast.Node) bool {
		if c, ok := n.(*ast.CallExpr); ok {
			if id, ok := c.Fun.(*ast.Ident); ok && id.Name == "panic" {
				found = true
			}
		}
		return true
	})
	return found
}

// Package corpus is the self-test corpus of the Go->Lean translator
// (translate_test.go): one small function per construct of the subset.  The
// test translates this file, evaluates the generated Lean functions on test
// vectors with `lake env lean` and compares with the results of the Go
// functions below.
package corpus

import "errors"

type Kind int

const (
	KA Kind = iota + 1
	KB
	KC
	kMask = 1<<4 - 1
)

const big = 1 << 40

var errBad = errors.New("bad")

type Pt struct {
	X, Y int
	Tag  byte
	On   bool
}

func (k Kind) IsB() bool { return k == KB }

func (p Pt) Sum() int { return p.X + p.Y + int(p.Tag) }

func (p *Pt) Scaled(f int) int {
	if p.On {
		return p.Sum() * f
	}
	return -p.Sum()
}

// wrap-around of the fixed-width types
func U8Arith(a, b uint8) uint8    { return a*b + a - b ^ (a &^ b) }
func U16Arith(a, b uint16) uint16 { return (a+b)*3 - b/7 + a%5 }
func U32Bits(a, b uint32) uint32  { return ^a&b | a<<3 ^ b>>2 }
func U64Mul(a, b uint64) uint64   { return a*b + 1<<63 }
func IntArith(a, b int) int       { return a*b - a + -b }
func I32Arith(a, b int32) int32   { return a*b + a - b }
func IntBits(a, b int) int        { return a&b | a ^ b&^a }
func IntNot(a int) int            { return ^a }

// division truncates toward zero; a zero divisor panics
func IntDiv(a, b int) int     { return a / b }
func IntRem(a, b int) int     { return a % b }
func IntDivK(a int) int       { return a/7 + a%7 + a/-3 }
func U32DivK(a uint32) uint32 { return a/10 + a%10 }

// shifts: counts >= width give 0, negative signed counts panic
func ShlVar(x uint32, n uint) uint32      { return x << n }
func ShrVarSigned(x uint64, n int) uint64 { return x >> n }
func ShlInt(x int, n uint8) int           { return x << n }
func ShrInt(x int, n uint8) int           { return x >> n }
func ShlConst(x uint8) uint8              { return x<<7 | x>>3 }

// conversions
func Conv(a int, b uint8, c uint64) uint32 {
	return uint32(a) + uint32(b) + uint32(c) + uint32(uint16(a)) + uint32(byte(c))
}
func ConvSigned(a uint64, b uint32, c int32) int {
	return int(a) + int(b) + int(c) + int(int32(b))
}

// constants: typed, untyped, iota, folding of huge intermediate values
func Consts(k Kind, x int) int {
	const local = big / 1024 * 3
	if k.IsB() || k == KC {
		return x&kMask + local
	}
	return big>>38 + int(KA)
}

// control flow
func Switch(x int) int {
	r := 0
	switch x {
	case 1, 2:
		r = 10
	case 3:
		r = 20
		if x > 2 {
			r++
		}
	default:
		r = -1
	}
	switch {
	case x < 0:
		return r - 100
	case x > 100 && x%2 == 0:
		r += 1000
	}
	return r
}

func Loops(n int, buf []byte) int {
	s := 0
	for i := range n {
		if i%3 == 0 {
			continue
		}
		if i > 20 {
			break
		}
		s += i
	}
	for i := 2; i < n; i++ {
		s += i * 2
	}
	for i := n; i >= 0; i-- {
		s -= i
	}
	for i := 5; i > n; i-- {
		s += 7
	}
	for i := 0; i <= 3; i++ {
		s ^= i
	}
	for i, b := range buf {
		s += i * int(b)
	}
	for _, b := range buf {
		if b == 0 {
			break
		}
		s++
	}
	for i := range buf {
		for j := range 2 {
			s += i + j
		}
	}
	for range 3 {
		s *= 2
	}
	return s
}

// indexing, slicing, len; out-of-range panics
func Index(buf []byte, i, j int) int {
	if len(buf) == 0 {
		return -1
	}
	t := buf[i:j]
	u := buf[i:]
	return int(buf[i]) + len(t) + len(u) + len(buf[:j])
}

// short-circuit evaluation protects the index
func Short(buf []byte, i int) bool {
	return i >= 0 && i < len(buf) && buf[i] == 'x' || len(buf) > 0 && buf[0] == 'y'
}

func Str(s string) int {
	n := 0
	for _, c := range s {
		if c == '/' || c == '#' {
			n++
		}
	}
	if len(s) > 1 && s[1] == 'A' {
		n += 100
	}
	return n
}

// multiple results, errors, calls
func Two(a int) (int, bool) {
	if a < 0 {
		return 0, false
	}
	return a * 2, true
}

func UseTwo(a, b int) (res int, rerr error) {
	x, ok := Two(a)
	if !ok {
		return 0, errBad
	}
	y, ok2 := Two(b)
	if !ok2 {
		return x, errors.New("second")
	}
	if err := Check(x + y); err != nil {
		return -1, err
	}
	return min(x, y, 50) + max(x, 3), nil
}

func Check(v int) error {
	if v > 1000 {
		return &myErr{}
	}
	return nil
}

type myErr struct{}

func (*myErr) Error() string { return "x" }

func Structs(p Pt, q []Pt) int {
	s := p.Scaled(3)
	for _, e := range q {
		s += e.Sum()
	}
	if len(q) > 1 {
		s += q[1].X
	}
	return s
}

func Panics(x int) int {
	if x == 3 {
		panic("three")
	}
	return x
}

func VarDecl(a uint8) uint16 {
	var x uint16
	var y, z uint16 = 3, 4
	var w = uint16(a)
	x = y*z + w
	x <<= 2
	x |= 1
	x--
	return x
}

// conversions between strings and runes, element assignment on a fresh local slice
func RuneBump(s string, inc int) string {
	rr := []rune(s)
	if len(rr) == 0 {
		return "-"
	}
	rr[0] += rune(inc)
	rr[len(rr)-1] = rr[len(rr)-1] ^ 1
	return string(rr)
}

func RuneCount(s string) int { return len([]rune(s)) }

// switch on a string
func StrSwitch(s string) int {
	switch s {
	case "a", "bc":
		return 1
	case "":
		return 2
	}
	return 0
}

// struct literals (missing fields are zero), method call on a literal
func MkPt(a int, on bool) *Pt { return &Pt{X: a, On: on, Tag: 3} }

func UsePt(a, f int) int { return MkPt(a, a > 0).Scaled(f) + Pt{Y: 2}.Sum() }

package main

import (
	"fmt"
	"go/ast"
)

// translateFunc is filled in by translate_impl.go; placeholder keeps the
// fact extractor usable on its own.
func translateFunc(e *env, fc FileCfg, fd *ast.FuncDecl) (string, error) {
	return translateImpl(e, fc, fd)
}

var _ = fmt.Sprint

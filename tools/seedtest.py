#!/usr/bin/env python3
"""
Run the registered checks against the seeded defects kept under /verif/seeded/<name>/.

  tools/seedtest.py [--tier quick|thorough] [--only NAME[,NAME…]] [--props C01,C02]

For each seeded/<name>/ (patch.diff + meta.json with "property"): a scratch worktree of /repo's
HEAD is created outside /repo and /verif, the patch is applied there, `./check <property> <tier>`
is run with VERIF_REPO pointing at the scratch tree, and the worktree is removed again.
Nothing is ever applied to /repo itself.  Results go to seeded/RESULTS.json / RESULTS.md.
"""
import json, os, subprocess, sys, time, re

ROOT = os.path.dirname(os.path.dirname(os.path.abspath(__file__)))
SEEDED = os.path.join(ROOT, "seeded")


def main():
    tier = "quick"
    only = None
    props = None
    out = None  # separate results file for parallel runs; merge with tools/seedmerge.py
    a = sys.argv[1:]
    while a:
        x = a.pop(0)
        if x == "--tier":
            tier = a.pop(0)
        elif x == "--only":
            only = set(a.pop(0).split(","))
        elif x == "--props":
            props = set(a.pop(0).split(","))
        elif x == "--out":
            out = a.pop(0)
    results = {}
    rp = out or os.path.join(SEEDED, "RESULTS.json")
    if os.path.exists(rp):
        results = json.load(open(rp))
    names = sorted(d for d in os.listdir(SEEDED) if os.path.isdir(os.path.join(SEEDED, d)))
    for name in names:
        d = os.path.join(SEEDED, name)
        mp = os.path.join(d, "meta.json")
        if not os.path.exists(mp) or not os.path.exists(os.path.join(d, "patch.diff")):
            continue
        meta = json.load(open(mp))
        pid = meta["property"]
        if only and name not in only:
            continue
        if props and pid not in props:
            continue
        if not os.path.exists(os.path.join(ROOT, "checks.d", pid + ".json")):
            results[name] = {"property": pid, "result": "no-check"}
            continue
        wt = f"/tmp/seedtest-{os.getpid()}-{name}"
        subprocess.run(["git", "-C", "/repo", "worktree", "remove", "--force", wt], capture_output=True)
        subprocess.run(["git", "-C", "/repo", "worktree", "add", "-q", "--detach", wt, "HEAD"], check=True)
        try:
            p = subprocess.run(["git", "-C", wt, "apply", os.path.join(d, "patch.diff")], capture_output=True, text=True)
            if p.returncode != 0:
                # the tree has moved since the seed was made (fix commits): try a 3-way merge, then fuzzy patch
                p = subprocess.run(["git", "-C", wt, "apply", "--3way", os.path.join(d, "patch.diff")], capture_output=True, text=True)
                if p.returncode != 0:
                    subprocess.run(["git", "-C", wt, "checkout", "--", "."], capture_output=True)
                    p = subprocess.run(["patch", "-p1", "-s", "-F3", "--no-backup-if-mismatch", "-d", wt, "-i", os.path.join(d, "patch.diff")], capture_output=True, text=True)
                    if p.returncode != 0:
                        subprocess.run(["git", "-C", wt, "checkout", "--", "."], capture_output=True)
                if p.returncode == 0:
                    b = subprocess.run(["go", "build", "./..."], cwd=wt, env=dict(os.environ, GOFLAGS="-mod=mod", GOPROXY="off"), capture_output=True, text=True)
                    if "movie.mp4" not in (b.stdout + b.stderr) and b.returncode != 0 and "viewer-tests" not in (b.stdout + b.stderr):
                        p = subprocess.CompletedProcess([], 1, "", "merged patch does not build: " + (b.stdout + b.stderr)[-200:])
            if p.returncode != 0:
                results[name] = {"property": pid, "result": "patch-does-not-apply", "detail": p.stderr[-300:]}
                continue
            also = meta.get("also_check", [])
            res = {}
            for q in [pid] + also:
                t0 = time.time()
                env = dict(os.environ, VERIF_REPO=wt)
                p = subprocess.run(["./check", q, tier], cwd=ROOT, env=env, capture_output=True, text=True)
                out = p.stdout + p.stderr
                viol = [l for l in out.split("\n") if l.startswith("VIOLATION")]
                broken = [l[:200] for l in out.split("\n") if l.startswith("broken[")]
                how = "missed"
                if viol:
                    how = "caught: replay with failing input" if "no-failing-input-found" not in viol[0] else "caught: obligation/correspondence only (no-failing-input-found)"
                res[q] = {"exit": p.returncode, "how": how, "broken": broken[:3], "wall_s": round(time.time() - t0, 1)}
                print(f"{name:28s} {q} {tier}: exit={p.returncode} {how}", flush=True)
            results[name] = {"property": pid, "tier": tier, "checks": res,
                             "result": "caught" if any(v["exit"] == 1 for v in res.values()) else "missed"}
        finally:
            subprocess.run(["git", "-C", "/repo", "worktree", "remove", "--force", wt], capture_output=True)
            subprocess.run(["rm", "-rf", wt])
        json.dump(results, open(rp, "w"), indent=1, sort_keys=True)
    if out:
        return
    # after the runs the Generated files/harness must be rebuilt for /repo itself on the next check
    with open(os.path.join(SEEDED, "RESULTS.md"), "w") as f:
        f.write("| seeded change | property | result | how |\n|---|---|---|---|\n")
        for n in sorted(results):
            r = results[n]
            how = "; ".join(f"{q}: {v['how']}" for q, v in r.get("checks", {}).items())
            f.write(f"| {n} | {r['property']} | {r['result']} | {how} |\n")


if __name__ == "__main__":
    main()

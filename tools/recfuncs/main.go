// recfuncs lists the recursive functions of Go packages: the strongly
// connected components with a cycle of the package-local call graph.  The
// graph is syntactic (go/ast, no type information): a call f(...) or x.f(...)
// is an edge to every function or method named f declared in the same
// package, and so is a function of the package passed as an argument
// (pdf.Decode(c, obj, f)), so the list over-approximates (used by the C05 depth-attack
// review, notes/C05.md).
//
//	go run tools/recfuncs/main.go <repo> [<package dir relative to repo> ...]
//
// Without package arguments every directory with non-test Go files is listed.
package main

import (
	"fmt"
	"go/ast"
	"go/parser"
	"go/token"
	"os"
	"path/filepath"
	"sort"
	"strings"
)

func main() {
	repo := os.Args[1]
	dirs := os.Args[2:]
	if len(dirs) == 0 {
		filepath.Walk(repo, func(p string, info os.FileInfo, err error) error {
			if err != nil || !info.IsDir() {
				return nil
			}
			b := info.Name()
			if p != repo && (strings.HasPrefix(b, ".") || b == "testdata" || b == "examples" || b == "cmd" || b == "viewer-tests") {
				return filepath.SkipDir
			}
			rel, _ := filepath.Rel(repo, p)
			dirs = append(dirs, rel)
			return nil
		})
	}
	for _, d := range dirs {
		list(repo, d)
	}
}

func list(repo, dir string) {
	fset := token.NewFileSet()
	pkgs, err := parser.ParseDir(fset, filepath.Join(repo, dir), func(fi os.FileInfo) bool {
		return !strings.HasSuffix(fi.Name(), "_test.go")
	}, 0)
	if err != nil {
		return
	}
	for _, pkg := range pkgs {
		type fn struct {
			name, pos string
			body      *ast.BlockStmt
		}
		byName := map[string][]int{}
		var fns []fn
		for _, f := range pkg.Files {
			for _, decl := range f.Decls {
				fd, ok := decl.(*ast.FuncDecl)
				if !ok || fd.Body == nil {
					continue
				}
				name := fd.Name.Name
				full := name
				if fd.Recv != nil && len(fd.Recv.List) > 0 {
					t := fd.Recv.List[0].Type
					if s, ok := t.(*ast.StarExpr); ok {
						t = s.X
					}
					if ix, ok := t.(*ast.IndexExpr); ok {
						t = ix.X
					}
					if id, ok := t.(*ast.Ident); ok {
						full = id.Name + "." + name
					}
				}
				p := fset.Position(fd.Pos())
				byName[name] = append(byName[name], len(fns))
				fns = append(fns, fn{full, fmt.Sprintf("%s:%d", filepath.Base(p.Filename), p.Line), fd.Body})
			}
		}
		adj := make([][]int, len(fns))
		for i, f := range fns {
			seen := map[int]bool{}
			ast.Inspect(f.body, func(n ast.Node) bool {
				call, ok := n.(*ast.CallExpr)
				if !ok {
					return true
				}
				var callee string
				switch fun := call.Fun.(type) {
				case *ast.Ident:
					callee = fun.Name
				case *ast.SelectorExpr:
					callee = fun.Sel.Name
				}
				for _, j := range byName[callee] {
					if !seen[j] {
						seen[j] = true
						adj[i] = append(adj[i], j)
					}
				}
				// a function passed as an argument (pdf.Decode(c, obj, Font)) is called by the callee:
				// count it as an edge as well, marked with "~" in the output when such an edge closes the cycle
				for _, arg := range call.Args {
					var name string
					switch a := arg.(type) {
					case *ast.Ident:
						name = a.Name
					case *ast.SelectorExpr:
						name = a.Sel.Name
					}
					for _, j := range byName[name] {
						if !seen[j] {
							seen[j] = true
							adj[i] = append(adj[i], j)
						}
					}
				}
				return true
			})
		}
		// Tarjan
		index := make([]int, len(fns))
		low := make([]int, len(fns))
		on := make([]bool, len(fns))
		for i := range index {
			index[i] = -1
		}
		var stack []int
		next := 0
		var out []string
		var visit func(v int)
		visit = func(v int) {
			index[v], low[v] = next, next
			next++
			stack = append(stack, v)
			on[v] = true
			for _, w := range adj[v] {
				if index[w] < 0 {
					visit(w)
					low[v] = min(low[v], low[w])
				} else if on[w] {
					low[v] = min(low[v], index[w])
				}
			}
			if low[v] == index[v] {
				var comp []int
				for {
					w := stack[len(stack)-1]
					stack = stack[:len(stack)-1]
					on[w] = false
					comp = append(comp, w)
					if w == v {
						break
					}
				}
				self := false
				for _, w := range adj[v] {
					if w == v {
						self = true
					}
				}
				if len(comp) > 1 || self {
					var names []string
					for _, w := range comp {
						names = append(names, fns[w].name+"@"+fns[w].pos)
					}
					sort.Strings(names)
					out = append(out, strings.Join(names, " <-> "))
				}
			}
		}
		for i := range fns {
			if index[i] < 0 {
				visit(i)
			}
		}
		sort.Strings(out)
		for _, o := range out {
			fmt.Printf("%s: %s\n", dir, o)
		}
	}
}

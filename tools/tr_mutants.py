#!/usr/bin/env python3
import subprocess, os, re, sys, json
W='/tmp/w/translator'; REPO=W+'/repo'; V=W+'/verif'
env=dict(os.environ, GOFLAGS='-mod=mod', GOPROXY='off', VERIF_REPO=REPO)
M=[
 ('C01','scanner.go',"return c - 'a' + 10","return c - 'a' + 11"),
 ('C01','scanner.go',"case c >= 'A' && c <= 'F':","case c >= 'A' && c <= 'G':"),
 ('C01','types.go',"k := min(len(x), 5)","k := min(len(x), 4)"),
 ('C01','types.go',"uint64(generation)<<32","uint64(generation)<<31"),
 ('C01','types.go',"return len(x) >= 2 && x[0] == 'X' && x[1] == 'X'","return len(x) >= 1 && x[0] == 'X'"),
 ('C02','xref.go',"res = res<<8 | uint64(x)","res = res<<7 | uint64(x)"),
 ('C02','xref.go',"byte(x >> (i * 8))","byte(x >> (i * 4))"),
 ('C02','xref.go',"for i := w - 1; i >= 0; i--","for i := w - 1; i > 0; i--"),
 ('C02','xref.go',"if res > math.MaxInt64 {","if res > math.MaxInt64-1 {"),
 ('C09','crypto.go',"if P&(1<<(9-1)) == 0 {","if P&(1<<(10-1)) == 0 {"),
 ('C09','crypto.go',"\t\t\tforbidden |= 1 << (3 - 1)\n","\t\t\tforbidden |= 0\n"),
 ('C09','crypto.go',"if perm&PermAnnotate == 0 && perm&PermForms != 0 {","if perm&PermAnnotate == 0 && perm&PermForms == 0 {"),
 ('C09','crypto.go',"} else if P&(1<<(3-1)) != 0 && P&(1<<(12-1)) == 0 {","} else if P&(1<<(3-1)) != 0 && P&(1<<(12-1)) != 0 {"),
 ('C09','crypto.go',"\tfor i := range 16 {\n\t\tinPad","\tfor i := range 15 {\n\t\tinPad"),
 ('C09','crypto.go',"if n < 16 || n%16 != 0 {","if n < 16 || n%8 != 0 {"),
 ('C09','crypto.go',"good &= 1 ^ subtle.ConstantTimeByteEq(padByte, 0)","good &= 1"),
 ('C09','crypto.go',"\tfor i := l; i < len(s); i++ {","\tfor i := l + 1; i < len(s); i++ {"),
 ('C08','internal/filter/predict/write.go',"if pa <= pb && pa <= pc {","if pa < pb && pa <= pc {"),
 ('C08','internal/filter/predict/write.go',"p := int(a) + int(b) - int(c)","p := int(a) + int(b) - int(c) + 1"),
 ('C08','internal/filter/predict/params.go',"if p.Colors < 1 || p.Colors > 256 {","if p.Colors < 1 || p.Colors > 257 {"),
 ('C08','internal/filter/predict/params.go',"limits.MaxImageChannels * 16 / 8","limits.MaxImageChannels * 16 / 4"),
 ('C08','internal/filter/predict/params.go',"if p.Columns < 1 || p.Columns > limits.MaxImageWidth {","if p.Columns < 0 || p.Columns > limits.MaxImageWidth {"),
 ('C08','internal/limits/limits.go',"if rawLen > StreamBudgetHardCap/StreamBudgetMultiplier {","if rawLen > StreamBudgetHardCap {"),
 ('C08','internal/limits/limits.go',"bytesPerRow := (bitsPerRow + 7) / 8","bytesPerRow := bitsPerRow / 8"),
 ('C08','internal/limits/limits.go',"if size < 0 || size > MaxImageBytes {\n\t\treturn MaxImageBytes","if size > MaxImageBytes {\n\t\treturn MaxImageBytes"),
 ('C08','filter.go',"\t\tFlatePredictorPNGPaeth, FlatePredictorPNGOptimum:","\t\tFlatePredictorPNGPaeth:"),
 ('C08','filter.go',"if columns != 0 && (columns < 1 || columns > 1<<20) {","if columns != 0 && (columns < 1 || columns > 1<<21) {"),
 ('C08','filter.go',"if f.Rows < 0 || f.Rows > maxDim {","if f.Rows < 0 {"),
 ('C12','font/charcode/range.go',"len(r.Low) == 0 || len(r.Low) > 4 {","len(r.Low) == 0 || len(r.Low) > 5 {"),
 ('C12','font/charcode/range.go',"if r.Low[i] > r.High[i] {","if r.Low[i] >= r.High[i] {"),
 ('C12','font/charcode/codec.go',"if !isAdjacent || numAdjacent > 0 {","if !isAdjacent || numAdjacent > 1 {"),
 ('C12','font/charcode/codec.go',"isAdjacent := int(r.High[i])+1 == int(s.Low[i])","isAdjacent := int(r.High[i]) == int(s.Low[i])"),
 ('C12','font/charcode/codec.go',"if l := len(r.Low); l < min {","if l := len(r.Low); l > min {"),
 ('C13','font/cmap/range.go',"\t\tif first[i] > last[i] {\n\t\t\treturn false","\t\tif first[i] < last[i] {\n\t\t\treturn false"),
 ('C13','font/cmap/file.go',"span := int64(last[i]) - int64(first[i]) + 1","span := int64(last[i]) - int64(first[i])"),
 ('C13','font/cmap/file.go',"if b < first[i] || b > last[i] {","if b < first[i] || b >= last[i] {"),
 ('C13','font/cmap/file.go',"if acc > math.MaxInt32 {","if acc > math.MaxInt16 {"),
 ('C08','internal/filter/jbig2/decode.go',"\tif c/a != b {","\tif c/a < b {"),
 ('C08','internal/filter/jbig2/decode.go',"\tif c < 0 {\n\t\treturn 0, fmt.Errorf(\"jbig2: multiplication overflow","\tif c < -1 {\n\t\treturn 0, fmt.Errorf(\"jbig2: multiplication overflow"),
 ('C08','internal/filter/jbig2/decode.go',"if width > maxPixels || height > maxPixels {","if width > maxPixels {"),
 ('C08','internal/filter/jbig2/decode.go',"if rawLen > (workBudgetHardCap-workBudgetBase)/workBudgetPerByte {","if rawLen > (workBudgetHardCap - workBudgetBase) {"),
 ('C12','font/charcode/range.go',"if s[i] < r.Low[i] || s[i] > r.High[i] {","if s[i] < r.Low[i] || s[i] >= r.High[i] {"),
 ('C12','font/charcode/range.go',"\t\tif len(s) < len(r.Low) {\n\t\t\tcontinue","\t\tif len(s) <= len(r.Low) {\n\t\t\tcontinue"),
 ('C08','internal/filter/ccittfax/reader.go',"return 2*lineBufSize + columns*intBytes","return lineBufSize + columns*intBytes"),
 ('C08','filter.go',"geoMax := max(1, min(limits.MaxImageHeight, limits.MaxImagePixels/cols))","geoMax := max(2, min(limits.MaxImageHeight, limits.MaxImagePixels/cols))"),
 ('C08','filter.go',"cols := max(params.Columns, 1)","cols := max(params.Columns, 2)"),
 ('C02','xref.go',"subStart > size || subSize > size-subStart {","subStart > size || subSize > size {"),
 ('C02','xref.go',"if !ok || wi < 0 || wi > 8 {","if !ok || wi < 0 || wi > 9 {"),
 ('C13','font/cmap/tu-mapping.go',"rr[len(rr)-1] += rune(inc)","rr[0] += rune(inc)"),
 ('C15','graphics/content/state.go',"\tcase OpStroke, OpCloseAndStroke, OpFillAndStroke, OpFillAndStrokeEvenOdd,","\tcase OpStroke, OpCloseAndStroke, OpFillAndStrokeEvenOdd,"),
 ('C15','graphics/content/stream.go',"\t} else if c >= 'A' && c <= 'F' {\n\t\treturn c - 'A' + 10\n\t} else if c >= 'a'","\t} else if c >= 'A' && c <= 'F' {\n\t\treturn c - 'A' + 11\n\t} else if c >= 'a'"),
 # outside the subset after a refactor: extraction must fail loudly
 ('C01','scanner.go',"func hexDigit(c byte) byte {\n\tswitch {","func hexDigit(c byte) byte {\n\tm := map[byte]byte{}\n\t_ = m\n\tswitch {"),
]
only=sys.argv[1:] 
res=[]
for i,(pid,f,a,b) in enumerate(M):
    if only and str(i) not in only and pid not in only: continue
    path=os.path.join(REPO,f); src=open(path).read()
    if src.count(a)!=1:
        print(f"#{i} {pid} {f}: pattern occurs {src.count(a)} times: {a!r}"); continue
    open(path,'w').write(src.replace(a,b))
    try:
        p=subprocess.run(['./check',pid,'quick'],cwd=V,env=env,capture_output=True,text=True,timeout=1200)
        out=p.stdout+p.stderr
    finally:
        open(path,'w').write(src)
    kinds=sorted(set(re.findall(r"broken\[(\w+)\]",out)))
    viol=re.findall(r"VIOLATION property=\S+ replay=(\S+)( no-failing-input-found)?",out)
    oracle=''
    if viol and not viol[0][1]:
        try: oracle=json.load(open(viol[0][0])).get('key','')
        except Exception: pass
    for r in re.findall(r"replay=(\S+)",out):
        try: os.remove(r)
        except OSError: pass
    status='CAUGHT' if p.returncode!=0 and viol else 'MISSED'
    line=f"#{i} {pid} {f}: {a.strip()[:50]!r} -> {b.strip()[:50]!r}: {status} exit={p.returncode} oracle={oracle or '-'} broken={','.join(kinds) or '-'}"
    print(line,flush=True); res.append(line)
subprocess.run(['git','-C',REPO,'status','--short'])

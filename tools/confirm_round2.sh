#!/bin/bash
# confirm every finished round-2 seed in /tmp/m2/<ID>/seed<N> that is not yet in /verif/seeded
cd /verif
for d in /tmp/m2/C*/seed*; do
  [ -f $d/meta.json ] && [ -f $d/patch.diff ] || continue
  id=$(basename $(dirname $d)); n=$(basename $d | sed 's/seed//')
  name=$id-r2s$n
  [ -d seeded/$name ] && continue
  python3 tools/confirmseed.py $d $name 2>&1 | tail -1
done

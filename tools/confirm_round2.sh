#!/bin/bash
# confirm every finished round-2 seed in /tmp/m2/<ID>/seed<N> that is not yet in /verif/seeded
cd /verif
for d in /tmp/m2/C*/seed* /tmp/m3/C*/seed* /tmp/m4/C*/seed* /tmp/m5/C*/seed* /tmp/m6/C*/seed* /tmp/m7/C*/seed*; do
  [ -f $d/meta.json ] && [ -f $d/patch.diff ] || continue
  id=$(basename $(dirname $d)); n=$(basename $d | sed 's/seed//')
  r=2; case $d in /tmp/m3/*) r=3;; /tmp/m4/*) r=4;; /tmp/m5/*) r=5;; /tmp/m6/*) r=6;; /tmp/m7/*) r=7;; esac; name=$id-r${r}s$n
  [ -d seeded/$name ] && continue
  python3 tools/confirmseed.py $d $name 2>&1 | tail -1
done

#!/usr/bin/env python3
"""Rebuild checks.d/C06|C07|C08.json = filtersA's file + FB fragment (+ TR fragment modules)."""
import json, os
frag = json.load(open('/verif/checks.d/_fragments/FB.json'))
tr = {}
if os.path.exists('/verif/checks.d/_fragments/TR.json'):
    tr = json.load(open('/verif/checks.d/_fragments/TR.json'))
for pid in ('C06', 'C07', 'C08'):
    fa = json.load(open(f'/tmp/w/filtersA/verif/checks.d/{pid}.json'))
    fb = frag[pid]
    fa['props_modules'] = fa.get('props_modules', []) + [m for m in fb['props_modules'] if m not in fa.get('props_modules', [])]
    fa['assumptions'] = fa.get('assumptions', []) + fb.get('assumptions', [])
    for k in ('explanation', 'level_text', 'level_note'):
        fa[k] = (fa.get(k, '') + ' || ' + fb.get(k, '')).strip(' |')
    json.dump(fa, open(f'/verif/checks.d/{pid}.json', 'w'), indent=1)
    print(pid, fa['props_modules'])

#!/usr/bin/env python3
"""Rebuild checks.d/C06|C07|C08.json = filtersA's file + FB fragment (+ TR fragment modules)."""
import json, os
frag = json.load(open('/verif/checks.d/_fragments/FB.json'))
tr = {}
if os.path.exists('/verif/checks.d/_fragments/TR.json'):
    tr = json.load(open('/verif/checks.d/_fragments/TR.json'))
for pid in ('C06', 'C07', 'C08'):
    fa = json.load(open(f'' + os.path.join(os.path.dirname(os.path.dirname(os.path.abspath(__file__))), 'checks.d', '_fragments', 'FA-base', pid + '.json') + ''))
    fb = frag[pid]
    fa['props_modules'] = fa.get('props_modules', []) + [m for m in fb['props_modules'] if m not in fa.get('props_modules', [])]
    fa['assumptions'] = fa.get('assumptions', []) + fb.get('assumptions', [])
    for k in ('explanation', 'level_text', 'level_note'):
        fa[k] = (fa.get(k, '') + ' || ' + fb.get(k, '')).strip(' |')
    json.dump(fa, open(f'/verif/checks.d/{pid}.json', 'w'), indent=1)
    print(pid, fa['props_modules'])

# re-apply the translator fragment (modules of generated-code theorems) to every property it names
if tr:
    for pid, mods in tr.get('add_props_modules', {}).items():
        p = f'/verif/checks.d/{pid}.json'
        if not os.path.exists(p):
            continue
        c = json.load(open(p))
        pm = c.get('props_modules', [pid])
        for m in mods:
            if m not in pm:
                pm.append(m)
        c['props_modules'] = pm
        for a in tr.get('add_assumptions', []):
            if a not in c.get('assumptions', []):
                c.setdefault('assumptions', []).append(a)
        if tr.get('add_level_note') and tr['add_level_note'] not in c.get('level_note', ''):
            c['level_note'] = (c.get('level_note', '') + ' ' + tr['add_level_note']).strip()
        json.dump(c, open(p, 'w'), indent=1)

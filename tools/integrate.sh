#!/bin/bash
# tools/integrate.sh <pkg> [--apply]   — list (and with --apply copy) the files a work package
# added or changed in /tmp/w/<pkg>/verif relative to /verif; shared files are only diffed.
pkg=$1; apply=$2
src=/tmp/w/$pkg/verif
cd /verif
rsync -rcn --out-format='%n' --exclude='.build' --exclude='.lake' --exclude='.git' --exclude='evidence' --exclude='replays' --exclude='harness/go.mod' --exclude='harness/go.sum' --exclude='lean/PdfVerif/Generated' --exclude='MANIFEST.json' --exclude='lake-manifest.json' $src/ /verif/ | grep -v '/$' > /tmp/integrate-$pkg.list
shared='^(check|setup.sh|checks.json|lean/Main.lean|lean/PdfVerif.lean|lean/lakefile.toml|harness/main.go|harness/rand.go|harness/wire.go|harness/unwire.go|AGENT_GUIDE.md|DESIGN.md|KNOWN_FINDINGS.txt|tools/extract/main.go|tools/mkmanifest.py|tools/seedtest.py|tools/integrate.sh|\.gitignore)$'
# keep only files the package itself changed relative to the commit it was copied from
base=${BASE:-9d51afed25737aed747836d456fdceba92b1ff61}
: > /tmp/integrate-$pkg.own
while read f; do
  if git -C /verif cat-file -e $base:"$f" 2>/dev/null; then
    if ! git -C /verif show $base:"$f" | cmp -s - "$src/$f"; then echo "$f" >> /tmp/integrate-$pkg.own; fi
  else
    echo "$f" >> /tmp/integrate-$pkg.own
  fi
done < /tmp/integrate-$pkg.list
mv /tmp/integrate-$pkg.own /tmp/integrate-$pkg.list
echo "== new/changed files"; grep -Ev "$shared" /tmp/integrate-$pkg.list
echo "== shared files changed (merge by hand)"; grep -E "$shared" /tmp/integrate-$pkg.list
if [ "$apply" = "--apply" ]; then
  grep -Ev "$shared" /tmp/integrate-$pkg.list | while read f; do mkdir -p "$(dirname "/verif/$f")"; cp "$src/$f" "/verif/$f"; done
  echo applied
fi

#!/bin/bash
# tools/integrate.sh <pkg> [--apply]   — list (and with --apply copy) the files a work package
# added or changed in /tmp/w/<pkg>/verif relative to /verif; shared files are only diffed.
pkg=$1; apply=$2
src=/tmp/w/$pkg/verif
cd /verif
rsync -rcn --out-format='%n' --exclude='.build' --exclude='.lake' --exclude='.git' --exclude='evidence' --exclude='replays' --exclude='harness/go.mod' --exclude='harness/go.sum' --exclude='lean/PdfVerif/Generated' --exclude='MANIFEST.json' --exclude='lake-manifest.json' $src/ /verif/ | grep -v '/$' > /tmp/integrate-$pkg.list
shared='^(check|setup.sh|checks.json|lean/Main.lean|lean/PdfVerif.lean|lean/lakefile.toml|harness/main.go|harness/rand.go|harness/wire.go|harness/unwire.go|AGENT_GUIDE.md|DESIGN.md|KNOWN_FINDINGS.txt|tools/extract/main.go|tools/mkmanifest.py|tools/seedtest.py|tools/integrate.sh|\.gitignore)$'
# keep only files the package itself changed relative to the commit it was copied from
base=${BASE:-9d51afed25737aed747836d456fdceba92b1ff61}
: > /tmp/integrate-$pkg.own
while read f; do
  if git -C /verif cat-file -e $base:"$f" 2>/dev/null; then
    if ! git -C /verif show $base:"$f" | cmp -s - "$src/$f"; then echo "$f" >> /tmp/integrate-$pkg.own; fi
  else
    echo "$f" >> /tmp/integrate-$pkg.own
  fi
done < /tmp/integrate-$pkg.list
mv /tmp/integrate-$pkg.own /tmp/integrate-$pkg.list
# a package may have synced other packages' files from /verif at some earlier state: keep only
# paths that belong to the package by name
case $pkg in
  robust) pat='rob_|ROB|C05|C19|10_rob|11_rob|inventory|review/' ;;
  fileio) pat='fio|FIO|C02|C03' ;;
  trees) pat='trs|TRS|C16|C17|16_trees' ;;
  charcode) pat='cc_|CC|C12|C13|12_charcode' ;;
  crypto) pat='sec_|SEC|C09|C10|09_sec' ;;
  copier) pat='cpy|CPY|C11|11_cpy' ;;
  conc) pat='conc|CONC|C18|18_conc' ;;
  fonts) pat='fnt|FNT|C14|14_fonts' ;;
  content) pat='cnt|CNT|C15|15_content' ;;
  history) pat='his|HIS|C04|C20|40_his' ;;
  filtersA) pat='fa_|FA|C06fa|C07fa|C08fa|20_fa|notes/C0[678]' ;;
  filtersB) pat='fb_|FB|C06fb|C07fb|C08fb|20_fb|structs.go' ;;
  translator) pat='tr_|TR|tr\.lean|translate|5[01]_tr|Fn' ;;
  c01deep) pat='C01|c01|Format.lean|Scan.lean' ;;
  *) pat='.' ;;
esac
grep -E "$pat|^(check|setup.sh|checks.json|lean/Main.lean|lean/PdfVerif.lean|KNOWN_FINDINGS.txt|tools/extract/main.go)$" /tmp/integrate-$pkg.list > /tmp/integrate-$pkg.own; mv /tmp/integrate-$pkg.own /tmp/integrate-$pkg.list
echo "== new/changed files"; grep -Ev "$shared" /tmp/integrate-$pkg.list
echo "== shared files changed (merge by hand)"; grep -E "$shared" /tmp/integrate-$pkg.list
if [ "$apply" = "--apply" ]; then
  grep -Ev "$shared" /tmp/integrate-$pkg.list | while read f; do mkdir -p "$(dirname "/verif/$f")"; cp "$src/$f" "/verif/$f"; done
  echo applied
fi

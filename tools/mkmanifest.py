#!/usr/bin/env python3
"""Regenerates MANIFEST.json from checks.json (claimed properties) and properties.jsonl."""
import json, os, subprocess
ROOT = os.path.dirname(os.path.dirname(os.path.abspath(__file__)))
cfg = json.load(open(os.path.join(ROOT, "checks.json")))
props = [json.loads(l) for l in open(os.path.join(ROOT, "properties.jsonl"))]
hooks = subprocess.run(["git", "-C", "/repo", "log", "--format=%H %s"], capture_output=True, text=True).stdout.split("\n")
hook_commits = [l.split()[0] for l in hooks if "verif hook" in l]
checks, na = [], []
for p in props:
    pid = p["id"]
    pp = os.path.join(ROOT, "checks.d", pid + ".json")
    c = json.load(open(pp)) if os.path.exists(pp) else None
    if c is None or c.get("not_applicable"):
        na.append({"property_id": pid, "reason": (c or {}).get("not_applicable", "check not built yet (work in progress; see DESIGN.md section 9)")})
        continue
    checks.append({
        "property_id": pid,
        "quick_cmd": f"./check {pid} quick",
        "thorough_cmd": f"./check {pid} thorough",
        "evidence_file": f"/verif/evidence/{pid}.json",
        "replay_cmd_template": f"./check {pid} --replay {{path}}",
        "engine": "lean4-proof+correspondence",
        "level_claimed": {
            "category": "proof",
            "text": c.get("level_text", ""),
            "design_ref": c.get("design_ref", f"DESIGN.md section 5, {pid}"),
        },
        "level_note": c.get("level_note", ""),
        "technique": c.get("technique", "Lean 4 theorems over an executable model; model tied to the Go code by regenerated facts and a differential correspondence run"),
    })
m = {
    "version": 1,
    "setup_cmd": "./setup.sh",
    "hooks": {
        "guard": "verif",
        "enable": "go build -tags verif (the harness module replaces seehuhn.de/go/pdf by /repo)",
        "baseline_off_cmd": "cd /repo && GOFLAGS=-mod=mod go test -vet=off -count=1 -timeout 25m ./...",
        "source_commits": hook_commits,
        "add_only": True,
    },
    "engines": [{
        "name": "lean4-proof+correspondence",
        "path": "/verif/check",
        "serves_properties": [c["property_id"] for c in checks],
        "kind_free_text": "Lean 4 kernel-checked theorems about hand-written executable models (lean/PdfVerif); tools/extract regenerates constants/tables/functions from the Go sources on every run; harness (Go, -tags verif) runs the real code and the compiled model driver on the same generated lines and diffs; property oracles on the implementation give replays",
    }],
    "checks": checks,
    "not_applicable": na,
    "notes": "See DESIGN.md. KNOWN_FINDINGS.txt lists recorded findings and fixed defects.",
}
json.dump(m, open(os.path.join(ROOT, "MANIFEST.json"), "w"), indent=1)
print("claimed:", [c["property_id"] for c in checks])

#!/usr/bin/env python3
"""tools/seedmerge.py FILE...  merges partial result files of parallel seedtest runs into seeded/RESULTS.{json,md}"""
import json, os, sys
ROOT = os.path.dirname(os.path.dirname(os.path.abspath(__file__)))
rp = os.path.join(ROOT, "seeded", "RESULTS.json")
res = json.load(open(rp)) if os.path.exists(rp) else {}
for f in sys.argv[1:]:
    res.update(json.load(open(f)))
json.dump(res, open(rp, "w"), indent=1, sort_keys=True)
with open(os.path.join(ROOT, "seeded", "RESULTS.md"), "w") as f:
    f.write("| seeded change | property | result | how |\n|---|---|---|---|\n")
    for n in sorted(res):
        r = res[n]
        how = "; ".join(f"{q}: {v['how']}" for q, v in r.get("checks", {}).items())
        f.write(f"| {n} | {r['property']} | {r['result']} | {how} |\n")
print(len(res), "results")

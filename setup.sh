#!/bin/bash
# setup_cmd: build everything from files on disk (offline).
set -e
cd "$(dirname "$0")"
export GOFLAGS=-mod=mod GOPROXY=off
unset GOTOOLCHAIN GOSUMDB
mkdir -p .build evidence replays
( cd tools/extract && go build -o ../../.build/extract . )
mkdir -p lean/PdfVerif/Generated
.build/extract -repo "${VERIF_REPO:-/repo}" -cfg tools/extract/facts.d -out lean/PdfVerif/Generated
( cd lean && lake build )
sed "s#@REPO@#${VERIF_REPO:-/repo}#" harness/go.mod.tmpl > harness/go.mod
cp "${VERIF_REPO:-/repo}/go.sum" harness/go.sum
( cd harness && go build -tags verif -o /dev/null . )
echo setup done

package main

import (
	"bytes"
	"crypto/aes"
	"crypto/cipher"
	"crypto/sha256"
	"encoding/binary"
	"errors"
	"fmt"
	"io"
	"sort"
	"strings"

	"seehuhn.de/go/pdf"
)

// C09 — correct passwords recover everything, wrong ones nothing.

func init() {
	rule := "encrypted documents at every version 1.1..2.0 (RC4-40 R2/R3, RC4-128 R3, AES-128 R4, AES-256 R6) with user/owner passwords from a pool (empty, ASCII, Latin-1, PDFDoc specials, no PDFDoc form, SASLprep mapped/prohibited, 32/33/127/128 bytes and longer) and random ones, all 128 permission sets sampled, IDs given/partly/not given, XMP metadata none/encrypted/plaintext, strings in arrays, dictionaries, stream dictionaries and object streams, high object numbers and non-zero generations; each document is opened with the user, owner, empty and several wrong passwords. A case is one (document, password) pair; non-trivial when the document has at least one encrypted string or stream; distinct by configuration and password."
	addRun("C09", "known-answer lines for the Lean primitives against Go crypto/*", secKAT)
	addRun("C09", "crypto.go function by function against the model (password preparation, exhaustive permission tables, PKCS#7, KeyForRef, EncryptBytes/DecryptBytes, stream machines under random chunking, Algorithm 2.B, createStdSecHandler)", secUnit)
	addRun("C09", rule, runC09)
	addRun("C09", "parseEncryptDict + authenticate on valid and mutated Encrypt dictionaries", secOpenUnit)
	addRun("C09", "revision 6 documents whose user or owner password has a SASLprep form of 120..135 bytes with a 2-, 3- or 4-byte character at the 127-byte truncation boundary, opened with that password and with passwords differing from it only in that character, only before it, or only after it: an AuthenticationError is expected exactly when the forms prepared independently of crypto.go (stringprep + cut at byte 127) differ", runC09Boundary)
	addReplay("C09", "doc", replayC09Doc)
	addReplay("C09", "bytes-roundtrip", replaySecBytes)
	addReplay("C09", "stream-roundtrip", replaySecStream)
}

// secDocSeeds identifies a generated document for replay.
func secDocFromSeeds(genSeed, rngSeed uint64, idx int) *secDoc {
	gr := &Rand{s: genSeed}
	d := genSecDoc(gr, idx)
	d.write(&Rand{s: rngSeed}, gr)
	return d
}

func wrongPasswords(r *Rand, d *secDoc) []string {
	var res []string
	for _, base := range []string{d.user, d.owner} {
		if base == "" {
			continue
		}
		res = append(res, base+"x", strings.ToUpper(base), base[:len(base)-1])
		rs := []rune(base)
		if len(rs) > 1 {
			rs[0], rs[len(rs)-1] = rs[len(rs)-1], rs[0]
			res = append(res, string(rs))
		}
	}
	res = append(res, "wrong", genPassword(r), genPassword(r), Pick(r, secPwPool))
	return res
}

// c09OpenCheck opens d with pw and evaluates the property; it returns a
// violation class ("" = fine) and a description.
func c09OpenCheck(d *secDoc, pw string) (string, string) {
	exp := d.expect(pw)
	rd, err := d.open(pw)
	if rd != nil {
		defer rd.Close()
	}
	if !exp.known {
		// the password has no prepared form for this revision (no PDFDocEncoding for R <= 4,
		// rejected by SASLprep for R >= 5): it differs from both passwords, so it is a wrong
		// password like any other
		if err == nil {
			return "C09-unpreparable-password-opens", fmt.Sprintf("password %q cannot be prepared for R=%d but the file opens", pw, d.sec.R)
		}
		var ae *pdf.AuthenticationError
		if !errors.As(err, &ae) {
			return "C09-unpreparable-password-error-type", fmt.Sprintf("password %q (no prepared form for R=%d): error is %T (%v), not *AuthenticationError", pw, d.sec.R, err, err)
		}
		return "", ""
	}
	if exp.ok {
		if err != nil {
			owner := d.owner
			if owner == "" {
				owner = d.user
			}
			if pw != d.user && pw != owner {
				return "C09-equivalent-password-rejected", fmt.Sprintf("password %q equals the %s password after preparation (R=%d) but is rejected: %v", pw, map[bool]string{true: "owner", false: "user"}[exp.owner], d.sec.R, err)
			}
			return "C09-correct-password-rejected", fmt.Sprintf("password %q (owner=%v) rejected: %v", pw, exp.owner, err)
		}
		if diff := d.checkContent(rd); diff != "" {
			return "C09-content-not-recovered", fmt.Sprintf("password %q: %s", pw, diff)
		}
		want := permClosure(d.perm)
		if exp.owner {
			want = pdf.PermAll
		}
		if got := rd.GetMeta().Permissions; got != want {
			return "C09-permissions", fmt.Sprintf("password %q (owner=%v): permissions %d, want %d (requested %d)", pw, exp.owner, int(got), int(want), int(d.perm))
		}
		return "", ""
	}
	if err == nil {
		return "C09-wrong-password-opens", fmt.Sprintf("password %q differs from both passwords after preparation but opens the file", pw)
	}
	var ae *pdf.AuthenticationError
	if !errors.As(err, &ae) {
		return "C09-wrong-password-error-type", fmt.Sprintf("password %q: error is %T (%v), not *AuthenticationError", pw, err, err)
	}
	if rd != nil {
		return "C09-wrong-password-exposes-reader", "a Reader was returned together with the AuthenticationError"
	}
	return "", ""
}

func replayC09Doc(input string) (bool, string) {
	var genSeed, rngSeed uint64
	var idx int
	var pwHex string
	if _, err := fmt.Sscanf(input, "%d %d %d %s", &genSeed, &rngSeed, &idx, &pwHex); err != nil {
		return true, "bad replay input: " + err.Error()
	}
	d := secDocFromSeeds(genSeed, rngSeed, idx)
	if d.writeErr != nil {
		return true, "document could not be written: " + d.writeErr.Error()
	}
	pw := ""
	if pwHex != "-" {
		b, _ := secHexDecode(pwHex)
		pw = string(b)
	}
	key, desc := c09OpenCheck(d, pw)
	return key == "", d.describe() + ": " + desc
}

func secHexDecode(s string) ([]byte, error) {
	var b []byte
	_, err := fmt.Sscanf(s, "%x", &b)
	return b, err
}

func writerOpLine(d *secDoc) string {
	ids := "nil"
	if d.ids != nil {
		ids = hexList(d.ids)
	}
	return fmt.Sprintf("SEC writer %d %d %d %s %s %s %s %d %s %d %s", int(d.version), secB2i(d.user != ""), secB2i(d.owner != ""),
		pwPDFDoc(d.user), pwSASL(d.user), pwPDFDoc(d.owner), pwSASL(d.owner), int(d.perm), ids, secB2i(d.hasMeta && d.plainMeta),
		hexWire(append(bytes.Clone(d.rngLog[:min(len(d.rngLog), 100)]), 9, 9, 9)))
}

func openOpLine(d *secDoc, pw string) string {
	id0 := []byte(nil)
	if len(d.idsOut) > 0 {
		id0 = d.idsOut[0]
	}
	return fmt.Sprintf("SEC open %s %d %s %s %s %d %s %s", wire(d.encDict), len(d.idsOut), hexWire(id0),
		pwPDFDoc(""), pwSASL(""), secB2i(pw != ""), pwPDFDoc(pw), pwSASL(pw))
}

func runC09(c *Ctx) {
	nDocs := 40
	if c.Thorough {
		nDocs = 400
	}
	r := c.R.Fork()
	r6budget := 6
	if c.Thorough {
		r6budget = 60
	}
	for i := 0; i < nDocs; i++ {
		genSeed, rngSeed := r.U64(), r.U64()
		gr := &Rand{s: genSeed}
		d := genSecDoc(gr, i)
		if d.version >= pdf.V2_0 {
			if r6budget == 0 {
				continue
			}
			r6budget--
		}
		d.write(&Rand{s: rngSeed}, gr)
		c.Stat("doc-version-" + verName(d.version))

		// correspondence: the encryption set-up of NewWriter
		op := writerOpLine(d)
		if d.writeErr != nil && d.sec == nil {
			// NewWriter itself failed (e.g. a password without PDFDocEncoding at R<=4)
			c.Emit(op, "err "+errClass(d.writeErr))
			c.Stat("doc-newwriter-err")
			continue
		}
		if d.writeErr != nil {
			c.Violate("doc", "C09-write-failed", d.describe()+": "+d.writeErr.Error(), fmt.Sprintf("%d %d %d -", genSeed, rngSeed, i))
			continue
		}
		c.Emit(op, fmt.Sprintf("ok ids=%s dict=%s key=%s used=%d", hexList(d.idsOut), wire(d.encDict), hexWire(d.sec.Key), d.setupUsed))
		c.Stat(fmt.Sprintf("doc-R%d-%s", d.sec.R, d.strF))
		if i < 4 {
			c.Sample(d.describe())
		}

		// the property on the implementation, password by password
		pws := append([]string{d.user, d.owner, ""}, wrongPasswords(r, d)...)
		seen := map[string]bool{}
		for _, pw := range pws {
			if seen[pw] {
				continue
			}
			seen[pw] = true
			key, desc := c09OpenCheck(d, pw)
			exp := d.expect(pw)
			switch {
			case !exp.known:
				c.Stat("open-unpreparable")
			case exp.ok && exp.owner:
				c.Stat("open-owner")
			case exp.ok:
				c.Stat("open-user")
			default:
				c.Stat("open-wrong")
			}
			c.Case(fmt.Sprintf("%s|%x", d.describe(), pw), len(d.written) > 0)
			if key != "" {
				c.Violate("doc", key, d.describe()+": "+desc, fmt.Sprintf("%d %d %d %s", genSeed, rngSeed, i, hexWire([]byte(pw))))
			}
		}

		// correspondence: parseEncryptDict + authenticate for some of the passwords
		nOpen := len(pws)
		if d.sec.R == 6 && nOpen > 4 {
			nOpen = 4 // Algorithm 2.B is slow in the model
		}
		seen = map[string]bool{}
		for _, pw := range pws[:nOpen] {
			if seen[pw] {
				continue
			}
			seen[pw] = true
			rd, err := d.open(pw)
			if err != nil {
				c.Emit(openOpLine(d, pw), "err "+errClass(err))
				continue
			}
			e := pdf.VerifReaderEnc(rd)
			sec := e.Sec()
			c.Emit(openOpLine(d, pw), fmt.Sprintf("ok perm=%d key=%s str=%s stm=%s um=%d", int(rd.GetMeta().Permissions), hexWire(sec.Key), e.StrF(), e.StmF(), secB2i(sec.UnencMeta)))
			rd.Close()
		}

		// correspondence: every stored string and stream against the model's per-object functions
		c09ObjectLines(c, d)
	}
}

// c09ObjectLines reads the file once normally and once with the crypt
// filters dropped (stored bytes) and emits decbytes/encbytes/decstream lines.
func c09ObjectLines(c *Ctx, d *secDoc) {
	pw := d.user
	rd, err := d.open(pw)
	if err != nil {
		return
	}
	defer rd.Close()
	raw, err := d.open(pw)
	if err != nil {
		return
	}
	defer raw.Close()
	pdf.VerifReaderEnc(raw).DropFilters()
	sec := pdf.VerifReaderEnc(rd).Sec()
	ciph, _ := cipherOfCF(pdf.VerifReaderEnc(rd).StrF())
	keyS := hexWire(sec.Key)
	for _, wo := range d.written {
		if wo.inObjStm {
			continue
		}
		rawObj, err := raw.Get(wo.ref, false)
		if err != nil {
			continue
		}
		var pairs []strPair
		if err := collectPairs(wo.ref, wo.obj, rawObj, &pairs); err != nil {
			c.Stat("raw-shape-mismatch")
			continue
		}
		num, gen := wo.ref.Number(), wo.ref.Generation()
		for _, p := range pairs {
			c.Emit(fmt.Sprintf("SEC decbytes %s %d %d %s %d %d %s", ciph, sec.R, sec.KeyBytes, keyS, num, gen, hexWire(p.stored)), "ok "+hexWire(p.plain))
			iv := []byte{}
			if ciph == "aes" && len(p.stored) >= 16 {
				iv = p.stored[:16]
			}
			c.Emit(fmt.Sprintf("SEC encbytes %s %d %d %s %d %d %s %s", ciph, sec.R, sec.KeyBytes, keyS, num, gen, hexWire(iv), hexWire(p.plain)),
				fmt.Sprintf("ok %s used=%d", hexWire(p.stored), len(iv)))
			c.Stat("string-line")
		}
		if wo.isStream && !wo.cryptIdent {
			stm, ok := rawObj.(*pdf.Stream)
			if !ok {
				continue
			}
			stored, _ := io.ReadAll(stm.NewReader())
			// what the crypt layer yields (before /Filter decoding), by the real code
			dr, err := pdf.VerifReaderEnc(rd).DecryptStream(wo.ref, bytes.NewReader(stored))
			var dec []byte
			if err == nil {
				dec, err = io.ReadAll(dr)
			}
			c.Emit(fmt.Sprintf("SEC decstream %s %d %d %s %d %d %s . 0 .", ciph, sec.R, sec.KeyBytes, keyS, num, gen, hexWire(stored)), showBytesRes(dec, err))
			c.Stat("stream-line")
		}
	}
}

// ---- parseEncryptDict on valid and mutated dictionaries ----

func secOpenUnit(c *Ctx) {
	r := c.R.Fork()
	n := 120
	if c.Thorough {
		n = 1500
	}
	r6 := 4
	if c.Thorough {
		r6 = 40
	}
	for i := 0; i < n; i++ {
		V := Pick(r, []int{1, 2, 2, 4, 4, 5})
		rev5 := r.P(1, 6) // revision 5 is cheap in the model (no Algorithm 2.B)
		if rev5 {
			V = 5
		} else if V == 5 {
			if r6 == 0 {
				V = 4
			} else {
				r6--
			}
		}
		length := 40
		switch V {
		case 2:
			length = Pick(r, []int{40, 48, 64, 96, 128})
		case 4:
			length = 128
		case 5:
			length = 256
		}
		user, owner := Pick(r, []string{"", "u", "user", "päss"}), Pick(r, []string{"", "o", "owner"})
		perm := pdf.Perm(r.Intn(128))
		um := V >= 4 && r.P(1, 3)
		id := r.Bytes(16)
		var sec *pdf.VerifSec
		var err error
		withRecRand(r, func(rec *recRand) {
			sec, err = pdf.VerifCreateStdSec(id, user, owner, perm, length, V, um)
		})
		if err != nil {
			continue
		}
		dict := pdf.Dict{
			"Filter": pdf.Name("Standard"),
			"V":      pdf.Integer(V),
			"R":      pdf.Integer(sec.R),
			"O":      pdf.String(sec.O),
			"U":      pdf.String(sec.U),
			"P":      pdf.Integer(int32(sec.P)),
		}
		if V == 2 {
			dict["Length"] = pdf.Integer(length)
		}
		if V >= 4 {
			cfm := map[int]string{4: "AESV2", 5: "AESV3"}[V]
			dict["StmF"] = pdf.Name("StdCF")
			dict["StrF"] = pdf.Name("StdCF")
			dict["CF"] = pdf.Dict{"StdCF": pdf.Dict{"CFM": pdf.Name(cfm), "Length": pdf.Integer(length)}}
		}
		if um {
			dict["EncryptMetadata"] = pdf.Boolean(false)
		}
		if sec.R == 6 {
			dict["OE"] = pdf.String(sec.OE)
			dict["UE"] = pdf.String(sec.UE)
			dict["Perms"] = pdf.String(sec.Perms)
		}
		if rev5 {
			// the deprecated revision 5 (Adobe extension level 3): the Writer never produces it,
			// the Reader accepts it; fields made here from its description (one SHA-256, no 2.B)
			secR5Fields(r, dict, user, owner, um, sec.P)
		}
		ids := [][]byte{id, id}
		mut := "valid"
		if i%3 != 0 {
			mut = secMutateDict(r, dict, &ids)
		}
		pw := Pick(r, []string{user, owner, "", "wrong", "u", "owner"})
		var e *pdf.VerifEncInfo
		var pm pdf.Perm
		func() {
			defer func() {
				if p := recover(); p != nil {
					err = fmt.Errorf("panic: %v", p)
					c.Violate("open-panic", "C09-parseEncryptDict-panic", fmt.Sprintf("%s: %v", mut, p), wire(dict))
				}
			}()
			e, pm, err = pdf.VerifParseEncryptDict(dict, ids, pw)
		}()
		id0 := []byte(nil)
		if len(ids) > 0 {
			id0 = ids[0]
		}
		op := fmt.Sprintf("SEC open %s %d %s %s %s %d %s %s", wire(dict), len(ids), hexWire(id0), pwPDFDoc(""), pwSASL(""), secB2i(pw != ""), pwPDFDoc(pw), pwSASL(pw))
		c.Stat("open-mut-" + mut)
		if rev5 {
			c.Stat("open-unit-R5-" + errClass(err))
		}
		if err != nil {
			c.Emit(op, "err "+errClass(err))
			c.Stat("open-unit-" + errClass(err))
			continue
		}
		s := e.Sec()
		c.Emit(op, fmt.Sprintf("ok perm=%d key=%s str=%s stm=%s um=%d", int(pm), hexWire(s.Key), e.StrF(), e.StmF(), secB2i(s.UnencMeta)))
		c.Stat("open-unit-ok")
		if rev5 && mut == "valid" {
			// tampering with any byte of /P must be noticed through /Perms (Algorithm 13)
			pv := dict["P"].(pdf.Integer)
			for b := 0; b < 4; b++ {
				dict["P"] = pdf.Integer(int32(uint32(pv) ^ 1<<uint(8*b+r.Intn(8))))
				_, _, err := pdf.VerifParseEncryptDict(dict, ids, pw)
				op := fmt.Sprintf("SEC open %s %d %s %s %s %d %s %s", wire(dict), len(ids), hexWire(id0), pwPDFDoc(""), pwSASL(""), secB2i(pw != ""), pwPDFDoc(pw), pwSASL(pw))
				if err != nil {
					c.Emit(op, "err "+errClass(err))
				} else {
					c.Emit(op, "ok tampered /P accepted")
					c.Violate("open-tamper", "C09-tampered-P-accepted", "a /P with one bit flipped authenticates for revision 5/6", wire(dict))
				}
				c.Stat("open-unit-P-tamper")
			}
			dict["P"] = pv
		}
	}
}

func secMutateDict(r *Rand, d pdf.Dict, ids *[][]byte) string {
	keys := make([]string, 0, len(d))
	for k := range d {
		keys = append(keys, string(k))
	}
	sort.Strings(keys)
	switch r.Intn(17) {
	case 0:
		k := Pick(r, keys)
		delete(d, pdf.Name(k))
		return "drop"
	case 1:
		k := Pick(r, keys)
		d[pdf.Name(k)] = Pick(r, []pdf.Object{pdf.Integer(7), pdf.Name("X"), pdf.String("s"), pdf.Boolean(true), pdf.Dict{}, pdf.Array{}})
		return "retype"
	case 2:
		d["R"] = pdf.Integer(Pick(r, []int{0, 1, 2, 3, 4, 5, 6, 7, -1}))
		return "R"
	case 3:
		d["V"] = pdf.Integer(Pick(r, []int{0, 1, 2, 3, 4, 5, 6}))
		return "V"
	case 4:
		k := pdf.Name(Pick(r, []string{"O", "U"}))
		if s, ok := d[k].(pdf.String); ok {
			switch r.Intn(3) {
			case 0:
				d[k] = pdf.String(append(bytes.Clone(s), make([]byte, 1+r.Intn(9))...))
			case 1:
				d[k] = pdf.String(append(bytes.Clone(s), 0, 0, 1))
			default:
				d[k] = s[:len(s)-1-r.Intn(3)]
			}
		}
		return "OU-length"
	case 5:
		d["Length"] = pdf.Integer(Pick(r, []int{0, 32, 39, 40, 41, 44, 48, 128, 136, 256, -8}))
		return "Length"
	case 6:
		if cf, ok := d["CF"].(pdf.Dict); ok {
			if std, ok := cf["StdCF"].(pdf.Dict); ok {
				std["CFM"] = pdf.Name(Pick(r, []string{"V2", "AESV2", "AESV3", "None", "Identity"}))
			}
		}
		return "CFM"
	case 7:
		d[pdf.Name(Pick(r, []string{"StmF", "StrF", "EFF"}))] = pdf.Name(Pick(r, []string{"Identity", "StdCF", "Other", ""}))
		return "selector"
	case 8:
		d["Filter"] = pdf.Name(Pick(r, []string{"Standard", "Adobe.PubSec", ""}))
		return "Filter"
	case 9:
		d["EncryptMetadata"] = pdf.Boolean(r.Bool())
		return "EncryptMetadata"
	case 10:
		switch r.Intn(3) {
		case 0:
			*ids = nil
		case 1:
			*ids = (*ids)[:1]
		default:
			*ids = append(*ids, []byte("third"))
		}
		return "ids"
	case 11:
		d["P"] = pdf.Integer(Pick(r, []int64{0, -1, -3904, 4294963392, 1 << 40, -(1 << 40), int64(int32(r.U64()))}))
		return "P"
	case 12:
		k := pdf.Name(Pick(r, []string{"OE", "UE", "Perms"}))
		if s, ok := d[k].(pdf.String); ok && len(s) > 0 {
			if r.Bool() {
				d[k] = s[:len(s)-1]
			} else {
				t := bytes.Clone(s)
				t[r.Intn(len(t))] ^= 0x40
				d[k] = pdf.String(t)
			}
		}
		return "R6-strings"
	case 13:
		// Algorithm 5 (f): the last 16 bytes of /U are arbitrary padding for R 3 and 4
		if s, ok := d["U"].(pdf.String); ok && len(s) == 32 {
			t := bytes.Clone(s)
			copy(t[16:], r.Bytes(16))
			d["U"] = pdf.String(t)
		}
		return "U-padding"
	case 14, 15:
		// one permission bit flipped: R 6 must notice through /Perms, R <= 4 through the key
		if pv, ok := d["P"].(pdf.Integer); ok {
			d["P"] = pdf.Integer(int32(uint32(pv) ^ 1<<uint(r.Intn(32))))
		}
		return "P-bit"
	default:
		delete(d, "CF")
		return "no-CF"
	}
}

func replaySecBytes(input string) (bool, string) {
	var ciph, keyS, plainS string
	var R, kb int
	var num, gen uint32
	if _, err := fmt.Sscanf(input, "%s %d %d %s %d %d %s", &ciph, &R, &kb, &keyS, &num, &gen, &plainS); err != nil {
		return true, "bad replay input"
	}
	key, _ := secHexDecode(keyS)
	plain, _ := secHexDecode(plainS)
	if plainS == "-" {
		plain = nil
	}
	enc := pdf.VerifNewEncInfo(ciph, R, kb, key)
	ref := pdf.Reference(uint64(num) | uint64(gen)<<32)
	ct, err := enc.EncryptBytes(ref, bytes.Clone(plain))
	if err != nil {
		return true, "EncryptBytes: " + err.Error()
	}
	back, err := enc.DecryptBytes(ref, ct)
	return err == nil && bytes.Equal(back, plain), fmt.Sprintf("decrypt(encrypt(%x)) = %x, %v", plain, back, err)
}

func replaySecStream(input string) (bool, string) {
	var ciph, keyS, plainS string
	var R, kb int
	var num, gen uint32
	if _, err := fmt.Sscanf(input, "%s %d %d %s %d %d %s", &ciph, &R, &kb, &keyS, &num, &gen, &plainS); err != nil {
		return true, "bad replay input"
	}
	key, _ := secHexDecode(keyS)
	plain, _ := secHexDecode(plainS)
	if plainS == "-" {
		plain = nil
	}
	enc := pdf.VerifNewEncInfo(ciph, R, kb, key)
	ref := pdf.Reference(uint64(num) | uint64(gen)<<32)
	var out nopWC
	w, err := enc.EncryptStream(ref, &out)
	if err != nil {
		return true, "EncryptStream: " + err.Error()
	}
	w.Write(plain)
	w.Close()
	dr, err := enc.DecryptStream(ref, bytes.NewReader(out.Bytes()))
	var back []byte
	if err == nil {
		back, err = io.ReadAll(dr)
	}
	return err == nil && bytes.Equal(back, plain), fmt.Sprintf("decrypt(encrypt(%x)) = %x, %v", plain, back, err)
}

// secR5Fields replaces /R /O /U /OE /UE /Perms by revision 5 values.
func secR5Fields(r *Rand, dict pdf.Dict, user, owner string, unencMeta bool, P uint32) {
	if owner == "" {
		owner = user
	}
	pu, err1 := pdf.VerifUtf8Passwd(user)
	po, err2 := pdf.VerifUtf8Passwd(owner)
	if err1 != nil || err2 != nil {
		return
	}
	h := func(parts ...[]byte) []byte {
		hh := sha256.New()
		for _, p := range parts {
			hh.Write(p)
		}
		return hh.Sum(nil)
	}
	cbcNoPad := func(key, data []byte) []byte {
		c, _ := aes.NewCipher(key)
		out := make([]byte, len(data))
		cipher.NewCBCEncrypter(c, make([]byte, 16)).CryptBlocks(out, data)
		return out
	}
	fileKey := r.Bytes(32)
	us, os := r.Bytes(16), r.Bytes(16)
	U := append(h(pu, us[:8]), us...)
	UE := cbcNoPad(h(pu, us[8:]), fileKey)
	O := append(h(po, os[:8], U), os...)
	OE := cbcNoPad(h(po, os[8:], U), fileKey)
	perms := make([]byte, 16)
	binary.LittleEndian.PutUint32(perms, P)
	copy(perms[4:], []byte{255, 255, 255, 255, 'T', 'a', 'd', 'b'})
	if unencMeta {
		perms[8] = 'F'
	}
	copy(perms[12:], r.Bytes(4))
	c, _ := aes.NewCipher(fileKey)
	c.Encrypt(perms, perms)
	dict["R"] = pdf.Integer(5)
	dict["U"] = pdf.String(U)
	dict["UE"] = pdf.String(UE)
	dict["O"] = pdf.String(O)
	dict["OE"] = pdf.String(OE)
	dict["Perms"] = pdf.String(perms)
}

func runC09Boundary(c *Ctx) {
	n := 6
	if c.Thorough {
		n = 60
	}
	r := c.R.Fork()
	for i := 0; i < n; i++ {
		genSeed, rngSeed := r.U64(), r.U64()
		idx := secBoundaryIdx + i
		d := secDocFromSeeds(genSeed, rngSeed, idx)
		if d.writeErr != nil {
			c.Violate("doc", "C09-write-failed", d.describe()+": "+d.writeErr.Error(), fmt.Sprintf("%d %d %d -", genSeed, rngSeed, idx))
			continue
		}
		pws := append([]string{d.user, d.owner, ""}, d.boundary...)
		seen := map[string]bool{}
		for _, pw := range pws {
			if seen[pw] {
				continue
			}
			seen[pw] = true
			// the library's own preparation against the model (cheap lines)
			b, err := pdf.VerifUtf8Passwd(pw)
			c.Emit("SEC utf8 "+pwSASL(pw), showBytesRes(b, err))
			exp := d.expect(pw)
			switch {
			case !exp.known:
				c.Stat("boundary-unpreparable")
			case exp.ok && pw != d.user && pw != d.owner:
				c.Stat("boundary-equivalent-opens")
			case exp.ok:
				c.Stat("boundary-correct")
			default:
				c.Stat("boundary-wrong")
			}
			c.Case(fmt.Sprintf("boundary|%x|%x|%x", d.user, d.owner, pw), true)
			if key, desc := c09OpenCheck(d, pw); key != "" {
				c.Violate("doc", key, d.describe()+": "+desc, fmt.Sprintf("%d %d %d %s", genSeed, rngSeed, idx, hexWire([]byte(pw))))
			}
		}
	}
}

package main

import (
	"bytes"
	"fmt"

	"seehuhn.de/go/pdf"
)

// ---- CCITTFax (internal/filter/ccittfax through FilterCCITTFax) ----

type fbCC struct {
	cols, k, rows    int
	eol, align       bool
	blackIs1, ignEOB bool
}

func (p fbCC) flags() string {
	s := ""
	if p.eol {
		s += "e"
	}
	if p.align {
		s += "a"
	}
	if p.blackIs1 {
		s += "b"
	}
	if p.ignEOB {
		s += "i"
	}
	if s == "" {
		s = "-"
	}
	return s
}

func (p fbCC) String() string { return fmt.Sprintf("%d %d %d %s", p.cols, p.k, p.rows, p.flags()) }

func (p fbCC) filter() pdf.FilterCCITTFax {
	return pdf.FilterCCITTFax{K: p.k, EndOfLine: p.eol, EncodedByteAlign: p.align, Columns: p.cols, Rows: p.rows,
		IgnoreEndOfBlock: p.ignEOB, BlackIs1: p.blackIs1}
}

func fbCCOf(cols, k, rows int, flags string) fbCC {
	has := func(c byte) bool { return bytes.IndexByte([]byte(flags), c) >= 0 }
	return fbCC{cols: cols, k: k, rows: rows, eol: has('e'), align: has('a'), blackIs1: has('b'), ignEOB: has('i')}
}

func (p fbCC) effCols() int {
	if p.cols == 0 {
		return 1728
	}
	return p.cols
}

func (p fbCC) lineBytes() int { return (p.effCols() + 7) / 8 }

func fbPix(row []byte, x int) byte { return (row[x/8] >> (7 - x%8)) & 1 }

// fbRuns returns the run lengths of a row, alternating, white first (may start with 0).
func fbRuns(row []byte, cols int, white byte) []int {
	var runs []int
	cur := white
	n := 0
	for x := 0; x < cols; x++ {
		if fbPix(row, x) == cur {
			n++
		} else {
			runs = append(runs, n)
			cur ^= 1
			n = 1
		}
	}
	return append(runs, n)
}

// fbRunCodes: number of code words encode1DRun emits for a run.
func fbRunCodes(l int) int {
	n := l/2560 + 1
	if l%2560 >= 64 {
		n++
	}
	return n
}

// fbCCClass names the known failing class (D10 and the two data dependent ones found while
// modelling) an input belongs to, "" if it must round-trip.  The first matching class wins.
//
//	ccitt-noeob            IgnoreEndOfBlock: without EOFB/RTC the reader's look-ahead runs into the
//	                       end of the data and drops the last row(s)
//	ccitt-bytealign        EncodedByteAlign without (K>=0 and EndOfLine): the reader never skips the
//	                       fill bits (with EOL they are skipped as part of the EOL search)
//	ccitt-kpos-rows        K>0, EndOfBlock, number of rows written != Rows (incl. Rows=0): the RTC of
//	                       six EOL+1 is not recognised and decodes into an extra row
//	ccitt-1d-final-run-64  K>=0, a one-dimensionally coded row whose last run is a positive multiple
//	                       of 64: the reader stops at Columns after the make-up code and leaves the
//	                       terminating code of length 0 in the stream
//	ccitt-2d-long-run      K!=0, a two-dimensionally coded row with a run that needs more than 64 code
//	                       words (>= 161344 pixels): decodeFullRun stops after 64 codes
func fbCCClass(p fbCC, data []byte) string {
	cols := p.effCols()
	lb := p.lineBytes()
	nrows := len(data) / lb
	if p.ignEOB {
		return "ccitt-noeob"
	}
	if p.align && !(p.k >= 0 && p.eol) {
		return "ccitt-bytealign"
	}
	if p.k > 0 && (p.rows == 0 || nrows != p.rows) {
		return "ccitt-kpos-rows"
	}
	white := byte(1)
	if p.blackIs1 {
		white = 0
	}
	for i := 0; i < nrows; i++ {
		row := data[i*lb : (i+1)*lb]
		oneD := p.k == 0 || (p.k > 0 && i%p.k == p.k-1)
		runs := fbRuns(row, cols, white)
		if oneD {
			last := runs[len(runs)-1]
			if last >= 64 && last%64 == 0 {
				return "ccitt-1d-final-run-64"
			}
		} else if cols >= 161344 {
			for _, l := range runs {
				if fbRunCodes(l) > 64 {
					return "ccitt-2d-long-run"
				}
			}
		}
	}
	return ""
}

// fbCCAdmissible: whole rows, zero padding bits, not more rows than Rows or than the reader's
// geometry cap (limits.MaxImageHeight / MaxImagePixels).
func fbCCAdmissible(p fbCC, data []byte) bool {
	cols := p.effCols()
	lb := p.lineBytes()
	if len(data)%lb != 0 {
		return false
	}
	nrows := len(data) / lb
	if p.rows > 0 && nrows > p.rows {
		return false
	}
	geo := max(1, min(1<<16, (128<<20)/cols))
	if nrows > geo {
		return false
	}
	if cols%8 != 0 {
		mask := byte(0xff) >> (cols % 8)
		for i := 0; i < nrows; i++ {
			if data[i*lb+lb-1]&mask != 0 {
				return false
			}
		}
	}
	return true
}

func fbGenCC(r *Rand) fbCC {
	p := fbCC{
		k:        Pick(r, []int{-1, -1, 0, 0, 1, 2, 3, 4, -7, 9}),
		cols:     Pick(r, []int{1, 2, 3, 7, 8, 9, 13, 16, 24, 31, 32, 63, 64, 65, 100, 128, 129, 200, 640, 0}),
		eol:      r.P(1, 3),
		align:    r.P(1, 5),
		blackIs1: r.P(1, 3),
		ignEOB:   r.P(1, 8),
	}
	if r.P(1, 4) {
		p.cols = 1 + r.Intn(300)
	}
	if r.P(1, 25) {
		p.cols = Pick(r, []int{1728, 1792, 2560, 2561, 2624, 4000, 5120})
	}
	return p
}

// fbGenCCData: nrows rows for the parameters; padding bits zero.
func fbGenCCData(r *Rand, p fbCC, nrows int) []byte {
	cols := p.effCols()
	lb := p.lineBytes()
	data := make([]byte, nrows*lb)
	mode := r.Intn(6)
	for i := 0; i < nrows; i++ {
		row := data[i*lb : (i+1)*lb]
		m := mode
		if m == 5 {
			m = r.Intn(5)
		}
		switch m {
		case 0:
			for j := range row {
				row[j] = byte(r.U64())
			}
		case 1:
			for j := range row {
				if r.P(1, 4) {
					row[j] = 0xff
				}
			}
		case 2: // runs, often multiples of 64 or long
			x := 0
			bit := byte(r.Intn(2))
			for x < cols {
				l := 1 + r.Intn(1+r.Intn(cols))
				if r.P(1, 4) {
					l = 64 * (1 + r.Intn(4))
				}
				for j := 0; j < l && x < cols; j++ {
					if bit == 1 {
						row[x/8] |= 1 << (7 - x%8)
					}
					x++
				}
				bit ^= 1
			}
		case 3: // previous row with a small change (vertical modes)
			if i > 0 {
				copy(row, data[(i-1)*lb:i*lb])
				for n := r.Intn(3); n > 0; n-- {
					x := r.Intn(cols)
					row[x/8] ^= 1 << (7 - x%8)
				}
			} else {
				for j := range row {
					row[j] = byte(r.U64()) & byte(r.U64())
				}
			}
		default: // all white or all black
			v := byte(0)
			if r.Bool() {
				v = 0xff
			}
			for j := range row {
				row[j] = v
			}
		}
		if cols%8 != 0 {
			row[lb-1] &= byte(0xff) << (8 - cols%8)
		}
	}
	return data
}

func fbCCEncodeLine(p fbCC, data []byte, r *Rand, mode int) (string, []byte) {
	f := p.filter()
	if _, _, err := f.Info(pdf.V1_7); err != nil {
		return "err", nil
	}
	enc, err, pan := fbEncode(f, pdf.V1_7, data, r, mode)
	if pan != "" {
		return "panic " + pan, nil
	}
	word := "ok"
	if err != nil {
		switch {
		case bytes.Contains([]byte(err.Error()), []byte("too many rows")):
			word = "toomany"
		case bytes.Contains([]byte(err.Error()), []byte("bits beyond column")):
			word = "padding"
		default:
			word = "error:" + err.Error()
		}
	}
	return hexWire(enc) + " " + word, enc
}

func fbCCDecodeLine(p fbCC, enc []byte, r *Rand, mode int, limit int) (string, []byte, error) {
	out, err, pan := fbDecode(p.filter(), pdf.V1_7, enc, r, mode, limit)
	if pan != "" {
		return "panic " + pan, nil, nil
	}
	return hexWire(out) + " " + fbErrWord(err), out, err
}

// replay input: "<cols> <k> <rows> <flags> <wmode> <rmode> <datahex>"
func replayCCITTRT(input string) (bool, string) {
	a := fbFields(input)
	if len(a) != 7 {
		return true, "bad replay input"
	}
	p := fbCCOf(fbAtoi(a[0]), fbAtoi(a[1]), fbAtoi(a[2]), a[3])
	data := fbHexDecode(a[6])
	ok, key, desc := oracleFilterRT(p.filter(), pdf.V1_7, data, NewRand(1), fbAtoi(a[4]), fbAtoi(a[5]))
	if !ok && key == "roundtrip" {
		if cl := fbCCClass(p, data); cl != "" {
			key = cl
		}
	}
	return ok, key + " " + desc
}

func runFBCCITT(c *Ctx) {
	r := c.R.Fork()
	n := 1500
	if c.Thorough {
		n = 25000
	}
	// very wide rows (oracle only; too long for the line protocol): runs of 161344 pixels and more
	// in horizontal mode are the known class ccitt-2d-long-run, everything else must round-trip
	for _, start := range []int{-1, 0, 40000} {
		p := fbCC{cols: 200000, k: -1}
		row := make([]byte, p.lineBytes())
		for x := 0; x < p.cols; x++ { // white (1) up to `start`, then black; start = -1: all white
			if start < 0 || x < start {
				row[x/8] |= 1 << (7 - x%8)
			}
		}
		row[(p.cols-1)/8] |= 1 << (7 - (p.cols-1)%8)
		data := append(append([]byte{}, row...), row...)
		ok, k, desc := oracleFilterRT(p.filter(), pdf.V1_7, data, r, 0, 0)
		cl := fbCCClass(p, data)
		c.Case(fmt.Sprintf("ccwide:%d", start), true)
		c.Stat("ccitt_wide_" + map[bool]string{true: "supported", false: cl}[cl == ""])
		if !ok {
			if k == "roundtrip" && cl != "" {
				k = cl
			}
			if len(desc) > 300 {
				desc = desc[:300]
			}
			c.Violate("fb-ccitt-rt", k, fmt.Sprintf("CCITTFax %v (wide row, black from column %d): %s", p, start, desc), "")
		}
	}
	for i := 0; i < n; i++ {
		p := fbGenCC(r)
		nrows := 1 + r.Intn(5)
		if r.P(1, 10) {
			nrows = 0
		}
		switch r.Intn(4) {
		case 0:
			p.rows = 0
		case 1, 2:
			p.rows = nrows
		default:
			p.rows = nrows + r.Intn(3)
		}
		data := fbGenCCData(r, p, nrows)
		if r.P(1, 30) && len(data) > 0 { // inadmissible: padding bits set, partial row, too many rows
			switch r.Intn(3) {
			case 0:
				data[len(data)-1] |= 1
			case 1:
				data = append(data, 0)
			default:
				if p.rows > 1 {
					p.rows--
				}
			}
		}
		wmode, rmode := r.Intn(4), r.Intn(4)
		line, enc := fbCCEncodeLine(p, data, r, wmode)
		c.Emit(fmt.Sprintf("FB cenc %s %s", p, hexWire(data)), line)
		c.Stat(fmt.Sprintf("ccitt_k_%s", map[bool]string{true: "neg", false: map[bool]string{true: "zero", false: "pos"}[p.k == 0]}[p.k < 0]))
		if enc == nil {
			continue
		}
		dline, _, _ := fbCCDecodeLine(p, enc, r, rmode, 0)
		c.Emit(fmt.Sprintf("FB cdec %s %s", p, hexWire(enc)), dline)
		key := fmt.Sprintf("cc:%s:%x", p, data)
		c.Case(key, len(data) > 0)
		if i < 3 {
			c.Sample(fmt.Sprintf("ccitt %v data=%s enc=%s", p, fbTrunc(data), fbTrunc(enc)))
		}

		// the property on the implementation
		if fbCCAdmissible(p, data) {
			ok, k, desc := oracleFilterRT(p.filter(), pdf.V1_7, data, r, wmode, rmode)
			cl := fbCCClass(p, data)
			if cl == "" {
				c.Stat("ccitt_class_none")
			} else {
				c.Stat("ccitt_class_" + cl)
			}
			if !ok {
				if k == "roundtrip" && cl != "" {
					k = cl
				}
				c.Violate("fb-ccitt-rt", k, fmt.Sprintf("CCITTFax %v: %s", p, desc), fmt.Sprintf("%s %d %d %s", p, wmode, rmode, hexWire(data)))
			}
		}

		// the decoder on damaged data (correspondence of the error paths)
		if len(enc) > 0 && r.P(1, 2) {
			bad := append([]byte{}, enc...)
			switch r.Intn(5) {
			case 0:
				bad = bad[:r.Intn(len(bad))]
			case 1:
				bad[r.Intn(len(bad))] ^= 1 << r.Intn(8)
			case 2:
				bad = r.Bytes(1 + r.Intn(12))
			case 3:
				bad = append(bad, r.Bytes(1+r.Intn(6))...)
			default:
				bad = append(r.Bytes(1+r.Intn(2)), bad...)
			}
			// rows longer than ceil(Columns/8) are a matter of C08 (class ccitt-row-overrun, see
			// fb_ccedge.go, where the same bodies meet the model); they are not compared here
			if ok, _, _ := oracleCCEdge(p, bad); !ok {
				c.Stat("cdec_damaged_row_overrun_left_to_C08")
				continue
			}
			dline, _, _ := fbCCDecodeLine(p, bad, r, r.Intn(4), 0)
			c.Emit(fmt.Sprintf("FB cdec %s %s", p, hexWire(bad)), dline)
			c.Stat("cdec_damaged")
		}
	}
}

package main

// C18, tie (a3): the lock inventory.  The model treats cacheGet, cacheStoreOrLoad,
// StoreOrLoadPair and the two locked regions of DecodeExclusive as atomic.  That rests on a
// syntactic fact which is re-extracted from the sources on every run: every read and write of
// Extractor.cache / Extractor.wip in the package sits between x.mu.Lock() and x.mu.Unlock()
// (or after `defer x.mu.Unlock()`).  The extracted inventory is one correspondence line; the
// model side is the list `lockInventory` in lean/PdfVerif/Driver/CONC.lean, about which
// `inventory_all_locked` is proved.

import (
	"fmt"
	"go/ast"
	"go/parser"
	"go/token"
	"os"
	"path/filepath"
	"sort"
	"strings"
)

func init() {
	addRun("C18", "lock inventory re-extracted from the Go sources (every access to Extractor.cache/wip with its lock state) compared with the inventory the model assumes. One case.", runConcInventory)
	addReplay("C18", "inventory", func(string) (bool, string) {
		repo := os.Getenv("VERIF_REPO")
		if repo == "" {
			repo = "/repo"
		}
		inv, err := concInventory(repo)
		if err != nil {
			return false, err.Error()
		}
		for _, it := range strings.Fields(inv) {
			if strings.HasSuffix(it, "/unlocked") && !strings.HasPrefix(it, "NewExtractor/") {
				return false, inv
			}
		}
		return true, inv
	})
}

type concInvWalker struct {
	fn    string
	items map[string]bool
}

func isMuCall(e ast.Expr, name string) bool {
	call, ok := e.(*ast.CallExpr)
	if !ok {
		return false
	}
	sel, ok := call.Fun.(*ast.SelectorExpr)
	if !ok || sel.Sel.Name != name {
		return false
	}
	inner, ok := sel.X.(*ast.SelectorExpr)
	return ok && inner.Sel.Name == "mu"
}

func mapField(e ast.Expr) string {
	sel, ok := e.(*ast.SelectorExpr)
	if !ok {
		return ""
	}
	if sel.Sel.Name == "cache" || sel.Sel.Name == "wip" {
		if id, ok := sel.X.(*ast.Ident); ok && id.Name == "x" {
			return sel.Sel.Name
		}
	}
	return ""
}

func (w *concInvWalker) add(m, access string, locked bool) {
	st := "unlocked"
	if locked {
		st = "locked"
	}
	w.items[fmt.Sprintf("%s/%s/%s/%s", w.fn, m, access, st)] = true
}

// expr records the accesses inside an expression (reads unless told otherwise).
func (w *concInvWalker) expr(e ast.Node, locked bool) {
	if e == nil {
		return
	}
	ast.Inspect(e, func(n ast.Node) bool {
		switch x := n.(type) {
		case *ast.FuncLit:
			// a closure runs later: its body is walked on its own, unlocked
			w.block(x.Body.List, false)
			return false
		case *ast.CallExpr:
			if id, ok := x.Fun.(*ast.Ident); ok && id.Name == "delete" && len(x.Args) == 2 {
				if m := mapField(x.Args[0]); m != "" {
					w.add(m, "delete", locked)
					w.expr(x.Args[1], locked)
					return false
				}
			}
		case *ast.SelectorExpr:
			if m := mapField(x); m != "" {
				w.add(m, "read", locked)
			}
		case *ast.KeyValueExpr:
			if id, ok := x.Key.(*ast.Ident); ok && (id.Name == "cache" || id.Name == "wip") {
				w.add(id.Name, "init", locked)
			}
		}
		return true
	})
}

// block walks statements in order; it returns the lock state after the block and whether the
// block always leaves the function.
func (w *concInvWalker) block(stmts []ast.Stmt, locked bool) (bool, bool) {
	for _, s := range stmts {
		switch st := s.(type) {
		case *ast.ExprStmt:
			switch {
			case isMuCall(st.X, "Lock"):
				locked = true
			case isMuCall(st.X, "Unlock"):
				locked = false
			default:
				w.expr(st.X, locked)
			}
		case *ast.DeferStmt:
			if isMuCall(st.Call, "Unlock") {
				// stays locked until the function returns
				continue
			}
			w.expr(st.Call, locked)
		case *ast.AssignStmt:
			for _, l := range st.Lhs {
				if ix, ok := l.(*ast.IndexExpr); ok {
					if m := mapField(ix.X); m != "" {
						w.add(m, "write", locked)
						w.expr(ix.Index, locked)
						continue
					}
				}
				w.expr(l, locked)
			}
			for _, r := range st.Rhs {
				w.expr(r, locked)
			}
		case *ast.ReturnStmt:
			for _, r := range st.Results {
				w.expr(r, locked)
			}
			return locked, true
		case *ast.IfStmt:
			if st.Init != nil {
				locked, _ = w.block([]ast.Stmt{st.Init}, locked)
			}
			w.expr(st.Cond, locked)
			l1, t1 := w.block(st.Body.List, locked)
			l2, t2 := locked, false
			if st.Else != nil {
				switch e := st.Else.(type) {
				case *ast.BlockStmt:
					l2, t2 = w.block(e.List, locked)
				default:
					l2, t2 = w.block([]ast.Stmt{e}, locked)
				}
			}
			switch {
			case t1 && t2:
				return locked, true
			case t1:
				locked = l2
			case t2:
				locked = l1
			default:
				if l1 != l2 {
					w.items[w.fn+"/-/lock state differs between branches/unlocked"] = true
				}
				locked = l1 && l2
			}
		case *ast.ForStmt:
			if st.Init != nil {
				w.block([]ast.Stmt{st.Init}, locked)
			}
			w.expr(st.Cond, locked)
			w.block(st.Body.List, locked)
		case *ast.RangeStmt:
			w.expr(st.X, locked)
			w.block(st.Body.List, locked)
		case *ast.BlockStmt:
			var t bool
			locked, t = w.block(st.List, locked)
			if t {
				return locked, true
			}
		case *ast.DeclStmt, *ast.IncDecStmt, *ast.SendStmt, *ast.GoStmt, *ast.SwitchStmt, *ast.TypeSwitchStmt, *ast.SelectStmt, *ast.LabeledStmt, *ast.BranchStmt:
			w.expr(st, locked)
		default:
			w.expr(s, locked)
		}
	}
	return locked, false
}

// concInventory extracts the inventory from the package sources in repo.
func concInventory(repo string) (string, error) {
	files, err := filepath.Glob(filepath.Join(repo, "*.go"))
	if err != nil {
		return "", err
	}
	items := map[string]bool{}
	fset := token.NewFileSet()
	for _, f := range files {
		base := filepath.Base(f)
		if strings.HasSuffix(base, "_test.go") || strings.HasPrefix(base, "verif_") {
			continue
		}
		af, err := parser.ParseFile(fset, f, nil, 0)
		if err != nil {
			return "", err
		}
		for _, d := range af.Decls {
			fd, ok := d.(*ast.FuncDecl)
			if !ok || fd.Body == nil {
				continue
			}
			w := &concInvWalker{fn: fd.Name.Name, items: items}
			w.block(fd.Body.List, false)
		}
	}
	order := []string{"cacheGet", "cacheStoreOrLoad", "StoreOrLoadPair", "DecodeExclusive", "NewExtractor"}
	rank := func(s string) int {
		fn := s[:strings.Index(s, "/")]
		for i, o := range order {
			if o == fn {
				return i
			}
		}
		return len(order)
	}
	accRank := map[string]int{"read": 0, "write": 1, "delete": 2, "init": 3}
	var keys []string
	for k := range items {
		keys = append(keys, k)
	}
	sort.Slice(keys, func(i, j int) bool {
		a, b := strings.Split(keys[i], "/"), strings.Split(keys[j], "/")
		if ra, rb := rank(keys[i]), rank(keys[j]); ra != rb {
			return ra < rb
		}
		if a[0] != b[0] {
			return a[0] < b[0]
		}
		if a[1] != b[1] {
			return a[1] < b[1]
		}
		if accRank[a[2]] != accRank[b[2]] {
			return accRank[a[2]] < accRank[b[2]]
		}
		return keys[i] < keys[j]
	})
	return strings.Join(keys, " "), nil
}

func runConcInventory(c *Ctx) {
	repo := os.Getenv("VERIF_REPO")
	if repo == "" {
		repo = "/repo"
	}
	inv, err := concInventory(repo)
	if err != nil {
		c.Violate("inventory", "inventory-extraction", "cannot extract the lock inventory: "+err.Error(), "")
		return
	}
	c.Case("inventory", true)
	c.Emit("CONC inv", inv)
	c.Sample("lock inventory: " + inv)
	for _, it := range strings.Fields(inv) {
		c.Stat("inventory items")
		if strings.HasSuffix(it, "/unlocked") && !strings.HasPrefix(it, "NewExtractor/") {
			c.Violate("inventory", "unlocked-access", "access outside the lock: "+it, "")
			// real goroutines on an unlocked map would bring the whole process down
			// ("concurrent map read and map write" is not recoverable)
			concUnlocked = true
		}
	}
}

// concUnlocked is set when the inventory found an access outside the lock; the runs with
// real concurrency are then skipped (the violation is already recorded).
var concUnlocked bool

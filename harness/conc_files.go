package main

// C18, runs 2-4: real concurrency (Go scheduler) on written files:
//   - 2-4 goroutines share one Reader and one Extractor and mix Reader.Get, DecodeStream,
//     Decode, DecodeExclusive and StoreOrLoadPair; every result is compared with what the
//     same call returns alone (sequentially, on a fresh Reader/Extractor);
//   - independent Writers / Readers in parallel goroutines give the same bytes / objects as
//     one after the other (package-level state: zlib pools, predefined CMaps, CID mappings);
//   - thorough tier: the same under the race detector (a second harness binary built with
//     -race), every reported race is a violation.

import (
	"bytes"
	"crypto/sha256"
	"errors"
	"fmt"
	"io"
	"os"
	"os/exec"
	"path/filepath"
	"reflect"
	"runtime"
	"strings"
	"sync"
	"time"

	"seehuhn.de/go/pdf"
	"seehuhn.de/go/pdf/font/cmap"
	"seehuhn.de/go/pdf/font/mapping"
)

func init() {
	addRun("C18", "written files (xref tables and xref/object streams, Flate/LZW/ASCII85/RunLength streams, shared, chained and cyclic references, merged field/widget dictionaries) read by 2-4 goroutines sharing one Reader and Extractor with random mixes of Reader.Get / DecodeStream / Decode / DecodeExclusive / StoreOrLoadPair; each result compared with the same call made alone; pointer identity per (reference, type) across goroutines. A case is one file x goroutine mix; non-trivial when at least two goroutines touched a common reference.", runConcFiles)
	addRun("C18", "independent Writers and Readers in parallel goroutines versus sequentially (identical bytes / objects), concurrent use of the predefined-CMap and CID-mapping caches; thorough tier: all real-concurrency runs repeated in a -race build, races are violations. A case is one batch of files.", runConcParallel)
	addRun("C18race", "child process of C18 (race-detector build)", func(c *Ctx) {
		runConcFirstLoads(c)
		runConcFiles(c)
		runConcParallelInner(c)
		runConcPoolGoroutines(c, 300)
		runConcShared(c)
		runConcLib(c)
	})
	addReplay("C18", "files", replayConcFiles)
	addReplay("C18", "parallel", func(string) (bool, string) {
		return true, "not replayable deterministically: re-run ./check C18 thorough"
	})
	addReplay("C18", "race", func(string) (bool, string) {
		return true, "not replayable deterministically: re-run ./check C18 thorough"
	})
}

// ---------------------------------------------------------------- documents

type concDoc struct {
	data     []byte
	nodes    []pdf.Reference // DAG of nodes (Kids point to later nodes)
	chains   []pdf.Reference // objects whose value is a reference (into nodes)
	cyc      []pdf.Reference // nodes on reference cycles
	streams  []pdf.Reference
	merged   []pdf.Reference                 // merged field/widget dictionaries
	chainTo  map[pdf.Reference]pdf.Reference // chain link -> the node at the end of its chain
	password string
	desc     string
}

func concPatternBytes(r *Rand, n int) []byte {
	b := make([]byte, n)
	switch r.Intn(3) {
	case 0:
		for i := range b {
			b[i] = byte(r.U64())
		}
	case 1:
		for i := range b {
			b[i] = byte("abcabcabd"[i%9])
		}
	default:
		x := byte(r.U64())
		for i := range b {
			if r.P(1, 40) {
				x = byte(r.U64())
			}
			b[i] = x
		}
	}
	return b
}

func concMakeDoc(r *Rand, big bool) (*concDoc, error) {
	return concMakeDocEnc(r, big, Pick(r, []pdf.Version{pdf.V1_4, pdf.V1_7, pdf.V2_0}), "")
}

// concMakeDocEnc writes the test document with a given version and (optionally) encrypted.
func concMakeDocEnc(r *Rand, big bool, v pdf.Version, password string) (*concDoc, error) {
	d := &concDoc{password: password}
	buf := &bytes.Buffer{}
	id := bytes.Repeat([]byte{byte(r.U64())}, 16)
	opt := &pdf.WriterOptions{ID: [][]byte{id, id}, HumanReadable: r.P(1, 4), UserPassword: password, OwnerPassword: password}
	w, err := pdf.NewWriter(buf, v, opt)
	if err != nil {
		return nil, err
	}
	pages := w.Alloc()
	w.GetMeta().Catalog.Pages = pages
	if err := w.Put(pages, pdf.Dict{"Type": pdf.Name("Pages"), "Kids": pdf.Array{}, "Count": pdf.Integer(0)}); err != nil {
		return nil, err
	}
	nNodes := 4 + r.Intn(10)
	nStreams := 2 + r.Intn(4)
	if big {
		nNodes = 20 + r.Intn(40)
		nStreams = 4 + r.Intn(8)
	}
	// streams
	for i := 0; i < nStreams; i++ {
		ref := w.Alloc()
		var fs []pdf.Filter
		switch r.Intn(6) {
		case 0:
		case 1:
			fs = []pdf.Filter{pdf.FilterCompress{}}
		case 2:
			fs = []pdf.Filter{pdf.FilterASCII85{}, pdf.FilterCompress{}}
		case 3:
			fs = []pdf.Filter{pdf.FilterLZW{}}
		case 4:
			fs = []pdf.Filter{pdf.FilterRunLength{}}
		default:
			fs = []pdf.Filter{pdf.FilterFlate{}}
		}
		stm, err := w.OpenStream(ref, pdf.Dict{"K": pdf.Integer(i)}, fs...)
		if err != nil {
			return nil, err
		}
		n := r.Intn(3000)
		if big && r.P(1, 3) {
			n = 20000 + r.Intn(60000)
		}
		if _, err := stm.Write(concPatternBytes(r, n)); err != nil {
			return nil, err
		}
		if err := stm.Close(); err != nil {
			return nil, err
		}
		d.streams = append(d.streams, ref)
	}
	// DAG nodes: kids point to later nodes (shared sub-objects), some via reference chains
	for i := 0; i < nNodes; i++ {
		d.nodes = append(d.nodes, w.Alloc())
	}
	nChains := 1 + r.Intn(3)
	chainTarget := map[pdf.Reference]pdf.Reference{}
	for i := 0; i < nChains; i++ {
		target := d.nodes[r.Intn(nNodes)]
		l := 1 + r.Intn(3)
		for j := 0; j < l; j++ {
			ref := w.Alloc()
			chainTarget[ref] = target
			target = ref
			d.chains = append(d.chains, ref)
		}
	}
	var compRefs []pdf.Reference
	var compObjs []pdf.Object
	for i := nNodes - 1; i >= 0; i-- {
		kids := pdf.Array{}
		for j := i + 1; j < nNodes; j++ {
			if r.P(2, nNodes-i+1) {
				kid := pdf.Object(d.nodes[j])
				// sometimes go through a chain which ends at a later node
				for _, ch := range d.chains {
					t := ch
					for {
						n, ok := chainTarget[t]
						if !ok {
							break
						}
						t = n
					}
					if t == d.nodes[j] && r.P(1, 2) {
						kid = ch
						break
					}
				}
				kids = append(kids, kid)
			}
		}
		dict := pdf.Dict{"V": pdf.Integer(i), "Kids": kids, "L": pdf.String(fmt.Sprintf("label of node %d", i))}
		if r.P(1, 3) {
			dict["Data"] = d.streams[r.Intn(len(d.streams))]
		}
		if v >= pdf.V1_5 && r.P(1, 2) {
			compRefs = append(compRefs, d.nodes[i])
			compObjs = append(compObjs, dict)
		} else if err := w.Put(d.nodes[i], dict); err != nil {
			return nil, err
		}
	}
	d.chainTo = map[pdf.Reference]pdf.Reference{}
	for _, ch := range d.chains {
		if err := w.Put(ch, chainTarget[ch]); err != nil {
			return nil, err
		}
		t := ch
		for {
			n, ok := chainTarget[t]
			if !ok {
				break
			}
			t = n
		}
		d.chainTo[ch] = t
	}
	if len(compRefs) > 0 {
		if err := w.WriteCompressed(compRefs, compObjs...); err != nil {
			return nil, err
		}
	}
	// cycles
	nCyc := 2 + r.Intn(4)
	for i := 0; i < nCyc; i++ {
		d.cyc = append(d.cyc, w.Alloc())
	}
	for i, ref := range d.cyc {
		dict := pdf.Dict{"V": pdf.Integer(100 + i), "Next": d.cyc[(i+1)%nCyc]}
		if r.P(1, 3) {
			dict["Other"] = d.cyc[r.Intn(nCyc)]
		}
		if err := w.Put(ref, dict); err != nil {
			return nil, err
		}
	}
	// merged field/widget dictionaries
	nMerged := 1 + r.Intn(3)
	for i := 0; i < nMerged; i++ {
		ref := w.Alloc()
		if err := w.Put(ref, pdf.Dict{"Subtype": pdf.Name("Widget"), "T": pdf.String(fmt.Sprintf("f%d", i)), "V": pdf.Integer(200 + i)}); err != nil {
			return nil, err
		}
		d.merged = append(d.merged, ref)
	}
	if err := w.Close(); err != nil {
		return nil, err
	}
	d.data = buf.Bytes()
	d.desc = fmt.Sprintf("version %v, %d nodes (%d in object streams), %d chain links, %d-cycle, %d streams, %d merged, %d bytes", v, nNodes, len(compRefs), len(d.chains), nCyc, nStreams, nMerged, len(d.data))
	return d, nil
}

// ---------------------------------------------------------------- decoders

type concNode struct {
	V    int
	Kids []*concNode
	Data [32]byte
}

func (n *concNode) deep(sb *strings.Builder) {
	if n == nil {
		sb.WriteString("nil")
		return
	}
	fmt.Fprintf(sb, "%d:%x(", n.V, n.Data[:3])
	for _, k := range n.Kids {
		k.deep(sb)
		sb.WriteByte(' ')
	}
	sb.WriteByte(')')
}

func concDecNode(c pdf.Cursor, obj pdf.Object, isDirect bool) (*concNode, error) {
	dict, err := c.Dict(obj)
	if err != nil {
		return nil, err
	}
	v, err := c.Integer(dict["V"])
	if err != nil {
		return nil, err
	}
	n := &concNode{V: int(v)}
	kids, err := c.Array(dict["Kids"])
	if err != nil {
		return nil, err
	}
	for _, k := range kids {
		kn, err := pdf.Decode(c, k, concDecNode)
		if err != nil {
			return nil, err
		}
		n.Kids = append(n.Kids, kn)
	}
	if dict["Data"] != nil {
		body, err := c.ReadAll(dict["Data"], 1<<22)
		if err != nil {
			return nil, err
		}
		n.Data = sha256.Sum256(body)
	}
	return n, nil
}

type concCyc struct {
	V    int
	Next *concCyc
}

// concDecCyc decodes a node of a reference cycle; the link which closes the cycle is cut.
func concDecCyc(c pdf.Cursor, obj pdf.Object, isDirect bool) (*concCyc, error) {
	dict, err := c.Dict(obj)
	if err != nil {
		return nil, err
	}
	v, err := c.Integer(dict["V"])
	if err != nil {
		return nil, err
	}
	n := &concCyc{V: int(v)}
	next, err := pdf.Decode(c, dict["Next"], concDecCyc)
	if err != nil && !errors.Is(err, pdf.ErrCycle) {
		return nil, err
	}
	n.Next = next
	return n, nil
}

// concSink stands for a document "sink" decoded exclusively (like the interactive form): it
// decodes other objects but nothing decodes it.
type concSink struct {
	Sum   int
	Nodes []*concNode
}

type concField struct {
	T string
	W *concWidget
}
type concWidget struct {
	V int
	F *concField
}

func concMergedPair(c pdf.Cursor, obj pdf.Object, isDirect bool) (*concField, *concWidget, error) {
	dict, err := c.Dict(obj)
	if err != nil {
		return nil, nil, err
	}
	t, _ := c.String(dict["T"])
	v, _ := c.Integer(dict["V"])
	f := &concField{T: string(t)}
	w := &concWidget{V: int(v)}
	f.W, w.F = w, f
	_, r := c.AtRef(obj, isDirect)
	ref, ok := r.(pdf.Reference)
	if !ok {
		return f, w, nil
	}
	fc, wc := pdf.StoreOrLoadPair[*concField, *concWidget](c.Extractor(), ref, f, w)
	return fc, wc, nil
}

func concDecField(c pdf.Cursor, obj pdf.Object, isDirect bool) (*concField, error) {
	f, _, err := concMergedPair(c, obj, isDirect)
	return f, err
}

func concDecWidget(c pdf.Cursor, obj pdf.Object, isDirect bool) (*concWidget, error) {
	_, w, err := concMergedPair(c, obj, isDirect)
	return w, err
}

// ---------------------------------------------------------------- one call, canonical result

type concFileOp struct {
	kind int // 0 Get, 1 DecodeStream, 2 Decode node, 3 Decode chain head, 4 Decode cyc, 5 exclusive sink, 6 field, 7 widget
	ref  pdf.Reference
}

// concFileCall performs one call and returns a canonical description of the result and the
// pointer (for identity checks) of typed results.
func concFileCall(rd *pdf.Reader, cur pdf.Cursor, d *concDoc, op concFileOp) (res string, ptr any) {
	defer func() {
		if r := recover(); r != nil {
			res = fmt.Sprintf("PANIC: %v", r)
		}
	}()
	switch op.kind {
	case 0:
		obj, err := rd.Get(op.ref, true)
		if err != nil {
			return "err: " + err.Error(), nil
		}
		if stm, ok := obj.(*pdf.Stream); ok {
			raw, err := io.ReadAll(stm.NewReader())
			if err != nil {
				return "err: " + err.Error(), nil
			}
			return fmt.Sprintf("stream %s %x", pdf.AsString(stm.Dict), sha256.Sum256(raw)), nil
		}
		return pdf.AsString(obj), nil
	case 1:
		obj, err := rd.Get(op.ref, true)
		if err != nil {
			return "err: " + err.Error(), nil
		}
		stm, ok := obj.(*pdf.Stream)
		if !ok {
			return "not a stream", nil
		}
		in, err := pdf.DecodeStream(rd, nil, stm)
		if err != nil {
			return "err: " + err.Error(), nil
		}
		body, err := io.ReadAll(in)
		in.Close()
		if err != nil {
			return "err: " + err.Error(), nil
		}
		return fmt.Sprintf("decoded %d %x", len(body), sha256.Sum256(body)), nil
	case 2, 3:
		n, err := pdf.Decode(cur, op.ref, concDecNode)
		if err != nil {
			return "err: " + err.Error(), nil
		}
		var sb strings.Builder
		n.deep(&sb)
		return sb.String(), n
	case 4:
		n, err := pdf.Decode(cur, op.ref, concDecCyc)
		if err != nil {
			return "err: " + err.Error(), nil
		}
		// the shape depends on which goroutine cut the cycle where; only the node itself is fixed
		return fmt.Sprintf("cyc %d", n.V), n
	case 5:
		s, err := pdf.DecodeExclusive(cur, op.ref, func(c pdf.Cursor, obj pdf.Object, isDirect bool) (*concSink, error) {
			s := &concSink{}
			for _, ref := range d.nodes {
				n, err := pdf.Decode(pdf.CursorAt(c.Extractor(), nil), ref, concDecNode)
				if err != nil {
					return nil, err
				}
				s.Sum += n.V
				s.Nodes = append(s.Nodes, n)
			}
			return s, nil
		})
		if err != nil {
			return "err: " + err.Error(), nil
		}
		return fmt.Sprintf("sink %d %d", s.Sum, len(s.Nodes)), s
	case 6:
		f, err := pdf.Decode(cur, op.ref, concDecField)
		if err != nil {
			return "err: " + err.Error(), nil
		}
		if f.W == nil || f.W.F != f {
			return "field/widget pair not linked", f
		}
		return fmt.Sprintf("field %s/%d", f.T, f.W.V), f
	default:
		w, err := pdf.Decode(cur, op.ref, concDecWidget)
		if err != nil {
			return "err: " + err.Error(), nil
		}
		if w.F == nil || w.F.W != w {
			return "field/widget pair not linked", w
		}
		return fmt.Sprintf("widget %s/%d", w.F.T, w.V), w
	}
}

func concGenFileOps(r *Rand, d *concDoc, n int) []concFileOp {
	all := append(append(append(append([]pdf.Reference{}, d.nodes...), d.chains...), d.streams...), d.cyc...)
	all = append(all, d.merged...)
	ops := make([]concFileOp, n)
	for i := range ops {
		switch r.Intn(12) {
		case 0, 1:
			ops[i] = concFileOp{0, Pick(r, all)}
		case 2, 3:
			ops[i] = concFileOp{1, Pick(r, d.streams)}
		case 4, 5, 6:
			ops[i] = concFileOp{2, Pick(r, d.nodes)}
		case 7:
			ops[i] = concFileOp{3, Pick(r, d.chains)}
		case 8:
			ops[i] = concFileOp{4, Pick(r, d.cyc)}
		case 9:
			ops[i] = concFileOp{5, d.nodes[0]}
		case 10:
			ops[i] = concFileOp{6, Pick(r, d.merged)}
		default:
			ops[i] = concFileOp{7, Pick(r, d.merged)}
		}
	}
	return ops
}

type concFileFailure struct{ key, desc string }

// concFileMix runs the goroutines' op lists concurrently on one Reader/Extractor and checks
// every result against the sequential baseline.
func concFileMix(d *concDoc, lists [][]concFileOp, yieldSeed uint64) (fails []concFileFailure, shared bool) {
	// baseline: every distinct op alone on a fresh reader and extractor
	base := map[concFileOp]string{}
	for _, l := range lists {
		for _, op := range l {
			if _, ok := base[op]; ok {
				continue
			}
			rd, err := pdf.NewReader(bytes.NewReader(d.data), int64(len(d.data)), nil)
			if err != nil {
				return []concFileFailure{{"open", "cannot open the written file: " + err.Error()}}, false
			}
			res, _ := concFileCall(rd, pdf.NewCursor(rd), d, op)
			base[op] = res
			if strings.HasPrefix(res, "PANIC") || strings.HasPrefix(res, "err") || strings.Contains(res, "not linked") {
				fails = append(fails, concFileFailure{"baseline", fmt.Sprintf("sequential call kind %d on %v fails: %s", op.kind, op.ref, res)})
			}
		}
	}
	rd, err := pdf.NewReader(bytes.NewReader(d.data), int64(len(d.data)), nil)
	if err != nil {
		return []concFileFailure{{"open", err.Error()}}, false
	}
	cur := pdf.NewCursor(rd)
	type rec struct {
		op  concFileOp
		res string
		ptr any
	}
	out := make([][]rec, len(lists))
	var wg sync.WaitGroup
	start := make(chan struct{})
	for g := range lists {
		wg.Add(1)
		go func(g int) {
			defer wg.Done()
			<-start
			for i, op := range lists[g] {
				if (yieldSeed>>uint((g*7+i)%60))&1 == 1 {
					runtime.Gosched()
				}
				res, ptr := concFileCall(rd, cur, d, op)
				out[g] = append(out[g], rec{op, res, ptr})
			}
		}(g)
	}
	close(start)
	done := make(chan struct{})
	go func() { wg.Wait(); close(done) }()
	select {
	case <-done:
	case <-time.After(120 * time.Second):
		return append(fails, concFileFailure{"deadlock", "the goroutines did not finish within 120 s"}), false
	}
	type pk struct {
		kind int
		ref  pdf.Reference
	}
	ptrs := map[pk]any{}
	touched := map[pdf.Reference]int{}
	for g := range out {
		seen := map[pdf.Reference]bool{}
		for _, r := range out[g] {
			if !seen[r.op.ref] {
				seen[r.op.ref] = true
				touched[r.op.ref]++
			}
			if want := base[r.op]; r.res != want {
				fails = append(fails, concFileFailure{"differs-from-alone", fmt.Sprintf("goroutine %d call kind %d on %v returned %.200q, alone it returns %.200q", g, r.op.kind, r.op.ref, r.res, want)})
			}
			if r.ptr != nil {
				kind := r.op.kind
				if kind == 3 {
					kind = 2
				}
				k := pk{kind, r.op.ref}
				if old, ok := ptrs[k]; ok && old != r.ptr {
					fails = append(fails, concFileFailure{"agreement", fmt.Sprintf("two decodes (kind %d) of %v returned different Go values", r.op.kind, r.op.ref)})
				}
				ptrs[k] = r.ptr
			}
		}
	}
	for _, n := range touched {
		if n > 1 {
			shared = true
		}
	}
	// chain invariant: decoding a chain link gives the very value decoded for the node at its end
	for ch, end := range d.chainTo {
		a, oka := ptrs[pk{2, ch}]
		b, okb := ptrs[pk{2, end}]
		if oka && okb && a != b {
			fails = append(fails, concFileFailure{"chain-agreement", fmt.Sprintf("decoding %v (a reference to %v) and decoding %v gave different Go values", ch, end, end)})
		}
	}
	// the field and the widget decoded for one reference form one linked pair
	for _, ref := range d.merged {
		f, okf := ptrs[pk{6, ref}].(*concField)
		w, okw := ptrs[pk{7, ref}].(*concWidget)
		if okf && okw && (f.W != w || w.F != f) {
			fails = append(fails, concFileFailure{"pair-atomic", fmt.Sprintf("field and widget decoded for %v are not halves of one pair", ref)})
		}
	}
	return fails, shared
}

func runConcFiles(c *Ctx) {
	if concUnlocked {
		c.Stat("real-concurrency runs skipped: unlocked access in the inventory")
		return
	}
	nDocs := 14
	if c.Thorough {
		nDocs = 120
	}
	if c.rep.Property == "C18race" {
		nDocs = 40
	}
	r := c.R.Fork()
	for i := 0; i < nDocs; i++ {
		seed := r.U64()
		fails, shared, desc := concFilesCase(seed, c.Thorough && i%4 == 0)
		c.Case(fmt.Sprintf("file %x", seed), shared)
		c.Stat("files with goroutine mixes")
		if i < 2 {
			c.Sample("file: " + desc)
		}
		for _, f := range fails {
			c.Violate("files", f.key, f.desc+" ["+desc+"]", fmt.Sprintf("%d", seed))
		}
	}
}

func concFilesCase(seed uint64, big bool) ([]concFileFailure, bool, string) {
	r := NewRand(seed)
	d, err := concMakeDoc(r, big)
	if err != nil {
		return []concFileFailure{{"write", "cannot write the test file: " + err.Error()}}, false, ""
	}
	ng := 2 + r.Intn(3)
	lists := make([][]concFileOp, ng)
	for g := range lists {
		lists[g] = concGenFileOps(r, d, 6+r.Intn(20))
	}
	fails, shared := concFileMix(d, lists, r.U64())
	return fails, shared, fmt.Sprintf("%s; %d goroutines", d.desc, ng)
}

func replayConcFiles(input string) (bool, string) {
	var seed uint64
	fmt.Sscan(input, &seed)
	for i := 0; i < 30; i++ {
		fails, _, desc := concFilesCase(seed, false)
		if len(fails) > 0 {
			return false, fmt.Sprintf("%s: %s (attempt %d)", desc, fails[0].desc, i+1)
		}
	}
	return true, "30 concurrent runs of this file and mix agree with the sequential results"
}

// ---------------------------------------------------------------- independent readers / writers

func runConcParallelInner(c *Ctx) {
	n := 8
	if c.Thorough {
		n = 32
	}
	r := c.R.Fork()
	seeds := make([]uint64, n)
	for i := range seeds {
		seeds[i] = r.U64()
	}
	// sequentially
	seq := make([][]byte, n)
	for i, s := range seeds {
		d, err := concMakeDoc(NewRand(s), i%3 == 0)
		if err != nil {
			c.Violate("parallel", "write", err.Error(), "")
			return
		}
		seq[i] = d.data
	}
	// in parallel, each goroutine writes its own file and reads it back with its own Reader
	par := make([][]byte, n)
	readBack := make([]string, n)
	var wg sync.WaitGroup
	for i, s := range seeds {
		wg.Add(1)
		go func(i int, s uint64) {
			defer wg.Done()
			defer func() {
				if r := recover(); r != nil {
					readBack[i] = fmt.Sprintf("PANIC: %v", r)
				}
			}()
			d, err := concMakeDoc(NewRand(s), i%3 == 0)
			if err != nil {
				readBack[i] = "write: " + err.Error()
				return
			}
			par[i] = d.data
			readBack[i] = concReadAllObjects(d)
		}(i, s)
	}
	wg.Wait()
	for i := range seeds {
		c.Stat("files written in parallel and sequentially")
		if !bytes.Equal(seq[i], par[i]) {
			c.Violate("parallel", "writer-bytes-differ", fmt.Sprintf("file %d written concurrently with %d others differs from the same file written alone (%d vs %d bytes) %s", i, n-1, len(par[i]), len(seq[i]), readBack[i]), "")
			continue
		}
		d := &concDoc{data: seq[i]}
		// the references are a function of the seed: regenerate the lists
		d2, _ := concMakeDoc(NewRand(seeds[i]), i%3 == 0)
		d2.data = d.data
		if want := concReadAllObjects(d2); want != readBack[i] {
			c.Violate("parallel", "reader-objects-differ", fmt.Sprintf("file %d read concurrently with %d other Readers gives different objects than read alone: %.200q vs %.200q", i, n-1, readBack[i], want), "")
		}
	}
	c.Case(fmt.Sprintf("parallel batch %x", seeds[0]), true)

	// package-level caches: predefined CMaps and CID text mappings
	names := []string{"Identity-H", "Identity-V", "90ms-RKSJ-H", "GBK-EUC-H", "UniJIS-UTF16-H", "KSCms-UHC-H", "90ms-RKSJ-V", "no-such-cmap"}
	ros := [][2]string{{"Adobe", "Japan1"}, {"Adobe", "GB1"}, {"Adobe", "Korea1"}, {"Adobe", "CNS1"}, {"Adobe", "Nonexistent"}}
	type got struct {
		cm  [8]*cmap.File
		cme [8]bool
		ml  [5]int
	}
	res := make([]got, 6)
	for g := range res {
		wg.Add(1)
		go func(g int) {
			defer wg.Done()
			for k := 0; k < len(names); k++ {
				i := (k + g) % len(names)
				f, err := cmap.Predefined(names[i])
				res[g].cm[i], res[g].cme[i] = f, err != nil
			}
			for k := 0; k < len(ros); k++ {
				i := (k + g) % len(ros)
				m, err := mapping.GetCIDTextMapping(ros[i][0], ros[i][1])
				if err != nil {
					res[g].ml[i] = -1
				} else {
					res[g].ml[i] = len(m)
				}
			}
		}(g)
	}
	wg.Wait()
	for g := 1; g < len(res); g++ {
		if res[g] != res[0] {
			c.Violate("parallel", "package-cache-differs", fmt.Sprintf("goroutine %d got different predefined CMaps / CID mappings than goroutine 0: %v vs %v", g, res[g], res[0]), "")
		}
	}
	for i, nme := range names {
		if nme != "no-such-cmap" && (res[0].cm[i] == nil || res[0].cme[i]) {
			c.Violate("parallel", "predefined-cmap-missing", "cmap.Predefined("+nme+") failed", "")
		}
	}
	c.Stat("package-level cache probes")
}

// ---------------------------------------------------------------- first loads of package-level caches

// concListNames lists the entries of an embedded resource directory of the library (file names
// without suffix), so that every predefined CMap / CID mapping is exercised.
func concListNames(dir, suffix string, fallback []string) []string {
	ents, err := os.ReadDir(filepath.Join(concRepo(), dir))
	if err != nil {
		return fallback
	}
	var names []string
	for _, e := range ents {
		if strings.HasSuffix(e.Name(), suffix) {
			names = append(names, strings.TrimSuffix(e.Name(), suffix))
		}
	}
	if len(names) == 0 {
		return fallback
	}
	return names
}

func concMapPtr(m any) uintptr {
	v := reflect.ValueOf(m)
	if v.Kind() != reflect.Map || v.IsNil() {
		return 0
	}
	return v.Pointer()
}

// runConcFirstLoads exercises every exported function which touches mutex-guarded package-level
// state while the caches are being filled: loaders perform the FIRST load of every predefined CMap
// and every CID text mapping (in different orders) while pollers call the read-only accessors
// ((*cmap.File).IsPredefined, lookups of cached and uncached names).  It must run before anything
// else has touched these caches; under the race detector (child process, caches empty) an
// unsynchronised read next to a first load is a reported race.
func runConcFirstLoads(c *Ctx) {
	cmapNames := concListNames("font/cmap/predefined", ".gz", []string{"Identity-H", "Identity-V", "90ms-RKSJ-H", "GBK-EUC-H", "UniJIS-UTF16-H", "KSCms-UHC-H"})
	var ros [][2]string
	for _, n := range concListNames("font/mapping/resources", "-UCS2.gz", []string{"Adobe-Japan1", "Adobe-GB1"}) {
		if i := strings.LastIndex(n, "-"); i > 0 {
			ros = append(ros, [2]string{n[:i], n[i+1:]})
		}
	}
	ros = append(ros, [2]string{"Adobe", "Nonexistent"})
	r := c.R.Fork()
	nLoaders := 1 + r.Intn(2)
	nPollers := 1 + r.Intn(2)
	var mu sync.Mutex
	loaded := map[string]*cmap.File{} // what the loaders got, per name
	mapPtr := map[string]uintptr{}
	mapLen := map[string]int{}
	var fails []string
	fail := func(format string, a ...any) {
		mu.Lock()
		if len(fails) < 10 {
			fails = append(fails, fmt.Sprintf(format, a...))
		}
		mu.Unlock()
	}
	var done sync.WaitGroup
	stop := make(chan struct{})
	guard := func(what string, f func()) {
		defer func() {
			if rec := recover(); rec != nil {
				fail("%s panicked: %v", what, rec)
			}
		}()
		f()
	}
	for l := 0; l < nLoaders; l++ {
		done.Add(1)
		go func(l int) {
			defer done.Done()
			guard("loader", func() {
				for i := range cmapNames {
					name := cmapNames[i]
					if l == 1 {
						name = cmapNames[len(cmapNames)-1-i] // the second loader comes from the other end
					}
					f, err := cmap.Predefined(name)
					if err != nil || f == nil {
						fail("cmap.Predefined(%s) failed: %v", name, err)
						continue
					}
					if !f.IsPredefined() {
						fail("the file returned by cmap.Predefined(%s) is not IsPredefined()", name)
					}
					mu.Lock()
					if old, ok := loaded[name]; ok && old != f {
						fails = append(fails, fmt.Sprintf("cmap.Predefined(%s) returned two different objects", name))
					}
					loaded[name] = f
					mu.Unlock()
					if i%16 == 0 && i/16 < len(ros) {
						ro := ros[(i/16+l)%len(ros)]
						m, err := mapping.GetCIDTextMapping(ro[0], ro[1])
						rev, err2 := mapping.GetTextToCIDMapping(ro[0], ro[1])
						if ro[1] == "Nonexistent" {
							if err == nil || err2 == nil {
								fail("mapping for %s-%s should not exist", ro[0], ro[1])
							}
							continue
						}
						if err != nil || err2 != nil || len(m) == 0 || len(rev) == 0 {
							fail("CID mappings for %s-%s failed: %v %v", ro[0], ro[1], err, err2)
							continue
						}
						key := ro[0] + "-" + ro[1]
						mu.Lock()
						if p, ok := mapPtr[key]; ok && (p != concMapPtr(m) || mapLen[key] != len(m)) {
							fails = append(fails, "mapping.GetCIDTextMapping("+key+") returned two different maps")
						}
						mapPtr[key], mapLen[key] = concMapPtr(m), len(m)
						mu.Unlock()
					}
				}
			})
		}(l)
	}
	polls := make([]int, nPollers)
	var pollersDone sync.WaitGroup
	for g := 0; g < nPollers; g++ {
		pollersDone.Add(1)
		go func(g int) {
			defer pollersDone.Done()
			guard("poller", func() {
				for i := 0; ; i++ {
					select {
					case <-stop:
						return
					default:
					}
					name := cmapNames[(i*7+g*13)%len(cmapNames)]
					// a fresh object is never the predefined one, cached or not
					if (&cmap.File{Name: name}).IsPredefined() {
						fail("a fresh cmap.File named %s claims to be predefined", name)
					}
					mu.Lock()
					f := loaded[name]
					mu.Unlock()
					if f != nil && !f.IsPredefined() {
						fail("the predefined CMap %s is no longer IsPredefined()", name)
					}
					if i%64 == 0 {
						ro := ros[(i/64+g)%len(ros)]
						key := ro[0] + "-" + ro[1]
						mu.Lock()
						p, known := mapPtr[key]
						mu.Unlock()
						if known {
							// polls the cached entry while other entries are being loaded
							m, err := mapping.GetCIDTextMapping(ro[0], ro[1])
							if err != nil || concMapPtr(m) != p {
								fail("mapping.GetCIDTextMapping(%s) changed its answer", key)
							}
							if _, err := mapping.GetTextToCIDMapping(ro[0], ro[1]); err != nil {
								fail("mapping.GetTextToCIDMapping(%s) failed: %v", key, err)
							}
						}
					}
					polls[g]++
					if i%8 == 0 {
						runtime.Gosched()
					}
				}
			})
		}(g)
	}
	done.Wait()
	close(stop)
	pollersDone.Wait()
	// afterwards everybody sees the same objects
	for _, name := range cmapNames {
		f, err := cmap.Predefined(name)
		if err != nil || f != loaded[name] {
			fail("cmap.Predefined(%s) after the loads: %v, same object: %v", name, err, f == loaded[name])
		}
	}
	total := 0
	for _, n := range polls {
		total += n
	}
	c.Case("first loads of package-level caches", true)
	c.StatN("predefined CMaps loaded for the first time under concurrent polling", len(cmapNames))
	c.StatN("accessor polls during first loads", total)
	for _, f := range fails {
		c.Violate("parallel", "package-cache-first-load", f, "")
	}
}

// concReadAllObjects opens the file with its own Reader and returns a canonical dump.
func concReadAllObjects(d *concDoc) string {
	rd, err := pdf.NewReader(bytes.NewReader(d.data), int64(len(d.data)), nil)
	if err != nil {
		return "open: " + err.Error()
	}
	cur := pdf.NewCursor(rd)
	var sb strings.Builder
	all := append(append(append(append([]pdf.Reference{}, d.nodes...), d.chains...), d.streams...), d.cyc...)
	for _, ref := range all {
		res, _ := concFileCall(rd, cur, d, concFileOp{0, ref})
		sb.WriteString(res)
		sb.WriteByte('\n')
	}
	for _, ref := range d.streams {
		res, _ := concFileCall(rd, cur, d, concFileOp{1, ref})
		sb.WriteString(res)
		sb.WriteByte('\n')
	}
	for _, ref := range d.nodes {
		res, _ := concFileCall(rd, cur, d, concFileOp{2, ref})
		sb.WriteString(res)
		sb.WriteByte('\n')
	}
	h := sha256.Sum256([]byte(sb.String()))
	return fmt.Sprintf("%d lines %x", strings.Count(sb.String(), "\n"), h[:8])
}

func runConcParallel(c *Ctx) {
	if concUnlocked || concPkgUnguarded {
		c.Stat("in-process runs on package-level caches skipped: unguarded access in the inventory")
	} else {
		runConcFirstLoads(c)
		runConcParallelInner(c)
	}
	if !c.Thorough {
		c.Stat("race detector: thorough tier only")
		return
	}
	// build this harness with -race and run the real-concurrency parts in it
	_, self, _, _ := runtime.Caller(0)
	dir := filepath.Dir(self)
	tmp, err := os.MkdirTemp("", "conc-race")
	if err != nil {
		c.Violate("race", "race-build", "cannot create a temporary directory: "+err.Error(), "")
		return
	}
	defer os.RemoveAll(tmp)
	bin := filepath.Join(tmp, "harness-race")
	cmd := exec.Command("go", "build", "-race", "-tags", "verif", "-o", bin, ".")
	cmd.Dir = dir
	cmd.Env = append(os.Environ(), "GOFLAGS=-mod=mod", "GOPROXY=off")
	if out, err := cmd.CombinedOutput(); err != nil {
		c.Violate("race", "race-build", fmt.Sprintf("building the harness with -race failed: %v: %.600s", err, out), "")
		return
	}
	for round := 0; round < 3; round++ {
		outDir := filepath.Join(tmp, fmt.Sprintf("out%d", round))
		cmd = exec.Command(bin, "-prop", "C18race", "-seed", fmt.Sprint(c.R.U64()%1000000), "-tier", "quick", "-out", outDir)
		cmd.Env = append(os.Environ(), "GORACE=halt_on_error=0")
		out, err := cmd.CombinedOutput()
		text := string(out)
		c.Stat("race-detector child runs")
		if strings.Contains(text, "WARNING: DATA RACE") {
			unknown := false
			for _, blk := range strings.Split(text, "WARNING: DATA RACE")[1:] {
				if len(blk) > 1800 {
					blk = blk[:1800]
				}
				// the accesses are the frames before the first "created at"
				acc := blk
				if i := strings.Index(acc, "created at:"); i >= 0 {
					acc = acc[:i]
				}
				key := "data-race"
				if strings.Contains(acc, "annotation/decode.PageAnnotations()") && !strings.Contains(acc, "decode.Form") {
					// the IRT repair on shared annotation values (finding C18-A2)
					key = "published-value-changed-irt"
				} else {
					unknown = true
				}
				c.Violate("race", key, "the race detector reports: WARNING: DATA RACE"+blk, "")
			}
			if unknown {
				return
			}
			err = nil // the child's exit status only reflects the races
		}
		if err != nil {
			c.Violate("race", "race-child-failed", fmt.Sprintf("race-detector child: %v: %.600s", err, text), "")
			return
		}
		// oracle failures found by the child count as well
		raw, err := os.ReadFile(filepath.Join(outDir, "report.json"))
		if err == nil && strings.Contains(strings.ReplaceAll(string(raw), `"key": "published-value-changed-irt"`, ""), `"key"`) {
			c.Violate("race", "race-child-violation", fmt.Sprintf("the -race child found oracle failures: %.800s", raw), "")
		}
	}
}

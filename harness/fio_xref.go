package main

import (
	"bytes"
	"compress/zlib"
	"errors"
	"fmt"
	"io"
	"sort"
	"strings"

	"seehuhn.de/go/pdf"
)

// FIO work package (C02/C03), part 1: the cross-reference codec of xref.go.
// Real code is reached through verif_fio.go (build tag verif).

func init() {
	addRun("C02", "cross-reference codec: random tables (all entry kinds: nil, free, in-use, in object stream; offsets up to 2^62, generations up to 65535) written by the real writeXRefTable/writeXRefStream and decoded again by readXRefTable/decodeXRefStream; mutated and hand-built sections (19-byte lines, 65536 repair, off-by-one repair, several subsections, pre-existing entries, truncation); random xref stream dictionaries; encodeInt64/decodeInt on boundary values. A case is non-trivial when the table has at least one in-use entry; distinct by table text.", runFIOXRef)
	addReplay("C02", "xref-table-rt", replayFIOXRefTable)
	addReplay("C02", "xref-stream-rt", replayFIOXRefStream)
}

// ---- wire form of tables ----

func fioEntries(es []pdf.VerifFIOEntry) string {
	if len(es) == 0 {
		return "-"
	}
	es = append([]pdf.VerifFIOEntry(nil), es...)
	sort.Slice(es, func(i, j int) bool { return es[i].Num < es[j].Num })
	parts := make([]string, len(es))
	for i, e := range es {
		parts[i] = fmt.Sprintf("%d:%d:%d:%d", e.Num, e.InStream, e.Pos, e.Gen)
	}
	return strings.Join(parts, ",")
}

func fioParseEntries(s string) []pdf.VerifFIOEntry {
	if s == "-" || s == "" {
		return nil
	}
	var res []pdf.VerifFIOEntry
	for _, item := range strings.Split(s, ",") {
		var e pdf.VerifFIOEntry
		fmt.Sscanf(item, "%d:%d:%d:%d", &e.Num, &e.InStream, &e.Pos, &e.Gen)
		res = append(res, e)
	}
	return res
}

func fioPairs(ss [][2]uint32) string {
	if len(ss) == 0 {
		return "-"
	}
	parts := make([]string, len(ss))
	for i, s := range ss {
		parts[i] = fmt.Sprintf("%d:%d", s[0], s[1])
	}
	return strings.Join(parts, ",")
}

// fioGetter is a Getter without objects (for DecodeStream on free-standing streams).
type fioGetter struct{ meta pdf.MetaInfo }

func (g *fioGetter) GetMeta() *pdf.MetaInfo                      { return &g.meta }
func (g *fioGetter) Get(pdf.Reference, bool) (pdf.Native, error) { return nil, nil }

var fioNoGetter = &fioGetter{meta: pdf.MetaInfo{Version: pdf.V1_7}}

// fioErrClass is errClass, except that a wrapped io.EOF (Wrap adds a location
// to non-malformed errors with %w) still counts as eof.
func fioErrClass(err error) string {
	if err != nil && !pdf.IsMalformed(err) && errors.Is(err, io.EOF) {
		return "eof"
	}
	return errClass(err)
}

// ---- generators ----

var fioPosBoundaries = []int64{0, 1, 9, 15, 255, 256, 65535, 65536, 1<<24 - 1, 1 << 24, 1<<32 - 1, 1 << 32, 9999999999, 1<<40 + 5, 1<<48 - 1, 1 << 56, 1<<62 + 3}

func fioGenPos(r *Rand, small bool) int64 {
	if small {
		switch r.Intn(3) {
		case 0:
			return int64(r.Intn(5000))
		case 1:
			return Pick(r, fioPosBoundaries[:13])
		default:
			return int64(r.U64() % 9999999999)
		}
	}
	switch r.Intn(4) {
	case 0:
		return int64(r.Intn(100000))
	case 1:
		return Pick(r, fioPosBoundaries)
	default:
		return int64(r.U64() >> uint(2+r.Intn(60)))
	}
}

// fioGenTable makes a random table for numbers < nextRef.  kinds: table form
// (no compressed entries, offsets < 10^10 unless wide) or stream form.
func fioGenTable(r *Rand, nextRef int, allowInStream, wide bool) []pdf.VerifFIOEntry {
	var es []pdf.VerifFIOEntry
	for i := 0; i < nextRef; i++ {
		if i == 0 && r.P(9, 10) {
			es = append(es, pdf.VerifFIOEntry{Num: 0, Pos: -1, Gen: 65535})
			continue
		}
		k := r.Intn(10)
		switch {
		case k == 0: // nil entry (allocated, never written)
		case k == 1: // free entry
			g := uint16(Pick(r, []int{0, 1, 255, 256, 65535, r.Intn(65536)}))
			es = append(es, pdf.VerifFIOEntry{Num: uint32(i), Pos: -1, Gen: g})
		case k <= 3 && allowInStream:
			stm := uint32(1 + r.Intn(nextRef+3))
			if r.P(1, 6) {
				stm = uint32(Pick(r, []int{255, 256, 65535, 65536, 1<<24 - 1}))
			}
			idx := int64(r.Intn(300))
			if r.P(1, 8) {
				idx = int64(Pick(r, []int{0, 255, 256, 9999, 65536}))
			}
			es = append(es, pdf.VerifFIOEntry{Num: uint32(i), InStream: stm, Pos: idx})
		default:
			g := uint16(0)
			if r.P(1, 5) {
				g = uint16(Pick(r, []int{1, 2, 255, 256, 65534, 65535, r.Intn(65536)}))
			}
			es = append(es, pdf.VerifFIOEntry{Num: uint32(i), Pos: fioGenPos(r, !wide), Gen: g})
		}
	}
	return es
}

// ---- calling the real writer ----

// fioWriteXRef lets the real writer produce the cross-reference section for
// the given table.  It returns the bytes after the file header, the header
// length and the writer's error.
func fioWriteXRef(es []pdf.VerifFIOEntry, nextRef uint32, dict pdf.Dict, stream bool, v pdf.Version, human bool) (out []byte, hdr int, err error) {
	buf := &bytes.Buffer{}
	w, err := pdf.NewWriter(buf, v, &pdf.WriterOptions{HumanReadable: human})
	if err != nil {
		return nil, 0, err
	}
	_, _, pos, _ := pdf.VerifWriterXRef(w)
	err = pdf.VerifWriteXRefSection(w, es, nextRef, dict, stream)
	all := buf.Bytes()
	if int(pos) > len(all) {
		// nothing flushed yet (error before the flush)
		return nil, int(pos), err
	}
	return all[pos:], int(pos), err
}

func fioExpectTable(es []pdf.VerifFIOEntry, nextRef uint32) map[uint32]pdf.VerifFIOEntry {
	// what a reader must see after decoding a classic table written for es
	want := map[uint32]pdf.VerifFIOEntry{}
	for i := uint32(0); i < nextRef; i++ {
		want[i] = pdf.VerifFIOEntry{Num: i, Pos: -1, Gen: 65535}
	}
	for _, e := range es {
		if e.Num < nextRef && e.Pos >= 0 {
			want[e.Num] = e
		}
	}
	return want
}

// oracleXRefTable: property on the implementation.
// decode(encode tbl) == tbl, every line has 20 bytes (offsets < 10^10).
func oracleXRefTable(es []pdf.VerifFIOEntry, nextRef uint32) (bool, string, []byte) {
	out, _, err := fioWriteXRef(es, nextRef, pdf.Dict{"Size": pdf.Integer(nextRef)}, false, pdf.V1_4, false)
	for _, e := range es {
		if e.InStream != 0 && e.Num < nextRef {
			if err == nil {
				return false, "writeXRefTable accepted a compressed-object entry", out
			}
			return true, "", out
		}
	}
	narrow := true
	for _, e := range es {
		if e.Pos > 9999999999 && e.InStream == 0 {
			narrow = false
		}
	}
	if !narrow {
		// An entry has exactly ten digits for the offset: an object at byte 10^10
		// or later cannot be recorded (fmt's %010d is a minimum width and would
		// make the line 21 bytes long).  The writer must refuse.
		if err == nil {
			return false, "offset-overflow: writeXRefTable wrote an entry for an offset above 9999999999 (a line of more than 20 bytes)", out
		}
		return true, "", out
	}
	if err != nil {
		return false, "writeXRefTable failed: " + err.Error(), out
	}
	idx := bytes.Index(out, []byte("trailer\n"))
	if idx < 0 {
		return false, "no trailer keyword", out
	}
	if narrow {
		head := []byte(fmt.Sprintf("xref\n0 %d\n", nextRef))
		if !bytes.HasPrefix(out, head) {
			return false, "bad subsection header", out
		}
		lines := out[len(head):idx]
		if len(lines) != 20*int(nextRef) {
			return false, fmt.Sprintf("table body has %d bytes for %d entries", len(lines), nextRef), out
		}
		for i := 0; i+20 <= len(lines); i += 20 {
			l := lines[i : i+20]
			if l[10] != ' ' || l[16] != ' ' || (l[17] != 'n' && l[17] != 'f') || l[18] != '\r' || l[19] != '\n' {
				return false, fmt.Sprintf("malformed line %q", l), out
			}
		}
	}
	got, trailer, _, err := pdf.VerifReadXRefTable(nil, out)
	if err != nil {
		return false, "readXRefTable failed on the writer's table: " + err.Error(), out
	}
	if trailer["Size"] != pdf.Integer(nextRef) {
		return false, "trailer /Size lost", out
	}
	want := fioExpectTable(es, nextRef)
	if len(got) != len(want) {
		return false, fmt.Sprintf("decoded %d entries, want %d", len(got), len(want)), out
	}
	for _, g := range got {
		if w, ok := want[g.Num]; !ok || w != g {
			return false, fmt.Sprintf("entry %d decoded as %+v, want %+v", g.Num, g, w), out
		}
	}
	return true, "", out
}

func replayFIOXRefTable(input string) (bool, string) {
	var nextRef uint32
	var ents string
	fmt.Sscanf(input, "%d %s", &nextRef, &ents)
	ok, msg, _ := oracleXRefTable(fioParseEntries(ents), nextRef)
	return ok, msg
}

type fioXRefStreamInfo struct {
	obj       []byte // the whole "N 0 obj … endobj" text
	dict      pdf.Dict
	raw       []byte // stream data as stored
	inflated  []byte // after zlib (compress/zlib), still predicted
	decoded   []byte // after the library's DecodeStream
	w         []int
	ss        [][2]uint32
	final     []pdf.VerifFIOEntry // table the rows are made from (without the xref stream's own entry)
	finalNext uint32
}

// fioWriteXRefStream runs the real writeXRefStream and takes the result apart.
func fioWriteXRefStream(es []pdf.VerifFIOEntry, nextRef uint32, extra pdf.Dict, v pdf.Version) (*fioXRefStreamInfo, error) {
	dict := pdf.Dict{}
	for k, val := range extra {
		dict[k] = val
	}
	out, hdr, err := fioWriteXRef(es, nextRef, dict, true, v, false)
	if err != nil {
		return nil, err
	}
	info := &fioXRefStreamInfo{obj: out}
	rd := bytes.NewReader(out)
	s := pdf.NewVerifScanner(bytes.NewReader(out), rd, func(o pdf.Object) (pdf.Integer, error) {
		if i, ok := o.(pdf.Integer); ok {
			return i, nil
		}
		return 0, fmt.Errorf("indirect length")
	})
	obj, ref, err := s.ReadIndirectObject()
	if err != nil {
		return nil, fmt.Errorf("xref stream object unreadable: %w", err)
	}
	stm, ok := obj.(*pdf.Stream)
	if !ok {
		return nil, fmt.Errorf("xref section is %T", obj)
	}
	if ref != pdf.NewReference(nextRef, 0) {
		return nil, fmt.Errorf("xref stream has reference %v, want %d 0", ref, nextRef)
	}
	info.dict = stm.Dict
	start, length := pdf.VerifStreamExtent(stm)
	info.raw = out[start : start+length]
	zr, err := zlib.NewReader(bytes.NewReader(info.raw))
	if err != nil {
		return nil, fmt.Errorf("zlib: %w", err)
	}
	info.inflated, err = io.ReadAll(zr)
	if err != nil {
		return nil, fmt.Errorf("zlib: %w", err)
	}
	dr, err := pdf.DecodeStream(fioNoGetter, nil, stm)
	if err != nil {
		return nil, fmt.Errorf("DecodeStream: %w", err)
	}
	info.decoded, err = io.ReadAll(dr)
	if err != nil {
		return nil, fmt.Errorf("DecodeStream read: %w", err)
	}
	info.w, info.ss, err = pdf.VerifCheckXRefStreamDict(stm.Dict, length)
	if err != nil {
		return info, fmt.Errorf("checkXRefStreamDict rejects the writer's dictionary: %w", err)
	}
	for _, e := range es {
		if e.Num < nextRef {
			info.final = append(info.final, e)
		}
	}
	// The rows are produced before OpenStream records the stream's own
	// entry: the xref stream describes itself as a free (all zero) entry.
	_ = hdr
	info.finalNext = nextRef + 1
	return info, nil
}

// oracleXRefStream: decode(encode tbl) == tbl for in-use and compressed
// entries, free and unwritten numbers decode as free; W holds every field.
func oracleXRefStream(es []pdf.VerifFIOEntry, nextRef uint32) (bool, string, *fioXRefStreamInfo) {
	info, err := fioWriteXRefStream(es, nextRef, nil, pdf.V1_7)
	if err != nil {
		return false, err.Error(), info
	}
	if info.dict["Type"] != pdf.Name("XRef") || info.dict["Size"] != pdf.Integer(info.finalNext) {
		return false, "wrong /Type or /Size", info
	}
	got, err := pdf.VerifDecodeXRefStream(nil, info.decoded, info.w, info.ss)
	if err != nil {
		return false, "decodeXRefStream failed: " + err.Error(), info
	}
	gotMap := map[uint32]pdf.VerifFIOEntry{}
	for _, g := range got {
		gotMap[g.Num] = g
	}
	seen := map[uint32]bool{}
	for _, e := range info.final {
		seen[e.Num] = true
		g, ok := gotMap[e.Num]
		switch {
		case e.Pos < 0 && e.InStream == 0:
			if ok && g.Pos >= 0 {
				return false, fmt.Sprintf("free entry %d decoded as in use: %+v", e.Num, g), info
			}
			if ok && g.Gen != e.Gen {
				// the third field of a free entry is its generation number (65535 for object 0)
				return false, fmt.Sprintf("free-generation: free entry %d with generation %d is written as generation %d; W=%v", e.Num, e.Gen, g.Gen, info.w), info
			}
		case e.InStream == 0 || e.Pos >= 0:
			// in use (a compressed entry with negative index cannot be produced by the writer)
			if !ok || g != e {
				return false, fmt.Sprintf("entry %d decoded as %+v (present=%v), want %+v; W=%v", e.Num, g, ok, e, info.w), info
			}
		}
	}
	for n, g := range gotMap {
		if !seen[n] && g.Pos >= 0 {
			return false, fmt.Sprintf("unwritten number %d decoded as in use: %+v", n, g), info
		}
		if n >= info.finalNext {
			return false, fmt.Sprintf("entry %d beyond /Size", n), info
		}
	}
	return true, "", info
}

func replayFIOXRefStream(input string) (bool, string) {
	var nextRef uint32
	var ents string
	fmt.Sscanf(input, "%d %s", &nextRef, &ents)
	ok, msg, _ := oracleXRefStream(fioParseEntries(ents), nextRef)
	return ok, msg
}

// ---- correspondence lines ----

func fioImplReadTable(pre []pdf.VerifFIOEntry, data []byte) string {
	got, trailer, pos, err := pdf.VerifReadXRefTable(pre, data)
	if err != nil {
		return "err " + fioErrClass(err)
	}
	return fmt.Sprintf("ok %s %s %d", fioEntries(got), wireNorm(trailer), pos)
}

func fioEmitReadTable(c *Ctx, pre []pdf.VerifFIOEntry, data []byte) {
	c.Emit("FIO rdtab "+fioEntries(pre)+" "+hexWire(data), fioImplReadTable(pre, data))
}

func fioEmitDecodeStream(c *Ctx, pre []pdf.VerifFIOEntry, data []byte, w []int, ss [][2]uint32) {
	got, err := pdf.VerifDecodeXRefStream(pre, data, w, ss)
	res := "ok " + fioEntries(got)
	if err != nil {
		res = "err " + fioErrClass(err)
	}
	c.Emit(fmt.Sprintf("FIO xsdec %s %s %d %d %d %s", fioEntries(pre), hexWire(data), w[0], w[1], w[2], fioPairs(ss)), res)
}

func fioMutate(r *Rand, data []byte) []byte {
	out := append([]byte(nil), data...)
	if len(out) == 0 {
		return out
	}
	switch r.Intn(7) {
	case 0: // flip one byte to a structural character
		out[r.Intn(len(out))] = Pick(r, []byte{' ', '\n', '\r', 'n', 'f', '0', '9', '+', '-', 'x', '6'})
	case 1: // delete one byte (19-byte lines)
		i := r.Intn(len(out))
		out = append(out[:i], out[i+1:]...)
	case 2: // truncate
		out = out[:r.Intn(len(out))]
	case 3: // turn CRLF line ends into LF only / CR only
		eol := Pick(r, []string{"\n", "\r", " \n", " \r"})
		out = bytes.ReplaceAll(out, []byte("\r\n"), []byte(eol))
	case 4: // 65536 generation
		out = bytes.Replace(out, []byte(" 65535 f"), []byte(" 65536 "+Pick(r, []string{"f", "n", "x"})), 1)
	case 5: // insert a byte
		i := r.Intn(len(out))
		out = append(out[:i], append([]byte{Pick(r, []byte{' ', '0', '\n', '%'})}, out[i:]...)...)
	case 6: // random byte
		out[r.Intn(len(out))] = byte(r.U64())
	}
	return out
}

func fioLine(r *Rand) string {
	pos := r.U64() % 10000000000
	gen := Pick(r, []int{0, 0, 1, 65535, r.Intn(65536)})
	eol := Pick(r, []string{"\r\n", "\r\n", " \n", " \r", "\n", "\r"})
	return fmt.Sprintf("%010d %05d %s%s", pos, gen, Pick(r, []string{"n", "n", "f"}), eol)
}

// fioHandTable builds a table text with several subsections by hand.
func fioHandTable(r *Rand) []byte {
	var sb strings.Builder
	sb.WriteString("xref" + Pick(r, []string{"\n", "\r\n", " \n", "\n% c\n"}))
	nsub := 1 + r.Intn(3)
	for s := 0; s < nsub; s++ {
		start := r.Intn(12)
		if r.P(1, 4) {
			start = 1
		}
		n := r.Intn(5)
		fmt.Fprintf(&sb, "%d %d%s", start, n, Pick(r, []string{"\n", "\r\n", " \n"}))
		for i := 0; i < n; i++ {
			if s == 0 && i == 0 && r.P(1, 2) {
				sb.WriteString("0000000000 65535 f" + Pick(r, []string{"\r\n", " \n", "\n"}))
			} else {
				sb.WriteString(fioLine(r))
			}
		}
	}
	sb.WriteString("trailer\n<< /Size 20 /Root 1 0 R >>\n")
	return []byte(sb.String())
}

func runFIOXRef(c *Ctx) {
	r := c.R.Fork()
	nTab := 250
	if c.Thorough {
		nTab = 10000
	}

	// 1. random tables through the real writer and back
	for i := 0; i < nTab; i++ {
		nextRef := 1 + r.Intn(12)
		if r.P(1, 10) {
			nextRef = 1 + r.Intn(300)
		}
		stream := r.Bool()
		wide := r.P(1, 8)
		es := fioGenTable(r, nextRef, stream || r.P(1, 10), wide || stream)
		key := fmt.Sprintf("%d %s", nextRef, fioEntries(es))
		nontriv := false
		for _, e := range es {
			if e.Pos >= 0 {
				nontriv = true
			}
		}
		c.Case(fmt.Sprintf("xref %v %s", stream, key), nontriv)
		if !stream {
			c.Stat("xref_table_cases")
			ok, msg, out := oracleXRefTable(es, uint32(nextRef))
			if !ok {
				vkey := "xref-table-rt"
				if strings.HasPrefix(msg, "offset-overflow:") {
					vkey = "xref-table-offset-overflow"
				}
				c.Violate("xref-table-rt", vkey, msg, key)
			}
			// model encoder must produce the same bytes
			res := "err"
			if idx := bytes.Index(out, []byte("trailer\n")); idx >= 0 {
				res = "ok " + hexWire(out[:idx])
			}
			c.Emit("FIO xtab "+fmt.Sprint(nextRef)+" "+fioEntries(es), res)
			if len(out) > 0 {
				fioEmitReadTable(c, nil, out)
				if i < 3 {
					c.Sample("xref table: " + string(out))
				}
				for k := 0; k < 3; k++ {
					c.Stat("xref_table_mutants")
					fioEmitReadTable(c, nil, fioMutate(r, out))
				}
			}
		} else {
			c.Stat("xref_stream_cases")
			ok, msg, info := oracleXRefStream(es, uint32(nextRef))
			if !ok {
				vkey := "xref-stream-rt"
				if strings.HasPrefix(msg, "free-generation:") {
					vkey = "xref-stream-object0-generation"
				}
				c.Violate("xref-stream-rt", vkey, msg, key)
			}
			if info == nil || info.w == nil {
				continue
			}
			c.Stat(fmt.Sprintf("xref_stream_W_%d_%d", info.w[1], info.w[2]))
			// model encoder: same widths, same predicted rows
			c.Emit(fmt.Sprintf("FIO xstm %d %s", info.finalNext, fioEntries(info.final)),
				fmt.Sprintf("ok %d %d %s", info.w[1], info.w[2], hexWire(info.inflated)))
			// the dictionary written by the writer is accepted identically
			c.Emit(fmt.Sprintf("FIO xschk %s %d", wire(info.dict), len(info.raw)),
				fmt.Sprintf("ok %d %d %d %s", info.w[0], info.w[1], info.w[2], fioPairs(info.ss)))
			// predictor undo and row decoding
			c.Emit(fmt.Sprintf("FIO pngup %d %s", info.w[0]+info.w[1]+info.w[2], hexWire(info.inflated)), "ok "+hexWire(info.decoded))
			fioEmitDecodeStream(c, nil, info.decoded, info.w, info.ss)
			// free entry generation truncated to the width of field 3?
			got, _ := pdf.VerifDecodeXRefStream(nil, info.decoded, info.w, info.ss)
			for _, g := range got {
				for _, e := range info.final {
					if e.Num == g.Num && e.Pos < 0 && e.InStream == 0 && e.Gen != g.Gen {
						c.Stat("xref_stream_free_gen_changed")
					}
				}
			}
			for k := 0; k < 3; k++ {
				// mutated rows, other widths, pre-existing entries
				data := fioMutate(r, info.decoded)
				w := append([]int(nil), info.w...)
				if r.P(1, 3) {
					w = []int{r.Intn(3), r.Intn(9), r.Intn(9)}
					if w[0]+w[1]+w[2] == 0 {
						w[1] = 1
					}
				}
				ss := info.ss
				if r.P(1, 3) {
					ss = [][2]uint32{{uint32(r.Intn(5)), uint32(r.Intn(6))}, {uint32(10 + r.Intn(5)), uint32(r.Intn(4))}}
				}
				var pre []pdf.VerifFIOEntry
				if r.P(1, 3) {
					pre = fioGenTable(r, 6, true, true)
				}
				c.Stat("xref_stream_mutants")
				fioEmitDecodeStream(c, pre, data, w, ss)
			}
		}
	}

	// 2. hand-built tables: subsections, repairs, pre-existing entries
	nHand := 300
	if c.Thorough {
		nHand = 6000
	}
	for i := 0; i < nHand; i++ {
		data := fioHandTable(r)
		if r.P(1, 3) {
			data = fioMutate(r, data)
		}
		var pre []pdf.VerifFIOEntry
		if r.P(1, 3) {
			pre = fioGenTable(r, 8, true, false)
		}
		c.Stat("xref_hand_tables")
		c.Case("hand "+string(data)+fioEntries(pre), true)
		fioEmitReadTable(c, pre, data)
	}
	for _, s := range []string{
		"xref\n1 2\n0000000000 65535 f\r\n0000000017 00000 n\r\ntrailer\n<<>>\n",      // off-by-one repair
		"xref\n0 2\n0000000000 65536 f\r\n0000000017 00000 n\r\ntrailer\n<<>>\n",      // 65536 repair
		"xref\n0 2\n0000000000 65536 n\r\n0000000017 00000 n\r\ntrailer\n<<>>\n",      // 65536 repair turns n into f
		"xref\n0 2\n0000000000 65535 f\n0000000017 00000 n\ntrailer\n<<>>\n",          // 19-byte lines
		"xref\n0 1\n0000000000 65535 f\r\n",                                           // no trailer
		"xref\n0 1\n0000000000 65535 f\r\ntrailer\n",                                  // no dict
		"xref\n0 2\n0000000000 65535 f\r\n000000001",                                  // cut line
		"xref\n0 1\n+000000012 00001 n\r\ntrailer\n<<>>\n",                            // sign accepted by ParseInt
		"xref\n0 1\n-000000012 00001 n\r\ntrailer\n<<>>\n",                            // negative offset
		"xref\n0 1\n0000000012 +0001 n\r\ntrailer\n<<>>\n",                            // sign rejected by ParseUint
		"xref\n16777215 1\n0000000012 00001 n\r\ntrailer\n<<>>\n",                     // last legal number
		"xref\n16777216 0\ntrailer\n<<>>\n",                                           // start out of range
		"xref\n1 9223372036854775807\ntrailer\n<<>>\n",                                // start+length wraps
		"xref\n0 16777217\n0000000000 65535 f\r\ntrailer\n<<>>\n",                     // too long
		"xref\n-1 1\ntrailer\n<<>>\n", "xref", "xref\n", "xreg\n0 0\ntrailer\n<<>>\n", // misc
		"xref\n0 0\ntrailer\n<< /Size 1 /Prev 17 /XRefStm 5 >>",
		"xref\n0 1\n0000000000 65535 f\r\n2 1\n0000000099 00000 n\r\n0 1\n0000000055 00000 n\r\ntrailer\n<<>>\n", // duplicate number in later subsection
	} {
		c.Stat("xref_fixed_tables")
		fioEmitReadTable(c, nil, []byte(s))
	}

	// 3. xref stream dictionaries
	nDict := 300
	if c.Thorough {
		nDict = 5000
	}
	genInt := func() pdf.Object {
		switch r.Intn(8) {
		case 0:
			return pdf.Integer(-1)
		case 1:
			return pdf.Integer(Pick(r, []int{0, 8, 9, 1 << 24, 1<<24 + 1, 8192, 8193}))
		case 2:
			return pdf.Real(2)
		case 3:
			return pdf.Name("x")
		default:
			return pdf.Integer(r.Intn(12))
		}
	}
	for i := 0; i < nDict; i++ {
		d := pdf.Dict{}
		if r.P(9, 10) {
			d["Size"] = genInt()
			if r.P(1, 2) {
				d["Size"] = pdf.Integer(r.Intn(20000))
			}
		}
		if r.P(9, 10) {
			n := 3
			if r.P(1, 10) {
				n = r.Intn(5)
			}
			W := pdf.Array{}
			for j := 0; j < n; j++ {
				if r.P(4, 5) {
					W = append(W, pdf.Integer(r.Intn(9)))
				} else {
					W = append(W, genInt())
				}
			}
			d["W"] = W
		}
		if r.P(1, 2) {
			n := 2 * r.Intn(3)
			if r.P(1, 10) {
				n++
			}
			ind := pdf.Array{}
			for j := 0; j < n; j++ {
				ind = append(ind, genInt())
			}
			d["Index"] = ind
			if r.P(1, 10) {
				d["Index"] = genInt()
			}
			if r.P(1, 10) {
				d["Index"] = nil
			}
		}
		rawLen := int64(Pick(r, []int{-5, 0, 1, 10, 100, 5000}))
		w, ss, err := pdf.VerifCheckXRefStreamDict(d, rawLen)
		res := "err " + fioErrClass(err)
		if err == nil {
			res = fmt.Sprintf("ok %d %d %d %s", w[0], w[1], w[2], fioPairs(ss))
			c.Stat("xschk_accepted")
		} else {
			c.Stat("xschk_rejected")
		}
		c.Emit(fmt.Sprintf("FIO xschk %s %d", wire(d), rawLen), res)
	}

	// 4. encodeInt64 / decodeInt
	nInt := 400
	if c.Thorough {
		nInt = 20000
	}
	for i := 0; i < nInt; i++ {
		x := r.U64() >> uint(r.Intn(64))
		if r.P(1, 4) {
			x = uint64(Pick(r, fioPosBoundaries))
		}
		if r.P(1, 10) {
			x = ^uint64(0) >> uint(r.Intn(3))
		}
		w := r.Intn(10)
		enc := pdf.VerifEncodeInt64(x, w)
		c.Emit(fmt.Sprintf("FIO encint %d %d", x, w), "ok "+hexWire(enc))
		buf := enc
		if r.P(1, 3) {
			buf = r.Bytes(r.Intn(9))
		}
		if len(buf) <= 8 {
			v, err := pdf.VerifDecodeInt(buf)
			res := fmt.Sprintf("ok %d", v)
			if err != nil {
				res = "err malformed"
			}
			c.Emit("FIO decint "+hexWire(buf), res)
			// oracle: decodeInt(encodeInt64(x, w)) == x when x fits w bytes and int64
			if len(enc) == len(buf) && bytes.Equal(enc, buf) && w <= 8 && x <= 1<<63-1 && (w == 8 || x < 1<<(8*uint(w))) {
				if err != nil || uint64(v) != x {
					c.Violate("xref-int-rt", "xref-int-rt", fmt.Sprintf("decodeInt(encodeInt64(%d,%d)) = %d, %v", x, w, v, err), fmt.Sprintf("%d %d", x, w))
				}
			}
		}
	}
}

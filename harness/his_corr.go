package main

import (
	"math"
	"bytes"
	"fmt"
	"sort"
	"strings"

	"seehuhn.de/go/pdf"
)

// Correspondence lines for the byte-level models of the HIS work package
// (Model/HISReader.lean, Model/HISObj.lean): the real code and the model are
// run on the same bytes — valid files from the independent serialiser, damaged
// copies of them, and directly generated cross-reference sections.

func init() {
	addRun("C04", "correspondence of the reader model on bytes: NewReader+Get on valid files (xref map, trailer, every reference), readXRef on damaged copies of unfiltered files (byte flips, deletions, insertions, truncation, /Prev and startxref rewrites incl. cycles), readXRefTable/decodeXRefStream on generated and damaged sections (19-byte lines, the 65536 and off-by-one repairs, overlapping subsections, all /W, 8-byte fields, short data), ReadIndirectObject on damaged objects with every kind of /Length answer; distinct by input bytes; all non-trivial", runC04Corr)
}

func hisXMapToken(es []pdf.VerifHisXRefEntry) string {
	if len(es) == 0 {
		return "-"
	}
	parts := make([]string, len(es))
	for i, e := range es {
		parts[i] = fmt.Sprintf("%d:%d:%d:%d", e.Num, e.Pos, e.Generation, e.InStream)
	}
	return strings.Join(parts, ",")
}

func hisDecodedToken(f *hisFile) string {
	if len(f.Decoded) == 0 {
		return "-"
	}
	var keys []int
	for k := range f.Decoded {
		keys = append(keys, k)
	}
	sort.Ints(keys)
	parts := make([]string, len(keys))
	for i, k := range keys {
		parts[i] = fmt.Sprintf("%d:%s", k, hexWire(f.Decoded[k]))
	}
	return strings.Join(parts, ",")
}

// hisOpenLine: what NewReader and Get say about a file.
func hisOpenLine(data []byte, qs []hisQuery) string {
	rd, err := hisOpen(data)
	if err != nil {
		return "err " + errClass(err)
	}
	answers := make([]string, len(qs))
	for i, q := range qs {
		a := hisGet(rd, q.n, q.g)
		answers[i] = a
	}
	return "ok " + strings.Join(answers, " ") + " T" + wireNorm(rd.GetMeta().Trailer) + " X" + hisXMapToken(pdf.VerifHisXRef(rd))
}

func hisXrefLine(data []byte) (line string) {
	defer func() {
		if p := recover(); p != nil {
			line = fmt.Sprintf("panic %v", p)
		}
	}()
	es, tr, hdr, err := pdf.VerifHisReadXRef(bytes.NewReader(data), int64(len(data)))
	if err != nil {
		return "err " + errClass(err)
	}
	return fmt.Sprintf("ok %d X%s T%s", hdr, hisXMapToken(es), wireNorm(tr))
}

func hisGetIntOfMode(mode string) func(pdf.Object) (pdf.Integer, error) {
	return func(o pdf.Object) (pdf.Integer, error) {
		if i, ok := o.(pdf.Integer); ok {
			return i, nil
		}
		if strings.HasPrefix(mode, "v") {
			var k int64
			fmt.Sscanf(mode[1:], "%d", &k)
			return pdf.Integer(k), nil
		}
		if mode == "m" {
			// a malformed-file error: the length is unknown, the extent is recovered
			return 0, &pdf.MalformedFileError{Err: fmt.Errorf("no integer")}
		}
		// "e": a read error, which ReadStreamData hands on
		return 0, fmt.Errorf("no integer")
	}
}

func hisRdobjLine(data []byte, pos int, mode string, scalar bool) (line string) {
	defer func() {
		if p := recover(); p != nil {
			line = fmt.Sprintf("panic %v", p)
		}
	}()
	s := pdf.NewVerifScannerAt(bytes.NewReader(data), int64(len(data)), int64(pos), hisGetIntOfMode(mode), scalar)
	o, ref, err := s.ReadIndirectObject()
	if err != nil {
		return "err " + errClass(err)
	}
	var v string
	if st, ok := o.(*pdf.Stream); ok {
		start, l := pdf.VerifHisStreamExtent(st)
		v = fmt.Sprintf("S%s#%d+%d", wireNorm(st.Dict), start, l)
	} else {
		v = wireNorm(o)
	}
	return fmt.Sprintf("ok %d %d %d %s", ref.Number(), ref.Generation(), s.Pos(), v)
}

func hisMutate(r *Rand, data []byte) []byte {
	b := append([]byte(nil), data...)
	for k := 1 + r.Intn(3); k > 0 && len(b) > 0; k-- {
		p := r.Intn(len(b))
		switch r.Intn(6) {
		case 0:
			b[p] = byte(r.U64())
		case 1:
			b[p] = Pick(r, []byte(" \n\r0159fnR<>[]/%()"))
		case 2:
			b = append(b[:p:p], b[p+1:]...)
		case 3:
			b = append(b[:p:p], append([]byte{Pick(r, []byte(" \n0x"))}, b[p:]...)...)
		case 4:
			b = b[:p]
		default:
			// rewrite a number in place
			q := p
			for q < len(b) && b[q] >= '0' && b[q] <= '9' {
				b[q] = byte('0' + r.Intn(10))
				q++
			}
		}
	}
	return b
}

func hisBoolTag(b bool) string {
	if b {
		return "1"
	}
	return "0"
}

// hisGenXrefTable writes a table section directly (valid and slightly invalid forms).
func hisGenXrefTable(r *Rand) []byte {
	var b bytes.Buffer
	b.WriteString("xref")
	b.WriteString(Pick(r, []string{"\n", "\r\n", "\r", " \n", "\n\n", "%c\n"}))
	nsub := r.Intn(4)
	for i := 0; i < nsub; i++ {
		start := Pick(r, []int{0, 1, 1, 2, 5, 7, 100, 16777215, 16777216})
		if r.Bool() {
			start = r.Intn(8)
		}
		n := r.Intn(4)
		fmt.Fprintf(&b, "%d %d", start, n)
		b.WriteString(Pick(r, []string{"\n", "\r\n", " \n", "\r"}))
		for j := 0; j < n; j++ {
			off := r.Intn(100000)
			gen := Pick(r, []int{0, 0, 0, 1, 65535, 65536, 70000})
			tp := Pick(r, []string{"n", "n", "f", "x"})
			eol := Pick(r, []string{" \n", "\r\n", " \r", "\n", "  "})
			if r.P(1, 8) {
				off, gen, tp = 0, 65535, "f"
			}
			if r.P(1, 12) {
				fmt.Fprintf(&b, "%s %05d %s%s", Pick(r, []string{"+000000012", "-000000001", "00000000 1", "0x00000012"}), gen%100000, tp, eol)
			} else {
				fmt.Fprintf(&b, "%010d %05d %s%s", off, gen%100000, tp, eol)
			}
		}
	}
	if !r.P(1, 10) {
		b.WriteString(Pick(r, []string{"trailer", "trailer\n", "trailer ", "\ntrailer\r\n"}))
		rd := &hisRenderer{r: r.Fork()}
		tr := pdf.Dict{"Size": pdf.Integer(r.Intn(20))}
		if r.Bool() {
			tr["Prev"] = pdf.Integer(r.Intn(1000))
		}
		if r.P(1, 3) {
			tr["XRefStm"] = Pick(r, []pdf.Object{pdf.Integer(5), pdf.Name("x")})
		}
		b.Write(rd.obj(tr))
	}
	return b.Bytes()
}

func runC04Corr(c *Ctx) {
	r := c.R
	n := 600
	if c.Thorough {
		n = 4000
	}
	for i := 0; i < n; i++ {
		c.Case(fmt.Sprintf("corr%d", i), true)
		// valid file: open + every reference
		seed := r.U64()
		f := hisCase("rnd", seed, nil)
		qs := hisQueries(f)
		c.Emit("HIS open "+hexWire(f.Bytes)+" "+hisDecodedToken(f)+" "+hisQueryToken(qs), hisOpenLine(f.Bytes, qs))
		c.Stat("corr_open_valid")

		// damaged copies of an unfiltered file: readXRef only
		fr := &Rand{s: r.U64()}
		plan := hisRandomPlan(fr, false)
		uf := hisBuildOpt(fr, plan, false, nil, true)
		for k := 0; k < 4; k++ {
			d := hisMutate(r, uf.Bytes)
			line := hisXrefLine(d)
			c.Emit("HIS xref "+hexWire(d)+" -", line)
			c.Stat("corr_xref_damaged_" + strings.Fields(line)[0])
			if strings.HasPrefix(line, "panic") {
				c.Violate("history", "readxref-panic", line, fmt.Sprintf("rnd %d", seed))
			}
		}
		// damaged objects
		var objNums []int
		for num := range uf.ObjAt {
			objNums = append(objNums, num)
		}
		sort.Ints(objNums)
		for _, num := range objNums {
			at := uf.ObjAt[num]
			if r.P(1, 2) {
				continue
			}
			end := bytes.Index(uf.Bytes[at:], []byte("endobj"))
			if end < 0 {
				continue
			}
			end += at + 6 + r.Intn(3)
			if end > len(uf.Bytes) {
				end = len(uf.Bytes)
			}
			region := uf.Bytes[at:end]
			if r.Bool() {
				region = hisMutate(r, region)
			}
			pre := []byte(Pick(r, []string{"", "\n", "%x\n "}))
			data := append(append([]byte(nil), pre...), region...)
			mode := Pick(r, []string{"e", "m", "v0", "v3", "v-1", "v100000", fmt.Sprintf("v%d", r.Intn(60))})
			scalar := r.P(1, 6)
			c.Emit(fmt.Sprintf("HIS rdobj %s %d %s %s", hexWire(data), 0, mode, hisBoolTag(scalar)), hisRdobjLine(data, 0, mode, scalar))
			c.Stat("corr_rdobj")
			_ = num
		}
		// stream objects with arbitrary bodies and every kind of /Length answer: all branches of
		// ReadStreamData, endstreamAt and trimTrailingEOL (bodies ending in EOLs, containing
		// EOL+endstream, empty bodies, missing endstream), pure correspondence
		for k := 0; k < 4; k++ {
			body := hisGenBytes(r, 30)
			switch r.Intn(6) {
			case 0:
				body = append(body, Pick(r, []string{"\n", "\r\n", "\r", "\n\n", "\r\r\n", " ", "\x00\n"})...)
			case 1:
				body = append(append(body, "\nendstream\n"...), hisGenBytes(r, 5)...)
			case 2:
				body = nil
			case 3:
				body = append(bytes.Repeat([]byte{' '}, 60+r.Intn(10)), body...)
			case 4:
				// lines starting with endstream (the recovery stops at the first one), endobj and
				// line-initial object headers in the data
				for k := 1 + r.Intn(3); k > 0; k-- {
					w := Pick(r, []string{"\nendstream x", "\rendstream\r\nendobj", "\n12 0 obj ", "endobj", "\nendstream\n\nendstream ", "\r\nendstream \t\x00endobj", "\n7\x000\tobj", "\nendstreamendobj", "\n 3 0 obj"})
					p := r.Intn(len(body) + 1)
					body = append(body[:p:p], append([]byte(w), body[p:]...)...)
				}
			}
			if r.P(1, 4) {
				// D-C20-1: the data ends in EOL bytes of its own
				body = append(body, Pick(r, []string{"\n", "\r\n", "\r", "\n\n", "\r\r\n", "\n\r"})...)
			}
			var ob bytes.Buffer
			fmt.Fprintf(&ob, "%d %d obj", 1+r.Intn(9), r.Intn(2))
			ob.WriteString(Pick(r, []string{" ", "\n", "%c\n"}))
			ob.WriteString("<<")
			declared := Pick(r, []int{len(body), len(body), len(body) - 1, len(body) + 1, len(body) + 2, 0, 3, -1, 100000})
			if r.P(1, 6) {
				// bfd427f: lengths whose end is at, just below or beyond the largest int64
				// (the data starts 20..60 bytes into these inputs)
				declared = Pick(r, []int{math.MaxInt64, math.MaxInt64 - 1, math.MaxInt64 - 20 - r.Intn(60), math.MaxInt64 - 20 - r.Intn(60), 1 << 62})
			}
			switch r.Intn(4) {
			case 0:
			case 1:
				fmt.Fprintf(&ob, "/Length %d 0 R", 1+r.Intn(5))
			default:
				fmt.Fprintf(&ob, "/Length %d", declared)
			}
			ob.WriteString("/K 1>>")
			ob.WriteString(Pick(r, []string{"", " ", "\n", "\r\n"}))
			ob.WriteString("stream")
			ob.WriteString(Pick(r, []string{"\n", "\r\n", "\r", "", " \n", "\n\n"}))
			ob.Write(body)
			ob.WriteString(Pick(r, []string{"\n", "\r\n", "\r", "", " ", "\n\n", "\r\n\n"}))
			if !r.P(1, 8) {
				ob.WriteString("endstream")
			}
			ob.WriteString(Pick(r, []string{"\n", " ", "", "\r\n"}))
			if !r.P(1, 8) {
				ob.WriteString("endobj\n")
			}
			if r.P(1, 4) {
				ob.WriteString("2 0 obj<</Length 1>>stream\nx\nendstream endobj\n")
			}
			data := ob.Bytes()
			if r.P(1, 5) {
				data = hisMutate(r, data)
			}
			mode := Pick(r, []string{"e", "m", "m", "v0", fmt.Sprintf("v%d", declared), fmt.Sprintf("v%d", len(body)), "v-1", fmt.Sprintf("v%d", r.Intn(40))})
			c.Emit(fmt.Sprintf("HIS rdobj %s %d %s %s", hexWire(data), 0, mode, "0"), hisRdobjLine(data, 0, mode, false))
			c.Stat("corr_rdobj_stream")
		}
		// generated table sections
		for k := 0; k < 3; k++ {
			tb := hisGenXrefTable(r)
			if r.P(1, 3) {
				tb = hisMutate(r, tb)
			}
			var pre []pdf.VerifHisXRefEntry
			for j := r.Intn(3); j > 0; j-- {
				pre = append(pre, pdf.VerifHisXRefEntry{Num: uint32(r.Intn(8)), Pos: int64(r.Intn(50)), Generation: uint16(r.Intn(2))})
			}
			sort.Slice(pre, func(a, b int) bool { return pre[a].Num < pre[b].Num })
			var dedup []pdf.VerifHisXRefEntry
			for _, e := range pre {
				if len(dedup) == 0 || dedup[len(dedup)-1].Num != e.Num {
					dedup = append(dedup, e)
				}
			}
			es, tr, err := pdf.VerifHisReadXRefTable(tb, dedup)
			line := ""
			if err != nil {
				line = "err " + errClass(err)
			} else {
				line = "ok " + hisXMapToken(es) + " T" + wireNorm(tr)
			}
			c.Emit("HIS xtab "+hexWire(tb)+" "+hisXMapToken(dedup), line)
			c.Stat("corr_xtab_" + strings.Fields(line)[0])
		}
		// generated stream sections
		for k := 0; k < 3; k++ {
			w := [3]int{r.Intn(3), r.Intn(4), r.Intn(3)}
			if r.P(1, 8) {
				w[r.Intn(3)] = Pick(r, []int{8, 9, 0})
			}
			size := r.Intn(12)
			d := pdf.Dict{"Size": pdf.Integer(size), "W": pdf.Array{pdf.Integer(w[0]), pdf.Integer(w[1]), pdf.Integer(w[2])}}
			nent := size
			if r.Bool() {
				var idx pdf.Array
				nent = 0
				for j := r.Intn(3); j >= 0; j-- {
					s0, n0 := r.Intn(size+2), r.Intn(4)
					idx = append(idx, pdf.Integer(s0), pdf.Integer(n0))
					nent += n0
				}
				if r.P(1, 10) {
					idx = append(idx, pdf.Integer(1))
				}
				d["Index"] = idx
			}
			if r.P(1, 12) {
				d["Size"] = Pick(r, []pdf.Object{pdf.Integer(-1), pdf.Integer(1 << 24), pdf.Integer(1<<24 + 1), pdf.Name("x")})
			}
			wt := w[0] + w[1] + w[2]
			dl := nent * wt
			if r.P(1, 5) {
				dl = r.Intn(dl + 3)
			}
			raw := make([]byte, dl)
			for j := range raw {
				switch r.Intn(3) {
				case 0:
					raw[j] = byte(r.Intn(3))
				case 1:
					raw[j] = 0
				default:
					raw[j] = byte(r.U64())
				}
			}
			rawLen := int64(r.Intn(50))
			var pre []pdf.VerifHisXRefEntry
			if r.Bool() {
				pre = append(pre, pdf.VerifHisXRefEntry{Num: uint32(r.Intn(6)), Pos: 7, Generation: 1})
			}
			es, err := pdf.VerifHisDecodeXRefStream(d, rawLen, raw, pre)
			line := ""
			if err != nil {
				line = "err " + errClass(err)
			} else {
				line = "ok " + hisXMapToken(es)
			}
			c.Emit(fmt.Sprintf("HIS xstm %s %d %s %s", wire(d), rawLen, hexWire(raw), hisXMapToken(pre)), line)
			c.Stat("corr_xstm_" + strings.Fields(line)[0])
		}
	}
}

package main

// TR run registered under C12: font/charcode Range.IsValid, canMerge,
// minLength against the generated Lean code.

import (
	"bytes"
	"fmt"
	"strings"

	"seehuhn.de/go/pdf/font/charcode"
)

func init() {
	addRun("C12", "TR: charcode.Range.IsValid on all (Low,High) over a 5-byte boundary alphabet with lengths 0..2 (incl. unequal lengths) and random ranges of length 0..5; canMerge on all pairs of valid ranges of length 1 and 2 over a boundary alphabet (and malformed pairs, where a Go panic must be predicted by the generated function); minLength on random code space ranges; every line answered by the generated Lean function. Oracles: IsValid against its definition; canMerge(r,s) implies that the union of the codes of r and s is the single range [r.Low, s.High] (identical ranges count as mergeable); minLength is the minimum length. Non-trivial: every case.", runTRC12)
	addReplay("C12", "tr-range", func(in string) (bool, string) {
		f := strings.Fields(in)
		if len(f) == 2 {
			return trRangeValidOracle(charcode.Range{Low: trUnhex(f[0]), High: trUnhex(f[1])})
		}
		return trCanMergeOracle(charcode.Range{Low: trUnhex(f[0]), High: trUnhex(f[1])}, charcode.Range{Low: trUnhex(f[2]), High: trUnhex(f[3])})
	})
}

func trRangeValidOracle(r charcode.Range) (ok bool, d string) {
	defer func() {
		if e := recover(); e != nil {
			ok, d = false, fmt.Sprintf("Range{%x,%x}.IsValid panicked: %v", r.Low, r.High, e)
		}
	}()
	want := len(r.Low) == len(r.High) && len(r.Low) >= 1 && len(r.Low) <= 4
	if want {
		for i := range r.Low {
			want = want && r.Low[i] <= r.High[i]
		}
	}
	got := r.IsValid()
	return got == want, fmt.Sprintf("Range{%x,%x}.IsValid() = %v, want %v", r.Low, r.High, got, want)
}

func trInRange(r charcode.Range, code []byte) bool {
	if len(code) != len(r.Low) {
		return false
	}
	for i, b := range code {
		if b < r.Low[i] || b > r.High[i] {
			return false
		}
	}
	return true
}

// for valid ranges of equal length <= 2: a positive canMerge means that [r.Low, s.High] is exactly r ∪ s
func trCanMergeOracle(r, s charcode.Range) (ok bool, d string) {
	defer func() {
		if e := recover(); e != nil {
			ok, d = false, fmt.Sprintf("canMerge(%x-%x, %x-%x) panicked on valid ranges: %v", r.Low, r.High, s.Low, s.High, e)
		}
	}()
	if !r.IsValid() || !s.IsValid() || len(r.Low) > 2 || len(s.Low) > 2 {
		return true, "outside the oracle's domain"
	}
	got := charcode.VerifTrCanMerge(r, s)
	d = fmt.Sprintf("canMerge(%x-%x, %x-%x) = %v", r.Low, r.High, s.Low, s.High, got)
	if !got {
		return true, d
	}
	m := charcode.Range{Low: r.Low, High: s.High}
	n := len(r.Low)
	code := make([]byte, n)
	for v := 0; v < 1<<(8*uint(n)); v++ {
		for i := 0; i < n; i++ {
			code[i] = byte(v >> (8 * uint(n-1-i)))
		}
		inR, inS, inM := trInRange(r, code), trInRange(s, code), trInRange(m, code)
		if inM != (inR || inS) {
			return false, d + fmt.Sprintf("; code %x: in merged=%v, in r=%v, in s=%v", code, inM, inR, inS)
		}
	}
	return true, d
}

func runTRC12(c *Ctx) {
	valid := func(r charcode.Range) {
		args := []string{trHex(r.Low), trHex(r.High)}
		trEmit(c, "rangeIsValid", args, trCall(func() string { return fmt.Sprint(r.IsValid()) }))
		c.Case("trvalid"+strings.Join(args, "/"), true)
		if ok, d := trRangeValidOracle(r); !ok {
			c.Violate("tr-range", "tr-range-isvalid", d, strings.Join(args, " "))
		}
	}
	merge := func(r, s charcode.Range) {
		args := []string{trHex(r.Low), trHex(r.High), trHex(s.Low), trHex(s.High)}
		trEmit(c, "canMerge", args, trCall(func() string { return fmt.Sprint(charcode.VerifTrCanMerge(r, s)) }))
		c.Case("trmerge"+strings.Join(args, "/"), true)
		if ok, d := trCanMergeOracle(r, s); !ok {
			c.Violate("tr-range", "tr-range-canmerge", d, strings.Join(args, " "))
		}
	}
	alpha := []byte{0x00, 0x01, 0x7f, 0x80, 0xff}
	var strs [][]byte
	strs = append(strs, nil)
	for _, a := range alpha {
		strs = append(strs, []byte{a})
		for _, b := range alpha {
			strs = append(strs, []byte{a, b})
		}
	}
	var valids []charcode.Range
	for _, lo := range strs {
		for _, hi := range strs {
			r := charcode.Range{Low: lo, High: hi}
			valid(r)
			if r.IsValid() {
				valids = append(valids, r)
			}
		}
	}
	for _, r := range valids {
		for _, s := range valids {
			if !c.Thorough && len(r.Low) == 2 && len(s.Low) == 2 && !c.R.P(1, 6) {
				continue
			}
			merge(r, s)
		}
	}
	n := 3000
	if c.Thorough {
		n = 60000
	}
	rnd := func() charcode.Range {
		l := c.R.Intn(6)
		lo, hi := c.R.Bytes(l), c.R.Bytes(l)
		if c.R.P(3, 4) {
			for i := range lo {
				if lo[i] > hi[i] {
					lo[i], hi[i] = hi[i], lo[i]
				}
			}
		}
		if c.R.P(1, 10) {
			hi = c.R.Bytes(c.R.Intn(6))
		}
		return charcode.Range{Low: lo, High: hi}
	}
	for i := 0; i < n; i++ {
		r := rnd()
		valid(r)
		s := rnd()
		if c.R.P(1, 2) && len(r.Low) == len(r.High) && len(r.Low) > 0 {
			// adjacent in one byte
			s = charcode.Range{Low: bytes.Clone(r.Low), High: bytes.Clone(r.High)}
			k := c.R.Intn(len(r.Low))
			if r.High[k] < 0xff {
				s.Low[k] = r.High[k] + 1
				s.High[k] = s.Low[k] + byte(c.R.Intn(256-int(s.Low[k])))
			}
			if c.R.P(1, 4) {
				j := c.R.Intn(len(r.Low))
				s.High[j] ^= byte(c.R.Intn(3))
			}
		}
		merge(r, s)
		var csr charcode.CodeSpaceRange
		var args []string
		for j := c.R.Intn(5); j > 0; j-- {
			q := rnd()
			csr = append(csr, q)
			args = append(args, trHex(q.Low), trHex(q.High))
		}
		trEmit(c, "minLength", args, trCall(func() string { return fmt.Sprint(charcode.VerifTrMinLength(csr)) }))
		// matchLen: length of the first range whose box contains the leading bytes of the string
		code := c.R.Bytes(c.R.Intn(6))
		if len(csr) > 0 && c.R.P(2, 3) {
			q := csr[c.R.Intn(len(csr))]
			if len(q.Low) == len(q.High) {
				code = code[:0]
				for j := range q.Low {
					lo, hi := int(q.Low[j]), int(q.High[j])
					if lo > hi {
						lo, hi = hi, lo
					}
					code = append(code, byte(lo+c.R.Intn(hi-lo+1)))
				}
				if c.R.P(1, 4) && len(code) > 0 {
					code[c.R.Intn(len(code))] ^= byte(1 << uint(c.R.Intn(8)))
				}
				code = append(code, c.R.Bytes(c.R.Intn(3))...)
			}
		}
		mres := trCall(func() string { return fmt.Sprint(charcode.VerifTrMatchLen(csr, code)) })
		trEmit(c, "matchLen", append([]string{trHex(code)}, args...), mres)
		wantM, panics := 0, false
		for _, q := range csr {
			if len(code) < len(q.Low) {
				continue
			}
			if len(q.High) < len(q.Low) {
				panics = true // the Go code indexes High out of range unless an earlier byte already fails
				break
			}
			if trInRange(q, code[:len(q.Low)]) {
				wantM = len(q.Low)
				break
			}
		}
		if !panics && mres != fmt.Sprint(wantM) {
			c.Violate("tr-range", "tr-range-matchlen", fmt.Sprintf("matchLen(%v, %x) = %s, want %d", args, code, mres, wantM), strings.Join(args, " "))
		}
		want := 1
		if len(csr) > 0 {
			want = len(csr[0].Low)
			for _, q := range csr {
				want = min(want, len(q.Low))
			}
		}
		if got := charcode.VerifTrMinLength(csr); got != want {
			c.Violate("tr-range", "tr-range-minlength", fmt.Sprintf("minLength(%v) = %d, want %d", args, got, want), strings.Join(args, " "))
		}
	}
	c.Sample("TR canMerge 00 7f 80 ff -> " + fmt.Sprint(charcode.VerifTrCanMerge(charcode.Range{Low: []byte{0}, High: []byte{0x7f}}, charcode.Range{Low: []byte{0x80}, High: []byte{0xff}})))
}

package main

// C18, syntactic inventory of `append` on shared slices.  `append(s, …)` writes into the spare
// capacity of s's backing array.  If s is a struct field or a package-level slice (not a local),
// and the result is not assigned back to that very field, the call uses a shared backing array as
// scratch space: two goroutines doing that on one object overwrite each other's bytes (the
// KeyForRef defect: `md5.Sum(append(sec.key, …))`).  On every run the anchored files are re-parsed
// and every append whose first argument is rooted in a field or a package-level variable is listed
// with its function and whether the result is assigned back; the list is the correspondence line
// `CONC appendinv` against `appendInventory` in lean/PdfVerif/Model/CONCProg.lean (theorem
// `append_inventory_assigned_back`), and an append that is not assigned back is the oracle
// violation `append-into-shared-slice` naming the function.

import (
	"fmt"
	"go/ast"
	"go/parser"
	"go/token"
	"path/filepath"
	"sort"
	"strings"
)

func init() {
	addRun("C18", "append inventory: every append whose first argument is a struct field or package-level slice in the anchored files (resource.go, cursor.go, reader.go, container.go, filter.go, scanner.go, crypto.go, resolve.go, xref.go, font/cmap/predefined.go, font/mapping/mapping.go), with its function and whether the result is assigned back to the same field; compared with the reviewed inventory. One case.", runConcAppendInventory)
	addReplay("C18", "appendinv", func(string) (bool, string) {
		line, viol, err := concAppendInventory(concRepo())
		if err != nil {
			return false, err.Error()
		}
		if len(viol) == 0 {
			return true, line
		}
		return false, strings.Join(viol, "\n") + "\n" + line
	})
}

var concAppendFiles = []string{"resource.go", "cursor.go", "cursorbridge.go", "reader.go", "container.go", "filter.go", "scanner.go", "crypto.go", "resolve.go", "xref.go", "font/cmap/predefined.go", "font/mapping/mapping.go"}

func concAppendInventory(repo string) (string, []string, error) {
	fset := token.NewFileSet()
	var items, viol []string
	// package-level variable names per directory
	pkgVars := map[string]map[string]bool{}
	dirOf := func(f string) string { return filepath.Dir(filepath.Join(repo, f)) }
	for _, f := range concAppendFiles {
		d := dirOf(f)
		if pkgVars[d] != nil {
			continue
		}
		pkgVars[d] = map[string]bool{}
		all, _ := filepath.Glob(filepath.Join(d, "*.go"))
		for _, g := range all {
			if strings.HasSuffix(g, "_test.go") {
				continue
			}
			af, err := parser.ParseFile(fset, g, nil, 0)
			if err != nil {
				return "", nil, err
			}
			for _, dcl := range af.Decls {
				if gd, ok := dcl.(*ast.GenDecl); ok && gd.Tok == token.VAR {
					for _, sp := range gd.Specs {
						for _, n := range sp.(*ast.ValueSpec).Names {
							pkgVars[d][n.Name] = true
						}
					}
				}
			}
		}
	}
	for _, f := range concAppendFiles {
		af, err := parser.ParseFile(fset, filepath.Join(repo, f), nil, 0)
		if err != nil {
			return "", nil, err
		}
		globals := pkgVars[dirOf(f)]
		for _, dcl := range af.Decls {
			fd, ok := dcl.(*ast.FuncDecl)
			if !ok || fd.Body == nil {
				continue
			}
			name := fd.Name.Name
			if fd.Recv != nil {
				name = "(" + concRecvName(fd.Recv) + ")." + name
			}
			// local names (parameters, receivers, := and var declarations) hide package-level ones
			locals := map[string]bool{}
			ast.Inspect(fd, func(n ast.Node) bool {
				switch x := n.(type) {
				case *ast.Field:
					for _, id := range x.Names {
						locals[id.Name] = true
					}
				case *ast.AssignStmt:
					if x.Tok == token.DEFINE {
						for _, l := range x.Lhs {
							if id, ok := l.(*ast.Ident); ok {
								locals[id.Name] = true
							}
						}
					}
				case *ast.ValueSpec:
					for _, id := range x.Names {
						locals[id.Name] = true
					}
				case *ast.RangeStmt:
					if x.Tok == token.DEFINE {
						if id, ok := x.Key.(*ast.Ident); ok {
							locals[id.Name] = true
						}
						if id, ok := x.Value.(*ast.Ident); ok {
							locals[id.Name] = true
						}
					}
				}
				return true
			})
			// the expression an append result is assigned to
			assignedTo := map[*ast.CallExpr]string{}
			ast.Inspect(fd.Body, func(n ast.Node) bool {
				if as, ok := n.(*ast.AssignStmt); ok && len(as.Lhs) == len(as.Rhs) {
					for i, r := range as.Rhs {
						if call, ok := r.(*ast.CallExpr); ok {
							assignedTo[call] = concExprText(fset, as.Lhs[i])
						}
					}
				}
				return true
			})
			ast.Inspect(fd.Body, func(n ast.Node) bool {
				call, ok := n.(*ast.CallExpr)
				if !ok || len(call.Args) == 0 {
					return true
				}
				if id, ok := call.Fun.(*ast.Ident); !ok || id.Name != "append" {
					return true
				}
				// strip slicing and indexing to find the root of the first argument
				base := call.Args[0]
				for {
					switch x := base.(type) {
					case *ast.SliceExpr:
						base = x.X
						continue
					case *ast.ParenExpr:
						base = x.X
						continue
					}
					break
				}
				kind := ""
				switch x := base.(type) {
				case *ast.SelectorExpr:
					kind = "field"
				case *ast.Ident:
					if globals[x.Name] && !locals[x.Name] {
						kind = "global"
					}
				case *ast.IndexExpr:
					if _, ok := x.X.(*ast.SelectorExpr); ok {
						kind = "field"
					}
				}
				if kind == "" {
					return true
				}
				baseText := concExprText(fset, base)
				mode := "temp"
				if assignedTo[call] == baseText {
					mode = "back"
				}
				item := fmt.Sprintf("%s:%s:append(%s):%s:%s", f, name, concExprText(fset, call.Args[0]), kind, mode)
				items = append(items, item)
				if mode == "temp" {
					viol = append(viol, fmt.Sprintf("%s: %s calls append(%s, …) on a %s and does not assign the result back to it: the spare capacity of a backing array shared by every user of the object is used as scratch space; two goroutines in %s overwrite each other's bytes (copy first: append(slices.Clip(x), …) or a fresh buffer)", f, name, concExprText(fset, call.Args[0]), map[string]string{"field": "struct field", "global": "package-level slice"}[kind], name))
				}
				return true
			})
		}
	}
	sort.Strings(items)
	line := strings.Join(items, " ")
	if line == "" {
		line = "-"
	}
	return line, viol, nil
}

func runConcAppendInventory(c *Ctx) {
	line, viol, err := concAppendInventory(concRepo())
	if err != nil {
		c.Violate("appendinv", "inventory-extraction", "cannot extract the append inventory: "+err.Error(), "")
		return
	}
	c.Case("append inventory", true)
	c.Emit("CONC appendinv", line)
	c.Sample("append on fields / package-level slices: " + line)
	c.StatN("append sites on fields or package-level slices", len(strings.Fields(line)))
	for _, v := range viol {
		c.Violate("appendinv", "append-into-shared-slice", v, v)
	}
}

package main

import (
	"bytes"
	"fmt"
	"sort"
	"strconv"
	"strings"

	"seehuhn.de/go/pdf"
	"seehuhn.de/go/pdf/page"
	"seehuhn.de/go/pdf/pagetree"
)

// C16 — page tree keeps page order, counts and effective attributes.

func init() {
	addRun("C16", "programs over nested pagetree.Writers: AppendPage/AppendPageDict bursts (1..4100 pages per burst, sizes around 16, 256, 4096), NewRange at arbitrary positions and depths, Close of sub-ranges, NextPageNumber callbacks, operations on closed writers, root Close (also repeated, also without pages); MediaBox/CropBox/Rotate/Resources (and AA for PDF 1.2) from small value sets with a dominant value or exact ties so that hoisting happens; plus range-size combinations around multiples of 16/256/4096; programs that hand ONE dictionary value to AppendPageDict for all pages of equal attributes (2..300 equal pages, alternating dictionaries over two ranges, a fifth of the random programs); NextPageNumber callbacks that register a follow-up callback on their writer when they report a page number (chains of 1..3; fixed corpus and a quarter of the random programs). A case is non-trivial when it has at least two pages; distinct by its operation string.", runC16)
	addReplay("C16", "pagetree", replayC16)
}

// ---- value sets ----

var trsMediaBoxes = []*pdf.Rectangle{
	{LLx: 0, LLy: 0, URx: 612, URy: 792},
	{LLx: 0, LLy: 0, URx: 595, URy: 842},
	{LLx: 0, LLy: 0, URx: 100, URy: 100},
	{LLx: 0, LLy: 0, URx: 1000.5, URy: 1000},
}
var trsCropBoxes = []*pdf.Rectangle{
	{LLx: 10, LLy: 10, URx: 90, URy: 90},
	{LLx: 0, LLy: 0, URx: 100, URy: 100},
	{LLx: 5, LLy: 5, URx: 50, URy: 50.5},
}
var trsRotations = []int{0, 90, 180, 270, -90} // the last one only through AppendPageDict
var trsAAs = []pdf.Dict{{"O": pdf.Integer(1)}, {"C": pdf.Integer(2)}}
var trsResources = []pdf.Dict{
	{"ProcSet": pdf.Array{pdf.Name("PDF")}},
	{"ProcSet": pdf.Array{pdf.Name("PDF"), pdf.Name("Text")}},
}

// trsPOp is one operation of a program.  Attribute fields are indices into
// the value sets, -1 = absent.
type trsPOp struct {
	kind    byte // 'a' AppendPageDict, 's' AppendPageDict with ONE dict value for all pages of equal attributes, 'A' AppendPage, 'r' NewRange, 'c' Close, 'n' NextPageNumber
	h       int
	id      int // page id / callback id
	mb, cb  int
	rot, aa int
	res     int
	chain   int // 'n' only: when the callback reports a page number it registers a follow-up callback on the same writer, `chain` times in a row
}

// trsChainStep separates the id of a follow-up callback from the id of the callback that
// registered it.
const trsChainStep = 100000

func (o trsPOp) isPage() bool { return o.kind == 'a' || o.kind == 'A' || o.kind == 's' }

func (o trsPOp) String() string {
	switch o.kind {
	case 'a', 'A', 's':
		return fmt.Sprintf("%c%d:%d:%d:%d:%d:%d:%d", o.kind, o.h, o.id, o.mb, o.cb, o.rot, o.aa, o.res)
	case 'n':
		if o.chain > 0 {
			return fmt.Sprintf("n%d:%d:%d", o.h, o.id, o.chain)
		}
		return fmt.Sprintf("n%d:%d", o.h, o.id)
	}
	return fmt.Sprintf("%c%d", o.kind, o.h)
}

func trsParsePOp(s string) (trsPOp, error) {
	if len(s) < 2 {
		return trsPOp{}, fmt.Errorf("bad op %q", s)
	}
	o := trsPOp{kind: s[0]}
	var f []int
	for _, p := range strings.Split(s[1:], ":") {
		v, err := strconv.Atoi(p)
		if err != nil {
			return o, err
		}
		f = append(f, v)
	}
	switch {
	case o.isPage() && len(f) == 7:
		o.h, o.id, o.mb, o.cb, o.rot, o.aa, o.res = f[0], f[1], f[2], f[3], f[4], f[5], f[6]
	case o.kind == 'n' && len(f) == 2:
		o.h, o.id = f[0], f[1]
	case o.kind == 'n' && len(f) == 3 && f[2] >= 0 && f[2] <= 8:
		o.h, o.id, o.chain = f[0], f[1], f[2]
	case (o.kind == 'r' || o.kind == 'c') && len(f) == 1:
		o.h = f[0]
	default:
		return o, fmt.Errorf("bad op %q", s)
	}
	return o, nil
}

type trsProgram struct {
	old bool // write PDF 1.2 (AA is inheritable)
	ops []trsPOp
	// a content stream is open on the pdf.Writer from just before ops[streamFrom] until just
	// before ops[streamTo] (streamTo == len(ops): until after the last operation); 0,0 = never
	streamFrom, streamTo int
}

func (p *trsProgram) encode() string {
	parts := make([]string, len(p.ops))
	for i, o := range p.ops {
		parts[i] = o.String()
	}
	v := "0"
	if p.old {
		v = "1"
	}
	if p.streamTo > p.streamFrom {
		v += fmt.Sprintf("@%d-%d", p.streamFrom, p.streamTo)
	}
	return v + " " + strings.Join(parts, ";")
}

func trsDecodeProgram(s string) (*trsProgram, error) {
	f := strings.SplitN(s, " ", 2)
	if len(f) != 2 {
		return nil, fmt.Errorf("bad program")
	}
	p := &trsProgram{old: strings.HasPrefix(f[0], "1")}
	if i := strings.Index(f[0], "@"); i >= 0 {
		if _, err := fmt.Sscanf(f[0][i:], "@%d-%d", &p.streamFrom, &p.streamTo); err != nil {
			return nil, err
		}
	}
	if f[1] == "" {
		return p, nil
	}
	for _, t := range strings.Split(f[1], ";") {
		o, err := trsParsePOp(t)
		if err != nil {
			return nil, err
		}
		p.ops = append(p.ops, o)
	}
	return p, nil
}

func trsFmt(o pdf.Object) string {
	var b bytes.Buffer
	if err := pdf.Format(&b, 0, o); err != nil {
		panic(err)
	}
	return hexWire(b.Bytes())
}

func trsOptFmt(o pdf.Object, present bool) string {
	if !present {
		return "_"
	}
	return trsFmt(o)
}

// given attribute values of an op as PDF objects (for AppendPageDict)
func (o trsPOp) given() (mb, cb, rot, aa, res pdf.Object) {
	if o.mb >= 0 {
		mb = trsMediaBoxes[o.mb].AsPDF(0)
	}
	if o.cb >= 0 {
		cb = trsCropBoxes[o.cb].AsPDF(0)
	}
	if o.rot >= 0 {
		rot = pdf.Integer(trsRotations[o.rot])
	}
	if o.aa >= 0 {
		aa = trsAAs[o.aa]
	}
	if o.res >= 0 {
		res = trsResources[o.res]
	}
	return
}

// wire form of an op for the model
func (o trsPOp) wire() string {
	switch o.kind {
	case 'n':
		return fmt.Sprintf("n%d:%d", o.h, o.id)
	case 'a', 'A', 's':
		mb, cb, rot, aa, _ := o.given()
		r := "_"
		if rot != nil {
			r = hexWire([]byte(pdf.AsString(rot)))
		}
		return fmt.Sprintf("a%d:%d:%s:%s:%s:%s", o.h, o.id, trsOptFmt(mb, mb != nil), trsOptFmt(cb, cb != nil), r, trsOptFmt(aa, aa != nil))
	}
	return o.String()
}

// ---- the specification the oracle compares with: nested ranges ----

type trsRange struct {
	items  []any // int page id, or *trsRange
	closed bool
	pend   []int // callbacks waiting for the next page of this range
}

func (x *trsRange) closeAll(onCb func(k int)) {
	if x.closed {
		return
	}
	x.closed = true
	for _, k := range x.pend {
		onCb(k)
	}
	x.pend = nil
	for _, it := range x.items {
		if s, ok := it.(*trsRange); ok {
			s.closeAll(onCb)
		}
	}
}

// hasOpenSub: Close will have to close a sub-range first.
func (x *trsRange) hasOpenSub() bool {
	for _, it := range x.items {
		if s, ok := it.(*trsRange); ok && !s.closed {
			return true
		}
	}
	return false
}

func (x *trsRange) flatten(out []int) []int {
	for _, it := range x.items {
		switch v := it.(type) {
		case int:
			out = append(out, v)
		case *trsRange:
			out = v.flatten(out)
		}
	}
	return out
}

// ---- running a program on the implementation ----

type trsPTResult struct {
	chainRegs  int      // follow-up callbacks registered from inside callbacks
	noModel    bool     // some of them at a moment that is not between two operations
	modelOps   []string // the program as the model is given it
	streamErrs int      // operations that failed with "... while stream is open" (state changed all the same)
	implLine string
	fails    []trsFail
	pages    int
	hints    string
}

type trsNodeInfo struct {
	num  uint32
	hint string
}

func trsAttrStr(d pdf.Dict) string {
	var sb strings.Builder
	sb.WriteString("{")
	if v, ok := d["MediaBox"]; ok {
		sb.WriteString("m" + trsFmt(v))
	}
	if v, ok := d["CropBox"]; ok {
		sb.WriteString(",c" + trsFmt(v))
	}
	if v, ok := d["Rotate"]; ok {
		sb.WriteString(",r" + hexWire([]byte(pdf.AsString(v))))
	}
	if v, ok := d["AA"]; ok {
		sb.WriteString(",a" + trsFmt(v))
	}
	sb.WriteString("}")
	return sb.String()
}

// trsHintVals: the value each inheritable key had at this /Pages node when it
// was created.  A value that a later merge moved further up is no longer in
// the node itself; it is then the value inherited from the nearest ancestor.
func trsHintVals(d pdf.Dict, inh [4]string) [4]string {
	f := func(i int, key pdf.Name, asString bool) string {
		v, ok := d[key]
		if !ok {
			return inh[i]
		}
		if asString {
			return hexWire([]byte(pdf.AsString(v)))
		}
		return trsFmt(v)
	}
	return [4]string{f(0, "MediaBox", false), f(1, "CropBox", false), f(2, "Rotate", true), f(3, "AA", false)}
}

type trsTreeWalk struct {
	rd     *pdf.Reader
	fails  []trsFail
	nodes  []trsNodeInfo
	leaves []int
	seen   map[pdf.Reference]bool
	refID  map[pdf.Reference]int // pages that carry no id of their own (shared dictionaries)
}

func (tw *trsTreeWalk) fail(key, format string, a ...any) {
	if len(tw.fails) < 6 {
		tw.fails = append(tw.fails, trsFail{key, fmt.Sprintf(format, a...)})
	}
}

// walk prints the canonical tree and checks /Count, /Parent, /Kids, fan-out.
func (tw *trsTreeWalk) walk(ref pdf.Reference, parent pdf.Reference, depth int, inh [4]string, sb *strings.Builder) (leaves int) {
	if depth > 64 || tw.seen[ref] {
		tw.fail("shape", "page tree is not a tree at %v", ref)
		return 0
	}
	tw.seen[ref] = true
	obj, err := tw.rd.Get(ref, true)
	d, ok := obj.(pdf.Dict)
	if err != nil || !ok {
		tw.fail("shape", "node %v: %v %T", ref, err, obj)
		return 0
	}
	pmark := ""
	if p, has := d["Parent"]; (parent == 0 && has) || (parent != 0 && p != pdf.Object(parent)) {
		pmark = "!"
		tw.fail("parent", "node %v has /Parent %v, is listed by %v", ref, d["Parent"], parent)
	}
	switch d["Type"] {
	case pdf.Name("Page"):
		id := -1
		switch x := d["Dur"].(type) {
		case pdf.Integer:
			id = int(x) - 1
		case pdf.Real:
			id = int(x) - 1
		}
		if v, ok := tw.refID[ref]; ok {
			id = v
		}
		fmt.Fprintf(sb, "p%d%s%s", id, pmark, trsAttrStr(d))
		tw.leaves = append(tw.leaves, id)
		return 1
	case pdf.Name("Pages"):
		hv := trsHintVals(d, inh)
		tw.nodes = append(tw.nodes, trsNodeInfo{ref.Number(), strings.Join(hv[:], ":")})
		count, _ := d["Count"].(pdf.Integer)
		kids, _ := d["Kids"].(pdf.Array)
		fmt.Fprintf(sb, "P%d%s%s(", int64(count), pmark, trsAttrStr(d))
		if len(kids) == 0 {
			tw.fail("shape", "/Pages node %v without kids", ref)
		}
		if len(kids) > 16 {
			tw.fail("fanout", "/Pages node %v has %d kids", ref, len(kids))
		}
		for _, kid := range kids {
			kr, ok := kid.(pdf.Reference)
			if !ok {
				tw.fail("shape", "kid %v of %v is not a reference", kid, ref)
				continue
			}
			leaves += tw.walk(kr, ref, depth+1, hv, sb)
		}
		sb.WriteString(")")
		if int(count) != leaves {
			tw.fail("count", "/Pages node %v has /Count %d and %d leaves below", ref, int64(count), leaves)
		}
		return leaves
	}
	tw.fail("shape", "node %v has /Type %v", ref, d["Type"])
	return 0
}

func trsRectEq(o pdf.Object, want *pdf.Rectangle) bool {
	a, ok := o.(pdf.Array)
	if !ok || len(a) != 4 {
		return false
	}
	for i, w := range []float64{want.LLx, want.LLy, want.URx, want.URy} {
		var x float64
		switch v := a[i].(type) {
		case pdf.Integer:
			x = float64(v)
		case pdf.Real:
			x = float64(v)
		default:
			return false
		}
		if x != w {
			return false
		}
	}
	return true
}

// trsCheckEffective compares the attributes a reader reports for a page
// (after inheritance) with what the page was given.
func trsCheckEffective(rd *pdf.Reader, o trsPOp, d pdf.Dict, via string, old bool, fail func(key, format string, a ...any)) {
	if o.mb >= 0 {
		if !trsRectEq(d["MediaBox"], trsMediaBoxes[o.mb]) {
			fail("attr-mediabox", "%s: page %d has effective MediaBox %v, was given %v", via, o.id, d["MediaBox"], trsMediaBoxes[o.mb])
		}
	} else if v, ok := d["MediaBox"]; ok {
		fail("attr-mediabox", "%s: page %d was given no MediaBox, has effective %v", via, o.id, v)
	}
	if o.cb >= 0 {
		if !trsRectEq(d["CropBox"], trsCropBoxes[o.cb]) {
			fail("attr-cropbox", "%s: page %d has effective CropBox %v, was given %v", via, o.id, d["CropBox"], trsCropBoxes[o.cb])
		}
	} else if v, ok := d["CropBox"]; ok {
		fail("attr-cropbox", "%s: page %d was given no CropBox, has effective %v", via, o.id, v)
	}
	wantRot := 0
	if o.rot >= 0 {
		wantRot = trsRotations[o.rot]
	}
	gotRot := pdf.Integer(0)
	if v, ok := d["Rotate"]; ok {
		gotRot, ok = v.(pdf.Integer)
		if !ok {
			gotRot = -1
		}
	}
	if int(gotRot) != wantRot {
		fail("attr-rotate", "%s: page %d has effective Rotate %v, was given %d", via, o.id, d["Rotate"], wantRot)
	}
	if o.kind == 'a' || o.kind == 's' {
		if o.res >= 0 {
			if !pdf.Equal(d["Resources"], trsResources[o.res]) {
				fail("attr-resources", "%s: page %d has effective Resources %v, was given %v", via, o.id, d["Resources"], trsResources[o.res])
			}
		} else if v, ok := d["Resources"]; ok {
			fail("attr-resources", "%s: page %d was given no Resources, has effective %v", via, o.id, v)
		}
		if old {
			if o.aa >= 0 {
				if !pdf.Equal(d["AA"], trsAAs[o.aa]) {
					fail("attr-aa", "%s: page %d has effective AA %v, was given %v", via, o.id, d["AA"], trsAAs[o.aa])
				}
			} else if v, ok := d["AA"]; ok {
				fail("attr-aa", "%s: page %d was given no AA, has effective %v", via, o.id, v)
			}
		}
	} else {
		// AppendPage with Resources == nil: the writer supplies an empty resource dictionary
		res, err := pdf.Resolve(rd, d["Resources"])
		if rd2, ok := res.(pdf.Dict); err != nil || !ok || len(rd2) != 0 {
			fail("attr-resources", "%s: page %d (no resources given) has effective Resources %v", via, o.id, res)
		}
	}
}

// trsRunProgram executes the program on the real pagetree.Writer, evaluates
// the property and returns the canonical result line.
func trsRunProgram(p *trsProgram) (res trsPTResult) {
	fail := func(key, format string, a ...any) {
		if len(res.fails) < 8 {
			res.fails = append(res.fails, trsFail{key, fmt.Sprintf(format, a...)})
		}
	}
	buf := &bytes.Buffer{}
	v := pdf.V1_7
	if p.old {
		v = pdf.V1_2
	}
	w, err := pdf.NewWriter(buf, v, nil)
	if err != nil {
		panic(err)
	}
	rm := pdf.NewResourceManager(w)
	root := pagetree.NewWriter(w, rm)
	handles := []*pagetree.Writer{root}
	spec := []*trsRange{{}}

	var log []string                // callbacks in the order they fired
	got := map[int][]int{}          // callback id -> arguments
	wantPage := map[int]int{}       // callback id -> page id whose final index it must report
	wantMinus := map[int]bool{}     // callback id -> must report -1
	pageOp := map[int]trsPOp{}      // page id -> the op that appended it
	var outcomes strings.Builder
	var rootRef pdf.Reference
	rootClosed := false
	shared := map[[5]int]pdf.Dict{} // one dictionary value per attribute combination ('s' pages)
	refID := map[pdf.Reference]int{}
	hasShared := false
	defer func() {
		// pages that were handed over in one shared dictionary value: name the failure after it
		if hasShared {
			for i, f := range res.fails {
				if f.key == "parent" || strings.HasPrefix(f.key, "attr-") {
					res.fails[i].key = "shared-dict-" + f.key
				}
			}
		}
	}()
	// callbacks that register a follow-up callback while they run
	type chainReg struct {
		k, h, opIdx int
		inAppend    bool // registered while the page append on the same writer was firing its callbacks
	}
	var chainRegs []chainReg
	curOp := -1
	var register func(h, k, left int)
	register = func(h, k, left int) {
		hw, hs := handles[h], spec[h]
		hw.NextPageNumber(func(n int) {
			log = append(log, fmt.Sprintf("%d=%d", k, n))
			got[k] = append(got[k], n)
			if left > 0 && n >= 0 {
				o := p.ops[curOp]
				chainRegs = append(chainRegs, chainReg{k + trsChainStep, h, curOp, o.isPage() && o.h == h})
				register(h, k+trsChainStep, left-1)
			}
		})
		if hs.closed {
			wantMinus[k] = true
			if len(got[k]) != 1 {
				fail("callback", "NextPageNumber on a closed writer did not call back at once (callback %d)", k)
			}
		} else {
			hs.pend = append(hs.pend, k)
		}
	}
	rootFlushFailed := false

	// the content stream that is open during part of the program
	var streamRef pdf.Reference
	var streamW interface {
		Write([]byte) (int, error)
		Close() error
	}
	openStream := func() {
		streamRef = w.Alloc()
		sw, err := w.OpenStream(streamRef, pdf.Dict{})
		if err != nil {
			panic("harness: OpenStream: " + err.Error())
		}
		streamW = sw
		streamW.Write([]byte("q "))
	}
	closeStream := func() {
		if streamW != nil {
			streamW.Write([]byte("Q"))
			if err := streamW.Close(); err != nil {
				fail("write-error", "closing the content stream: %v", err)
			}
			streamW = nil
		}
	}

	panicked := ""
	func() {
		defer func() {
			if r := recover(); r != nil {
				msg := fmt.Sprint(r)
				switch {
				case strings.Contains(msg, "invalid subtree node range"):
					panicked = "panic-range"
				case strings.Contains(msg, "index out of range") || strings.Contains(msg, "slice bounds"):
					panicked = "panic-index"
				case strings.Contains(msg, "invalid depth seq"):
					panicked = "panic-inv"
				default:
					panicked = "panic-other"
				}
				fail("close-"+panicked, "panic after %d operations (%d pages so far): %s", outcomes.Len(), len(pageOp), truncate(msg))
			}
		}()
		for opIdx, o := range p.ops {
			if p.streamTo > p.streamFrom && opIdx == p.streamFrom {
				openStream()
			}
			if p.streamTo > p.streamFrom && opIdx == p.streamTo {
				closeStream()
			}
			if o.h >= len(handles) {
				panic("harness: bad handle in program")
			}
			hw, hs := handles[o.h], spec[o.h]
			curOp = opIdx
			// callbacks registered while this operation runs wait for the page after this one
			var pendBefore []int
			if o.isPage() {
				pendBefore, hs.pend = hs.pend, nil
			}
			var err error
			switch o.kind {
			case 's':
				key := [5]int{o.mb, o.cb, o.rot, o.aa, o.res}
				d, ok := shared[key]
				if !ok {
					mb, cb, rot, aa, rs := o.given()
					d = pdf.Dict{"Type": pdf.Name("Page")}
					for k, val := range map[pdf.Name]pdf.Object{"MediaBox": mb, "CropBox": cb, "Rotate": rot, "AA": aa, "Resources": rs} {
						if val != nil {
							d[k] = val
						}
					}
					shared[key] = d
				}
				ref := w.Alloc()
				refID[ref] = o.id
				hasShared = true
				err = hw.AppendPageDict(ref, d)
			case 'a':
				mb, cb, rot, aa, rs := o.given()
				d := pdf.Dict{"Type": pdf.Name("Page"), "Dur": pdf.Integer(o.id + 1)}
				for k, val := range map[pdf.Name]pdf.Object{"MediaBox": mb, "CropBox": cb, "Rotate": rot, "AA": aa, "Resources": rs} {
					if val != nil {
						d[k] = val
					}
				}
				err = hw.AppendPageDict(w.Alloc(), d)
			case 'A':
				pg := &page.Page{Duration: float64(o.id + 1)}
				if o.mb >= 0 {
					pg.MediaBox = trsMediaBoxes[o.mb]
				}
				if o.cb >= 0 {
					pg.CropBox = trsCropBoxes[o.cb]
				}
				if o.rot >= 0 {
					pg.Rotate = page.RotationFromDegrees(trsRotations[o.rot])
				}
				err = hw.AppendPage(pg)
			case 'r':
				var sub *pagetree.Writer
				sub, err = hw.NewRange()
				if err == nil {
					handles = append(handles, sub)
					s := &trsRange{}
					spec = append(spec, s)
					hs.items = append(hs.items, s)
				}
			case 'c':
				var ref pdf.Reference
				ref, err = hw.Close()
				if o.h == 0 && err == nil {
					rootRef = ref
					rootClosed = true
				}
				_ = ref
			case 'n':
				register(o.h, o.id, o.chain)
			}
			pageDone := false
			// outcome and specification
			streamErr := err != nil && strings.Contains(err.Error(), "while stream is open")
			if streamErr {
				// the page tree could not flush finished objects because the caller has a
				// stream open; the operation itself has taken place (the objects are
				// written by a later flush)
				res.streamErrs++
				if streamW == nil {
					fail("spurious-error", "operation %s: %v, but no stream is open", o, err)
				}
				if o.kind == 'c' && (o.h == 0 || hs.hasOpenSub()) {
					// Close gave up half way (the root's last flush, or the Close of a
					// sub-range it had to close first, was refused): the error went to the
					// caller, the tree cannot be completed, the run ends here
					rootFlushFailed = true
					return
				}
			}
			switch {
			case err == nil || streamErr:
				outcomes.WriteByte('o')
				if hs.closed && o.kind != 'n' {
					fail("closed-accepted", "operation %s on a closed writer succeeded", o)
				}
				switch o.kind {
				case 'a', 'A', 's':
					hs.items = append(hs.items, o.id)
					pageOp[o.id] = o
					for _, k := range pendBefore {
						wantPage[k] = o.id
					}
					pageDone = true
				case 'c':
					hs.closeAll(func(k int) { wantMinus[k] = true })
				}
			case err.Error() == "page tree is closed":
				outcomes.WriteByte('c')
				if !hs.closed {
					fail("spurious-error", "operation %s on an open writer: %v", o, err)
				}
			case err.Error() == "no pages in document":
				outcomes.WriteByte('n')
				if o.kind != 'c' || o.h != 0 || len(pageOp) != 0 {
					fail("spurious-error", "operation %s: %v (document has %d pages)", o, err, len(pageOp))
				}
				hs.closeAll(func(k int) { wantMinus[k] = true })
			default:
				outcomes.WriteByte('e')
				fail("spurious-error", "operation %s: %v", o, err)
			}
			if o.isPage() && !pageDone {
				hs.pend = append(pendBefore, hs.pend...)
			}
		}
	}()
	res.chainRegs = len(chainRegs)
	if panicked == "" {
		closeStream()
	}
	res.pages = len(pageOp)
	logStr := "~"
	if len(log) > 0 {
		logStr = strings.Join(log, ",")
	}
	res.hints = "~"
	if panicked != "" {
		res.implLine = outcomes.String() + "!" + panicked + " | none | " + logStr
		return res
	}

	// page number callbacks
	if spec[0].closed && !rootFlushFailed {
		wantOrder := spec[0].flatten(nil)
		pos := map[int]int{}
		for i, id := range wantOrder {
			pos[id] = i
		}
		checkCb := func(key string, k, h int) {
			want := -2
			if wantMinus[k] {
				want = -1
			} else if id, ok := wantPage[k]; ok {
				want = pos[id]
			}
			if len(got[k]) != 1 || got[k][0] != want {
				fail(key, "NextPageNumber callback %d (writer %d) was called with %v, want once with %d", k, h, got[k], want)
			}
		}
		for _, o := range p.ops {
			if o.kind == 'n' {
				checkCb("callback", o.id, o.h)
			}
		}
		for _, cr := range chainRegs {
			checkCb("callback-reentrant", cr.k, cr.h)
		}
	}
	// For the model, a registration made by a callback that ran inside the page append of its
	// own writer is the same as a NextPageNumber call right after that append (the pending
	// list is detached before the callbacks fire).  Registrations made by callbacks that fire
	// later (when an earlier range is closed) have no place between two operations: such runs
	// are judged by the oracle only.
	after := map[int][]string{}
	for _, cr := range chainRegs {
		if !cr.inAppend {
			res.noModel = true
		}
		after[cr.opIdx] = append(after[cr.opIdx], fmt.Sprintf("n%d:%d", cr.h, cr.k))
	}
	for i, o := range p.ops {
		res.modelOps = append(res.modelOps, o.wire())
		res.modelOps = append(res.modelOps, after[i]...)
	}
	if len(chainRegs) > 0 && !res.noModel && !rootFlushFailed && outcomes.Len() == len(p.ops) {
		// the inserted registrations succeed
		var sb strings.Builder
		for i := range p.ops {
			sb.WriteByte(outcomes.String()[i])
			sb.WriteString(strings.Repeat("o", len(after[i])))
		}
		outcomes.Reset()
		outcomes.WriteString(sb.String())
	}

	if rootFlushFailed {
		// the root's Close ran while the stream was open: its last flush failed, the tree cannot
		// be completed; nothing further to compare (the error was reported to the caller)
		res.implLine = ""
		return res
	}
	if !rootClosed {
		res.implLine = outcomes.String() + " | none | " + logStr
		return res
	}

	// finish the file and read it back
	if err := rm.Close(); err != nil {
		fail("write-error", "ResourceManager.Close: %v", err)
	}
	w.GetMeta().Catalog.Pages = rootRef
	if err := w.Close(); err != nil {
		fail("write-error", "Writer.Close: %v", err)
		res.implLine = outcomes.String() + " | error | " + logStr
		return res
	}
	data := buf.Bytes()
	rd, err := pdf.NewReader(bytes.NewReader(data), int64(len(data)), nil)
	if err != nil {
		fail("write-error", "the written file cannot be opened: %v", err)
		res.implLine = outcomes.String() + " | error | " + logStr
		return res
	}
	defer rd.Close()

	if streamRef != 0 {
		got, err := rd.Get(streamRef, false)
		stm, ok := got.(*pdf.Stream)
		if err != nil || !ok {
			fail("stream-other", "the stream that was open meanwhile reads back as %T, %v", got, err)
		} else if body, err := pdf.ReadAll(rd, nil, stm, 1<<20); err != nil || string(body) != "q Q" {
			fail("stream-other", "the stream that was open meanwhile holds %q, %v", body, err)
		}
	}
	tw := &trsTreeWalk{rd: rd, seen: map[pdf.Reference]bool{}, refID: refID}
	var sb strings.Builder
	tw.walk(rd.GetMeta().Catalog.Pages, 0, 0, [4]string{"_", "_", "_", "_"}, &sb)
	res.fails = append(res.fails, tw.fails...)
	sort.Slice(tw.nodes, func(i, j int) bool { return tw.nodes[i].num < tw.nodes[j].num })
	hs := make([]string, len(tw.nodes))
	for i, n := range tw.nodes {
		hs[i] = n.hint
	}
	if len(hs) > 0 {
		res.hints = strings.Join(hs, ",")
	}
	res.implLine = outcomes.String() + " | " + sb.String() + " | " + logStr

	// order: raw leaves, Iterator.All, FindPages, GetPage
	wantOrder := spec[0].flatten(nil)
	eqOrder := func(name string, gotIDs []int) {
		if len(gotIDs) != len(wantOrder) {
			fail("order", "%s lists %d pages, the document has %d", name, len(gotIDs), len(wantOrder))
			return
		}
		for i := range wantOrder {
			if gotIDs[i] != wantOrder[i] {
				fail("order", "%s: position %d holds page %d, want page %d", name, i, gotIDs[i], wantOrder[i])
				return
			}
		}
	}
	eqOrder("the /Kids structure", tw.leaves)
	pageID := func(ref pdf.Reference, d pdf.Dict) int {
		if v, ok := refID[ref]; ok {
			return v
		}
		switch x := d["Dur"].(type) {
		case pdf.Integer:
			return int(x) - 1
		case pdf.Real:
			return int(x) - 1
		}
		return -1
	}
	var itIDs []int
	it := pagetree.NewIterator(rd)
	for ref, d := range it.All() {
		id := pageID(ref, d)
		itIDs = append(itIDs, id)
		if o, ok := pageOp[id]; ok {
			trsCheckEffective(rd, o, d, "Iterator.All", p.old, fail)
		}
	}
	if it.Err != nil {
		fail("order", "Iterator.All: %v", it.Err)
	}
	eqOrder("Iterator.All", itIDs)
	refs, err := pagetree.FindPages(rd)
	if err != nil || len(refs) != len(wantOrder) {
		fail("order", "FindPages: %d pages, %v; want %d", len(refs), err, len(wantOrder))
	}
	n, err := pagetree.NumPages(rd)
	if err != nil || n != len(wantOrder) {
		fail("count", "NumPages = %d, %v; want %d", n, err, len(wantOrder))
	}
	step := 1
	if len(wantOrder) > 64 {
		step = len(wantOrder)/48 + 1
	}
	for i := 0; i < len(wantOrder); i += step {
		ref, d, err := pagetree.GetPage(rd, i)
		if err != nil {
			fail("order", "GetPage(%d): %v", i, err)
			continue
		}
		if id := pageID(ref, d); id != wantOrder[i] {
			fail("order", "GetPage(%d) is page %d, want page %d", i, id, wantOrder[i])
		} else {
			trsCheckEffective(rd, pageOp[id], d, "GetPage", p.old, fail)
		}
	}
	if _, _, err := pagetree.GetPage(rd, len(wantOrder)); err == nil {
		fail("order", "GetPage(%d) beyond the last page succeeded", len(wantOrder))
	}
	return res
}

func replayC16(input string) (bool, string) {
	p, err := trsDecodeProgram(input)
	if err != nil {
		return true, "bad replay input: " + err.Error()
	}
	res := trsRunProgram(p)
	if len(res.fails) > 0 {
		return false, fmt.Sprintf("%s: %s", res.fails[0].key, res.fails[0].desc)
	}
	return true, fmt.Sprintf("program with %d pages ran; result %s", res.pages, truncate(res.implLine))
}

// ---- generators ----

type trsAttrGen struct {
	r        *Rand
	old      bool
	domMB    int
	domCB    int
	domRot   int
	pDom     int // percent
	tie      bool
	pageMode int // 0: AppendPageDict only, 1: AppendPage only, 2: mixed
	n        int
}

func newTrsAttrGen(r *Rand, old bool) *trsAttrGen {
	g := &trsAttrGen{r: r, old: old}
	g.domMB = r.Intn(len(trsMediaBoxes))
	g.domCB = r.Intn(len(trsCropBoxes)+1) - 1
	g.domRot = r.Intn(len(trsRotations)) - 1
	if r.P(1, 6) {
		g.domRot = -1
	}
	g.pDom = Pick(r, []int{100, 95, 80, 50, 30})
	g.tie = r.P(1, 5)
	g.pageMode = r.Intn(3)
	if old {
		g.pageMode = 0
	}
	return g
}

func (g *trsAttrGen) page(h, id int) trsPOp {
	r := g.r
	g.n++
	o := trsPOp{kind: 'a', h: h, id: id, mb: g.domMB, cb: g.domCB, rot: g.domRot, aa: -1, res: -1}
	if g.pageMode == 1 || (g.pageMode == 2 && r.Bool()) {
		o.kind = 'A'
	}
	if g.tie {
		// exact alternation: equal counts, so that Go's map order decides
		o.mb = (g.domMB + g.n%2) % len(trsMediaBoxes)
		if g.n%4 < 2 {
			o.rot = 1
		} else {
			o.rot = 2
		}
	} else {
		if r.Intn(100) >= g.pDom {
			o.mb = r.Intn(len(trsMediaBoxes)+1) - 1
		}
		if r.Intn(100) >= g.pDom {
			o.cb = r.Intn(len(trsCropBoxes)+1) - 1
		}
		if r.Intn(100) >= g.pDom {
			o.rot = r.Intn(len(trsRotations)+1) - 1
		}
	}
	if o.kind == 'A' {
		if o.mb < 0 {
			o.mb = g.domMB
		}
		if o.rot == len(trsRotations)-1 {
			o.rot = 3
		}
	} else {
		if r.P(1, 3) {
			o.res = r.Intn(len(trsResources))
		}
		if g.old && r.P(2, 3) {
			o.aa = r.Intn(len(trsAAs))
			if r.Intn(100) < g.pDom {
				o.aa = 0
			}
		}
	}
	return o
}

var trsBursts = []int{1, 1, 1, 2, 3, 5, 14, 15, 16, 17, 31, 32, 33, 100, 239, 240, 241, 255, 256, 257, 272}

// trsGenProgram makes a random program with about `target` pages.
func trsGenProgram(r *Rand, target int, old bool) *trsProgram {
	p := &trsProgram{old: old}
	ag := newTrsAttrGen(r.Fork(), old)
	nHandles := 1
	closed := map[int]bool{}
	parent := []int{-1}
	closeRec := func(h int) {
		closed[h] = true
		for x := h + 1; x < nHandles; x++ { // children have larger numbers than their parents
			if closed[parent[x]] {
				closed[x] = true
			}
		}
	}
	nextID, nextCb := 0, 0
	pages := 0
	pRange := Pick(r, []int{0, 5, 15, 30})
	pClose := Pick(r, []int{0, 5, 10})
	pCb := Pick(r, []int{0, 5, 20})
	// some programs hand one dictionary value to all AppendPageDict pages of equal attributes;
	// some let callbacks register follow-up callbacks
	rx := r.Fork()
	pShared := 0
	if rx.P(1, 5) {
		pShared = Pick(rx, []int{100, 100, 50})
	}
	chainy := rx.P(1, 4)
	if chainy && pCb == 0 {
		pCb = 20
	}
	cbOp := func(h, id int) trsPOp {
		o := trsPOp{kind: 'n', h: h, id: id}
		if chainy && rx.P(2, 3) {
			o.chain = 1 + rx.Intn(3)
		}
		return o
	}
	pageOp := func(h, id int) trsPOp {
		o := ag.page(h, id)
		if o.kind == 'a' && rx.Intn(100) < pShared {
			o.kind = 's'
		}
		return o
	}
	pickHandle := func() int {
		// mostly open handles, recent ones preferred
		for try := 0; try < 4; try++ {
			h := r.Intn(nHandles)
			if r.Bool() && nHandles > 1 {
				h = nHandles - 1 - r.Intn(min(nHandles, 3))
			}
			if !closed[h] || r.P(1, 20) {
				return h
			}
		}
		return r.Intn(nHandles)
	}
	for pages < target && len(p.ops) < 3*target+60 {
		k := r.Intn(100)
		h := pickHandle()
		switch {
		case k < pRange && nHandles < 40:
			p.ops = append(p.ops, trsPOp{kind: 'r', h: h})
			if !closed[h] {
				nHandles++
				parent = append(parent, h)
			}
		case k < pRange+pClose:
			if h != 0 {
				p.ops = append(p.ops, trsPOp{kind: 'c', h: h})
				closeRec(h)
			}
		case k < pRange+pClose+pCb:
			p.ops = append(p.ops, cbOp(h, nextCb))
			nextCb++
		default:
			burst := Pick(r, trsBursts)
			if target > 1000 && r.P(1, 4) {
				burst = Pick(r, []int{3840, 3856, 3872, 4000, 4080, 4095, 4096, 4097, 1000})
			}
			if burst > target-pages {
				burst = target - pages
			}
			for i := 0; i < burst; i++ {
				if r.Intn(100) < pCb && r.P(1, 3) {
					p.ops = append(p.ops, cbOp(h, nextCb))
					nextCb++
				}
				p.ops = append(p.ops, pageOp(h, nextID))
				nextID++
				if !closed[h] {
					pages++
				}
			}
		}
	}
	// trailing callbacks, root close, operations after the end
	if r.P(1, 3) {
		p.ops = append(p.ops, cbOp(pickHandle(), nextCb))
		nextCb++
	}
	p.ops = append(p.ops, trsPOp{kind: 'c', h: 0})
	if r.P(1, 4) {
		for i := r.Intn(4); i >= 0; i-- {
			h := r.Intn(nHandles)
			switch r.Intn(4) {
			case 0:
				p.ops = append(p.ops, pageOp(h, nextID))
				nextID++
			case 1:
				p.ops = append(p.ops, trsPOp{kind: 'r', h: h})
			case 2:
				p.ops = append(p.ops, trsPOp{kind: 'c', h: h})
			default:
				p.ops = append(p.ops, cbOp(h, nextCb))
				nextCb++
			}
		}
	}
	return p
}

// trsRangesProgram: consecutive sub-ranges of the root with the given sizes,
// then `tail` pages on the root itself, then Close.
func trsRangesProgram(r *Rand, sizes []int, tail int, nested bool) *trsProgram {
	p := &trsProgram{}
	ag := newTrsAttrGen(r.Fork(), false)
	id := 0
	h := 0
	for i, n := range sizes {
		parent := 0
		if nested && i > 0 && r.Bool() {
			parent = h // open the next range inside the previous one
		}
		p.ops = append(p.ops, trsPOp{kind: 'r', h: parent})
		h = i + 1
		for j := 0; j < n; j++ {
			p.ops = append(p.ops, ag.page(h, id))
			id++
		}
	}
	for j := 0; j < tail; j++ {
		p.ops = append(p.ops, ag.page(0, id))
		id++
	}
	p.ops = append(p.ops, trsPOp{kind: 'c', h: 0})
	return p
}

func runC16(c *Ctx) {
	r := c.R
	emit := func(p *trsProgram, tag string) {
		res := trsRunProgram(p)
		enc := p.encode()
		c.Case(enc, res.pages >= 2)
		c.Stat("gen_" + tag)
		switch {
		case res.pages == 0:
			c.Stat("pages_0")
		case res.pages < 16:
			c.Stat("pages_1..15")
		case res.pages < 256:
			c.Stat("pages_16..255")
		case res.pages < 4096:
			c.Stat("pages_256..4095")
		default:
			c.Stat("pages_>=4096")
		}
		if strings.Contains(res.implLine, "!panic") {
			c.Stat("panic")
		}
		if p.old {
			c.Stat("pdf_1.2")
		}
		head := res.implLine
		if i := strings.Index(head, " "); i >= 0 {
			head = head[:i]
		}
		c.StatN("outcome_closed", strings.Count(head, "c"))
		c.StatN("outcome_nopages", strings.Count(head, "n"))
		for _, o := range p.ops {
			switch o.kind {
			case 's':
				c.Stat("op_AppendPageDict_shared_dict")
			case 'a':
				c.Stat("op_AppendPageDict")
			case 'A':
				c.Stat("op_AppendPage")
			case 'r':
				c.Stat("op_NewRange")
			case 'c':
				c.Stat("op_Close")
			case 'n':
				c.Stat("op_NextPageNumber")
			}
		}
		for _, f := range strings.Split(res.implLine, "P")[1:] {
			// a /Pages node is printed as P<count>{attrs}(…)
			if i := strings.Index(f, "{"); i >= 0 && i < 8 && !strings.HasPrefix(f[i:], "{}") {
				c.Stat("pages_nodes_with_inherited_attrs")
			}
		}
		for _, f := range res.fails {
			c.Violate("pagetree", f.key, f.desc, enc)
		}
		wire := res.modelOps
		if wire == nil {
			for _, o := range p.ops {
				wire = append(wire, o.wire())
			}
		}
		if res.chainRegs > 0 {
			c.StatN("callbacks_registered_by_callbacks", res.chainRegs)
			if res.noModel {
				c.Stat("callback_registered_by_a_deferred_callback_oracle_only")
			}
		}
		v := "0"
		if p.old {
			v = "1"
		}
		ops := "~"
		if len(wire) > 0 {
			ops = strings.Join(wire, ";")
		}
		if res.streamErrs > 0 {
			c.StatN("flush_refused_while_stream_open", res.streamErrs)
		}
		if p.streamTo > p.streamFrom {
			c.Stat("with_open_content_stream")
		}
		if res.implLine != "" && !res.noModel {
			c.Emit("TRS pt "+v+" "+ops+" "+res.hints, res.implLine)
		}
		if res.pages > 0 && res.pages <= 5 {
			c.Sample("TRS pt " + v + " " + ops + " => " + res.implLine)
		}
	}

	nSmall, nMid, nBig := 250, 40, 4
	if c.Thorough {
		nSmall, nMid, nBig = 3000, 400, 40
	}
	// fixed corpus
	emit(&trsProgram{ops: []trsPOp{{kind: 'c', h: 0}}}, "corpus")
	emit(&trsProgram{ops: []trsPOp{{kind: 'r', h: 0}, {kind: 'r', h: 1}, {kind: 'n', h: 2, id: 0}, {kind: 'c', h: 0}, {kind: 'c', h: 0}}}, "corpus")
	// one- and two-page documents through both APIs, directly and inside ranges (wrapIfLeaf)
	pg := func(kind byte, h, id int) trsPOp {
		return trsPOp{kind: kind, h: h, id: id, mb: id % len(trsMediaBoxes), cb: -1, rot: id%3 - 1, aa: -1, res: -1}
	}
	for _, kind := range []byte{'a', 'A'} {
		emit(&trsProgram{ops: []trsPOp{pg(kind, 0, 0), {kind: 'c', h: 0}}}, "corpus")
		emit(&trsProgram{ops: []trsPOp{{kind: 'r', h: 0}, pg(kind, 1, 0), {kind: 'c', h: 0}}}, "corpus")
		emit(&trsProgram{ops: []trsPOp{{kind: 'r', h: 0}, {kind: 'r', h: 1}, pg(kind, 2, 0), {kind: 'c', h: 1}, {kind: 'c', h: 0}}}, "corpus")
		emit(&trsProgram{ops: []trsPOp{{kind: 'n', h: 0, id: 0}, pg(kind, 0, 0), {kind: 'r', h: 0}, {kind: 'n', h: 1, id: 1}, {kind: 'n', h: 0, id: 2}, pg(kind, 0, 1), {kind: 'c', h: 0}}}, "corpus")
	}
	// one dictionary value handed over for many pages (AppendPageDict documents no transfer of
	// ownership): 40 equal pages; two alternating dictionaries; inside ranges
	for _, n := range []int{2, 17, 40, 300} {
		var ops []trsPOp
		for i := 0; i < n; i++ {
			ops = append(ops, trsPOp{kind: 's', h: 0, id: i, mb: 0, cb: 1, rot: 1, aa: -1, res: 0})
		}
		emit(&trsProgram{ops: append(ops, trsPOp{kind: 'c', h: 0})}, "shared-dict")
		ops = []trsPOp{{kind: 'r', h: 0}, {kind: 'r', h: 0}}
		for i := 0; i < n; i++ {
			ops = append(ops, trsPOp{kind: 's', h: 1 + i%2, id: i, mb: i % 3 % 2, cb: -1, rot: -1, aa: -1, res: -1})
		}
		emit(&trsProgram{ops: append(ops, trsPOp{kind: 'c', h: 0})}, "shared-dict")
	}
	// a callback that asks for the number of the page after its own (labelling every page):
	// 0, 1, 2, then -1 at Close; the same inside a range behind an open range (numbers known late)
	for _, kind := range []byte{'a', 'A'} {
		emit(&trsProgram{ops: []trsPOp{{kind: 'n', h: 0, id: 0, chain: 3}, pg(kind, 0, 0), pg(kind, 0, 1), pg(kind, 0, 2), {kind: 'c', h: 0}}}, "callback-chain")
		emit(&trsProgram{ops: []trsPOp{{kind: 'n', h: 0, id: 0, chain: 2}, {kind: 'n', h: 0, id: 1, chain: 1}, pg(kind, 0, 0), {kind: 'n', h: 0, id: 2}, pg(kind, 0, 1), pg(kind, 0, 2), pg(kind, 0, 3), {kind: 'c', h: 0}}}, "callback-chain")
		emit(&trsProgram{ops: []trsPOp{{kind: 'r', h: 0}, {kind: 'r', h: 0}, {kind: 'n', h: 2, id: 0, chain: 2}, pg(kind, 2, 0), pg(kind, 1, 1), {kind: 'c', h: 1}, pg(kind, 2, 2), pg(kind, 2, 3), {kind: 'c', h: 0}}}, "callback-chain")
	}
	for _, n := range []int{1, 2, 15, 16, 17, 255, 256, 257, 271, 272, 4095, 4096, 4097, 5000} {
		if n > 1000 && !c.Thorough && n != 4096 && n != 4097 {
			continue
		}
		emit(trsRangesProgram(r.Fork(), nil, n, false), "single-writer")
	}
	// witnesses of the repaired defect D15 (fix 3240063): merge left 16 nodes of one depth
	// followed by a single shallower node; the next collapse/merge step then called
	// mergeNodes on one node and panicked.  Kept so that a regression is a VIOLATION.
	emit(trsRangesProgram(r.Fork(), []int{3872, 15}, 0, false), "d15-witness")
	emit(trsRangesProgram(r.Fork(), []int{4080, 3}, 0, false), "d15-witness")
	emit(trsRangesProgram(r.Fork(), []int{3872, 15}, 16, false), "d15-witness")
	for i := 0; i < nSmall; i++ {
		emit(trsGenProgram(r.Fork(), 1+r.Intn(60), r.P(1, 8)), "small")
	}
	for i := 0; i < nMid; i++ {
		emit(trsGenProgram(r.Fork(), 60+r.Intn(700), r.P(1, 10)), "mid")
	}
	for i := 0; i < nBig; i++ {
		emit(trsGenProgram(r.Fork(), 3000+r.Intn(2000), false), "big")
	}
	// part of the program runs while the caller has a content stream open on the pdf.Writer
	// (AppendPageDict, NewRange, Close of sub-ranges; sometimes the root's Close, too)
	nStream := 60
	if c.Thorough {
		nStream = 600
	}
	for i := 0; i < nStream; i++ {
		target := 1 + r.Intn(14)
		if r.P(1, 3) {
			target = 15 + r.Intn(60)
		}
		p := trsGenProgram(r.Fork(), target, false)
		for j := range p.ops {
			if p.ops[j].kind == 'A' {
				p.ops[j].kind = 'a'
			}
		}
		rootClose := len(p.ops)
		for j, o := range p.ops {
			if o.kind == 'c' && o.h == 0 {
				rootClose = j
				break
			}
		}
		p.streamFrom = r.Intn(rootClose + 1)
		p.streamTo = p.streamFrom + 1 + r.Intn(rootClose-p.streamFrom+1)
		if p.streamTo > rootClose && !r.P(1, 6) {
			p.streamTo = rootClose // usually the stream is closed before the root is
		}
		if p.streamTo <= p.streamFrom {
			p.streamFrom, p.streamTo = 0, rootClose
		}
		if p.streamTo == 0 {
			continue
		}
		emit(p, "open-stream")
	}

	// range sizes around the powers of the fan-out
	edge := []int{1, 2, 14, 15, 16, 17, 30, 31, 32, 239, 240, 241, 255, 256, 257, 271, 272}
	nEdge := 60
	if c.Thorough {
		nEdge = 600
	}
	for i := 0; i < nEdge; i++ {
		k := 2 + r.Intn(4)
		sizes := make([]int, k)
		for j := range sizes {
			sizes[j] = Pick(r, edge)
		}
		emit(trsRangesProgram(r.Fork(), sizes, Pick(r, []int{0, 0, 1, 15, 16, 17, 256}), r.P(1, 3)), "edge-ranges")
	}
	bigEdge := []int{3840, 3855, 3856, 3857, 3872, 4080, 4095, 4096, 4097}
	nBigEdge := 6
	if c.Thorough {
		nBigEdge = 60
	}
	for i := 0; i < nBigEdge; i++ {
		sizes := []int{Pick(r, bigEdge), Pick(r, edge)}
		if r.Bool() {
			sizes = append(sizes, Pick(r, edge))
		}
		emit(trsRangesProgram(r.Fork(), sizes, Pick(r, []int{0, 0, 1, 16, 256}), false), "edge-ranges-big")
	}
}

package main

import (
	"bytes"
	"fmt"
	"maps"
	"strconv"
	"strings"

	"seehuhn.de/go/pdf"
	"seehuhn.de/go/pdf/font"
	"seehuhn.de/go/pdf/font/charcode"
	"seehuhn.de/go/pdf/font/cmap"
	"seehuhn.de/go/postscript/cid"
)

// C13 — (A) parent chains whose levels declare DIFFERENT code spaces, (B) histories on Files
// (Clone / struct copy / SetMapping again / mutation of the map that was passed).
//
// (A) File.Codec() of a chain is the codec of the union of all levels' code space ranges (model:
//     `chainCodeSpace chain = chain.flatMap (·.csr)`, correspondence line `CC chaincodec`);
//     All(f.Codec()) and LookupCID agree on every entry of every level; before Embed and after
//     Extract.  Class keys chain-codespace, chain-enum-lookup.
// (B) A built by SetMapping(m1); B := A.Clone() or a struct copy; B.SetMapping(m2) with another
//     size, codec or WMode: A still answers exactly m1 (entries, lookups, enumeration,
//     Embed->Extract), B exactly m2; SetMapping twice on one File equals SetMapping on a fresh
//     File; changing the map after the call changes nothing.  Class keys file-clone-aliased,
//     setmapping-not-fresh, setmapping-keeps-map.

func init() {
	addRun("C13", "parent chains with a different code space on every level (child 1-byte, parent 2-byte, three levels mixing 1/2/3-byte ranges, empty child, conflicting levels): File.Codec() against the union of the levels (reference semantics and model), All(f.Codec()) against LookupCID on every entry of every level, before Embed and after Extract; histories on Files: SetMapping, Clone / struct copy, SetMapping on the copy with a smaller, equal or larger map, another codec or WMode, SetMapping twice, mutation of the map after the call — the original and the copy must each answer exactly their own map (entries, lookups, enumeration, file round trip). A case is one chain or one history; always non-trivial; distinct by wire form.", runC13Chains)
	for _, o := range []string{"chain-codespace", "chain-enum-lookup", "file-clone-aliased", "setmapping-not-fresh", "setmapping-keeps-map"} {
		addReplay("C13", o, replayC13Chains)
	}
}

// ---- (A) chains with different code spaces ----

var cmLevelSpaces = func() []charcode.CodeSpaceRange {
	h := func(lo, hi string) charcode.Range {
		a, _ := ccUnhex(lo)
		b, _ := ccUnhex(hi)
		return charcode.Range{Low: a, High: b}
	}
	return []charcode.CodeSpaceRange{
		{h("00", "80")},
		{h("8140", "9ffc")},
		{h("a0", "df")},
		{h("e040", "fcfc")},
		{h("fd0000", "fdffff")},
		{h("fe000000", "fe00ffff")},
		{h("00", "7f"), h("a0", "df")},
		{h("8140", "9ffc"), h("e040", "fcfc")},
		{h("8000", "80ff")}, // conflicts with 00-80 (a 1-byte code <80> is a prefix)
		{h("00", "ff")},     // conflicts with every multi-byte level
	}
}()

// cmLevelFile: a file of its own code space, built by SetMapping with its own codec, whose
// parent has (in general) another code space.
func cmLevelFile(r *Rand, name string, csr charcode.CodeSpaceRange, parent *cmap.File) *cmap.File {
	f := &cmap.File{Name: name, ROS: cmROS, Parent: parent}
	if r.Bool() {
		f.WMode = font.Vertical
	}
	if len(csr) == 0 {
		// a level without a code space of its own: hand-written entries over the parent's codes
		if parent != nil {
			for _, rg := range parent.CIDRanges {
				if r.P(1, 2) {
					f.CIDSingles = append(f.CIDSingles, cmap.Single{Code: append([]byte{}, rg.First...), Value: cid.CID(40000 + r.Intn(1000))})
				}
			}
		}
		return f
	}
	codec, err := charcode.NewCodec(csr)
	if err != nil {
		panic(err)
	}
	codes := cmGenCodes(r, codec, csr, 2+r.Intn(4))
	f.SetMapping(codec, cmGenCIDMap(r, codec, codes))
	if r.P(1, 4) {
		rg := Pick(r, csr)
		f.NotdefRanges = []cmap.Range{{First: append([]byte{}, rg.Low...), Last: append([]byte{}, rg.High...), Value: cid.CID(1 + r.Intn(9))}}
	}
	return f
}

func cmChainUnion(f *cmap.File) charcode.CodeSpaceRange {
	var u charcode.CodeSpaceRange
	for g := f; g != nil; g = g.Parent {
		u = append(u, g.CodeSpaceRange...)
	}
	return u
}

func cmCodecOf(f *cmap.File) (codec *charcode.Codec, err error, p any) {
	defer func() { p = recover() }()
	codec, err = f.Codec()
	return
}

// cmCheckChainCodec: File.Codec() of the chain against the union of the levels; enumeration
// against lookup.  Returns the collected enumeration (for the comparison after extraction).
func cmCheckChainCodec(c *Ctx, r *Rand, f *cmap.File, tag string, emit bool) (viol []cmViol, collected string, codecOK bool) {
	bad := func(o, d string) { viol = append(viol, cmViol{o, d}) }
	union := cmChainUnion(f)
	codec, err, p := cmCodecOf(f)
	if p != nil {
		bad("c13-no-panic", fmt.Sprintf("%s: File.Codec() panics: %v", tag, p))
		return
	}
	allValid := true
	for _, rg := range union {
		allValid = allValid && ccRangeValid(rg)
	}
	wantOK := allValid && ccPrefixFree(union)
	if c != nil && emit {
		if err != nil {
			c.Emit("CC chaincodec "+cmChainWire(f), "err invalid")
		} else {
			c.Emit("CC chaincodec "+cmChainWire(f), "ok "+ccNodesWire(codec))
		}
	}
	if (err == nil) != wantOK {
		bad("chain-codespace", fmt.Sprintf("%s: File.Codec() error=%v, but the union %s of the levels' code spaces is valid and prefix-free=%v", tag, err, ccCSRWire(union), wantOK))
		return
	}
	if err != nil {
		if c != nil {
			c.Stat("chain_codec_rejected_conflict")
		}
		return
	}
	codecOK = true
	// the codec of the chain decodes like the union of all levels
	for _, s := range ccTestStrings(r, 4, 300, union) {
		d, p := ccDecode(codec, s)
		wc, wn, wv := ccSpecDecode(union, s)
		if p != nil || uint32(d.code) != wc || d.consumed != wn || d.valid != wv {
			bad("chain-codespace", fmt.Sprintf("%s: File.Codec().Decode(%x) = (%d,%d,%v) panic=%v; the union %s of the levels gives (%d,%d,%v)", tag, s, d.code, d.consumed, d.valid, p, ccCSRWire(union), wc, wn, wv))
			break
		}
	}
	if rep := codec.CodeSpaceRange(); !rep.Equivalent(union) || !union.Equivalent(rep) {
		bad("chain-codespace", fmt.Sprintf("%s: File.Codec().CodeSpaceRange() = %s is not equivalent to the union %s of the levels", tag, ccCSRWire(rep), ccCSRWire(union)))
	}

	// enumeration with the chain's codec against lookup, on every entry of every level
	got := map[charcode.Code]cid.CID{}
	for code, v := range f.All(codec) {
		got[code] = v
	}
	for code, v := range got {
		b := codec.AppendCode(nil, code)
		if l := f.LookupCID(b); l != v {
			bad("chain-enum-lookup", fmt.Sprintf("%s: All(f.Codec()) ends with %x -> %d, LookupCID gives %d", tag, b, v, l))
			break
		}
	}
	probe := func(b []byte) {
		code, k, valid := codec.Decode(b)
		if !valid || k != len(b) {
			return // not a code of the chain's code space: All leaves it out by design
		}
		mapped := false
		for g := f; g != nil && !mapped; g = g.Parent {
			for _, s := range g.CIDSingles {
				mapped = mapped || bytes.Equal(s.Code, b)
			}
			for _, rg := range g.CIDRanges {
				mapped = mapped || cmInBox(rg.First, rg.Last, b)
			}
		}
		v, ok := got[code]
		if mapped && (!ok || v != f.LookupCID(b)) {
			bad("chain-enum-lookup", fmt.Sprintf("%s: %x is mapped (LookupCID = %d) but All(f.Codec()) yields (%d, present=%v)", tag, b, f.LookupCID(b), v, ok))
		}
		if !mapped && ok {
			bad("chain-enum-lookup", fmt.Sprintf("%s: %x is not mapped by any level but All(f.Codec()) yields %d", tag, b, v))
		}
	}
	for _, b := range cmChainProbes(f, 1200) {
		probe(b)
		if len(viol) > 3 {
			break
		}
	}
	keys := make([]string, 0, len(got))
	for code, v := range got {
		keys = append(keys, strconv.FormatUint(uint64(code), 10)+"="+strconv.FormatUint(uint64(v), 10))
	}
	collected = cmSortedSeq(strings.Join(keys, ";"))
	return
}

func cmCaseChainSpaces(c *Ctx, r *Rand, emit bool) (key string, viol []cmViol) {
	bad := func(o, d string) { viol = append(viol, cmViol{o, d}) }
	defer func() {
		if p := recover(); p != nil {
			bad("c13-no-panic", fmt.Sprintf("panic: %v", p))
		}
	}()
	depth := 2 + r.Intn(2) // 2 or 3 levels
	// pick level spaces: mostly compatible (the first eight), sometimes a conflicting one
	var spaces []charcode.CodeSpaceRange
	used := map[int]bool{}
	for len(spaces) < depth {
		k := r.Intn(8)
		if r.P(1, 12) {
			k = 8 + r.Intn(2)
		}
		if used[k] {
			continue
		}
		used[k] = true
		spaces = append(spaces, cmLevelSpaces[k])
	}
	if r.P(1, 5) {
		spaces[0] = nil // the child declares no code space
	}
	var f *cmap.File
	for level := depth - 1; level >= 0; level-- {
		f = cmLevelFile(r, fmt.Sprintf("Chain-L%d", level), spaces[level], f)
	}
	var names []string
	for _, sp := range spaces {
		names = append(names, ccCSRWire(sp))
	}
	tag := "levels " + strings.Join(names, " / ")
	key = "chainspaces " + cmChainWire(f)
	if c != nil {
		c.Stat(fmt.Sprintf("chain_spaces_depth_%d", depth))
	}

	v1, collected, ok := cmCheckChainCodec(c, r, f, tag, emit)
	viol = append(viol, v1...)
	probes := cmChainProbes(f, 1200)
	look, nd := cmLookups(f, probes)
	if c != nil && emit {
		cw := cmChainWire(f)
		pw := ccBytesList(probes)
		c.Emit("CC lookup "+cw+" "+pw, "ok "+ccJoin(look))
		c.Emit("CC notdef "+cw+" "+pw, "ok "+ccJoin(nd))
	}

	// the file round trip keeps every level's code space
	o := Pick(r, cmOptsAll)
	rd, obj, err := cmRoundTripFile(o, f)
	if err != nil {
		bad("embed-extract", fmt.Sprintf("%s %v: %v", tag, o, err))
		return
	}
	g, err := cmap.Extract(pdf.NewCursor(rd), obj, false)
	if err != nil {
		bad("embed-extract", fmt.Sprintf("%s %v: Extract: %v", tag, o, err))
		return
	}
	viol = append(viol, cmCompareChains(f, g, probes, look, nd, tag+" "+o.String())...)
	v2, collected2, ok2 := cmCheckChainCodec(nil, r, g, tag+" after extraction", false)
	viol = append(viol, v2...)
	if ok != ok2 {
		bad("chain-codespace", fmt.Sprintf("%s: File.Codec() succeeds=%v before embedding and =%v after extraction", tag, ok, ok2))
	} else if ok && collected != collected2 {
		bad("chain-enum-lookup", fmt.Sprintf("%s: the enumeration with File.Codec() differs after extraction", tag))
	}
	if c != nil {
		c.Stat("chain_spaces_roundtrips")
	}
	return
}

// ---- (B) histories ----

type cmSnap struct {
	wire, look, nd, all string
	wmode               font.WritingMode
	name                string
}

func cmSnapshot(f *cmap.File, codec *charcode.Codec, probes [][]byte) cmSnap {
	look, nd := cmLookups(f, probes)
	return cmSnap{cmChainWire(f), ccJoin(look), ccJoin(nd), cmAllSeq(f, codec), f.WMode, f.Name}
}

func (a cmSnap) diff(b cmSnap) string {
	switch {
	case a.wire != b.wire:
		return "entries: " + truncate(a.wire) + " became " + truncate(b.wire)
	case a.look != b.look:
		return "LookupCID results changed"
	case a.nd != b.nd:
		return "LookupNotdefCID results changed"
	case a.all != b.all:
		return "the enumeration changed"
	case a.wmode != b.wmode:
		return "WMode changed"
	case a.name != b.name:
		return "Name changed"
	}
	return ""
}

// cmAnswers: f answers exactly the map m (lookups for every code of m, enumeration = m).
func cmAnswers(f *cmap.File, codec *charcode.Codec, m map[charcode.Code]cid.CID) string {
	for code, v := range m {
		b := codec.AppendCode(nil, code)
		if got := f.LookupCID(b); got != v {
			return fmt.Sprintf("code %x is mapped to %d but LookupCID returns %d", b, v, got)
		}
	}
	got := map[charcode.Code]cid.CID{}
	n := 0
	for code, v := range f.All(codec) {
		got[code] = v
		n++
	}
	if !maps.Equal(got, m) || n != len(m) {
		return fmt.Sprintf("All yields %d items (%d distinct codes), the map has %d entries", n, len(got), len(m))
	}
	return ""
}

func cmCaseHistory(c *Ctx, r *Rand, emit bool) (key string, viol []cmViol) {
	bad := func(o, d string) { viol = append(viol, cmViol{o, d}) }
	defer func() {
		if p := recover(); p != nil {
			bad("c13-no-panic", fmt.Sprintf("panic: %v", p))
		}
	}()
	sp := Pick(r, cmSpaces())
	codec, _ := charcode.NewCodec(sp.csr)
	genMap := func(nRuns int) (map[charcode.Code]cid.CID, [][]byte) {
		codes := cmGenCodes(r, codec, sp.csr, nRuns)
		return cmGenCIDMap(r, codec, codes), codes
	}
	n1 := 1 + r.Intn(8)
	m1, codes1 := genMap(n1)
	var n2 int
	switch r.Intn(4) {
	case 0:
		n2 = n1 // same size
	case 1:
		n2 = max(0, n1-1-r.Intn(3)) // smaller (possibly empty)
	case 2:
		n2 = n1 + 1 + r.Intn(10) // larger
	default:
		n2 = 1 + r.Intn(8)
	}
	m2, codes2 := genMap(n2)
	if n2 == 0 {
		m2 = map[charcode.Code]cid.CID{}
	}
	if r.P(1, 3) {
		// overlapping key sets with other values
		for code, v := range m1 {
			if r.Bool() {
				m2[code] = v + 1
			}
		}
	}
	probes := cmProbes(r, sp.csr, append(append([][]byte{}, codes1...), codes2...), 10)
	key = "history " + sp.name + " " + cmDataWire(m1) + " -> " + cmDataWire(m2)

	a := &cmap.File{Name: "Hist-A", ROS: cmROS}
	if r.P(1, 3) {
		a.WMode = font.Vertical
	}
	if r.P(1, 3) {
		rg := Pick(r, sp.csr)
		a.NotdefRanges = []cmap.Range{{First: append([]byte{}, rg.Low...), Last: append([]byte{}, rg.High...), Value: cid.CID(1 + r.Intn(9))}}
	}
	m1orig := maps.Clone(m1)
	a.SetMapping(codec, m1)
	if d := cmAnswers(a, codec, m1orig); d != "" {
		bad("lookup-mapped", "after SetMapping(m1): "+d)
	}
	snapA := cmSnapshot(a, codec, probes)

	// the map belongs to the caller: changing it afterwards changes nothing
	for code := range m1 {
		if r.Bool() {
			m1[code] += 1000
		} else {
			delete(m1, code)
		}
	}
	m1[charcode.Code(0x41)] = 7777
	if d := snapA.diff(cmSnapshot(a, codec, probes)); d != "" {
		bad("setmapping-keeps-map", "the caller changed the map after SetMapping returned and the file changed: "+d)
	}

	// the copy
	var b *cmap.File
	how := "Clone()"
	if r.Bool() {
		b = a.Clone()
	} else {
		cp := *a
		b = &cp
		how = "struct copy"
	}
	b.Name = "Hist-B"
	if r.Bool() {
		if b.WMode == font.Vertical {
			b.WMode = font.Horizontal
		} else {
			b.WMode = font.Vertical
		}
	}
	if d := snapA.diff(cmSnapshot(a, codec, probes)); d != "" {
		bad("file-clone-aliased", fmt.Sprintf("%s and a new Name/WMode on the copy changed the original: %s", how, d))
	}
	m2orig := maps.Clone(m2)
	before := cmFileWire(b)
	b.SetMapping(codec, m2)
	if c != nil && emit {
		c.Emit("CC setmap "+ccCSRWire(sp.csr)+" "+before+" _ "+cmDataWire(m2orig), "ok "+cmFileWire(b))
	}
	if d := snapA.diff(cmSnapshot(a, codec, probes)); d != "" {
		bad("file-clone-aliased", fmt.Sprintf("%s: after %s and SetMapping(m2) on the copy (m1 has %d entries, m2 %d) the ORIGINAL changed: %s", sp.name, how, len(m1orig), len(m2orig), d))
	}
	if d := cmAnswers(a, codec, m1orig); d != "" {
		bad("file-clone-aliased", fmt.Sprintf("%s: after SetMapping(m2) on the %s the original no longer answers m1: %s", sp.name, how, d))
	}
	if d := cmAnswers(b, codec, m2orig); d != "" {
		bad("file-clone-aliased", fmt.Sprintf("%s: the %s does not answer m2 after SetMapping(m2): %s", sp.name, how, d))
	}

	// SetMapping again on the same File = SetMapping on a fresh File
	fresh := &cmap.File{Name: b.Name, ROS: b.ROS, WMode: b.WMode, NotdefRanges: b.NotdefRanges, NotdefSingles: b.NotdefSingles}
	fresh.SetMapping(codec, m2orig)
	if cmFileWire(fresh) != cmFileWire(b) {
		bad("setmapping-not-fresh", fmt.Sprintf("%s: SetMapping(m2) on a File that already held m1 gives %s, on a fresh File %s", sp.name, truncate(cmFileWire(b)), truncate(cmFileWire(fresh))))
	}
	snapB := cmSnapshot(b, codec, probes)
	// and the original a second time: back to m1-like content on a, b must not move
	m3, _ := genMap(1 + r.Intn(6))
	m3orig := maps.Clone(m3)
	a.SetMapping(codec, m3)
	if d := snapB.diff(cmSnapshot(b, codec, probes)); d != "" {
		bad("file-clone-aliased", fmt.Sprintf("%s: SetMapping(m3) on the original changed the %s: %s", sp.name, how, d))
	}
	if d := cmAnswers(a, codec, m3orig); d != "" {
		bad("setmapping-not-fresh", fmt.Sprintf("%s: the second SetMapping on the original: %s", sp.name, d))
	}
	if d := cmAnswers(b, codec, m2orig); d != "" {
		bad("file-clone-aliased", fmt.Sprintf("%s: after the second SetMapping on the original the %s no longer answers m2: %s", sp.name, how, d))
	}

	// both survive the file round trip as what they are
	for _, f := range []*cmap.File{a, b} {
		viol = append(viol, cmCheckCIDFile(c, r, f, codec, sp.csr, probes, cmPickOpts(r, 1), emit, true, false)...)
	}
	if c != nil {
		c.Stat("history_" + strings.ReplaceAll(how, " ", "_"))
	}
	return
}

func replayC13Chains(input string) (bool, string) {
	parts := strings.Fields(input)
	if len(parts) != 2 {
		return true, "bad replay input"
	}
	st, err := strconv.ParseUint(parts[1], 10, 64)
	if err != nil {
		return true, "bad replay input"
	}
	var viol []cmViol
	switch parts[0] {
	case "chainspaces":
		_, viol = cmCaseChainSpaces(nil, &Rand{s: st}, false)
	case "history":
		_, viol = cmCaseHistory(nil, &Rand{s: st}, false)
	}
	if len(viol) == 0 {
		return true, "all chain / history oracles hold for case " + input
	}
	var sb strings.Builder
	for i, v := range viol {
		if i < 5 {
			sb.WriteString(v.oracle + ": " + v.desc + "\n")
		}
	}
	return false, sb.String()
}

func runC13Chains(c *Ctx) {
	r := c.R
	n := 250
	if c.Thorough {
		n = 5000
	}
	for i := 0; i < n; i++ {
		rr := r.Fork()
		st := rr.s
		key, viol := cmCaseChainSpaces(c, rr, i%2 == 0)
		c.Case(key, true)
		for _, v := range viol {
			c.Violate(cmChainOracle(v.oracle), v.oracle, v.desc, "chainspaces "+strconv.FormatUint(st, 10))
		}
		rr = r.Fork()
		st = rr.s
		key, viol = cmCaseHistory(c, rr, i%2 == 0)
		c.Case(key, true)
		for _, v := range viol {
			c.Violate(cmChainOracle(v.oracle), v.oracle, v.desc, "history "+strconv.FormatUint(st, 10))
		}
		if i < 2 {
			c.Sample(truncate(key))
		}
	}
}

// cmChainOracle: the oracle whose replay function regenerates the case.
func cmChainOracle(key string) string {
	switch key {
	case "chain-codespace", "chain-enum-lookup", "file-clone-aliased", "setmapping-not-fresh", "setmapping-keeps-map":
		return key
	}
	return "chain-codespace" // (other keys raised inside these cases are replayed by the same generator)
}

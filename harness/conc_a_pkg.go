package main

// C18, tie (a3) for the clause "independent Readers and Writers in different goroutines do not
// interfere through package-level state": a lock inventory of the package-level variables.
//
// For the root package, font/cmap and font/mapping the sources are re-parsed (go/ast) on every
// run.  Every package-level `var` which can carry mutable state (map, slice, pointer, or anything
// assigned outside init) is listed with the mutex declared next to it (same `var (...)` group,
// or an adjacent declaration), and every function that reads or writes it with the lock state of
// the access:
//
//	locked    between M.Lock()/M.RLock() and the matching Unlock (or after `defer M.Unlock()`)
//	rlocked   a write under RLock only (reported)
//	caller    the function is unexported and every call site in the package holds the lock
//	init      inside func init / a package-level initialiser
//	once      inside a closure passed to (*sync.Once).Do
//	unlocked  none of these
//
// Rules (oracle, class key pkg-state-unguarded-access): a variable with a mutex must have no
// `unlocked`/`rlocked` access; a variable without one must not be written outside init unless it
// is on the reviewed list below (sync.Pool values, which synchronise themselves).  The accesses of
// the mutex-guarded variables are also one correspondence line (`CONC pkginv`), compared with the
// reviewed list `pkgInventory` of lean/PdfVerif/Model/CONCProg.lean about which
// `pkg_inventory_all_guarded` is proved.

import (
	"fmt"
	"go/ast"
	"go/parser"
	"go/token"
	"os"
	"path/filepath"
	"sort"
	"strings"
)

func init() {
	addRun("C18", "lock inventory of package-level mutable state (root package, font/cmap, font/mapping) re-extracted from the Go sources: every access to a mutex-guarded package-level variable with its lock state, compared with the reviewed inventory; unguarded variables must be immutable after init. One case.", runConcPkgInventory)
	addReplay("C18", "pkgstate", func(string) (bool, string) {
		res, err := concPkgInventory(concRepo())
		if err != nil {
			return false, err.Error()
		}
		if len(res.violations) == 0 {
			return true, res.line
		}
		return false, strings.Join(res.violations, "\n") + "\n" + res.line
	})
}

func concRepo() string {
	if r := os.Getenv("VERIF_REPO"); r != "" {
		return r
	}
	return "/repo"
}

// packages scanned, relative to the repository root
var concPkgDirs = []string{".", "font/cmap", "font/mapping"}

// reviewed: package-level variables without a mutex which are written or handed out by
// reference outside init, and why that is safe
var concPkgReviewed = map[string]string{
	"pdf.zlibReaderPool": "*sync.Pool: Get/Put synchronise themselves",
	"pdf.zlibWriterPool": "sync.Pool: Get/Put synchronise themselves",
}

type concPkgVar struct {
	pkg, name string
	mutex     string // "" if none
	kind      string // map, slice, pointer, other
}

type concPkgAccess struct {
	v      *concPkgVar
	fn     string
	access string // read, write, call
	state  string
}

type concPkgResult struct {
	line       string   // guarded variables: the correspondence line
	all        []string // every variable with its accesses (for the evidence sample)
	violations []string
	racing     map[string]string // violation -> schedule text
}

func concIsMutexType(e ast.Expr) bool {
	sel, ok := e.(*ast.SelectorExpr)
	if !ok {
		return false
	}
	id, ok := sel.X.(*ast.Ident)
	return ok && id.Name == "sync" && (sel.Sel.Name == "Mutex" || sel.Sel.Name == "RWMutex")
}

func concVarKind(typ ast.Expr, val ast.Expr) string {
	switch t := typ.(type) {
	case *ast.MapType:
		return "map"
	case *ast.ArrayType:
		if t.Len == nil {
			return "slice"
		}
		return "other"
	case *ast.StarExpr:
		return "pointer"
	case nil:
	default:
		return "other"
	}
	switch v := val.(type) {
	case *ast.CompositeLit:
		return concVarKind(v.Type, nil)
	case *ast.UnaryExpr:
		if v.Op == token.AND {
			return "pointer"
		}
	case *ast.CallExpr:
		if id, ok := v.Fun.(*ast.Ident); ok && (id.Name == "make" || id.Name == "new") && len(v.Args) > 0 {
			if id.Name == "new" {
				return "pointer"
			}
			return concVarKind(v.Args[0], nil)
		}
	}
	return "other"
}

// one function (or package-level initialiser) of a package
type concPkgFunc struct {
	name     string
	exported bool
	body     *ast.BlockStmt
	isInit   bool
	// accesses with the locally held mutexes; call sites of package functions likewise
	acc   []concLocalAccess
	calls []concLocalCall
	// function used as a value (not called): may run anywhere
	escapes bool
}

type concLocalAccess struct {
	v      *concPkgVar
	access string
	held   map[string]string // mutex -> "w" | "r"
	once   bool
}

type concLocalCall struct {
	callee string
	held   map[string]string
}

type concPkgWalker struct {
	vars    map[string]*concPkgVar // by name
	mutexes map[string]bool
	funcs   map[string]bool
	f       *concPkgFunc
	shadow  map[string]int // locally declared names which hide package-level ones
}

func copyHeld(h map[string]string) map[string]string {
	c := make(map[string]string, len(h))
	for k, v := range h {
		c[k] = v
	}
	return c
}

func (w *concPkgWalker) pkgVar(e ast.Expr) *concPkgVar {
	id, ok := e.(*ast.Ident)
	if !ok || w.shadow[id.Name] > 0 {
		return nil
	}
	return w.vars[id.Name]
}

// muCall recognises M.Lock() etc. on a package-level mutex.
func (w *concPkgWalker) muCall(e ast.Expr) (string, string) {
	call, ok := e.(*ast.CallExpr)
	if !ok {
		return "", ""
	}
	sel, ok := call.Fun.(*ast.SelectorExpr)
	if !ok {
		return "", ""
	}
	id, ok := sel.X.(*ast.Ident)
	if !ok || !w.mutexes[id.Name] || w.shadow[id.Name] > 0 {
		return "", ""
	}
	return id.Name, sel.Sel.Name
}

func (w *concPkgWalker) record(v *concPkgVar, access string, held map[string]string, once bool) {
	w.f.acc = append(w.f.acc, concLocalAccess{v, access, copyHeld(held), once})
}

// expr records reads, calls and function references inside an expression.
func (w *concPkgWalker) expr(n ast.Node, held map[string]string, once bool) {
	if n == nil {
		return
	}
	ast.Inspect(n, func(n ast.Node) bool {
		switch x := n.(type) {
		case *ast.FuncLit:
			// a closure: it may run later, without the locks held now
			w.block(x.Body.List, map[string]string{}, once)
			return false
		case *ast.CallExpr:
			// once.Do(func() {...})
			if sel, ok := x.Fun.(*ast.SelectorExpr); ok && sel.Sel.Name == "Do" && len(x.Args) == 1 {
				if fl, ok := x.Args[0].(*ast.FuncLit); ok {
					w.expr(sel.X, held, once)
					w.block(fl.Body.List, map[string]string{}, true)
					return false
				}
			}
			if id, ok := x.Fun.(*ast.Ident); ok {
				if id.Name == "delete" && len(x.Args) == 2 {
					if v := w.pkgVar(x.Args[0]); v != nil {
						w.record(v, "write", held, once)
						w.expr(x.Args[1], held, once)
						return false
					}
				}
				if w.funcs[id.Name] && w.shadow[id.Name] == 0 {
					w.f.calls = append(w.f.calls, concLocalCall{id.Name, copyHeld(held)})
					for _, a := range x.Args {
						w.expr(a, held, once)
					}
					return false
				}
			}
			// method call on a package-level variable: V.M(...)
			if sel, ok := x.Fun.(*ast.SelectorExpr); ok {
				if v := w.pkgVar(sel.X); v != nil {
					w.record(v, "call", held, once)
					for _, a := range x.Args {
						w.expr(a, held, once)
					}
					return false
				}
			}
		case *ast.UnaryExpr:
			if x.Op == token.AND {
				if v := w.pkgVar(x.X); v != nil {
					w.record(v, "write", held, once) // address taken: may be written through
					return false
				}
			}
		case *ast.Ident:
			if w.shadow[x.Name] > 0 {
				return true
			}
			if v := w.vars[x.Name]; v != nil {
				w.record(v, "read", held, once)
			} else if w.funcs[x.Name] {
				// a package function used as a value
				w.f.calls = append(w.f.calls, concLocalCall{x.Name, map[string]string{"\x00escape": "1"}})
			}
		case *ast.SelectorExpr:
			// do not mistake the field name of x.f for a package-level identifier
			w.expr(x.X, held, once)
			return false
		case *ast.KeyValueExpr:
			// struct literal keys are field names
			if _, isIdent := x.Key.(*ast.Ident); isIdent {
				w.expr(x.Value, held, once)
				return false
			}
		}
		return true
	})
}

func (w *concPkgWalker) declare(names ...*ast.Ident) {
	for _, id := range names {
		if id != nil && (w.vars[id.Name] != nil || w.mutexes[id.Name] || w.funcs[id.Name]) {
			w.shadow[id.Name]++
		}
	}
}

// lhs records a write target.
func (w *concPkgWalker) lhs(l ast.Expr, held map[string]string, once bool) {
	switch x := l.(type) {
	case *ast.Ident:
		if v := w.pkgVar(x); v != nil {
			w.record(v, "write", held, once)
		}
	case *ast.IndexExpr:
		if v := w.pkgVar(x.X); v != nil {
			w.record(v, "write", held, once)
		} else {
			w.expr(x.X, held, once)
		}
		w.expr(x.Index, held, once)
	case *ast.SelectorExpr:
		if v := w.pkgVar(x.X); v != nil {
			w.record(v, "write", held, once)
		} else {
			w.expr(x.X, held, once)
		}
	case *ast.StarExpr:
		if v := w.pkgVar(x.X); v != nil {
			w.record(v, "write", held, once)
		} else {
			w.expr(x.X, held, once)
		}
	default:
		w.expr(l, held, once)
	}
}

// block walks statements in order, tracking which package-level mutexes are held.  It returns
// the set held afterwards and whether the block always leaves the function.
func (w *concPkgWalker) block(stmts []ast.Stmt, held map[string]string, once bool) (map[string]string, bool) {
	held = copyHeld(held)
	for _, s := range stmts {
		switch st := s.(type) {
		case *ast.ExprStmt:
			if m, op := w.muCall(st.X); m != "" {
				switch op {
				case "Lock":
					held[m] = "w"
				case "RLock":
					held[m] = "r"
				case "Unlock", "RUnlock":
					delete(held, m)
				}
				continue
			}
			w.expr(st.X, held, once)
		case *ast.DeferStmt:
			if m, op := w.muCall(st.Call); m != "" && (op == "Unlock" || op == "RUnlock") {
				continue // held until the function returns
			}
			w.expr(st.Call, held, once)
		case *ast.AssignStmt:
			if st.Tok == token.DEFINE {
				for _, r := range st.Rhs {
					w.expr(r, held, once)
				}
				for _, l := range st.Lhs {
					if id, ok := l.(*ast.Ident); ok {
						w.declare(id)
					}
				}
				continue
			}
			for _, l := range st.Lhs {
				w.lhs(l, held, once)
			}
			for _, r := range st.Rhs {
				w.expr(r, held, once)
			}
		case *ast.IncDecStmt:
			w.lhs(st.X, held, once)
		case *ast.DeclStmt:
			if gd, ok := st.Decl.(*ast.GenDecl); ok {
				for _, sp := range gd.Specs {
					if vs, ok := sp.(*ast.ValueSpec); ok {
						for _, v := range vs.Values {
							w.expr(v, held, once)
						}
						w.declare(vs.Names...)
					}
				}
			}
		case *ast.ReturnStmt:
			for _, r := range st.Results {
				w.expr(r, held, once)
			}
			return held, true
		case *ast.IfStmt:
			if st.Init != nil {
				held, _ = w.block([]ast.Stmt{st.Init}, held, once)
			}
			w.expr(st.Cond, held, once)
			h1, t1 := w.block(st.Body.List, held, once)
			h2, t2 := held, false
			if st.Else != nil {
				switch e := st.Else.(type) {
				case *ast.BlockStmt:
					h2, t2 = w.block(e.List, held, once)
				default:
					h2, t2 = w.block([]ast.Stmt{e}, held, once)
				}
			}
			switch {
			case t1 && t2:
				return held, true
			case t1:
				held = h2
			case t2:
				held = h1
			default:
				// keep what both branches hold
				m := map[string]string{}
				for k, v := range h1 {
					if h2[k] == v {
						m[k] = v
					}
				}
				held = m
			}
		case *ast.ForStmt:
			if st.Init != nil {
				held, _ = w.block([]ast.Stmt{st.Init}, held, once)
			}
			w.expr(st.Cond, held, once)
			if st.Post != nil {
				w.block([]ast.Stmt{st.Post}, held, once)
			}
			w.block(st.Body.List, held, once)
		case *ast.RangeStmt:
			w.expr(st.X, held, once)
			if st.Tok == token.DEFINE {
				if id, ok := st.Key.(*ast.Ident); ok {
					w.declare(id)
				}
				if id, ok := st.Value.(*ast.Ident); ok {
					w.declare(id)
				}
			} else {
				if st.Key != nil {
					w.lhs(st.Key, held, once)
				}
				if st.Value != nil {
					w.lhs(st.Value, held, once)
				}
			}
			w.block(st.Body.List, held, once)
		case *ast.BlockStmt:
			var t bool
			held, t = w.block(st.List, held, once)
			if t {
				return held, true
			}
		case *ast.SwitchStmt:
			if st.Init != nil {
				held, _ = w.block([]ast.Stmt{st.Init}, held, once)
			}
			w.expr(st.Tag, held, once)
			for _, c := range st.Body.List {
				cc := c.(*ast.CaseClause)
				for _, e := range cc.List {
					w.expr(e, held, once)
				}
				w.block(cc.Body, held, once)
			}
		case *ast.TypeSwitchStmt:
			if st.Init != nil {
				held, _ = w.block([]ast.Stmt{st.Init}, held, once)
			}
			w.block([]ast.Stmt{st.Assign}, held, once)
			for _, c := range st.Body.List {
				cc := c.(*ast.CaseClause)
				w.block(cc.Body, held, once)
			}
		case *ast.SelectStmt:
			for _, c := range st.Body.List {
				cc := c.(*ast.CommClause)
				if cc.Comm != nil {
					w.block([]ast.Stmt{cc.Comm}, held, once)
				}
				w.block(cc.Body, held, once)
			}
		case *ast.GoStmt:
			// runs concurrently: nothing is held there
			w.expr(st.Call, map[string]string{}, once)
		case *ast.LabeledStmt:
			var t bool
			held, t = w.block([]ast.Stmt{st.Stmt}, held, once)
			if t {
				return held, true
			}
		case *ast.SendStmt:
			w.expr(st.Chan, held, once)
			w.expr(st.Value, held, once)
		case *ast.BranchStmt, *ast.EmptyStmt:
		default:
			w.expr(s, held, once)
		}
	}
	return held, false
}

// concScanPackage analyses one package directory.
func concScanPackage(repo, dir string) (vars []*concPkgVar, accs []concPkgAccess, err error) {
	files, err := filepath.Glob(filepath.Join(repo, dir, "*.go"))
	if err != nil {
		return nil, nil, err
	}
	fset := token.NewFileSet()
	var parsed []*ast.File
	pkgName := ""
	for _, f := range files {
		base := filepath.Base(f)
		if strings.HasSuffix(base, "_test.go") || strings.HasPrefix(base, "verif_") {
			continue
		}
		af, err := parser.ParseFile(fset, f, nil, 0)
		if err != nil {
			return nil, nil, err
		}
		if strings.HasSuffix(af.Name.Name, "_test") || af.Name.Name == "main" {
			continue
		}
		pkgName = af.Name.Name
		parsed = append(parsed, af)
	}
	w := &concPkgWalker{vars: map[string]*concPkgVar{}, mutexes: map[string]bool{}, funcs: map[string]bool{}}
	type initExpr struct {
		v   *concPkgVar
		val ast.Expr
	}
	var inits []initExpr
	// pass 1: package-level variables, mutexes, functions
	for _, af := range parsed {
		for di, d := range af.Decls {
			switch x := d.(type) {
			case *ast.FuncDecl:
				if x.Recv == nil {
					w.funcs[x.Name.Name] = true
				}
			case *ast.GenDecl:
				if x.Tok != token.VAR {
					continue
				}
				groupMutex := ""
				for _, sp := range x.Specs {
					vs := sp.(*ast.ValueSpec)
					if concIsMutexType(vs.Type) {
						for _, n := range vs.Names {
							w.mutexes[n.Name] = true
							groupMutex = n.Name
						}
					}
				}
				if groupMutex == "" {
					// a mutex declared directly before or after this declaration
					for _, dj := range []int{di - 1, di + 1} {
						if dj < 0 || dj >= len(af.Decls) {
							continue
						}
						if g, ok := af.Decls[dj].(*ast.GenDecl); ok && g.Tok == token.VAR && len(g.Specs) == 1 {
							vs := g.Specs[0].(*ast.ValueSpec)
							if concIsMutexType(vs.Type) {
								groupMutex = vs.Names[0].Name
							}
						}
					}
				}
				for _, sp := range x.Specs {
					vs := sp.(*ast.ValueSpec)
					if concIsMutexType(vs.Type) {
						continue
					}
					for i, n := range vs.Names {
						if n.Name == "_" {
							continue
						}
						var val ast.Expr
						if i < len(vs.Values) {
							val = vs.Values[i]
						}
						v := &concPkgVar{pkg: pkgName, name: n.Name, mutex: groupMutex, kind: concVarKind(vs.Type, val)}
						w.vars[n.Name] = v
						vars = append(vars, v)
						if val != nil {
							inits = append(inits, initExpr{v, val})
						}
					}
				}
			}
		}
	}
	// pass 2: walk every function body and initialiser
	var funcs []*concPkgFunc
	for _, af := range parsed {
		for _, d := range af.Decls {
			fd, ok := d.(*ast.FuncDecl)
			if !ok || fd.Body == nil {
				continue
			}
			name := fd.Name.Name
			exported := fd.Name.IsExported()
			if fd.Recv != nil {
				// methods: callable through values and interfaces from anywhere
				name = "(" + concRecvName(fd.Recv) + ")." + name
				exported = true
			}
			f := &concPkgFunc{name: name, exported: exported, body: fd.Body, isInit: fd.Recv == nil && fd.Name.Name == "init"}
			w.f = f
			w.shadow = map[string]int{}
			if fd.Recv != nil {
				for _, fl := range fd.Recv.List {
					w.declare(fl.Names...)
				}
			}
			for _, fl := range fd.Type.Params.List {
				w.declare(fl.Names...)
			}
			if fd.Type.Results != nil {
				for _, fl := range fd.Type.Results.List {
					w.declare(fl.Names...)
				}
			}
			w.block(fd.Body.List, map[string]string{}, false)
			funcs = append(funcs, f)
		}
	}
	initF := &concPkgFunc{name: "<initialiser>", isInit: true}
	w.f = initF
	w.shadow = map[string]int{}
	for _, ie := range inits {
		w.expr(ie.val, map[string]string{}, false)
	}
	funcs = append(funcs, initF)

	// pass 3: which unexported functions are entered only with a mutex held (greatest fixpoint)
	byName := map[string]*concPkgFunc{}
	for _, f := range funcs {
		byName[f.name] = f
	}
	type site struct {
		caller *concPkgFunc
		held   map[string]string
	}
	sites := map[string][]site{}
	for _, f := range funcs {
		for _, c := range f.calls {
			if _, esc := c.held["\x00escape"]; esc {
				if g := byName[c.callee]; g != nil {
					g.escapes = true
				}
				continue
			}
			sites[c.callee] = append(sites[c.callee], site{f, c.held})
		}
	}
	entry := map[string]map[string]bool{} // function -> mutexes held on entry
	for _, f := range funcs {
		if f.exported || f.isInit || f.escapes || len(sites[f.name]) == 0 {
			continue
		}
		entry[f.name] = map[string]bool{}
		for m := range w.mutexes {
			entry[f.name][m] = true
		}
	}
	for changed := true; changed; {
		changed = false
		for name, ms := range entry {
			for m := range ms {
				for _, s := range sites[name] {
					if s.held[m] == "w" || entry[s.caller.name][m] {
						continue
					}
					delete(ms, m)
					changed = true
					break
				}
			}
		}
	}
	for _, f := range funcs {
		for _, a := range f.acc {
			st := "unlocked"
			switch {
			case f.isInit:
				st = "init"
			case a.once:
				st = "once"
			case a.v.mutex != "" && a.held[a.v.mutex] == "w":
				st = "locked"
			case a.v.mutex != "" && a.held[a.v.mutex] == "r":
				if a.access == "write" {
					st = "rlocked"
				} else {
					st = "locked"
				}
			case a.v.mutex != "" && entry[f.name][a.v.mutex]:
				st = "caller"
			}
			accs = append(accs, concPkgAccess{a.v, f.name, a.access, st})
		}
	}
	return vars, accs, nil
}

func concRecvName(fl *ast.FieldList) string {
	if len(fl.List) == 0 {
		return "?"
	}
	t := fl.List[0].Type
	star := ""
	if s, ok := t.(*ast.StarExpr); ok {
		t = s.X
		star = "*"
	}
	if ix, ok := t.(*ast.IndexExpr); ok {
		t = ix.X
	}
	if id, ok := t.(*ast.Ident); ok {
		return star + id.Name
	}
	return "?"
}

// concPkgInventory builds the inventory of all scanned packages and applies the rules.
func concPkgInventory(repo string) (*concPkgResult, error) {
	res := &concPkgResult{racing: map[string]string{}}
	var guarded []string
	for _, dir := range concPkgDirs {
		vars, accs, err := concScanPackage(repo, dir)
		if err != nil {
			return nil, err
		}
		byVar := map[*concPkgVar]map[string]bool{}
		writers := map[*concPkgVar][]string{} // first-load functions: locked writers of a guarded variable
		for _, a := range accs {
			if byVar[a.v] == nil {
				byVar[a.v] = map[string]bool{}
			}
			byVar[a.v][a.fn+"/"+a.access+"/"+a.state] = true
			if a.access == "write" && a.state != "init" {
				writers[a.v] = append(writers[a.v], a.fn)
			}
		}
		sort.Slice(vars, func(i, j int) bool { return vars[i].name < vars[j].name })
		for _, v := range vars {
			var items []string
			for k := range byVar[v] {
				items = append(items, k)
			}
			sort.Strings(items)
			full := v.pkg + "." + v.name
			mutable := false
			for _, it := range items {
				p := strings.Split(it, "/")
				if p[1] == "write" && p[2] != "init" {
					mutable = true
				}
			}
			if v.mutex == "" && !mutable && (v.kind == "other" || len(items) == 0) {
				continue // plain immutable value
			}
			if v.mutex != "" {
				for _, it := range items {
					guarded = append(guarded, full+"@"+v.mutex+":"+it)
					p := strings.Split(it, "/")
					if p[2] == "unlocked" || p[2] == "rlocked" {
						msg := fmt.Sprintf("%s (guarded by %s): %s in %s outside the lock", full, v.mutex, p[1], p[0])
						res.violations = append(res.violations, msg)
						wr := "a function which stores a new entry"
						if len(writers[v]) > 0 {
							wr = writers[v][0]
						}
						res.racing[msg] = fmt.Sprintf("racing schedule: goroutine A calls %s for an entry which is not cached yet (takes %s, writes %s); goroutine B runs %s at the same time and touches %s without %s: unsynchronised map %s during a map write (run under -race, or fatal 'concurrent map read and map write')", wr, v.mutex, v.name, p[0], v.name, v.mutex, p[1])
					}
				}
			} else if mutable {
				if _, ok := concPkgReviewed[full]; !ok {
					var ws []string
					for _, it := range items {
						p := strings.Split(it, "/")
						if p[1] == "write" && p[2] != "init" {
							ws = append(ws, p[0])
						}
					}
					msg := fmt.Sprintf("%s has no mutex but is written outside init by %s", full, strings.Join(ws, ", "))
					res.violations = append(res.violations, msg)
					res.racing[msg] = "racing schedule: two goroutines run " + ws[0] + " (or one of them any reader of " + v.name + ") at the same time"
				}
			}
			res.all = append(res.all, fmt.Sprintf("%s[%s%s] %s", full, v.kind, map[bool]string{true: "@" + v.mutex, false: ""}[v.mutex != ""], strings.Join(items, " ")))
		}
	}
	sort.Strings(guarded)
	res.line = strings.Join(guarded, " ")
	if res.line == "" {
		res.line = "-"
	}
	return res, nil
}

func runConcPkgInventory(c *Ctx) {
	res, err := concPkgInventory(concRepo())
	if err != nil {
		c.Violate("pkgstate", "inventory-extraction", "cannot extract the package-level inventory: "+err.Error(), "")
		return
	}
	c.Case("package-level inventory", true)
	c.Emit("CONC pkginv", res.line)
	c.Sample("package-level state: " + strings.Join(res.all, " ; "))
	c.StatN("package-level variables listed", len(res.all))
	c.StatN("accesses to mutex-guarded package-level variables", len(strings.Fields(res.line)))
	for _, v := range res.violations {
		c.Violate("pkgstate", "pkg-state-unguarded-access", v+" — "+res.racing[v], v)
		// goroutines on an unguarded map would bring this process down; the in-process runs which
		// touch package-level caches are skipped, the -race child (own process) still runs
		concPkgUnguarded = true
	}
}

// concPkgUnguarded is set when the package-level inventory found an unguarded access.
var concPkgUnguarded bool

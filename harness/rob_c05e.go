package main

import (
	"bytes"
	"fmt"
	"io"
	"os"
	"os/exec"
	"runtime"
	"runtime/debug"
	"strconv"
	"strings"
	"sync"
	"syscall"
	"time"

	"seehuhn.de/go/pdf"
	"seehuhn.de/go/pdf/font/charcode"
	"seehuhn.de/go/pdf/font/cmap"
	"seehuhn.de/go/pdf/graphics/extract"
	"seehuhn.de/go/pdf/page"
	"seehuhn.de/go/pdf/pagetree"
	"seehuhn.de/go/pdf/reader"
)

// Property C05, "terminates within a time proportional to the input, memory within budgets", as
// GROWTH: a child process (rob_c05d.go) runs one workload on an input of size n and on one of size
// 2n and reports the CPU time (getrusage, so that a loaded machine does not matter) and the heap
// retained by each.  Linear work doubles; the oracle flags a factor above 3 together with an
// absolute floor (0.4 s of CPU resp. 64 MiB at the larger size), i.e. quadratic and exponential
// growth that is already noticeable at small sizes.  The families come from an independent audit
// of C05 (/tmp/a1/C05/finding2…9) and are kept generic in their size parameter; quick uses small
// sizes, thorough twice as large ones.  A second family, "selfref", holds the two fatal
// self-references of that audit (findings 1 and 10) and their siblings: a stack overflow kills
// only the child.
//
//	growth alternates d   image /Alternates nested d deep, 8 entries per level (exponential)
//	growth xrefstm k      k chained tables whose /XRefStm offsets differ by leading white space
//	growth xreftables k   k overlapping cross-reference tables in a /Prev chain
//	growth seqscan n      SequentialScan over n stream objects without endstream
//	growth seqdup n       SequentialScan + MakeReader over n definitions of ONE object number, streams
//	                      without endstream (bytes asked of the ReaderAt <= 10 x file size)
//	growth objstm n       FindPages over n pages in one padded Flate object stream
//	growth jbig2 n        DecodeStream through a chain of n /JBIG2Globals references
//	growth widgets n      page.Decode of n widgets below a chain of n field ancestors
//	growth clip n         reader.Reader over "W n q" x n (retained heap)
//	growth qdepth n       reader.Reader over "q" x n (retained heap, absolute budget)
//	growth newcodec n     page walk (font extraction, cmap.File.Codec) of a Type 0 font whose embedded
//	                      CMap has n pairwise disjoint 4-byte code space ranges (grid shape)
//	growth codespacerange k  Codec.CodeSpaceRange() of the codec extracted from such a font (1+3k ranges; k, k+1)
//	growth w-<shape> n, w2-<shape> n   extract.Dict + page walk of a Type 0 font whose descendant has a /W resp.
//	                      /W2 array of n groups; shapes fwd (maximal forward ranges), rev (reversed ranges),
//	                      alt (reversed + maximal forward, alternating), ovl (overlapping ranges), list
//	                      (list form, 200 elements each); ratio rule and CPU <= 250 ms + 5 us per byte
//	growth equivalent n   CodeSpaceRange.Equivalent(codec.CodeSpaceRange()) for n diagonal ranges

func c05eFile(objs []string) []byte {
	var b bytes.Buffer
	b.WriteString("%PDF-1.7\n")
	offs := make([]int, len(objs))
	for i, o := range objs {
		offs[i] = b.Len()
		fmt.Fprintf(&b, "%d 0 obj\n%s\nendobj\n", i+1, o)
	}
	x := b.Len()
	fmt.Fprintf(&b, "xref\n0 %d\n0000000000 65535 f \n", len(objs)+1)
	for _, o := range offs {
		fmt.Fprintf(&b, "%010d 00000 n \n", o)
	}
	fmt.Fprintf(&b, "trailer\n<< /Size %d /Root 1 0 R >>\nstartxref\n%d\n%%%%EOF\n", len(objs)+1, x)
	return b.Bytes()
}

// c05eRanges: VALID sets of pairwise disjoint 4-byte code space ranges (C12 audit, findings 1-3).
func c05eRanges(variant string, n int) charcode.CodeSpaceRange {
	var csr charcode.CodeSpaceRange
	grid := func(k int) {
		csr = append(csr, charcode.Range{Low: []byte{0, 0, 0, 0}, High: []byte{0xFF, 0xFF, 0xFF, 0}})
		for i := 0; i < k; i++ {
			b := byte(2*i + 1)
			csr = append(csr,
				charcode.Range{Low: []byte{b, 0, 0, 1}, High: []byte{b, 0xFF, 0xFF, 1}},
				charcode.Range{Low: []byte{0, b, 0, 2}, High: []byte{0xFF, b, 0xFF, 2}},
				charcode.Range{Low: []byte{0, 0, b, 3}, High: []byte{0xFF, 0xFF, b, 3}})
		}
	}
	switch variant {
	case "codespacerange": // n = k: 1+3k ranges
		grid(n)
	case "newcodec": // n ranges: a grid of n/9 steps, the rest differ in the last byte only
		k := max(n/9, 1)
		grid(k)
		for x := 0; len(csr) < n && x < 250; x++ {
			b := byte(4 + x)
			csr = append(csr, charcode.Range{Low: []byte{0, 0, 0, b}, High: []byte{0xFF, 0xFF, 0xFF, b}})
		}
	case "equivalent": // n single codes on the diagonal
		for i := 0; i < n && i < 127; i++ {
			b := byte(2*i + 1)
			csr = append(csr, charcode.Range{Low: []byte{b, b, b, b}, High: []byte{b, b, b, b}})
		}
	}
	return csr
}

// c05eCIDMetrics: the /W (vertical = false) or /W2 array of n groups.
func c05eCIDMetrics(shape string, vertical bool, n int) string {
	var b strings.Builder
	val := "500"
	if vertical {
		val = "-1000 500 880"
	}
	rng := func(c1, c2 int) { fmt.Fprintf(&b, "%d %d %s\n", c1, c2, val) }
	b.WriteString("[")
	for i := 0; i < n; i++ {
		switch shape {
		case "fwd":
			rng(0, 65535)
		case "rev":
			rng(65535-i%100, 1+i%100)
		case "alt":
			rng(65535, 1)
			rng(0, 65535)
		case "ovl":
			rng(i%1000, i%1000+3000)
		default: // "list"
			fmt.Fprintf(&b, "%d [", (i*200)%65000)
			for j := 0; j < 200; j++ {
				b.WriteString(val + " ")
			}
			b.WriteString("]\n")
		}
	}
	b.WriteString("]")
	return b.String()
}

func c05eInput(variant string, n int) []byte {
	if key, shape, ok := strings.Cut(variant, "-"); ok && (key == "w" || key == "w2") {
		content := "BT /F1 10 Tf <0041> Tj ET"
		return c05eFile([]string{"<< /Type /Catalog /Pages 2 0 R >>", "<< /Type /Pages /Kids [3 0 R] /Count 1 >>",
			"<< /Type /Page /Parent 2 0 R /MediaBox [0 0 100 100] /Contents 8 0 R /Resources << /Font << /F1 4 0 R >> >> >>",
			"<< /Type /Font /Subtype /Type0 /BaseFont /Verif /Encoding /Identity-V /DescendantFonts [6 0 R] >>",
			"null",
			"<< /Type /Font /Subtype /CIDFontType2 /BaseFont /Verif /CIDSystemInfo << /Registry (Adobe) /Ordering (Identity) /Supplement 0 >> /FontDescriptor 7 0 R /DW 1000 /" + strings.ToUpper(key) + " 9 0 R >>",
			"<< /Type /FontDescriptor /FontName /Verif /Flags 4 /FontBBox [0 0 1000 1000] /ItalicAngle 0 /Ascent 800 /Descent -200 /CapHeight 700 /StemV 80 >>",
			fmt.Sprintf("<< /Length %d >>\nstream\n%s\nendstream", len(content), content),
			c05eCIDMetrics(shape, key == "w2", n)})
	}
	switch variant {
	case "newcodec", "codespacerange", "equivalent":
		csr := c05eRanges(variant, n)
		var cm strings.Builder
		cm.WriteString("/CIDInit /ProcSet findresource begin\n12 dict begin\nbegincmap\n/CIDSystemInfo << /Registry (Adobe) /Ordering (Identity) /Supplement 0 >> def\n/CMapName /Verif-H def\n/CMapType 1 def\n")
		for i := 0; i < len(csr); i += 100 {
			blk := csr[i:min(i+100, len(csr))]
			fmt.Fprintf(&cm, "%d begincodespacerange\n", len(blk))
			for _, r := range blk {
				fmt.Fprintf(&cm, "<%x> <%x>\n", r.Low, r.High)
			}
			cm.WriteString("endcodespacerange\n")
		}
		fmt.Fprintf(&cm, "1 begincidrange\n<%x> <%x> 0\nendcidrange\nendcmap\nCMapName currentdict /CMap defineresource pop\nend\nend\n", csr[0].Low, csr[0].Low)
		content := fmt.Sprintf("BT /F1 10 Tf <%x> Tj ET", csr[0].Low)
		return c05eFile([]string{"<< /Type /Catalog /Pages 2 0 R >>", "<< /Type /Pages /Kids [3 0 R] /Count 1 >>",
			"<< /Type /Page /Parent 2 0 R /MediaBox [0 0 100 100] /Contents 8 0 R /Resources << /Font << /F1 4 0 R >> >> >>",
			"<< /Type /Font /Subtype /Type0 /BaseFont /Verif /Encoding 5 0 R /DescendantFonts [6 0 R] >>",
			fmt.Sprintf("<< /Type /CMap /CMapName /Verif-H /CIDSystemInfo << /Registry (Adobe) /Ordering (Identity) /Supplement 0 >> /Length %d >>\nstream\n%s\nendstream", cm.Len(), cm.String()),
			"<< /Type /Font /Subtype /CIDFontType2 /BaseFont /Verif /CIDSystemInfo << /Registry (Adobe) /Ordering (Identity) /Supplement 0 >> /FontDescriptor 7 0 R /DW 1000 >>",
			"<< /Type /FontDescriptor /FontName /Verif /Flags 4 /FontBBox [0 0 1000 1000] /ItalicAngle 0 /Ascent 800 /Descent -200 /CapHeight 700 /StemV 80 /FontFile2 9 0 R >>",
			fmt.Sprintf("<< /Length %d >>\nstream\n%s\nendstream", len(content), content),
			// (the font program is not looked at on this path; without one a custom CMap is refused)
			"<< /Length1 4 /Length 4 >>\nstream\n\x00\x01\x00\x00\nendstream"})
	case "alternates":
		objs := []string{"<< /Type /Catalog /Pages 2 0 R >>", "<< /Type /Pages /Kids [3 0 R] /Count 1 >>",
			"<< /Type /Page /Parent 2 0 R /MediaBox [0 0 100 100] /Resources << /XObject << /Im0 4 0 R >> >> >>"}
		for k := 0; k < n; k++ {
			alts := ""
			if k+1 < n {
				for i := 0; i < 8; i++ {
					alts += fmt.Sprintf("<</Image %d 0 R>>", 4+k+1)
				}
			}
			// the innermost image is invalid, so that nothing is cached on the way up
			objs = append(objs, "<< /Type /XObject /Subtype /Image /Width 1 /Height 1 /BitsPerComponent 8 /ColorSpace /DeviceGray /Alternates ["+alts+"] /Metadata 7 /Length 1 >>\nstream\nx\nendstream")
		}
		return c05eFile(objs)
	case "xrefstm":
		k, entries := n, 200*n
		var f bytes.Buffer
		f.WriteString("%PDF-1.5\n")
		off1 := f.Len()
		f.WriteString("1 0 obj\n<< /Type /Catalog /Pages 2 0 R >>\nendobj\n")
		off2 := f.Len()
		f.WriteString("2 0 obj\n<< /Type /Pages /Count 0 /Kids [] >>\nendobj\n")
		ws := f.Len()
		f.Write(bytes.Repeat([]byte(" "), k))
		z := c05Zlib(make([]byte, 4*entries))
		for 8192+32*len(z) < entries {
			z = append(z, 0)
		}
		fmt.Fprintf(&f, "3 0 obj\n<< /Type /XRef /Size %d /W [1 2 1] /Filter /FlateDecode /Length %d >>\nstream\n", entries, len(z))
		f.Write(z)
		f.WriteString("\nendstream\nendobj\n")
		const recLen = 160
		tab0 := f.Len()
		for i := 0; i < k; i++ {
			var rec bytes.Buffer
			if i == 0 {
				fmt.Fprintf(&rec, "xref\n0 3\n0000000000 65535 f \n%010d 00000 n \n%010d 00000 n \ntrailer\n", off1, off2)
			} else {
				rec.WriteString("xref\ntrailer\n")
			}
			fmt.Fprintf(&rec, "<</Size 3/Root 1 0 R/XRefStm %d", ws+i)
			if i+1 < k {
				fmt.Fprintf(&rec, "/Prev %d", tab0+(i+1)*recLen)
			}
			rec.WriteString(">>\n")
			for rec.Len() < recLen {
				rec.WriteByte('\n')
			}
			f.Write(rec.Bytes())
		}
		fmt.Fprintf(&f, "startxref\n%d\n%%%%EOF\n", tab0)
		return f.Bytes()
	case "xreftables":
		k := n
		var f bytes.Buffer
		f.WriteString("%PDF-1.4\n")
		off1 := f.Len()
		f.WriteString("1 0 obj\n<< /Type /Catalog /Pages 2 0 R >>\nendobj\n")
		off2 := f.Len()
		f.WriteString("2 0 obj\n<< /Type /Pages /Count 0 /Kids [] >>\nendobj\n")
		base := f.Len()
		for i := 0; i < k; i++ {
			fmt.Fprintf(&f, "xref\n0 %012d\n", k+i-1) // exactly 20 bytes: the next table is the first entry
		}
		for i := 0; i < k; i++ {
			slot := fmt.Sprintf("trailer<</Prev %010d>>", base+20*(i+1))
			if i == k-1 {
				slot = "trailer<<>>"
			}
			for len(slot) < 40 {
				slot += " "
			}
			f.WriteString(slot)
		}
		tabA := f.Len()
		fmt.Fprintf(&f, "xref\n0 %d\n0000000000 65535 f \n%010d 00000 n \n%010d 00000 n \n", 2*k, off1, off2)
		for i := 3; i < 2*k; i++ {
			f.WriteString("0000000000 00000 f \n")
		}
		fmt.Fprintf(&f, "trailer\n<</Size %d/Root 1 0 R/Prev %d>>\nstartxref\n%d\n%%%%EOF\n", 2*k, base, tabA)
		return f.Bytes()
	case "seqscan":
		var b bytes.Buffer
		b.WriteString("%PDF-1.7\n")
		var offs []int
		offs = append(offs, b.Len())
		b.WriteString("1 0 obj\n<< /Type /Catalog /Pages 2 0 R >>\nendobj\n")
		offs = append(offs, b.Len())
		b.WriteString("2 0 obj\n<< /Type /Pages /Kids [] /Count 0 >>\nendobj\n")
		for i := 0; i < n; i++ {
			offs = append(offs, b.Len())
			fmt.Fprintf(&b, "%d 0 obj\n<</Length 5>>stream\n", i+3)
		}
		b.WriteString("\nendstream\nendobj\n")
		x := b.Len()
		fmt.Fprintf(&b, "xref\n0 %d\n0000000000 65535 f \n", len(offs)+1)
		for _, o := range offs {
			fmt.Fprintf(&b, "%010d 00000 n \n", o)
		}
		fmt.Fprintf(&b, "trailer\n<< /Size %d /Root 1 0 R >>\nstartxref\n%d\n%%%%EOF\n", len(offs)+1, x)
		return b.Bytes()
	case "seqdup":
		// incremental-save style: the SAME object number defined n times, each revision a stream
		// with neither a usable /Length nor an endstream in front of the next revision (200 bytes
		// of data each); the recovery search of every revision must stop at the NEXT located
		// object, also when that is an earlier definition of the same reference
		var b bytes.Buffer
		b.WriteString("%PDF-1.7\n1 0 obj\n<< /Type /Catalog /Pages 2 0 R >>\nendobj\n2 0 obj\n<< /Type /Pages /Kids [] /Count 0 >>\nendobj\n")
		for i := 0; i < n; i++ {
			fmt.Fprintf(&b, "3 0 obj\n<</Rev %d /Length 4 0 R>>stream\n%s\n", i, strings.Repeat("revision data 0123456789 ", 8))
		}
		b.WriteString("\nendstream\nendobj\ntrailer\n<< /Size 4 /Root 1 0 R >>\n%%EOF\n")
		return b.Bytes()
	case "objstm":
		pad := n << 10
		var f bytes.Buffer
		f.WriteString("%PDF-1.5\n")
		off1 := f.Len()
		f.WriteString("1 0 obj\n<< /Type /Catalog /Pages 2 0 R >>\nendobj\n")
		off2 := f.Len()
		fmt.Fprintf(&f, "2 0 obj\n<< /Type /Pages /Count %d /Kids [", n)
		for i := 0; i < n; i++ {
			fmt.Fprintf(&f, "%d 0 R ", 5+i)
		}
		f.WriteString("] >>\nendobj\n")
		var idx, body bytes.Buffer
		for i := 0; i < n; i++ {
			fmt.Fprintf(&idx, "%d %d ", 5+i, body.Len())
			body.WriteString("<</Type/Page/Parent 2 0 R/MediaBox[0 0 9 9]>> ")
		}
		first := idx.Len() + pad
		var stm bytes.Buffer
		stm.Write(idx.Bytes())
		stm.Write(bytes.Repeat([]byte(" "), pad))
		stm.Write(body.Bytes())
		z := c05Zlib(stm.Bytes())
		off3 := f.Len()
		fmt.Fprintf(&f, "3 0 obj\n<< /Type /ObjStm /N %d /First %d /Filter /FlateDecode /Length %d >>\nstream\n", n, first, len(z))
		f.Write(z)
		f.WriteString("\nendstream\nendobj\n")
		var x bytes.Buffer
		ent := func(tp byte, a uint32, b uint16) {
			x.Write([]byte{tp, byte(a >> 24), byte(a >> 16), byte(a >> 8), byte(a), byte(b >> 8), byte(b)})
		}
		off4 := f.Len()
		ent(0, 0, 65535)
		ent(1, uint32(off1), 0)
		ent(1, uint32(off2), 0)
		ent(1, uint32(off3), 0)
		ent(1, uint32(off4), 0)
		for i := 0; i < n; i++ {
			ent(2, 3, uint16(i))
		}
		zx := c05Zlib(x.Bytes())
		fmt.Fprintf(&f, "4 0 obj\n<< /Type /XRef /Size %d /W [1 4 2] /Root 1 0 R /Filter /FlateDecode /Length %d >>\nstream\n", 5+n, len(zx))
		f.Write(zx)
		fmt.Fprintf(&f, "\nendstream\nendobj\nstartxref\n%d\n%%%%EOF\n", off4)
		return f.Bytes()
	case "jbig2":
		objs := []string{"<< /Type /Catalog /Pages 2 0 R >>", "<< /Type /Pages /Count 0 /Kids [] >>"}
		for i := 0; i < n; i++ {
			objs = append(objs, fmt.Sprintf("<</Filter/JBIG2Decode/DecodeParms<</JBIG2Globals %d 0 R>>/Length 1>>stream\nx\nendstream", len(objs)+2))
		}
		objs = append(objs, "<</Length 1>>stream\nx\nendstream")
		return c05eFile(objs)
	case "widgets":
		var annots strings.Builder
		for i := 0; i < n; i++ {
			fmt.Fprintf(&annots, "%d 0 R ", 4+i)
		}
		objs := []string{"<< /Type /Catalog /Pages 2 0 R >>", "<< /Type /Pages /Kids [3 0 R] /Count 1 >>",
			"<< /Type /Page /Parent 2 0 R /MediaBox [0 0 100 100] /Annots [" + annots.String() + "] >>"}
		for i := 0; i < n; i++ {
			objs = append(objs, fmt.Sprintf("<</Subtype/Widget/Rect[0 0 1 1]/T(a)/Parent %d 0 R>>", 4+n))
		}
		for i := 0; i < n; i++ {
			if i+1 < n {
				objs = append(objs, fmt.Sprintf("<</Parent %d 0 R>>", 4+n+i+1))
			} else {
				objs = append(objs, "<</FT/Tx>>")
			}
		}
		return c05eFile(objs)
	case "clip", "qdepth":
		content := strings.Repeat("W n q ", n)
		if variant == "qdepth" {
			content = strings.Repeat("q ", n)
		}
		z := c05Zlib([]byte(content))
		return c05eFile([]string{"<< /Type /Catalog /Pages 2 0 R >>", "<< /Type /Pages /Kids [3 0 R] /Count 1 >>",
			"<< /Type /Page /Parent 2 0 R /MediaBox [0 0 100 100] /Resources << >> /Contents 4 0 R >>",
			fmt.Sprintf("<< /Filter /FlateDecode /Length %d >>\nstream\n%s\nendstream", len(z), z)})
	}
	return nil
}

// c05eCountRA counts the bytes the library asks for: a deterministic measure of the work of the
// file-level code (unlike CPU time it does not depend on the machine).
type c05eCountRA struct {
	r *bytes.Reader
	n int64
}

func (c *c05eCountRA) ReadAt(p []byte, off int64) (int, error) {
	c.n += int64(len(p))
	return c.r.ReadAt(p, off)
}

var c05eBytesRead int64 // bytes asked for by the last c05eWork

func c05eCPU() time.Duration {
	var ru syscall.Rusage
	if syscall.Getrusage(syscall.RUSAGE_SELF, &ru) != nil {
		return 0
	}
	return time.Duration(ru.Utime.Nano() + ru.Stime.Nano())
}

// c05eWork runs the workload once; it returns the CPU time and the heap retained while the
// result is still referenced.
func c05eWork(variant string, data []byte) (cpu time.Duration, heap uint64, note string) {
	runtime.GC()
	var m0, m1 runtime.MemStats
	runtime.ReadMemStats(&m0)
	t0 := c05eCPU()
	var keep any
	src := &c05eCountRA{r: bytes.NewReader(data)}
	defer func() { c05eBytesRead = src.n }()
	switch variant {
	case "seqscan", "seqdup":
		fi, err := pdf.SequentialScan(src, int64(len(data)))
		if err == nil {
			r, err2 := fi.MakeReader(nil)
			keep, err = r, err2
		}
		note = fmt.Sprint(err)
	case "xrefstm", "xreftables":
		r, err := pdf.NewReader(src, int64(len(data)), nil)
		keep, note = r, fmt.Sprint(err)
	case "objstm":
		r, err := pdf.NewReader(src, int64(len(data)), nil)
		if err == nil {
			pages, err2 := pagetree.FindPages(r)
			keep, err = pages, err2
		}
		note = fmt.Sprint(err)
	case "jbig2":
		r, err := pdf.NewReader(src, int64(len(data)), nil)
		if err == nil {
			var obj pdf.Native
			obj, err = r.Get(pdf.NewReference(3, 0), true)
			if stm, ok := obj.(*pdf.Stream); ok && err == nil {
				var rd io.ReadCloser
				rd, err = pdf.DecodeStream(r, nil, stm)
				if err == nil {
					_, err = io.Copy(io.Discard, rd)
					rd.Close()
				}
			}
		}
		note = truncTo(fmt.Sprint(err), 60)
	default: // page walks
		r, err := pdf.NewReader(src, int64(len(data)), nil)
		if err == nil {
			x := pdf.NewExtractor(r)
			rr := reader.New(x)
			for _, dict := range pagetree.NewIterator(r).All() {
				pg, err2 := pdf.Decode(pdf.CursorAt(x, nil), dict, page.Decode)
				err = err2
				if err2 == nil && pg != nil {
					err = rr.ProcessPage(pg)
				}
			}
			keep = rr
		}
		if strings.HasPrefix(variant, "w-") || strings.HasPrefix(variant, "w2-") {
			// (the page walk has met the font through the resources; the dictionary form once more)
			d, err2 := pdf.Decode(pdf.CursorAt(pdf.NewExtractor(r), nil), pdf.NewReference(4, 0), extract.Dict)
			keep = []any{keep, d}
			note = fmt.Sprintf("walk=%v,dict=", err)
			err = err2
		}
		if err == nil && (variant == "newcodec" || variant == "codespacerange" || variant == "equivalent") {
			// the codec of the CMap the walk has extracted (for the two direct variants only the
			// call named by the variant is timed)
			x := pdf.NewExtractor(r)
			var f *cmap.File
			f, err = pdf.Decode(pdf.CursorAt(x, nil), pdf.NewReference(5, 0), cmap.Extract)
			if err == nil && f != nil {
				var codec *charcode.Codec
				codec, err = f.Codec()
				if err == nil && variant != "newcodec" {
					if variant == "codespacerange" {
						t0 = c05eCPU()
					}
					out := codec.CodeSpaceRange()
					if variant == "equivalent" {
						t0 = c05eCPU()
						if !f.CodeSpaceRange.Equivalent(out) {
							err = fmt.Errorf("the codec's range set is not equivalent to its source")
						}
					}
					keep = []any{keep, out}
				}
				note = fmt.Sprintf("ranges=%d,err=%v", len(f.CodeSpaceRange), err)
			}
		}
		note = truncTo(fmt.Sprint(note, err), 60)
	}
	cpu = c05eCPU() - t0
	runtime.GC()
	runtime.ReadMemStats(&m1)
	runtime.KeepAlive(keep)
	if m1.HeapAlloc > m0.HeapAlloc {
		heap = m1.HeapAlloc - m0.HeapAlloc
	}
	return
}

// c05eChildGrowth is what the child prints for "growth <variant> <n>".
func c05eChildGrowth(variant string, n int) string {
	sizes := [2]int{n, 2 * n}
	if variant == "alternates" || variant == "codespacerange" {
		sizes = [2]int{n, n + 1}
	}
	if variant == "qdepth" {
		sizes = [2]int{n / 2, n}
	}
	var cpu [2]time.Duration
	var heap [2]uint64
	var flen [2]int
	var rd [2]int64
	note := ""
	for i, sz := range sizes {
		data := c05eInput(variant, sz)
		if data == nil {
			return "bad-descriptor"
		}
		flen[i] = len(data)
		for rep := 0; rep < 2; rep++ { // the smaller of two measurements
			c, h, nt := c05eWork(variant, data)
			if rep == 0 || c < cpu[i] {
				cpu[i] = c
			}
			if rep == 0 || h < heap[i] {
				heap[i] = h
			}
			note = nt
			rd[i] = c05eBytesRead
			if c > 20*time.Second {
				break
			}
		}
	}
	return fmt.Sprintf("growth cpu1=%d cpu2=%d heap1=%d heap2=%d len1=%d len2=%d rd1=%d rd2=%d note=%s",
		cpu[0].Milliseconds(), cpu[1].Milliseconds(), heap[0]>>20, heap[1]>>20, flen[0], flen[1], rd[0], rd[1], strings.ReplaceAll(note, " ", "_"))
}

// ---- self references that must not recurse without bound ----

func c05eSelfRef(variant string) []byte {
	cat := "<< /Type /Catalog /Pages 2 0 R >>"
	pages := "<< /Type /Pages /Kids [3 0 R] /Count 1 >>"
	pg := func(res string) string {
		return "<< /Type /Page /Parent 2 0 R /MediaBox [0 0 100 100] /Contents 6 0 R /Resources " + res + " >>"
	}
	content := func(ops string) string { return fmt.Sprintf("<< /Length %d >>\nstream\n%s\nendstream", len(ops), ops) }
	type3 := func(res string) string {
		return "<< /Type /Font /Subtype /Type3 /FontBBox [0 0 1000 1000] /FontMatrix [0.001 0 0 0.001 0 0] /CharProcs << /a 5 0 R >>" +
			" /Encoding << /Type /Encoding /Differences [97 /a] >> /FirstChar 97 /LastChar 97 /Widths [500] /Resources " + res + " >>"
	}
	glyph := content("500 0 d0 /G1 gs /F1 10 Tf (a) Tj /X1 Do")
	text := content("/G0 gs BT /F1 10 Tf (aaa) Tj ET /X1 Do /P1 cs /P1 scn 0 0 10 10 re f")
	switch variant {
	case "extgstate-font": // audit finding 1
		return c05eFile([]string{cat, pages,
			pg("<< /ExtGState << /G0 << /Type /ExtGState /Font [4 0 R 10] >> >> /Font << /F1 4 0 R >> >>"),
			type3("<< /ExtGState << /G1 << /Type /ExtGState /Font [4 0 R 10] >> >> >>"), glyph, text})
	case "type3-font-font": // the glyph procedures of a Type 3 font use the font itself
		return c05eFile([]string{cat, pages, pg("<< /Font << /F1 4 0 R >> >>"),
			type3("<< /Font << /F1 4 0 R >> >>"), glyph, text})
	case "form-xobject": // a form XObject whose resources name the form
		form := "<< /Type /XObject /Subtype /Form /BBox [0 0 10 10] /Resources << /XObject << /X1 4 0 R >> >> /Length 6 >>\nstream\n/X1 Do\nendstream"
		return c05eFile([]string{cat, pages, pg("<< /XObject << /X1 4 0 R >> >>"), form, glyph, text})
	case "pattern": // a tiling pattern painted with itself
		pat := "<< /Type /Pattern /PatternType 1 /PaintType 1 /TilingType 1 /BBox [0 0 10 10] /XStep 10 /YStep 10 /Resources << /Pattern << /P1 4 0 R >> >> /Length 41 >>\nstream\n/Pattern cs /P1 scn 0 0 10 10 re f        \nendstream"
		return c05eFile([]string{cat, pages, pg("<< /Pattern << /P1 4 0 R >> /ColorSpace << /P1 /Pattern >> >>"), pat, glyph, text})
	case "smask": // a soft mask whose transparency group uses the graphics state with the soft mask
		gs := "<< /Type /ExtGState /SMask << /Type /Mask /S /Alpha /G 5 0 R >> >>"
		grp := "<< /Type /XObject /Subtype /Form /BBox [0 0 10 10] /Group << /S /Transparency >> /Resources << /ExtGState << /G0 4 0 R >> >> /Length 6 >>\nstream\n/G0 gs\nendstream"
		return c05eFile([]string{cat, pages, pg("<< /ExtGState << /G0 4 0 R >> >>"), gs, grp, text})
	case "objstm-length": // audit finding 10
		var f bytes.Buffer
		f.WriteString("%PDF-1.5\n")
		off1 := f.Len()
		f.WriteString("1 0 obj\n<< /Type /Catalog /Pages 2 0 R >>\nendobj\n")
		off2 := f.Len()
		f.WriteString("2 0 obj\n<< /Type /Pages /Count 0 /Kids [] >>\nendobj\n")
		idx := "5 0 "
		z := c05Zlib([]byte(idx + "<</Length 5 0 R>>stream\nxxxx\nendstream "))
		off3 := f.Len()
		fmt.Fprintf(&f, "3 0 obj\n<< /Type /ObjStm /N 1 /First %d /Filter /FlateDecode /Length %d >>\nstream\n", len(idx), len(z))
		f.Write(z)
		f.WriteString("\nendstream\nendobj\n")
		var x bytes.Buffer
		ent := func(tp byte, a uint32, b uint16) {
			x.Write([]byte{tp, byte(a >> 24), byte(a >> 16), byte(a >> 8), byte(a), byte(b >> 8), byte(b)})
		}
		off4 := f.Len()
		ent(0, 0, 65535)
		ent(1, uint32(off1), 0)
		ent(1, uint32(off2), 0)
		ent(1, uint32(off3), 0)
		ent(1, uint32(off4), 0)
		ent(2, 3, 0)
		zx := c05Zlib(x.Bytes())
		fmt.Fprintf(&f, "4 0 obj\n<< /Type /XRef /Size 6 /W [1 4 2] /Root 1 0 R /Filter /FlateDecode /Length %d >>\nstream\n", len(zx))
		f.Write(zx)
		fmt.Fprintf(&f, "\nendstream\nendobj\nstartxref\n%d\n%%%%EOF\n", off4)
		return f.Bytes()
	}
	return nil
}

func c05eChildSelfRef(variant string) string {
	data := c05eSelfRef(variant)
	if data == nil {
		return "bad-descriptor"
	}
	// unbounded recursion should end in the fatal stack overflow quickly (the default limit of 1 GB
	// takes minutes to fill when every frame inflates an object stream)
	debug.SetMaxStack(48 << 20)
	got := 0
	for mode := 0; mode < 3; mode++ {
		r, err := pdf.NewReader(bytes.NewReader(data), int64(len(data)), &pdf.ReaderOptions{ErrorHandling: c05ModeValue(mode)})
		if err != nil {
			continue
		}
		for n := 1; n <= 6; n++ {
			if obj, err := r.Get(pdf.NewReference(uint32(n), 0), true); err == nil && obj != nil {
				got++
			}
		}
		x := pdf.NewExtractor(r)
		rr := reader.New(x)
		for _, dict := range pagetree.NewIterator(r).All() {
			if pg, err := pdf.Decode(pdf.CursorAt(x, nil), dict, page.Decode); err == nil && pg != nil {
				rr.ProcessPage(pg)
			}
		}
		r.Close()
	}
	return fmt.Sprintf("ok objects=%d", got)
}

// ---- parent side ----

type c05eCase struct {
	desc string
}

func c05eCases(thorough bool) []string {
	mul := 1
	if thorough {
		mul = 2
	}
	cs := []string{
		"selfref extgstate-font 0", "selfref type3-font-font 0", "selfref form-xobject 0", "selfref pattern 0", "selfref smask 0", "selfref objstm-length 0",
		fmt.Sprintf("growth xrefstm %d", 160*mul),
		fmt.Sprintf("growth xreftables %d", 1500*mul),
		fmt.Sprintf("growth seqscan %d", 1000*mul),
		fmt.Sprintf("growth seqdup %d", 150*mul),
		fmt.Sprintf("growth objstm %d", 500*mul),
		fmt.Sprintf("growth jbig2 %d", 8000*min(mul, 2)),
		fmt.Sprintf("growth widgets %d", 200*mul),
		fmt.Sprintf("growth clip %d", 1000*min(mul, 2)),
		"growth qdepth 400000",
	}
	// /W and /W2 arrays of a CIDFont (entry budget of graphics/extract)
	for _, key := range []string{"w", "w2"} {
		for _, shape := range []string{"fwd", "rev", "alt", "ovl", "list"} {
			n := 1000 * mul
			if shape == "list" {
				n = 150 * mul
			}
			cs = append(cs, fmt.Sprintf("growth %s-%s %d", key, shape, n))
		}
	}
	// C12 audit, findings 1-3 (valid code space range sets; not repaired, known)
	if thorough {
		cs = append(cs, "growth newcodec 75", "growth codespacerange 3", "growth equivalent 15")
	} else {
		cs = append(cs, "growth newcodec 50", "growth codespacerange 2", "growth equivalent 12")
	}
	if thorough {
		cs = append(cs, "growth alternates 6")
	} else {
		cs = append(cs, "growth alternates 5")
	}
	return cs
}

// c05eReadOracle: the walks whose cost the counting reader sees in full.
var c05eReadOracle = map[string]bool{"seqscan": true, "seqdup": true, "xrefstm": true, "xreftables": true}

func c05eJudge(desc string) (ok bool, key, detail string) {
	f := strings.Fields(desc)
	if len(f) != 3 {
		return true, "", "bad descriptor"
	}
	outcome, died, tail, dur := c05dRunChild(desc)
	switch {
	case died && outcome == "hang":
		return false, "C05-hang-child-" + f[0] + "-" + f[1], fmt.Sprintf("the child did not finish %q within %v", desc, c05dWatchdog)
	case died:
		key := "C05-child-died-" + f[0] + "-" + f[1]
		if strings.Contains(tail, "stack exceeds") || strings.Contains(tail, "stack overflow") {
			key = "C05-stack-overflow-" + f[0] + "-" + f[1]
		}
		return false, key, fmt.Sprintf("the child process died on %q after %v: %s", desc, dur.Round(time.Millisecond), tail)
	case strings.HasPrefix(outcome, "panic"):
		return false, "C05-panic-child-" + f[0] + "-" + f[1], fmt.Sprintf("%q: %s", desc, outcome)
	}
	if f[0] != "growth" || !strings.HasPrefix(outcome, "growth ") {
		return true, "", outcome
	}
	v := map[string]int64{}
	for _, kv := range strings.Fields(outcome)[1:] {
		if k, val, ok := strings.Cut(kv, "="); ok {
			n, _ := strconv.ParseInt(val, 10, 64)
			v[k] = n
		}
	}
	sizes := fmt.Sprintf("inputs of %d and %d bytes", v["len1"], v["len2"])
	if f[1] == "qdepth" {
		if v["heap2"] > 128 {
			return false, "C05-memory-retained-" + f[1], fmt.Sprintf("%q: a page content of %s nested q operators in a file of %d bytes leaves %d MiB of heap referenced by the reader (budget 128 MiB)", desc, f[2], v["len2"], v["heap2"])
		}
		return true, "", outcome
	}
	// bytes asked of the ReaderAt (deterministic, unlike CPU time): the file-level walks read every
	// byte a bounded number of times, so twice the input asks for twice the bytes (unchanged tree:
	// seqscan 22.9x -> 22.7x of the file size — small objects, one scanner window each —, seqdup
	// 5.3x -> 5.3x, xrefstm 18.4x -> 18.4x, xreftables 1.1x -> 1.0x).  A factor above 3 at more than
	// 8 x the file size is super-linear; seqdup also has the absolute cap of 10 x the file size.
	if c05eReadOracle[f[1]] {
		r1, r2 := float64(v["rd1"])/float64(max(v["len1"], 1)), float64(v["rd2"])/float64(max(v["len2"], 1))
		if (v["rd2"] > 3*max(v["rd1"], 1) && v["rd2"] > 8*v["len2"]) || (f[1] == "seqdup" && v["rd2"] > 10*v["len2"]) {
			return false, "C05-superlinear-reads-" + f[1], fmt.Sprintf("%q: the library asked its ReaderAt for %d bytes of a file of %d bytes (%.1f x the file) and for %d bytes of a file of %d bytes (%.1f x)", desc, v["rd1"], v["len1"], r1, v["rd2"], v["len2"], r2)
		}
	}
	if strings.HasPrefix(f[1], "w-") || strings.HasPrefix(f[1], "w2-") {
		// a /W or /W2 array is decoded (or refused: more than 65536 entries) in time proportional to
		// its length; the cap is generous for that and far below what a refundable entry budget costs
		// (n x 65534 map stores for n alternating reversed and maximal forward ranges)
		if limit := 250 + v["len2"]/200; v["cpu2"] > limit {
			return false, "C05-time-not-proportional-" + f[1], fmt.Sprintf("%q: decoding the font took %d ms of CPU time for a file of %d bytes (%d ms for %d bytes); cap 250 ms + 5 us per byte = %d ms", desc, v["cpu2"], v["len2"], v["cpu1"], v["len1"], limit)
		}
	}
	if v["cpu2"] > 400 && v["cpu2"] > 3*max(v["cpu1"], 1) {
		return false, "C05-superlinear-time-" + f[1], fmt.Sprintf("%q: CPU time %d ms -> %d ms for %s (the larger input has %s; factor %.1f > 3)", desc, v["cpu1"], v["cpu2"], sizes, map[bool]string{true: "the size parameter plus one", false: "twice the size parameter"}[f[1] == "alternates" || f[1] == "codespacerange"], float64(v["cpu2"])/float64(max(v["cpu1"], 1)))
	}
	if v["heap2"] > 64 && v["heap2"] > 3*max(v["heap1"], 1) {
		return false, "C05-superlinear-memory-" + f[1], fmt.Sprintf("%q: heap retained %d MiB -> %d MiB for %s (factor %.1f > 3)", desc, v["heap1"], v["heap2"], sizes, float64(v["heap2"])/float64(max(v["heap1"], 1)))
	}
	return true, "", outcome
}

func robC05eRun(c *Ctx) {
	cases := c05eCases(c.Thorough)
	type res struct {
		ok          bool
		key, detail string
	}
	out := make([]res, len(cases))
	var wg sync.WaitGroup
	sem := make(chan struct{}, 4) // CPU time, not wall time, is measured: the children may share the machine
	for i, d := range cases {
		wg.Add(1)
		go func(i int, d string) {
			defer wg.Done()
			sem <- struct{}{}
			defer func() { <-sem }()
			ok, key, detail := c05eJudge(d)
			out[i] = res{ok, key, detail}
		}(i, d)
	}
	wg.Wait()
	for i, d := range cases {
		c.Case("c05e "+d, true)
		c.Stat("c05e_" + strings.Fields(d)[0])
		if !out[i].ok {
			c.Violate("c05e", out[i].key, out[i].detail, d)
		} else if i < 3 {
			c.Sample(d + " => " + truncate(out[i].detail))
		}
	}
}

func replayC05e(input string) (bool, string) {
	ok, key, detail := c05eJudge(strings.TrimSpace(input))
	if ok {
		return true, input + ": " + detail
	}
	return false, key + ": " + detail
}

var _ = exec.Command
var _ = os.Args

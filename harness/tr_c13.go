package main

// TR run registered under C13: font/cmap rangeIsValid / rangeIndex against
// the generated Lean code.

import (
	"fmt"
	"strings"

	"seehuhn.de/go/pdf/font/cmap"
)

func init() {
	addRun("C13", "TR: cmap.rangeIsValid on all (first,last) over a boundary alphabet with lengths 0..2 and random pairs up to length 5; rangeIndex on every code of every valid range of length 1 and 2 over a boundary alphabet (enumeration order = index), on codes just outside, on length mismatches and on wide 4- and 5-byte ranges whose index exceeds MaxInt32; every line answered by the generated Lean function. Oracle: the indices of the codes of a range in lexicographic order are 0,1,2,… and codes outside give ok=false. Non-trivial: every case.", runTRC13)
	addReplay("C13", "tr-rangeIndex", func(in string) (bool, string) {
		f := strings.Fields(in)
		return trRangeIndexOracle(trUnhex(f[0]), trUnhex(f[1]))
	})
}

// enumerate the codes of [first,last] (per-byte boxes) in lexicographic order: rangeIndex must count them
func trRangeIndexOracle(first, last []byte) (ok bool, d string) {
	defer func() {
		if e := recover(); e != nil {
			ok, d = false, fmt.Sprintf("rangeIndex on valid range %x-%x panicked: %v", first, last, e)
		}
	}()
	if !cmap.VerifTrRangeIsValid(first, last) || len(first) > 2 {
		return true, "outside the oracle's domain"
	}
	n := len(first)
	code := make([]byte, n)
	next := 0
	for v := 0; v < 1<<(8*uint(n)); v++ {
		in := true
		for i := 0; i < n; i++ {
			code[i] = byte(v >> (8 * uint(n-1-i)))
			in = in && code[i] >= first[i] && code[i] <= last[i]
		}
		idx, ok := cmap.VerifTrRangeIndex(first, last, code)
		if ok != in {
			return false, fmt.Sprintf("rangeIndex(%x,%x,%x) ok=%v, want %v", first, last, code, ok, in)
		}
		if in {
			if idx != next {
				return false, fmt.Sprintf("rangeIndex(%x,%x,%x) = %d, want %d", first, last, code, idx, next)
			}
			next++
		}
	}
	return true, fmt.Sprintf("range %x-%x: %d codes indexed in order", first, last, next)
}

func runTRC13(c *Ctx) {
	valid := func(first, last []byte) {
		args := []string{trHex(first), trHex(last)}
		trEmit(c, "cmapRangeIsValid", args, trCall(func() string { return fmt.Sprint(cmap.VerifTrRangeIsValid(first, last)) }))
		want := len(first) == len(last) && len(first) > 0
		if want {
			for i := range first {
				want = want && first[i] <= last[i]
			}
			if got := cmap.VerifTrRangeIsValid(first, last); got != want {
				c.Violate("tr-rangeIndex", "tr-cmap-rangeIsValid", fmt.Sprintf("rangeIsValid(%x,%x) = %v, want %v", first, last, got, want), strings.Join(args, " "))
			}
		}
	}
	index := func(first, last, code []byte) {
		args := []string{trHex(first), trHex(last), trHex(code)}
		trEmit(c, "rangeIndex", args, trCall(func() string {
			i, ok := cmap.VerifTrRangeIndex(first, last, code)
			return fmt.Sprintf("%d %v", i, ok)
		}))
		c.Case("tridx"+strings.Join(args, "/"), true)
	}
	alpha := []byte{0x00, 0x01, 0x7f, 0x80, 0xfe, 0xff}
	var strs [][]byte
	strs = append(strs, nil)
	for _, a := range alpha {
		strs = append(strs, []byte{a})
		for _, b := range alpha {
			strs = append(strs, []byte{a, b})
		}
	}
	for _, lo := range strs {
		for _, hi := range strs {
			valid(lo, hi)
			if !cmap.VerifTrRangeIsValid(lo, hi) {
				if c.R.P(1, 8) {
					index(lo, hi, Pick(c.R, strs)) // may panic: first/last of different length
				}
				continue
			}
			if ok, d := trRangeIndexOracle(lo, hi); !ok {
				c.Violate("tr-rangeIndex", "tr-cmap-rangeIndex-enum", d, trHex(lo)+" "+trHex(hi))
			}
			for _, code := range strs {
				if len(code) == len(lo) || c.R.P(1, 10) {
					index(lo, hi, code)
				}
			}
		}
	}
	n := 3000
	if c.Thorough {
		n = 60000
	}
	for i := 0; i < n; i++ {
		l := 1 + c.R.Intn(5)
		lo, hi, code := c.R.Bytes(l), c.R.Bytes(l), c.R.Bytes(l)
		for j := range lo {
			if lo[j] > hi[j] && c.R.P(9, 10) {
				lo[j], hi[j] = hi[j], lo[j]
			}
			if c.R.P(1, 3) {
				lo[j], hi[j] = 0, 0xff // wide: the index overflows MaxInt32 for 4 and 5 bytes
			}
			if c.R.P(3, 4) {
				code[j] = lo[j] + byte(c.R.Intn(int(hi[j])-int(lo[j])+1+256)%(int(hi[j])-int(lo[j])+1+256))
				if code[j] < lo[j] || code[j] > hi[j] {
					code[j] = hi[j]
				}
			}
		}
		if c.R.P(1, 20) {
			code = c.R.Bytes(c.R.Intn(6))
		}
		if c.R.P(1, 30) {
			hi = c.R.Bytes(c.R.Intn(6))
		}
		valid(lo, hi)
		index(lo, hi, code)
	}
	c.Sample("TR rangeIndex 0000 ffff 0102 -> 258 true")
}

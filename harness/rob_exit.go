package main

import (
	"bytes"
	"fmt"
	"regexp"
	"runtime"
	"strings"

	"seehuhn.de/go/pdf"
)

// Correspondence lines "ROB exit <mode> <error tree>" for the closure
// shouldExit of NewReader and MakeReader (Model/ROBErr.lean:shouldExit).  The
// closure cannot be called directly; it is observed through the one place
// where nothing else interferes: the decoding of the Info dictionary at the
// end of NewReader/MakeReader.  A malformed error is provoked by turning the
// Info dictionary into an array (same length, offsets unchanged), an I/O
// error by failing exactly the ReadAt calls made below ExtractInfo.

var robInfoRef = regexp.MustCompile(`/Info (\d+) 0 R`)

// robBreakInfo returns a copy of a human-readable file whose Info
// dictionary "<< … >>" has been replaced by the array "[  …  ]".
func robBreakInfo(data []byte) []byte {
	m := robInfoRef.FindSubmatch(data)
	if m == nil {
		return nil
	}
	hdr := []byte(fmt.Sprintf("\n%s 0 obj", m[1]))
	i := bytes.Index(data, hdr)
	if i < 0 {
		return nil
	}
	a := bytes.Index(data[i:], []byte("<<"))
	b := bytes.Index(data[i:], []byte(">>"))
	e := bytes.Index(data[i:], []byte("endobj"))
	if a < 0 || b < 0 || e < 0 || a > b || b > e {
		return nil
	}
	out := append([]byte(nil), data...)
	copy(out[i+a:], "[ ")
	copy(out[i+b:], " ]")
	return out
}

// robInfoOffset returns the offset of the first byte of "N 0 obj" of the
// Info dictionary.
func robInfoOffset(data []byte) int64 {
	m := robInfoRef.FindSubmatch(data)
	if m == nil {
		return -1
	}
	i := bytes.Index(data, []byte(fmt.Sprintf("\n%s 0 obj", m[1])))
	if i < 0 {
		return -1
	}
	return int64(i + 1)
}

// infoSrc fails the ReadAt calls which NewReader/MakeReader make to fetch
// the Info dictionary (a scanner starts reading exactly at the object).
type infoSrc struct {
	data []byte
	off  int64
	hits int
}

func (s *infoSrc) ReadAt(p []byte, off int64) (int, error) {
	if off == s.off {
		pcs := make([]uintptr, 64)
		n := runtime.Callers(2, pcs)
		frames := runtime.CallersFrames(pcs[:n])
		for {
			fr, more := frames.Next()
			if strings.HasSuffix(fr.Function, "pdf.NewReader") || strings.HasSuffix(fr.Function, "pdf.(*FileInfo).MakeReader") {
				s.hits++
				return 0, errInjected
			}
			if !more {
				break
			}
		}
	}
	return (&c19Src{data: s.data, mode: 'n'}).ReadAt(p, off)
}

func robOpen(path byte, src interface {
	ReadAt([]byte, int64) (int, error)
}, size int64, opt *pdf.ReaderOptions) (*pdf.Reader, error) {
	if path == 'N' {
		return pdf.NewReader(src, size, opt)
	}
	fi, err := pdf.SequentialScan(src, size)
	if err != nil {
		return nil, err
	}
	return fi.MakeReader(opt)
}

var robPagesRef = regexp.MustCompile(`/Pages (\d+ 0 R)`)

// robNoPages returns a copy of a human-readable file whose catalog has
// "/Pages 0" (same length) instead of the reference to the page tree.
func robNoPages(data []byte) []byte {
	m := robPagesRef.FindSubmatchIndex(data)
	if m == nil {
		return nil
	}
	out := append([]byte(nil), data...)
	for i := m[2]; i < m[3]; i++ {
		out[i] = ' '
	}
	out[m[2]] = '0'
	return out
}

// robCatalogLines: the step after DecodeCatalog in NewReader (seq 0) and
// MakeReader (seq 1), Model/ROBErr.lean:catalogStep: with and without a usable
// /Pages entry, all three modes.  A nil reader with a nil error is the former
// finding ROB-4.
func robCatalogLines(c *Ctx, doc *robDoc) {
	variants := []struct {
		pages string
		data  []byte
	}{{"1", doc.Data}, {"0", robNoPages(doc.Data)}}
	for _, v := range variants {
		if v.data == nil {
			continue
		}
		for seq, path := range []byte{'N', 'Q'} {
			for mode := 0; mode < 3; mode++ {
				opt := &pdf.ReaderOptions{ErrorHandling: pdf.ReaderErrorHandling(mode)}
				rd, err := robOpen(path, bytes.NewReader(v.data), int64(len(v.data)), opt)
				rep := rd != nil && len(rd.Errors) > 0
				line := fmt.Sprintf("ROB catalog %d %d N %s", seq, mode, v.pages)
				c.Emit(line, fmt.Sprintf("nil=%s err=%s rep=%s", b01(rd == nil), robClass(err), b01(rep)))
				c.Case(fmt.Sprintf("catalog %c %d %s %s", path, mode, v.pages, doc.Spec), true)
				c.Stat("exit_catalog_pages" + v.pages)
				if rd == nil && err == nil {
					c.Violate("nilnil", "C05-nil-result-without-error", fmt.Sprintf("open path %c mode %d returned (nil, nil) for a catalog without /Pages", path, mode), hexWire(v.data))
				}
			}
		}
	}
}

func robExitRun(c *Ctx) {
	r := c.R.Fork()
	nDocs := 3
	if c.Thorough {
		nDocs = 25
	}
	for i := 0; i < nDocs; i++ {
		spec := genDocSpec(r)
		spec.Human = true
		spec.OwnerPW, spec.UserPW = "", ""
		doc, err := buildDoc(spec, nil)
		if err != nil {
			continue
		}
		broken := robBreakInfo(doc.Data)
		robCatalogLines(c, doc)
		for _, path := range []byte{'N', 'Q'} {
			for mode := 0; mode < 3; mode++ {
				opt := &pdf.ReaderOptions{ErrorHandling: pdf.ReaderErrorHandling(mode)}
				show := func(rd *pdf.Reader, err error) string {
					rep := rd != nil && len(rd.Errors) > 0
					return fmt.Sprintf("exit=%s rep=%s", b01(err != nil), b01(rep))
				}
				// no error at all
				rd, err := robOpen(path, bytes.NewReader(doc.Data), int64(len(doc.Data)), opt)
				c.Emit(fmt.Sprintf("ROB exit %d N", mode), show(rd, err))
				c.Case(fmt.Sprintf("exit %c %d N %d", path, mode, i), true)
				// malformed Info
				if broken != nil {
					rd, err := robOpen(path, bytes.NewReader(broken), int64(len(broken)), opt)
					if err != nil && !pdf.IsMalformed(err) {
						c.Stat("exit_unexpected_error_class")
					}
					c.Emit(fmt.Sprintf("ROB exit %d M(O)", mode), show(rd, err))
					c.Case(fmt.Sprintf("exit %c %d M %d", path, mode, i), true)
					c.Stat("exit_malformed_info")
				}
				// I/O error while reading Info
				src := &infoSrc{data: doc.Data, off: robInfoOffset(doc.Data)}
				rd, err = robOpen(path, src, int64(len(doc.Data)), opt)
				if src.hits > 0 {
					c.Emit(fmt.Sprintf("ROB exit %d W(W(S2))", mode), show(rd, err))
					c.Case(fmt.Sprintf("exit %c %d I %d", path, mode, i), true)
					c.Stat("exit_io_error_in_info")
				}
			}
		}
	}
}

package main

import (
	"bytes"
	"encoding/binary"
	"fmt"
	"io"
	"runtime"
	"strings"
	"time"

	"seehuhn.de/go/membudget"
	"seehuhn.de/go/pdf"
	"seehuhn.de/go/pdf/graphics/bitmap"
)

// Structured JBIG2 streams whose cost is NOT in the coded data but in the segment structure
// (C08 audit findings 1, 2, 5, 6, 7), and /JBIG2Globals chains (finding 8).  The streams are
// described by a short spec and built inside the child process, so that the case line (= the
// replay input) stays small whatever the size of the stream.
//
//   case line   jb2s <spec> -1 00          spec = name:a:b
//               gchain <depth> -1 00
//
//   reflist-sd:S:R      symbol dictionary of S 1x1 symbols; a second dictionary without new
//                       symbols whose referred-to list names the first one R times
//   reflist-tr:S:R      the same with a text region (no instances) as the referring segment
//   reflist-cubic:R:Q   text region referring R times to an empty dictionary and R times to a
//                       second empty dictionary whose own referred-to list has Q entries
//   huff-symid:S:N      Huffman text region over S symbols (symbol ID table of S lines) placing
//                       N instances
//   empty-text:N:W      N text regions of WxW pixels without instances
//   empty-halftone:N:W  N halftone regions of WxW pixels over a 1x1 grid of 1x1 patterns
//   agg-iaid:S:0        arithmetic symbol dictionary with SDREFAGG=1 whose S symbols are each an
//                       aggregate of two instances (coded with the harness's own MQ encoder)
//
// Oracles (words → class key of the spec):
//   overbudget/accounting   retained heap above the stream budget / above what was charged
//                           (reflist-sd, reflist-tr: run through the pool meter of fb_pool.go)
//   superlinear             CPU time > 300 ms + 25 ns x W, W = the elementary steps a decoder
//                           needs that is linear in the structure (bytes + list entries +
//                           instances x code length + region bytes)
//   allocvolume             bytes allocated during the decode > 64 MiB + 2 x stream budget +
//                           (decoder's work limit)/8
//   unchargedwork           the spec makes the decoder touch P region pixels, P exceeds the
//                           decoder's OWN work limit for this input (workLimit(len), read
//                           through pdf.VerifTrJBIG2WorkLimit), and data is returned

type fbJ2Spec struct {
	name string
	a, b int
}

func (s fbJ2Spec) String() string { return fmt.Sprintf("%s:%d:%d", s.name, s.a, s.b) }

func fbParseJ2Spec(t string) fbJ2Spec {
	f := strings.Split(t, ":")
	for len(f) < 3 {
		f = append(f, "0")
	}
	return fbJ2Spec{f[0], fbAtoi(f[1]), fbAtoi(f[2])}
}

// class key of the finding a spec is aimed at
func (s fbJ2Spec) classKey() string {
	switch s.name {
	case "reflist-sd", "reflist-tr":
		return "jbig2-reflist-uncharged"
	case "reflist-cubic":
		return "jbig2-reflist-cubic"
	case "huff-symid":
		return "jbig2-huffman-table-scan"
	case "empty-text", "empty-halftone":
		return "jbig2-region-work-uncharged"
	case "agg-iaid":
		return "jbig2-aggregate-iaid"
	}
	return "jbig2-structure"
}

func (s fbJ2Spec) memoryCase() bool { return s.name == "reflist-sd" || s.name == "reflist-tr" }

// fbRegionInfo: region segment information field (7.4.1).
func fbRegionInfo(w, h, x, y int, flags byte) []byte {
	b := make([]byte, 17)
	binary.BigEndian.PutUint32(b[0:], uint32(w))
	binary.BigEndian.PutUint32(b[4:], uint32(h))
	binary.BigEndian.PutUint32(b[8:], uint32(x))
	binary.BigEndian.PutUint32(b[12:], uint32(y))
	b[16] = flags
	return b
}

// fbAggDict codes a symbol dictionary segment (arithmetic, SDREFAGG=1, templates 0) with n new
// symbols of 2x1 pixels, each the aggregate of two instances of input symbol 0; one input symbol
// is expected from the referred-to dictionary.  Nothing is exported.
func fbAggDict(n int) []byte {
	var b []byte
	b = append(b, 0x00, 0x02)                               // SDHUFF=0, SDREFAGG=1, SDTEMPLATE=0, SDRTEMPLATE=0
	b = append(b, 3, 0xFF, 0xFD, 0xFF, 2, 0xFE, 0xFE, 0xFE) // SDAT (nominal)
	b = append(b, 0xFF, 0xFF, 0xFF, 0xFF)                   // SDRAT (nominal)
	b = binary.BigEndian.AppendUint32(b, 0)                 // SDNUMEXSYMS
	b = binary.BigEndian.AppendUint32(b, uint32(n))         // SDNUMNEWSYMS
	e := fbNewMQEnc()
	iadh, iadw, iaai, iaex := &fbMQInt{}, &fbMQInt{}, &fbMQInt{}, &fbMQInt{}
	iadh.encode(e, 1)              // one height class of height 1
	codeLenOf := func(k int) int { // symCodeLen: bits for k symbols
		l := 1
		for 1<<l < k {
			l++
		}
		return l
	}
	iaid := fbNewMQIAID(codeLenOf(1 + n))
	iadt, iafs, iads := &fbMQInt{}, &fbMQInt{}, &fbMQInt{}
	for i := 0; i < n; i++ {
		if i == 0 {
			iadw.encode(e, 2)
		} else {
			iadw.encode(e, 0)
		}
		iaai.encode(e, 2) // REFAGGNINST = 2: inline text region with fresh contexts
		cl := codeLenOf(1 + i)
		*iadt, *iafs, *iads = fbMQInt{}, fbMQInt{}, fbMQInt{}
		iaid.reset()
		iadt.encode(e, 0) // initial STRIPT
		iadt.encode(e, 0) // strip delta T
		iafs.encode(e, 0) // first S
		iaid.encode(e, cl, 0)
		iads.encode(e, 0) // delta S of the second instance
		iaid.encode(e, cl, 0)
	}
	iaex.encode(e, int64(1+n)) // export flags: one run "not exported" over all symbols
	data := e.flush()
	b = append(b, data...)
	for len(data) < n { // the decoder wants one byte of coded data per new symbol
		b = append(b, 0)
		data = append(data, 0)
	}
	return b
}

// build returns the stream, W (see above) and P (region pixels the decoder must touch).
func (s fbJ2Spec) build() (body []byte, w int64, p int64, err error) {
	defer func() {
		if r := recover(); r != nil {
			err = fmt.Errorf("builder panic: %v", r)
		}
	}()
	var out []byte
	seg := func(num uint32, typ int, refs []uint32, data []byte) {
		out = pdf.VerifJBIG2SegmentHeader(out, num, typ, 1, refs, uint32(len(data)))
		out = append(out, data...)
	}
	rep := func(v uint32, n int) []uint32 {
		l := make([]uint32, n)
		for i := range l {
			l[i] = v
		}
		return l
	}
	blank := func(n int) []*bitmap.Bitmap {
		l := make([]*bitmap.Bitmap, n)
		for i := range l {
			l[i] = bitmap.New(1, 1)
		}
		return l
	}
	padTo := func(b []byte, n int) []byte {
		for len(b) < n {
			b = append(b, 0)
		}
		return b
	}
	emptyDict := make([]byte, 18)           // flags(2) AT(8) SDNUMEXSYMS(4) SDNUMNEWSYMS(4)
	emptyText := func(w, h, x int) []byte { // region info, flags(2), SBNUMINSTANCES(4) = 0
		return append(fbRegionInfo(w, h, x, 0, 0), 0, 0, 0, 0, 0, 0)
	}
	pageW, pageH := 8, 8
	switch s.name {
	case "empty-text", "empty-halftone":
		pageW, pageH = s.b, s.b
	}
	seg(0, 48, nil, pdf.VerifJBIG2PageInfo(nil, pageW, pageH))
	switch s.name {
	case "reflist-sd", "reflist-tr":
		seg(1, 0, nil, padTo(pdf.VerifJBIG2SymbolDict(blank(s.a), 0), s.a))
		if s.name == "reflist-sd" {
			seg(2, 0, rep(1, s.b), emptyDict)
		} else {
			seg(2, 6, rep(1, s.b), emptyText(8, 8, 0))
		}
		w = int64(len(out)) + int64(s.a) + int64(s.b)
	case "reflist-cubic":
		seg(1, 0, nil, emptyDict)
		seg(2, 0, rep(200, s.b), emptyDict)
		seg(3, 6, append(rep(1, s.a), rep(2, s.a)...), emptyText(8, 8, 0))
		w = int64(len(out)) + 2*int64(s.a) + int64(s.b)
	case "huff-symid":
		syms := blank(s.a)
		seg(1, 0, nil, padTo(pdf.VerifJBIG2SymbolDict(syms, 0), s.a))
		insts := make([]pdf.VerifJBIG2SymbolInstance, s.b)
		for i := range insts {
			insts[i] = pdf.VerifJBIG2SymbolInstance{SymID: s.a - 1, T: 0, S: i, Wi: 1, Hi: 1}
		}
		tr, e := pdf.VerifJBIG2TextRegionHuffman(8, 8, 0, 0, insts, syms, 1, false, bitmap.CombOpOR, 1, 0, 0)
		if e != nil {
			return nil, 0, 0, e
		}
		seg(2, 6, []uint32{1}, tr)
		w = int64(len(out)) + int64(s.a) + 40*int64(s.b)
	case "empty-text":
		for i := 0; i < s.a; i++ {
			seg(uint32(1+i), 6, nil, emptyText(s.b, s.b, 1))
		}
		p = int64(s.a) * int64(s.b) * int64(s.b)
		w = int64(len(out)) + p/4
	case "empty-halftone":
		// pattern dictionary: HDMMR=0, template 0, 1x1 patterns, GRAYMAX=0, a few bytes of data
		seg(1, 16, nil, []byte{0, 1, 1, 0, 0, 0, 0, 0, 0, 0xFF, 0xAC})
		for i := 0; i < s.a; i++ {
			d := fbRegionInfo(s.b, s.b, 1, 0, 0)
			d = append(d, 0)                                  // HMMR=0, template 0, no skip, OR, default pixel 0
			d = append(d, 0, 0, 0, 1, 0, 0, 0, 1)             // HGW = HGH = 1
			d = append(d, 0, 0, 0, 0, 0, 0, 0, 0, 1, 0, 0, 0) // HGX = HGY = 0, HRX = 256, HRY = 0
			d = append(d, 0, 0, 0xFF, 0xAC)
			seg(uint32(2+i), 22, []uint32{1}, d)
		}
		p = int64(s.a) * int64(s.b) * int64(s.b)
		w = int64(len(out)) + p/4
	case "agg-iaid":
		seg(1, 0, nil, pdf.VerifJBIG2SymbolDict(blank(1), 0))
		seg(2, 0, []uint32{1}, fbAggDict(s.a))
		w = int64(len(out)) + 200*int64(s.a)
	default:
		return nil, 0, 0, fmt.Errorf("unknown spec %q", s.name)
	}
	return out, w, p, nil
}

// fbChildStructCase builds and decodes one structured stream in the child.
func fbChildStructCase(specText string) (word string, n int, detail string) {
	defer func() {
		if p := recover(); p != nil {
			word, detail = "panic", strings.ReplaceAll(fmt.Sprint(p), "\n", " ")
		}
	}()
	spec := fbParseJ2Spec(specText)
	body, w, p, err := spec.build()
	if err != nil {
		return "nobuild", 0, err.Error()
	}
	if spec.memoryCase() {
		// with the pool ledger (a forced GC at every second bitmap event) for small dictionaries
		if spec.a <= 256 {
			word, n, detail = fbChildPoolCase("jbig2ledger", body, true)
		} else {
			word, n, detail = fbChildPoolCase("jbig2mem", body, false)
		}
		return word, n, fmt.Sprintf("input=%d %s", len(body), detail)
	}
	total := fbStreamBudgetOf(len(body)) // limits.StreamBudget
	budget := membudget.New(total)
	workLimit := pdf.VerifTrJBIG2WorkLimit(int64(len(body)))
	runtime.GC()
	var m0, m1 runtime.MemStats
	runtime.ReadMemStats(&m0)
	cpu0 := fbCPUTime()
	word = "data"
	rd, err := (&pdf.FilterJBIG2{}).Decode(pdf.V2_0, bytes.NewReader(body), budget)
	if err == nil {
		var k int64
		k, err = io.Copy(io.Discard, rd)
		n = int(k)
		rd.Close()
	}
	if err != nil {
		word, detail = "other", strings.ReplaceAll(err.Error(), "\n", " ")
		if pdf.IsMalformed(err) {
			word = "malformed"
		}
	}
	cpu := fbCPUTime() - cpu0
	runtime.ReadMemStats(&m1)
	alloc := int64(m1.TotalAlloc - m0.TotalAlloc)
	allowedCPU := 300*time.Millisecond + time.Duration(25*w)
	allowedAlloc := int64(64<<20) + 2*total + workLimit/8
	detail = fmt.Sprintf("input=%d cpu=%v allowed=%v alloc=%d allowedalloc=%d regionpixels=%d worklimit=%d result=%s %s",
		len(body), cpu.Round(time.Millisecond), allowedCPU.Round(time.Millisecond), alloc, allowedAlloc, p, workLimit, word, fbTruncStr(detail))
	switch {
	case word == "other":
		// not classified as malformed: reported as such
	case p > workLimit && word == "data":
		word = "unchargedwork"
	case alloc > allowedAlloc:
		word = "allocvolume"
	case cpu > allowedCPU:
		word = "superlinear"
	}
	return word, n, detail
}

// ---- /JBIG2Globals chains through a real Reader ----

// fbGlobalsChainPDF: a PDF file whose objects 3 .. 3+depth-1 are JBIG2Decode streams without
// data, object k naming object k+1 as its /JBIG2Globals; the last one has no /DecodeParms.
func fbGlobalsChainPDF(depth int) []byte {
	var b bytes.Buffer
	var offs []int
	obj := func(s string) {
		offs = append(offs, b.Len())
		fmt.Fprintf(&b, "%d 0 obj\n%s\nendobj\n", len(offs), s)
	}
	b.WriteString("%PDF-1.7\n%\xe2\xe3\xcf\xd3\n")
	obj("<< /Type /Catalog /Pages 2 0 R >>")
	obj("<< /Type /Pages /Kids [] /Count 0 >>")
	for k := 0; k < depth; k++ {
		parms := ""
		if k+1 < depth {
			parms = fmt.Sprintf(" /DecodeParms << /JBIG2Globals %d 0 R >>", 3+k+1)
		}
		obj(fmt.Sprintf("<< /Filter /JBIG2Decode%s /Length 0 >>\nstream\n\nendstream", parms))
	}
	xref := b.Len()
	fmt.Fprintf(&b, "xref\n0 %d\n0000000000 65535 f \n", len(offs)+1)
	for _, o := range offs {
		fmt.Fprintf(&b, "%010d 00000 n \n", o)
	}
	fmt.Fprintf(&b, "trailer\n<< /Size %d /Root 1 0 R >>\nstartxref\n%d\n%%%%EOF\n", len(offs)+1, xref)
	return b.Bytes()
}

type fbCountGetter struct {
	pdf.Getter
	calls int
}

func (g *fbCountGetter) Get(ref pdf.Reference, canObjStm bool) (pdf.Native, error) {
	g.calls++
	return g.Getter.Get(ref, canObjStm)
}

// fbChildGlobalsChain opens the first stream of a chain of the given depth.  The result's n is
// the number of objects DecodeStream fetched; detail starts with "fetched=<n> depth=<d>".
func fbChildGlobalsChain(depth int) (word string, n int, detail string) {
	defer func() {
		if p := recover(); p != nil {
			word, detail = "panic", strings.ReplaceAll(fmt.Sprint(p), "\n", " ")
		}
	}()
	file := fbGlobalsChainPDF(depth)
	rd, err := pdf.NewReader(bytes.NewReader(file), int64(len(file)), nil)
	if err != nil {
		return "nobuild", 0, "NewReader: " + err.Error()
	}
	obj, err := rd.Get(pdf.NewReference(3, 0), true)
	stm, ok := obj.(*pdf.Stream)
	if err != nil || !ok {
		return "nobuild", 0, fmt.Sprintf("object 3 is %T (%v)", obj, err)
	}
	g := &fbCountGetter{Getter: rd}
	cpu0 := fbCPUTime()
	word = "data"
	r, err := pdf.DecodeStream(g, nil, stm)
	if err == nil {
		_, err = io.Copy(io.Discard, r)
		r.Close()
	}
	cpu := fbCPUTime() - cpu0
	msg := ""
	if err != nil {
		word, msg = "other", strings.ReplaceAll(err.Error(), "\n", " ")
		if pdf.IsMalformed(err) {
			word = "malformed"
		}
		if len(msg) > 100 {
			msg = msg[:100] + "…"
		}
	}
	allowed := 300*time.Millisecond + time.Duration(25*len(file))
	detail = fmt.Sprintf("fetched=%d depth=%d result=%s cpu=%v allowed=%v file=%d %s", g.calls, depth, word, cpu.Round(time.Millisecond), allowed.Round(time.Millisecond), len(file), msg)
	if cpu > allowed && word != "other" {
		word = "superlinear"
	}
	return word, g.calls, detail
}

// fbStructCases: the specs of one run (sizes chosen so that the unrepaired decoder needs one to a
// few seconds or a few hundred MiB; the repaired one milliseconds).
func fbStructCases(thorough bool) []fbJ2Spec {
	l := []fbJ2Spec{
		{"reflist-sd", 2048, 4096}, {"reflist-tr", 2048, 4096}, {"reflist-sd", 64, 100}, {"reflist-tr", 64, 100},
		{"reflist-cubic", 768, 8192}, {"reflist-cubic", 32, 64},
		{"huff-symid", 20000, 8000}, {"huff-symid", 256, 100},
		{"empty-text", 12, 4096}, {"empty-text", 3, 4096}, {"empty-text", 40, 512},
		{"empty-halftone", 12, 4096}, {"empty-halftone", 3, 4096},
		{"agg-iaid", 65536, 0}, {"agg-iaid", 300, 0},
	}
	if thorough {
		l = append(l, fbJ2Spec{"reflist-sd", 2048, 16384}, fbJ2Spec{"reflist-tr", 2048, 16384},
			fbJ2Spec{"reflist-cubic", 4096, 65536}, fbJ2Spec{"huff-symid", 32768, 12000},
			fbJ2Spec{"empty-text", 150, 4096}, fbJ2Spec{"empty-halftone", 150, 4096}, fbJ2Spec{"agg-iaid", 131072, 0})
	}
	return l
}

// fbGlobalsChainDepths: around limits.MaxExtractDepth and far beyond.
func fbGlobalsChainDepths(thorough bool) []int {
	l := []int{1, 2, 3, 100, 255, 256, 257, 258, 1000, 10000}
	if thorough {
		l = append(l, 20000)
	}
	return l
}

package main

import (
	"bytes"
	"encoding/binary"
	"fmt"
	"io"

	"seehuhn.de/go/pdf"
	"seehuhn.de/go/pdf/graphics/bitmap"
	"seehuhn.de/go/pdf/graphics/image/jbig2"
)

// ---- C08: JBIG2 pages built by the library's encoder, then mutated in their headers ----
//
// Seeds are minimal valid embedded-JBIG2 pages (page information + symbol dictionary + text
// region; generic region; pattern dictionary (globals) + halftone region), produced by
// graphics/image/jbig2 and read back raw from an in-memory PDF file.  The mutations touch only
// segment headers and the fixed-size data headers (counts, flags, referred-to lists, region
// geometry), so the arithmetic decoder is entered with the original coded data.

type fbJSeg struct {
	num     uint32
	typ     byte
	page    byte
	refs    []uint32
	data    []byte
	dataLen uint32 // claimed
}

type fbJSeed struct {
	name    string
	globals []byte
	segs    []fbJSeg
}

func fbParseJSegs(b []byte) []fbJSeg {
	var out []fbJSeg
	for len(b) >= 11 {
		s := fbJSeg{num: binary.BigEndian.Uint32(b)}
		flags := b[4]
		s.typ = flags & 0x3f
		cnt := int(b[5] >> 5)
		p := 6
		if cnt == 7 {
			return out // long form is not produced by the encoder
		}
		rs := 1
		if s.num > 65536 {
			rs = 4
		} else if s.num > 256 {
			rs = 2
		}
		for i := 0; i < cnt; i++ {
			if p+rs > len(b) {
				return out
			}
			var v uint32
			for k := 0; k < rs; k++ {
				v = v<<8 | uint32(b[p+k])
			}
			s.refs = append(s.refs, v)
			p += rs
		}
		if flags&0x40 != 0 {
			p += 3
		}
		if p+5 > len(b) {
			return out
		}
		s.page = b[p]
		p++
		s.dataLen = binary.BigEndian.Uint32(b[p:])
		p += 4
		n := int(s.dataLen)
		if n < 0 || p+n > len(b) {
			n = len(b) - p
		}
		s.data = append([]byte{}, b[p:p+n]...)
		out = append(out, s)
		b = b[p+n:]
	}
	return out
}

func fbEmitJSegs(segs []fbJSeg) []byte {
	var out []byte
	for _, s := range segs {
		out = binary.BigEndian.AppendUint32(out, s.num)
		out = append(out, s.typ&0x3f)
		cnt := len(s.refs)
		if cnt <= 4 {
			out = append(out, byte(cnt)<<5)
		} else {
			out = append(out, 0xe0|byte(cnt>>24)&0x1f, byte(cnt>>16), byte(cnt>>8), byte(cnt))
			out = append(out, make([]byte, (cnt+8)/8)...)
		}
		for _, ref := range s.refs {
			switch {
			case s.num <= 256:
				out = append(out, byte(ref))
			case s.num <= 65536:
				out = binary.BigEndian.AppendUint16(out, uint16(ref))
			default:
				out = binary.BigEndian.AppendUint32(out, ref)
			}
		}
		out = append(out, s.page)
		out = binary.BigEndian.AppendUint32(out, s.dataLen)
		out = append(out, s.data...)
	}
	return out
}

type fbJEmbed struct {
	im  *jbig2.Image
	ref pdf.Reference
}

func (e fbJEmbed) Embed(h *pdf.EmbedHelper) (pdf.Native, error) {
	return e.ref, e.im.WriteStream(h, e.ref, pdf.Dict{})
}

// fbJEncode writes the image into an in-memory PDF and returns the raw page stream and the
// decoded globals stream.
func fbJEncode(im *jbig2.Image) (page, globals []byte, err error) {
	defer func() {
		if p := recover(); p != nil {
			err = fmt.Errorf("panic: %v", p)
		}
	}()
	buf := &bytes.Buffer{}
	w, err := pdf.NewWriter(buf, pdf.V1_7, nil)
	if err != nil {
		return nil, nil, err
	}
	rm := pdf.NewResourceManager(w)
	ref := w.Alloc()
	if _, err := rm.Embed(fbJEmbed{im, ref}); err != nil {
		return nil, nil, err
	}
	if err := rm.Close(); err != nil {
		return nil, nil, err
	}
	if err := fbAddPage(w); err != nil {
		return nil, nil, err
	}
	w.GetMeta().Trailer["Quir"] = ref
	if err := w.Close(); err != nil {
		return nil, nil, err
	}
	rd, err := pdf.NewReader(bytes.NewReader(buf.Bytes()), int64(buf.Len()), nil)
	if err != nil {
		return nil, nil, err
	}
	obj, err := rd.Get(ref, true)
	if err != nil {
		return nil, nil, err
	}
	stm, ok := obj.(*pdf.Stream)
	if !ok {
		return nil, nil, fmt.Errorf("no stream")
	}
	page, err = io.ReadAll(stm.NewReader())
	if err != nil {
		return nil, nil, err
	}
	if dp, _ := stm.Dict["DecodeParms"].(pdf.Dict); dp != nil {
		if gref, ok := dp["JBIG2Globals"].(pdf.Reference); ok {
			gobj, err := rd.Get(gref, true)
			if err != nil {
				return nil, nil, err
			}
			if gs, ok := gobj.(*pdf.Stream); ok {
				grd, err := pdf.DecodeStream(rd, nil, gs)
				if err != nil {
					return nil, nil, err
				}
				globals, err = io.ReadAll(grd)
				if err != nil {
					return nil, nil, err
				}
			}
		}
	}
	return page, globals, nil
}

func fbGlyph(w, h int, seed uint64) *bitmap.Bitmap {
	bm := bitmap.New(w, h)
	s := seed*0x9E3779B97F4A7C15 + 1
	for y := 0; y < h; y++ {
		for x := 0; x < w; x++ {
			s = s*6364136223846793005 + 1442695040888963407
			bm.SetPixel(x, y, s>>61 < 5 || x == 0 || y == h-1)
		}
	}
	return bm
}

// fbJBIG2Seeds builds the valid pages once per run.
func fbJBIG2Seeds() ([]fbJSeed, []string) {
	var seeds []fbJSeed
	var errs []string
	add := func(name string, im *jbig2.Image, e error) {
		if e != nil {
			errs = append(errs, name+": "+e.Error())
			return
		}
		page, globals, err := fbJEncode(im)
		if err != nil {
			errs = append(errs, name+": "+err.Error())
			return
		}
		segs := fbParseJSegs(page)
		if len(segs) < 2 {
			errs = append(errs, name+": page has fewer than two segments")
			return
		}
		seeds = append(seeds, fbJSeed{name: name, globals: globals, segs: segs})
	}
	// text region over a page-local symbol dictionary (arithmetic coder)
	for _, variant := range []int{0, 1, 2} {
		im := jbig2.NewImage(64, 40, nil)
		var err error
		n := []int{3, 1, 5}[variant]
		for i := 0; i < n && err == nil; i++ {
			_, err = im.AddSymbol(fbGlyph(5+i, 7, uint64(i+1)))
		}
		tr := &jbig2.TextRegion{Width: 64, Height: 40, RefCorner: jbig2.RefCorner(variant), Transposed: variant == 2,
			Strips: []int{1, 2, 4}[variant]}
		for i := 0; i < 6; i++ {
			tr.Instances = append(tr.Instances, jbig2.TextRegionInstance{SymbolID: i % n, X: 2 + 9*i, Y: 12 + 3*(i%3), Local: true})
		}
		if err == nil {
			err = im.AddTextRegion(tr)
		}
		add(fmt.Sprintf("text%d", variant), im, err)
	}
	// text region over a globals symbol dictionary
	{
		g := jbig2.NewGlobals()
		var err error
		for i := 0; i < 4 && err == nil; i++ {
			_, err = g.AddSymbol(fbGlyph(6, 8, uint64(10+i)))
		}
		im := jbig2.NewImage(48, 24, g)
		tr := &jbig2.TextRegion{Width: 48, Height: 24}
		for i := 0; i < 5; i++ {
			tr.Instances = append(tr.Instances, jbig2.TextRegionInstance{SymbolID: i % 4, X: 1 + 8*i, Y: 10})
		}
		if err == nil {
			err = im.AddTextRegion(tr)
		}
		add("textglobal", im, err)
	}
	// generic regions
	for t := 0; t < 4; t++ {
		im := jbig2.NewImage(40, 24, nil)
		err := im.AddGenericRegion(fbGlyph(40, 24, uint64(20+t)), 0, 0, &jbig2.GenericOptions{Template: t, TPGDOn: t%2 == 1})
		add(fmt.Sprintf("generic%d", t), im, err)
	}
	{
		im := jbig2.NewImage(40, 24, nil)
		err := im.AddGenericRegion(fbGlyph(40, 24, 33), 0, 0, &jbig2.GenericOptions{UseMMR: true})
		add("genericmmr", im, err)
	}
	// halftone region over a pattern dictionary in the globals
	for _, mmr := range []bool{false, true} {
		g := jbig2.NewGlobals()
		var pats []*bitmap.Bitmap
		for i := 0; i < 4; i++ {
			pats = append(pats, fbGlyph(4, 4, uint64(40+i)))
		}
		id, err := g.AddPatternDict(pats, &jbig2.PatternDictOptions{UseMMR: mmr})
		im := jbig2.NewImage(32, 32, g)
		gray := make([]int, 64)
		for i := range gray {
			gray[i] = i % 4
		}
		if err == nil {
			err = im.AddHalftoneRegion(&jbig2.HalftoneRegion{Width: 32, Height: 32, PatternDictID: id, GrayValues: gray,
				GridWidth: 8, GridHeight: 8, GridVX: 4 * 256, GridVY: 0, UseMMR: mmr})
		}
		add(fmt.Sprintf("halftone_mmr%v", mmr), im, err)
	}
	return seeds, errs
}

// size of the fixed data header by segment type (the coded data follows)
func fbJHeaderLen(typ byte, data []byte) int {
	n := 0
	switch typ {
	case 0: // symbol dictionary: flags, AT, counts
		n = 2 + 8 + 8
	case 4, 6, 7: // text region: region info, flags, SBNUMINSTANCES
		n = 17 + 2 + 4
	case 16: // pattern dictionary
		n = 7
	case 20, 22, 23: // halftone region
		n = 17 + 1 + 8 + 8 + 4
	case 36, 38, 39: // generic region
		n = 17 + 1 + 8
	case 40, 42, 43:
		n = 17 + 1 + 4
	case 48:
		n = 19
	default:
		n = 8
	}
	return min(n, len(data))
}

var fbJValues = []uint32{0, 1, 2, 3, 7, 8, 255, 256, 65535, 65536, 1 << 20, 1<<31 - 1, 1 << 31, 0xfffffffe, 0xffffffff}

// fbMutateJBIG2 returns a mutated copy of the page (and possibly of the globals).
func fbMutateJBIG2(r *Rand, seed fbJSeed) (page, globals []byte, what string) {
	segs := make([]fbJSeg, len(seed.segs))
	for i, s := range seed.segs {
		segs[i] = s
		segs[i].data = append([]byte{}, s.data...)
		segs[i].refs = append([]uint32{}, s.refs...)
	}
	globals = seed.globals
	gsegs := fbParseJSegs(globals)
	nmut := 1 + r.Intn(2)
	for m := 0; m < nmut; m++ {
		// pick a segment, preferring dictionaries and regions
		target := &segs
		if len(gsegs) > 0 && r.P(1, 3) {
			target = &gsegs
		}
		ts := *target
		i := r.Intn(len(ts))
		for k := 0; k < 4 && (ts[i].typ == 48 || ts[i].typ == 49); k++ {
			i = r.Intn(len(ts))
		}
		s := &ts[i]
		hl := fbJHeaderLen(s.typ, s.data)
		starve := func() []byte { // replacement for the coded data: the decoder runs dry at once
			switch r.Intn(5) {
			case 0:
				return nil
			case 1:
				return make([]byte, 1+r.Intn(12))
			case 2:
				return bytes.Repeat([]byte{0xff}, 1+r.Intn(12))
			case 3:
				return r.Bytes(1 + r.Intn(16))
			}
			if len(s.data) > hl {
				return append([]byte{}, s.data[hl:hl+r.Intn(len(s.data)-hl)]...)
			}
			return nil
		}
		switch r.Intn(15) {
		case 12: // many symbols / instances announced, (almost) no coded data
			switch s.typ {
			case 0:
				if len(s.data) >= 18 {
					n := Pick(r, []uint32{1, 2, 50, 1000, 1 << 16, 1 << 20})
					binary.BigEndian.PutUint32(s.data[10:], Pick(r, []uint32{0, 1, n}))
					binary.BigEndian.PutUint32(s.data[14:], n)
					s.data = append(s.data[:18], starve()...)
					s.dataLen = uint32(len(s.data))
					what += fmt.Sprintf(" seg%d:dict-starve(%d)", s.num, n)
				}
			case 4, 6, 7:
				if len(s.data) >= 23 {
					n := Pick(r, []uint32{1, 2, 7, 64, 100})
					binary.BigEndian.PutUint32(s.data[19:], n)
					s.data = append(s.data[:23], starve()...)
					if pad := int(n)/8 + 1 - len(s.data); pad > 0 && r.Bool() {
						s.data = append(s.data, make([]byte, pad)...)
					}
					s.dataLen = uint32(len(s.data))
					what += fmt.Sprintf(" seg%d:text-starve(%d)", s.num, n)
				}
			}
		case 13: // halftone grid and generic region counts
			switch s.typ {
			case 20, 22, 23:
				if len(s.data) >= 38 {
					dims := []uint32{0, 1, 8, 64, 1000, 4096, 8192, 65535, 1 << 20}
					binary.BigEndian.PutUint32(s.data[18:], Pick(r, dims))
					binary.BigEndian.PutUint32(s.data[22:], Pick(r, dims))
					if r.Bool() { // grid vector 0: every cell on the same spot
						binary.BigEndian.PutUint16(s.data[34:], Pick(r, []uint16{0, 1, 256, 0xffff}))
						binary.BigEndian.PutUint16(s.data[36:], Pick(r, []uint16{0, 1, 256, 0xffff}))
					}
					if r.P(1, 3) { // the region itself large enough to hold the grid
						binary.BigEndian.PutUint32(s.data[0:], Pick(r, []uint32{32, 4096, 16384}))
						binary.BigEndian.PutUint32(s.data[4:], Pick(r, []uint32{32, 4096, 16384}))
					}
					what += fmt.Sprintf(" seg%d:halftone-grid", s.num)
				}
			case 16:
				if len(s.data) >= 7 { // HDPW, HDPH, GRAYMAX
					s.data[1], s.data[2] = Pick(r, []byte{0, 1, 4, 255}), Pick(r, []byte{0, 1, 4, 255})
					binary.BigEndian.PutUint32(s.data[3:], Pick(r, []uint32{0, 3, 4, 255, 65535, 1 << 24}))
					what += fmt.Sprintf(" seg%d:pattern-dict-counts", s.num)
				}
			case 36, 38, 39:
				if len(s.data) >= 17 {
					binary.BigEndian.PutUint32(s.data[0:], Pick(r, []uint32{1, 40, 4096, 65536, 1 << 20}))
					binary.BigEndian.PutUint32(s.data[4:], Pick(r, []uint32{1, 24, 4096, 65536, 1 << 20, 0xffffffff}))
					if r.Bool() {
						s.data = append(s.data[:hl], starve()...)
						s.dataLen = uint32(len(s.data))
					}
					what += fmt.Sprintf(" seg%d:generic-dims", s.num)
				}
			}
		case 14: // aggregated symbols: SDREFAGG on (refinement template 1: no extra AT bytes)
			if s.typ == 0 && len(s.data) >= 2 {
				s.data[1] |= 0x02
				s.data[0] |= 0x10
				if r.Bool() {
					s.refs = nil
				}
				what += fmt.Sprintf(" seg%d:SDREFAGG", s.num)
			}
		case 0, 1: // a 32-bit field of the data header
			if hl >= 4 {
				off := r.Intn(hl-3) &^ 0
				if r.Bool() {
					off = (hl - 4) - 4*r.Intn((hl-4)/4+1) // aligned from the end: the counts
					if off < 0 {
						off = 0
					}
				}
				binary.BigEndian.PutUint32(s.data[off:], Pick(r, fbJValues))
				what += fmt.Sprintf(" seg%d(t%d)+%d:u32", s.num, s.typ, off)
			}
		case 2: // the instance / symbol counts precisely
			switch s.typ {
			case 6, 7, 4:
				if len(s.data) >= 23 {
					binary.BigEndian.PutUint32(s.data[19:], Pick(r, []uint32{1, 2, 6, 7, 1000, 1 << 24, 0xffffffff}))
					what += fmt.Sprintf(" seg%d:SBNUMINSTANCES", s.num)
				}
			case 0:
				if len(s.data) >= 18 {
					off := 10 + 4*r.Intn(2)
					binary.BigEndian.PutUint32(s.data[off:], Pick(r, []uint32{0, 1, 2, 1000, 1 << 24, 0xffffffff}))
					what += fmt.Sprintf(" seg%d:SDNUM@%d", s.num, off)
				}
			}
		case 3: // flag bits
			if hl > 0 {
				off := r.Intn(hl)
				if s.typ == 0 || s.typ == 6 || s.typ == 7 {
					off = Pick(r, []int{0, 1, 17, 18})
					if s.typ == 0 {
						off = r.Intn(2)
					}
				}
				if off < len(s.data) {
					s.data[off] ^= 1 << r.Intn(8)
					what += fmt.Sprintf(" seg%d(t%d)+%d:bit", s.num, s.typ, off)
				}
			}
		case 4: // referred-to list: none, unknown segment, itself, the page information, duplicates
			switch r.Intn(5) {
			case 0:
				s.refs = nil
			case 1:
				s.refs = []uint32{s.num + 100}
			case 2:
				s.refs = []uint32{s.num}
			case 3:
				s.refs = []uint32{0, 0, 0}
			default:
				s.refs = append(s.refs, s.refs...)
			}
			what += fmt.Sprintf(" seg%d:refs=%v", s.num, s.refs)
		case 5: // remove a dictionary (missing referred-to segment)
			if len(ts) > 2 && (s.typ == 0 || s.typ == 16 || r.P(1, 4)) {
				*target = append(ts[:i:i], ts[i+1:]...)
				what += fmt.Sprintf(" del-seg%d(t%d)", s.num, s.typ)
			}
		case 6: // an empty symbol dictionary in place of the real one (zero symbols exported)
			if s.typ == 0 && len(s.data) >= 18 {
				binary.BigEndian.PutUint32(s.data[10:], 0)
				binary.BigEndian.PutUint32(s.data[14:], 0)
				s.data = s.data[:18]
				s.dataLen = 18
				what += fmt.Sprintf(" seg%d:empty-dict", s.num)
			}
		case 7: // region geometry
			if s.typ != 0 && s.typ != 16 && len(s.data) >= 16 {
				off := 4 * r.Intn(4)
				binary.BigEndian.PutUint32(s.data[off:], Pick(r, fbJValues))
				what += fmt.Sprintf(" seg%d:region+%d", s.num, off)
			}
		case 8: // segment type
			s.typ = Pick(r, []byte{0, 4, 6, 7, 16, 20, 22, 23, 36, 38, 39, 40, 42, 43})
			what += fmt.Sprintf(" seg%d:type=%d", s.num, s.typ)
		case 9: // claimed data length
			s.dataLen = Pick(r, []uint32{0, 1, uint32(len(s.data)) - 1, uint32(len(s.data)) + 1, 0xffffffff, 1 << 30})
			what += fmt.Sprintf(" seg%d:len=%d", s.num, s.dataLen)
		case 10: // random header byte
			if hl > 0 {
				off := r.Intn(hl)
				s.data[off] = byte(r.U64())
				what += fmt.Sprintf(" seg%d(t%d)+%d:byte", s.num, s.typ, off)
			}
		default: // truncate the coded data
			if len(s.data) > hl {
				s.data = s.data[:hl+r.Intn(len(s.data)-hl)]
				s.dataLen = uint32(len(s.data))
				what += fmt.Sprintf(" seg%d:cut", s.num)
			}
		}
	}
	if len(gsegs) > 0 {
		globals = fbEmitJSegs(gsegs)
	}
	return fbEmitJSegs(segs), globals, seed.name + ":" + what
}

package main

import (
	"bytes"
	"fmt"
	"math"
	"strings"

	"seehuhn.de/go/pdf"
)

// C01 — object syntax round trip.

func init() {
	addRun("C01", "object trees from a structured generator (all byte values in names/strings, boundary ints, random finite float bits, refs, nil arrays, nil dict entries, nesting up to the scanner limit) x 8 option sets; token strings exhaustively over a 20-byte delimiter alphabet up to a tier-dependent length plus random soups and mutations, also placed across the 1024-byte buffer edge. A case is non-trivial when it has at least one composite, string or name; distinct by its wire form / byte string.", runC01)
	addReplay("C01", "roundtrip", replayC01RoundTrip)
	setCanon("C01", canonReals)
}

var c01Opts = []struct {
	tag string
	opt pdf.OutputOptions
}{
	{"-", 0},
	{"p", pdf.OptPretty},
	{"c", pdf.OptContentStream},
	{"pc", pdf.OptPretty | pdf.OptContentStream},
	{"d", pdf.OptDictTypes},
	{"u", pdf.OptTextStringUtf8},
	{"pdu", pdf.OptPretty | pdf.OptDictTypes | pdf.OptTextStringUtf8},
	{"cdu", pdf.OptContentStream | pdf.OptDictTypes | pdf.OptTextStringUtf8},
}

func optByTag(tag string) pdf.OutputOptions {
	for _, o := range c01Opts {
		if o.tag == tag {
			return o.opt
		}
	}
	return 0
}

// ---- generators ----

var trickyBytes = []byte{0, 9, 10, 12, 13, 32, '(', ')', '<', '>', '[', ']', '{', '}', '/', '%', '#', '\\', '0', '7', '8', 'n', 'r', 'R', 0x7f, 0x80, 0xff}

func genBytes(r *Rand, maxLen int) []byte {
	n := r.Intn(maxLen + 1)
	b := make([]byte, n)
	mode := r.Intn(4)
	for i := range b {
		switch mode {
		case 0:
			b[i] = byte(r.U64())
		case 1:
			b[i] = Pick(r, trickyBytes)
		case 2:
			b[i] = byte(0x20 + r.Intn(0x5f))
		default:
			if r.Bool() {
				b[i] = Pick(r, trickyBytes)
			} else {
				b[i] = byte(r.U64())
			}
		}
	}
	return b
}

var boundaryInts = []int64{0, 1, -1, 9, 10, 255, 256, 65535, 65536, 1<<24 - 1, 1 << 24, math.MaxInt32, math.MinInt32, math.MaxInt64, math.MinInt64, math.MaxInt64 - 1, math.MinInt64 + 1}

func genInt(r *Rand) pdf.Integer {
	switch r.Intn(4) {
	case 0:
		return pdf.Integer(Pick(r, boundaryInts))
	case 1:
		return pdf.Integer(r.Intn(100))
	case 2:
		return pdf.Integer(int64(r.U64()))
	default:
		return pdf.Integer(int64(r.U64()) >> uint(r.Intn(64)))
	}
}

var boundaryReals = []float64{0, math.Copysign(0, -1), 1, -1, 0.5, 0.1, 1e-7, 1e21, 1e22, 123456789.125, math.MaxFloat64, -math.MaxFloat64, math.SmallestNonzeroFloat64, 2.2250738585072014e-308, 1e-310, 4503599627370496.5, 0.30000000000000004}

func genReal(r *Rand) pdf.Real {
	switch r.Intn(4) {
	case 0:
		return pdf.Real(Pick(r, boundaryReals))
	case 1:
		return pdf.Real(float64(r.Intn(2000)-1000) / 8)
	default:
		for {
			x := math.Float64frombits(r.U64())
			if !math.IsNaN(x) && !math.IsInf(x, 0) {
				return pdf.Real(x)
			}
		}
	}
}

func genRef(r *Rand) pdf.Reference {
	num := uint32(r.Intn(1 << 24))
	if r.P(1, 3) {
		num = uint32(Pick(r, []int{0, 1, 9, 10, 1<<24 - 1}))
	}
	gen := uint16(0)
	if r.P(1, 3) {
		gen = uint16(r.Intn(1 << 16))
	}
	return pdf.NewReference(num, gen)
}

func genName(r *Rand) pdf.Name {
	if r.P(1, 8) {
		return pdf.Name(Pick(r, []string{"", "Type", "Subtype", "#", "A#", "#41", "A B", "Length"}))
	}
	return pdf.Name(genBytes(r, 12))
}

func genObj(r *Rand, depth int, ops bool) pdf.Object {
	k := r.Intn(14)
	if depth <= 0 && k >= 9 {
		k = r.Intn(9)
	}
	switch k {
	case 0:
		return nil
	case 1:
		return pdf.Boolean(r.Bool())
	case 2, 3:
		return genInt(r)
	case 4:
		return genReal(r)
	case 5:
		return genName(r)
	case 6:
		return pdf.String(genBytes(r, 20))
	case 7:
		return genRef(r)
	case 8:
		if ops && r.Bool() {
			return pdf.Operator(Pick(r, []string{"q", "Q", "re", "Tj", ">", "BT", "f*", "'", "\""}))
		}
		if r.P(1, 4) {
			return pdf.Array(nil)
		}
		if r.P(1, 4) {
			return pdf.Dict(nil)
		}
		if r.P(1, 6) {
			return Pick(r, []pdf.Object{pdf.String(""), pdf.String(nil), pdf.String([]byte{})})
		}
		return genInt(r)
	case 9, 10, 11:
		n := r.Intn(6)
		a := make(pdf.Array, n)
		for i := range a {
			a[i] = genObj(r, depth-1, ops)
		}
		return a
	default:
		n := r.Intn(5)
		d := pdf.Dict{}
		for i := 0; i < n; i++ {
			d[genName(r)] = genObj(r, depth-1, ops)
		}
		return d
	}
}

func nest(depth int, leaf pdf.Object, dictEvery int) pdf.Object {
	o := leaf
	for i := 0; i < depth; i++ {
		if dictEvery > 0 && i%dictEvery == 0 {
			o = pdf.Dict{"K": o}
		} else {
			o = pdf.Array{o}
		}
	}
	return o
}

// ---- reference semantics used by the oracle ----

// normObj: nil dictionary entries count as absent, nil arrays as null.
func normObj(o pdf.Object) pdf.Object {
	if isNilObj(o) {
		return nil
	}
	switch x := o.(type) {
	case pdf.Array:
		a := make(pdf.Array, len(x))
		for i, e := range x {
			a[i] = normObj(e)
		}
		return a
	case pdf.Dict:
		d := pdf.Dict{}
		for k, v := range x {
			if v = normObj(v); v != nil {
				d[k] = v
			}
		}
		return d
	}
	return o
}

func hasOperator(o pdf.Object) bool {
	switch x := o.(type) {
	case pdf.Operator:
		return true
	case pdf.Array:
		for _, e := range x {
			if hasOperator(e) {
				return true
			}
		}
	case pdf.Dict:
		for _, e := range x {
			if hasOperator(e) {
				return true
			}
		}
	}
	return false
}

func isComposite(o pdf.Object) bool {
	switch o.(type) {
	case pdf.Array, pdf.Dict, pdf.String, pdf.Name:
		return true
	}
	return false
}

func parseOne(data []byte) (o pdf.Object, pos int64, err error) {
	s := pdf.NewVerifScanner(bytes.NewReader(data), nil, nil)
	defer func() {
		// a panic of the scanner is an outcome to report, not a crash of the harness
		if r := recover(); r != nil {
			o, pos, err = nil, 0, fmt.Errorf("panic: %v", r)
		}
	}()
	o, err = s.ReadObject()
	return o, s.Pos(), err
}

func implParseLine(data []byte) string {
	o, pos, err := parseOne(data)
	if err != nil {
		return "err " + errClass(err)
	}
	return fmt.Sprintf("ok %s %d", wireNorm(o), int64(len(data))-pos)
}

// c01Norm is the property's reading of a value: equal = pdf.Equal modulo nil/empty strings (both
// denote "()"; the core scanner returns String(nil) for "()" and "<>" by design), with a typed nil
// Array or Dict being the null object and nil dictionary entries being absent on the input side
// (`input`).  On the parsed side the scanner must return null for `null`; nil entries of a parsed
// dictionary (the scanner keeps `/K null` as a nil entry) are absent as well.
func c01Norm(o pdf.Object, input bool) pdf.Object {
	if o == nil {
		return nil
	}
	switch x := o.(type) {
	case pdf.Array:
		if x == nil && input {
			return nil
		}
		a := make(pdf.Array, len(x))
		for i, e := range x {
			a[i] = c01Norm(e, input)
		}
		return a
	case pdf.Dict:
		if x == nil && input {
			return nil
		}
		d := pdf.Dict{}
		for k, v := range x {
			if v = c01Norm(v, input); v != nil {
				d[k] = v
			}
		}
		return d
	case pdf.String:
		if x == nil {
			return pdf.String{} // on both sides: String(nil) and String("") are the same value
		}
	}
	return o
}

// oracleRoundTrip: parse("[" + Format(opt, objs...) + "]") equals objs under pdf.Equal, after
// the identifications of c01Norm.
func oracleRoundTrip(optTag string, objs pdf.Array) (bool, string) {
	ok, _, d := oracleRoundTripK(optTag, objs)
	return ok, d
}

// oracleRoundTripK also names the class of the failure.
func oracleRoundTripK(optTag string, objs pdf.Array) (bool, string, string) {
	ok, d := oracleRoundTripParse(optTag, objs)
	if !ok {
		return false, "roundtrip", d
	}
	return oracleRoundTripValue(optTag, objs)
}

func oracleRoundTripValue(optTag string, objs pdf.Array) (bool, string, string) {
	var buf bytes.Buffer
	buf.WriteByte('[')
	pdf.Format(&buf, optByTag(optTag), objs...)
	buf.WriteByte(']')
	got, _, _ := parseOne(buf.Bytes())
	want := c01Norm(objs, true)
	gotN := c01Norm(got, false)
	if pdf.Equal(gotN, want) {
		return true, "", ""
	}
	desc := fmt.Sprintf("value differs: %q parsed as %s, want %s", truncate(buf.String()), wireNorm(gotN), wireNorm(want))
	if objEqual(normObj(got), normObj(objs)) {
		// equal once a typed nil Dict is taken for an empty dictionary (the former oracle)
		return false, "nil-dict-written-as-empty", desc + " (a typed nil Dict is written as <<>>, not as null)"
	}
	return false, "roundtrip", desc
}

// oracleRoundTripParse: the text is deterministic, parses, and the parser consumes all of it
func oracleRoundTripParse(optTag string, objs pdf.Array) (bool, string) {
	opt := optByTag(optTag)
	var buf bytes.Buffer
	buf.WriteByte('[')
	if err := pdf.Format(&buf, opt, objs...); err != nil {
		return false, "Format error: " + err.Error()
	}
	buf.WriteByte(']')
	var buf2 bytes.Buffer
	buf2.WriteByte('[')
	pdf.Format(&buf2, opt, objs...)
	buf2.WriteByte(']')
	if !bytes.Equal(buf.Bytes(), buf2.Bytes()) {
		return false, "formatting is not deterministic"
	}
	got, pos, err := parseOne(buf.Bytes())
	if err != nil {
		return false, fmt.Sprintf("parse error %v on %q", err, truncate(buf.String()))
	}
	if pos != int64(buf.Len()) {
		return false, fmt.Sprintf("parser stopped at %d of %d on %q", pos, buf.Len(), truncate(buf.String()))
	}
	_ = got
	return true, ""
}

func truncate(s string) string {
	if len(s) > 300 {
		return s[:300] + "…"
	}
	return s
}

func replayC01RoundTrip(input string) (bool, string) {
	parts := strings.SplitN(input, " ", 2)
	objs, err := unwireSeq(parts[1])
	if err != nil {
		return true, "bad replay input: " + err.Error()
	}
	return oracleRoundTrip(parts[0], objs)
}

// ---- run ----

func runC01(c *Ctx) {
	wireNilDict = true
	r := c.R
	nTrees := 4000
	maxStr := 3
	nSoup := 6000
	if c.Thorough {
		nTrees = 60000
		maxStr = 4
		nSoup = 150000
	}

	emitFmt := func(tag string, objs pdf.Array) []byte {
		var buf bytes.Buffer
		err := pdf.Format(&buf, optByTag(tag), objs...)
		w := "-"
		if len(objs) > 0 {
			var sb strings.Builder
			for _, o := range objs {
				wireTo(&sb, o)
			}
			w = sb.String()
		}
		res := "ok " + hexWire(buf.Bytes())
		if err != nil {
			res = "err"
		}
		c.Emit("C01 fmt "+tag+" "+w, res)
		return buf.Bytes()
	}
	emitParse := func(data []byte) {
		c.Emit("C01 parse "+hexWire(data), implParseLine(data))
	}

	check := func(tag string, objs pdf.Array) {
		ops := strings.Contains(tag, "c")
		hasOp := hasOperator(objs)
		key := tag + " " + wire(objs)
		nt := false
		for _, o := range objs {
			nt = nt || isComposite(o)
		}
		c.Case(key, nt)
		out := emitFmt(tag, objs)
		if hasOp {
			c.Stat("with_operator")
			_ = ops
			return // operators are read back by the content scanner (C15)
		}
		ok, vkey, d := oracleRoundTripK(tag, objs)
		if !ok {
			c.Violate("roundtrip", vkey, d, key)
		}
		// the model must read the implementation's bytes the same way
		wrapped := append(append([]byte{'['}, out...), ']')
		emitParse(wrapped)
		if len(objs) == 1 {
			if _, isRef := objs[0].(pdf.Reference); !isRef {
				emitParse(out)
			}
		}
	}

	// 1. fixed corpus of delicate cases
	corpus := []pdf.Array{
		{},
		{nil},
		{pdf.Array(nil)},
		{pdf.Dict(nil)},
		{pdf.Array{pdf.Dict(nil), pdf.Array(nil)}, pdf.Dict{"A": pdf.Dict(nil), "B": pdf.Array(nil), "C": pdf.Integer(1)}},
		{pdf.Integer(1), pdf.Dict(nil), pdf.Integer(2), pdf.Dict(nil), pdf.Name("N")},
		{pdf.String(""), pdf.String(nil), pdf.String([]byte{}), pdf.Array{pdf.String("")}, pdf.Dict{"V": pdf.String("")}},
		{pdf.Integer(1), pdf.Integer(2), pdf.Name("R")},
		{pdf.Integer(1), pdf.Integer(2), pdf.Integer(3), pdf.NewReference(4, 5)},
		{pdf.NewReference(1, 0), pdf.NewReference(2, 0)},
		{pdf.Integer(1), pdf.NewReference(1, 0)},
		{pdf.Name(""), pdf.Name("")},
		{pdf.Name("A"), pdf.Integer(1)},
		{pdf.Name("A"), pdf.Name("B")},
		{pdf.Name("A"), nil},
		{pdf.Name("A"), pdf.Boolean(true)},
		{pdf.Boolean(true), pdf.Boolean(false), nil, pdf.Integer(0)},
		{pdf.Real(1), pdf.Integer(2)},
		{pdf.Integer(1), pdf.Real(0.5)},
		{pdf.Real(0.5), pdf.Real(0.5)},
		{pdf.String("a"), pdf.Integer(1)},
		{pdf.String("(("), pdf.String("))"), pdf.String(")("), pdf.String("(()")},
		{pdf.String("\r\n"), pdf.String("\n\r"), pdf.String("\n"), pdf.String("\r"), pdf.String("a\nb")},
		{pdf.String("\\"), pdf.String("\\n"), pdf.String("\\\r")},
		{pdf.String("\x00\x01\x02\x03\x04\x05\x06\x07\x08\x0b"), pdf.String("\xff\xfe")},
		{pdf.Dict{"A": nil}, pdf.Dict{"A": pdf.Array(nil)}},
		{pdf.Dict{"Type": pdf.Name("X"), "Subtype": pdf.Name("Y"), "A": pdf.Integer(1), "Z": pdf.Integer(2), "": pdf.Integer(3)}},
		{pdf.Dict{"A": pdf.Integer(1), "B": pdf.NewReference(2, 0), "C": pdf.Integer(3)}},
		{pdf.Dict{"A": pdf.Dict{"B": pdf.Dict{}}}},
		{pdf.Array{pdf.Array{}, pdf.Array{pdf.Array{}}}},
		{nest(255, pdf.Integer(1), 0)},
		{nest(255, pdf.Integer(1), 2)},
		{nest(254, pdf.Name("x"), 3)},
	}
	for _, objs := range corpus {
		for _, o := range c01Opts {
			check(o.tag, objs)
		}
	}
	c.Sample("corpus: " + wire(corpus[27]))

	// 2. random trees
	for i := 0; i < nTrees; i++ {
		o := Pick(r, c01Opts)
		ops := strings.Contains(o.tag, "c") && r.P(1, 4)
		n := 1 + r.Intn(4)
		if r.P(1, 10) {
			n = 0
		}
		objs := make(pdf.Array, n)
		for j := range objs {
			objs[j] = genObj(r, 1+r.Intn(4), ops)
		}
		if i < 3 {
			c.Sample("tree " + o.tag + " " + wire(objs))
		}
		check(o.tag, objs)
	}

	// 3. all strings over the delimiter alphabet (correspondence of the parser on arbitrary input)
	alpha := []byte{' ', '\n', '\r', '%', '(', ')', '<', '>', '[', ']', '/', '#', '\\', '0', '9', '.', '+', '-', 'R', 'a'}
	var rec func(prefix []byte, left int)
	count := 0
	rec = func(prefix []byte, left int) {
		emitParse(prefix)
		c.Case("s:"+string(prefix), len(prefix) >= 2)
		count++
		if left == 0 {
			return
		}
		for _, b := range alpha {
			rec(append(prefix[:len(prefix):len(prefix)], b), left-1)
		}
	}
	rec(nil, maxStr)
	c.StatN("alphabet_strings", count)
	// the same inside brackets and dictionaries (reference detection, nesting)
	var rec2 func(prefix []byte, left int)
	rec2 = func(prefix []byte, left int) {
		emitParse(append(append([]byte("[1 2"), prefix...), ']'))
		emitParse(append(append([]byte("<</A 1"), prefix...), []byte(">>")...))
		c.Case("b:"+string(prefix), true)
		if left == 0 {
			return
		}
		for _, b := range alpha {
			rec2(append(prefix[:len(prefix):len(prefix)], b), left-1)
		}
	}
	rec2(nil, maxStr-1)

	// 4. token soups and mutations
	tokens := []string{" ", "\n", "\r\n", "%c\n", "(", ")", "<", ">", "<<", ">>", "[", "]", "/", "/A", "/#41", "/#4", "#", "\\", "\\)", "\\(", "\\\r\n", "\\053", "\\7", "\\400", "0", "12", "-3", "+4", ".5", "6.", "-.7", "1.2.3", "--1", "R", "null", "true", "false", "nul", "falsex", "stream", "endobj", "obj", "a", "{", "}", "9223372036854775807", "9223372036854775808", "-9223372036854775808", "-9223372036854775809", "16777215 0 R", "16777216 0 R", "1 65535 R", "1 65536 R", "<41 4>", "<4x1>", "(a\rb)", "(a\r\nb)"}
	for i := 0; i < nSoup; i++ {
		n := 1 + r.Intn(8)
		var sb []byte
		for j := 0; j < n; j++ {
			sb = append(sb, Pick(r, tokens)...)
			if r.P(1, 3) {
				sb = append(sb, ' ')
			}
		}
		if r.P(1, 3) {
			sb = append([]byte{'['}, append(sb, ']')...)
		} else if r.P(1, 4) {
			sb = append([]byte("<<"), append(sb, '>', '>')...)
		}
		// sometimes push the interesting part across the buffer edge
		if r.P(1, 12) {
			pad := 1016 + r.Intn(12)
			sb = append(append([]byte{'['}, bytes.Repeat([]byte{' '}, pad)...), append(sb, ']')...)
			c.Stat("buffer_edge")
		}
		if i < 2 {
			c.Sample("soup " + fmt.Sprintf("%q", sb))
		}
		c.Case("t:"+string(sb), true)
		emitParse(sb)
	}
	// mutations of valid output
	for i := 0; i < nSoup/4; i++ {
		objs := pdf.Array{genObj(r, 3, false), genObj(r, 2, false)}
		var buf bytes.Buffer
		buf.WriteByte('[')
		pdf.Format(&buf, Pick(r, c01Opts[:2]).opt, objs...)
		buf.WriteByte(']')
		b := buf.Bytes()
		for k := r.Intn(3) + 1; k > 0 && len(b) > 0; k-- {
			p := r.Intn(len(b))
			switch r.Intn(3) {
			case 0:
				b[p] = Pick(r, alpha)
			case 1:
				b = append(b[:p:p], b[p+1:]...)
			default:
				b = b[:p]
			}
		}
		c.Case("m:"+string(b), true)
		emitParse(b)
	}
	// long names and numbers around maxNameBytes
	for _, n := range []int{4095, 4096, 4097} {
		emitParse(append([]byte{'/'}, bytes.Repeat([]byte{'a'}, n)...))
		emitParse(append(append([]byte{'/'}, bytes.Repeat([]byte{'a'}, n)...), ' '))
		emitParse(append(append([]byte{'['}, append([]byte{'/'}, bytes.Repeat([]byte{'a'}, n)...)...), ']'))
		c.Case(fmt.Sprintf("longname%d", n), true)
	}
	for _, n := range []int{255, 256, 257} {
		b := append(bytes.Repeat([]byte{'['}, n), bytes.Repeat([]byte{']'}, n)...)
		emitParse(b)
		b = append(bytes.Repeat([]byte("<</A"), n), bytes.Repeat([]byte(">>"), n)...)
		emitParse(b)
		c.Case(fmt.Sprintf("deep%d", n), true)
	}
}

// objEqual is the harness's own structural equality on normalised objects
// (independent of pdf.Equal; empty and nil strings are the same PDF value).
func objEqual(a, b pdf.Object) bool {
	if a == nil || b == nil {
		return a == nil && b == nil
	}
	switch x := a.(type) {
	case pdf.Boolean:
		y, ok := b.(pdf.Boolean)
		return ok && x == y
	case pdf.Integer:
		y, ok := b.(pdf.Integer)
		return ok && x == y
	case pdf.Real:
		y, ok := b.(pdf.Real)
		return ok && (x == y)
	case pdf.Name:
		y, ok := b.(pdf.Name)
		return ok && x == y
	case pdf.Operator:
		y, ok := b.(pdf.Operator)
		return ok && x == y
	case pdf.String:
		y, ok := b.(pdf.String)
		return ok && bytes.Equal(x, y)
	case pdf.Reference:
		y, ok := b.(pdf.Reference)
		return ok && x == y
	case pdf.Array:
		y, ok := b.(pdf.Array)
		if !ok || len(x) != len(y) {
			return false
		}
		for i := range x {
			if !objEqual(x[i], y[i]) {
				return false
			}
		}
		return true
	case pdf.Dict:
		y, ok := b.(pdf.Dict)
		if !ok || len(x) != len(y) {
			return false
		}
		for k, v := range x {
			w, ok := y[k]
			if !ok || !objEqual(v, w) {
				return false
			}
		}
		return true
	}
	return false
}

package main

import (
	"bytes"
	"fmt"
	"strings"

	"seehuhn.de/go/pdf"
)

// ---- chains through Writer.OpenStream / DecodeStream ----

func fbAddPage(w *pdf.Writer) error {
	pRef := w.Alloc()
	ppRef := w.Alloc()
	if err := w.Put(pRef, pdf.Dict{"Type": pdf.Name("Page"), "Parent": ppRef, "Resources": pdf.Dict{},
		"MediaBox": pdf.Array{pdf.Integer(0), pdf.Integer(0), pdf.Integer(100), pdf.Integer(100)}}); err != nil {
		return err
	}
	if err := w.Put(ppRef, pdf.Dict{"Type": pdf.Name("Pages"), "Kids": pdf.Array{pRef}, "Count": pdf.Integer(1)}); err != nil {
		return err
	}
	w.GetMeta().Catalog.Pages = ppRef
	return nil
}

// fbChainSpec: filters as descriptions (fbDescFilterIn syntax), e.g. "ahx", "a85", "rl",
// "flate:12,3,8,5", "lzw:1,0,0,0,1", "compress:0,0,0,0", "ccitt:-1,0,0,16,0,0,0,0".
func fbChainFilter(desc string) pdf.Filter {
	switch desc {
	case "ahx":
		return pdf.FilterASCIIHex{}
	case "a85":
		return pdf.FilterASCII85{}
	case "rl":
		return pdf.FilterRunLength{}
	}
	return fbParseFilterDesc(desc)
}

// oracleChainRT writes data through OpenStream with the filters and reads it back.
func oracleChainRT(v pdf.Version, descs []string, data []byte, r *Rand, wmode, rmode int) (ok bool, key, detail string) {
	defer func() {
		if p := recover(); p != nil {
			ok, key, detail = false, "panic", fmt.Sprint("panic: ", p)
		}
	}()
	var filters []pdf.Filter
	for _, d := range descs {
		filters = append(filters, fbChainFilter(d))
	}
	buf := &bytes.Buffer{}
	w, err := pdf.NewWriter(buf, v, nil)
	if err != nil {
		return true, "", "NewWriter: " + err.Error()
	}
	ref := w.Alloc()
	stm, err := w.OpenStream(ref, pdf.Dict{"Quir": pdf.Name("probe")}, filters...)
	if err != nil {
		// not every filter is available in every version; that is not a round-trip failure
		for _, f := range filters {
			if _, _, ierr := f.Info(v); ierr != nil {
				return true, "", "not validated: " + ierr.Error()
			}
		}
		return false, "openstream-error", fmt.Sprintf("every filter validates but OpenStream fails: %v", err)
	}
	if err := fbWriteChunked(stm, data, r, wmode); err != nil {
		return false, "chain-write", "Write: " + err.Error()
	}
	if err := stm.Close(); err != nil {
		return false, "chain-write", "Close: " + err.Error()
	}
	if err := fbAddPage(w); err != nil {
		return true, "", err.Error()
	}
	w.GetMeta().Trailer["Quir"] = ref
	if err := w.Close(); err != nil {
		return false, "chain-write", "Writer.Close: " + err.Error()
	}
	rd, err := pdf.NewReader(bytes.NewReader(buf.Bytes()), int64(buf.Len()), nil)
	if err != nil {
		return false, "chain-read", "NewReader: " + err.Error()
	}
	obj, err := rd.Get(ref, true)
	if err != nil {
		return false, "chain-read", "Get: " + err.Error()
	}
	s, isStream := obj.(*pdf.Stream)
	if !isStream {
		return false, "chain-read", fmt.Sprintf("object is %T, not a stream", obj)
	}
	// the dictionary must name the filters in order with aligned parameters
	fs, err := pdf.GetFilters(rd, nil, s.Dict)
	if err != nil {
		return false, "chain-read", "GetFilters: " + err.Error()
	}
	if len(fs) != len(filters) {
		return false, "chain-params", fmt.Sprintf("wrote %d filters, read %d (%v)", len(filters), len(fs), s.Dict)
	}
	for i := range fs {
		want, got := fbEffective(filters[i], v), fbDescFilter(fs[i])
		if want != got {
			return false, "chain-params", fmt.Sprintf("filter %d: wrote %s, read %s (dict %v)", i, want, got, s.Dict)
		}
	}
	dec, err := pdf.DecodeStream(rd, nil, s)
	if err != nil {
		return false, "chain-read", "DecodeStream: " + err.Error()
	}
	out, err := fbReadChunked(dec, r, rmode, 0)
	dec.Close()
	if err != nil {
		return false, "chain-roundtrip", fmt.Sprintf("reading failed: %v (filters %v, in=%s)", err, descs, fbTrunc(data))
	}
	if !bytes.Equal(out, data) {
		key := "chain-roundtrip"
		for _, d := range descs {
			// D17: ascii85Reader.Read drops the bytes of the final partial group that do not fit
			// into the caller's buffer (leftover is set, then io.EOF is latched before it is delivered)
			if d == "a85" && len(out) < len(data) && len(data)-len(out) <= 3 && bytes.HasPrefix(data, out) {
				key = "ascii85-leftover-lost"
			}
		}
		return false, key, fmt.Sprintf("data differs (filters %v, in=%s out=%s)", descs, fbTrunc(data), fbTrunc(out))
	}
	return true, "", ""
}

// replay input: "<version> <wmode> <rmode> <desc;desc;…> <datahex>"
func replayChainRT(input string) (bool, string) {
	a := fbFields(input)
	if len(a) != 5 {
		return true, "bad replay input"
	}
	ok, key, d := oracleChainRT(pdf.Version(fbAtoi(a[0])), strings.Split(a[3], ";"), fbHexDecode(a[4]), NewRand(1), fbAtoi(a[1]), fbAtoi(a[2]))
	return ok, key + " " + d
}

func runFBChains(c *Ctx) {
	r := c.R.Fork()
	n := 250
	if c.Thorough {
		n = 4000
	}
	free := []string{"ahx", "a85", "rl", "flate:0,0,0,0", "flate:1,0,0,0", "lzw:0,0,0,0,1", "lzw:1,0,0,0,0", "compress:0,0,0,0"}
	for i := 0; i < n; i++ {
		v := pdf.Version(3 + r.Intn(7)) // 1.2 … 2.0 (Flate needs 1.2)
		if r.P(1, 8) {
			v = pdf.Version(1 + r.Intn(2))
		}
		k := 1 + r.Intn(3)
		descs := make([]string, k)
		for j := range descs {
			descs[j] = Pick(r, free)
		}
		var data []byte
		switch r.Intn(4) {
		case 0: // the innermost filter (applied to the data first) has a predictor
			p := fbGenPred(r, false)
			if err, rb, _ := pdf.VerifPredictValidate(p.params()); err == nil {
				kind := Pick(r, []string{"flate", "lzw", "compress"})
				descs[k-1] = fmt.Sprintf("%s:%d,%d,%d,%d", kind, p.pred, p.colors, p.bpc, p.columns)
				if kind == "lzw" {
					descs[k-1] += "," + fbB(r.Bool())
				}
				data = fbGenRowData(r, rb*r.Intn(6))
			}
		case 1: // CCITTFax in a supported class
			p := fbGenCC(r)
			p.ignEOB = false
			if p.align && !(p.k >= 0 && p.eol) {
				p.align = false
			}
			nrows := 1 + r.Intn(4)
			if p.k > 0 || r.Bool() {
				p.rows = nrows
			}
			d := fbGenCCData(r, p, nrows)
			if fbCCClass(p, d) == "" && fbCCAdmissible(p, d) {
				descs[k-1] = strings.Replace(fbDescFilter(p.filter()), " ", "", -1)
				data = d
			}
		}
		if data == nil {
			data = genBytes(r, 600)
			if r.P(1, 6) {
				data = bytes.Repeat([]byte{byte(r.U64())}, 120+r.Intn(20))
			}
		}
		wmode, rmode := r.Intn(4), r.Intn(4)
		ok, key, detail := oracleChainRT(v, descs, data, r, wmode, rmode)
		c.Case(fmt.Sprintf("chain:%d:%v:%x", v, descs, data), len(data) > 0)
		c.Stat(fmt.Sprintf("chain_len_%d", k))
		if strings.HasPrefix(detail, "not validated") {
			c.Stat("chain_not_validated")
		}
		if i < 2 {
			c.Sample(fmt.Sprintf("chain v=%d %v %d bytes", v, descs, len(data)))
		}
		if !ok {
			c.Violate("fb-chain-rt", key, detail, fmt.Sprintf("%d %d %d %s %s", v, wmode, rmode, strings.Join(descs, ";"), hexWire(data)))
		}
	}
}
